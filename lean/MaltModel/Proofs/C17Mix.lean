import MaltModel.Proofs.C17Fresh
/- C17 helper lemmas: node identity of the instantiated tree in full — fresh labels for everything that is copied,
and the labels of the nodes `visit_arg` inserts without a copy, each exactly where `sharedE` lists it.
`Mix s n L n' S`: the labels of `L` that are ≥ `s` are exactly `n, …, n'-1` (in order) and those below `s` are exactly `S`. -/
set_option linter.unusedSimpArgs false
set_option linter.unusedVariables false
namespace Malt.Conv.Template
open Malt.Py

def Mix (s n : Nat) (L : List Nat) (n' : Nat) (S : List Nat) : Prop :=
  n ≤ n' ∧ L.filter (fun l => decide (s ≤ l)) = List.range' n (n' - n) ∧ L.filter (fun l => !decide (s ≤ l)) = S

theorem Mix.nil (s n : Nat) : Mix s n [] n [] := by simp [Mix]

theorem Mix.le {s n n' : Nat} {L S : List Nat} (h : Mix s n L n' S) : n ≤ n' := h.1

theorem filter_range_ge (s n k : Nat) (h : s ≤ n) : (List.range' n k).filter (fun l => decide (s ≤ l)) = List.range' n k := by
  apply List.filter_eq_self.2
  intro a ha
  rw [List.mem_range'_1] at ha
  simp; omega

theorem filter_range_lt (s n k : Nat) (h : s ≤ n) : (List.range' n k).filter (fun l => !decide (s ≤ l)) = [] := by
  apply List.filter_eq_nil_iff.2
  intro a ha
  rw [List.mem_range'_1] at ha
  simp; omega

theorem Mix.ofFresh {s n n' : Nat} {L : List Nat} (h : Fresh n L n') (hs : s ≤ n) : Mix s n L n' [] := by
  obtain ⟨h1, h2⟩ := h
  refine ⟨h1, ?_, ?_⟩
  · rw [h2]; exact filter_range_ge s n _ hs
  · rw [h2]; exact filter_range_lt s n _ hs

theorem Mix.append {s a b c : Nat} {L1 L2 S1 S2 : List Nat} (h1 : Mix s a L1 b S1) (h2 : Mix s b L2 c S2) :
    Mix s a (L1 ++ L2) c (S1 ++ S2) := by
  obtain ⟨ha, f1, g1⟩ := h1
  obtain ⟨hb, f2, g2⟩ := h2
  refine ⟨by omega, ?_, ?_⟩
  · rw [List.filter_append, f1, f2]
    exact (Fresh.append (a := a) (b := b) (c := c) ⟨ha, rfl⟩ ⟨hb, rfl⟩).2
  · rw [List.filter_append, g1, g2]

theorem Mix.cons {s n n' : Nat} {L S : List Nat} (hs : s ≤ n) (h : Mix s (n + 1) L n' S) : Mix s n (n :: L) n' S := by
  have h0 : Mix s n [n] (n + 1) [] := Mix.ofFresh (Fresh.single n) hs
  have := Mix.append h0 h
  simpa using this

theorem Mix.shared {s n : Nat} {L : List Nat} (h : ∀ l ∈ L, l < s) : Mix s n L n L := by
  refine ⟨Nat.le_refl _, ?_, ?_⟩
  · simp only [Nat.sub_self, List.range'_zero]
    apply List.filter_eq_nil_iff.2
    intro a ha
    have := h a ha
    simp; omega
  · apply List.filter_eq_self.2
    intro a ha
    have := h a ha
    simp; omega

theorem nodup_of_partition (p : Nat → Bool) : ∀ (L : List Nat), (L.filter p).Nodup → (L.filter (fun l => !p l)).Nodup → L.Nodup
  | [], _, _ => List.nodup_nil
  | a :: L, h1, h2 => by
      by_cases hp : p a = true
      · simp only [List.filter_cons, hp, if_true, Bool.not_true, Bool.false_eq_true, if_false, List.nodup_cons] at h1 h2
        refine List.nodup_cons.2 ⟨?_, nodup_of_partition p L h1.2 h2⟩
        intro ha
        exact h1.1 (List.mem_filter.2 ⟨ha, hp⟩)
      · have hp' : p a = false := by simpa using hp
        simp only [List.filter_cons, hp', Bool.false_eq_true, if_false, Bool.not_false, if_true, List.nodup_cons] at h1 h2
        refine List.nodup_cons.2 ⟨?_, nodup_of_partition p L h1 h2.2⟩
        intro ha
        exact h2.1 (List.mem_filter.2 ⟨ha, by simp [hp']⟩)

theorem Mix.nodup {s n n' : Nat} {L S : List Nat} (h : Mix s n L n' S) (hS : S.Nodup) : L.Nodup := by
  obtain ⟨_, f, g⟩ := h
  apply nodup_of_partition (fun l => decide (s ≤ l)) L
  · rw [f]; exact List.nodup_range'
  · rw [g]; exact hS

theorem Mix.low_mem {s n n' : Nat} {L S : List Nat} (h : Mix s n L n' S) : ∀ l ∈ L, l < s → l ∈ S := by
  intro l hl hlt
  rw [← h.2.2]
  exact List.mem_filter.2 ⟨hl, by simp; omega⟩

theorem Mix.high_bounds {s n n' : Nat} {L S : List Nat} (h : Mix s n L n' S) : ∀ l ∈ L, s ≤ l → n ≤ l ∧ l < n' := by
  intro l hl hge
  have : l ∈ L.filter (fun l => decide (s ≤ l)) := List.mem_filter.2 ⟨hl, by simp; omega⟩
  rw [h.2.1, List.mem_range'_1] at this
  omega

/-! ### labels of bound nodes are labels of the bindings -/
theorem lookup_labels : ∀ (b : Bindings) (nm : String) (bd : Binding), b.lookup nm = some bd → ∀ l ∈ bd.labels, l ∈ bindingLabels b
  | [], nm, bd, h => by simp [List.lookup] at h
  | (k, v) :: r, nm, bd, h => by
      intro l hl
      simp only [List.lookup] at h
      simp only [bindingLabels, List.mem_append]
      split at h
      · simp only [Option.some.injEq] at h
        subst h
        exact Or.inl hl
      · exact Or.inr (lookup_labels r nm bd h l hl)

theorem exprs_labels (bd : Binding) : ∀ l ∈ labelsEs bd.exprs, l ∈ bd.labels := by
  cases bd <;> simp [Binding.exprs, Binding.labels, labelsEs]

theorem labelsEs_filter_sub (p : Expr → Bool) : ∀ (es : List Expr), ∀ l ∈ labelsEs (es.filter p), l ∈ labelsEs es
  | [], l, h => by simp [labelsEs] at h
  | e :: es, l, h => by
      simp only [List.filter_cons] at h
      simp only [labelsEs, List.mem_append]
      split at h
      · simp only [labelsEs, List.mem_append] at h
        rcases h with h | h
        · exact Or.inl h
        · exact Or.inr (labelsEs_filter_sub p es l h)
      · exact Or.inr (labelsEs_filter_sub p es l h)

theorem argRepl_mix (s : Nat) : ∀ (es : List Expr) (n : Nat), s ≤ n → (∀ l ∈ labelsEs es, l < s) →
    Mix s n (labelsEs (argRepl es n).1) (argRepl es n).2 (labelsEs (es.filter notName))
  | [], n, _, _ => by simp only [argRepl, labelsEs, List.filter_nil]; exact Mix.nil _ _
  | e :: es, n, hs, hl => by
      have hl2 : ∀ l ∈ labelsEs es, l < s := fun l h => hl l (by simp [labelsEs, h])
      have hl1 : ∀ l ∈ labelsE e, l < s := fun l h => hl l (by simp [labelsEs, h])
      cases e with
      | name i id c =>
          have ih := argRepl_mix s es (n + 1) (by omega) hl2
          simp only [argRepl, labelsEs, labelsE, List.filter_cons, notName, isName, Bool.not_true, Bool.false_eq_true, if_false,
            List.nil_append, List.cons_append]
          exact Mix.cons hs ih
      | _ =>
          have ih := argRepl_mix s es n hs hl2
          simp only [argRepl, labelsEs, List.filter_cons, notName, isName, Bool.not_false, if_true]
          exact Mix.append (Mix.shared hl1) ih

/-! ### `ReplaceTransformer`: identities of all result nodes -/
mutual
theorem instE_mix (b : Bindings) (s : Nat) (hb : ∀ l ∈ bindingLabels b, l < s) : ∀ (e : Expr) (n : Nat) (r : List Expr) (n' : Nat),
    s ≤ n → instE b e n = .ok (r, n') → Mix s n (labelsEs r) n' (sharedE b e)
  | .noneMarker, n, r, n', _, h => by
      simp only [instE, Except.ok.injEq, Prod.mk.injEq] at h
      obtain ⟨rfl, rfl⟩ := h
      simp only [labelsEs, labelsE, List.append_nil, sharedE]; exact Mix.nil _ _
  | .name _ nm c, n, r, n', hs, h => by
      have hf := instE_fresh b (.name 0 nm c) n r n' (by simp [argsOkE]) (by simpa [instE] using h)
      simp only [sharedE]
      exact Mix.ofFresh hf hs
  | .attr _ f_value f_attr f_ctx, n, r, n', hs, h => by
      simp only [instE, R.bind_ok, single_ok] at h
      obtain ⟨v', n1, h1, h2⟩ := h
      have i1 := instE_mix b s hb f_value _ _ _ (by omega) h1
      split at h2
      · simp only [Except.ok.injEq, Prod.mk.injEq] at h2
        obtain ⟨rfl, rfl⟩ := h2
        simp only [labelsEs, labelsE, List.append_nil, sharedE] at i1 ⊢
        exact Mix.cons hs i1
      · simp at h2
  | .keyword _ f_arg f_hasArg f_value, n, r, n', hs, h => by
      simp only [instE] at h
      simp only [sharedE]
      split at h
      · rename_i bd hl
        split at h
        · simp only [Except.ok.injEq, Prod.mk.injEq] at h
          obtain ⟨rfl, rfl⟩ := h
          exact Mix.ofFresh (copyEs_fresh _ _) hs
        · simp at h
      · rename_i hnone
        simp only [R.bind_ok, single_ok] at h
        obtain ⟨v', n1, h1, h2⟩ := h
        have i1 := instE_mix b s hb f_value _ _ _ (by omega) h1
        simp only [Except.ok.injEq, Prod.mk.injEq] at h2
        obtain ⟨rfl, rfl⟩ := h2
        simp only [labelsEs, labelsE, List.append_nil] at i1 ⊢
        exact Mix.cons hs i1
  | .arg _ f_name f_annotation, n, r, n', hs, h => by
      simp only [instE] at h
      simp only [sharedE]
      split at h
      · rename_i hl
        rw [hl]
        simp only [Except.ok.injEq, Prod.mk.injEq] at h
        obtain ⟨rfl, rfl⟩ := h
        simp only [labelsEs, labelsE, List.append_nil]
        exact Mix.cons hs (Mix.ofFresh (copyEs_fresh _ _) (by omega))
      · rename_i e hl
        rw [hl]
        simp only [Except.ok.injEq, Prod.mk.injEq] at h
        obtain ⟨rfl, rfl⟩ := h
        exact argRepl_mix s [e] n hs (fun l h => hb l (lookup_labels b _ _ hl l (exprs_labels (.node e) l h)))
      · rename_i es hl
        rw [hl]
        simp only [Except.ok.injEq, Prod.mk.injEq] at h
        obtain ⟨rfl, rfl⟩ := h
        exact argRepl_mix s es n hs (fun l h => hb l (lookup_labels b _ _ hl l (exprs_labels (.nodes es) l h)))
      · rename_i hl
        rw [hl]
        simp only [Except.ok.injEq, Prod.mk.injEq] at h
        obtain ⟨rfl, rfl⟩ := h
        simp only [Binding.exprs, List.filter_nil, labelsEs]
        exact Mix.nil _ _
      · simp at h
  | .subscript _ f_value f_slice f_ctx, n, r, n', hs, h => by
      simp only [instE, R.bind_ok, single_ok, sameLen_ok, atMost_ok] at h
      obtain ⟨x0, m0, h0, x1, m1, h1, hres⟩ := h
      simp only [Except.ok.injEq, Prod.mk.injEq] at hres
      obtain ⟨rfl, rfl⟩ := hres
      have i0 := instE_mix b s hb f_value _ _ _ (by omega) h0
      have i1 := instE_mix b s hb f_slice _ _ _ (by have := i0.le; omega) h1
      simp only [labelsEs, labelsE, List.append_nil, sharedE] at i0 i1 ⊢
      exact Mix.cons hs (Mix.append i0 i1)
  | .seq _ f_kind f_elts f_ctx, n, r, n', hs, h => by
      simp only [instE, R.bind_ok, single_ok, sameLen_ok, atMost_ok] at h
      obtain ⟨x0, m0, h0, hres⟩ := h
      simp only [Except.ok.injEq, Prod.mk.injEq] at hres
      obtain ⟨rfl, rfl⟩ := hres
      have i0 := instEs_mix b s hb f_elts _ _ _ (by omega) h0
      simp only [labelsEs, labelsE, List.append_nil, sharedE] at i0 ⊢
      exact Mix.cons hs i0
  | .starred _ f_value f_ctx, n, r, n', hs, h => by
      simp only [instE, R.bind_ok, single_ok, sameLen_ok, atMost_ok] at h
      obtain ⟨x0, m0, h0, hres⟩ := h
      simp only [Except.ok.injEq, Prod.mk.injEq] at hres
      obtain ⟨rfl, rfl⟩ := hres
      have i0 := instE_mix b s hb f_value _ _ _ (by omega) h0
      simp only [labelsEs, labelsE, List.append_nil, sharedE] at i0 ⊢
      exact Mix.cons hs i0
  | .const _ f_kind f_repr, n, r, n', hs, h => by
      simp only [instE, R.bind_ok, single_ok, sameLen_ok, atMost_ok] at h
      have hres := h
      simp only [Except.ok.injEq, Prod.mk.injEq] at hres
      obtain ⟨rfl, rfl⟩ := hres
      simp only [labelsEs, labelsE, List.append_nil, sharedE]
      exact Mix.cons hs (Mix.nil _ _)
  | .call _ f_func f_args f_keywords, n, r, n', hs, h => by
      simp only [instE, R.bind_ok, single_ok, sameLen_ok, atMost_ok] at h
      obtain ⟨x0, m0, h0, x1, m1, h1, x2, m2, h2, hres⟩ := h
      simp only [Except.ok.injEq, Prod.mk.injEq] at hres
      obtain ⟨rfl, rfl⟩ := hres
      have i0 := instE_mix b s hb f_func _ _ _ (by omega) h0
      have i1 := instEs_mix b s hb f_args _ _ _ (by have := i0.le; omega) h1
      have i2 := instEs_mix b s hb f_keywords _ _ _ (by have := i0.le; have := i1.le; omega) h2
      simp only [labelsEs, labelsE, List.append_nil, sharedE] at i0 i1 i2 ⊢
      exact Mix.cons hs (Mix.append i0 (Mix.append i1 i2))
  | .boolop _ f_isAnd f_values, n, r, n', hs, h => by
      simp only [instE, R.bind_ok, single_ok, sameLen_ok, atMost_ok] at h
      obtain ⟨x0, m0, h0, hres⟩ := h
      simp only [Except.ok.injEq, Prod.mk.injEq] at hres
      obtain ⟨rfl, rfl⟩ := hres
      have i0 := instEs_mix b s hb f_values _ _ _ (by omega) h0
      simp only [labelsEs, labelsE, List.append_nil, sharedE] at i0 ⊢
      exact Mix.cons hs i0
  | .unary _ f_op f_operand, n, r, n', hs, h => by
      simp only [instE, R.bind_ok, single_ok, sameLen_ok, atMost_ok] at h
      obtain ⟨x0, m0, h0, hres⟩ := h
      simp only [Except.ok.injEq, Prod.mk.injEq] at hres
      obtain ⟨rfl, rfl⟩ := hres
      have i0 := instE_mix b s hb f_operand _ _ _ (by omega) h0
      simp only [labelsEs, labelsE, List.append_nil, sharedE] at i0 ⊢
      exact Mix.cons hs i0
  | .binop _ f_op f_left f_right, n, r, n', hs, h => by
      simp only [instE, R.bind_ok, single_ok, sameLen_ok, atMost_ok] at h
      obtain ⟨x0, m0, h0, x1, m1, h1, hres⟩ := h
      simp only [Except.ok.injEq, Prod.mk.injEq] at hres
      obtain ⟨rfl, rfl⟩ := hres
      have i0 := instE_mix b s hb f_left _ _ _ (by omega) h0
      have i1 := instE_mix b s hb f_right _ _ _ (by have := i0.le; omega) h1
      simp only [labelsEs, labelsE, List.append_nil, sharedE] at i0 i1 ⊢
      exact Mix.cons hs (Mix.append i0 i1)
  | .compare _ f_left f_ops f_comparators, n, r, n', hs, h => by
      simp only [instE, R.bind_ok, single_ok, sameLen_ok, atMost_ok] at h
      obtain ⟨x0, m0, h0, x1, m1, ⟨h1, _⟩, hres⟩ := h
      simp only [Except.ok.injEq, Prod.mk.injEq] at hres
      obtain ⟨rfl, rfl⟩ := hres
      have i0 := instE_mix b s hb f_left _ _ _ (by omega) h0
      have i1 := instEs_mix b s hb f_comparators _ _ _ (by have := i0.le; omega) h1
      simp only [labelsEs, labelsE, List.append_nil, sharedE] at i0 i1 ⊢
      exact Mix.cons hs (Mix.append i0 i1)
  | .ifexp _ f_test f_body f_orelse, n, r, n', hs, h => by
      simp only [instE, R.bind_ok, single_ok, sameLen_ok, atMost_ok] at h
      obtain ⟨x0, m0, h0, x1, m1, h1, x2, m2, h2, hres⟩ := h
      simp only [Except.ok.injEq, Prod.mk.injEq] at hres
      obtain ⟨rfl, rfl⟩ := hres
      have i0 := instE_mix b s hb f_test _ _ _ (by omega) h0
      have i1 := instE_mix b s hb f_body _ _ _ (by have := i0.le; omega) h1
      have i2 := instE_mix b s hb f_orelse _ _ _ (by have := i0.le; have := i1.le; omega) h2
      simp only [labelsEs, labelsE, List.append_nil, sharedE] at i0 i1 i2 ⊢
      exact Mix.cons hs (Mix.append i0 (Mix.append i1 i2))
  | .lambda _ f_args f_body, n, r, n', hs, h => by
      simp only [instE, R.bind_ok, single_ok, sameLen_ok, atMost_ok] at h
      obtain ⟨x0, m0, h0, x1, m1, h1, hres⟩ := h
      simp only [Except.ok.injEq, Prod.mk.injEq] at hres
      obtain ⟨rfl, rfl⟩ := hres
      have i0 := instE_mix b s hb f_args _ _ _ (by omega) h0
      have i1 := instE_mix b s hb f_body _ _ _ (by have := i0.le; omega) h1
      simp only [labelsEs, labelsE, List.append_nil, sharedE] at i0 i1 ⊢
      exact Mix.cons hs (Mix.append i0 i1)
  | .namedexpr _ f_target f_value, n, r, n', hs, h => by
      simp only [instE, R.bind_ok, single_ok, sameLen_ok, atMost_ok] at h
      obtain ⟨x0, m0, h0, x1, m1, h1, hres⟩ := h
      simp only [Except.ok.injEq, Prod.mk.injEq] at hres
      obtain ⟨rfl, rfl⟩ := hres
      have i0 := instE_mix b s hb f_target _ _ _ (by omega) h0
      have i1 := instE_mix b s hb f_value _ _ _ (by have := i0.le; omega) h1
      simp only [labelsEs, labelsE, List.append_nil, sharedE] at i0 i1 ⊢
      exact Mix.cons hs (Mix.append i0 i1)
  | .comp _ f_kind f_elts f_generators, n, r, n', hs, h => by
      simp only [instE, R.bind_ok, single_ok, sameLen_ok, atMost_ok] at h
      obtain ⟨x0, m0, ⟨h0, _⟩, x1, m1, h1, hres⟩ := h
      simp only [Except.ok.injEq, Prod.mk.injEq] at hres
      obtain ⟨rfl, rfl⟩ := hres
      have i0 := instEs_mix b s hb f_elts _ _ _ (by omega) h0
      have i1 := instEs_mix b s hb f_generators _ _ _ (by have := i0.le; omega) h1
      simp only [labelsEs, labelsE, List.append_nil, sharedE] at i0 i1 ⊢
      exact Mix.cons hs (Mix.append i0 i1)
  | .comprehension _ f_target f_iter f_ifs f_isAsync, n, r, n', hs, h => by
      simp only [instE, R.bind_ok, single_ok, sameLen_ok, atMost_ok] at h
      obtain ⟨x0, m0, h0, x1, m1, h1, x2, m2, h2, hres⟩ := h
      simp only [Except.ok.injEq, Prod.mk.injEq] at hres
      obtain ⟨rfl, rfl⟩ := hres
      have i0 := instE_mix b s hb f_target _ _ _ (by omega) h0
      have i1 := instE_mix b s hb f_iter _ _ _ (by have := i0.le; omega) h1
      have i2 := instEs_mix b s hb f_ifs _ _ _ (by have := i0.le; have := i1.le; omega) h2
      simp only [labelsEs, labelsE, List.append_nil, sharedE] at i0 i1 i2 ⊢
      exact Mix.cons hs (Mix.append i0 (Mix.append i1 i2))
  | .arguments _ f_posonly f_args f_vararg f_kwonly f_kwDefaults f_kwarg f_defaults, n, r, n', hs, h => by
      simp only [instE, R.bind_ok, single_ok, sameLen_ok, atMost_ok] at h
      obtain ⟨x0, m0, h0, x1, m1, h1, x2, m2, ⟨h2, _⟩, x3, m3, h3, x4, m4, ⟨h4, _⟩, x5, m5, ⟨h5, _⟩, x6, m6, ⟨h6, _⟩, hres⟩ := h
      simp only [Except.ok.injEq, Prod.mk.injEq] at hres
      obtain ⟨rfl, rfl⟩ := hres
      have i0 := instEs_mix b s hb f_posonly _ _ _ (by omega) h0
      have i1 := instEs_mix b s hb f_args _ _ _ (by have := i0.le; omega) h1
      have i2 := instEs_mix b s hb f_vararg _ _ _ (by have := i0.le; have := i1.le; omega) h2
      have i3 := instEs_mix b s hb f_kwonly _ _ _ (by have := i0.le; have := i1.le; have := i2.le; omega) h3
      have i4 := instEs_mix b s hb f_kwDefaults _ _ _ (by have := i0.le; have := i1.le; have := i2.le; have := i3.le; omega) h4
      have i5 := instEs_mix b s hb f_kwarg _ _ _ (by have := i0.le; have := i1.le; have := i2.le; have := i3.le; have := i4.le; omega) h5
      have i6 := instEs_mix b s hb f_defaults _ _ _ (by have := i0.le; have := i1.le; have := i2.le; have := i3.le; have := i4.le; have := i5.le; omega) h6
      simp only [labelsEs, labelsE, List.append_nil, sharedE] at i0 i1 i2 i3 i4 i5 i6 ⊢
      exact Mix.cons hs (Mix.append i0 (Mix.append i1 (Mix.append i2 (Mix.append i3 (Mix.append i4 (Mix.append i5 i6))))))
  | .withitem _ f_contextExpr f_optionalVars, n, r, n', hs, h => by
      simp only [instE, R.bind_ok, single_ok, sameLen_ok, atMost_ok] at h
      obtain ⟨x0, m0, h0, x1, m1, ⟨h1, _⟩, hres⟩ := h
      simp only [Except.ok.injEq, Prod.mk.injEq] at hres
      obtain ⟨rfl, rfl⟩ := hres
      have i0 := instE_mix b s hb f_contextExpr _ _ _ (by omega) h0
      have i1 := instEs_mix b s hb f_optionalVars _ _ _ (by have := i0.le; omega) h1
      simp only [labelsEs, labelsE, List.append_nil, sharedE] at i0 i1 ⊢
      exact Mix.cons hs (Mix.append i0 i1)
  | .other _ f_kind f_attrs f_kids, n, r, n', hs, h => by
      simp only [instE, R.bind_ok, single_ok, sameLen_ok, atMost_ok] at h
      obtain ⟨x0, m0, ⟨h0, _⟩, hres⟩ := h
      simp only [Except.ok.injEq, Prod.mk.injEq] at hres
      obtain ⟨rfl, rfl⟩ := hres
      have i0 := instEs_mix b s hb f_kids _ _ _ (by omega) h0
      simp only [labelsEs, labelsE, List.append_nil, sharedE] at i0 ⊢
      exact Mix.cons hs i0
theorem instEs_mix (b : Bindings) (s : Nat) (hb : ∀ l ∈ bindingLabels b, l < s) : ∀ (es : List Expr) (n : Nat) (r : List Expr) (n' : Nat),
    s ≤ n → instEs b es n = .ok (r, n') → Mix s n (labelsEs r) n' (sharedEs b es)
  | [], n, r, n', _, h => by
      simp only [instEs, Except.ok.injEq, Prod.mk.injEq] at h
      obtain ⟨rfl, rfl⟩ := h
      exact Mix.nil _ _
  | e :: es, n, r, n', hs, h => by
      simp only [instEs, R.bind_ok] at h
      obtain ⟨l, n1, h1, t, n2, h2, hres⟩ := h
      simp only [Except.ok.injEq, Prod.mk.injEq] at hres
      obtain ⟨rfl, rfl⟩ := hres
      have i1 := instE_mix b s hb e _ _ _ hs h1
      have i2 := instEs_mix b s hb es _ _ _ (by have := i1.le; omega) h2
      rw [labelsEs_append]
      exact Mix.append i1 i2
end

mutual
theorem instS_mix (b : Bindings) (s : Nat) (hb : ∀ l ∈ bindingLabels b, l < s) : ∀ (st : Stmt) (n : Nat) (r : List Stmt) (n' : Nat),
    s ≤ n → instS b st n = .ok (r, n') → Mix s n (labelsSs r) n' (sharedS b st)
  | .expr _ f_value, n, r, n', hs, h => by
      simp only [instS] at h
      split at h
      · rename_i i nm c
        have hf := instS_fresh b (.expr 0 (.name i nm c)) n r n' (by simp [argsOkS]) (by simpa [instS] using h)
        simp only [sharedS]
        exact Mix.ofFresh hf hs
      · rename_i hnn
        simp only [R.bind_ok, single_ok] at h
        obtain ⟨v', n1, h1, h2⟩ := h
        have i1 := instE_mix b s hb f_value _ _ _ (by omega) h1
        simp only [Except.ok.injEq, Prod.mk.injEq] at h2
        obtain ⟨rfl, rfl⟩ := h2
        have hsh' : ∀ i, sharedS b (.expr i f_value) = sharedE b f_value := by
          intro i
          cases f_value <;> first | rfl | (exact absurd rfl (hnn _ _ _))
        rw [hsh']
        simp only [labelsSs, labelsS, labelsEs, List.append_nil] at i1 ⊢
        exact Mix.cons hs i1
  | .functionDef _ f_name f_args f_body f_decorators f_returns f_isAsync, n, r, n', hs, h => by
      simp only [instS, R.bind_ok, single_ok, sameLen_ok] at h
      obtain ⟨x0, m0, h0, x1, m1, h1, x2, m2, h2, x3, m3, ⟨h3, _⟩, hres⟩ := h
      have i0 := instE_mix b s hb f_args _ _ _ (by omega) h0
      have i1 := instSs_mix b s hb f_body _ _ _ (by have := i0.le; omega) h1
      have i2 := instEs_mix b s hb f_decorators _ _ _ (by have := i0.le; have := i1.le; omega) h2
      have i3 := instEs_mix b s hb f_returns _ _ _ (by have := i0.le; have := i1.le; have := i2.le; omega) h3
      split at hres
      · simp only [Except.ok.injEq, Prod.mk.injEq] at hres
        obtain ⟨rfl, rfl⟩ := hres
        simp only [labelsSs, labelsS, labelsEs, labelsE, List.append_nil, sharedS] at i0 i1 i2 i3 ⊢
        exact Mix.cons hs (Mix.append i0 (Mix.append i1 (Mix.append i2 i3)))
      · simp at hres
  | .classDef _ f_name f_bases f_keywords f_body f_decorators, n, r, n', hs, h => by
      simp only [instS, R.bind_ok, single_ok, sameLen_ok, atMost_ok] at h
      obtain ⟨x0, m0, h0, x1, m1, h1, x2, m2, h2, x3, m3, h3, hres⟩ := h
      simp only [Except.ok.injEq, Prod.mk.injEq] at hres
      obtain ⟨rfl, rfl⟩ := hres
      have i0 := instEs_mix b s hb f_bases _ _ _ (by omega) h0
      have i1 := instEs_mix b s hb f_keywords _ _ _ (by have := i0.le; omega) h1
      have i2 := instSs_mix b s hb f_body _ _ _ (by have := i0.le; have := i1.le; omega) h2
      have i3 := instEs_mix b s hb f_decorators _ _ _ (by have := i0.le; have := i1.le; have := i2.le; omega) h3
      simp only [labelsSs, labelsS, labelsEs, labelsE, List.append_nil, sharedS] at i0 i1 i2 i3 ⊢
      exact Mix.cons hs (Mix.append i0 (Mix.append i1 (Mix.append i2 i3)))
  | .ret _ f_value, n, r, n', hs, h => by
      simp only [instS, R.bind_ok, single_ok, sameLen_ok, atMost_ok] at h
      obtain ⟨x0, m0, ⟨h0, _⟩, hres⟩ := h
      simp only [Except.ok.injEq, Prod.mk.injEq] at hres
      obtain ⟨rfl, rfl⟩ := hres
      have i0 := instEs_mix b s hb f_value _ _ _ (by omega) h0
      simp only [labelsSs, labelsS, labelsEs, labelsE, List.append_nil, sharedS] at i0 ⊢
      exact Mix.cons hs i0
  | .delete _ f_targets, n, r, n', hs, h => by
      simp only [instS, R.bind_ok, single_ok, sameLen_ok, atMost_ok] at h
      obtain ⟨x0, m0, h0, hres⟩ := h
      simp only [Except.ok.injEq, Prod.mk.injEq] at hres
      obtain ⟨rfl, rfl⟩ := hres
      have i0 := instEs_mix b s hb f_targets _ _ _ (by omega) h0
      simp only [labelsSs, labelsS, labelsEs, labelsE, List.append_nil, sharedS] at i0 ⊢
      exact Mix.cons hs i0
  | .assign _ f_targets f_value, n, r, n', hs, h => by
      simp only [instS, R.bind_ok, single_ok, sameLen_ok, atMost_ok] at h
      obtain ⟨x0, m0, h0, x1, m1, h1, hres⟩ := h
      simp only [Except.ok.injEq, Prod.mk.injEq] at hres
      obtain ⟨rfl, rfl⟩ := hres
      have i0 := instEs_mix b s hb f_targets _ _ _ (by omega) h0
      have i1 := instE_mix b s hb f_value _ _ _ (by have := i0.le; omega) h1
      simp only [labelsSs, labelsS, labelsEs, labelsE, List.append_nil, sharedS] at i0 i1 ⊢
      exact Mix.cons hs (Mix.append i0 i1)
  | .augAssign _ f_target f_op f_value, n, r, n', hs, h => by
      simp only [instS, R.bind_ok, single_ok, sameLen_ok, atMost_ok] at h
      obtain ⟨x0, m0, h0, x1, m1, h1, hres⟩ := h
      simp only [Except.ok.injEq, Prod.mk.injEq] at hres
      obtain ⟨rfl, rfl⟩ := hres
      have i0 := instE_mix b s hb f_target _ _ _ (by omega) h0
      have i1 := instE_mix b s hb f_value _ _ _ (by have := i0.le; omega) h1
      simp only [labelsSs, labelsS, labelsEs, labelsE, List.append_nil, sharedS] at i0 i1 ⊢
      exact Mix.cons hs (Mix.append i0 i1)
  | .annAssign _ f_target f_annotation f_value f_simple, n, r, n', hs, h => by
      simp only [instS, R.bind_ok, single_ok, sameLen_ok, atMost_ok] at h
      obtain ⟨x0, m0, h0, x1, m1, h1, x2, m2, ⟨h2, _⟩, hres⟩ := h
      simp only [Except.ok.injEq, Prod.mk.injEq] at hres
      obtain ⟨rfl, rfl⟩ := hres
      have i0 := instE_mix b s hb f_target _ _ _ (by omega) h0
      have i1 := instE_mix b s hb f_annotation _ _ _ (by have := i0.le; omega) h1
      have i2 := instEs_mix b s hb f_value _ _ _ (by have := i0.le; have := i1.le; omega) h2
      simp only [labelsSs, labelsS, labelsEs, labelsE, List.append_nil, sharedS] at i0 i1 i2 ⊢
      exact Mix.cons hs (Mix.append i0 (Mix.append i1 i2))
  | .for_ _ f_target f_iter f_body f_orelse f_extraTest f_isAsync, n, r, n', hs, h => by
      simp only [instS, R.bind_ok, single_ok, sameLen_ok, atMost_ok] at h
      obtain ⟨x0, m0, h0, x1, m1, h1, x2, m2, h2, x3, m3, h3, x4, m4, ⟨h4, _⟩, hres⟩ := h
      simp only [Except.ok.injEq, Prod.mk.injEq] at hres
      obtain ⟨rfl, rfl⟩ := hres
      have i0 := instE_mix b s hb f_target _ _ _ (by omega) h0
      have i1 := instE_mix b s hb f_iter _ _ _ (by have := i0.le; omega) h1
      have i2 := instSs_mix b s hb f_body _ _ _ (by have := i0.le; have := i1.le; omega) h2
      have i3 := instSs_mix b s hb f_orelse _ _ _ (by have := i0.le; have := i1.le; have := i2.le; omega) h3
      have i4 := instEs_mix b s hb f_extraTest _ _ _ (by have := i0.le; have := i1.le; have := i2.le; have := i3.le; omega) h4
      simp only [labelsSs, labelsS, labelsEs, labelsE, List.append_nil, sharedS] at i0 i1 i2 i3 i4 ⊢
      exact Mix.cons hs (Mix.append i0 (Mix.append i1 (Mix.append i2 (Mix.append i3 i4))))
  | .while_ _ f_test f_body f_orelse, n, r, n', hs, h => by
      simp only [instS, R.bind_ok, single_ok, sameLen_ok, atMost_ok] at h
      obtain ⟨x0, m0, h0, x1, m1, h1, x2, m2, h2, hres⟩ := h
      simp only [Except.ok.injEq, Prod.mk.injEq] at hres
      obtain ⟨rfl, rfl⟩ := hres
      have i0 := instE_mix b s hb f_test _ _ _ (by omega) h0
      have i1 := instSs_mix b s hb f_body _ _ _ (by have := i0.le; omega) h1
      have i2 := instSs_mix b s hb f_orelse _ _ _ (by have := i0.le; have := i1.le; omega) h2
      simp only [labelsSs, labelsS, labelsEs, labelsE, List.append_nil, sharedS] at i0 i1 i2 ⊢
      exact Mix.cons hs (Mix.append i0 (Mix.append i1 i2))
  | .if_ _ f_test f_body f_orelse, n, r, n', hs, h => by
      simp only [instS, R.bind_ok, single_ok, sameLen_ok, atMost_ok] at h
      obtain ⟨x0, m0, h0, x1, m1, h1, x2, m2, h2, hres⟩ := h
      simp only [Except.ok.injEq, Prod.mk.injEq] at hres
      obtain ⟨rfl, rfl⟩ := hres
      have i0 := instE_mix b s hb f_test _ _ _ (by omega) h0
      have i1 := instSs_mix b s hb f_body _ _ _ (by have := i0.le; omega) h1
      have i2 := instSs_mix b s hb f_orelse _ _ _ (by have := i0.le; have := i1.le; omega) h2
      simp only [labelsSs, labelsS, labelsEs, labelsE, List.append_nil, sharedS] at i0 i1 i2 ⊢
      exact Mix.cons hs (Mix.append i0 (Mix.append i1 i2))
  | .with_ _ f_items f_body f_isAsync, n, r, n', hs, h => by
      simp only [instS, R.bind_ok, single_ok, sameLen_ok, atMost_ok] at h
      obtain ⟨x0, m0, h0, x1, m1, h1, hres⟩ := h
      simp only [Except.ok.injEq, Prod.mk.injEq] at hres
      obtain ⟨rfl, rfl⟩ := hres
      have i0 := instEs_mix b s hb f_items _ _ _ (by omega) h0
      have i1 := instSs_mix b s hb f_body _ _ _ (by have := i0.le; omega) h1
      simp only [labelsSs, labelsS, labelsEs, labelsE, List.append_nil, sharedS] at i0 i1 ⊢
      exact Mix.cons hs (Mix.append i0 i1)
  | .raise _ f_exc f_cause, n, r, n', hs, h => by
      simp only [instS, R.bind_ok, single_ok, sameLen_ok, atMost_ok] at h
      obtain ⟨x0, m0, ⟨h0, _⟩, x1, m1, ⟨h1, _⟩, hres⟩ := h
      simp only [Except.ok.injEq, Prod.mk.injEq] at hres
      obtain ⟨rfl, rfl⟩ := hres
      have i0 := instEs_mix b s hb f_exc _ _ _ (by omega) h0
      have i1 := instEs_mix b s hb f_cause _ _ _ (by have := i0.le; omega) h1
      simp only [labelsSs, labelsS, labelsEs, labelsE, List.append_nil, sharedS] at i0 i1 ⊢
      exact Mix.cons hs (Mix.append i0 i1)
  | .try_ _ f_body f_handlers f_orelse f_finalbody, n, r, n', hs, h => by
      simp only [instS, R.bind_ok, single_ok, sameLen_ok, atMost_ok] at h
      obtain ⟨x0, m0, h0, x1, m1, h1, x2, m2, h2, x3, m3, h3, hres⟩ := h
      simp only [Except.ok.injEq, Prod.mk.injEq] at hres
      obtain ⟨rfl, rfl⟩ := hres
      have i0 := instSs_mix b s hb f_body _ _ _ (by omega) h0
      have i1 := instSs_mix b s hb f_handlers _ _ _ (by have := i0.le; omega) h1
      have i2 := instSs_mix b s hb f_orelse _ _ _ (by have := i0.le; have := i1.le; omega) h2
      have i3 := instSs_mix b s hb f_finalbody _ _ _ (by have := i0.le; have := i1.le; have := i2.le; omega) h3
      simp only [labelsSs, labelsS, labelsEs, labelsE, List.append_nil, sharedS] at i0 i1 i2 i3 ⊢
      exact Mix.cons hs (Mix.append i0 (Mix.append i1 (Mix.append i2 i3)))
  | .handler _ f_type_ f_name f_body, n, r, n', hs, h => by
      simp only [instS, R.bind_ok, single_ok, sameLen_ok, atMost_ok] at h
      obtain ⟨x0, m0, ⟨h0, _⟩, x1, m1, h1, hres⟩ := h
      simp only [Except.ok.injEq, Prod.mk.injEq] at hres
      obtain ⟨rfl, rfl⟩ := hres
      have i0 := instEs_mix b s hb f_type_ _ _ _ (by omega) h0
      have i1 := instSs_mix b s hb f_body _ _ _ (by have := i0.le; omega) h1
      simp only [labelsSs, labelsS, labelsEs, labelsE, List.append_nil, sharedS] at i0 i1 ⊢
      exact Mix.cons hs (Mix.append i0 i1)
  | .assert_ _ f_test f_msg, n, r, n', hs, h => by
      simp only [instS, R.bind_ok, single_ok, sameLen_ok, atMost_ok] at h
      obtain ⟨x0, m0, h0, x1, m1, ⟨h1, _⟩, hres⟩ := h
      simp only [Except.ok.injEq, Prod.mk.injEq] at hres
      obtain ⟨rfl, rfl⟩ := hres
      have i0 := instE_mix b s hb f_test _ _ _ (by omega) h0
      have i1 := instEs_mix b s hb f_msg _ _ _ (by have := i0.le; omega) h1
      simp only [labelsSs, labelsS, labelsEs, labelsE, List.append_nil, sharedS] at i0 i1 ⊢
      exact Mix.cons hs (Mix.append i0 i1)
  | .import_ _ f_names, n, r, n', hs, h => by
      simp only [instS, R.bind_ok, single_ok, sameLen_ok, atMost_ok] at h
      have hres := h
      simp only [Except.ok.injEq, Prod.mk.injEq] at hres
      obtain ⟨rfl, rfl⟩ := hres
      simp only [labelsSs, labelsS, labelsEs, labelsE, List.append_nil, sharedS]
      exact Mix.cons hs (Mix.nil _ _)
  | .importFrom _ f_module f_names f_level, n, r, n', hs, h => by
      simp only [instS, R.bind_ok, single_ok, sameLen_ok, atMost_ok] at h
      have hres := h
      simp only [Except.ok.injEq, Prod.mk.injEq] at hres
      obtain ⟨rfl, rfl⟩ := hres
      simp only [labelsSs, labelsS, labelsEs, labelsE, List.append_nil, sharedS]
      exact Mix.cons hs (Mix.nil _ _)
  | .global _ f_names, n, r, n', hs, h => by
      simp only [instS, R.bind_ok, single_ok, sameLen_ok, atMost_ok] at h
      have hres := h
      simp only [Except.ok.injEq, Prod.mk.injEq] at hres
      obtain ⟨rfl, rfl⟩ := hres
      simp only [labelsSs, labelsS, labelsEs, labelsE, List.append_nil, sharedS]
      exact Mix.cons hs (Mix.nil _ _)
  | .nonlocal _ f_names, n, r, n', hs, h => by
      simp only [instS, R.bind_ok, single_ok, sameLen_ok, atMost_ok] at h
      have hres := h
      simp only [Except.ok.injEq, Prod.mk.injEq] at hres
      obtain ⟨rfl, rfl⟩ := hres
      simp only [labelsSs, labelsS, labelsEs, labelsE, List.append_nil, sharedS]
      exact Mix.cons hs (Mix.nil _ _)
  | .pass _, n, r, n', hs, h => by
      simp only [instS, R.bind_ok, single_ok, sameLen_ok, atMost_ok] at h
      have hres := h
      simp only [Except.ok.injEq, Prod.mk.injEq] at hres
      obtain ⟨rfl, rfl⟩ := hres
      simp only [labelsSs, labelsS, labelsEs, labelsE, List.append_nil, sharedS]
      exact Mix.cons hs (Mix.nil _ _)
  | .break_ _, n, r, n', hs, h => by
      simp only [instS, R.bind_ok, single_ok, sameLen_ok, atMost_ok] at h
      have hres := h
      simp only [Except.ok.injEq, Prod.mk.injEq] at hres
      obtain ⟨rfl, rfl⟩ := hres
      simp only [labelsSs, labelsS, labelsEs, labelsE, List.append_nil, sharedS]
      exact Mix.cons hs (Mix.nil _ _)
  | .continue_ _, n, r, n', hs, h => by
      simp only [instS, R.bind_ok, single_ok, sameLen_ok, atMost_ok] at h
      have hres := h
      simp only [Except.ok.injEq, Prod.mk.injEq] at hres
      obtain ⟨rfl, rfl⟩ := hres
      simp only [labelsSs, labelsS, labelsEs, labelsE, List.append_nil, sharedS]
      exact Mix.cons hs (Mix.nil _ _)
  | .other _ f_kind f_exprs f_blocks, n, r, n', hs, h => by
      simp only [instS, R.bind_ok, single_ok, sameLen_ok, atMost_ok] at h
      obtain ⟨x0, m0, h0, x1, m1, h1, hres⟩ := h
      simp only [Except.ok.injEq, Prod.mk.injEq] at hres
      obtain ⟨rfl, rfl⟩ := hres
      have i0 := instEs_mix b s hb f_exprs _ _ _ (by omega) h0
      have i1 := instSs_mix b s hb f_blocks _ _ _ (by have := i0.le; omega) h1
      simp only [labelsSs, labelsS, labelsEs, labelsE, List.append_nil, sharedS] at i0 i1 ⊢
      exact Mix.cons hs (Mix.append i0 i1)
theorem instSs_mix (b : Bindings) (s : Nat) (hb : ∀ l ∈ bindingLabels b, l < s) : ∀ (ss : List Stmt) (n : Nat) (r : List Stmt) (n' : Nat),
    s ≤ n → instSs b ss n = .ok (r, n') → Mix s n (labelsSs r) n' (sharedSs b ss)
  | [], n, r, n', _, h => by
      simp only [instSs, Except.ok.injEq, Prod.mk.injEq] at h
      obtain ⟨rfl, rfl⟩ := h
      exact Mix.nil _ _
  | st :: ss, n, r, n', hs, h => by
      simp only [instSs, R.bind_ok] at h
      obtain ⟨l, n1, h1, t, n2, h2, hres⟩ := h
      simp only [Except.ok.injEq, Prod.mk.injEq] at hres
      obtain ⟨rfl, rfl⟩ := hres
      have i1 := instS_mix b s hb st _ _ _ hs h1
      have i2 := instSs_mix b s hb ss _ _ _ (by have := i1.le; omega) h2
      rw [labelsSs_append]
      exact Mix.append i1 i2
end

end Malt.Conv.Template
