import MaltModel.Proofs.C19
/-! Leastness of the work-list model: under a monotone transfer function, whatever `run` has computed so far
(finished or not) lies below every post-fixed point. -/
namespace Malt.TypeInf
open Malt.Py

theorem TMap.le_nil (m : TMap) : TMap.le [] m := by
  intro x T h
  simp [TMap.get] at h

theorem mem_dedupKeys {x : String} : ∀ {l : List String}, x ∈ dedupKeys l → x ∈ l
  | [], h => by simp [dedupKeys] at h
  | k :: ks, h => by
      simp only [dedupKeys] at h
      split at h
      · exact List.mem_cons_of_mem _ (mem_dedupKeys h)
      · rcases List.mem_cons.mp h with h | h
        · exact h ▸ List.mem_cons_self
        · exact List.mem_cons_of_mem _ (mem_dedupKeys h)

theorem TMap.get_mapKeys (f : String → TySet) : ∀ (l : List String) (x : String) (T : TySet),
    TMap.get (l.map fun k => (k, f k)) x = some T → x ∈ l ∧ T = f x
  | [], _, _, h => by simp [TMap.get] at h
  | k :: l, x, T, h => by
      simp only [List.map_cons, TMap.get_cons] at h
      by_cases hk : k = x
      · subst hk
        simp only [if_true, Option.some.injEq] at h
        exact ⟨List.mem_cons_self, h.symm⟩
      · simp only [hk, if_false] at h
        obtain ⟨hm, ht⟩ := TMap.get_mapKeys f l x T h
        exact ⟨List.mem_cons_of_mem _ hm, ht⟩

theorem TMap.mem_keys_get : ∀ {m : TMap} {x : String}, x ∈ m.keys → ∃ T, m.get x = some T
  | [], _, h => by simp [TMap.keys] at h
  | (k, v) :: m, x, h => by
      by_cases hk : k = x
      · exact ⟨v, by simp [TMap.get_cons, hk]⟩
      · have : x ∈ TMap.keys m := by
          simp only [TMap.keys, List.map_cons, List.mem_cons] at h
          rcases h with h | h
          · exact absurd h.symm hk
          · exact h
        obtain ⟨T, hT⟩ := TMap.mem_keys_get this
        exact ⟨T, by simp [TMap.get_cons, hk, hT]⟩

theorem mem_union {a b : TySet} {t : Ty} (h : t ∈ TySet.union a b) : t ∈ a ∨ t ∈ b := by
  simp only [TySet.union, List.mem_append, List.mem_filter] at h
  rcases h with h | h
  · exact Or.inl h
  · exact Or.inr h.1

/-- `join` is below every common upper bound. -/
theorem TMap.join_le {a b c : TMap} (ha : TMap.le a c) (hb : TMap.le b c) : TMap.le (a.join b) c := by
  intro x T hx
  obtain ⟨hmem, hT⟩ := TMap.get_mapKeys _ _ x T hx
  have hmem' := mem_dedupKeys hmem
  simp only [List.mem_append] at hmem'
  have hex : ∃ T', c.get x = some T' := by
    rcases hmem' with h | h
    · obtain ⟨A, hA⟩ := TMap.mem_keys_get h
      obtain ⟨T', hc, _⟩ := ha x A hA
      exact ⟨T', hc⟩
    · obtain ⟨B, hB⟩ := TMap.mem_keys_get h
      obtain ⟨T', hc, _⟩ := hb x B hB
      exact ⟨T', hc⟩
  obtain ⟨T', hc⟩ := hex
  refine ⟨T', hc, ?_⟩
  intro t ht
  rw [hT] at ht
  rcases mem_union ht with h | h
  · cases hA : a.get x with
    | none => simp [hA] at h
    | some A =>
      simp only [hA, Option.getD_some] at h
      obtain ⟨T'', hc', hs⟩ := ha x A hA
      rw [hc] at hc'
      exact (Option.some.inj hc') ▸ hs t h
  · cases hB : b.get x with
    | none => simp [hB] at h
    | some B =>
      simp only [hB, Option.getD_some] at h
      obtain ⟨T'', hc', hs⟩ := hb x B hB
      rw [hc] at hc'
      exact (Option.some.inj hc') ▸ hs t h

theorem TMap.get_norm_aux (m : TMap) : ∀ (l : List String) (x : String) (T : TySet),
    TMap.get (l.filterMap fun k => (m.get k).map fun T => (k, T)) x = some T → m.get x = some T
  | [], _, _, h => by simp [TMap.get] at h
  | k :: l, x, T, h => by
      cases hk : m.get k with
      | none =>
        simp only [List.filterMap_cons, hk, Option.map_none] at h
        exact TMap.get_norm_aux m l x T h
      | some Tk =>
        simp only [List.filterMap_cons, hk, Option.map_some, TMap.get_cons] at h
        by_cases hkx : k = x
        · subst hkx
          simp only [if_true, Option.some.injEq] at h
          exact h ▸ hk
        · simp only [hkx, if_false] at h
          exact TMap.get_norm_aux m l x T h

theorem TMap.norm_le (m : TMap) : TMap.le m.norm m := by
  intro x T h
  exact ⟨T, TMap.get_norm_aux m _ x T h, fun _ ht => ht⟩

theorem NMap.get_set (m : NMap) (i j : Nat) (v : TMap) : (m.set i v).get j = if i = j then v else m.get j := by
  simp [NMap.set, NMap.get]

theorem Graph.find_id {G : Graph} {i : Nat} {n : GNode} (h : G.find i = some n) : n.id = i ∧ n ∈ G.nodes := by
  simp only [Graph.find] at h
  have h1 := List.find?_some h
  have h2 := List.mem_of_find?_eq_some h
  exact ⟨by simpa using h1, h2⟩

/-- A post-fixed point of the analysis equations (on all nodes of the graph). -/
structure PostFix (R : Resolver) (env : FnEnv) (G : Graph) (pins pouts : NMap) : Prop where
  ctx : TMap.le (contextTypes env) (pins.get G.entry)
  edge : ∀ m, m ∈ G.nodes → ∀ k, k ∈ m.succs → TMap.le (pouts.get m.id) (pins.get k)
  trans : ∀ i n, G.find i = some n → TMap.le (transfer R env n.node (pins.get i)) (pouts.get i)

/-- The node transfer functions are monotone (false of the pinned code in general: see finding C19-no-fixed-point). -/
def MonoTransfer (R : Resolver) (env : FnEnv) (G : Graph) : Prop :=
  ∀ i n a b, G.find i = some n → TMap.le a b → TMap.le (transfer R env n.node a) (transfer R env n.node b)

def Below (st : AState) (pins pouts : NMap) : Prop :=
  ∀ i, TMap.le (st.ins.get i) (pins.get i) ∧ TMap.le (st.outs.get i) (pouts.get i)

section
variable {R : Resolver} {env : FnEnv} {G : Graph} {pins pouts : NMap}

theorem joinPreds_le (hP : PostFix R env G pins pouts) {st : AState} (hB : Below st pins pouts) (i : Nat) :
    TMap.le (joinPreds G st.outs i) (pins.get i) := by
  simp only [joinPreds]
  have key : ∀ (ps : List Nat) (acc : TMap), TMap.le acc (pins.get i) → (∀ p, p ∈ ps → p ∈ G.preds i) →
      TMap.le (ps.foldl (fun acc p => acc.join (st.outs.get p)) acc) (pins.get i) := by
    intro ps
    induction ps with
    | nil => intro acc h _; simpa using h
    | cons p ps ih =>
      intro acc h hp
      simp only [List.foldl_cons]
      refine ih _ (TMap.join_le h ?_) (fun q hq => hp q (List.mem_cons_of_mem _ hq))
      have hpm := hp p List.mem_cons_self
      simp only [Graph.preds, List.mem_map, List.mem_filter] at hpm
      obtain ⟨m, ⟨hm, hk⟩, hid⟩ := hpm
      have hk' : i ∈ m.succs := by simpa using hk
      exact TMap.le_trans (hB p).2 (hid ▸ hP.edge m hm i hk')
  exact key _ _ (TMap.le_nil _) (fun _ h => h)

theorem nodeIn_le (hP : PostFix R env G pins pouts) {st : AState} (hB : Below st pins pouts) (i : Nat) :
    TMap.le (nodeIn G env st.outs i) (pins.get i) := by
  simp only [nodeIn]
  split
  · rename_i h
    exact TMap.join_le (joinPreds_le hP hB i) (h.1 ▸ hP.ctx)
  · exact joinPreds_le hP hB i

theorem visitNode_below (hP : PostFix R env G pins pouts) (hM : MonoTransfer R env G) {st : AState}
    (hB : Below st pins pouts) {i : Nat} {n : GNode} (hf : G.find i = some n) :
    Below (visitNode R env G st n).1 pins pouts := by
  obtain ⟨hid, _⟩ := Graph.find_id hf
  subst hid
  have hin := nodeIn_le hP hB n.id
  intro j
  simp only [visitNode, NMap.get_set]
  constructor
  · split
    · rename_i h; exact h ▸ hin
    · exact (hB j).1
  · split
    · rename_i h
      subst h
      exact TMap.le_trans (TMap.norm_le _) (TMap.le_trans (hM n.id n _ _ hf hin) (hP.trans n.id n hf))
    · exact (hB j).2

/-- Whatever the work list has computed after any number of visits lies below every post-fixed point. -/
theorem run_below (hP : PostFix R env G pins pouts) (hM : MonoTransfer R env G) :
    ∀ (fuel : Nat) (open_ closed : List Nat) (st : AState), Below st pins pouts →
      Below (run R env G fuel open_ closed st).1 pins pouts
  | 0, _, _, st, hB => by simpa [run] using hB
  | _ + 1, [], _, st, hB => by simpa [run] using hB
  | fuel + 1, i :: rest, closed, st, hB => by
      simp only [run]
      cases hf : G.find i with
      | none => exact run_below hP hM fuel rest closed st hB
      | some n =>
        simp only [hf]
        exact run_below hP hM fuel _ _ _ (visitNode_below hP hM hB hf)

end
end Malt.TypeInf
