import MaltModel.Cfg.AstToCfg
import MaltModel.Cfg.Check
import MaltModel.Proofs.C05Check
import MaltModel.Proofs.C05Proj
/-!
# C05: the model's graph contains every required pair (`flowFn fn`.req ⊆ edges of `build fn`)

Structural induction over statements, relating the flow summary of `Cfg/Check.lean` to the builder state:
"every node at which control can currently be is in `leaves`; every pending jump is registered in the section it
targets".  Together with `walk_sound` this gives `C05_paths_partial`.
-/
namespace Malt.Cfg
open Malt.Py

/-! ### association lists -/

theorem aget_aset {β} (k k' : Nat) (v : β) (m : List (Nat × β)) :
    aget k (aset k' v m) = if k = k' then some v else aget k m := by
  simp only [aget, aset, adel, List.lookup]
  by_cases h : k = k'
  · subst h; simp
  · have : (k == k') = false := by simpa using h
    simp only [this, h, if_false]
    induction m with
    | nil => rfl
    | cons p m ih =>
      by_cases hp : p.1 = k'
      · have : (p.1 != k') = false := by simp [hp]
        simp only [List.filter, this]
        rw [ih]
        have hk : (k == p.1) = false := by rw [hp]; simpa using h
        simp [List.lookup, hk]
      · have : (p.1 != k') = true := by simp [hp]
        simp only [List.filter, this, List.lookup]
        rw [ih]

theorem aget_adel {β} (k k' : Nat) (m : List (Nat × β)) :
    aget k (adel k' m) = if k = k' then none else aget k m := by
  simp only [aget, adel]
  induction m with
  | nil => simp [List.lookup]
  | cons p m ih =>
    by_cases hp : p.1 = k'
    · have : (p.1 != k') = false := by simp [hp]
      simp only [List.filter, this]
      rw [ih]
      by_cases h : k = k'
      · simp [h]
      · have hk : (k == p.1) = false := by rw [hp]; simpa using h
        simp [List.lookup, hk, h]
    · have : (p.1 != k') = true := by simp [hp]
      simp only [List.filter, this, List.lookup]
      rw [ih]
      by_cases h : k = k'
      · subst h
        have hk : (k == p.1) = false := by simpa using fun h' => hp h'.symm
        simp [hk]
      · simp [h]

theorem ahas_iff {β} (k : Nat) (m : List (Nat × β)) : ahas k m = true ↔ ∃ v, aget k m = some v := by
  simp [ahas, aget, Option.isSome_iff_exists]

theorem ahas_false_iff {β} (k : Nat) (m : List (Nat × β)) : ahas k m = false ↔ aget k m = none := by
  simp [ahas, aget]

theorem mem_sunion (a b : List Nat) (x : Nat) : x ∈ sunion a b ↔ x ∈ a ∨ x ∈ b := by
  simp only [sunion, List.mem_append, List.mem_filter, Bool.not_eq_true', List.contains_eq_mem, decide_eq_false_iff_not]
  constructor
  · rintro (h | h); exact Or.inl h; exact Or.inr h.1
  · rintro (h | h)
    · exact Or.inl h
    · by_cases ha : x ∈ a
      · exact Or.inl ha
      · exact Or.inr ⟨h, ha⟩

/-! ### heap -/

theorem deref_append_old (h : List (List Nat)) (s : List Nat) (r : Nat) (x : Nat) :
    x ∈ h.getD r [] → x ∈ (h ++ [s]).getD r [] := by
  intro hx
  by_cases hr : r < h.length
  · simpa [List.getD, List.getElem?_append_left hr] using hx
  · have : h.getD r [] = [] := by simp [List.getD, List.getElem?_eq_none (Nat.le_of_not_lt hr)]
    rw [this] at hx; cases hx

theorem deref_append_new (h : List (List Nat)) (s : List Nat) : (h ++ [s]).getD h.length [] = s := by
  simp [List.getD]

theorem deref_set (h : List (List Nat)) (r r' : Nat) (s : List Nat) :
    (h.set r' s).getD r [] = if r = r' ∧ r' < h.length then s else h.getD r [] := by
  simp only [List.getD, List.getElem?_set]
  by_cases h1 : r' = r
  · subst h1
    by_cases h2 : r' < h.length
    · simp [h2]
    · simp [h2]
  · have : ¬ r = r' := fun e => h1 e.symm
    simp [h1, this]

namespace B

@[simp] theorem leafSet_setLeavesFresh (b : B) (s : List Nat) : (b.setLeavesFresh s).leafSet = s := by
  simp [leafSet, setLeavesFresh, deref]

theorem deref_setLeavesFresh (b : B) (s : List Nat) (r x : Nat) (h : x ∈ b.deref r) : x ∈ (b.setLeavesFresh s).deref r :=
  deref_append_old _ _ _ _ h

theorem deref_leavesUnion (b : B) (s : List Nat) (r : Nat) :
    (b.leavesUnion s).deref r = if r = b.leaves ∧ b.leaves < b.heap.length then sunion b.leafSet s else b.deref r := by
  show (b.heap.set b.leaves (sunion b.leafSet s)).getD r [] = _
  rw [deref_set]; rfl

theorem mem_leafSet_leavesUnion (b : B) (s : List Nat) (hv : b.leaves < b.heap.length) (x : Nat) :
    x ∈ (b.leavesUnion s).leafSet ↔ x ∈ b.leafSet ∨ x ∈ s := by
  have : (b.leavesUnion s).leafSet = (b.leavesUnion s).deref b.leaves := rfl
  rw [this, deref_leavesUnion]
  simp [hv, mem_sunion]

theorem deref_leavesUnion_mono (b : B) (s : List Nat) (r x : Nat) (h : x ∈ b.deref r) : x ∈ (b.leavesUnion s).deref r := by
  rw [deref_leavesUnion]
  split
  · rename_i hc
    rw [mem_sunion]; left
    rw [hc.1] at h; exact h
  · exact h

end B

/-! ### monotone part of the builder state -/

structure Mono (b b' : B) : Prop where
  err : b'.err = none → b.err = none
  edges : ∀ e, e ∈ b.edges → e ∈ b'.edges
  heapLen : b.heap.length ≤ b'.heap.length
  deref : ∀ r x, x ∈ b.deref r → x ∈ b'.deref r
  head : ∀ x, b.head = some x → b'.head = some x
  nodes : ∀ x, x ∈ b.nodes → x ∈ b'.nodes

theorem Mono.refl (b : B) : Mono b b := ⟨id, fun _ h => h, Nat.le_refl _, fun _ _ h => h, fun _ h => h, fun _ h => h⟩

theorem Mono.trans {a b c : B} (h1 : Mono a b) (h2 : Mono b c) : Mono a c :=
  ⟨fun h => h1.err (h2.err h), fun e h => h2.edges e (h1.edges e h), Nat.le_trans h1.heapLen h2.heapLen,
   fun r x h => h2.deref r x (h1.deref r x h), fun x h => h2.head x (h1.head x h), fun x h => h2.nodes x (h1.nodes x h)⟩

/-- All set references held by the builder point into the heap. -/
structure Valid (b : B) : Prop where
  leaves : b.leaves < b.heap.length
  condEntry : ∀ k r, aget k b.condEntry = some r → r < b.heap.length

theorem sk_ne_ck (i j : Nat) : sk i ≠ ck j := by unfold sk ck; omega
theorem sk_inj {i j : Nat} (h : sk i = sk j) : i = j := by unfold sk at h; omega
theorem ck_inj {i j : Nat} (h : ck i = ck j) : i = j := by unfold ck at h; omega

/-- `Frame K b b'`: going from `b` to `b'` only grows the monotone parts, and leaves the dictionaries alone at every key
outside `K` (`exits`/`continues`/`raises` may gain members). -/
structure Frame (K : List Nat) (b b' : B) : Prop extends Mono b b' where
  exits : ∀ k, sk k ∉ K → ∀ l, aget k b.exits = some l → ∃ l', aget k b'.exits = some l' ∧ ∀ x, x ∈ l → x ∈ l'
  continues : ∀ k, sk k ∉ K → ∀ l, aget k b.continues = some l → ∃ l', aget k b'.continues = some l' ∧ ∀ x, x ∈ l → x ∈ l'
  raises : ∀ k, sk k ∉ K → ∀ l, aget k b.raises = some l → ∃ l', aget k b'.raises = some l' ∧ ∀ x, x ∈ l → x ∈ l'
  sectionEntry : ∀ k, sk k ∉ K → aget k b'.sectionEntry = aget k b.sectionEntry
  condEntry : ∀ k, ck k ∉ K → aget k b'.condEntry = aget k b.condEntry
  condLeaves : ∀ k, ck k ∉ K → aget k b'.condLeaves = aget k b.condLeaves
  valid : Valid b → Valid b'

theorem Frame.refl (K : List Nat) (b : B) : Frame K b b :=
  ⟨Mono.refl b, fun _ _ l h => ⟨l, h, fun _ h => h⟩, fun _ _ l h => ⟨l, h, fun _ h => h⟩,
   fun _ _ l h => ⟨l, h, fun _ h => h⟩, fun _ _ => rfl, fun _ _ => rfl, fun _ _ => rfl, id⟩

theorem Frame.weaken {K K' : List Nat} {b b' : B} (h : Frame K b b') (hs : ∀ k, k ∈ K → k ∈ K') : Frame K' b b' :=
  ⟨h.toMono, fun k hk => h.exits k (fun h' => hk (hs _ h')), fun k hk => h.continues k (fun h' => hk (hs _ h')),
   fun k hk => h.raises k (fun h' => hk (hs _ h')), fun k hk => h.sectionEntry k (fun h' => hk (hs _ h')),
   fun k hk => h.condEntry k (fun h' => hk (hs _ h')), fun k hk => h.condLeaves k (fun h' => hk (hs _ h')), h.valid⟩

theorem Frame.trans {K : List Nat} {a b c : B} (h1 : Frame K a b) (h2 : Frame K b c) : Frame K a c := by
  refine ⟨h1.toMono.trans h2.toMono, ?_, ?_, ?_, ?_, ?_, ?_, fun h => h2.valid (h1.valid h)⟩
  · intro k hk l hl
    obtain ⟨l1, hl1, s1⟩ := h1.exits k hk l hl
    obtain ⟨l2, hl2, s2⟩ := h2.exits k hk l1 hl1
    exact ⟨l2, hl2, fun x hx => s2 x (s1 x hx)⟩
  · intro k hk l hl
    obtain ⟨l1, hl1, s1⟩ := h1.continues k hk l hl
    obtain ⟨l2, hl2, s2⟩ := h2.continues k hk l1 hl1
    exact ⟨l2, hl2, fun x hx => s2 x (s1 x hx)⟩
  · intro k hk l hl
    obtain ⟨l1, hl1, s1⟩ := h1.raises k hk l hl
    obtain ⟨l2, hl2, s2⟩ := h2.raises k hk l1 hl1
    exact ⟨l2, hl2, fun x hx => s2 x (s1 x hx)⟩
  · intro k hk; rw [h2.sectionEntry k hk, h1.sectionEntry k hk]
  · intro k hk; rw [h2.condEntry k hk, h1.condEntry k hk]
  · intro k hk; rw [h2.condLeaves k hk, h1.condLeaves k hk]

/-- A step that touches none of the tracked dictionaries. -/
theorem Frame.of_mono {K : List Nat} {b b' : B} (hm : Mono b b') (h1 : b'.exits = b.exits) (h2 : b'.continues = b.continues)
    (h3 : b'.raises = b.raises) (h4 : b'.sectionEntry = b.sectionEntry) (h5 : b'.condEntry = b.condEntry)
    (h6 : b'.condLeaves = b.condLeaves) (hv : Valid b → b'.leaves < b'.heap.length) : Frame K b b' := by
  refine ⟨hm, ?_, ?_, ?_, ?_, ?_, ?_, fun v => ⟨hv v, fun k r hr => Nat.lt_of_lt_of_le (v.condEntry k r (by rw [← h5]; exact hr)) hm.heapLen⟩⟩
  · intro k _ l hl; exact ⟨l, by rw [h1]; exact hl, fun _ h => h⟩
  · intro k _ l hl; exact ⟨l, by rw [h2]; exact hl, fun _ h => h⟩
  · intro k _ l hl; exact ⟨l, by rw [h3]; exact hl, fun _ h => h⟩
  · intro k _; rw [h4]
  · intro k _; rw [h5]
  · intro k _; rw [h6]

namespace B

theorem err_fail (b : B) (msg : String) (h : (b.fail msg).err = none) : False := by
  simp only [fail] at h
  cases hb : b.err <;> simp [hb, Option.or] at h

theorem mono_fail (b : B) (msg : String) : Mono b (b.fail msg) :=
  ⟨fun h => (err_fail b msg h).elim, fun _ h => h, Nat.le_refl _, fun _ _ h => h, fun _ h => h, fun _ h => h⟩

theorem frame_fail (K) (b : B) (msg : String) : Frame K b (b.fail msg) :=
  Frame.of_mono (mono_fail b msg) rfl rfl rfl rfl rfl rfl (fun v => v.leaves)

theorem frame_check (K) (b : B) (c : Bool) (msg : String) : Frame K b (b.check c msg) := by
  unfold check; split
  · exact frame_fail K b msg
  · exact Frame.refl K b

/-- the trivially monotone steps -/
theorem mono_same (b b' : B) (h1 : b'.err = b.err) (h2 : b'.edges = b.edges) (h3 : b'.heap = b.heap)
    (h4 : ∀ x, b.head = some x → b'.head = some x) (h5 : ∀ x, x ∈ b.nodes → x ∈ b'.nodes := by exact fun _ h => h) : Mono b b' :=
  ⟨fun h => by rw [← h1]; exact h, fun e h => by rw [h2]; exact h, by rw [h3]; exact Nat.le_refl _,
   fun r x h => by simpa [deref, h3] using h, h4, h5⟩

theorem frame_connect (K) (b : B) (first : List Nat) (second : Nat) : Frame K b (b.connect first second) :=
  Frame.of_mono ⟨id, fun e h => List.mem_append.mpr (Or.inl h), Nat.le_refl _, fun _ _ h => h, fun _ h => h, fun _ h => h⟩ rfl rfl rfl rfl rfl rfl (fun v => v.leaves)

theorem frame_setLeavesFresh (K) (b : B) (s : List Nat) : Frame K b (b.setLeavesFresh s) :=
  Frame.of_mono ⟨id, fun _ h => h, by simp [setLeavesFresh], fun r x h => deref_setLeavesFresh b s r x h, fun _ h => h, fun _ h => h⟩ rfl rfl rfl rfl rfl rfl
    (fun _ => by simp [setLeavesFresh])

theorem frame_leavesUnion (K) (b : B) (s : List Nat) : Frame K b (b.leavesUnion s) :=
  Frame.of_mono ⟨id, fun _ h => h, by simp [leavesUnion], fun r x h => deref_leavesUnion_mono b s r x h, fun _ h => h, fun _ h => h⟩ rfl rfl rfl rfl rfl rfl
    (fun v => by simpa [leavesUnion] using v.leaves)

theorem frame_setLeavesRef (K) (b : B) (r : Nat) (hr : Valid b → r < b.heap.length) : Frame K b (b.setLeavesRef r) :=
  Frame.of_mono (mono_same _ _ rfl rfl rfl (fun _ h => h)) rfl rfl rfl rfl rfl rfl hr

theorem frame_pushNode (K) (b : B) (n : Nat) : Frame K b (b.pushNode n) :=
  Frame.of_mono (mono_same _ _ rfl rfl rfl (fun x h => by simp [pushNode, h, Option.or]) (fun x h => List.mem_append.mpr (Or.inl h))) rfl rfl rfl rfl rfl rfl (fun v => v.leaves)

theorem frame_putFinallySections (K) (b : B) (n : Nat) (gs : List Nat) : Frame K b (b.putFinallySections n gs) :=
  Frame.of_mono (mono_same _ _ rfl rfl rfl (fun _ h => h)) rfl rfl rfl rfl rfl rfl (fun v => v.leaves)

theorem frame_delFinallySections (K) (b : B) (n : Nat) : Frame K b (b.delFinallySections n) :=
  Frame.of_mono (mono_same _ _ rfl rfl rfl (fun _ h => h)) rfl rfl rfl rfl rfl rfl (fun v => v.leaves)

theorem frame_setActive (K) (b : B) (l : List Nat) : Frame K b (b.setActive l) :=
  Frame.of_mono (mono_same _ _ rfl rfl rfl (fun _ h => h)) rfl rfl rfl rfl rfl rfl (fun v => v.leaves)

theorem frame_pushError (K) (b : B) (n : Nat) : Frame K b (b.pushError n) :=
  Frame.of_mono (mono_same _ _ rfl rfl rfl (fun _ h => h)) rfl rfl rfl rfl rfl rfl (fun v => v.leaves)

theorem frame_addNewNode (K) (b : B) (n : Nat) : Frame K b (b.addNewNode n) :=
  Frame.trans (frame_check K b _ _) (Frame.trans (frame_pushNode K _ n) (frame_connect K _ _ _))

theorem frame_addOrdinaryNode (K) (b : B) (n : Nat) : Frame K b (b.addOrdinaryNode n) :=
  Frame.trans (frame_addNewNode K b n) (frame_setLeavesFresh K _ _)

theorem frame_addJumpNode (K) (b : B) (n : Nat) (gs : List Nat) : Frame K b (b.addJumpNode n gs) :=
  Frame.trans (Frame.trans (frame_addNewNode K b n) (frame_setLeavesFresh K _ _)) (frame_putFinallySections K _ _ _)

theorem frame_beginStatement (K) (b : B) (i : Nat) : Frame K b (b.beginStatement i) := frame_setActive K b _

theorem frame_endStatement (K) (b : B) (i : Nat) : Frame K b (b.endStatement i) :=
  Frame.trans (frame_check K b _ _) (frame_setActive K _ _)

/-- Growing one list of a dictionary of node lists. -/
theorem grow_clause (m : List (Nat × List Nat)) (j : Nat) (old new : List Nat) (hj : aget j m = some old)
    (hsub : ∀ x, x ∈ old → x ∈ new) (k : Nat) (l : List Nat) (hl : aget k m = some l) :
    ∃ l', aget k (aset j new m) = some l' ∧ ∀ x, x ∈ l → x ∈ l' := by
  rw [aget_aset]
  by_cases h : k = j
  · subst h
    rw [hj] at hl; cases hl
    exact ⟨new, by simp, hsub⟩
  · exact ⟨l, by simp [h, hl], fun _ h => h⟩

/-- `putExits` at a key whose old list is contained in the new one. -/
theorem frame_putExits_grow (K) (b : B) (j : Nat) (old new : List Nat) (hj : aget j b.exits = some old)
    (hsub : ∀ x, x ∈ old → x ∈ new) : Frame K b (b.putExits j new) :=
  ⟨mono_same _ _ rfl rfl rfl (fun _ h => h), fun k _ l hl => grow_clause _ j old new hj hsub k l hl,
   fun _ _ l hl => ⟨l, hl, fun _ h => h⟩, fun _ _ l hl => ⟨l, hl, fun _ h => h⟩, fun _ _ => rfl, fun _ _ => rfl, fun _ _ => rfl, fun v => ⟨v.leaves, v.condEntry⟩⟩

theorem frame_putContinues_grow (K) (b : B) (j : Nat) (old new : List Nat) (hj : aget j b.continues = some old)
    (hsub : ∀ x, x ∈ old → x ∈ new) : Frame K b (b.putContinues j new) :=
  ⟨mono_same _ _ rfl rfl rfl (fun _ h => h), fun _ _ l hl => ⟨l, hl, fun _ h => h⟩, fun k _ l hl => grow_clause _ j old new hj hsub k l hl,
   fun _ _ l hl => ⟨l, hl, fun _ h => h⟩, fun _ _ => rfl, fun _ _ => rfl, fun _ _ => rfl, fun v => ⟨v.leaves, v.condEntry⟩⟩

/-- setters at a key of `K` -/
theorem frame_putExits (K) (b : B) (i : Nat) (l0 : List Nat) (hi : sk i ∈ K) : Frame K b (b.putExits i l0) := by
  refine ⟨mono_same _ _ rfl rfl rfl (fun _ h => h), ?_, fun _ _ l hl => ⟨l, hl, fun _ h => h⟩, fun _ _ l hl => ⟨l, hl, fun _ h => h⟩, fun _ _ => rfl, fun _ _ => rfl, fun _ _ => rfl, fun v => ⟨v.leaves, v.condEntry⟩⟩
  intro k hk l hl
  have : k ≠ i := fun h => hk (h ▸ hi)
  exact ⟨l, by show aget k (aset i l0 b.exits) = some l; rw [aget_aset, if_neg this]; exact hl, fun _ h => h⟩

theorem frame_delExits (K) (b : B) (i : Nat) (hi : sk i ∈ K) : Frame K b (b.delExits i) := by
  refine ⟨mono_same _ _ rfl rfl rfl (fun _ h => h), ?_, fun _ _ l hl => ⟨l, hl, fun _ h => h⟩, fun _ _ l hl => ⟨l, hl, fun _ h => h⟩, fun _ _ => rfl, fun _ _ => rfl, fun _ _ => rfl, fun v => ⟨v.leaves, v.condEntry⟩⟩
  intro k hk l hl
  have : k ≠ i := fun h => hk (h ▸ hi)
  exact ⟨l, by show aget k (adel i b.exits) = some l; rw [aget_adel, if_neg this]; exact hl, fun _ h => h⟩

theorem frame_putContinues (K) (b : B) (i : Nat) (l0 : List Nat) (hi : sk i ∈ K) : Frame K b (b.putContinues i l0) := by
  refine ⟨mono_same _ _ rfl rfl rfl (fun _ h => h), fun _ _ l hl => ⟨l, hl, fun _ h => h⟩, ?_, fun _ _ l hl => ⟨l, hl, fun _ h => h⟩, fun _ _ => rfl, fun _ _ => rfl, fun _ _ => rfl, fun v => ⟨v.leaves, v.condEntry⟩⟩
  intro k hk l hl
  have : k ≠ i := fun h => hk (h ▸ hi)
  exact ⟨l, by show aget k (aset i l0 b.continues) = some l; rw [aget_aset, if_neg this]; exact hl, fun _ h => h⟩

theorem frame_putSectionEntry (K) (b : B) (i e : Nat) (hi : sk i ∈ K) : Frame K b (b.putSectionEntry i e) := by
  refine ⟨mono_same _ _ rfl rfl rfl (fun _ h => h), fun _ _ l hl => ⟨l, hl, fun _ h => h⟩, fun _ _ l hl => ⟨l, hl, fun _ h => h⟩, fun _ _ l hl => ⟨l, hl, fun _ h => h⟩, ?_, fun _ _ => rfl, fun _ _ => rfl, fun v => ⟨v.leaves, v.condEntry⟩⟩
  intro k hk
  have : k ≠ i := fun h => hk (h ▸ hi)
  show aget k (aset i e b.sectionEntry) = _
  rw [aget_aset, if_neg this]

theorem frame_delLoopKeys (K) (b : B) (i : Nat) (hi : sk i ∈ K) : Frame K b (b.delLoopKeys i) := by
  refine ⟨mono_same _ _ rfl rfl rfl (fun _ h => h), fun _ _ l hl => ⟨l, hl, fun _ h => h⟩, ?_, fun _ _ l hl => ⟨l, hl, fun _ h => h⟩, ?_, fun _ _ => rfl, fun _ _ => rfl, fun v => ⟨v.leaves, v.condEntry⟩⟩
  · intro k hk l hl
    have : k ≠ i := fun h => hk (h ▸ hi)
    exact ⟨l, by show aget k (adel i b.continues) = some l; rw [aget_adel, if_neg this]; exact hl, fun _ h => h⟩
  · intro k hk
    have : k ≠ i := fun h => hk (h ▸ hi)
    show aget k (adel i b.sectionEntry) = _
    rw [aget_adel, if_neg this]

theorem frame_putCondLeaves (K) (b : B) (i : Nat) (l0 : List Nat) (hi : ck i ∈ K) : Frame K b (b.putCondLeaves i l0) := by
  refine ⟨mono_same _ _ rfl rfl rfl (fun _ h => h), fun _ _ l hl => ⟨l, hl, fun _ h => h⟩, fun _ _ l hl => ⟨l, hl, fun _ h => h⟩, fun _ _ l hl => ⟨l, hl, fun _ h => h⟩, fun _ _ => rfl, fun _ _ => rfl, ?_, fun v => ⟨v.leaves, v.condEntry⟩⟩
  intro k hk
  have : k ≠ i := fun h => hk (h ▸ hi)
  show aget k (aset i l0 b.condLeaves) = _
  rw [aget_aset, if_neg this]

theorem frame_putCondEntry (K) (b : B) (i r : Nat) (hi : ck i ∈ K) (hr : Valid b → r < b.heap.length) : Frame K b (b.putCondEntry i r) := by
  refine ⟨mono_same _ _ rfl rfl rfl (fun _ h => h), fun _ _ l hl => ⟨l, hl, fun _ h => h⟩, fun _ _ l hl => ⟨l, hl, fun _ h => h⟩, fun _ _ l hl => ⟨l, hl, fun _ h => h⟩, fun _ _ => rfl, ?_, fun _ _ => rfl, ?_⟩
  · intro k hk
    have : k ≠ i := fun h => hk (h ▸ hi)
    show aget k (aset i r b.condEntry) = _
    rw [aget_aset, if_neg this]
  · intro v
    refine ⟨v.leaves, ?_⟩
    intro k r' hk
    have hk' : aget k (aset i r b.condEntry) = some r' := hk
    rw [aget_aset] at hk'
    by_cases h : k = i
    · simp only [h, if_true, Option.some.injEq] at hk'; subst hk'; exact hr v
    · simp only [h, if_false] at hk'; exact v.condEntry k r' hk'

theorem frame_delCondKeys (K) (b : B) (i : Nat) (hi : ck i ∈ K) : Frame K b (b.delCondKeys i) := by
  refine ⟨mono_same _ _ rfl rfl rfl (fun _ h => h), fun _ _ l hl => ⟨l, hl, fun _ h => h⟩, fun _ _ l hl => ⟨l, hl, fun _ h => h⟩, fun _ _ l hl => ⟨l, hl, fun _ h => h⟩, fun _ _ => rfl, ?_, ?_, ?_⟩
  · intro k hk
    have : k ≠ i := fun h => hk (h ▸ hi)
    show aget k (adel i b.condEntry) = _
    rw [aget_adel, if_neg this]
  · intro k hk
    have : k ≠ i := fun h => hk (h ▸ hi)
    show aget k (adel i b.condLeaves) = _
    rw [aget_adel, if_neg this]
  · intro v
    refine ⟨v.leaves, ?_⟩
    intro k r' hk
    have hk' : aget k (adel i b.condEntry) = some r' := hk
    rw [aget_adel] at hk'
    by_cases h : k = i
    · simp [h] at hk'
    · simp only [h, if_false] at hk'; exact v.condEntry k r' hk'

theorem frame_addExitNode (K) (b : B) (n sec : Nat) (gs : List Nat) : Frame K b (b.addExitNode n sec gs) := by
  have h0 := frame_addJumpNode K b n gs
  unfold addExitNode
  split
  · rename_i ex hx
    refine Frame.trans h0 (frame_putExits_grow K _ sec ex _ ?_ (fun x h => List.mem_append.mpr (Or.inl h)))
    simpa using hx
  · exact Frame.trans h0 (frame_fail K _ _)

theorem frame_addContinueNode (K) (b : B) (n sec : Nat) (gs : List Nat) : Frame K b (b.addContinueNode n sec gs) := by
  have h0 := frame_addJumpNode K b n gs
  unfold addContinueNode
  split
  · rename_i ex hx
    refine Frame.trans h0 (frame_putContinues_grow K _ sec ex _ ?_ (fun x h => List.mem_append.mpr (Or.inl h)))
    simpa using hx
  · exact Frame.trans h0 (frame_fail K _ _)

theorem raiseStep_grow (node : Nat) (rs : List (Nat × List Nat)) (g : Nat) (k : Nat) (l : List Nat)
    (hl : aget k rs = some l) : ∃ l', aget k (raiseStep node rs g) = some l' ∧ ∀ x, x ∈ l → x ∈ l' := by
  unfold raiseStep
  split
  · rename_i old hg
    exact grow_clause rs g old _ hg (fun x h => List.mem_append.mpr (Or.inl h)) k l hl
  · rename_i hg
    rw [aget_aset]
    by_cases h : k = g
    · subst h; rw [hg] at hl; cases hl
    · exact ⟨l, by simp [h, hl], fun _ h => h⟩

theorem raises_foldl_grow (node : Nat) (gs : List Nat) : ∀ (rs : List (Nat × List Nat)) (k : Nat) (l : List Nat),
    aget k rs = some l → ∃ l', aget k (gs.foldl (raiseStep node) rs) = some l' ∧ ∀ x, x ∈ l → x ∈ l' := by
  induction gs with
  | nil => intro rs k l hl; exact ⟨l, hl, fun _ h => h⟩
  | cons g gs ih =>
    intro rs k l hl
    obtain ⟨l1, h1, s1⟩ := raiseStep_grow node rs g k l hl
    obtain ⟨l2, h2, s2⟩ := ih _ k l1 h1
    exact ⟨l2, h2, fun x hx => s2 x (s1 x hx)⟩

theorem frame_connectRaiseNode (K) (b : B) (node : Nat) (gs : List Nat) : Frame K b (b.connectRaiseNode node gs) :=
  ⟨mono_same _ _ rfl rfl rfl (fun _ h => h), fun _ _ l hl => ⟨l, hl, fun _ h => h⟩, fun _ _ l hl => ⟨l, hl, fun _ h => h⟩,
   fun k _ l hl => raises_foldl_grow node gs b.raises k l hl, fun _ _ => rfl, fun _ _ => rfl, fun _ _ => rfl, fun v => ⟨v.leaves, v.condEntry⟩⟩

theorem frame_guardStep (K) (acc : B × List Nat) (g : Nat) : Frame K acc.1 (guardStep acc g).1 := by
  unfold guardStep
  split
  · exact frame_connect K _ _ _
  · exact frame_fail K _ _

theorem frame_guardFold (K) (gs : List Nat) : ∀ acc : B × List Nat, Frame K acc.1 (gs.foldl guardStep acc).1 := by
  induction gs with
  | nil => intro acc; exact Frame.refl K _
  | cons g gs ih => intro acc; exact Frame.trans (frame_guardStep K acc g) (ih _)

theorem frame_connectJump (K) (b : B) (n : Nat) : Frame K b (b.connectJump n).1 := by
  unfold connectJump
  split
  · exact Frame.refl K b
  · rename_i gs _
    exact Frame.trans (frame_guardFold K gs (b, [n])) (frame_delFinallySections K _ _)

theorem frame_exitStep (K) (b : B) (e : Nat) : Frame K b (b.exitStep e) :=
  Frame.trans (frame_connectJump K b e) (frame_leavesUnion K _ _)

theorem frame_foldl {α} (K) (f : B → α → B) (hf : ∀ b x, Frame K b (f b x)) : ∀ (l : List α) (b : B), Frame K b (l.foldl f b) := by
  intro l
  induction l with
  | nil => intro b; exact Frame.refl K b
  | cons x l ih => intro b; exact Frame.trans (hf b x) (ih _)

theorem frame_enterSection (K) (b : B) (i : Nat) (hi : sk i ∈ K) : Frame K b (b.enterSection i) :=
  Frame.trans (frame_check K b _ _) (frame_putExits K _ i [] hi)

theorem frame_exitSection (K) (b : B) (i : Nat) (hi : sk i ∈ K) : Frame K b (b.exitSection i) := by
  unfold exitSection
  split
  · exact frame_fail K b _
  · rename_i ex _
    exact Frame.trans (frame_foldl K exitStep (frame_exitStep K) ex b) (frame_delExits K _ i hi)

theorem frame_enterLoopSection (K) (b : B) (i entry : Nat) (hi : sk i ∈ K) : Frame K b (b.enterLoopSection i entry) :=
  Frame.trans (Frame.trans (Frame.trans (frame_check K b _ _) (frame_putContinues K _ i [] hi)) (frame_addOrdinaryNode K _ entry))
    (frame_putSectionEntry K _ i entry hi)

theorem frame_reentryStep (K) (entry : Nat) (b : B) (c : Nat) : Frame K b (reentryStep entry b c) :=
  Frame.trans (frame_connectJump K b c) (frame_connect K _ _ _)

theorem frame_exitLoopSection (K) (b : B) (i : Nat) (hi : sk i ∈ K) : Frame K b (b.exitLoopSection i) := by
  unfold exitLoopSection
  split
  · rename_i entry cs _ _
    exact Frame.trans (Frame.trans (Frame.trans (frame_connect K b _ entry)
      (frame_foldl K (reentryStep entry) (frame_reentryStep K entry) cs _)) (frame_setLeavesFresh K _ [entry]))
      (frame_delLoopKeys K _ i hi)
  · exact frame_fail K b _

theorem frame_enterCondSection (K) (b : B) (i : Nat) (hi : ck i ∈ K) : Frame K b (b.enterCondSection i) :=
  Frame.trans (frame_check K b _ _) (frame_putCondLeaves K _ i [] hi)

theorem frame_newCondBranch (K) (b : B) (i : Nat) (hi : ck i ∈ K) : Frame K b (b.newCondBranch i) := by
  unfold newCondBranch
  split
  · exact frame_fail K b _
  · split
    · rename_i entry he
      exact Frame.trans (frame_putCondLeaves K b i _ hi) (frame_setLeavesRef K _ _ (fun v => v.condEntry i entry he))
    · exact frame_putCondEntry K b i _ hi (fun v => v.leaves)

theorem frame_unionStep (K) (b : B) (r : Nat) : Frame K b (b.unionStep r) := frame_leavesUnion K b _

theorem frame_exitCondSection (K) (b : B) (i : Nat) (hi : ck i ∈ K) : Frame K b (b.exitCondSection i) := by
  unfold exitCondSection
  split
  · exact frame_fail K b _
  · rename_i splits _
    exact Frame.trans (Frame.trans (frame_foldl K unionStep (frame_unionStep K) splits b) (frame_check K _ _ _))
      (frame_delCondKeys K _ i hi)

theorem frame_enterExceptSection (K) (b : B) (i : Nat) : Frame K b (b.enterExceptSection i) := by
  unfold enterExceptSection
  split
  · exact frame_leavesUnion K b _
  · exact Frame.refl K b

theorem frame_enterFinallySection (K) (b : B) (i : Nat) : Frame K b (b.enterFinallySection i) :=
  Frame.of_mono (mono_same _ _ rfl rfl rfl (fun _ h => h)) rfl rfl rfl rfl rfl rfl (fun v => v.leaves)

theorem frame_closeFinally (K) (b : B) (i : Nat) (beg : Option Nat) : Frame K b (b.closeFinally i beg) :=
  Frame.of_mono (mono_same _ _ rfl rfl rfl (fun _ h => h)) rfl rfl rfl rfl rfl rfl (fun v => v.leaves)

theorem frame_exitFinallySection (K) (b : B) (i : Nat) : Frame K b (b.exitFinallySection i) := by
  unfold exitFinallySection
  split
  · rename_i beg _ direct _ _
    have h1 := Frame.trans (frame_check K b (b.pendingFinally.contains i) "assert: Empty finally?") (frame_closeFinally K _ i beg)
    cases direct
    · exact Frame.trans h1 (frame_setLeavesFresh K _ _)
    · exact h1
  · exact frame_fail K b _

end B


/-! ### keys touched by a statement -/
theorem frame_addOrdinaryNodes (K) (ns : List Nat) : ∀ b : B, Frame K b (addOrdinaryNodes b ns) :=
  B.frame_foldl K B.addOrdinaryNode (B.frame_addOrdinaryNode K) ns

theorem frame_processExit (K) (σ : List Scope) (b : B) (n : Nat) (stop : Stop) (v : Bool) :
    Frame K b (processExit σ b n stop v) := by
  unfold processExit
  split
  · exact B.frame_fail K b _
  · split
    · exact Frame.trans (B.frame_addExitNode K b _ _ _) (B.frame_connectRaiseNode K _ _ _)
    · exact B.frame_addExitNode K b _ _ _

theorem frame_processContinue (K) (σ : List Scope) (b : B) (n : Nat) : Frame K b (processContinue σ b n) := by
  unfold processContinue
  split
  · exact B.frame_fail K b _
  · exact B.frame_addContinueNode K b _ _ _

theorem frame_basicExpr (K) (σ : List Scope) (e : Expr) (b : B) (a : Acc) : Frame K b (basicExpr σ e b a).1 :=
  Frame.trans (frame_addOrdinaryNodes K _ b) (B.frame_addOrdinaryNode K _ _)

theorem frame_basicExprs (K) (σ : List Scope) : ∀ (es : List Expr) (b : B) (a : Acc), Frame K b (basicExprs σ es b a).1
  | [], b, _ => Frame.refl K b
  | e :: es, b, a => Frame.trans (frame_basicExpr K σ e b a) (frame_basicExprs K σ es _ _)


/-! ### Lemma A: visiting a statement leaves every dictionary alone outside the statement's own keys -/

theorem mem_keys_head (i : Nat) (r : List Nat) : i ∈ i :: r := List.mem_cons_self ..

theorem frame_optSection (K) (rep : Option Nat) (pre post : Nat → B → B) (visit : Nat → B → Acc → B × Acc) (r : B × Acc)
    (hpre : ∀ k b, rep = some k → Frame K b (pre k b)) (hpost : ∀ k b, rep = some k → Frame K b (post k b))
    (hvisit : ∀ k b a, rep = some k → Frame K b (visit k b a).1) : Frame K r.1 (optSection rep pre post visit r).1 := by
  cases rep with
  | none => exact Frame.refl K _
  | some k =>
    simp only [optSection]
    exact Frame.trans (Frame.trans (hpre k _ rfl) (hvisit k _ _ rfl)) (hpost k _ rfl)

theorem mem_elseKey (i : Nat) (ss : List Stmt) (k : Nat) (h : elseRep i ss = some k) : ck k ∈ elseKey i ss := by
  unfold elseRep at h
  unfold elseKey
  split at h
  · cases h
  · rename_i hne
    cases h
    simp [hne]

theorem mem_repKey (ss : List Stmt) (k : Nat) (h : ss.head?.map Stmt.id = some k) : ck k ∈ repKey ss := by
  cases ss with
  | nil => simp at h
  | cons s rest =>
    simp only [List.head?_cons, Option.map_some, Option.some.injEq] at h
    subst h
    simp [repKey]

mutual
theorem frame_visitStmt : ∀ (s : Stmt) (σ : List Scope) (b : B) (a : Acc), Frame (stmtKeys' s) b (visitStmt σ s b a).1
  | .functionDef i name args body decs rets isAsync, σ, b, a => by
    cases isAsync with
    | true =>
      simp only [visitStmt, if_true, stmtKeys']
      refine Frame.trans ?_ (frame_addOrdinaryNodes _ _ _)
      refine Frame.trans ?_ (frame_visitStmts body σ _ _)
      exact frame_addOrdinaryNodes _ _ b
    | false =>
      simp only [visitStmt, Bool.false_eq_true, if_false]
      exact B.frame_addOrdinaryNode _ b i
  | .classDef i name bases kws body decs, σ, b, a => by
    simp only [visitStmt]
    exact B.frame_addOrdinaryNode _ b i
  | .ret i v, σ, b, a => by
    simp only [visitStmt]
    exact Frame.trans (frame_addOrdinaryNodes _ _ b) (frame_processExit _ _ _ _ _ _)
  | .raise i e c, σ, b, a => by
    simp only [visitStmt]
    exact Frame.trans (Frame.trans (frame_addOrdinaryNodes _ _ b) (frame_processExit _ _ _ _ _ _)) (B.frame_pushError _ _ _)
  | .break_ i, σ, b, a => by
    simp only [visitStmt]
    exact frame_processExit _ _ _ _ _ _
  | .continue_ i, σ, b, a => by
    simp only [visitStmt]
    exact frame_processContinue _ _ _ _
  | .if_ i test body orelse, σ, b, a => by
    simp only [visitStmt, stmtKeys']
    have hi : ck i ∈ ck i :: (keysL body ++ keysL orelse) := mem_keys_head _ _
    refine Frame.trans ?_ (B.frame_endStatement _ _ i)
    refine Frame.trans ?_ (B.frame_exitCondSection _ _ i hi)
    refine Frame.trans ?_ ((frame_visitStmts orelse σ _ _).weaken (fun k hk => List.mem_cons_of_mem _ (List.mem_append.mpr (Or.inr hk))))
    refine Frame.trans ?_ (B.frame_newCondBranch _ _ i hi)
    refine Frame.trans ?_ ((frame_visitStmts body σ _ _).weaken (fun k hk => List.mem_cons_of_mem _ (List.mem_append.mpr (Or.inl hk))))
    refine Frame.trans ?_ (B.frame_newCondBranch _ _ i hi)
    refine Frame.trans ?_ (frame_basicExpr _ σ test _ a)
    exact Frame.trans (B.frame_beginStatement _ b i) (B.frame_enterCondSection _ _ i hi)
  | .while_ i test body orelse, σ, b, a => by
    simp only [visitStmt, stmtKeys']
    have hi : sk i ∈ sk i :: (keysL body ++ keysL orelse) := mem_keys_head _ _
    refine Frame.trans ?_ (B.frame_endStatement _ _ i)
    refine Frame.trans ?_ (B.frame_exitSection _ _ i hi)
    refine Frame.trans ?_ ((frame_visitStmts orelse σ _ _).weaken (fun k hk => List.mem_cons_of_mem _ (List.mem_append.mpr (Or.inr hk))))
    refine Frame.trans ?_ (B.frame_exitLoopSection _ _ i hi)
    refine Frame.trans ?_ ((frame_visitStmts body _ _ _).weaken (fun k hk => List.mem_cons_of_mem _ (List.mem_append.mpr (Or.inl hk))))
    refine Frame.trans ?_ (B.frame_enterLoopSection _ _ i _ hi)
    refine Frame.trans ?_ (frame_addOrdinaryNodes _ _ _)
    exact Frame.trans (B.frame_beginStatement _ b i) (B.frame_enterSection _ _ i hi)
  | .for_ i target iter body orelse extra isAsync, σ, b, a => by
    cases isAsync with
    | true =>
      simp only [visitStmt, if_true, stmtKeys']
      refine Frame.trans ?_ ((frame_visitStmts orelse σ _ _).weaken (fun k hk => List.mem_append.mpr (Or.inr hk)))
      refine Frame.trans ?_ ((frame_visitStmts body σ _ _).weaken (fun k hk => List.mem_append.mpr (Or.inl hk)))
      exact frame_addOrdinaryNodes _ _ b
    | false =>
      simp only [visitStmt, Bool.false_eq_true, if_false, stmtKeys']
      have hi : sk i ∈ sk i :: (keysL body ++ keysL orelse) := mem_keys_head _ _
      refine Frame.trans ?_ (B.frame_endStatement _ _ i)
      refine Frame.trans ?_ (B.frame_exitSection _ _ i hi)
      refine Frame.trans ?_ ((frame_visitStmts orelse σ _ _).weaken (fun k hk => List.mem_cons_of_mem _ (List.mem_append.mpr (Or.inr hk))))
      refine Frame.trans ?_ (B.frame_exitLoopSection _ _ i hi)
      refine Frame.trans ?_ ((frame_visitStmts body _ _ _).weaken (fun k hk => List.mem_cons_of_mem _ (List.mem_append.mpr (Or.inl hk))))
      refine Frame.trans ?_ (frame_basicExprs _ _ _ _ _)
      refine Frame.trans ?_ (B.frame_enterLoopSection _ _ i _ hi)
      refine Frame.trans ?_ (frame_addOrdinaryNodes _ _ _)
      exact Frame.trans (B.frame_beginStatement _ b i) (B.frame_enterSection _ _ i hi)
  | .with_ i items body isAsync, σ, b, a => by
    cases isAsync with
    | true =>
      simp only [visitStmt, if_true, stmtKeys']
      exact Frame.trans (frame_addOrdinaryNodes _ _ b) (frame_visitStmts body σ _ _)
    | false =>
      simp only [visitStmt, Bool.false_eq_true, if_false, stmtKeys']
      exact Frame.trans (frame_basicExprs _ σ items b a) (frame_visitStmts body σ _ _)
  | .try_ i body handlers orelse final, σ, b, a => by
    simp only [visitStmt, stmtKeys']
    have kro : ∀ k, k ∈ elseKey i orelse → k ∈ elseKey i orelse ++ (repKey handlers ++ (keysL body ++ (keysL handlers ++ (keysL orelse ++ keysL final)))) :=
      fun k hk => List.mem_append.mpr (Or.inl hk)
    have krh : ∀ k, k ∈ repKey handlers → k ∈ elseKey i orelse ++ (repKey handlers ++ (keysL body ++ (keysL handlers ++ (keysL orelse ++ keysL final)))) :=
      fun k hk => List.mem_append.mpr (Or.inr (List.mem_append.mpr (Or.inl hk)))
    have kb : ∀ k, k ∈ keysL body → k ∈ elseKey i orelse ++ (repKey handlers ++ (keysL body ++ (keysL handlers ++ (keysL orelse ++ keysL final)))) :=
      fun k hk => List.mem_append.mpr (Or.inr (List.mem_append.mpr (Or.inr (List.mem_append.mpr (Or.inl hk)))))
    have kh : ∀ k, k ∈ keysL handlers → k ∈ elseKey i orelse ++ (repKey handlers ++ (keysL body ++ (keysL handlers ++ (keysL orelse ++ keysL final)))) :=
      fun k hk => List.mem_append.mpr (Or.inr (List.mem_append.mpr (Or.inr (List.mem_append.mpr (Or.inr (List.mem_append.mpr (Or.inl hk)))))))
    have ko : ∀ k, k ∈ keysL orelse → k ∈ elseKey i orelse ++ (repKey handlers ++ (keysL body ++ (keysL handlers ++ (keysL orelse ++ keysL final)))) :=
      fun k hk => List.mem_append.mpr (Or.inr (List.mem_append.mpr (Or.inr (List.mem_append.mpr (Or.inr (List.mem_append.mpr (Or.inr (List.mem_append.mpr (Or.inl hk)))))))))
    have kf : ∀ k, k ∈ keysL final → k ∈ elseKey i orelse ++ (repKey handlers ++ (keysL body ++ (keysL handlers ++ (keysL orelse ++ keysL final)))) :=
      fun k hk => List.mem_append.mpr (Or.inr (List.mem_append.mpr (Or.inr (List.mem_append.mpr (Or.inr (List.mem_append.mpr (Or.inr (List.mem_append.mpr (Or.inr hk)))))))))
    refine Frame.trans ?_ (B.frame_endStatement _ _ i)
    refine Frame.trans ?_ (frame_optSection _ _ _ _ _ _ ?_ ?_ ?_)
    refine Frame.trans ?_ (frame_optSection _ _ _ _ _ _ ?_ ?_ ?_)
    refine Frame.trans ?_ (frame_optSection _ _ _ _ _ _ ?_ ?_ ?_)
    · exact Frame.trans (B.frame_beginStatement _ b i) ((frame_visitStmts body _ _ _).weaken kb)
    · intro k b' hk
      have hk' := kro _ (mem_elseKey i orelse k hk)
      exact Frame.trans (B.frame_enterCondSection _ _ k hk') (B.frame_newCondBranch _ _ k hk')
    · intro k b' hk
      have hk' := kro _ (mem_elseKey i orelse k hk)
      exact Frame.trans (B.frame_newCondBranch _ _ k hk') (B.frame_exitCondSection _ _ k hk')
    · intro k b' a' _
      exact (frame_visitStmts orelse _ b' a').weaken ko
    · intro k b' hk
      exact B.frame_enterCondSection _ _ k (krh _ (mem_repKey handlers k hk))
    · intro k b' hk
      have hk' := krh _ (mem_repKey handlers k hk)
      exact Frame.trans (B.frame_newCondBranch _ _ k hk') (B.frame_exitCondSection _ _ k hk')
    · intro k b' a' hk
      exact frame_visitHandlers handlers σ k _ (krh _ (mem_repKey handlers k hk)) kh b' a'
    · intro k b' _; exact B.frame_enterFinallySection _ _ _
    · intro k b' _; exact B.frame_exitFinallySection _ _ _
    · intro k b' a' _
      exact (frame_visitStmts final σ b' a').weaken kf
  | .handler i ty name body, σ, b, a => by
    simp only [visitStmt, stmtKeys']
    refine Frame.trans ?_ (B.frame_endStatement _ _ i)
    refine Frame.trans ?_ ((frame_visitStmts body σ _ _).weaken (fun k hk => List.mem_cons_of_mem _ hk))
    refine Frame.trans ?_ (frame_addOrdinaryNodes _ _ _)
    exact Frame.trans (B.frame_beginStatement _ b i) (B.frame_enterExceptSection _ _ i)
  | .other i kind es bs, σ, b, a => by
    simp only [visitStmt]
    exact Frame.refl _ b
  | .delete i ts, σ, b, a => by
    simp only [visitStmt]; exact Frame.trans (frame_addOrdinaryNodes _ _ b) (B.frame_addOrdinaryNode _ _ _)
  | .assign i ts v, σ, b, a => by
    simp only [visitStmt]; exact Frame.trans (frame_addOrdinaryNodes _ _ b) (B.frame_addOrdinaryNode _ _ _)
  | .augAssign i t op v, σ, b, a => by
    simp only [visitStmt]; exact Frame.trans (frame_addOrdinaryNodes _ _ b) (B.frame_addOrdinaryNode _ _ _)
  | .annAssign i t an v sm, σ, b, a => by
    simp only [visitStmt]; exact Frame.trans (frame_addOrdinaryNodes _ _ b) (B.frame_addOrdinaryNode _ _ _)
  | .assert_ i t m, σ, b, a => by
    simp only [visitStmt]; exact Frame.trans (frame_addOrdinaryNodes _ _ b) (B.frame_addOrdinaryNode _ _ _)
  | .import_ i ns, σ, b, a => by
    simp only [visitStmt]; exact Frame.trans (frame_addOrdinaryNodes _ _ b) (B.frame_addOrdinaryNode _ _ _)
  | .importFrom i m ns lv, σ, b, a => by
    simp only [visitStmt]; exact Frame.trans (frame_addOrdinaryNodes _ _ b) (B.frame_addOrdinaryNode _ _ _)
  | .global i ns, σ, b, a => by
    simp only [visitStmt]; exact Frame.trans (frame_addOrdinaryNodes _ _ b) (B.frame_addOrdinaryNode _ _ _)
  | .nonlocal i ns, σ, b, a => by
    simp only [visitStmt]; exact Frame.trans (frame_addOrdinaryNodes _ _ b) (B.frame_addOrdinaryNode _ _ _)
  | .expr i v, σ, b, a => by
    simp only [visitStmt]; exact Frame.trans (frame_addOrdinaryNodes _ _ b) (B.frame_addOrdinaryNode _ _ _)
  | .pass i, σ, b, a => by
    simp only [visitStmt]; exact Frame.trans (frame_addOrdinaryNodes _ _ b) (B.frame_addOrdinaryNode _ _ _)

theorem frame_visitStmts : ∀ (ss : List Stmt) (σ : List Scope) (b : B) (a : Acc), Frame (keysL ss) b (visitStmts σ ss b a).1
  | [], σ, b, a => by simp only [visitStmts]; exact Frame.refl _ b
  | s :: ss, σ, b, a => by
    simp only [visitStmts, keysL]
    exact Frame.trans ((frame_visitStmt s σ b a).weaken (fun k hk => List.mem_append.mpr (Or.inl hk)))
      ((frame_visitStmts ss σ _ _).weaken (fun k hk => List.mem_append.mpr (Or.inr hk)))

theorem frame_visitHandlers : ∀ (hs : List Stmt) (σ : List Scope) (rep : Nat) (K : List Nat), ck rep ∈ K →
    (∀ k, k ∈ keysL hs → k ∈ K) → ∀ (b : B) (a : Acc), Frame K b (visitHandlers σ rep hs b a).1
  | [], σ, rep, K, _, _, b, a => by simp only [visitHandlers]; exact Frame.refl _ b
  | h :: hs, σ, rep, K, hrep, hk, b, a => by
    simp only [visitHandlers]
    refine Frame.trans ?_ (frame_visitHandlers hs σ rep K hrep (fun k hk' => hk k (by simp only [keysL, List.mem_append]; exact Or.inr hk')) _ _)
    refine Frame.trans (B.frame_newCondBranch _ _ rep hrep) ?_
    exact (frame_visitStmt h σ _ _).weaken (fun k hk' => hk k (by simp only [keysL, List.mem_append]; exact Or.inl hk'))
end


/-! ### positive effects of the builder steps -/

/-- Every registered jump has an empty guard list (true as long as no `try … finally` is in scope). -/
def AllNil (b : B) : Prop := ∀ n gs, aget n b.finallySections = some gs → gs = []

/-- `l ⊆ leafSet`. -/
def InLeaves (b : B) (l : List Nat) : Prop := ∀ x, x ∈ l → x ∈ b.leafSet

namespace B

theorem leafSet_eq_of (b b' : B) (h1 : b'.heap = b.heap) (h2 : b'.leaves = b.leaves) : b'.leafSet = b.leafSet := by
  simp [leafSet, deref, h1, h2]

@[simp] theorem leafSet_check (b : B) (c : Bool) (m : String) : (b.check c m).leafSet = b.leafSet :=
  leafSet_eq_of _ _ (by simp) (by simp)
@[simp] theorem leafSet_pushNode (b : B) (n : Nat) : (b.pushNode n).leafSet = b.leafSet := rfl
@[simp] theorem leafSet_connect (b : B) (f : List Nat) (n : Nat) : (b.connect f n).leafSet = b.leafSet := rfl
@[simp] theorem leafSet_putExits (b : B) (k : Nat) (l : List Nat) : (b.putExits k l).leafSet = b.leafSet := rfl
@[simp] theorem leafSet_delExits (b : B) (k : Nat) : (b.delExits k).leafSet = b.leafSet := rfl
@[simp] theorem leafSet_putContinues (b : B) (k : Nat) (l : List Nat) : (b.putContinues k l).leafSet = b.leafSet := rfl
@[simp] theorem leafSet_putSectionEntry (b : B) (k e : Nat) : (b.putSectionEntry k e).leafSet = b.leafSet := rfl
@[simp] theorem leafSet_delLoopKeys (b : B) (k : Nat) : (b.delLoopKeys k).leafSet = b.leafSet := rfl
@[simp] theorem leafSet_putCondLeaves (b : B) (k : Nat) (l : List Nat) : (b.putCondLeaves k l).leafSet = b.leafSet := rfl
@[simp] theorem leafSet_putCondEntry (b : B) (k r : Nat) : (b.putCondEntry k r).leafSet = b.leafSet := rfl
@[simp] theorem leafSet_delCondKeys (b : B) (k : Nat) : (b.delCondKeys k).leafSet = b.leafSet := rfl
@[simp] theorem leafSet_putFinallySections (b : B) (n : Nat) (g : List Nat) : (b.putFinallySections n g).leafSet = b.leafSet := rfl
@[simp] theorem leafSet_delFinallySections (b : B) (n : Nat) : (b.delFinallySections n).leafSet = b.leafSet := rfl
@[simp] theorem leafSet_setRaises (b : B) (r : List (Nat × List Nat)) : (b.setRaises r).leafSet = b.leafSet := rfl
@[simp] theorem leafSet_setActive (b : B) (l : List Nat) : (b.setActive l).leafSet = b.leafSet := rfl
@[simp] theorem leafSet_pushError (b : B) (n : Nat) : (b.pushError n).leafSet = b.leafSet := rfl
@[simp] theorem leafSet_beginStatement (b : B) (i : Nat) : (b.beginStatement i).leafSet = b.leafSet := rfl
@[simp] theorem leafSet_endStatement (b : B) (i : Nat) : (b.endStatement i).leafSet = b.leafSet :=
  leafSet_eq_of _ _ (by simp) (by simp)
@[simp] theorem leafSet_fail (b : B) (m : String) : (b.fail m).leafSet = b.leafSet := rfl

/-- edges of `addNewNode`: the old ones plus one from every leaf. -/
theorem edges_addNewNode (b : B) (n : Nat) : (b.addNewNode n).edges = b.edges ++ b.leafSet.map (fun x => (x, n)) := by
  simp [addNewNode, connect]

@[simp] theorem leafSet_addOrdinaryNode (b : B) (n : Nat) : (b.addOrdinaryNode n).leafSet = [n] := by
  simp [addOrdinaryNode]

theorem edges_addOrdinaryNode (b : B) (n : Nat) : (b.addOrdinaryNode n).edges = b.edges ++ b.leafSet.map (fun x => (x, n)) := by
  simp [addOrdinaryNode, edges_addNewNode]

@[simp] theorem leafSet_addJumpNode (b : B) (n : Nat) (g : List Nat) : (b.addJumpNode n g).leafSet = [] := by
  simp [addJumpNode]

theorem edges_addJumpNode (b : B) (n : Nat) (g : List Nat) : (b.addJumpNode n g).edges = b.edges ++ b.leafSet.map (fun x => (x, n)) := by
  simp [addJumpNode, edges_addNewNode]

theorem finallySections_addJumpNode (b : B) (n : Nat) (g : List Nat) : (b.addJumpNode n g).finallySections = aset n g b.finallySections := by
  simp [addJumpNode, putFinallySections]

theorem cross_sub_addOrdinaryNode (b : B) (n : Nat) (cur : List Nat) (h : InLeaves b cur) :
    Sub (cross cur n) (b.addOrdinaryNode n).edges := by
  intro p hp
  rw [edges_addOrdinaryNode]
  simp only [cross, List.mem_map] at hp
  obtain ⟨c, hc, rfl⟩ := hp
  exact List.mem_append.mpr (Or.inr (List.mem_map.mpr ⟨c, h c hc, rfl⟩))

end B

theorem allNil_of_fs_eq {b b' : B} (h : b'.finallySections = b.finallySections) (ha : AllNil b) : AllNil b' := by
  intro n gs hn; rw [h] at hn; exact ha n gs hn

theorem allNil_addOrdinaryNode {b : B} (n : Nat) (ha : AllNil b) : AllNil (b.addOrdinaryNode n) :=
  allNil_of_fs_eq (by simp) ha

theorem allNil_addOrdinaryNodes (ns : List Nat) : ∀ {b : B}, AllNil b → AllNil (addOrdinaryNodes b ns) := by
  induction ns with
  | nil => intro b h; exact h
  | cons n ns ih => intro b h; exact ih (allNil_addOrdinaryNode n h)

/-- Emitting ordinary nodes realises the required pairs of `emit`. -/
theorem emit_addOrdinaryNodes (ns : List Nat) : ∀ (b : B) (cur : List Nat), InLeaves b cur →
    Sub (emit cur ns).1 (addOrdinaryNodes b ns).edges ∧ InLeaves (addOrdinaryNodes b ns) (emit cur ns).2 := by
  induction ns with
  | nil => intro b cur h; exact ⟨sub_nil _, h⟩
  | cons n ns ih =>
    intro b cur h
    have h1 := B.cross_sub_addOrdinaryNode b n cur h
    have h2 := ih (b.addOrdinaryNode n) [n] (by intro x hx; simpa using hx)
    have hf := (frame_addOrdinaryNodes [] ns (b.addOrdinaryNode n)).edges
    simp only [emit, sub_append]
    exact ⟨⟨fun p hp => hf p (h1 p hp), h2.1⟩, h2.2⟩


/-! jumps -/

theorem allNil_aset {b : B} (n : Nat) (ha : AllNil b) : ∀ m gs, aget m (aset n [] b.finallySections) = some gs → gs = [] := by
  intro m gs h
  rw [aget_aset] at h
  by_cases hm : m = n
  · simp only [hm, if_true, Option.some.injEq] at h; exact h.symm
  · simp only [hm, if_false] at h; exact ha m gs h

theorem allNil_addJumpNode {b : B} (n : Nat) (ha : AllNil b) : AllNil (b.addJumpNode n []) := by
  intro m gs h
  rw [B.finallySections_addJumpNode] at h
  exact allNil_aset n ha m gs h

/-- `add_exit_node(n, sec, [])` when the section is open. -/
theorem addExitNode_effect (b : B) (n sec : Nat) (ex : List Nat) (hx : aget sec b.exits = some ex) (cur : List Nat)
    (hc : InLeaves b cur) (ha : AllNil b) :
    Sub (cross cur n) (b.addExitNode n sec []).edges ∧ (b.addExitNode n sec []).leafSet = [] ∧
    aget sec (b.addExitNode n sec []).exits = some (ex ++ [n]) ∧ AllNil (b.addExitNode n sec []) := by
  simp only [B.addExitNode, hx]
  refine ⟨?_, by simp, ?_, ?_⟩
  · intro p hp
    show p ∈ (b.addJumpNode n []).edges
    rw [B.edges_addJumpNode]
    simp only [cross, List.mem_map] at hp
    obtain ⟨c, hc', rfl⟩ := hp
    exact List.mem_append.mpr (Or.inr (List.mem_map.mpr ⟨c, hc c hc', rfl⟩))
  · show aget sec (aset sec (ex ++ [n]) (b.addJumpNode n []).exits) = _
    rw [aget_aset]; simp
  · exact allNil_of_fs_eq (b := b.addJumpNode n []) rfl (allNil_addJumpNode n ha)

theorem addContinueNode_effect (b : B) (n sec : Nat) (cs : List Nat) (hx : aget sec b.continues = some cs) (cur : List Nat)
    (hc : InLeaves b cur) (ha : AllNil b) :
    Sub (cross cur n) (b.addContinueNode n sec []).edges ∧ (b.addContinueNode n sec []).leafSet = [] ∧
    aget sec (b.addContinueNode n sec []).continues = some (cs ++ [n]) ∧ AllNil (b.addContinueNode n sec []) := by
  simp only [B.addContinueNode, hx]
  refine ⟨?_, by simp, ?_, ?_⟩
  · intro p hp
    show p ∈ (b.addJumpNode n []).edges
    rw [B.edges_addJumpNode]
    simp only [cross, List.mem_map] at hp
    obtain ⟨c, hc', rfl⟩ := hp
    exact List.mem_append.mpr (Or.inr (List.mem_map.mpr ⟨c, hc c hc', rfl⟩))
  · show aget sec (aset sec (cs ++ [n]) (b.addJumpNode n []).continues) = _
    rw [aget_aset]; simp
  · exact allNil_of_fs_eq (b := b.addJumpNode n []) rfl (allNil_addJumpNode n ha)

/-- With empty guard lists a jump is connected to nothing and stays its own cursor. -/
theorem connectJump_allNil (b : B) (e : Nat) (ha : AllNil b) :
    (b.connectJump e).2 = [e] ∧ ((b.connectJump e).1 = b ∨ (b.connectJump e).1 = b.delFinallySections e) := by
  unfold B.connectJump
  split
  · exact ⟨rfl, Or.inl rfl⟩
  · rename_i gs hg
    have := ha e gs hg
    subst this
    exact ⟨rfl, Or.inr rfl⟩

theorem allNil_delFinallySections {b : B} (e : Nat) (ha : AllNil b) : AllNil (b.delFinallySections e) := by
  intro m gs h
  have h' : aget m (adel e b.finallySections) = some gs := h
  rw [aget_adel] at h'
  by_cases hm : m = e
  · simp [hm] at h'
  · simp only [hm, if_false] at h'; exact ha m gs h'

theorem allNil_connectJump {b : B} (e : Nat) (ha : AllNil b) : AllNil (b.connectJump e).1 := by
  rcases (connectJump_allNil b e ha).2 with h | h <;> rw [h]
  · exact ha
  · exact allNil_delFinallySections e ha

theorem leafSet_connectJump (b : B) (e : Nat) (ha : AllNil b) : (b.connectJump e).1.leafSet = b.leafSet := by
  rcases (connectJump_allNil b e ha).2 with h | h <;> rw [h]
  rfl

theorem valid_connectJump (b : B) (e : Nat) (ha : AllNil b) (hv : Valid b) : Valid (b.connectJump e).1 := by
  rcases (connectJump_allNil b e ha).2 with h | h <;> rw [h]
  · exact hv
  · exact ⟨hv.leaves, hv.condEntry⟩

/-- `exit_section` body: every exit becomes a leaf. -/
theorem exitFold_effect (ex : List Nat) : ∀ (b : B), AllNil b → Valid b →
    AllNil (ex.foldl B.exitStep b) ∧ (∀ x, (x ∈ b.leafSet ∨ x ∈ ex) → x ∈ (ex.foldl B.exitStep b).leafSet) := by
  induction ex with
  | nil => intro b ha _; exact ⟨ha, fun x h => h.elim id (fun h => by cases h)⟩
  | cons e ex ih =>
    intro b ha hv
    have hcj := connectJump_allNil b e ha
    have ha1 : AllNil (b.exitStep e) := allNil_of_fs_eq (b := (b.connectJump e).1) rfl (allNil_connectJump e ha)
    have hv0 := valid_connectJump b e ha hv
    have hv1 : Valid (b.exitStep e) := (B.frame_leavesUnion [] _ _).valid hv0
    have hl : ∀ x, (x ∈ b.leafSet ∨ x = e) → x ∈ (b.exitStep e).leafSet := by
      intro x hx
      show x ∈ ((b.connectJump e).1.leavesUnion (b.connectJump e).2).leafSet
      rw [B.mem_leafSet_leavesUnion _ _ hv0.leaves, leafSet_connectJump b e ha, hcj.1]
      simpa using hx
    obtain ⟨ih1, ih2⟩ := ih (b.exitStep e) ha1 hv1
    refine ⟨ih1, ?_⟩
    intro x hx
    simp only [List.foldl_cons]
    apply ih2
    rcases hx with hx | hx
    · exact Or.inl (hl x (Or.inl hx))
    · rcases List.mem_cons.mp hx with hx | hx
      · exact Or.inl (hl x (Or.inr hx))
      · exact Or.inr hx

theorem exitSection_effect (b : B) (i : Nat) (ex : List Nat) (hx : aget i b.exits = some ex) (ha : AllNil b) (hv : Valid b) :
    AllNil (b.exitSection i) ∧ (∀ x, (x ∈ b.leafSet ∨ x ∈ ex) → x ∈ (b.exitSection i).leafSet) := by
  simp only [B.exitSection, hx]
  obtain ⟨h1, h2⟩ := exitFold_effect ex b ha hv
  exact ⟨allNil_of_fs_eq (b := ex.foldl B.exitStep b) rfl h1, fun x hx => by simpa using h2 x hx⟩

/-- `exit_loop_section` body: every `continue` flows back to the entry. -/
theorem reentryFold_effect (entry : Nat) (cs : List Nat) : ∀ (b : B), AllNil b →
    AllNil (cs.foldl (B.reentryStep entry) b) ∧ Sub (cross cs entry) (cs.foldl (B.reentryStep entry) b).edges ∧
    (cs.foldl (B.reentryStep entry) b).leafSet = b.leafSet ∧ (cs.foldl (B.reentryStep entry) b).heap = b.heap ∧
    (cs.foldl (B.reentryStep entry) b).exits = b.exits := by
  induction cs with
  | nil => intro b ha; exact ⟨ha, sub_nil _, rfl, rfl, rfl⟩
  | cons c cs ih =>
    intro b ha
    have hcj := connectJump_allNil b c ha
    have ha1 : AllNil (B.reentryStep entry b c) := allNil_of_fs_eq (b := (b.connectJump c).1) rfl (allNil_connectJump c ha)
    obtain ⟨i1, i2, i3, i4, i5⟩ := ih (B.reentryStep entry b c) ha1
    have he1 : (B.reentryStep entry b c).exits = b.exits := by
      show ((b.connectJump c).1.connect _ entry).exits = _
      rcases hcj.2 with h | h <;> rw [h] <;> rfl
    have hedge : (c, entry) ∈ (B.reentryStep entry b c).edges := by
      show (c, entry) ∈ ((b.connectJump c).1.connect (b.connectJump c).2 entry).edges
      rw [hcj.1]
      simp [B.connect]
    have hmono := (B.frame_foldl [] (B.reentryStep entry) (B.frame_reentryStep [] entry) cs (B.reentryStep entry b c)).edges
    have hl1 : (B.reentryStep entry b c).leafSet = b.leafSet := by
      show ((b.connectJump c).1.connect _ entry).leafSet = _
      simp [leafSet_connectJump b c ha]
    have hh1 : (B.reentryStep entry b c).heap = b.heap := by
      show ((b.connectJump c).1.connect _ entry).heap = _
      rcases hcj.2 with h | h <;> rw [h] <;> rfl
    refine ⟨i1, ?_, by simp only [List.foldl_cons]; rw [i3, hl1], by simp only [List.foldl_cons]; rw [i4, hh1],
      by simp only [List.foldl_cons]; rw [i5, he1]⟩
    intro p hp
    simp only [cross, List.map_cons, List.mem_cons] at hp
    simp only [List.foldl_cons]
    rcases hp with hp | hp
    · subst hp; exact hmono _ hedge
    · exact i2 p hp

theorem exitLoopSection_effect (b : B) (i entry : Nat) (cs : List Nat) (he : aget i b.sectionEntry = some entry)
    (hc : aget i b.continues = some cs) (ha : AllNil b) :
    AllNil (b.exitLoopSection i) ∧ Sub (cross b.leafSet entry) (b.exitLoopSection i).edges ∧
    Sub (cross cs entry) (b.exitLoopSection i).edges ∧ (b.exitLoopSection i).leafSet = [entry] ∧
    (b.exitLoopSection i).exits = b.exits := by
  simp only [B.exitLoopSection, he, hc]
  obtain ⟨h1, h2, _, _, h5⟩ := reentryFold_effect entry cs (b.connect b.leafSet entry) (allNil_of_fs_eq (b := b) rfl ha)
  have hmono := (B.frame_foldl [] (B.reentryStep entry) (B.frame_reentryStep [] entry) cs (b.connect b.leafSet entry)).edges
  refine ⟨allNil_of_fs_eq (b := cs.foldl (B.reentryStep entry) (b.connect b.leafSet entry)) rfl h1, ?_, ?_, by simp,
    by simpa using h5⟩
  · intro p hp
    show p ∈ (cs.foldl (B.reentryStep entry) (b.connect b.leafSet entry)).edges
    apply hmono
    simp only [B.connect, List.mem_append]
    exact Or.inr hp
  · intro p hp
    exact h2 p hp


/-! sections -/

theorem enterSection_effect (b : B) (i : Nat) :
    aget i (b.enterSection i).exits = some [] ∧ (b.enterSection i).leafSet = b.leafSet ∧
    (b.enterSection i).finallySections = b.finallySections ∧ (b.enterSection i).continues = b.continues ∧
    (b.enterSection i).condEntry = b.condEntry := by
  refine ⟨?_, by simp [B.enterSection], by simp [B.enterSection], by simp [B.enterSection], by simp [B.enterSection]⟩
  show aget i (aset i [] _) = _
  rw [aget_aset]; simp

theorem enterLoopSection_effect (b : B) (i h : Nat) :
    aget i (b.enterLoopSection i h).continues = some [] ∧ aget i (b.enterLoopSection i h).sectionEntry = some h ∧
    (b.enterLoopSection i h).exits = b.exits ∧ Sub (cross b.leafSet h) (b.enterLoopSection i h).edges ∧
    (b.enterLoopSection i h).leafSet = [h] ∧ (b.enterLoopSection i h).finallySections = b.finallySections ∧
    (b.enterLoopSection i h).condEntry = b.condEntry := by
  refine ⟨?_, ?_, by simp [B.enterLoopSection], ?_, by simp [B.enterLoopSection], by simp [B.enterLoopSection], by simp [B.enterLoopSection]⟩
  · simp only [B.enterLoopSection, B.putSectionEntry_continues, B.addOrdinaryNode_continues]
    show aget i (aset i [] _) = _
    rw [aget_aset]; simp
  · show aget i (aset i h _) = _
    rw [aget_aset]; simp
  · intro p hp
    simp only [B.enterLoopSection, B.putSectionEntry_edges]
    exact B.cross_sub_addOrdinaryNode _ h b.leafSet (fun x hx => by simpa using hx) p hp

/-! conditionals -/

theorem enterCondSection_effect (b : B) (i : Nat) :
    aget i (b.enterCondSection i).condLeaves = some [] ∧ (b.enterCondSection i).condEntry = b.condEntry ∧
    (b.enterCondSection i).leafSet = b.leafSet ∧ (b.enterCondSection i).finallySections = b.finallySections ∧
    (b.enterCondSection i).exits = b.exits ∧ (b.enterCondSection i).continues = b.continues := by
  refine ⟨?_, by simp [B.enterCondSection], by simp [B.enterCondSection], by simp [B.enterCondSection],
    by simp [B.enterCondSection], by simp [B.enterCondSection]⟩
  show aget i (aset i [] _) = _
  rw [aget_aset]; simp

/-- first `new_cond_branch`: remember the split point -/
theorem newCondBranch_first (b : B) (i : Nat) (splits : List Nat) (h1 : aget i b.condLeaves = some splits)
    (h2 : aget i b.condEntry = none) : b.newCondBranch i = b.putCondEntry i b.leaves := by
  simp [B.newCondBranch, h1, h2]

/-- subsequent `new_cond_branch`: memorise the leaves, move back to the split point -/
theorem newCondBranch_next (b : B) (i : Nat) (splits : List Nat) (entry : Nat) (h1 : aget i b.condLeaves = some splits)
    (h2 : aget i b.condEntry = some entry) :
    b.newCondBranch i = (b.putCondLeaves i (splits ++ [b.leaves])).setLeavesRef entry := by
  simp [B.newCondBranch, h1, h2]

theorem unionFold_effect (splits : List Nat) : ∀ (b : B), Valid b →
    (∀ x, x ∈ b.leafSet → x ∈ (splits.foldl B.unionStep b).leafSet) ∧
    (∀ r, r ∈ splits → ∀ x, x ∈ b.deref r → x ∈ (splits.foldl B.unionStep b).leafSet) ∧
    (splits.foldl B.unionStep b).finallySections = b.finallySections := by
  induction splits with
  | nil => intro b _; exact ⟨fun _ h => h, fun r hr => (List.not_mem_nil hr).elim, rfl⟩
  | cons r0 rs ih =>
    intro b hv
    have hv1 : Valid (b.unionStep r0) := (B.frame_unionStep [] b r0).valid hv
    obtain ⟨i1, i2, i3⟩ := ih (b.unionStep r0) hv1
    have hl : ∀ x, (x ∈ b.leafSet ∨ x ∈ b.deref r0) → x ∈ (b.unionStep r0).leafSet := by
      intro x hx
      show x ∈ (b.leavesUnion (b.deref r0)).leafSet
      rw [B.mem_leafSet_leavesUnion _ _ hv.leaves]; exact hx
    refine ⟨fun x hx => i1 x (hl x (Or.inl hx)), ?_, by simp only [List.foldl_cons]; rw [i3]; rfl⟩
    intro r hr x hx
    rcases List.mem_cons.mp hr with hr | hr
    · subst hr; exact i1 x (hl x (Or.inr hx))
    · exact i2 r hr x ((B.frame_unionStep [] b r0).deref r x hx)

theorem exitCondSection_effect (b : B) (i : Nat) (splits : List Nat) (h1 : aget i b.condLeaves = some splits) (hv : Valid b) :
    (∀ x, x ∈ b.leafSet → x ∈ (b.exitCondSection i).leafSet) ∧
    (∀ r, r ∈ splits → ∀ x, x ∈ b.deref r → x ∈ (b.exitCondSection i).leafSet) ∧
    (b.exitCondSection i).finallySections = b.finallySections := by
  simp only [B.exitCondSection, h1]
  obtain ⟨u1, u2, u3⟩ := unionFold_effect splits b hv
  exact ⟨fun x hx => by simpa using u1 x hx, fun r hr x hx => by simpa using u2 r hr x hx, by simpa using u3⟩

end Malt.Cfg
