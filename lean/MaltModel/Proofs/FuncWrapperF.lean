import MaltModel.Proofs.FuncWrapper
import MaltModel.Proofs.FuncFSim
/-!
The function wrapper around a body run by the **tracing backend** (`callWF`): partial-correctness form, like
`functional_correct` — whenever the tracing run of the wrapped function completes without raising, it returns what
the caller of the source function sees, with the same effect log; the status stack is restored in every case.
-/
namespace Malt.Func
open Malt.Sem

theorem wrapper_both_F (X : Ext) (l : Lowered) (hwf : l.wf = true) (name : String) (ur : Bool) (D : List Name)
    (hyp : FuncHyp D l.prog []) (hF : HypFB l.inner) (hp : pureB l.inner = true)
    (σ : St) (σ' : TSt) (hag : Agree (blockIn l.prog []) σ σ') (hb : BoundSub σ D) (stk : CtxStack)
    (n : Nat) (o : Out) (σ₁ : St) (h : execB X n (eraseB l.prog) σ = some (o, σ₁))
    (m : Nat) (r : Out) (τ : TSt) (stk' : CtxStack)
    (hrun : callConvertedF X m l name ur σ' stk = some (r, τ, stk')) :
    stk' = stk ∧ (IsExc r ∨ (r = fnOutcome o ∧ τ.log = σ₁.log)) := by
  cases l with
  | plain q =>
    simp only [Lowered.prog, Lowered.inner, Lowered.wf] at hyp hF hp hag h hwf
    simp only [callConvertedF, callWF, Lowered.wrapper, Lowered.retVars, Lowered.inner, Wrapper.inner] at hrun
    cases hx : execFB X m (funcB q) σ' with
    | none => simp [hx] at hrun
    | some p =>
      obtain ⟨oF, τF⟩ := p
      simp only [hx, Option.some.injEq, Prod.mk.injEq, Wrapper.exit_enter] at hrun
      obtain ⟨rfl, rfl, rfl⟩ := hrun
      refine ⟨rfl, ?_⟩
      obtain ⟨_, hnj, _, _⟩ :=
        (sim_all X n).2.1 q ExcCtx.top D [] σ σ' o σ₁ hyp.live hyp.decl hyp.defd hyp.jump hag hb h
      have hok : OkB ExcCtx.top D [] q := ⟨hyp.live, hyp.decl, hyp.defd, hyp.jump, hF, hp⟩
      rcases (f_all X n).2.1 q ExcCtx.top D [] σ σ' o σ₁ m oF τF hok hag hb h hx with ⟨e, rfl⟩ | ⟨rfl, hout⟩
      · exact Or.inl ⟨e, by simp [result_exc]⟩
      · rcases hnj hwf with rfl | ⟨e, rfl⟩
        · exact Or.inr ⟨by simp [Wrapper.result, fnOutcome], hout.1⟩
        · exact Or.inl ⟨e, by simp [result_exc]⟩
  | rets dr rv i₁ i₂ i₃ mid =>
    simp only [Lowered.wf, Bool.and_eq_true, Bool.not_eq_true', List.contains_eq_mem, decide_eq_false_iff_not] at hwf
    simp only [Lowered.prog, Lowered.inner] at hyp hF hp hag h
    obtain ⟨hlmid, hdmid, hfmid, hrvlive, hag2, hb2, k, om, σm, σmu, hmidu, hrelm, hsN, hsE⟩ :=
      ret_setup X dr rv i₁ i₂ i₃ mid D hyp hwf.2 σ σ' hag hb n o σ₁ h
    simp only [callConvertedF, callWF, Lowered.wrapper, Lowered.retVars, Lowered.inner, Wrapper.inner] at hrun
    cases hx : execFB X m (.assign dr (.const (.int 0)) :: .undefAssign rv :: funcB mid) σ' with
    | none => simp [hx] at hrun
    | some p =>
      obtain ⟨oF, τF⟩ := p
      simp only [hx, Option.some.injEq, Prod.mk.injEq, Wrapper.exit_enter] at hrun
      obtain ⟨rfl, rfl, rfl⟩ := hrun
      refine ⟨rfl, ?_⟩
      -- the run of the body proper
      have hxm : ∃ j, execFB X j (funcB mid) (retTgtInit dr rv σ') = some (oF, τF) := by
        cases m with
        | zero => simp [execFB] at hx
        | succ j =>
          cases j with
          | zero => simp [execFB, execF] at hx
          | succ j' =>
            cases j' with
            | zero => simp [execFB, execF, evalT, evalE] at hx
            | succ j'' =>
              simp only [execFB, execF, evalT, evalE] at hx
              exact ⟨_, hx⟩
      obtain ⟨j, hxj⟩ := hxm
      obtain ⟨_, hnj, _, _⟩ :=
        (sim_all X _).2.1 mid ExcCtx.top (D ++ [dr] ++ [rv]) i₃.liveIn _ _ om σmu hlmid hdmid hfmid
          (noRet_retTopB mid hwf.1) hag2 hb2 hmidu
      have hok : OkB ExcCtx.top (D ++ [dr] ++ [rv]) i₃.liveIn mid :=
        ⟨hlmid, hdmid, hfmid, noRet_retTopB mid hwf.1, hF, hp⟩
      rcases (f_all X _).2.1 mid ExcCtx.top _ i₃.liveIn _ _ om σmu j oF τF hok hag2 hb2 hmidu hxj with
        ⟨e, rfl⟩ | ⟨rfl, hout⟩
      · exact Or.inl ⟨e, by simp [result_exc]⟩
      · rcases hnj hwf.1 with rfl | ⟨e, rfl⟩
        · obtain ⟨ho, hσ⟩ := hsN rfl
          have hlog : τF.log = σ₁.log := by rw [hout.1, ← hrelm.2.1, hσ]
          cases hslot : τF.env rv with
          | unbound =>
            exact Or.inl ⟨.nameError rv, by simp [Wrapper.result, hslot, fscopeRet]⟩
          | undef =>
            have hr := fscopeRet_agree rv i₃.liveIn hrvlive σm σmu τF hrelm (hout.2 rfl) (by simp [hslot])
            refine Or.inr ⟨?_, hlog⟩
            subst ho
            simp only [Wrapper.result, hr]
            cases σm.env rv <;> rfl
          | val u =>
            have hr := fscopeRet_agree rv i₃.liveIn hrvlive σm σmu τF hrelm (hout.2 rfl) (by simp [hslot])
            refine Or.inr ⟨?_, hlog⟩
            subst ho
            simp only [Wrapper.result, hr]
            cases σm.env rv <;> rfl
        · exact Or.inl ⟨e, by simp [result_exc]⟩

end Malt.Func
