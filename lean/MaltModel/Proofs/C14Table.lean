import MaltModel.Proofs.C14Forward
/-!
Generic facts about *any* overload of the extracted table (no per-builtin case analysis):
inversion of `callOverload`, provenance of the values that reach the builtin (nothing is computed
from an argument), registry dispatch (default path whenever no argument is staged), and positional
arity errors.
-/
namespace Malt.Builtins
open Malt.Gen.Builtins

variable {α : Type}

/-! ### inversion of `callOverload` -/

theorem callOverload_inv (truthy : α → Bool) (ov : Overload) (c : CallShape α) (r : Fwd α)
    (h : callOverload truthy ov c = .ok r) :
    ∃ env c1 hl env1 br, bind ov.params c = .ok env ∧ kwAllowed ov env = true ∧
      evalCall env ov.call = some c1 ∧ findHelper ov.call.callee = some hl ∧
      bind hl.params c1 = .ok env1 ∧ pickBranch truthy env1 hl.branches = some br ∧
      evalCall env1 br.call = some r.call ∧ r.callee = br.call.callee ∧
      r.tail = (ov.ret == .value && br.ret == .value) := by
  unfold callOverload at h
  split at h
  · cases h
  · rename_i env hb
    split at h
    · cases h
    · rename_i hk
      split at h
      · cases h
      · rename_i c1 he
        split at h
        · cases h
        · rename_i hl hh
          split at h
          · cases h
          · rename_i env1 hb1
            split at h
            · cases h
            · rename_i br hbr
              split at h
              · cases h
              · rename_i c2 he2
                injection h with h
                subst h
                exact ⟨env, c1, hl, env1, br, hb, by simpa using hk, he, hh, hb1, hbr, he2, rfl, rfl⟩

theorem callOverload_bind_error (truthy : α → Bool) (ov : Overload) (c : CallShape α) (e : BindErr)
    (h : bind ov.params c = .error e) : callOverload truthy ov c = .error (.bind e) := by
  simp [callOverload, h]

/-! ### provenance -/

theorem mem_of_lookup {β : Type} {k : String} {v : β} :
    ∀ {l : List (String × β)}, l.lookup k = some v → (k, v) ∈ l := by
  intro l
  induction l with
  | nil => intro h; cases h
  | cons kv r ih =>
    intro h
    rcases kv with ⟨k', v'⟩
    simp only [List.lookup_cons] at h
    split at h
    · rename_i hk
      injection h with h
      simp only [beq_iff_eq] at hk
      subst h hk
      exact List.mem_cons_self ..
    · exact List.mem_cons_of_mem _ (ih h)

private theorem sel_vals (bp bk : Option (Val α)) (d : Option String) (v : Val α) (S : List (Val α))
    (hp : ∀ w, bp = some w → w ∈ S) (hk : ∀ w, bk = some w → w ∈ S)
    (hv : v ∈ (match bp, bk, d with
               | some v, _, _ => Bound.val v
               | none, some v, _ => Bound.val v
               | none, none, some d => Bound.val (Val.const d)
               | none, none, none => Bound.val (Val.const "<missing>")).vals) :
    v ∈ S ∨ isConst v = true := by
  cases bp with
  | some w => simp only [Bound.vals, List.mem_singleton] at hv; subst hv; exact .inl (hp _ rfl)
  | none =>
    cases bk with
    | some w => simp only [Bound.vals, List.mem_singleton] at hv; subst hv; exact .inl (hk _ rfl)
    | none =>
      cases d with
      | some d => simp only [Bound.vals, List.mem_singleton] at hv; subst hv; exact .inr rfl
      | none => simp only [Bound.vals, List.mem_singleton] at hv; subst hv; exact .inr rfl

/-- Whatever a parameter is bound to is one of the call's argument values or a literal (its default). -/
theorem boundOf_vals (sig : Signature) (c : CallShape α) (p : Param) :
    ∀ v ∈ (boundOf sig c p).vals, v ∈ valuesOf c ∨ isConst v = true := by
  intro v hv
  have hp : ∀ w, (if isPos p then (slotOf p.name (posParams sig) 0).bind (fun j => c.pos[j]?) else none) = some w →
      w ∈ valuesOf c := by
    intro w hw
    split at hw
    · cases hs : slotOf p.name (posParams sig) 0 with
      | none => rw [hs] at hw; cases hw
      | some j =>
        rw [hs] at hw
        exact List.mem_append_left _ (List.mem_of_getElem? hw)
    · cases hw
  have hk : ∀ w, (if isKw p then c.kw.lookup p.name else none) = some w → w ∈ valuesOf c := by
    intro w hw
    split at hw
    · exact List.mem_append_right _ (List.mem_map.mpr ⟨_, mem_of_lookup hw, rfl⟩)
    · cases hw
  unfold boundOf at hv
  cases hkind : p.kind with
  | varPos =>
    rw [hkind] at hv
    exact .inl (List.mem_append_left _ (List.mem_of_mem_drop hv))
  | varKw =>
    rw [hkind] at hv
    simp only [Bound.vals, List.mem_map] at hv
    obtain ⟨kv, hkv, rfl⟩ := hv
    exact .inl (List.mem_append_right _ (List.mem_map.mpr ⟨kv, (List.mem_filter.mp hkv).1, rfl⟩))
  | posOnly => rw [hkind] at hv; exact sel_vals _ _ _ v _ hp hk hv
  | posOrKw => rw [hkind] at hv; exact sel_vals _ _ _ v _ hp hk hv
  | kwOnly => rw [hkind] at hv; exact sel_vals _ _ _ v _ hp hk hv

theorem envOf_vals (sig : Signature) (c : CallShape α) :
    ∀ v ∈ envVals (envOf sig c), v ∈ valuesOf c ∨ isConst v = true := by
  intro v hv
  simp only [envVals, envOf, List.mem_flatMap, List.mem_map] at hv
  obtain ⟨x, ⟨p, _, rfl⟩, hx⟩ := hv
  exact boundOf_vals sig c p v hx

theorem lookupVal_mem {env : Env α} {n : String} {v : Val α} (h : lookupVal env n = some v) :
    v ∈ envVals env := by
  unfold lookupVal at h
  split at h
  · rename_i w hl
    injection h with h
    subst h
    simp only [envVals, List.mem_flatMap]
    exact ⟨_, mem_of_lookup hl, by simp [Bound.vals]⟩
  · cases h

theorem mapOpt_mem {β γ : Type} (f : β → Option γ) :
    ∀ (l : List β) (out : List γ), mapOpt f l = some out → ∀ y ∈ out, ∃ x ∈ l, f x = some y := by
  intro l
  induction l with
  | nil => intro out h y hy; simp [mapOpt] at h; subst h; cases hy
  | cons a r ih =>
    intro out h y hy
    simp only [mapOpt] at h
    cases hfa : f a with
    | none => rw [hfa] at h; cases h
    | some b =>
      cases hr : mapOpt f r with
      | none => rw [hfa, hr] at h; cases h
      | some bs =>
        rw [hfa, hr] at h
        injection h with h
        subst h
        simp only [List.mem_cons] at hy
        rcases hy with rfl | hy
        · exact ⟨a, List.mem_cons_self .., hfa⟩
        · obtain ⟨x, hx, hfx⟩ := ih bs hr y hy
          exact ⟨x, List.mem_cons_of_mem _ hx, hfx⟩

theorem evalA_mem {env : Env α} {e : AExpr} {v : Val α} (h : evalA env e = some v) :
    v ∈ envVals env ∨ isConst v = true := by
  cases e with
  | param n => exact .inl (lookupVal_mem h)
  | lit c => simp only [evalA] at h; injection h with h; subst h; exact .inr rfl
  | unresolved s => cases h

/-- A forwarding call passes on values of the local environment or literals — nothing else. -/
theorem evalCall_vals (env : Env α) (ce : CallExpr) (c' : CallShape α) (h : evalCall env ce = some c') :
    ∀ v ∈ valuesOf c', v ∈ envVals env ∨ isConst v = true := by
  unfold evalCall at h
  split at h
  · rename_i pos star kw dstar hp hs hk hd
    injection h with h
    subst h
    intro v hv
    simp only [valuesOf, List.mem_append, List.mem_map] at hv
    rcases hv with (hv | hv) | ⟨kv, hkv, rfl⟩
    · obtain ⟨e, _, he⟩ := mapOpt_mem _ _ _ hp v hv
      exact evalA_mem he
    · left
      split at hs
      · injection hs with hs; subst hs; cases hv
      · split at hs
        · rename_i n vs hl
          injection hs with hs; subst hs
          simp only [envVals, List.mem_flatMap]
          exact ⟨_, mem_of_lookup hl, by simpa [Bound.vals] using hv⟩
        · cases hs
    · rcases hkv with hkv | hkv
      · obtain ⟨ke, _, hke⟩ := mapOpt_mem _ _ _ hk kv hkv
        cases hev : evalA env ke.2 with
        | none => rw [hev] at hke; cases hke
        | some w =>
          simp only [hev, Option.map_some, Option.some.injEq] at hke
          rw [← hke]
          exact evalA_mem hev
      · left
        split at hd
        · injection hd with hd; subst hd; cases hkv
        · split at hd
          · rename_i n kvs hl
            injection hd with hd; subst hd
            simp only [envVals, List.mem_flatMap]
            exact ⟨_, mem_of_lookup hl, by simp only [Bound.vals, List.mem_map]; exact ⟨kv, hkv, rfl⟩⟩
          · cases hd
  · cases h

/-- **No extra evaluation** (any overload, any arguments): every value that reaches the builtin is
one of the caller's argument values, passed on as is, or a literal written in the library source. -/
theorem callOverload_provenance (truthy : α → Bool) (ov : Overload) (c : CallShape α) (r : Fwd α)
    (h : callOverload truthy ov c = .ok r) :
    ∀ v ∈ valuesOf r.call, v ∈ valuesOf c ∨ isConst v = true := by
  obtain ⟨env, c1, hl, env1, br, hb, _, he, _, hb1, _, he2, _, _⟩ := callOverload_inv truthy ov c r h
  obtain ⟨_, rfl⟩ := bind_ok hb
  obtain ⟨_, rfl⟩ := bind_ok hb1
  intro v hv
  rcases evalCall_vals _ _ _ he2 v hv with h1 | h1
  · rcases envOf_vals _ _ v h1 with h2 | h2
    · rcases evalCall_vals _ _ _ he v h2 with h3 | h3
      · exact envOf_vals _ _ v h3
      · exact .inr h3
    · exact .inr h2
  · exact .inr h1

/-- The only argument values whose truth value the library tests are values of the call. -/
theorem truthTested_vals (truthy : α → Bool) (env : Env α) :
    ∀ (brs : List Branch), ∀ v ∈ truthTested truthy env brs, v ∈ envVals env := by
  intro brs
  induction brs with
  | nil => intro v hv; cases hv
  | cons br rest ih =>
    intro v hv
    have hhere : ∀ w ∈ br.guards.filterMap (fun g => match g with | .truthy p => lookupVal env p | _ => none),
        w ∈ envVals env := by
      intro w hw
      simp only [List.mem_filterMap] at hw
      obtain ⟨g, _, hg⟩ := hw
      cases g with
      | truthy p => exact lookupVal_mem hg
      | isUnspec p => cases hg
      | notUnspec p => cases hg
      | unresolved s => cases hg
    simp only [truthTested] at hv
    split at hv
    · simp only [List.mem_append] at hv
      rcases hv with hv | hv
      · exact hhere v hv
      · exact ih v hv
    · exact hhere v hv

/-! ### registry dispatch -/

/-- The parameter an overload's registry lookup inspects exists and has the right kind. -/
def dispatchWellFormed (ov : Overload) : Bool :=
  match ov.dispatch with
  | .none => true
  | .single _ p _ =>
    (match ov.params.find? (fun q => q.name == p) with
     | some q => q.kind != .varPos && q.kind != .varKw
     | none => false)
  | .firstOf _ p | .allSame _ p =>
    (match ov.params.find? (fun q => q.name == p) with
     | some q => q.kind == .varPos
     | none => false)
  | .unresolved => false

theorem lookup_envOf (sig sig0 : Signature) (c : CallShape α) (k : String) :
    (sig.map (fun p => (p.name, boundOf sig0 c p))).lookup k =
      (sig.find? (fun q => q.name == k)).map (boundOf sig0 c) := by
  induction sig with
  | nil => rfl
  | cons p r ih =>
    simp only [List.map_cons, List.lookup_cons, List.find?_cons]
    by_cases hk : k = p.name
    · subst hk; simp
    · have h1 : (k == p.name) = false := by simpa using hk
      have h2 : (p.name == k) = false := by simpa using fun e => hk e.symm
      simp [h1, h2, ih]

theorem stagedV_none_of_unstaged (staged : Staging α) (c : CallShape α) (hu : unstaged staged c)
    (reg : String) (v : Val α) (hv : v ∈ valuesOf c ∨ isConst v = true) : stagedV staged reg v = none := by
  cases v with
  | const s => rfl
  | arg a =>
    rcases hv with hv | hv
    · simp only [valuesOf, List.mem_append, List.mem_map] at hv
      apply hu reg a
      rcases hv with hv | ⟨kv, hkv, he⟩
      · exact .inl hv
      · refine .inr ⟨kv.1, ?_⟩
        rw [← he]; exact hkv
    · cases hv

theorem commonOverride_none (staged : Staging α) (reg : String) (vs : List (Val α))
    (h : ∀ v ∈ vs, stagedV staged reg v = none) : commonOverride staged reg vs = none := by
  cases vs with
  | nil => rfl
  | cons v r => simp [commonOverride, h v (List.mem_cons_self ..)]

/-- **Default path whenever nothing is staged** (any well-formed overload): if no argument of the
call is a staged value, the registry lookup finds nothing and the `_py_*` helper is taken. -/
theorem dispatch_unstaged (staged : Staging α) (ov : Overload) (c : CallShape α)
    (hw : dispatchWellFormed ov = true) (hu : unstaged staged c) :
    dispatchOf staged ov (envOf ov.params c) = some none := by
  have hstarcase : ∀ (p : String), (match ov.params.find? (fun q => q.name == p) with
        | some q => q.kind == .varPos | none => false) = true →
      (envOf ov.params c).lookup p = some (.star (c.pos.drop (nPos ov.params))) := by
    intro p hw
    split at hw
    · rename_i q hq
      have hk : q.kind = .varPos := by simpa using hw
      have hstar : boundOf ov.params c q = .star (c.pos.drop (nPos ov.params)) := by
        unfold boundOf; simp [hk]
      simp [envOf, lookup_envOf, hq, hstar]
    · cases hw
  have hnone : ∀ reg, ∀ v ∈ c.pos.drop (nPos ov.params), stagedV staged reg v = none := by
    intro reg v hv
    exact stagedV_none_of_unstaged staged c hu reg v (.inl (List.mem_append_left _ (List.mem_of_mem_drop hv)))
  unfold dispatchWellFormed at hw
  unfold dispatchOf
  cases hd : ov.dispatch with
  | none => rfl
  | unresolved => rw [hd] at hw; cases hw
  | single reg p ce =>
    rw [hd] at hw
    simp only at hw ⊢
    split at hw
    · rename_i q hq
      have hl : (envOf ov.params c).lookup p = some (boundOf ov.params c q) := by
        simp [envOf, lookup_envOf, hq]
      have hval : ∃ v, boundOf ov.params c q = .val v := by
        unfold boundOf
        cases hk : q.kind with
        | varPos => simp [hk] at hw
        | varKw => simp [hk] at hw
        | posOnly => simp only; split <;> exact ⟨_, rfl⟩
        | posOrKw => simp only; split <;> exact ⟨_, rfl⟩
        | kwOnly => simp only; split <;> exact ⟨_, rfl⟩
      obtain ⟨v, hv⟩ := hval
      have hlv : lookupVal (envOf ov.params c) p = some v := by simp [lookupVal, hl, hv]
      rw [hlv]
      simp only [Option.map_some]
      congr 1
      apply stagedV_none_of_unstaged staged c hu
      apply boundOf_vals ov.params c q
      rw [hv]; simp [Bound.vals]
    · cases hw
  | firstOf reg p =>
    rw [hd] at hw
    simp only at hw ⊢
    rw [hstarcase p hw]
    have : (c.pos.drop (nPos ov.params)).filterMap (stagedV staged reg) = [] :=
      List.filterMap_eq_nil_iff.mpr (hnone reg)
    simp [this]
  | allSame reg p =>
    rw [hd] at hw
    simp only at hw ⊢
    rw [hstarcase p hw]
    simp [commonOverride_none staged reg _ (hnone reg)]

/-- An overload's dispatch depends on the registries only through the one it consults. -/
theorem dispatchOf_congr (s1 s2 : Staging α) (ov : Overload) (env : Env α)
    (h : ∀ r, dispatchReg ov = some r → ∀ a, s1 r a = s2 r a) :
    dispatchOf s1 ov env = dispatchOf s2 ov env := by
  have hv : ∀ r, dispatchReg ov = some r → ∀ v : Val α, stagedV s1 r v = stagedV s2 r v := by
    intro r hr v
    cases v with
    | arg a => exact h r hr a
    | const c => rfl
  unfold dispatchOf
  cases hd : ov.dispatch with
  | none => rfl
  | unresolved => rfl
  | single reg p ce =>
    have := hv reg (by simp [dispatchReg, hd])
    simp only
    cases lookupVal env p with
    | none => rfl
    | some v => simp [this v]
  | firstOf reg p =>
    have := hv reg (by simp [dispatchReg, hd])
    simp only
    have hf : stagedV s1 reg = stagedV s2 reg := funext this
    rw [hf]
  | allSame reg p =>
    have := hv reg (by simp [dispatchReg, hd])
    simp only
    have hf : stagedV s1 reg = stagedV s2 reg := funext this
    have hc : ∀ vs, commonOverride s1 reg vs = commonOverride s2 reg vs := by
      intro vs
      cases vs with
      | nil => rfl
      | cons v r => simp [commonOverride, hf]
    split <;> simp [hc]

theorem callOverloadS_congr (s1 s2 : Staging α) (truthy : α → Bool) (ov : Overload) (c : CallShape α)
    (h : ∀ r, dispatchReg ov = some r → ∀ a, s1 r a = s2 r a) :
    callOverloadS s1 truthy ov c = callOverloadS s2 truthy ov c := by
  unfold callOverloadS
  cases bind ov.params c with
  | error e => rfl
  | ok env => simp only [dispatchOf_congr s1 s2 ov env h]

/-- With no staged argument the overload behaves exactly as its default path. -/
theorem callOverloadS_unstaged (staged : Staging α) (truthy : α → Bool) (ov : Overload) (c : CallShape α)
    (hw : dispatchWellFormed ov = true) (hu : unstaged staged c) :
    callOverloadS staged truthy ov c = (callOverload truthy ov c).map .py := by
  unfold callOverloadS
  cases hb : bind ov.params c with
  | error e => simp [callOverload, hb, Except.map]
  | ok env =>
    obtain ⟨_, rfl⟩ := bind_ok hb
    by_cases hk : kwAllowed ov (envOf ov.params c) = true
    · simp [hk, dispatch_unstaged staged ov c hw hu]
    · simp only [Bool.not_eq_true] at hk
      simp [hk, callOverload, hb, Except.map]

/-! ### `callMapped`: the table entry called directly -/

theorem callMapped_unfold (truthy : α → Bool) (b on : String) (ov : Overload) (c : CallShape α)
    (h1 : builtinFunctionsMap.lookup b = some on) (h2 : findOverload on = some ov) :
    callMapped truthy b c = callOverload truthy ov c := by
  simp [callMapped, h1, h2]

theorem callMappedS_unfold (staged : Staging α) (truthy : α → Bool) (b on : String) (ov : Overload) (c : CallShape α)
    (h1 : builtinFunctionsMap.lookup b = some on) (h2 : findOverload on = some ov) :
    callMappedS staged truthy b c = callOverloadS staged truthy ov c := by
  simp [callMappedS, h1, h2]

/-- For a supported builtin, `overload_of(b)(…)` is the table entry. -/
theorem forward_eq_callMapped (truthy : α → Bool) (b : String) (hb : b ∈ supportedBuiltins) (c : CallShape α) :
    forward truthy b c = callMapped truthy b c := by
  simp only [supportedBuiltins, List.mem_cons, List.not_mem_nil, or_false] at hb
  rcases hb with rfl | rfl | rfl | rfl | rfl | rfl | rfl | rfl | rfl | rfl | rfl | rfl | rfl <;> rfl

section
variable [DecidableEq α]

def PreservedM (truthy : α → Bool) (b : String) (form : Signature) (c : CallShape α) : Prop :=
  ∃ r, callMapped truthy b c = .ok r ∧ r.callee = b ∧ accepts form r.call = true ∧
    envEquiv truthy b (envOf form c) (envOf form r.call) = true

theorem preservedM_of_preserved (truthy : α → Bool) (b : String) (hb : b ∈ supportedBuiltins)
    (form : Signature) (c : CallShape α) (h : Preserved truthy b form c) : PreservedM truthy b form c := by
  obtain ⟨r, h1, h2, h3, h4⟩ := h
  exact ⟨r, by rw [← forward_eq_callMapped truthy b hb]; exact h1, h2, h3, h4⟩

/-! ### next(iterator[, default]) — mapped (`'next': next_`) though not in SUPPORTED_BUILTINS -/

theorem preservedM_next1 (truthy : α → Bool) (c : CallShape α) (h : accepts [⟨"iterator", .posOnly, none⟩] c = true) :
    PreservedM truthy "next" [⟨"iterator", .posOnly, none⟩] c := by
  obtain ⟨pos, kw⟩ := c
  have hkw : kw = [] := keys_nil (accepts_keys h rfl)
  subst hkw
  match pos, h with
  | [], h => exact (false_of_eq_true_false h rfl).elim
  | [a], _ => exact ⟨_, rfl, rfl, rfl, envEquiv_of_eq _ _ rfl⟩
  | _ :: _ :: r, h =>
    have := accepts_pos_le h rfl
    simp [nPos, posParams, isPos] at this

theorem preservedM_next2 (truthy : α → Bool) (c : CallShape α) (hu : userShape c = true)
    (h : accepts [⟨"iterator", .posOnly, none⟩, ⟨"default", .posOnly, none⟩] c = true) :
    PreservedM truthy "next" [⟨"iterator", .posOnly, none⟩, ⟨"default", .posOnly, none⟩] c := by
  obtain ⟨pos, kw⟩ := c
  have hkw : kw = [] := keys_nil (accepts_keys h rfl)
  subst hkw
  match pos, h, hu with
  | [], h, _ => exact (false_of_eq_true_false h rfl).elim
  | [_], h, _ => exact (false_of_eq_true_false h rfl).elim
  | [a, b], _, hu =>
    obtain ⟨_, rfl⟩ := userShape_pos hu b (by simp)
    exact ⟨_, rfl, rfl, rfl, envEquiv_of_eq _ _ rfl⟩
  | _ :: _ :: _ :: r, h, _ =>
    have := accepts_pos_le h rfl
    simp [nPos, posParams, isPos] at this
end

/-! ### positional arity errors -/

/-- Every documented form of `b` rejects the call. -/
def AllReject (b : String) (c : CallShape α) : Prop := ∀ form ∈ spec b, accepts form c = false

/-- Too many positionals for an overload without `*args`: TypeError from its own binding. -/
theorem arity_too_many (truthy : α → Bool) (b on : String) (ov : Overload) (pos : List (Val α))
    (h1 : builtinFunctionsMap.lookup b = some on) (h2 : findOverload on = some ov)
    (hv : hasVarPos ov.params = false) (n : Nat) (hn : nPos ov.params = n) (hlong : n < pos.length) :
    ∃ e, callMapped truthy b ⟨pos, []⟩ = .error (.bind e) := by
  have hna : accepts ov.params (⟨pos, []⟩ : CallShape α) = false := by
    cases ha : accepts ov.params (⟨pos, []⟩ : CallShape α) with
    | false => rfl
    | true =>
      have := accepts_pos_le ha hv
      simp only at this
      omega
  obtain ⟨e, he⟩ := bind_error_of_not_accepts hna
  exact ⟨e, by rw [callMapped_unfold truthy b on ov _ h1 h2]; exact callOverload_bind_error truthy ov _ e he⟩

/-- What the positional-arity theorem concludes: the caller gets a TypeError — from the library's own
binding, or from the builtin, which is handed a call that every documented form rejects. -/
def ArityError (truthy : α → Bool) (b : String) (c : CallShape α) : Prop :=
  (∃ e, callMapped truthy b c = .error (.bind e)) ∨
  (∃ r, callMapped truthy b c = .ok r ∧ r.callee = b ∧ AllReject b r.call)

private theorem one_param (truthy : α → Bool) (b on n : String) (ov : Overload)
    (h1 : builtinFunctionsMap.lookup b = some on) (h2 : findOverload on = some ov)
    (hp : ov.params = [⟨n, .posOrKw, none⟩])
    (hempty : ∃ e, callMapped truthy b (⟨[], []⟩ : CallShape α) = .error (.bind e))
    (hacc : ∀ a : Val α, ∃ form ∈ spec b, accepts form (⟨[a], []⟩ : CallShape α) = true)
    (pos : List (Val α)) (hrej : AllReject b (⟨pos, []⟩ : CallShape α)) : ArityError truthy b ⟨pos, []⟩ := by
  match pos, hrej with
  | [], _ => exact .inl hempty
  | [a], hrej =>
    obtain ⟨form, hf, ha⟩ := hacc a
    exact (false_of_eq_true_false ha (hrej form hf)).elim
  | _ :: _ :: r, _ =>
    exact .inl (arity_too_many truthy b on ov _ h1 h2 (by rw [hp]; rfl) 1 (by rw [hp]; rfl) (by simp))

theorem arity_abs (truthy : α → Bool) (pos : List (Val α)) (h : AllReject "abs" (⟨pos, []⟩ : CallShape α)) :
    ArityError truthy "abs" ⟨pos, []⟩ :=
  one_param truthy "abs" "abs_" "x" _ rfl rfl rfl ⟨_, rfl⟩ (fun _ => ⟨_, List.mem_cons_self .., rfl⟩) pos h

theorem arity_len (truthy : α → Bool) (pos : List (Val α)) (h : AllReject "len" (⟨pos, []⟩ : CallShape α)) :
    ArityError truthy "len" ⟨pos, []⟩ :=
  one_param truthy "len" "len_" "s" _ rfl rfl rfl ⟨_, rfl⟩ (fun _ => ⟨_, List.mem_cons_self .., rfl⟩) pos h

theorem arity_any (truthy : α → Bool) (pos : List (Val α)) (h : AllReject "any" (⟨pos, []⟩ : CallShape α)) :
    ArityError truthy "any" ⟨pos, []⟩ :=
  one_param truthy "any" "any_" "iterable" _ rfl rfl rfl ⟨_, rfl⟩ (fun _ => ⟨_, List.mem_cons_self .., rfl⟩) pos h

theorem arity_all (truthy : α → Bool) (pos : List (Val α)) (h : AllReject "all" (⟨pos, []⟩ : CallShape α)) :
    ArityError truthy "all" ⟨pos, []⟩ :=
  one_param truthy "all" "all_" "iterable" _ rfl rfl rfl ⟨_, rfl⟩ (fun _ => ⟨_, List.mem_cons_self .., rfl⟩) pos h

theorem arity_float (truthy : α → Bool) (pos : List (Val α)) (h : AllReject "float" (⟨pos, []⟩ : CallShape α)) :
    ArityError truthy "float" ⟨pos, []⟩ := by
  match pos, h with
  | [], h => exact (false_of_eq_true_false rfl (h _ (List.mem_cons_self ..))).elim
  | [_], h => exact (false_of_eq_true_false rfl (h _ (List.mem_cons_self ..))).elim
  | _ :: _ :: r, _ => exact .inl (arity_too_many truthy "float" "float_" _ _ rfl rfl rfl 1 rfl (by simp))

theorem arity_int (truthy : α → Bool) (pos : List (Val α)) (h : AllReject "int" (⟨pos, []⟩ : CallShape α)) :
    ArityError truthy "int" ⟨pos, []⟩ := by
  match pos, h with
  | [], h => exact (false_of_eq_true_false rfl (h _ (List.mem_cons_self ..))).elim
  | [_], h => exact (false_of_eq_true_false rfl (h _ (List.mem_cons_self ..))).elim
  | [_, _], h => exact (false_of_eq_true_false rfl (h _ (List.mem_cons_of_mem _ (List.mem_cons_self ..)))).elim
  | _ :: _ :: _ :: r, _ => exact .inl (arity_too_many truthy "int" "int_" _ _ rfl rfl rfl 2 rfl (by simp))

theorem arity_enumerate (truthy : α → Bool) (pos : List (Val α)) (h : AllReject "enumerate" (⟨pos, []⟩ : CallShape α)) :
    ArityError truthy "enumerate" ⟨pos, []⟩ := by
  match pos, h with
  | [], _ => exact .inl ⟨_, rfl⟩
  | [_], h => exact (false_of_eq_true_false rfl (h _ (List.mem_cons_self ..))).elim
  | [_, _], h => exact (false_of_eq_true_false rfl (h _ (List.mem_cons_self ..))).elim
  | _ :: _ :: _ :: r, _ => exact .inl (arity_too_many truthy "enumerate" "enumerate_" _ _ rfl rfl rfl 2 rfl (by simp))

theorem arity_filter (truthy : α → Bool) (pos : List (Val α)) (h : AllReject "filter" (⟨pos, []⟩ : CallShape α)) :
    ArityError truthy "filter" ⟨pos, []⟩ := by
  match pos, h with
  | [], _ => exact .inl ⟨_, rfl⟩
  | [_], _ => exact .inl ⟨_, rfl⟩
  | [_, _], h => exact (false_of_eq_true_false rfl (h _ (List.mem_cons_self ..))).elim
  | _ :: _ :: _ :: r, _ => exact .inl (arity_too_many truthy "filter" "filter_" _ _ rfl rfl rfl 2 rfl (by simp))

theorem arity_next (truthy : α → Bool) (pos : List (Val α)) (h : AllReject "next" (⟨pos, []⟩ : CallShape α)) :
    ArityError truthy "next" ⟨pos, []⟩ := by
  match pos, h with
  | [], _ => exact .inl ⟨_, rfl⟩
  | [_], h => exact (false_of_eq_true_false rfl (h _ (List.mem_cons_self ..))).elim
  | [_, _], h => exact (false_of_eq_true_false rfl (h _ (List.mem_cons_of_mem _ (List.mem_cons_self ..)))).elim
  | _ :: _ :: _ :: r, _ => exact .inl (arity_too_many truthy "next" "next_" _ _ rfl rfl rfl 2 rfl (by simp))

theorem arity_range (truthy : α → Bool) (pos : List (Val α)) (h : AllReject "range" (⟨pos, []⟩ : CallShape α)) :
    ArityError truthy "range" ⟨pos, []⟩ := by
  match pos, h with
  | [], _ => exact .inl ⟨_, rfl⟩
  | [_], h => exact (false_of_eq_true_false rfl (h _ (List.mem_cons_self ..))).elim
  | [_, _], h => exact (false_of_eq_true_false rfl (h _ (List.mem_cons_of_mem _ (List.mem_cons_self ..)))).elim
  | [_, _, _], h => exact (false_of_eq_true_false rfl (h _ (List.mem_cons_of_mem _ (List.mem_cons_self ..)))).elim
  | _ :: _ :: _ :: _ :: r, _ => exact .inl (arity_too_many truthy "range" "range_" _ _ rfl rfl rfl 3 rfl (by simp))

/-- `map(f)`: the overload accepts it and hands `map` the same one-argument call, which `map` rejects. -/
theorem arity_map (truthy : α → Bool) (pos : List (Val α)) (h : AllReject "map" (⟨pos, []⟩ : CallShape α)) :
    ArityError truthy "map" ⟨pos, []⟩ := by
  match pos, h with
  | [], _ => exact .inl ⟨_, rfl⟩
  | [a], _ =>
    refine .inr ⟨⟨"map", ⟨[a], []⟩, true⟩, rfl, rfl, ?_⟩
    intro form hf
    simp [spec, specTable, List.lookup] at hf
    subst hf; rfl
  | _ :: _ :: r, h => exact (false_of_eq_true_false rfl (h _ (List.mem_cons_self ..))).elim

theorem arity_print (truthy : α → Bool) (pos : List (Val α)) (h : AllReject "print" (⟨pos, []⟩ : CallShape α)) :
    ArityError truthy "print" ⟨pos, []⟩ :=
  (false_of_eq_true_false rfl (h _ (List.mem_cons_self ..))).elim

theorem arity_zip (truthy : α → Bool) (pos : List (Val α)) (h : AllReject "zip" (⟨pos, []⟩ : CallShape α)) :
    ArityError truthy "zip" ⟨pos, []⟩ :=
  (false_of_eq_true_false rfl (h _ (List.mem_cons_self ..))).elim

/-- `sorted(xs, k)` / `sorted(xs, k, r)` are TypeErrors for the builtin but the overload accepts them
(its `key`/`reverse` are positional-or-keyword): excluded by `hs`. -/
theorem arity_sorted (truthy : α → Bool) (pos : List (Val α)) (h : AllReject "sorted" (⟨pos, []⟩ : CallShape α))
    (hs : ¬ (2 ≤ pos.length ∧ pos.length ≤ 3)) : ArityError truthy "sorted" ⟨pos, []⟩ := by
  match pos, h, hs with
  | [], _, _ => exact .inl ⟨_, rfl⟩
  | [_], h, _ => exact (false_of_eq_true_false rfl (h _ (List.mem_cons_self ..))).elim
  | [_, _], _, hs => exact absurd ⟨by simp, by simp⟩ hs
  | [_, _, _], _, hs => exact absurd ⟨by simp, by simp⟩ hs
  | _ :: _ :: _ :: _ :: r, _, _ => exact .inl (arity_too_many truthy "sorted" "sorted_" _ _ rfl rfl rfl 3 rfl (by simp))

/-! ### one row of the extracted table (a complete finite check) -/

/-- `b` is a key of the map; its entry names a defined overload whose registry dispatch is well
formed and whose helper is defined and calls `b` in every branch, returning its result (or `b` is
`print`); the specification has at least one form for `b`; the only truth test in any helper is
`_py_zip`'s `if strict:`. -/
def rowOk (b : String) : Bool :=
  match builtinFunctionsMap.lookup b with
  | some on =>
    match findOverload on with
    | some ov =>
      match findHelper ov.call.callee with
      | some h => dispatchWellFormed ov && !(spec b).isEmpty && !h.branches.isEmpty && h.branches.all (fun br =>
          br.call.callee == b && ((ov.ret == .value && br.ret == .value) || b == "print")
          && br.guards.all (fun g => match g with
              | .truthy p => h.name == "_py_zip" && p == "strict"
              | .unresolved _ => false
              | _ => true))
      | none => false
    | none => false
  | none => false

theorem rowOk_all : ∀ b ∈ mappedBuiltins ++ supportedBuiltins, rowOk b = true := by decide

theorem rowOk_elim {b : String} (h : rowOk b = true) :
    ∃ on ov hl, builtinFunctionsMap.lookup b = some on ∧ findOverload on = some ov ∧
      dispatchWellFormed ov = true ∧ spec b ≠ [] ∧ findHelper ov.call.callee = some hl ∧
      ∀ br ∈ hl.branches, br.call.callee = b ∧
        ((ov.ret == .value && br.ret == .value) = true ∨ b = "print") ∧
        (∀ g ∈ br.guards, ∀ p, g = .truthy p → hl.name = "_py_zip" ∧ p = "strict") := by
  unfold rowOk at h
  split at h
  · rename_i on h1
    split at h
    · rename_i ov h2
      split at h
      · rename_i hl h3
        simp only [Bool.and_eq_true, Bool.not_eq_true', List.all_eq_true, Bool.or_eq_true, beq_iff_eq] at h
        refine ⟨on, ov, hl, h1, h2, h.1.1.1, ?_, h3, ?_⟩
        · intro hn; have := h.1.1.2; rw [hn] at this; simp at this
        · intro br hbr
          have := h.2 br hbr
          refine ⟨this.1.1, by simpa using this.1.2, ?_⟩
          intro g hg p hgp
          have hgg := this.2 g hg
          subst hgp
          simpa using hgg
      · cases h
    · cases h
  · cases h

end Malt.Builtins
