import MaltModel.Proofs.FuncBasic
import MaltModel.Proofs.FuncRestrict
/-!
The liveness-indexed forward simulation behind `control_flow_correct`:
source `Malt.Sem.exec` on the erased program  ⟶  native target semantics `execN` on the functionalised program.

Four mutually dependent statements, proved together by one induction on the source fuel (the pattern of
`design-notes/feasibility-break-lowering`): statements (`SimS`), blocks (`SimB`), the iterations of a `while`
(`SimW`, about the bare `whileF` — the `Undefined` pre-assignments run once, before the loop) and the iterations of
a `for` (`SimFor`).

Relation: `Agree L σ σ'` — on the variables `L` live at the current point the target slot reads as the source
binding, and the logs are equal.  Exceptional outcomes: `AgreeOutK` also demands agreement on what the exception
context `K` says must be live for the exception that was raised (`K.get e`): the live-in of the handler that will
catch it, or of the innermost enclosing `finally`; `with`/`try` are pass-through statements (same frame).  Side invariant on the source state: `BoundSub σ D` — only variables in `D`
are bound (needed because `x = ag__.Undefined('x')` overwrites `x`: harmless only if `x` really is unbound).
-/
namespace Malt.Func
open Malt.Sem

def BoundSub (σ : St) (D : List Name) : Prop := ∀ y, σ.env y ≠ none → y ∈ D

/-- Result agreement: equal logs always; equal live-out variables after a normal completion. -/
def AgreeOut (o : Out) (L : List Name) (σ₁ : St) (σ₁' : TSt) : Prop :=
  σ₁'.log = σ₁.log ∧ (o = .normal → Agree L σ₁ σ₁')

/-- Outcomes of a block without `return` (the fragment has no break/continue). -/
def NJ (o : Out) : Prop := o = .normal ∨ ∃ e, o = .exc e

theorem BoundSub.mono {σ : St} {D E : List Name} (h : BoundSub σ D) (hs : D ⊆ E) : BoundSub σ E :=
  fun y hy => hs (h y hy)

theorem BoundSub.of_env {σ τ : St} {D : List Name} (h : BoundSub σ D) (he : τ.env = σ.env) : BoundSub τ D :=
  fun y hy => h y (by rw [← he]; exact hy)

theorem BoundSub.set {σ : St} {D E : List Name} (h : BoundSub σ D) (x : Name) (v : Val) (hs : D ⊆ E) (hx : x ∈ E) :
    BoundSub (σ.set x v) E := by
  intro y hy
  by_cases hyx : y = x
  · subst hyx; exact hx
  · simp only [St.set, hyx, if_false] at hy
    exact hs (h y hy)

theorem NJ.fnOut {o : Out} (h : NJ o) : fnOut o = o := by
  rcases h with rfl | ⟨e, rfl⟩ <;> rfl

/-- Result agreement in an exception context: equal logs always; equal live-out variables after a normal
completion; after an exception `e`, agreement on what its continuation (handler / `finally`) needs. -/
def AgreeOutK (o : Out) (L : List Name) (K : ExcCtx) (σ₁ : St) (σ₁' : TSt) : Prop :=
  σ₁'.log = σ₁.log ∧ (o = .normal → Agree L σ₁ σ₁') ∧ (∀ e, o = .exc e → Agree (K.get e) σ₁ σ₁')

/-- User exceptions come from explicit `raise` statements. -/
def RaisedIn (o : Out) (ts : List Nat) : Prop := ∀ t, o = .exc (.user t) → t ∈ ts

/-! ### Exception contexts -/
theorem get_impl (K : ExcCtx) {e : Exc} (h : IsImpl e) : K.get e = K.other := by
  cases e <;> simp [IsImpl] at h <;> rfl

theorem hsAll_mem {hs : List (Nat × List Name)} {h : Nat × List Name} (hm : h ∈ hs) : h.2 ⊆ hsAll hs := by
  induction hs with
  | nil => cases hm
  | cons a r ih =>
    obtain ⟨t, l⟩ := a
    simp only [hsAll]
    rcases List.mem_cons.mp hm with rfl | hm
    · exact List.subset_append_left _ _
    · exact fun x hx => List.mem_append.mpr (Or.inr (ih hm hx))

theorem get_sub_all (K : ExcCtx) (e : Exc) : K.get e ⊆ K.all := by
  cases e with
  | user t =>
    simp only [ExcCtx.get, ExcCtx.all]
    cases hf : K.hs.find? (fun h => h.1 == t) with
    | none => exact List.subset_append_left _ _
    | some h => exact fun x hx => List.mem_append.mpr (Or.inr (hsAll_mem (List.mem_of_find?_eq_some hf) hx))
  | _ => exact List.subset_append_left _ _

theorem toFin_get (Fi : List Name) (e : Exc) : (ExcCtx.toFin Fi).get e = Fi := by
  cases e <;> simp [ExcCtx.get, ExcCtx.toFin]

/-- An error of expression evaluation, at a statement whose live-in contains `K.other`. -/
theorem agree_err {K : ExcCtx} {L : List Name} {σ : St} {σ' : TSt} (h : Agree L σ σ') (hK : K.other ⊆ L)
    {ex : Exc} (hi : IsImpl ex) : ∀ e, Out.exc ex = Out.exc e → Agree (K.get e) σ σ' := by
  intro e he
  cases he
  rw [get_impl K hi]; exact h.mono hK

theorem raisedIn_impl {ex : Exc} (hi : IsImpl ex) (ts : List Nat) : RaisedIn (.exc ex) ts := by
  intro t ht
  cases ht
  exact absurd hi (by simp [IsImpl])

theorem raisedIn_normal (ts : List Nat) : RaisedIn .normal ts := fun t ht => by cases ht

theorem RaisedIn.mono {o : Out} {ts us : List Nat} (h : RaisedIn o ts) (hs : ts ⊆ us) : RaisedIn o us :=
  fun t ht => hs (h t ht)

/-! ### Handlers of a `try` -/
def findA (hs : List (Nat × List AStmt)) (t : Nat) : Option (List AStmt) := (hs.find? (fun h => h.1 == t)).map (·.2)

theorem findA_cons (t' : Nat) (b : List AStmt) (r : List (Nat × List AStmt)) (t : Nat) :
    findA ((t', b) :: r) t = if t' == t then some b else findA r t := by
  simp only [findA, List.find?]
  cases t' == t <;> rfl

theorem findHandler_erase : ∀ (hs : List (Nat × List AStmt)) (t : Nat),
    findHandler (eraseH hs) (.user t) = (findA hs t).map eraseB
  | [], t => by simp [eraseH, findHandler, findA]
  | (t', b) :: r, t => by
      have ih := findHandler_erase r t
      rw [findA_cons]
      simp only [eraseH, findHandler, List.find?] at ih ⊢
      cases h : t' == t <;> simp [ih]

theorem findHandlerT_func : ∀ (hs : List (Nat × List AStmt)) (t : Nat),
    findHandlerT (funcH hs) (.user t) = (findA hs t).map funcB
  | [], t => by simp [funcH, findHandlerT, findA]
  | (t', b) :: r, t => by
      have ih := findHandlerT_func r t
      rw [findA_cons]
      simp only [funcH, findHandlerT, List.find?] at ih ⊢
      cases h : t' == t <;> simp [ih]

theorem handlerIns_get (Fi Fx : List Name) : ∀ (hs : List (Nat × List AStmt)) (t : Nat),
    (ExcCtx.mk (handlerIns Fi hs) Fx).get (.user t) = match findA hs t with | some b => blockIn b Fi | none => Fx
  | [], t => by simp [handlerIns, ExcCtx.get, findA]
  | (t', b) :: r, t => by
      have ih := handlerIns_get Fi Fx r t
      rw [findA_cons]
      simp only [handlerIns, ExcCtx.get, List.find?] at ih ⊢
      cases h : t' == t <;> simp [ih]

theorem find_facts : ∀ (hs : List (Nat × List AStmt)) (t : Nat) (b : List AStmt), findA hs t = some b →
    (∀ K O, LiveH K hs O → LiveB K b O) ∧ (DeclH hs → DeclB b) ∧ (∀ D, DefH D hs → DefB D b) ∧
    (noRetH hs = true → noRetB b = true) ∧ raisesB b ⊆ raisesH hs ∧ asgB b ⊆ asgH hs
  | [], t, b, h => by simp [findA] at h
  | (t', b') :: r, t, b, h => by
      rw [findA_cons] at h
      cases ht : t' == t with
      | true =>
        simp only [ht, if_true, Option.some.injEq] at h; subst h
        refine ⟨fun K O hl => ?_, fun hd => ?_, fun D hd => ?_, fun hn => ?_, ?_, ?_⟩
        · simp only [LiveH] at hl; exact hl.1
        · simp only [DeclH] at hd; exact hd.1
        · simp only [DefH] at hd; exact hd.1
        · simp only [noRetH, Bool.and_eq_true] at hn; exact hn.1
        · simp only [raisesH]; exact List.subset_append_left _ _
        · simp only [asgH]; exact List.subset_append_left _ _
      | false =>
        simp only [ht, Bool.false_eq_true, if_false] at h
        obtain ⟨h1, h2, h3, h4, h5, h6⟩ := find_facts r t b h
        refine ⟨fun K O hl => ?_, fun hd => ?_, fun D hd => ?_, fun hn => ?_, ?_, ?_⟩
        · simp only [LiveH] at hl; exact h1 K O hl.2
        · simp only [DeclH] at hd; exact h2 hd.2
        · simp only [DefH] at hd; exact h3 D hd.2
        · simp only [noRetH, Bool.and_eq_true] at hn; exact h4 hn.2
        · simp only [raisesH]; exact fun x hx => List.mem_append.mpr (Or.inr (h5 hx))
        · simp only [asgH]; exact fun x hx => List.mem_append.mpr (Or.inr (h6 hx))

theorem afterHN_mono (X : Ext) {n m : Nat} (hnm : n ≤ m) {hs : List (Nat × TBlock)} {r r' : Out × TSt}
    (h : afterHN X n hs r = some r') : afterHN X m hs r = some r' := by
  obtain ⟨o, σ'⟩ := r
  cases o with
  | exc ex =>
    simp only [afterHN] at h ⊢
    cases hf : findHandlerT hs ex with
    | none => rw [hf] at h; exact h
    | some hb => rw [hf] at h; simp only at h ⊢; exact execNB_mono X h hnm
  | _ => simpa [afterHN] using h

theorem noRet_retTopS (s : AStmt) (h : noRetS s = true) : retTopS s = true := by
  cases s <;> simp_all [noRetS, retTopS]

theorem noRet_retTopB : ∀ (b : ABlock), noRetB b = true → retTopB b = true
  | [], _ => rfl
  | s :: r, h => by
      simp only [noRetB, Bool.and_eq_true] at h
      simp only [retTopB, Bool.and_eq_true]
      exact ⟨noRet_retTopS s h.1, noRet_retTopB r h.2⟩

def SimS (X : Ext) (n : Nat) : Prop :=
  ∀ (s : AStmt) (K : ExcCtx) (D : List Name) (σ : St) (σ' : TSt) (o : Out) (σ₁ : St),
    LiveS K s → DeclS s → DefS D s → retTopS s = true →
    Agree s.info.liveIn σ σ' → BoundSub σ D → exec X n (eraseS s) σ = some (o, σ₁) →
    (∃ m σ₁', execNB X m (funcS s) σ' = some (o, σ₁') ∧ AgreeOutK o s.info.liveOut K σ₁ σ₁') ∧
    (noRetS s = true → NJ o) ∧ RaisedIn o (raisesS s) ∧ BoundSub σ₁ (D ++ asgS s)

def SimB (X : Ext) (n : Nat) : Prop :=
  ∀ (b : ABlock) (K : ExcCtx) (D O : List Name) (σ : St) (σ' : TSt) (o : Out) (σ₁ : St),
    LiveB K b O → DeclB b → DefB D b → retTopB b = true →
    Agree (blockIn b O) σ σ' → BoundSub σ D → execB X n (eraseB b) σ = some (o, σ₁) →
    (∃ m σ₁', execNB X m (funcB b) σ' = some (o, σ₁') ∧ AgreeOutK o O K σ₁ σ₁') ∧
    (noRetB b = true → NJ o) ∧ RaisedIn o (raisesB b) ∧ BoundSub σ₁ (D ++ asgB b)

def SimW (X : Ext) (n : Nat) : Prop :=
  ∀ (i : Info) (c : Expr) (b : ABlock) (K : ExcCtx) (D : List Name) (σ : St) (σ' : TSt) (o : Out) (σ₁ : St),
    LiveS K (.whileS i c b) → DeclS (.whileS i c b) → DefB D b → asgB b ⊆ D → noRetB b = true →
    Agree i.liveIn σ σ' → BoundSub σ D → exec X n (.whileS c (eraseB b)) σ = some (o, σ₁) →
    (∃ m σ₁', execN X m (.whileF c (funcB b) i.declared) σ' = some (o, σ₁') ∧ AgreeOutK o i.liveOut K σ₁ σ₁') ∧
    NJ o ∧ RaisedIn o (raisesB b) ∧ BoundSub σ₁ D

def SimFor (X : Ext) (n : Nat) : Prop :=
  ∀ (i : Info) (x : Name) (it : Expr) (extra : Option Expr) (b : ABlock) (K : ExcCtx) (D : List Name) (items : List Val)
    (σ : St) (σ' : TSt) (o : Out) (σ₁ : St),
    LiveS K (.forS i x it extra b) → DeclS (.forS i x it extra b) → DefB D b → (x :: asgB b) ⊆ D → noRetB b = true →
    Agree i.liveIn σ σ' → BoundSub σ D → execFor X n x extra (eraseB b) items σ = some (o, σ₁) →
    (∃ m σ₁', execNFor X m x extra (funcB b) i.declared items σ' = some (o, σ₁') ∧ AgreeOutK o i.liveOut K σ₁ σ₁') ∧
    NJ o ∧ RaisedIn o (raisesB b) ∧ BoundSub σ₁ D

/-! ### The key fact: what is not declared is frame-local **and dead** -/
theorem not_live_of_not_declared {i : Info} {modified : List Name} {x : Name}
    (hd : modified.filter (liveEither i) ⊆ i.declared) (hx : x ∈ modified) (hnd : i.declared.contains x = false) :
    x ∉ i.liveIn ∧ x ∉ i.liveOut := by
  have hnot : liveEither i x = false := by
    cases hl : liveEither i x with
    | false => rfl
    | true =>
      have : x ∈ i.declared := hd (List.mem_filter.mpr ⟨hx, hl⟩)
      have : i.declared.contains x = true := by simpa using this
      rw [hnd] at this; cases this
  simp only [liveEither, Bool.or_eq_false_iff] at hnot
  constructor
  · intro h; have : i.liveIn.contains x = true := by simpa using h
    rw [hnot.1] at this; cases this
  · intro h; have : i.liveOut.contains x = true := by simpa using h
    rw [hnot.2] at this; cases this

theorem locals_dead {i : Info} {body : ABlock} {modified : List Name} (hsub : asgB body ⊆ modified)
    (hd : modified.filter (liveEither i) ⊆ i.declared) (hdecl : DeclB body) :
    ∀ x ∈ localsOf (funcB body) i.declared, x ∉ i.liveIn ∧ x ∉ i.liveOut := by
  intro x hx
  simp only [localsOf, List.mem_filter, Bool.not_eq_eq_eq_not, Bool.not_true] at hx
  exact not_live_of_not_declared hd (hsub (direct_funcB body hdecl hx.1)) hx.2

theorem localsFor_dead {i : Info} {x : Name} {body : ABlock}
    (hd : (x :: asgB body).filter (liveEither i) ⊆ i.declared) (hdecl : DeclB body) :
    ∀ y ∈ localsFor x (funcB body) i.declared, y ∉ i.liveIn ∧ y ∉ i.liveOut := by
  intro y hy
  simp only [localsFor, List.mem_filter, Bool.not_eq_eq_eq_not, Bool.not_true] at hy
  refine not_live_of_not_declared hd ?_ hy.2
  rcases List.mem_cons.mp hy.1 with h | h
  · exact List.mem_cons.mpr (Or.inl h)
  · exact List.mem_cons.mpr (Or.inr (direct_funcB body hdecl h))

/-- Returning from a generated function: frame-local slots are restored; nothing live is affected. -/
theorem frame_out {o : Out} {O L : List Name} {σ₂ : St} {σ' τ : TSt} (h : AgreeOut o O σ₂ τ)
    (hL : ∀ x ∈ L, x ∉ O) (hnj : NJ o) :
    withFrame L σ' (some (o, τ)) = some (o, restore L σ' τ) ∧ AgreeOut o O σ₂ (restore L σ' τ) := by
  refine ⟨by simp [withFrame, hnj.fnOut], h.1, fun ho => (h.2 ho).restore L σ' hL⟩

/-- Returning from a generated function in an exception context: frame-local slots are restored; nothing that is
live afterwards — normally or for the handler / `finally` of the raised exception — is affected. -/
theorem frame_outK {o : Out} {O L : List Name} {K : ExcCtx} {σ₂ : St} {σ' τ : TSt} (h : AgreeOutK o O K σ₂ τ)
    (hL : ∀ x ∈ L, x ∉ O) (hLK : ∀ e, o = .exc e → ∀ x ∈ L, x ∉ K.get e) (hnj : NJ o) :
    withFrame L σ' (some (o, τ)) = some (o, restore L σ' τ) ∧ AgreeOutK o O K σ₂ (restore L σ' τ) := by
  refine ⟨by simp [withFrame, hnj.fnOut], h.1, fun ho => (h.2.1 ho).restore L σ' hL,
    fun e he => (h.2.2 e he).restore L σ' (hLK e he)⟩

/-- The frame-local names of a functionalised statement are outside everything an exception leaving it needs. -/
theorem locals_exc {K : ExcCtx} {i : Info} {L : List Name} {ts : List Nat} {o : Out}
    (hloc : ∀ x ∈ L, x ∉ i.liveIn ∧ x ∉ i.liveOut) (hKo : K.other ⊆ i.liveIn) (hro : raiseOK K i ts)
    (hr : RaisedIn o ts) : ∀ e, o = .exc e → ∀ x ∈ L, x ∉ K.get e := by
  intro e he x hx hin
  cases e with
  | user t =>
    have := hro t (hr t he) hin
    rcases List.mem_append.mp this with h | h
    · exact (hloc x hx).1 h
    · exact (hloc x hx).2 h
  | nameError y => exact (hloc x hx).1 (hKo (by simpa [ExcCtx.get] using hin))
  | typeError => exact (hloc x hx).1 (hKo (by simpa [ExcCtx.get] using hin))

/-- Calling a generated body function (shared by `if`, `while`). -/
theorem body_call (X : Ext) (n : Nat) (hB : SimB X n) (t : ABlock) (K : ExcCtx) (O M D L : List Name)
    (σ : St) (σ' : TSt) (o : Out) (σ₂ : St)
    (hlive : LiveB K t O) (hdecl : DeclB t) (hdef : DefB D t) (hnr : noRetB t = true)
    (hag : Agree M σ σ') (hM : blockIn t O ⊆ M) (hL1 : ∀ x ∈ L, x ∉ blockIn t O) (hL2 : ∀ x ∈ L, x ∉ O)
    (hLK : ∀ o, RaisedIn o (raisesB t) → ∀ e, o = .exc e → ∀ x ∈ L, x ∉ K.get e)
    (hb : BoundSub σ D) (h : execB X n (eraseB t) σ = some (o, σ₂)) :
    (∃ m σ₂', withFrame L σ' (execNB X m (funcB t) (mask L σ')) = some (o, σ₂') ∧ AgreeOutK o O K σ₂ σ₂') ∧
    NJ o ∧ RaisedIn o (raisesB t) ∧ BoundSub σ₂ (D ++ asgB t) := by
  have hag' : Agree (blockIn t O) σ (mask L σ') := (hag.mono hM).mask L hL1
  obtain ⟨⟨m, τ, hx, hout⟩, hnj, hr, hbd⟩ := hB t K D O σ (mask L σ') o σ₂ hlive hdecl hdef (noRet_retTopB t hnr) hag' hb h
  have hnj' := hnj hnr
  obtain ⟨hw, hout'⟩ := frame_outK (σ' := σ') hout hL2 (hLK o hr) hnj'
  exact ⟨⟨m, _, by rw [hx]; exact hw, hout'⟩, hnj', hr, hbd⟩

theorem finishN_mono (X : Ext) {n m : Nat} (hnm : n ≤ m) {fin : TBlock} {r r' : Out × TSt}
    (h : finishN X n fin r = some r') : finishN X m fin r = some r' := by
  obtain ⟨o, τ⟩ := r
  obtain ⟨of, σf, hfin, hcase⟩ := finishN_some h
  have hfin' := execNB_mono X hfin hnm
  rcases hcase with ⟨rfl, rfl⟩ | ⟨hne, rfl⟩
  · exact finishN_of_normal hfin'
  · exact finishN_of_abrupt hfin' hne

/-- The handler step of a `try`: whatever the body ended with, source and target take the same handler (or none);
afterwards they agree on the live-in `Fi` of the `finally` block (normal completion) or on the part `Fx` of it
that a `finally` entered with a pending exception needs. -/
theorem handler_step (X : Ext) (n : Nat) (hB : SimB X n) (hs : List (Nat × List AStmt)) (Fi Fx D' : List Name)
    (ob : Out) (σb : St) (τb : TSt) (ra : Out × St)
    (hlh : LiveH (ExcCtx.toFin Fx) hs Fi) (hdh : DeclH hs) (hfh : DefH D' hs) (hnh : noRetH hs = true)
    (hnj : NJ ob) (hout : AgreeOutK ob Fi { hs := handlerIns Fi hs, other := Fx } σb τb) (hbd : BoundSub σb D')
    (ha : afterHS X n (eraseH hs) (ob, σb) = some ra) :
    ∃ m2 τ2, afterHN X m2 (funcH hs) (ob, τb) = some (ra.1, τ2) ∧ τ2.log = ra.2.log ∧
      (ra.1 = .normal → Agree Fi ra.2 τ2) ∧ (∀ e, ra.1 = .exc e → Agree Fx ra.2 τ2) ∧ NJ ra.1 ∧
      (∀ t, ra.1 = .exc (.user t) → ob = .exc (.user t) ∨ t ∈ raisesH hs) ∧ BoundSub ra.2 (D' ++ asgH hs) := by
  rcases hnj with rfl | ⟨ex, rfl⟩
  · simp only [afterHS, Option.some.injEq] at ha; subst ha
    exact ⟨1, τb, by simp [afterHN], hout.1, fun _ => hout.2.1 rfl, (fun e he => by cases he), Or.inl rfl,
      (fun t ht => by cases ht), hbd.mono (List.subset_append_left _ _)⟩
  · have hagE := hout.2.2 ex rfl
    -- no handler: the exception stays pending
    have pending : findHandler (eraseH hs) ex = none → findHandlerT (funcH hs) ex = none →
        ({ hs := handlerIns Fi hs, other := Fx } : ExcCtx).get ex = Fx →
        ∃ m2 τ2, afterHN X m2 (funcH hs) (.exc ex, τb) = some (ra.1, τ2) ∧ τ2.log = ra.2.log ∧
          (ra.1 = .normal → Agree Fi ra.2 τ2) ∧ (∀ e, ra.1 = .exc e → Agree Fx ra.2 τ2) ∧ NJ ra.1 ∧
          (∀ t, ra.1 = .exc (.user t) → Out.exc ex = .exc (.user t) ∨ t ∈ raisesH hs) ∧ BoundSub ra.2 (D' ++ asgH hs) := by
      intro h1 h2 h3
      simp only [afterHS, h1, Option.some.injEq] at ha; subst ha
      rw [h3] at hagE
      exact ⟨1, τb, by simp [afterHN, h2], hout.1, (fun hh => by cases hh), fun _ _ => hagE, Or.inr ⟨ex, rfl⟩,
        fun t ht => Or.inl ht, hbd.mono (List.subset_append_left _ _)⟩
    cases ex with
    | nameError y => exact pending (by simp [findHandler]) (by simp [findHandlerT]) (by simp [ExcCtx.get])
    | typeError => exact pending (by simp [findHandler]) (by simp [findHandlerT]) (by simp [ExcCtx.get])
    | user t =>
      have hget := handlerIns_get Fi Fx hs t
      cases hfa : findA hs t with
      | none =>
        rw [hfa] at hget
        exact pending (by rw [findHandler_erase, hfa]; rfl) (by rw [findHandlerT_func, hfa]; rfl) hget
      | some hbk =>
        rw [hfa] at hget; simp only at hget
        rw [hget] at hagE
        obtain ⟨f1, f2, f3, f4, f5, f6⟩ := find_facts hs t hbk hfa
        have hfe : findHandler (eraseH hs) (.user t) = some (eraseB hbk) := by rw [findHandler_erase, hfa]; rfl
        have hft : findHandlerT (funcH hs) (.user t) = some (funcB hbk) := by rw [findHandlerT_func, hfa]; rfl
        simp only [afterHS, hfe] at ha
        obtain ⟨oh, σh⟩ := ra
        obtain ⟨⟨m2, τh, hx2, hout2⟩, hnj2, hr2, hbd2⟩ := hB hbk (ExcCtx.toFin Fx) D' Fi σb τb oh σh (f1 _ _ hlh) (f2 hdh) (f3 _ hfh)
          (noRet_retTopB hbk (f4 hnh)) hagE hbd ha
        refine ⟨m2, τh, by simp only [afterHN, hft]; exact hx2, hout2.1, hout2.2.1, fun e he => ?_, hnj2 (f4 hnh),
          fun t' ht' => Or.inr (f5 (hr2 t' ht')),
          hbd2.mono (by
            intro y hy
            rcases List.mem_append.mp hy with hy | hy
            · exact List.mem_append.mpr (Or.inl hy)
            · exact List.mem_append.mpr (Or.inr (f6 hy)))⟩
        have := hout2.2.2 e he
        rwa [toFin_get] at this

/-- The `finally` step of a `try`.  With a pending exception the block is simulated under the annotation restricted
to what it reads and what `K` needs (`FuncRestrict`). -/
theorem finally_step (X : Ext) (n : Nat) (hB : SimB X n) (f : ABlock) (K : ExcCtx) (O D'' : List Name)
    (o2 : Out) (σ2 : St) (τ2 : TSt) (r : Out × St)
    (hlf : LiveB K f (O ++ K.all)) (hdf : DeclB f) (hff : DefB D'' f) (hnf : noRetB f = true)
    (hagN : o2 = .normal → Agree (blockIn f (O ++ K.all)) σ2 τ2)
    (hagX : ∀ e, o2 = .exc e → Agree (finExcIn K f O) σ2 τ2)
    (hnj2 : NJ o2) (hbd : BoundSub σ2 D'')
    (hfin : finishS X n (eraseB f) (o2, σ2) = some r) :
    ∃ m3 τ3, finishN X m3 (funcB f) (o2, τ2) = some (r.1, τ3) ∧ AgreeOutK r.1 O K r.2 τ3 ∧ NJ r.1 ∧
      (∀ t, r.1 = .exc (.user t) → o2 = .exc (.user t) ∨ t ∈ raisesB f) ∧ BoundSub r.2 (D'' ++ asgB f) := by
  obtain ⟨of, σf, hrun, hcase⟩ := finishS_some hfin
  rcases hnj2 with rfl | ⟨e2, rfl⟩
  · -- normal entry
    obtain ⟨⟨m3, τf, hx3, hout3⟩, hnj3, hr3, hbd3⟩ := hB f K D'' (O ++ K.all) σ2 τ2 of σf hlf hdf hff (noRet_retTopB f hnf)
      (hagN rfl) hbd hrun
    rcases hcase with ⟨rfl, rfl⟩ | ⟨hne, rfl⟩
    · exact ⟨m3, τf, finishN_of_normal hx3,
        ⟨hout3.1, fun _ => (hout3.2.1 rfl).mono (List.subset_append_left _ _), fun e he => by cases he⟩, Or.inl rfl,
        fun t ht => Or.inl ht, hbd3⟩
    · exact ⟨m3, τf, finishN_of_abrupt hx3 hne, ⟨hout3.1, fun hh => absurd hh hne, hout3.2.2⟩, hnj3 hnf,
        fun t ht => Or.inr (hr3 t ht), hbd3⟩
  · -- entry with a pending exception: the restricted annotation
    let S := readsB f ++ K.all
    have hKS : ∀ e, K.get e ⊆ S := fun e x hx => List.mem_append.mpr (Or.inr (get_sub_all K e hx))
    have hlr := live_restrictB S K f _ hlf (List.subset_append_left _ _)
    have hagr : Agree (blockIn (restrictB S f) (fl S (O ++ K.all))) σ2 τ2 := by
      rw [blockIn_restrict]; exact hagX e2 rfl
    have hrun' : execB X n (eraseB (restrictB S f)) σ2 = some (of, σf) := by rw [erase_restrictB]; exact hrun
    obtain ⟨⟨m3, τf, hx3, hout3⟩, hnj3, hr3, hbd3⟩ := hB (restrictB S f) (K.filt S) D'' (fl S (O ++ K.all)) σ2 τ2 of σf hlr
      (decl_restrictB S f hdf) (def_restrictB S D'' f hff) (noRet_retTopB _ (by rw [noRet_restrictB]; exact hnf)) hagr hbd hrun'
    rw [func_restrictB] at hx3
    rw [asg_restrictB] at hbd3
    rw [raises_restrictB] at hr3
    rw [noRet_restrictB] at hnj3
    have hexc : ∀ e', of = .exc e' → Agree (K.get e') σf τf := by
      intro e' he'
      have := hout3.2.2 e' he'
      rw [get_filt] at this
      exact this.mono (fun x hx => mem_fl.mpr ⟨hx, hKS e' hx⟩)
    rcases hcase with ⟨rfl, rfl⟩ | ⟨hne, rfl⟩
    · refine ⟨m3, τf, finishN_of_normal hx3, ⟨hout3.1, (fun hh => by cases hh), fun e he => ?_⟩, Or.inr ⟨e2, rfl⟩,
        fun t ht => Or.inl ht, hbd3⟩
      cases he
      exact (hout3.2.1 rfl).mono (fun x hx => mem_fl.mpr
        ⟨List.mem_append.mpr (Or.inr (get_sub_all K e2 hx)), hKS e2 hx⟩)
    · exact ⟨m3, τf, finishN_of_abrupt hx3 hne, ⟨hout3.1, fun hh => absurd hh hne, hexc⟩, hnj3 hnf,
        fun t ht => Or.inr (hr3 t ht), hbd3⟩

/-! ### Statements -/
theorem simS_step (X : Ext) (n : Nat) (hB : SimB X n) (hW : SimW X (n+1)) (hF : SimFor X n) : SimS X (n+1) := by
  intro s K D σ σ' o σ₁ hlive hdecl hdef hjump hag hb h
  cases s with
  | assign i x e =>
    simp only [LiveS] at hlive
    simp only [AStmt.info] at hag ⊢
    simp only [eraseS, exec] at h
    rcases he : evalE X e σ with ⟨r, τ⟩
    rw [he] at h
    obtain ⟨τ', hT, henv', henv, hlog⟩ := evalT_sim X e hag hlive.1 he
    have hag1 : Agree i.liveIn τ τ' := hag.of_env henv henv' hlog
    cases r with
    | error ex =>
      simp only [Option.some.injEq, Prod.mk.injEq] at h; obtain ⟨rfl, rfl⟩ := h
      have hi : IsImpl ex := evalE_impl X e σ ex (by rw [he])
      refine ⟨⟨2, τ', ?_, hlog, (fun hh => by cases hh), agree_err hag1 hlive.2.2 hi⟩, fun _ => Or.inr ⟨ex, rfl⟩,
        raisedIn_impl hi _, ?_⟩
      · simp [funcS, execNB, execN, hT]
      · exact (hb.of_env henv).mono (List.subset_append_left _ _)
    | ok v =>
      simp only [Option.some.injEq, Prod.mk.injEq] at h; obtain ⟨rfl, rfl⟩ := h
      refine ⟨⟨2, τ'.set x v, ?_, hlog, fun _ => ?_, fun e he => by cases he⟩, fun _ => Or.inl rfl, raisedIn_normal _, ?_⟩
      · simp [funcS, execNB, execN, hT]
      · refine hag1.set x v (fun y hy hyx => hlive.2.1 (List.mem_filter.mpr ⟨hy, by simpa using hyx⟩))
      · exact (hb.of_env henv).set x v (List.subset_append_left _ _) (by simp [asgS])
  | expr i e =>
    simp only [LiveS] at hlive
    simp only [AStmt.info] at hag ⊢
    simp only [eraseS, exec] at h
    rcases he : evalE X e σ with ⟨r, τ⟩
    rw [he] at h
    obtain ⟨τ', hT, henv', henv, hlog⟩ := evalT_sim X e hag hlive.1 he
    have hag1 : Agree i.liveIn τ τ' := hag.of_env henv henv' hlog
    cases r with
    | error ex =>
      simp only [Option.some.injEq, Prod.mk.injEq] at h; obtain ⟨rfl, rfl⟩ := h
      have hi : IsImpl ex := evalE_impl X e σ ex (by rw [he])
      refine ⟨⟨2, τ', ?_, hlog, (fun hh => by cases hh), agree_err hag1 hlive.2.2 hi⟩, fun _ => Or.inr ⟨ex, rfl⟩,
        raisedIn_impl hi _, ?_⟩
      · simp [funcS, execNB, execN, hT]
      · exact (hb.of_env henv).mono (List.subset_append_left _ _)
    | ok v =>
      simp only [Option.some.injEq, Prod.mk.injEq] at h; obtain ⟨rfl, rfl⟩ := h
      refine ⟨⟨2, τ', ?_, hlog, fun _ => hag1.mono hlive.2.1, fun e he => by cases he⟩, fun _ => Or.inl rfl, raisedIn_normal _, ?_⟩
      · simp [funcS, execNB, execN, hT]
      · exact (hb.of_env henv).mono (List.subset_append_left _ _)
  | pass i =>
    simp only [LiveS] at hlive
    simp only [AStmt.info] at hag ⊢
    simp only [eraseS, exec, Option.some.injEq, Prod.mk.injEq] at h; obtain ⟨rfl, rfl⟩ := h
    refine ⟨⟨2, σ', by simp [funcS, execNB, execN], hag.2, fun _ => hag.mono hlive, fun e he => by cases he⟩,
      fun _ => Or.inl rfl, raisedIn_normal _, ?_⟩
    exact hb.mono (List.subset_append_left _ _)
  | raise i t =>
    simp only [LiveS] at hlive
    simp only [AStmt.info] at hag ⊢
    simp only [eraseS, exec, Option.some.injEq, Prod.mk.injEq] at h; obtain ⟨rfl, rfl⟩ := h
    refine ⟨⟨2, σ', by simp [funcS, execNB, execN], hag.2, (fun hh => by cases hh), fun e he => ?_⟩,
      fun _ => Or.inr ⟨_, rfl⟩, fun t' ht' => ?_, ?_⟩
    · cases he; exact hag.mono hlive
    · cases ht'; simp [raisesS]
    · exact hb.mono (List.subset_append_left _ _)
  | ret i e =>
    simp only [LiveS] at hlive
    simp only [AStmt.info] at hag ⊢
    cases e with
    | none =>
      simp only [eraseS, exec, Option.some.injEq, Prod.mk.injEq] at h; obtain ⟨rfl, rfl⟩ := h
      refine ⟨⟨2, σ', by simp [funcS, execNB, execN], hag.2, (fun hh => by cases hh), fun e he => by cases he⟩,
        (fun hh => by simp [noRetS] at hh), (fun t ht => by cases ht), ?_⟩
      exact hb.mono (List.subset_append_left _ _)
    | some e =>
      simp only [eraseS, exec] at h
      rcases he : evalE X e σ with ⟨r, τ⟩
      rw [he] at h
      obtain ⟨τ', hT, henv', henv, hlog⟩ := evalT_sim X e hag hlive.1 he
      have hag1 : Agree i.liveIn τ τ' := hag.of_env henv henv' hlog
      cases r with
      | error ex =>
        simp only [Option.some.injEq, Prod.mk.injEq] at h; obtain ⟨rfl, rfl⟩ := h
        have hi : IsImpl ex := evalE_impl X e σ ex (by rw [he])
        refine ⟨⟨2, τ', ?_, hlog, (fun hh => by cases hh), agree_err hag1 hlive.2 hi⟩, (fun hh => by simp [noRetS] at hh),
          raisedIn_impl hi _, ?_⟩
        · simp [funcS, execNB, execN, hT]
        · exact (hb.of_env henv).mono (List.subset_append_left _ _)
      | ok v =>
        simp only [Option.some.injEq, Prod.mk.injEq] at h; obtain ⟨rfl, rfl⟩ := h
        refine ⟨⟨2, τ', ?_, hlog, (fun hh => by cases hh), fun e he => by cases he⟩, (fun hh => by simp [noRetS] at hh),
          (fun t ht => by cases ht), ?_⟩
        · simp [funcS, execNB, execN, hT]
        · exact (hb.of_env henv).mono (List.subset_append_left _ _)
  | ifS i c t e =>
    simp only [LiveS] at hlive
    simp only [DeclS] at hdecl
    simp only [DefS] at hdef
    simp only [retTopS, Bool.and_eq_true] at hjump
    simp only [AStmt.info] at hag ⊢
    obtain ⟨hvc, hint, hine, hlt, hle, hKo, hro⟩ := hlive
    obtain ⟨hdd, hund, hdt, hde⟩ := hdecl
    obtain ⟨hDsub, hudisj, hdft, hdfe⟩ := hdef
    -- the Undefined pre-assignments only touch really-unbound variables
    have hunb : ∀ u ∈ i.undefined, σ.env u = none := by
      intro u hu
      cases hq : σ.env u with
      | none => rfl
      | some w => exact absurd (hDsub (hb u (by rw [hq]; simp))) (hudisj u hu)
    have hag0 : Agree i.liveIn σ (undefAll i.undefined σ') := hag.undefAll i.undefined hunb
    simp only [eraseS, exec] at h
    rcases he : evalE X c σ with ⟨r, τ⟩
    rw [he] at h
    obtain ⟨τ', hT, henv', henv, hlog⟩ := evalT_sim X c hag0 hvc he
    have hag1 : Agree i.liveIn τ τ' := hag0.of_env henv henv' hlog
    have hb1 : BoundSub τ D := hb.of_env henv
    cases r with
    | error ex =>
      simp only [Option.some.injEq, Prod.mk.injEq] at h; obtain ⟨rfl, rfl⟩ := h
      have hi : IsImpl ex := evalE_impl X c σ ex (by rw [he])
      have hx : execN X 1 (.ifF c (funcB t) (funcB e) i.declared i.nouts) (undefAll i.undefined σ') = some (.exc ex, τ') := by
        simp [execN, hT]
      obtain ⟨m', hm'⟩ := execNB_undefs X i.undefined σ' _ _ _ (execNB_single X hx)
      refine ⟨⟨m', τ', by simpa [funcS] using hm', hlog, (fun hh => by cases hh), agree_err hag1 hKo hi⟩,
        fun _ => Or.inr ⟨ex, rfl⟩, raisedIn_impl hi _, ?_⟩
      exact hb1.mono (List.subset_append_left _ _)
    | ok v =>
      simp only at h
      by_cases hv : truthy v = true
      · rw [if_pos hv] at h
        have hloc := locals_dead (i := i) (body := t) (List.subset_append_left _ _) hdd hdt
        obtain ⟨⟨m, σ₂', hx, hout⟩, hnj, hr, hbd⟩ := body_call X n hB t K i.liveOut i.liveIn D
          (localsOf (funcB t) i.declared) τ τ' o σ₁ hlt hdt hdft hjump.1 hag1 hint
          (fun x hx hin => (hloc x hx).1 (hint hin)) (fun x hx => (hloc x hx).2)
          (fun o' hr' => locals_exc hloc hKo hro (hr'.mono (List.subset_append_left _ _))) hb1 h
        have hx' : execN X (m+1) (.ifF c (funcB t) (funcB e) i.declared i.nouts) (undefAll i.undefined σ') = some (o, σ₂') := by
          simp only [execN, hT, hv, if_true]; exact hx
        obtain ⟨m', hm'⟩ := execNB_undefs X i.undefined σ' _ _ _ (execNB_single X hx')
        refine ⟨⟨m', σ₂', by simpa [funcS] using hm', hout⟩, fun _ => hnj,
          by simp only [raisesS]; exact hr.mono (List.subset_append_left _ _), ?_⟩
        exact hbd.mono (by
          intro y hy; simp only [asgS]
          rcases List.mem_append.mp hy with hy | hy
          · exact List.mem_append.mpr (Or.inl hy)
          · exact List.mem_append.mpr (Or.inr (List.mem_append.mpr (Or.inl hy))))
      · rw [if_neg hv] at h
        have hloc := locals_dead (i := i) (body := e) (List.subset_append_right _ _) hdd hde
        obtain ⟨⟨m, σ₂', hx, hout⟩, hnj, hr, hbd⟩ := body_call X n hB e K i.liveOut i.liveIn D
          (localsOf (funcB e) i.declared) τ τ' o σ₁ hle hde hdfe hjump.2 hag1 hine
          (fun x hx hin => (hloc x hx).1 (hine hin)) (fun x hx => (hloc x hx).2)
          (fun o' hr' => locals_exc hloc hKo hro (hr'.mono (List.subset_append_right _ _))) hb1 h
        have hx' : execN X (m+1) (.ifF c (funcB t) (funcB e) i.declared i.nouts) (undefAll i.undefined σ') = some (o, σ₂') := by
          simp only [execN, hT, hv]; exact hx
        obtain ⟨m', hm'⟩ := execNB_undefs X i.undefined σ' _ _ _ (execNB_single X hx')
        refine ⟨⟨m', σ₂', by simpa [funcS] using hm', hout⟩, fun _ => hnj,
          by simp only [raisesS]; exact hr.mono (List.subset_append_right _ _), ?_⟩
        exact hbd.mono (by
          intro y hy; simp only [asgS]
          rcases List.mem_append.mp hy with hy | hy
          · exact List.mem_append.mpr (Or.inl hy)
          · exact List.mem_append.mpr (Or.inr (List.mem_append.mpr (Or.inr hy))))
  | whileS i c b =>
    have hlive0 := hlive
    have hdecl0 := hdecl
    simp only [DeclS] at hdecl
    simp only [DefS] at hdef
    simp only [retTopS] at hjump
    simp only [AStmt.info] at hag ⊢
    obtain ⟨hDsub, hudisj, hdfb⟩ := hdef
    have hunb : ∀ u ∈ i.undefined, σ.env u = none := by
      intro u hu
      cases hq : σ.env u with
      | none => rfl
      | some w => exact absurd (hDsub (hb u (by rw [hq]; simp))) (hudisj u hu)
    have hag0 : Agree i.liveIn σ (undefAll i.undefined σ') := hag.undefAll i.undefined hunb
    simp only [eraseS] at h
    obtain ⟨⟨m, σ₁', hx, hout⟩, hnj, hr, hbd⟩ := hW i c b K (D ++ asgB b) σ (undefAll i.undefined σ') o σ₁ hlive0 hdecl0 hdfb
      (List.subset_append_right _ _) hjump hag0 (hb.mono (List.subset_append_left _ _)) h
    obtain ⟨m', hm'⟩ := execNB_undefs X i.undefined σ' _ _ _ (execNB_single X hx)
    exact ⟨⟨m', σ₁', by simpa [funcS] using hm', hout⟩, fun _ => hnj, by simpa [raisesS] using hr, by simpa [asgS] using hbd⟩
  | forS i x it extra b =>
    have hlive0 := hlive
    have hdecl0 := hdecl
    simp only [LiveS] at hlive
    simp only [DeclS] at hdecl
    simp only [DefS] at hdef
    simp only [retTopS] at hjump
    simp only [AStmt.info] at hag ⊢
    obtain ⟨hvit, hvex, hOI, hbI, hlb, hKo, hro⟩ := hlive
    obtain ⟨hDsub, hudisj, hdfb⟩ := hdef
    have hunb : ∀ u ∈ i.undefined, σ.env u = none := by
      intro u hu
      cases hq : σ.env u with
      | none => rfl
      | some w => exact absurd (hDsub (hb u (by rw [hq]; simp))) (hudisj u hu)
    have hag0 : Agree i.liveIn σ (undefAll i.undefined σ') := hag.undefAll i.undefined hunb
    have hbD : BoundSub σ (D ++ (x :: asgB b)) := hb.mono (List.subset_append_left _ _)
    simp only [eraseS, exec] at h
    rcases he : evalE X it σ with ⟨r, τ⟩
    rw [he] at h
    obtain ⟨τ', hT, henv', henv, hlog⟩ := evalT_sim X it hag0 hvit he
    have hag1 : Agree i.liveIn τ τ' := hag0.of_env henv henv' hlog
    have hb1 : BoundSub τ (D ++ (x :: asgB b)) := hbD.of_env henv
    -- wrap a run of the bare `forF` into the functionalised statement
    have wrap : ∀ (m : Nat) (σ₁' : TSt),
        execN X m (.forF x it extra (funcB b) i.declared) (undefAll i.undefined σ') = some (o, σ₁') →
        AgreeOutK o i.liveOut K σ₁ σ₁' →
        ∃ m σ₁', execNB X m (funcS (.forS i x it extra b)) σ' = some (o, σ₁') ∧ AgreeOutK o i.liveOut K σ₁ σ₁' := by
      intro m σ₁' hx hout
      obtain ⟨m', hm'⟩ := execNB_undefs X i.undefined σ' _ _ _ (execNB_single X hx)
      exact ⟨m', σ₁', by simpa [funcS] using hm', hout⟩
    cases r with
    | error ex =>
      simp only [Option.some.injEq, Prod.mk.injEq] at h; obtain ⟨rfl, rfl⟩ := h
      have hi : IsImpl ex := evalE_impl X it σ ex (by rw [he])
      refine ⟨wrap 1 τ' (by simp [execN, hT]) ⟨hlog, (fun hh => by cases hh), agree_err hag1 hKo hi⟩, fun _ => Or.inr ⟨ex, rfl⟩,
        raisedIn_impl hi _, ?_⟩
      simpa [asgS] using hb1
    | ok v =>
      simp only at h
      cases hi : iterItems v with
      | error ex =>
        rw [hi] at h
        simp only [Option.some.injEq, Prod.mk.injEq] at h; obtain ⟨rfl, rfl⟩ := h
        have hii : IsImpl ex := iterItems_impl hi
        refine ⟨wrap 1 τ' (by simp [execN, hT, hi]) ⟨hlog, (fun hh => by cases hh), agree_err hag1 hKo hii⟩,
          fun _ => Or.inr ⟨ex, rfl⟩, raisedIn_impl hii _, ?_⟩
        simpa [asgS] using hb1
      | ok items =>
        rw [hi] at h
        simp only at h
        cases extra with
        | none =>
          simp only at h
          obtain ⟨⟨m, σ₁', hx, hout⟩, hnj, hr, hbd⟩ := hF i x it none b K (D ++ (x :: asgB b)) items τ τ' o σ₁ hlive0 hdecl0 hdfb
            (List.subset_append_right _ _) hjump hag1 hb1 h
          refine ⟨wrap (m+1) σ₁' (by simp only [execN, hT, hi]; exact hx) hout, fun _ => hnj, by simpa [raisesS] using hr, ?_⟩
          simpa [asgS] using hbd
        | some t =>
          simp only at h
          rcases het : evalE X t τ with ⟨rt, τ₂⟩
          rw [het] at h
          obtain ⟨τ₂', hT2, henv2', henv2, hlog2⟩ := evalT_sim X t hag1 hvex het
          have hag2 : Agree i.liveIn τ₂ τ₂' := hag1.of_env henv2 henv2' hlog2
          have hb2 : BoundSub τ₂ (D ++ (x :: asgB b)) := hb1.of_env henv2
          cases rt with
          | error ex =>
            simp only [Option.some.injEq, Prod.mk.injEq] at h; obtain ⟨rfl, rfl⟩ := h
            have hie : IsImpl ex := evalE_impl X t τ ex (by rw [het])
            refine ⟨wrap 1 τ₂' (by simp [execN, hT, hi, hT2]) ⟨hlog2, (fun hh => by cases hh), agree_err hag2 hKo hie⟩,
              fun _ => Or.inr ⟨ex, rfl⟩, raisedIn_impl hie _, ?_⟩
            simpa [asgS] using hb2
          | ok tv =>
            simp only at h
            by_cases htv : truthy tv = true
            · rw [if_pos htv] at h
              obtain ⟨⟨m, σ₁', hx, hout⟩, hnj, hr, hbd⟩ := hF i x it (some t) b K (D ++ (x :: asgB b)) items τ₂ τ₂' o σ₁ hlive0 hdecl0 hdfb
                (List.subset_append_right _ _) hjump hag2 hb2 h
              refine ⟨wrap (m+1) σ₁' (by simp only [execN, hT, hi, hT2, htv, if_true]; exact hx) hout, fun _ => hnj,
                by simpa [raisesS] using hr, ?_⟩
              simpa [asgS] using hbd
            · rw [if_neg htv] at h
              simp only [Option.some.injEq, Prod.mk.injEq] at h; obtain ⟨rfl, rfl⟩ := h
              refine ⟨wrap 1 τ₂' (by simp [execN, hT, hi, hT2, htv]) ⟨hlog2, fun _ => hag2.mono hOI, fun e he => by cases he⟩,
                fun _ => Or.inl rfl, raisedIn_normal _, ?_⟩
              simpa [asgS] using hb2
  | withS i tag b =>
    simp only [LiveS] at hlive
    simp only [DeclS] at hdecl
    simp only [DefS] at hdef
    simp only [retTopS] at hjump
    simp only [AStmt.info] at hag ⊢
    simp only [eraseS, exec] at h
    cases hbody : execB X n (eraseB b) (σ.push (.enter tag)) with
    | none => simp [hbody] at h
    | some rb =>
      obtain ⟨ob, σb⟩ := rb
      rw [hbody] at h
      simp only [Option.some.injEq, Prod.mk.injEq] at h; obtain ⟨rfl, rfl⟩ := h
      obtain ⟨⟨m, τb, hx, hout⟩, hnj, hr, hbd⟩ := hB b K D i.liveOut (σ.push (.enter tag)) (σ'.push (.enter tag)) ob σb hlive.2 hdecl hdef
        (noRet_retTopB b hjump) ((hag.mono hlive.1).push _) (hb.of_env rfl) hbody
      have hx' : execN X (m+1) (.withT tag (funcB b)) σ' = some (ob, τb.push (.exit tag)) := by
        simp only [execN, hx]
      refine ⟨⟨m + 1 + 2, τb.push (.exit tag), by simpa [funcS] using execNB_single X hx', ?_, fun ho => (hout.2.1 ho).push _,
        fun e he => (hout.2.2 e he).push _⟩, fun hh => hnj (by simpa [noRetS] using hh), by simpa [raisesS] using hr, ?_⟩
      · simp [St.push, TSt.push, hout.1]
      · have hbp : BoundSub (σb.push (.exit tag)) (D ++ asgB b) := hbd.of_env rfl
        simpa [asgS] using hbp
  | tryS i b hs f =>
    simp only [LiveS] at hlive
    simp only [DeclS] at hdecl
    simp only [DefS] at hdef
    simp only [retTopS, Bool.and_eq_true] at hjump
    simp only [AStmt.info] at hag ⊢
    obtain ⟨hlf, hlh, hlb, hbI⟩ := hlive
    obtain ⟨hdb, hdh, hdf⟩ := hdecl
    obtain ⟨hfb, hfh, hff⟩ := hdef
    simp only [eraseS] at h
    rw [exec_tryS] at h
    cases hbody : execB X n (eraseB b) σ with
    | none => simp [hbody] at h
    | some rb =>
      obtain ⟨ob, σb⟩ := rb
      rw [hbody] at h
      simp only [Option.bind_some] at h
      obtain ⟨⟨m1, τb, hx1, hout1⟩, hnj1, hr1, hbd1⟩ := hB b _ D _ σ σ' ob σb hlb hdb hfb (noRet_retTopB b hjump.1.1)
        (hag.mono hbI) hb hbody
      cases ha : afterHS X n (eraseH hs) (ob, σb) with
      | none => simp [ha] at h
      | some ra =>
        rw [ha] at h
        simp only [Option.bind_some] at h
        obtain ⟨m2, τ2, hx2, hlog2, hagN, hagX, hnj2, hr2, hbd2⟩ := handler_step X n hB hs _ _ (D ++ asgB b) ob σb τb ra hlh hdh hfh hjump.1.2
          (hnj1 hjump.1.1) hout1 hbd1 ha
        obtain ⟨o2, σ2⟩ := ra
        obtain ⟨m3, τ3, hx3, hout3, hnj3, hr3, hbd3⟩ := finally_step X n hB f K i.liveOut (D ++ asgB b ++ asgH hs) o2 σ2 τ2 (o, σ₁)
          hlf hdf hff hjump.2 hagN hagX hnj2 hbd2 h
        have hM1 : m1 ≤ max m1 (max m2 m3) := Nat.le_max_left _ _
        have hM2 : m2 ≤ max m1 (max m2 m3) := Nat.le_trans (Nat.le_max_left _ _) (Nat.le_max_right _ _)
        have hM3 : m3 ≤ max m1 (max m2 m3) := Nat.le_trans (Nat.le_max_right _ _) (Nat.le_max_right _ _)
        have hx' : execN X (max m1 (max m2 m3) + 1) (.tryT (funcB b) (funcH hs) (funcB f)) σ' = some (o, τ3) := by
          rw [execN_try, execNB_mono X hx1 hM1]
          simp only [Option.bind_some]
          rw [afterHN_mono X hM2 hx2]
          simp only [Option.bind_some]
          exact finishN_mono X hM3 hx3
        refine ⟨⟨_, τ3, by simpa [funcS] using execNB_single X hx', hout3⟩, fun _ => hnj3, fun t ht => ?_, ?_⟩
        · simp only [raisesS]
          rcases hr3 t ht with h3 | h3
          · rcases hr2 t h3 with h2 | h2
            · exact List.mem_append.mpr (Or.inl (hr1 t h2))
            · exact List.mem_append.mpr (Or.inr (List.mem_append.mpr (Or.inl h2)))
          · exact List.mem_append.mpr (Or.inr (List.mem_append.mpr (Or.inr h3)))
        · simpa [asgS, List.append_assoc] using hbd3

/-! ### Blocks -/
theorem simB_step (X : Ext) (n : Nat) (hS : SimS X n) (hB : SimB X n) : SimB X (n+1) := by
  intro b K D O σ σ' o σ₁ hlive hdecl hdef hjump hag hb h
  cases b with
  | nil =>
    simp only [eraseB, execB, Option.some.injEq, Prod.mk.injEq] at h; obtain ⟨rfl, rfl⟩ := h
    simp only [blockIn] at hag
    refine ⟨⟨1, σ', by simp [funcB, execNB], hag.2, fun _ => hag, fun e he => by cases he⟩, fun _ => Or.inl rfl,
      raisedIn_normal _, ?_⟩
    exact hb.mono (List.subset_append_left _ _)
  | cons s rest =>
    simp only [LiveB] at hlive
    simp only [DeclB] at hdecl
    simp only [DefB] at hdef
    simp only [retTopB, Bool.and_eq_true] at hjump
    simp only [blockIn] at hag
    simp only [eraseB, execB] at h
    cases hs : exec X n (eraseS s) σ with
    | none => simp [hs] at h
    | some rs =>
      rw [hs] at h
      obtain ⟨o₁, σ₂⟩ := rs
      obtain ⟨⟨m₁, σ₂', hx₁, hout₁⟩, hnj₁, hr₁, hbd₁⟩ := hS s K D σ σ' o₁ σ₂ hlive.1 hdecl.1 hdef.1 hjump.1 hag hb hs
      by_cases ho : o₁ = .normal
      · subst ho
        simp only at h
        have hag₂ : Agree (blockIn rest O) σ₂ σ₂' := (hout₁.2.1 rfl).mono hlive.2.1
        obtain ⟨⟨m₂, σ₁', hx₂, hout₂⟩, hnj₂, hr₂, hbd₂⟩ := hB rest K (D ++ asgS s) O σ₂ σ₂' o σ₁ hlive.2.2 hdecl.2 hdef.2 hjump.2 hag₂ hbd₁ h
        refine ⟨⟨m₁ + m₂, σ₁', ?_, hout₂⟩, ?_, ?_, ?_⟩
        · simp only [funcB]
          exact execNB_append_normal X _ _ _ _ _ _ _ hx₁ hx₂
        · intro hnr
          simp only [noRetB, Bool.and_eq_true] at hnr
          exact hnj₂ hnr.2
        · simp only [raisesB]; exact hr₂.mono (List.subset_append_right _ _)
        · simpa [asgB, List.append_assoc] using hbd₂
      · have hres : o = o₁ ∧ σ₁ = σ₂ := by
          cases o₁ <;> simp_all
        obtain ⟨rfl, rfl⟩ := hres
        refine ⟨⟨m₁, σ₂', ?_, hout₁.1, fun hh => absurd hh ho, hout₁.2.2⟩, ?_, ?_, ?_⟩
        · simp only [funcB]
          exact execNB_append_stop X _ _ _ _ _ _ hx₁ ho
        · intro hnr
          simp only [noRetB, Bool.and_eq_true] at hnr
          exact hnj₁ hnr.1
        · simp only [raisesB]; exact hr₁.mono (List.subset_append_left _ _)
        · exact hbd₁.mono (by
            intro y hy; simp only [asgB]
            rcases List.mem_append.mp hy with hy | hy
            · exact List.mem_append.mpr (Or.inl hy)
            · exact List.mem_append.mpr (Or.inr (List.mem_append.mpr (Or.inl hy))))

/-! ### The iterations of a `while` -/
theorem simW_step (X : Ext) (n : Nat) (hB : SimB X n) (hW : SimW X n) : SimW X (n+1) := by
  intro i c b K D σ σ' o σ₁ hlive hdecl hdef hsub hnr hag hb h
  have hlive0 := hlive
  have hdecl0 := hdecl
  simp only [LiveS] at hlive
  simp only [DeclS] at hdecl
  obtain ⟨hvc, hbI, hOI, hlb, hKo, hro⟩ := hlive
  obtain ⟨hdd, hund, hdb⟩ := hdecl
  simp only [exec] at h
  rcases he : evalE X c σ with ⟨r, τ⟩
  rw [he] at h
  obtain ⟨τ', hT, henv', henv, hlog⟩ := evalT_sim X c hag hvc he
  have hag1 : Agree i.liveIn τ τ' := hag.of_env henv henv' hlog
  have hb1 : BoundSub τ D := hb.of_env henv
  cases r with
  | error ex =>
    simp only [Option.some.injEq, Prod.mk.injEq] at h; obtain ⟨rfl, rfl⟩ := h
    have hi : IsImpl ex := evalE_impl X c σ ex (by rw [he])
    exact ⟨⟨1, τ', by simp [execN, hT], hlog, (fun hh => by cases hh), agree_err hag1 hKo hi⟩, Or.inr ⟨ex, rfl⟩,
      raisedIn_impl hi _, hb1⟩
  | ok v =>
    simp only at h
    by_cases hv : (!truthy v) = true
    · rw [if_pos hv] at h
      simp only [Option.some.injEq, Prod.mk.injEq] at h; obtain ⟨rfl, rfl⟩ := h
      exact ⟨⟨1, τ', by simp [execN, hT, hv], hlog, fun _ => hag1.mono hOI, fun e he => by cases he⟩, Or.inl rfl,
        raisedIn_normal _, hb1⟩
    · rw [if_neg hv] at h
      cases hbody : execB X n (eraseB b) τ with
      | none => simp [hbody] at h
      | some rb =>
        rw [hbody] at h
        obtain ⟨o₁, σ₂⟩ := rb
        have hloc := locals_dead (i := i) (body := b) (fun _ hx => hx) hdd hdb
        obtain ⟨⟨m₁, σ₂', hx₁, hout₁⟩, hnj₁, hr₁, hbd₁⟩ := body_call X n hB b K i.liveIn i.liveIn D
          (localsOf (funcB b) i.declared) τ τ' o₁ σ₂ hlb hdb hdef hnr hag1 hbI
          (fun x hx hin => (hloc x hx).1 (hbI hin)) (fun x hx => (hloc x hx).1)
          (fun o' hr' => locals_exc hloc hKo hro hr') hb1 hbody
        have hb2 : BoundSub σ₂ D := hbd₁.mono (by
          intro y hy
          rcases List.mem_append.mp hy with hy | hy
          · exact hy
          · exact hsub hy)
        rcases hnj₁ with rfl | ⟨ex, rfl⟩
        · simp only at h
          obtain ⟨⟨m₂, σ₁', hx₂, hout₂⟩, hnj₂, hr₂, hbd₂⟩ := hW i c b K D σ₂ σ₂' o σ₁ hlive0 hdecl0 hdef hsub hnr (hout₁.2.1 rfl) hb2 h
          refine ⟨⟨max m₁ m₂ + 1, σ₁', ?_, hout₂⟩, hnj₂, hr₂, hbd₂⟩
          simp only [execN, hT, hv]
          have hx₁' := withFrame_mono (B := execNB X (max m₁ m₂) (funcB b) (mask (localsOf (funcB b) i.declared) τ'))
            (fun r hr => execNB_mono X hr (Nat.le_max_left m₁ m₂)) hx₁
          simp only [Bool.false_eq_true, if_false]
          rw [hx₁']
          exact execN_mono X hx₂ (Nat.le_max_right m₁ m₂)
        · simp only [Option.some.injEq, Prod.mk.injEq] at h; obtain ⟨rfl, rfl⟩ := h
          refine ⟨⟨m₁ + 1, σ₂', ?_, hout₁.1, (fun hh => by cases hh), hout₁.2.2⟩, Or.inr ⟨ex, rfl⟩, hr₁, hb2⟩
          simp only [execN, hT, hv]
          simp only [Bool.false_eq_true, if_false]
          rw [hx₁]

/-! ### The iterations of a `for` -/
theorem simFor_step (X : Ext) (n : Nat) (hB : SimB X n) (hF : SimFor X n) : SimFor X (n+1) := by
  intro i x it extra b K D items σ σ' o σ₁ hlive hdecl hdef hsub hnr hag hb h
  have hlive0 := hlive
  have hdecl0 := hdecl
  simp only [LiveS] at hlive
  simp only [DeclS] at hdecl
  obtain ⟨hvit, hvex, hOI, hbI, hlb, hKo, hro⟩ := hlive
  obtain ⟨hdd, hund, hdb⟩ := hdecl
  cases items with
  | nil =>
    simp only [execFor, Option.some.injEq, Prod.mk.injEq] at h; obtain ⟨rfl, rfl⟩ := h
    exact ⟨⟨1, σ', by simp [execNFor], hag.2, fun _ => hag.mono hOI, fun e he => by cases he⟩, Or.inl rfl, raisedIn_normal _, hb⟩
  | cons v items =>
    simp only [execFor] at h
    cases hbody : execB X n (eraseB b) (σ.set x v) with
    | none => simp [hbody] at h
    | some rb =>
      rw [hbody] at h
      obtain ⟨o₁, σ₂⟩ := rb
      have hloc := localsFor_dead (i := i) (x := x) (body := b) hdd hdb
      -- the generated `loop_body(itr)`: mask the frame-local names, `x = itr`, then the body
      let L := localsFor x (funcB b) i.declared
      have hagm : Agree (blockIn b i.liveIn) (σ.set x v) ((mask L σ').set x v) := by
        have hm : Agree i.liveIn σ (mask L σ') := hag.mask L (fun y hy => (hloc y hy).1)
        exact hm.set x v (fun y hy hyx => hbI (List.mem_filter.mpr ⟨hy, by simpa using hyx⟩))
      have hbs : BoundSub (σ.set x v) D := hb.set x v (fun _ h => h) (hsub (List.mem_cons_self ..))
      obtain ⟨⟨m₁, τ, hx₁, hout₁⟩, hnj₁, hr₁, hbd₁⟩ := hB b K D i.liveIn (σ.set x v) ((mask L σ').set x v) o₁ σ₂ hlb hdb hdef
        (noRet_retTopB b hnr) hagm hbs hbody
      have hnj₁' := hnj₁ hnr
      obtain ⟨hw, hout₁'⟩ := frame_outK (σ' := σ') (L := L) hout₁ (fun y hy => (hloc y hy).1)
        (locals_exc hloc hKo hro hr₁) hnj₁'
      have hb2 : BoundSub σ₂ D := hbd₁.mono (by
        intro y hy
        rcases List.mem_append.mp hy with hy | hy
        · exact hy
        · exact hsub (List.mem_cons_of_mem _ hy))
      have hcall : ∀ k, m₁ ≤ k → withFrame L σ' (execNB X (k+1) (.assign x (.const v) :: funcB b) (mask L σ')) =
          some (o₁, restore L σ' τ) := by
        intro k hk
        have hk0 : 0 < k := Nat.lt_of_lt_of_le (execNB_pos X hx₁) hk
        obtain ⟨k', rfl⟩ : ∃ k', k = k' + 1 := ⟨k - 1, by omega⟩
        have : execNB X (k'+1+1) (.assign x (.const v) :: funcB b) (mask L σ') = some (o₁, τ) := by
          simp only [execNB, execN, evalT, evalE]
          exact execNB_mono X hx₁ hk
        rw [this]; exact hw
      rcases hnj₁' with rfl | ⟨ex, rfl⟩
      · have hag2 : Agree i.liveIn σ₂ (restore L σ' τ) := hout₁'.2.1 rfl
        simp only [BEq.rfl, Bool.true_or, if_true] at h
        cases extra with
        | none =>
          simp only at h
          obtain ⟨⟨m₂, σ₁', hx₂, hout₂⟩, hnj₂, hr₂, hbd₂⟩ := hF i x it none b K D items σ₂ (restore L σ' τ) o σ₁ hlive0 hdecl0 hdef hsub hnr hag2 hb2 h
          refine ⟨⟨max m₁ m₂ + 1 + 1, σ₁', ?_, hout₂⟩, hnj₂, hr₂, hbd₂⟩
          simp only [execNFor]
          rw [hcall (max m₁ m₂) (Nat.le_max_left _ _)]
          exact execNFor_mono X hx₂ (by have := Nat.le_max_right m₁ m₂; omega)
        | some t =>
          simp only at h
          rcases het : evalE X t σ₂ with ⟨rt, τ₂⟩
          rw [het] at h
          obtain ⟨τ₂', hT2, henv2', henv2, hlog2⟩ := evalT_sim X t hag2 hvex het
          have hag3 : Agree i.liveIn τ₂ τ₂' := hag2.of_env henv2 henv2' hlog2
          have hb3 : BoundSub τ₂ D := hb2.of_env henv2
          cases rt with
          | error ex =>
            simp only [Option.some.injEq, Prod.mk.injEq] at h; obtain ⟨rfl, rfl⟩ := h
            have hie : IsImpl ex := evalE_impl X t σ₂ ex (by rw [het])
            refine ⟨⟨m₁ + 1 + 1, τ₂', ?_, hlog2, (fun hh => by cases hh), agree_err hag3 hKo hie⟩, Or.inr ⟨ex, rfl⟩,
              raisedIn_impl hie _, hb3⟩
            simp only [execNFor]
            rw [hcall m₁ (Nat.le_refl _)]
            simp [hT2]
          | ok tv =>
            simp only at h
            by_cases htv : truthy tv = true
            · rw [if_pos htv] at h
              obtain ⟨⟨m₂, σ₁', hx₂, hout₂⟩, hnj₂, hr₂, hbd₂⟩ := hF i x it (some t) b K D items τ₂ τ₂' o σ₁ hlive0 hdecl0 hdef hsub hnr hag3 hb3 h
              refine ⟨⟨max m₁ m₂ + 1 + 1, σ₁', ?_, hout₂⟩, hnj₂, hr₂, hbd₂⟩
              simp only [execNFor]
              rw [hcall (max m₁ m₂) (Nat.le_max_left _ _)]
              simp only [hT2, htv, if_true]
              exact execNFor_mono X hx₂ (by have := Nat.le_max_right m₁ m₂; omega)
            · rw [if_neg htv] at h
              simp only [Option.some.injEq, Prod.mk.injEq] at h; obtain ⟨rfl, rfl⟩ := h
              refine ⟨⟨m₁ + 1 + 1, τ₂', ?_, hlog2, fun _ => hag3.mono hOI, fun e he => by cases he⟩, Or.inl rfl,
                raisedIn_normal _, hb3⟩
              simp only [execNFor]
              rw [hcall m₁ (Nat.le_refl _)]
              simp [hT2, htv]
      · simp only [show (Out.exc ex == Out.normal) = false from rfl, show (Out.exc ex == Out.cont) = false from rfl,
          Bool.or_self, Bool.false_eq_true, if_false, Option.some.injEq, Prod.mk.injEq] at h
        obtain ⟨rfl, rfl⟩ := h
        refine ⟨⟨m₁ + 1 + 1, restore L σ' τ, ?_, hout₁'.1, (fun hh => by cases hh), hout₁'.2.2⟩, Or.inr ⟨ex, rfl⟩, hr₁, hb2⟩
        simp only [execNFor]
        rw [hcall m₁ (Nat.le_refl _)]

/-- All four simulation statements hold at every fuel. -/
theorem sim_all (X : Ext) : ∀ n, SimS X n ∧ SimB X n ∧ SimW X n ∧ SimFor X n := by
  intro n
  induction n with
  | zero =>
    refine ⟨?_, ?_, ?_, ?_⟩
    · intro s K D σ σ' o σ₁ _ _ _ _ _ _ h; simp [exec] at h
    · intro b K D O σ σ' o σ₁ _ _ _ _ _ _ h; simp [execB] at h
    · intro i c b K D σ σ' o σ₁ _ _ _ _ _ _ _ h; simp [exec] at h
    · intro i x it extra b K D items σ σ' o σ₁ _ _ _ _ _ _ _ h; simp [execFor] at h
  | succ n ih =>
    obtain ⟨hS, hB, hW, hF⟩ := ih
    have hW1 := simW_step X n hB hW
    have hF1 := simFor_step X n hB hF
    exact ⟨simS_step X n hB hW1 hF, simB_step X n hS hB, hW1, hF1⟩

/-- The target state that holds exactly the bindings of a source state. -/
def TSt.ofSt (σ : St) : TSt :=
  ⟨fun x => match σ.env x with | some v => .val v | none => .unbound, σ.log⟩

theorem agree_ofSt (L : List Name) (σ : St) : Agree L σ (TSt.ofSt σ) := by
  refine ⟨fun x _ => ?_, rfl⟩
  simp only [TSt.ofSt]
  cases σ.env x <;> rfl

/-- Source-side facts that come out of the simulation: a block without `return` ends normally or with an
exception, and only assigned variables become bound. -/
theorem src_facts_B (X : Ext) (n : Nat) (b : ABlock) (K : ExcCtx) (D O : List Name) (σ : St) (o : Out) (σ₁ : St)
    (hl : LiveB K b O) (hd : DeclB b) (hf : DefB D b) (hj : retTopB b = true) (hb : BoundSub σ D)
    (h : execB X n (eraseB b) σ = some (o, σ₁)) : (noRetB b = true → NJ o) ∧ BoundSub σ₁ (D ++ asgB b) := by
  obtain ⟨_, h1, _, h2⟩ := (sim_all X n).2.1 b K D O σ (TSt.ofSt σ) o σ₁ hl hd hf hj (agree_ofSt _ σ) hb h
  exact ⟨h1, h2⟩

theorem src_facts_S (X : Ext) (n : Nat) (s : AStmt) (K : ExcCtx) (D : List Name) (σ : St) (o : Out) (σ₁ : St)
    (hl : LiveS K s) (hd : DeclS s) (hf : DefS D s) (hj : retTopS s = true) (hb : BoundSub σ D)
    (h : exec X n (eraseS s) σ = some (o, σ₁)) : (noRetS s = true → NJ o) ∧ BoundSub σ₁ (D ++ asgS s) := by
  obtain ⟨_, h1, _, h2⟩ := (sim_all X n).1 s K D σ (TSt.ofSt σ) o σ₁ hl hd hf hj (agree_ofSt _ σ) hb h
  exact ⟨h1, h2⟩

end Malt.Func
