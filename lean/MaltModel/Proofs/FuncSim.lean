import MaltModel.Proofs.FuncBasic
/-!
The liveness-indexed forward simulation behind `control_flow_correct`:
source `Malt.Sem.exec` on the erased program  ⟶  native target semantics `execN` on the functionalised program.

Four mutually dependent statements, proved together by one induction on the source fuel (the pattern of
`design-notes/feasibility-break-lowering`): statements (`SimS`), blocks (`SimB`), the iterations of a `while`
(`SimW`, about the bare `whileF` — the `Undefined` pre-assignments run once, before the loop) and the iterations of
a `for` (`SimFor`).

Relation: `Agree L σ σ'` — on the variables `L` live at the current point the target slot reads as the source
binding, and the logs are equal.  Side invariant on the source state: `BoundSub σ D` — only variables in `D`
are bound (needed because `x = ag__.Undefined('x')` overwrites `x`: harmless only if `x` really is unbound).
-/
namespace Malt.Func
open Malt.Sem

def BoundSub (σ : St) (D : List Name) : Prop := ∀ y, σ.env y ≠ none → y ∈ D

/-- Result agreement: equal logs always; equal live-out variables after a normal completion. -/
def AgreeOut (o : Out) (L : List Name) (σ₁ : St) (σ₁' : TSt) : Prop :=
  σ₁'.log = σ₁.log ∧ (o = .normal → Agree L σ₁ σ₁')

/-- Outcomes of a block without `return` (the fragment has no break/continue). -/
def NJ (o : Out) : Prop := o = .normal ∨ ∃ e, o = .exc e

theorem BoundSub.mono {σ : St} {D E : List Name} (h : BoundSub σ D) (hs : D ⊆ E) : BoundSub σ E :=
  fun y hy => hs (h y hy)

theorem BoundSub.of_env {σ τ : St} {D : List Name} (h : BoundSub σ D) (he : τ.env = σ.env) : BoundSub τ D :=
  fun y hy => h y (by rw [← he]; exact hy)

theorem BoundSub.set {σ : St} {D E : List Name} (h : BoundSub σ D) (x : Name) (v : Val) (hs : D ⊆ E) (hx : x ∈ E) :
    BoundSub (σ.set x v) E := by
  intro y hy
  by_cases hyx : y = x
  · subst hyx; exact hx
  · simp only [St.set, hyx, if_false] at hy
    exact hs (h y hy)

theorem NJ.fnOut {o : Out} (h : NJ o) : fnOut o = o := by
  rcases h with rfl | ⟨e, rfl⟩ <;> rfl

theorem noRet_retTopS (s : AStmt) (h : noRetS s = true) : retTopS s = true := by
  cases s <;> simp_all [noRetS, retTopS]

theorem noRet_retTopB : ∀ (b : ABlock), noRetB b = true → retTopB b = true
  | [], _ => rfl
  | s :: r, h => by
      simp only [noRetB, Bool.and_eq_true] at h
      simp only [retTopB, Bool.and_eq_true]
      exact ⟨noRet_retTopS s h.1, noRet_retTopB r h.2⟩

def SimS (X : Ext) (n : Nat) : Prop :=
  ∀ (s : AStmt) (D : List Name) (σ : St) (σ' : TSt) (o : Out) (σ₁ : St),
    LiveS s → DeclS s → DefS D s → retTopS s = true →
    Agree s.info.liveIn σ σ' → BoundSub σ D → exec X n (eraseS s) σ = some (o, σ₁) →
    (∃ m σ₁', execNB X m (funcS s) σ' = some (o, σ₁') ∧ AgreeOut o s.info.liveOut σ₁ σ₁') ∧
    (noRetS s = true → NJ o) ∧ BoundSub σ₁ (D ++ asgS s)

def SimB (X : Ext) (n : Nat) : Prop :=
  ∀ (b : ABlock) (D O : List Name) (σ : St) (σ' : TSt) (o : Out) (σ₁ : St),
    LiveB b O → DeclB b → DefB D b → retTopB b = true →
    Agree (blockIn b O) σ σ' → BoundSub σ D → execB X n (eraseB b) σ = some (o, σ₁) →
    (∃ m σ₁', execNB X m (funcB b) σ' = some (o, σ₁') ∧ AgreeOut o O σ₁ σ₁') ∧
    (noRetB b = true → NJ o) ∧ BoundSub σ₁ (D ++ asgB b)

def SimW (X : Ext) (n : Nat) : Prop :=
  ∀ (i : Info) (c : Expr) (b : ABlock) (D : List Name) (σ : St) (σ' : TSt) (o : Out) (σ₁ : St),
    LiveS (.whileS i c b) → DeclS (.whileS i c b) → DefB D b → asgB b ⊆ D → noRetB b = true →
    Agree i.liveIn σ σ' → BoundSub σ D → exec X n (.whileS c (eraseB b)) σ = some (o, σ₁) →
    (∃ m σ₁', execN X m (.whileF c (funcB b) i.declared) σ' = some (o, σ₁') ∧ AgreeOut o i.liveOut σ₁ σ₁') ∧
    NJ o ∧ BoundSub σ₁ D

def SimFor (X : Ext) (n : Nat) : Prop :=
  ∀ (i : Info) (x : Name) (it : Expr) (extra : Option Expr) (b : ABlock) (D : List Name) (items : List Val)
    (σ : St) (σ' : TSt) (o : Out) (σ₁ : St),
    LiveS (.forS i x it extra b) → DeclS (.forS i x it extra b) → DefB D b → (x :: asgB b) ⊆ D → noRetB b = true →
    Agree i.liveIn σ σ' → BoundSub σ D → execFor X n x extra (eraseB b) items σ = some (o, σ₁) →
    (∃ m σ₁', execNFor X m x extra (funcB b) i.declared items σ' = some (o, σ₁') ∧ AgreeOut o i.liveOut σ₁ σ₁') ∧
    NJ o ∧ BoundSub σ₁ D

/-! ### The key fact: what is not declared is frame-local **and dead** -/
theorem not_live_of_not_declared {i : Info} {modified : List Name} {x : Name}
    (hd : modified.filter (liveEither i) ⊆ i.declared) (hx : x ∈ modified) (hnd : i.declared.contains x = false) :
    x ∉ i.liveIn ∧ x ∉ i.liveOut := by
  have hnot : liveEither i x = false := by
    cases hl : liveEither i x with
    | false => rfl
    | true =>
      have : x ∈ i.declared := hd (List.mem_filter.mpr ⟨hx, hl⟩)
      have : i.declared.contains x = true := by simpa using this
      rw [hnd] at this; cases this
  simp only [liveEither, Bool.or_eq_false_iff] at hnot
  constructor
  · intro h; have : i.liveIn.contains x = true := by simpa using h
    rw [hnot.1] at this; cases this
  · intro h; have : i.liveOut.contains x = true := by simpa using h
    rw [hnot.2] at this; cases this

theorem locals_dead {i : Info} {body : ABlock} {modified : List Name} (hsub : asgB body ⊆ modified)
    (hd : modified.filter (liveEither i) ⊆ i.declared) (hdecl : DeclB body) :
    ∀ x ∈ localsOf (funcB body) i.declared, x ∉ i.liveIn ∧ x ∉ i.liveOut := by
  intro x hx
  simp only [localsOf, List.mem_filter, Bool.not_eq_eq_eq_not, Bool.not_true] at hx
  exact not_live_of_not_declared hd (hsub (direct_funcB body hdecl hx.1)) hx.2

theorem localsFor_dead {i : Info} {x : Name} {body : ABlock}
    (hd : (x :: asgB body).filter (liveEither i) ⊆ i.declared) (hdecl : DeclB body) :
    ∀ y ∈ localsFor x (funcB body) i.declared, y ∉ i.liveIn ∧ y ∉ i.liveOut := by
  intro y hy
  simp only [localsFor, List.mem_filter, Bool.not_eq_eq_eq_not, Bool.not_true] at hy
  refine not_live_of_not_declared hd ?_ hy.2
  rcases List.mem_cons.mp hy.1 with h | h
  · exact List.mem_cons.mpr (Or.inl h)
  · exact List.mem_cons.mpr (Or.inr (direct_funcB body hdecl h))

/-- Returning from a generated function: frame-local slots are restored; nothing live is affected. -/
theorem frame_out {o : Out} {O L : List Name} {σ₂ : St} {σ' τ : TSt} (h : AgreeOut o O σ₂ τ)
    (hL : ∀ x ∈ L, x ∉ O) (hnj : NJ o) :
    withFrame L σ' (some (o, τ)) = some (o, restore L σ' τ) ∧ AgreeOut o O σ₂ (restore L σ' τ) := by
  refine ⟨by simp [withFrame, hnj.fnOut], h.1, fun ho => (h.2 ho).restore L σ' hL⟩

/-- Calling a generated body function (shared by `if`, `while`). -/
theorem body_call (X : Ext) (n : Nat) (hB : SimB X n) (t : ABlock) (O M D L : List Name)
    (σ : St) (σ' : TSt) (o : Out) (σ₂ : St)
    (hlive : LiveB t O) (hdecl : DeclB t) (hdef : DefB D t) (hnr : noRetB t = true)
    (hag : Agree M σ σ') (hM : blockIn t O ⊆ M) (hL1 : ∀ x ∈ L, x ∉ blockIn t O) (hL2 : ∀ x ∈ L, x ∉ O)
    (hb : BoundSub σ D) (h : execB X n (eraseB t) σ = some (o, σ₂)) :
    (∃ m σ₂', withFrame L σ' (execNB X m (funcB t) (mask L σ')) = some (o, σ₂') ∧ AgreeOut o O σ₂ σ₂') ∧
    NJ o ∧ BoundSub σ₂ (D ++ asgB t) := by
  have hag' : Agree (blockIn t O) σ (mask L σ') := (hag.mono hM).mask L hL1
  obtain ⟨⟨m, τ, hx, hout⟩, hnj, hbd⟩ := hB t D O σ (mask L σ') o σ₂ hlive hdecl hdef (noRet_retTopB t hnr) hag' hb h
  have hnj' := hnj hnr
  obtain ⟨hw, hout'⟩ := frame_out (σ' := σ') hout hL2 hnj'
  exact ⟨⟨m, _, by rw [hx]; exact hw, hout'⟩, hnj', hbd⟩

/-! ### Statements -/
theorem simS_step (X : Ext) (n : Nat) (hB : SimB X n) (hW : SimW X (n+1)) (hF : SimFor X n) : SimS X (n+1) := by
  intro s D σ σ' o σ₁ hlive hdecl hdef hjump hag hb h
  cases s with
  | assign i x e =>
    simp only [LiveS] at hlive
    simp only [AStmt.info] at hag ⊢
    simp only [eraseS, exec] at h
    rcases he : evalE X e σ with ⟨r, τ⟩
    rw [he] at h
    obtain ⟨τ', hT, henv', henv, hlog⟩ := evalT_sim X e hag hlive.1 he
    cases r with
    | error ex =>
      simp only [Option.some.injEq, Prod.mk.injEq] at h; obtain ⟨rfl, rfl⟩ := h
      refine ⟨⟨2, τ', ?_, hlog, fun hh => by cases hh⟩, fun _ => Or.inr ⟨ex, rfl⟩, ?_⟩
      · simp [funcS, execNB, execN, hT]
      · exact (hb.of_env henv).mono (List.subset_append_left _ _)
    | ok v =>
      simp only [Option.some.injEq, Prod.mk.injEq] at h; obtain ⟨rfl, rfl⟩ := h
      have hag1 : Agree i.liveIn τ τ' := hag.of_env henv henv' hlog
      refine ⟨⟨2, τ'.set x v, ?_, ?_, fun _ => ?_⟩, fun _ => Or.inl rfl, ?_⟩
      · simp [funcS, execNB, execN, hT]
      · exact hlog
      · refine hag1.set x v (fun y hy hyx => hlive.2 (List.mem_filter.mpr ⟨hy, by simpa using hyx⟩))
      · exact (hb.of_env henv).set x v (List.subset_append_left _ _) (by simp [asgS])
  | expr i e =>
    simp only [LiveS] at hlive
    simp only [AStmt.info] at hag ⊢
    simp only [eraseS, exec] at h
    rcases he : evalE X e σ with ⟨r, τ⟩
    rw [he] at h
    obtain ⟨τ', hT, henv', henv, hlog⟩ := evalT_sim X e hag hlive.1 he
    have hag1 : Agree i.liveIn τ τ' := hag.of_env henv henv' hlog
    cases r with
    | error ex =>
      simp only [Option.some.injEq, Prod.mk.injEq] at h; obtain ⟨rfl, rfl⟩ := h
      refine ⟨⟨2, τ', ?_, hlog, fun hh => by cases hh⟩, fun _ => Or.inr ⟨ex, rfl⟩, ?_⟩
      · simp [funcS, execNB, execN, hT]
      · exact (hb.of_env henv).mono (List.subset_append_left _ _)
    | ok v =>
      simp only [Option.some.injEq, Prod.mk.injEq] at h; obtain ⟨rfl, rfl⟩ := h
      refine ⟨⟨2, τ', ?_, hlog, fun _ => hag1.mono hlive.2⟩, fun _ => Or.inl rfl, ?_⟩
      · simp [funcS, execNB, execN, hT]
      · exact (hb.of_env henv).mono (List.subset_append_left _ _)
  | pass i =>
    simp only [LiveS] at hlive
    simp only [AStmt.info] at hag ⊢
    simp only [eraseS, exec, Option.some.injEq, Prod.mk.injEq] at h; obtain ⟨rfl, rfl⟩ := h
    refine ⟨⟨2, σ', by simp [funcS, execNB, execN], hag.2, fun _ => hag.mono hlive⟩, fun _ => Or.inl rfl, ?_⟩
    exact hb.mono (List.subset_append_left _ _)
  | raise i t =>
    simp only [eraseS, exec, Option.some.injEq, Prod.mk.injEq] at h; obtain ⟨rfl, rfl⟩ := h
    refine ⟨⟨2, σ', by simp [funcS, execNB, execN], hag.2, fun hh => by cases hh⟩, fun _ => Or.inr ⟨_, rfl⟩, ?_⟩
    exact hb.mono (List.subset_append_left _ _)
  | ret i e =>
    simp only [LiveS] at hlive
    simp only [AStmt.info] at hag ⊢
    cases e with
    | none =>
      simp only [eraseS, exec, Option.some.injEq, Prod.mk.injEq] at h; obtain ⟨rfl, rfl⟩ := h
      refine ⟨⟨2, σ', by simp [funcS, execNB, execN], hag.2, fun hh => by cases hh⟩, fun hh => by simp [noRetS] at hh, ?_⟩
      exact hb.mono (List.subset_append_left _ _)
    | some e =>
      simp only [eraseS, exec] at h
      rcases he : evalE X e σ with ⟨r, τ⟩
      rw [he] at h
      obtain ⟨τ', hT, henv', henv, hlog⟩ := evalT_sim X e hag hlive he
      cases r with
      | error ex =>
        simp only [Option.some.injEq, Prod.mk.injEq] at h; obtain ⟨rfl, rfl⟩ := h
        refine ⟨⟨2, τ', ?_, hlog, fun hh => by cases hh⟩, fun hh => by simp [noRetS] at hh, ?_⟩
        · simp [funcS, execNB, execN, hT]
        · exact (hb.of_env henv).mono (List.subset_append_left _ _)
      | ok v =>
        simp only [Option.some.injEq, Prod.mk.injEq] at h; obtain ⟨rfl, rfl⟩ := h
        refine ⟨⟨2, τ', ?_, hlog, fun hh => by cases hh⟩, fun hh => by simp [noRetS] at hh, ?_⟩
        · simp [funcS, execNB, execN, hT]
        · exact (hb.of_env henv).mono (List.subset_append_left _ _)
  | ifS i c t e =>
    simp only [LiveS] at hlive
    simp only [DeclS] at hdecl
    simp only [DefS] at hdef
    simp only [retTopS, Bool.and_eq_true] at hjump
    simp only [AStmt.info] at hag ⊢
    obtain ⟨hvc, hint, hine, hlt, hle⟩ := hlive
    obtain ⟨hdd, hund, hdt, hde⟩ := hdecl
    obtain ⟨hDsub, hudisj, hdft, hdfe⟩ := hdef
    -- the Undefined pre-assignments only touch really-unbound variables
    have hunb : ∀ u ∈ i.undefined, σ.env u = none := by
      intro u hu
      cases hq : σ.env u with
      | none => rfl
      | some w => exact absurd (hDsub (hb u (by rw [hq]; simp))) (hudisj u hu)
    have hag0 : Agree i.liveIn σ (undefAll i.undefined σ') := hag.undefAll i.undefined hunb
    simp only [eraseS, exec] at h
    rcases he : evalE X c σ with ⟨r, τ⟩
    rw [he] at h
    obtain ⟨τ', hT, henv', henv, hlog⟩ := evalT_sim X c hag0 hvc he
    have hag1 : Agree i.liveIn τ τ' := hag0.of_env henv henv' hlog
    have hb1 : BoundSub τ D := hb.of_env henv
    cases r with
    | error ex =>
      simp only [Option.some.injEq, Prod.mk.injEq] at h; obtain ⟨rfl, rfl⟩ := h
      have hx : execN X 1 (.ifF c (funcB t) (funcB e) i.declared i.nouts) (undefAll i.undefined σ') = some (.exc ex, τ') := by
        simp [execN, hT]
      obtain ⟨m', hm'⟩ := execNB_undefs X i.undefined σ' _ _ _ (execNB_single X hx)
      refine ⟨⟨m', τ', by simpa [funcS] using hm', hlog, fun hh => by cases hh⟩, fun _ => Or.inr ⟨ex, rfl⟩, ?_⟩
      exact hb1.mono (List.subset_append_left _ _)
    | ok v =>
      simp only at h
      by_cases hv : truthy v = true
      · rw [if_pos hv] at h
        have hloc := locals_dead (i := i) (body := t) (List.subset_append_left _ _) hdd hdt
        obtain ⟨⟨m, σ₂', hx, hout⟩, hnj, hbd⟩ := body_call X n hB t i.liveOut i.liveIn D
          (localsOf (funcB t) i.declared) τ τ' o σ₁ hlt hdt hdft hjump.1 hag1 hint
          (fun x hx hin => (hloc x hx).1 (hint hin)) (fun x hx => (hloc x hx).2) hb1 h
        have hx' : execN X (m+1) (.ifF c (funcB t) (funcB e) i.declared i.nouts) (undefAll i.undefined σ') = some (o, σ₂') := by
          simp only [execN, hT, hv, if_true]; exact hx
        obtain ⟨m', hm'⟩ := execNB_undefs X i.undefined σ' _ _ _ (execNB_single X hx')
        refine ⟨⟨m', σ₂', by simpa [funcS] using hm', hout⟩, fun _ => hnj, ?_⟩
        exact hbd.mono (by
          intro y hy; simp only [asgS]
          rcases List.mem_append.mp hy with hy | hy
          · exact List.mem_append.mpr (Or.inl hy)
          · exact List.mem_append.mpr (Or.inr (List.mem_append.mpr (Or.inl hy))))
      · rw [if_neg hv] at h
        have hloc := locals_dead (i := i) (body := e) (List.subset_append_right _ _) hdd hde
        obtain ⟨⟨m, σ₂', hx, hout⟩, hnj, hbd⟩ := body_call X n hB e i.liveOut i.liveIn D
          (localsOf (funcB e) i.declared) τ τ' o σ₁ hle hde hdfe hjump.2 hag1 hine
          (fun x hx hin => (hloc x hx).1 (hine hin)) (fun x hx => (hloc x hx).2) hb1 h
        have hx' : execN X (m+1) (.ifF c (funcB t) (funcB e) i.declared i.nouts) (undefAll i.undefined σ') = some (o, σ₂') := by
          simp only [execN, hT, hv]; exact hx
        obtain ⟨m', hm'⟩ := execNB_undefs X i.undefined σ' _ _ _ (execNB_single X hx')
        refine ⟨⟨m', σ₂', by simpa [funcS] using hm', hout⟩, fun _ => hnj, ?_⟩
        exact hbd.mono (by
          intro y hy; simp only [asgS]
          rcases List.mem_append.mp hy with hy | hy
          · exact List.mem_append.mpr (Or.inl hy)
          · exact List.mem_append.mpr (Or.inr (List.mem_append.mpr (Or.inr hy))))
  | whileS i c b =>
    have hlive0 := hlive
    have hdecl0 := hdecl
    simp only [DeclS] at hdecl
    simp only [DefS] at hdef
    simp only [retTopS] at hjump
    simp only [AStmt.info] at hag ⊢
    obtain ⟨hDsub, hudisj, hdfb⟩ := hdef
    have hunb : ∀ u ∈ i.undefined, σ.env u = none := by
      intro u hu
      cases hq : σ.env u with
      | none => rfl
      | some w => exact absurd (hDsub (hb u (by rw [hq]; simp))) (hudisj u hu)
    have hag0 : Agree i.liveIn σ (undefAll i.undefined σ') := hag.undefAll i.undefined hunb
    simp only [eraseS] at h
    obtain ⟨⟨m, σ₁', hx, hout⟩, hnj, hbd⟩ := hW i c b (D ++ asgB b) σ (undefAll i.undefined σ') o σ₁ hlive0 hdecl0 hdfb
      (List.subset_append_right _ _) hjump hag0 (hb.mono (List.subset_append_left _ _)) h
    obtain ⟨m', hm'⟩ := execNB_undefs X i.undefined σ' _ _ _ (execNB_single X hx)
    exact ⟨⟨m', σ₁', by simpa [funcS] using hm', hout⟩, fun _ => hnj, by simpa [asgS] using hbd⟩
  | forS i x it extra b =>
    have hlive0 := hlive
    have hdecl0 := hdecl
    simp only [LiveS] at hlive
    simp only [DeclS] at hdecl
    simp only [DefS] at hdef
    simp only [retTopS] at hjump
    simp only [AStmt.info] at hag ⊢
    obtain ⟨hvit, hvex, hOI, hbI, hlb⟩ := hlive
    obtain ⟨hDsub, hudisj, hdfb⟩ := hdef
    have hunb : ∀ u ∈ i.undefined, σ.env u = none := by
      intro u hu
      cases hq : σ.env u with
      | none => rfl
      | some w => exact absurd (hDsub (hb u (by rw [hq]; simp))) (hudisj u hu)
    have hag0 : Agree i.liveIn σ (undefAll i.undefined σ') := hag.undefAll i.undefined hunb
    have hbD : BoundSub σ (D ++ (x :: asgB b)) := hb.mono (List.subset_append_left _ _)
    simp only [eraseS, exec] at h
    rcases he : evalE X it σ with ⟨r, τ⟩
    rw [he] at h
    obtain ⟨τ', hT, henv', henv, hlog⟩ := evalT_sim X it hag0 hvit he
    have hag1 : Agree i.liveIn τ τ' := hag0.of_env henv henv' hlog
    have hb1 : BoundSub τ (D ++ (x :: asgB b)) := hbD.of_env henv
    -- wrap a run of the bare `forF` into the functionalised statement
    have wrap : ∀ (m : Nat) (σ₁' : TSt),
        execN X m (.forF x it extra (funcB b) i.declared) (undefAll i.undefined σ') = some (o, σ₁') →
        AgreeOut o i.liveOut σ₁ σ₁' →
        ∃ m σ₁', execNB X m (funcS (.forS i x it extra b)) σ' = some (o, σ₁') ∧ AgreeOut o i.liveOut σ₁ σ₁' := by
      intro m σ₁' hx hout
      obtain ⟨m', hm'⟩ := execNB_undefs X i.undefined σ' _ _ _ (execNB_single X hx)
      exact ⟨m', σ₁', by simpa [funcS] using hm', hout⟩
    cases r with
    | error ex =>
      simp only [Option.some.injEq, Prod.mk.injEq] at h; obtain ⟨rfl, rfl⟩ := h
      refine ⟨wrap 1 τ' (by simp [execN, hT]) ⟨hlog, fun hh => by cases hh⟩, fun _ => Or.inr ⟨ex, rfl⟩, ?_⟩
      simpa [asgS] using hb1
    | ok v =>
      simp only at h
      cases hi : iterItems v with
      | error ex =>
        rw [hi] at h
        simp only [Option.some.injEq, Prod.mk.injEq] at h; obtain ⟨rfl, rfl⟩ := h
        refine ⟨wrap 1 τ' (by simp [execN, hT, hi]) ⟨hlog, fun hh => by cases hh⟩, fun _ => Or.inr ⟨ex, rfl⟩, ?_⟩
        simpa [asgS] using hb1
      | ok items =>
        rw [hi] at h
        simp only at h
        cases extra with
        | none =>
          simp only at h
          obtain ⟨⟨m, σ₁', hx, hout⟩, hnj, hbd⟩ := hF i x it none b (D ++ (x :: asgB b)) items τ τ' o σ₁ hlive0 hdecl0 hdfb
            (List.subset_append_right _ _) hjump hag1 hb1 h
          refine ⟨wrap (m+1) σ₁' (by simp only [execN, hT, hi]; exact hx) hout, fun _ => hnj, ?_⟩
          simpa [asgS] using hbd
        | some t =>
          simp only at h
          rcases het : evalE X t τ with ⟨rt, τ₂⟩
          rw [het] at h
          obtain ⟨τ₂', hT2, henv2', henv2, hlog2⟩ := evalT_sim X t hag1 hvex het
          have hag2 : Agree i.liveIn τ₂ τ₂' := hag1.of_env henv2 henv2' hlog2
          have hb2 : BoundSub τ₂ (D ++ (x :: asgB b)) := hb1.of_env henv2
          cases rt with
          | error ex =>
            simp only [Option.some.injEq, Prod.mk.injEq] at h; obtain ⟨rfl, rfl⟩ := h
            refine ⟨wrap 1 τ₂' (by simp [execN, hT, hi, hT2]) ⟨hlog2, fun hh => by cases hh⟩, fun _ => Or.inr ⟨ex, rfl⟩, ?_⟩
            simpa [asgS] using hb2
          | ok tv =>
            simp only at h
            by_cases htv : truthy tv = true
            · rw [if_pos htv] at h
              obtain ⟨⟨m, σ₁', hx, hout⟩, hnj, hbd⟩ := hF i x it (some t) b (D ++ (x :: asgB b)) items τ₂ τ₂' o σ₁ hlive0 hdecl0 hdfb
                (List.subset_append_right _ _) hjump hag2 hb2 h
              refine ⟨wrap (m+1) σ₁' (by simp only [execN, hT, hi, hT2, htv, if_true]; exact hx) hout, fun _ => hnj, ?_⟩
              simpa [asgS] using hbd
            · rw [if_neg htv] at h
              simp only [Option.some.injEq, Prod.mk.injEq] at h; obtain ⟨rfl, rfl⟩ := h
              refine ⟨wrap 1 τ₂' (by simp [execN, hT, hi, hT2, htv]) ⟨hlog2, fun _ => hag2.mono hOI⟩, fun _ => Or.inl rfl, ?_⟩
              simpa [asgS] using hb2


/-! ### Blocks -/
theorem simB_step (X : Ext) (n : Nat) (hS : SimS X n) (hB : SimB X n) : SimB X (n+1) := by
  intro b D O σ σ' o σ₁ hlive hdecl hdef hjump hag hb h
  cases b with
  | nil =>
    simp only [eraseB, execB, Option.some.injEq, Prod.mk.injEq] at h; obtain ⟨rfl, rfl⟩ := h
    simp only [blockIn] at hag
    refine ⟨⟨1, σ', by simp [funcB, execNB], hag.2, fun _ => hag⟩, fun _ => Or.inl rfl, ?_⟩
    exact hb.mono (List.subset_append_left _ _)
  | cons s rest =>
    simp only [LiveB] at hlive
    simp only [DeclB] at hdecl
    simp only [DefB] at hdef
    simp only [retTopB, Bool.and_eq_true] at hjump
    simp only [blockIn] at hag
    simp only [eraseB, execB] at h
    cases hs : exec X n (eraseS s) σ with
    | none => simp [hs] at h
    | some rs =>
      rw [hs] at h
      obtain ⟨o₁, σ₂⟩ := rs
      obtain ⟨⟨m₁, σ₂', hx₁, hout₁⟩, hnj₁, hbd₁⟩ := hS s D σ σ' o₁ σ₂ hlive.1 hdecl.1 hdef.1 hjump.1 hag hb hs
      by_cases ho : o₁ = .normal
      · subst ho
        simp only at h
        have hag₂ : Agree (blockIn rest O) σ₂ σ₂' := (hout₁.2 rfl).mono hlive.2.1
        obtain ⟨⟨m₂, σ₁', hx₂, hout₂⟩, hnj₂, hbd₂⟩ := hB rest (D ++ asgS s) O σ₂ σ₂' o σ₁ hlive.2.2 hdecl.2 hdef.2 hjump.2 hag₂ hbd₁ h
        refine ⟨⟨m₁ + m₂, σ₁', ?_, hout₂⟩, ?_, ?_⟩
        · simp only [funcB]
          exact execNB_append_normal X _ _ _ _ _ _ _ hx₁ hx₂
        · intro hnr
          simp only [noRetB, Bool.and_eq_true] at hnr
          exact hnj₂ hnr.2
        · simpa [asgB, List.append_assoc] using hbd₂
      · have hres : o = o₁ ∧ σ₁ = σ₂ := by
          cases o₁ <;> simp_all
        obtain ⟨rfl, rfl⟩ := hres
        refine ⟨⟨m₁, σ₂', ?_, hout₁.1, fun hh => absurd hh ho⟩, ?_, ?_⟩
        · simp only [funcB]
          exact execNB_append_stop X _ _ _ _ _ _ hx₁ ho
        · intro hnr
          simp only [noRetB, Bool.and_eq_true] at hnr
          exact hnj₁ hnr.1
        · exact hbd₁.mono (by
            intro y hy; simp only [asgB]
            rcases List.mem_append.mp hy with hy | hy
            · exact List.mem_append.mpr (Or.inl hy)
            · exact List.mem_append.mpr (Or.inr (List.mem_append.mpr (Or.inl hy))))

/-! ### The iterations of a `while` -/
theorem simW_step (X : Ext) (n : Nat) (hB : SimB X n) (hW : SimW X n) : SimW X (n+1) := by
  intro i c b D σ σ' o σ₁ hlive hdecl hdef hsub hnr hag hb h
  have hlive0 := hlive
  have hdecl0 := hdecl
  simp only [LiveS] at hlive
  simp only [DeclS] at hdecl
  obtain ⟨hvc, hbI, hOI, hlb⟩ := hlive
  obtain ⟨hdd, hund, hdb⟩ := hdecl
  simp only [exec] at h
  rcases he : evalE X c σ with ⟨r, τ⟩
  rw [he] at h
  obtain ⟨τ', hT, henv', henv, hlog⟩ := evalT_sim X c hag hvc he
  have hag1 : Agree i.liveIn τ τ' := hag.of_env henv henv' hlog
  have hb1 : BoundSub τ D := hb.of_env henv
  cases r with
  | error ex =>
    simp only [Option.some.injEq, Prod.mk.injEq] at h; obtain ⟨rfl, rfl⟩ := h
    exact ⟨⟨1, τ', by simp [execN, hT], hlog, fun hh => by cases hh⟩, Or.inr ⟨ex, rfl⟩, hb1⟩
  | ok v =>
    simp only at h
    by_cases hv : (!truthy v) = true
    · rw [if_pos hv] at h
      simp only [Option.some.injEq, Prod.mk.injEq] at h; obtain ⟨rfl, rfl⟩ := h
      exact ⟨⟨1, τ', by simp [execN, hT, hv], hlog, fun _ => hag1.mono hOI⟩, Or.inl rfl, hb1⟩
    · rw [if_neg hv] at h
      cases hbody : execB X n (eraseB b) τ with
      | none => simp [hbody] at h
      | some rb =>
        rw [hbody] at h
        obtain ⟨o₁, σ₂⟩ := rb
        have hloc := locals_dead (i := i) (body := b) (fun _ hx => hx) hdd hdb
        obtain ⟨⟨m₁, σ₂', hx₁, hout₁⟩, hnj₁, hbd₁⟩ := body_call X n hB b i.liveIn i.liveIn D
          (localsOf (funcB b) i.declared) τ τ' o₁ σ₂ hlb hdb hdef hnr hag1 hbI
          (fun x hx hin => (hloc x hx).1 (hbI hin)) (fun x hx => (hloc x hx).1) hb1 hbody
        have hb2 : BoundSub σ₂ D := hbd₁.mono (by
          intro y hy
          rcases List.mem_append.mp hy with hy | hy
          · exact hy
          · exact hsub hy)
        rcases hnj₁ with rfl | ⟨ex, rfl⟩
        · simp only at h
          obtain ⟨⟨m₂, σ₁', hx₂, hout₂⟩, hnj₂, hbd₂⟩ := hW i c b D σ₂ σ₂' o σ₁ hlive0 hdecl0 hdef hsub hnr (hout₁.2 rfl) hb2 h
          refine ⟨⟨max m₁ m₂ + 1, σ₁', ?_, hout₂⟩, hnj₂, hbd₂⟩
          simp only [execN, hT, hv]
          have hx₁' := withFrame_mono (B := execNB X (max m₁ m₂) (funcB b) (mask (localsOf (funcB b) i.declared) τ'))
            (fun r hr => execNB_mono X hr (Nat.le_max_left m₁ m₂)) hx₁
          simp only [Bool.false_eq_true, if_false]
          rw [hx₁']
          exact execN_mono X hx₂ (Nat.le_max_right m₁ m₂)
        · simp only [Option.some.injEq, Prod.mk.injEq] at h; obtain ⟨rfl, rfl⟩ := h
          refine ⟨⟨m₁ + 1, σ₂', ?_, hout₁.1, fun hh => by cases hh⟩, Or.inr ⟨ex, rfl⟩, hb2⟩
          simp only [execN, hT, hv]
          simp only [Bool.false_eq_true, if_false]
          rw [hx₁]

/-! ### The iterations of a `for` -/
theorem simFor_step (X : Ext) (n : Nat) (hB : SimB X n) (hF : SimFor X n) : SimFor X (n+1) := by
  intro i x it extra b D items σ σ' o σ₁ hlive hdecl hdef hsub hnr hag hb h
  have hlive0 := hlive
  have hdecl0 := hdecl
  simp only [LiveS] at hlive
  simp only [DeclS] at hdecl
  obtain ⟨hvit, hvex, hOI, hbI, hlb⟩ := hlive
  obtain ⟨hdd, hund, hdb⟩ := hdecl
  cases items with
  | nil =>
    simp only [execFor, Option.some.injEq, Prod.mk.injEq] at h; obtain ⟨rfl, rfl⟩ := h
    exact ⟨⟨1, σ', by simp [execNFor], hag.2, fun _ => hag.mono hOI⟩, Or.inl rfl, hb⟩
  | cons v items =>
    simp only [execFor] at h
    cases hbody : execB X n (eraseB b) (σ.set x v) with
    | none => simp [hbody] at h
    | some rb =>
      rw [hbody] at h
      obtain ⟨o₁, σ₂⟩ := rb
      have hloc := localsFor_dead (i := i) (x := x) (body := b) hdd hdb
      -- the generated `loop_body(itr)`: mask the frame-local names, `x = itr`, then the body
      let L := localsFor x (funcB b) i.declared
      have hagm : Agree (blockIn b i.liveIn) (σ.set x v) ((mask L σ').set x v) := by
        have hm : Agree i.liveIn σ (mask L σ') := hag.mask L (fun y hy => (hloc y hy).1)
        exact hm.set x v (fun y hy hyx => hbI (List.mem_filter.mpr ⟨hy, by simpa using hyx⟩))
      have hbs : BoundSub (σ.set x v) D := hb.set x v (fun _ h => h) (hsub (List.mem_cons_self ..))
      obtain ⟨⟨m₁, τ, hx₁, hout₁⟩, hnj₁, hbd₁⟩ := hB b D i.liveIn (σ.set x v) ((mask L σ').set x v) o₁ σ₂ hlb hdb hdef
        (noRet_retTopB b hnr) hagm hbs hbody
      have hnj₁' := hnj₁ hnr
      obtain ⟨hw, hout₁'⟩ := frame_out (σ' := σ') (L := L) hout₁ (fun y hy => (hloc y hy).1) hnj₁'
      have hb2 : BoundSub σ₂ D := hbd₁.mono (by
        intro y hy
        rcases List.mem_append.mp hy with hy | hy
        · exact hy
        · exact hsub (List.mem_cons_of_mem _ hy))
      have hcall : ∀ k, m₁ ≤ k → withFrame L σ' (execNB X (k+1) (.assign x (.const v) :: funcB b) (mask L σ')) =
          some (o₁, restore L σ' τ) := by
        intro k hk
        have hk0 : 0 < k := Nat.lt_of_lt_of_le (execNB_pos X hx₁) hk
        obtain ⟨k', rfl⟩ : ∃ k', k = k' + 1 := ⟨k - 1, by omega⟩
        have : execNB X (k'+1+1) (.assign x (.const v) :: funcB b) (mask L σ') = some (o₁, τ) := by
          simp only [execNB, execN, evalT, evalE]
          exact execNB_mono X hx₁ hk
        rw [this]; exact hw
      rcases hnj₁' with rfl | ⟨ex, rfl⟩
      · have hag2 : Agree i.liveIn σ₂ (restore L σ' τ) := hout₁'.2 rfl
        simp only [BEq.rfl, Bool.true_or, if_true] at h
        cases extra with
        | none =>
          simp only at h
          obtain ⟨⟨m₂, σ₁', hx₂, hout₂⟩, hnj₂, hbd₂⟩ := hF i x it none b D items σ₂ (restore L σ' τ) o σ₁ hlive0 hdecl0 hdef hsub hnr hag2 hb2 h
          refine ⟨⟨max m₁ m₂ + 1 + 1, σ₁', ?_, hout₂⟩, hnj₂, hbd₂⟩
          simp only [execNFor]
          rw [hcall (max m₁ m₂) (Nat.le_max_left _ _)]
          exact execNFor_mono X hx₂ (by have := Nat.le_max_right m₁ m₂; omega)
        | some t =>
          simp only at h
          rcases het : evalE X t σ₂ with ⟨rt, τ₂⟩
          rw [het] at h
          obtain ⟨τ₂', hT2, henv2', henv2, hlog2⟩ := evalT_sim X t hag2 hvex het
          have hag3 : Agree i.liveIn τ₂ τ₂' := hag2.of_env henv2 henv2' hlog2
          have hb3 : BoundSub τ₂ D := hb2.of_env henv2
          cases rt with
          | error ex =>
            simp only [Option.some.injEq, Prod.mk.injEq] at h; obtain ⟨rfl, rfl⟩ := h
            refine ⟨⟨m₁ + 1 + 1, τ₂', ?_, hlog2, fun hh => by cases hh⟩, Or.inr ⟨ex, rfl⟩, hb3⟩
            simp only [execNFor]
            rw [hcall m₁ (Nat.le_refl _)]
            simp [hT2]
          | ok tv =>
            simp only at h
            by_cases htv : truthy tv = true
            · rw [if_pos htv] at h
              obtain ⟨⟨m₂, σ₁', hx₂, hout₂⟩, hnj₂, hbd₂⟩ := hF i x it (some t) b D items τ₂ τ₂' o σ₁ hlive0 hdecl0 hdef hsub hnr hag3 hb3 h
              refine ⟨⟨max m₁ m₂ + 1 + 1, σ₁', ?_, hout₂⟩, hnj₂, hbd₂⟩
              simp only [execNFor]
              rw [hcall (max m₁ m₂) (Nat.le_max_left _ _)]
              simp only [hT2, htv, if_true]
              exact execNFor_mono X hx₂ (by have := Nat.le_max_right m₁ m₂; omega)
            · rw [if_neg htv] at h
              simp only [Option.some.injEq, Prod.mk.injEq] at h; obtain ⟨rfl, rfl⟩ := h
              refine ⟨⟨m₁ + 1 + 1, τ₂', ?_, hlog2, fun _ => hag3.mono hOI⟩, Or.inl rfl, hb3⟩
              simp only [execNFor]
              rw [hcall m₁ (Nat.le_refl _)]
              simp [hT2, htv]
      · simp only [show (Out.exc ex == Out.normal) = false from rfl, show (Out.exc ex == Out.cont) = false from rfl,
          Bool.or_self, Bool.false_eq_true, if_false, Option.some.injEq, Prod.mk.injEq] at h
        obtain ⟨rfl, rfl⟩ := h
        refine ⟨⟨m₁ + 1 + 1, restore L σ' τ, ?_, hout₁'.1, fun hh => by cases hh⟩, Or.inr ⟨ex, rfl⟩, hb2⟩
        simp only [execNFor]
        rw [hcall m₁ (Nat.le_refl _)]

/-- All four simulation statements hold at every fuel. -/
theorem sim_all (X : Ext) : ∀ n, SimS X n ∧ SimB X n ∧ SimW X n ∧ SimFor X n := by
  intro n
  induction n with
  | zero =>
    refine ⟨?_, ?_, ?_, ?_⟩
    · intro s D σ σ' o σ₁ _ _ _ _ _ _ h; simp [exec] at h
    · intro b D O σ σ' o σ₁ _ _ _ _ _ _ h; simp [execB] at h
    · intro i c b D σ σ' o σ₁ _ _ _ _ _ _ _ h; simp [exec] at h
    · intro i x it extra b D items σ σ' o σ₁ _ _ _ _ _ _ _ h; simp [execFor] at h
  | succ n ih =>
    obtain ⟨hS, hB, hW, hF⟩ := ih
    have hW1 := simW_step X n hB hW
    have hF1 := simFor_step X n hB hF
    exact ⟨simS_step X n hB hW1 hF, simB_step X n hS hB, hW1, hF1⟩

/-- The target state that holds exactly the bindings of a source state. -/
def TSt.ofSt (σ : St) : TSt :=
  ⟨fun x => match σ.env x with | some v => .val v | none => .unbound, σ.log⟩

theorem agree_ofSt (L : List Name) (σ : St) : Agree L σ (TSt.ofSt σ) := by
  refine ⟨fun x _ => ?_, rfl⟩
  simp only [TSt.ofSt]
  cases σ.env x <;> rfl

/-- Source-side facts that come out of the simulation: a block without `return` ends normally or with an
exception, and only assigned variables become bound. -/
theorem src_facts_B (X : Ext) (n : Nat) (b : ABlock) (D O : List Name) (σ : St) (o : Out) (σ₁ : St)
    (hl : LiveB b O) (hd : DeclB b) (hf : DefB D b) (hj : retTopB b = true) (hb : BoundSub σ D)
    (h : execB X n (eraseB b) σ = some (o, σ₁)) : (noRetB b = true → NJ o) ∧ BoundSub σ₁ (D ++ asgB b) := by
  obtain ⟨_, h1, h2⟩ := (sim_all X n).2.1 b D O σ (TSt.ofSt σ) o σ₁ hl hd hf hj (agree_ofSt _ σ) hb h
  exact ⟨h1, h2⟩

theorem src_facts_S (X : Ext) (n : Nat) (s : AStmt) (D : List Name) (σ : St) (o : Out) (σ₁ : St)
    (hl : LiveS s) (hd : DeclS s) (hf : DefS D s) (hj : retTopS s = true) (hb : BoundSub σ D)
    (h : exec X n (eraseS s) σ = some (o, σ₁)) : (noRetS s = true → NJ o) ∧ BoundSub σ₁ (D ++ asgS s) := by
  obtain ⟨_, h1, h2⟩ := (sim_all X n).1 s D σ (TSt.ofSt σ) o σ₁ hl hd hf hj (agree_ofSt _ σ) hb h
  exact ⟨h1, h2⟩

end Malt.Func
