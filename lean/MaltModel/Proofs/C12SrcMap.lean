import MaltModel.Rt.Errors
/-!
Helper lemmas for C12 (source map part): association-list facts and the per-line characterisation
`get (createSourceMap items) k = pick (originsAt items k)`.
-/
namespace Malt.Errors

theorem get_set_same (m : SourceMap) (k : LineLoc) (o : Origin) : get (set m k o) k = some o := by
  induction m with
  | nil => simp [set, get]
  | cons p m ih =>
    obtain ⟨k', o'⟩ := p
    by_cases h : k' = k
    · simp [set, get, h]
    · simp [set, get, h, ih]

theorem get_set_ne (m : SourceMap) (k k' : LineLoc) (o : Origin) (h : k ≠ k') :
    get (set m k o) k' = get m k' := by
  induction m with
  | nil => simp [set, get, h]
  | cons p m ih =>
    obtain ⟨k₀, o₀⟩ := p
    by_cases h0 : k₀ = k
    · subst h0; simp [set, get, h]
    · by_cases h1 : k₀ = k'
      · subst h1; simp [set, get, h0]
      · simp [set, get, h0, h1, ih]

theorem keys_set (m : SourceMap) (k : LineLoc) (o : Origin) :
    (set m k o).map Prod.fst = if k ∈ m.map Prod.fst then m.map Prod.fst else m.map Prod.fst ++ [k] := by
  induction m with
  | nil => simp [set]
  | cons p m ih =>
    obtain ⟨k₀, o₀⟩ := p
    by_cases h0 : k₀ = k
    · subst h0; simp [set]
    · have hne : ¬ k = k₀ := fun h => h0 h.symm
      simp only [set, h0, if_false, List.map_cons, List.mem_cons, hne, false_or, ih]
      split <;> simp

def NodupKeys (m : SourceMap) : Prop := (m.map Prod.fst).Nodup

theorem nodupKeys_set {m : SourceMap} (h : NodupKeys m) (k : LineLoc) (o : Origin) : NodupKeys (set m k o) := by
  unfold NodupKeys at *
  rw [keys_set]
  split
  · exact h
  · rename_i hk
    rw [List.nodup_append]
    refine ⟨h, by simp, ?_⟩
    intro a ha b hb
    simp at hb
    subst hb
    intro hab
    exact hk (hab ▸ ha)

theorem nodupKeys_step {m : SourceMap} (h : NodupKeys m) (it : WalkItem) : NodupKeys (step m it) := by
  unfold step
  split
  · split
    · split
      · exact h
      · exact nodupKeys_set h _ _
    · exact nodupKeys_set h _ _
  · exact h

theorem nodupKeys_foldl (items : List WalkItem) {m : SourceMap} (h : NodupKeys m) :
    NodupKeys (items.foldl step m) := by
  induction items generalizing m with
  | nil => exact h
  | cons it items ih => exact ih (nodupKeys_step h it)

theorem nodupKeys_createSourceMap (items : List WalkItem) : NodupKeys (createSourceMap items) :=
  nodupKeys_foldl items (by simp [NodupKeys])

theorem get_of_mem {m : SourceMap} (h : NodupKeys m) {k : LineLoc} {o : Origin} (hm : (k, o) ∈ m) :
    get m k = some o := by
  induction m with
  | nil => cases hm
  | cons p m ih =>
    obtain ⟨k₀, o₀⟩ := p
    simp only [NodupKeys, List.map_cons, List.nodup_cons] at h
    rcases List.mem_cons.mp hm with heq | hin
    · cases heq; simp [get]
    · have hk : k₀ ≠ k := by
        intro e; subst e
        exact h.1 (List.mem_map.mpr ⟨(k₀, o), hin, rfl⟩)
      simp only [get, hk, if_false]
      exact ih h.2 hin

theorem mem_of_get {m : SourceMap} {k : LineLoc} {o : Origin} (h : get m k = some o) : (k, o) ∈ m := by
  induction m with
  | nil => simp [get] at h
  | cons p m ih =>
    obtain ⟨k₀, o₀⟩ := p
    by_cases h0 : k₀ = k
    · subst h0; simp [get] at h; subst h; simp
    · simp only [get, h0, if_false] at h
      exact List.mem_cons_of_mem _ (ih h)

/-- One step of the fold, seen from a single key. -/
theorem get_step (m : SourceMap) (it : WalkItem) (k : LineLoc) :
    get (step m it) k =
      if it.key = some k then (match it.origin with
                               | some o => pickStep (get m k) o
                               | none => get m k)
      else get m k := by
  unfold step
  cases hk : it.key with
  | none => simp
  | some k' =>
    cases ho : it.origin with
    | none => simp
    | some o =>
      by_cases hkk : k' = k
      · subst hkk
        simp only [if_true]
        cases hg : get m k' with
        | none => simp [pickStep, get_set_same]
        | some ex =>
          by_cases hkeep : keep ex o = true
          · simp [pickStep, hkeep, hg]
          · simp [pickStep, hkeep, get_set_same]
      · have : ¬ (some k' = some k) := fun h => hkk (Option.some.inj h)
        simp only [this, if_false]
        cases hg : get m k' with
        | none => simp [get_set_ne _ _ _ _ hkk]
        | some ex =>
          by_cases hkeep : keep ex o = true
          · simp [hkeep]
          · simp [hkeep, get_set_ne _ _ _ _ hkk]

theorem originsAt_cons (it : WalkItem) (items : List WalkItem) (k : LineLoc) :
    originsAt (it :: items) k =
      (if it.key = some k then (match it.origin with | some o => [o] | none => []) else []) ++ originsAt items k := by
  unfold originsAt
  by_cases h : it.key = some k
  · cases ho : it.origin <;> simp [h, ho]
  · simp [h]

theorem get_foldl (items : List WalkItem) (m : SourceMap) (k : LineLoc) :
    get (items.foldl step m) k = (originsAt items k).foldl pickStep (get m k) := by
  induction items generalizing m with
  | nil => simp [originsAt]
  | cons it items ih =>
    rw [List.foldl_cons, ih, get_step, originsAt_cons]
    by_cases h : it.key = some k
    · cases ho : it.origin <;> simp [h]
    · simp [h]

/-- The map restricted to one key is the per-line fold of the overlap rules. -/
theorem get_createSourceMap (items : List WalkItem) (k : LineLoc) :
    get (createSourceMap items) k = pick (originsAt items k) := by
  unfold createSourceMap pick
  rw [get_foldl]; simp [get]

theorem foldl_pickStep_some (os : List Origin) (x : Origin) : ∃ y, os.foldl pickStep (some x) = some y := by
  induction os generalizing x with
  | nil => exact ⟨x, rfl⟩
  | cons o os ih =>
    simp only [List.foldl_cons, pickStep]
    split <;> exact ih _

theorem foldl_pickStep_mem (os : List Origin) (cur : Option Origin) (o : Origin)
    (h : os.foldl pickStep cur = some o) : o ∈ os ∨ cur = some o := by
  induction os generalizing cur with
  | nil => right; simpa using h
  | cons x os ih =>
    simp only [List.foldl_cons] at h
    rcases ih _ h with hin | hcur
    · left; exact List.mem_cons_of_mem _ hin
    · cases cur with
      | none => simp [pickStep] at hcur; left; simp [hcur]
      | some ex =>
        simp only [pickStep] at hcur
        split at hcur
        · right; exact hcur
        · left; simp at hcur; simp [hcur]

theorem pick_mem {os : List Origin} {o : Origin} (h : pick os = some o) : o ∈ os := by
  rcases foldl_pickStep_mem os none o h with h | h
  · exact h
  · cases h

theorem pick_isSome {os : List Origin} (h : os ≠ []) : ∃ o, pick os = some o := by
  cases os with
  | nil => exact absurd rfl h
  | cons x os => simpa [pick, pickStep] using foldl_pickStep_some os x

theorem keep_of_same_lineLoc {ex o : Origin} (h : ex.lineLoc = o.lineLoc) : keep ex o = true := by
  have hl : ex.line = o.line := by
    have := congrArg LineLoc.line h
    simpa [Origin.lineLoc] using this
  simp [keep, h, hl]

/-- First node wins among nodes that come from the same original line. -/
theorem pick_first (o : Origin) (os : List Origin) (h : ∀ o' ∈ os, o'.lineLoc = o.lineLoc) :
    pick (o :: os) = some o := by
  simp only [pick, List.foldl_cons, pickStep]
  induction os with
  | nil => rfl
  | cons x os ih =>
    have hx := h x (List.mem_cons_self)
    simp only [List.foldl_cons, pickStep, keep_of_same_lineLoc hx.symm, if_true]
    exact ih (fun o' ho' => h o' (List.mem_cons_of_mem _ ho'))

theorem mem_originsAt {items : List WalkItem} {k : LineLoc} {o : Origin} (h : o ∈ originsAt items k) :
    ∃ it ∈ items, it.key = some k ∧ it.origin = some o := by
  unfold originsAt at h
  rcases List.mem_filterMap.mp h with ⟨it, hit, hf⟩
  refine ⟨it, hit, ?_⟩
  by_cases hk : it.key = some k
  · simp [hk] at hf; exact ⟨hk, hf⟩
  · simp [hk] at hf

/-- The class predicate of known finding `C12-srcmap-foreign-key` (negation of `hkeys`), as evaluated by the driver. -/
def hasForeignKey (G : String) (items : List WalkItem) : Bool :=
  items.any fun it => match it.key, it.origin with
    | some k, some _ => decide (k.file ≠ G)
    | _, _ => false

theorem hasForeignKey_false_iff (G : String) (items : List WalkItem) :
    hasForeignKey G items = false ↔ ∀ it ∈ items, ∀ k, it.key = some k → it.origin ≠ none → k.file = G := by
  unfold hasForeignKey
  rw [List.any_eq_false]
  constructor
  · intro h it hit k hk ho
    have := h it hit
    cases hor : it.origin with
    | none => exact absurd hor ho
    | some o => simp [hk, hor] at this; exact this
  · intro h it hit
    cases hk : it.key with
    | none => simp
    | some k =>
      cases hor : it.origin with
      | none => simp
      | some o => simp; exact h it hit k hk (by simp [hor])

mutual
theorem copyOriginNode_all (o : Origin) : ∀ (n : ONode) (x : Option Origin), x ∈ allOrigins (copyOriginNode o n) → x = some o
  | .mk _ cs, x, hx => by
    simp only [copyOriginNode, allOrigins, List.mem_cons] at hx
    rcases hx with rfl | hx
    · rfl
    · exact copyOriginList_all o cs x hx
theorem copyOriginList_all (o : Origin) : ∀ (ns : List ONode) (x : Option Origin), x ∈ allOriginsList (copyOriginList o ns) → x = some o
  | [], x, hx => by simp [copyOriginList, allOriginsList] at hx
  | n :: ns, x, hx => by
    simp only [copyOriginList, allOriginsList, List.mem_append] at hx
    rcases hx with hx | hx
    · exact copyOriginNode_all o n x hx
    · exact copyOriginList_all o ns x hx
end

/-- Boolean form of the origin hypothesis of `C12_srcmap` for one walk item (used to exhibit instances). -/
def originOk (G U : String) (src : Nat → Nat) (it : WalkItem) : Bool :=
  match it.key, it.origin with
  | some k, some o => decide (k.file = G → o.file = U ∧ o.line = src k.line)
  | _, _ => true

theorem originOk_all {G U : String} {src : Nat → Nat} {items : List WalkItem}
    (h : items.all (originOk G U src) = true) :
    ∀ it ∈ items, ∀ k o, it.key = some k → it.origin = some o → k.file = G → o.file = U ∧ o.line = src k.line := by
  intro it hit k o hk ho hf
  have := List.all_eq_true.mp h it hit
  simp only [originOk, hk, ho, decide_eq_true_eq] at this
  exact this hf

end Malt.Errors
