import MaltModel.Conv.Contract
/-!
Helper lemmas for C03: soundness of the decision procedures of `Conv.Contract`, the sort used by
`Conv.BlockVars`, the store algebra of getter/setter.
-/
namespace Malt.Conv.Contract
open Malt Malt.Py Malt.Conv.ControlFlow

/-! ## Decision procedures are sound -/

theorem all3B_sound {α β γ : Type} {p : α → β → γ → Bool} {P : α → β → γ → Prop}
    (h : ∀ a b c, p a b c = true → P a b c) :
    ∀ (as : List α) (bs : List β) (cs : List γ), all3B p as bs cs = true → All3 P as bs cs
  | [], [], [], _ => .nil
  | a :: as, b :: bs, c :: cs, hh => by
      simp only [all3B, Bool.and_eq_true] at hh
      exact .cons (h _ _ _ hh.1) (all3B_sound h as bs cs hh.2)
  | [], _ :: _, _, hh => by simp [all3B] at hh
  | [], [], _ :: _, hh => by simp [all3B] at hh
  | _ :: _, [], _, hh => by simp [all3B] at hh
  | _ :: _, _ :: _, [], hh => by simp [all3B] at hh

theorem All3.lengths {α β γ : Type} {P : α → β → γ → Prop} {as : List α} {bs : List β} {cs : List γ}
    (h : All3 P as bs cs) : as.length = bs.length ∧ bs.length = cs.length := by
  induction h with
  | nil => exact ⟨rfl, rfl⟩
  | cons _ _ ih => simp [ih.1, ih.2]

theorem strConstB_sound {e : Expr} {s : String} (h : strConstB e = some s) : IsStrConst e s := by
  unfold strConstB at h
  split at h
  · rename_i i r
    split at h
    · rename_i hr
      simp only [Option.some.injEq] at h
      subst h
      exact ⟨i, by simp only [beq_iff_eq] at hr; rw [hr]⟩
    · cases h
  · cases h

theorem posOkB_sound {n g t : Expr} (h : posOkB n g t = true) : PosOk n g t := by
  unfold posOkB at h
  split at h
  · rename_i s en hs hg
    simp only [Bool.and_eq_true, beq_iff_eq, Bool.or_eq_true, Bool.not_eq_true'] at h
    obtain ⟨⟨⟨h1, h2⟩, h3⟩, h4⟩ := h
    refine ⟨s, en, strConstB_sound hs, hg, h1, h2, ?_, ?_⟩
    · intro hgd
      rcases h3 with h3 | h3
      · rw [hgd] at h3; cases h3
      · exact strConstB_sound h3
    · intro hc
      rcases h4 with h4 | h4
      · rw [hc] at h4; cases h4
      · exact h4
  · cases h

theorem lengthsB_sound {c : OpCall} (h : lengthsB c = true) : Lengths c := by
  unfold lengthsB at h
  split at h
  · rename_i gs ts hg ht
    simp only [Bool.and_eq_true, beq_iff_eq] at h
    exact ⟨gs, ts, hg, ht, h.1, h.2⟩
  · cases h

theorem positionsB_sound {c : OpCall} (h : positionsB c = true) : Positions c := by
  unfold positionsB at h
  split at h
  · rename_i gs ts hg ht
    exact ⟨gs, ts, hg, ht, all3B_sound (fun _ _ _ => posOkB_sound) _ _ _ h⟩
  · cases h

theorem nodupB_sound : ∀ (qs : List QN), nodupB qs = true → qs.Nodup
  | [], _ => List.nodup_nil
  | q :: qs, h => by
      simp only [nodupB, Bool.and_eq_true, Bool.not_eq_true', List.contains_eq_mem, decide_eq_false_iff_not] at h
      exact List.nodup_cons.mpr ⟨h.1, nodupB_sound qs h.2⟩

theorem distinctB_sound {c : OpCall} (h : distinctB c = true) : Distinct c := by
  unfold distinctB at h
  split at h
  · rename_i ts ht
    split at h
    · rename_i qs hq
      exact ⟨ts, qs, ht, hq, nodupB_sound qs h⟩
    · cases h
  · cases h

theorem arityB_sound {c : OpCall} (h : arityB c = true) : Arity c := by
  unfold arityB at h
  simp only [Bool.and_eq_true] at h
  obtain ⟨⟨⟨h1, h2⟩, h3⟩, h4⟩ := h
  refine ⟨h1, h2, h3, ?_⟩
  split <;> rename_i hs <;> rw [hs] at h4
  · exact h4
  · simpa using h4

theorem noutsB_sound {c : OpCall} (h : noutsB c = true) : Nouts c := by
  intro hk
  unfold noutsB at h
  rw [if_pos hk] at h
  split at h
  · rename_i k hk'
    exact ⟨k, hk', by simpa using h⟩
  · cases h

theorem getterPureB_sound {c : OpCall} (h : getterPureB c = true) : GetterPure c := by
  unfold getterPureB at h
  split at h
  · rename_i gs hg
    exact ⟨gs, hg, by simpa [List.all_eq_true] using h⟩
  · cases h

theorem setterDeclaresB_sound {c : OpCall} (h : setterDeclaresB c = true) : SetterDeclares c := by
  unfold setterDeclaresB at h
  split at h
  · rename_i ts hts
    refine ⟨ts, hts, ?_⟩
    intro t ht i s ctx heq hsimple
    subst heq
    have := List.all_eq_true.mp h _ ht
    simp only [hsimple, Bool.false_or, List.contains_eq_mem, decide_eq_true_eq] at this
    exact this
  · cases h

theorem callOkB_sound {c : OpCall} (h : callOkB c = true) : Good c := by
  unfold callOkB at h
  simp only [Bool.and_eq_true] at h
  obtain ⟨⟨⟨⟨⟨⟨h1, h2⟩, h3⟩, h4⟩, h5⟩, h6⟩, h7⟩ := h
  exact ⟨lengthsB_sound h1, positionsB_sound h2, arityB_sound h3, noutsB_sound h4, distinctB_sound h5,
    getterPureB_sound h6, setterDeclaresB_sound h7⟩

theorem contractOk_sound' {g : ParsedOutput} (h : contractOk g = true) :
    ∀ o ∈ emitted g, ∃ c, o = some c ∧ Good c := by
  intro o ho
  unfold contractOk at h
  rw [List.all_eq_true] at h
  have := h o ho
  cases o with
  | none => cases this
  | some c => exact ⟨c, rfl, callOkB_sound this⟩

end Malt.Conv.Contract
