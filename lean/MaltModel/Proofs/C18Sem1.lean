import MaltModel.Conv.AnfSpec
import MaltModel.Py.SemAnf
/- C18, semantics part 1: states, generated assignments, frame and context lemmas for fragment expressions. -/
set_option linter.unusedSimpArgs false
namespace Malt.Anf
open Malt.Py Malt.SemAnf

/-! ### states -/
theorem get_set (σ : St) (x y : String) (v : Val) : (σ.set x v).get y = if y = x then v else σ.get y := by
  simp [St.set, St.get, lookup]

theorem log_set (σ : St) (x : String) (v : Val) : (σ.set x v).log = σ.log := rfl
theorem get_emit (σ : St) (e : Event) (y : String) : (σ.emit e).get y = σ.get y := rfl
theorem log_emit (σ : St) (e : Event) : (σ.emit e).log = e :: σ.log := rfl

/-- Same effect log, same value for every name that is not a temporary. -/
def Agree (σ τ : St) : Prop := σ.log = τ.log ∧ ∀ x, isTempName x = false → σ.get x = τ.get x

theorem Agree.refl (σ : St) : Agree σ σ := ⟨rfl, fun _ _ => rfl⟩

theorem Agree.set_temp {σ τ : St} (h : Agree σ τ) {t : String} (ht : isTempName t = true) (v : Val) :
    Agree σ (τ.set t v) := by
  refine ⟨h.1, fun x hx => ?_⟩
  rw [get_set]
  split
  · next heq => subst heq; rw [ht] at hx; exact Bool.noConfusion hx
  · exact h.2 x hx

theorem Agree.set_both {σ τ : St} (h : Agree σ τ) (x : String) (v : Val) : Agree (σ.set x v) (τ.set x v) := by
  refine ⟨h.1, fun y hy => ?_⟩
  rw [get_set, get_set]
  split
  · rfl
  · exact h.2 y hy

theorem Agree.emit_both {σ τ : St} (h : Agree σ τ) (e : Event) : Agree (σ.emit e) (τ.emit e) :=
  ⟨by simp [log_emit, h.1], fun y hy => h.2 y hy⟩

/-! ### fragment expressions are not `*`/`k=` wrappers -/
theorem frag_not_starred {e : Expr} (h : fragE e = true) : ∀ (id : Nat) (v : Expr) (c : Ctx), e = .starred id v c → False := by
  intro id v c he; subst he; simp [fragE] at h

theorem frag_not_keyword {e : Expr} (h : fragE e = true) :
    ∀ (id : Nat) (a : String) (has : Bool) (v : Expr), e = .keyword id a has v → False := by
  intro id a has v he; subst he; simp [fragE] at h

theorem evalArgs_cons_frag (O : Oracle) {e : Expr} (h : fragE e = true) (es : List Expr) (σ : St) :
    evalArgs O (e :: es) σ =
      match evalE O e σ with
      | (.ok x, σ1) => consArg (.pos x) (evalArgs O es σ1)
      | (.error x, σ1) => (.error x, σ1) :=
  evalArgs.eq_4 O σ e es (frag_not_starred h) (frag_not_keyword h)

mutual
theorem frag_adjust : ∀ (e : Expr) (ov : Option Ctx), fragE (adjustCtx ov e) = fragE e
  | .name .., ov => by simp [adjustCtx, fragE]
  | .const .., ov => by simp [adjustCtx, fragE]
  | .attr i v a c, ov => by simp [adjustCtx, fragE, frag_adjust v]
  | .subscript i v s c, ov => by simp [adjustCtx, fragE, frag_adjust v, frag_adjust s]
  | .call i f as ks, ov => by
      simp [adjustCtx, fragE, frag_adjust f, frags_adjust as]
      cases ks <;> simp [adjustCtxs]
  | .unary i op e, ov => by simp [adjustCtx, fragE, frag_adjust e]
  | .binop i op l r, ov => by simp [adjustCtx, fragE, frag_adjust l, frag_adjust r]
  | .compare i l ops rs, ov => by
      simp [adjustCtx, fragE, frag_adjust l, frags_adjust rs, adjustCtxs_length]
  | .seq i .set es c, ov => by simp [adjustCtx, fragE, frags_adjust es]
  | .seq i .tuple es c, ov => by simp [adjustCtx, fragE, frags_adjust es]
  | .seq i .list es c, ov => by simp [adjustCtx, fragE, frags_adjust es]
  | .namedexpr i t v, ov => by
      cases t with
      | seq j k es c => cases k <;> simp [adjustCtx, fragE]
      | other j k ats ks => by_cases hk : k = "Dict" <;> simp [adjustCtx, fragE, hk]
      | _ => simp [adjustCtx, fragE, frag_adjust v]
  | .keyword .., ov => by simp [adjustCtx, fragE]
  | .boolop .., ov => by simp [adjustCtx, fragE]
  | .ifexp .., ov => by simp [adjustCtx, fragE]
  | .lambda .., ov => by simp [adjustCtx, fragE]
  | .starred .., ov => by simp [adjustCtx, fragE]
  | .comp .., ov => by simp [adjustCtx, fragE]
  | .comprehension .., ov => by simp [adjustCtx, fragE]
  | .arguments .., ov => by simp [adjustCtx, fragE]
  | .arg .., ov => by simp [adjustCtx, fragE]
  | .withitem .., ov => by simp [adjustCtx, fragE]
  | .noneMarker, ov => by simp [adjustCtx, fragE]
  | .other i k ats ks, ov => by
      by_cases hk : k = "Dict" <;> simp [adjustCtx, fragE, hk]
theorem frags_adjust : ∀ (es : List Expr) (ov : Option Ctx), fragEs (adjustCtxs ov es) = fragEs es
  | [], ov => by simp [adjustCtxs, fragEs]
  | e :: es, ov => by simp [adjustCtxs, fragEs, frag_adjust e, frags_adjust es]
theorem adjustCtxs_length : ∀ (es : List Expr) (ov : Option Ctx), (adjustCtxs ov es).length = es.length
  | [], ov => by simp [adjustCtxs]
  | e :: es, ov => by simp [adjustCtxs, adjustCtxs_length es]
end

/-! ### evaluation ignores expression contexts -/
mutual
theorem evalE_adjust (O : Oracle) : ∀ (e : Expr) (ov : Option Ctx) (σ : St), fragE e = true →
    evalE O (adjustCtx ov e) σ = evalE O e σ
  | .name .., ov, σ, _ => by simp [adjustCtx, evalE]
  | .const .., ov, σ, _ => by simp [adjustCtx, evalE]
  | .attr i v a c, ov, σ, h => by
      simp only [fragE] at h
      simp [adjustCtx, evalE, evalE_adjust O v _ _ h]
  | .subscript i v s c, ov, σ, h => by
      simp only [fragE, Bool.and_eq_true] at h
      simp only [adjustCtx, evalE, evalE_adjust O v _ _ h.1]
      cases evalE O v σ with
      | mk r σ1 => cases r <;> simp [evalE_adjust O s _ _ h.2]
  | .call i f as ks, ov, σ, h => by
      simp only [fragE, Bool.and_eq_true, List.isEmpty_iff] at h
      obtain ⟨⟨hf, ha⟩, rfl⟩ := h
      simp only [adjustCtx, adjustCtxs, evalE, evalE_adjust O f _ _ hf]
      cases evalE O f σ with
      | mk r σ1 => cases r <;> simp [evalArgs_adjust O as _ _ ha]
  | .unary i op e, ov, σ, h => by
      simp only [fragE] at h
      simp [adjustCtx, evalE, evalE_adjust O e _ _ h]
  | .binop i op l r, ov, σ, h => by
      simp only [fragE, Bool.and_eq_true] at h
      simp only [adjustCtx, evalE, evalE_adjust O l _ _ h.1]
      cases evalE O l σ with
      | mk r1 σ1 => cases r1 <;> simp [evalE_adjust O r _ _ h.2]
  | .compare i l ops rs, ov, σ, h => by
      simp only [fragE, Bool.and_eq_true] at h
      obtain ⟨⟨⟨hl, hrs⟩, -⟩, -⟩ := h
      simp only [adjustCtx, evalE, evalE_adjust O l _ _ hl]
      cases evalE O l σ with
      | mk r1 σ1 => cases r1 <;> simp [evalCmp_adjust O rs _ _ _ _ hrs]
  | .seq i .set es c, ov, σ, h => by
      simp only [fragE] at h
      simp [adjustCtx, evalE, evalArgs_adjust O es _ _ h]
  | .seq i .tuple es c, ov, σ, h => by
      simp only [fragE] at h
      simp [adjustCtx, evalE, evalArgs_adjust O es _ _ h]
  | .seq i .list es c, ov, σ, h => by
      simp only [fragE] at h
      simp [adjustCtx, evalE, evalArgs_adjust O es _ _ h]
  | .namedexpr i (.name j s c) v, ov, σ, h => by
      simp only [fragE] at h
      simp [adjustCtx, evalE, evalE_adjust O v _ _ h]
  | .namedexpr _ (.const ..) _, _, _, h | .namedexpr _ (.attr ..) _, _, _, h | .namedexpr _ (.subscript ..) _, _, _, h
  | .namedexpr _ (.call ..) _, _, _, h | .namedexpr _ (.keyword ..) _, _, _, h | .namedexpr _ (.boolop ..) _, _, _, h
  | .namedexpr _ (.unary ..) _, _, _, h | .namedexpr _ (.binop ..) _, _, _, h | .namedexpr _ (.compare ..) _, _, _, h
  | .namedexpr _ (.ifexp ..) _, _, _, h | .namedexpr _ (.lambda ..) _, _, _, h | .namedexpr _ (.seq ..) _, _, _, h
  | .namedexpr _ (.starred ..) _, _, _, h | .namedexpr _ (.namedexpr ..) _, _, _, h | .namedexpr _ (.comp ..) _, _, _, h
  | .namedexpr _ (.comprehension ..) _, _, _, h | .namedexpr _ (.arguments ..) _, _, _, h | .namedexpr _ (.arg ..) _, _, _, h
  | .namedexpr _ (.withitem ..) _, _, _, h | .namedexpr _ .noneMarker _, _, _, h | .namedexpr _ (.other ..) _, _, _, h
  | .keyword .., _, _, h | .boolop .., _, _, h | .ifexp .., _, _, h | .lambda .., _, _, h | .starred .., _, _, h
  | .comp .., _, _, h | .comprehension .., _, _, h | .arguments .., _, _, h | .arg .., _, _, h | .withitem .., _, _, h
  | .noneMarker, _, _, h | .other .., _, _, h => by simp [fragE] at h
theorem evalArgs_adjust (O : Oracle) : ∀ (es : List Expr) (ov : Option Ctx) (σ : St), fragEs es = true →
    evalArgs O (adjustCtxs ov es) σ = evalArgs O es σ
  | [], ov, σ, _ => by simp [adjustCtxs, evalArgs]
  | e :: es, ov, σ, h => by
      simp only [fragEs, Bool.and_eq_true] at h
      rw [adjustCtxs, evalArgs_cons_frag O ((frag_adjust e ov).trans h.1), evalArgs_cons_frag O h.1,
        evalE_adjust O e _ _ h.1]
      cases evalE O e σ with
      | mk r1 σ1 => cases r1 <;> simp [evalArgs_adjust O es _ _ h.2]
theorem evalCmp_adjust (O : Oracle) : ∀ (rs : List Expr) (ov : Option Ctx) (x : Val) (ops : List String) (σ : St),
    fragEs rs = true → evalCmp O x ops (adjustCtxs ov rs) σ = evalCmp O x ops rs σ
  | [], ov, x, ops, σ, _ => by cases ops <;> simp [adjustCtxs, evalCmp]
  | r :: rs, ov, x, ops, σ, h => by
      simp only [fragEs, Bool.and_eq_true] at h
      cases ops with
      | nil => simp [adjustCtxs, evalCmp]
      | cons op ops =>
        simp only [adjustCtxs, evalCmp, evalE_adjust O r _ _ h.1]
        cases evalE O r σ with
        | mk r1 σ1 => cases r1 <;> simp [evalCmp_adjust O rs _ _ _ _ h.2]
end

end Malt.Anf
