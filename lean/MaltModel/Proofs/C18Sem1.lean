import MaltModel.Conv.AnfSpec
import MaltModel.Py.SemAnf
/- C18, semantics part 1: states, generated assignments, frame and context lemmas for fragment expressions. -/
set_option linter.unusedSimpArgs false
namespace Malt.Anf
open Malt.Py Malt.SemAnf

/-! ### states -/
theorem get_set (σ : St) (x y : String) (v : Val) : (σ.set x v).get y = if y = x then v else σ.get y := by
  simp [St.set, St.get, lookup]

theorem log_set (σ : St) (x : String) (v : Val) : (σ.set x v).log = σ.log := rfl
theorem get_emit (σ : St) (e : Event) (y : String) : (σ.emit e).get y = σ.get y := rfl
theorem log_emit (σ : St) (e : Event) : (σ.emit e).log = e :: σ.log := rfl

/-- Same effect log, same value for every name that is not a temporary. -/
def Agree (σ τ : St) : Prop := σ.log = τ.log ∧ ∀ x, isTempName x = false → σ.get x = τ.get x

theorem Agree.refl (σ : St) : Agree σ σ := ⟨rfl, fun _ _ => rfl⟩

theorem Agree.set_temp {σ τ : St} (h : Agree σ τ) {t : String} (ht : isTempName t = true) (v : Val) :
    Agree σ (τ.set t v) := by
  refine ⟨h.1, fun x hx => ?_⟩
  rw [get_set]
  split
  · next heq => subst heq; rw [ht] at hx; exact Bool.noConfusion hx
  · exact h.2 x hx

theorem Agree.set_both {σ τ : St} (h : Agree σ τ) (x : String) (v : Val) : Agree (σ.set x v) (τ.set x v) := by
  refine ⟨h.1, fun y hy => ?_⟩
  rw [get_set, get_set]
  split
  · rfl
  · exact h.2 y hy

theorem Agree.emit_both {σ τ : St} (h : Agree σ τ) (e : Event) : Agree (σ.emit e) (τ.emit e) :=
  ⟨by simp [log_emit, h.1], fun y hy => h.2 y hy⟩

/-! ### fragment expressions are not `*`/`k=` wrappers -/
theorem frag_not_starred {e : Expr} (h : fragE e = true) : ∀ (id : Nat) (v : Expr) (c : Ctx), e = .starred id v c → False := by
  intro id v c he; subst he; simp [fragE] at h

theorem frag_not_keyword {e : Expr} (h : fragE e = true) :
    ∀ (id : Nat) (a : String) (has : Bool) (v : Expr), e = .keyword id a has v → False := by
  intro id a has v he; subst he; simp [fragE] at h

theorem evalArgs_cons_frag (O : Oracle) {e : Expr} (h : fragE e = true) (es : List Expr) (σ : St) :
    evalArgs O (e :: es) σ =
      match evalE O e σ with
      | (.ok x, σ1) => consArg (.pos x) (evalArgs O es σ1)
      | (.error x, σ1) => (.error x, σ1) :=
  evalArgs.eq_4 O σ e es (frag_not_starred h) (frag_not_keyword h)

/-- closes goals with `h : fragE <non-fragment node> = true` -/
macro "notfrag" h:ident : tactic => `(tactic| (simp [fragE] at $h:ident))

mutual
theorem frag_adjust_nw : ∀ (e : Expr) (ov : Option Ctx), noWalrus e = true → fragE e = true →
    fragE (adjustCtx ov e) = true ∧ noWalrus (adjustCtx ov e) = true
  | .name .., ov, _, _ => by simp [adjustCtx, fragE, noWalrus]
  | .const .., ov, _, _ => by simp [adjustCtx, fragE, noWalrus]
  | .attr i v a c, ov, hn, hf => by
      simp only [noWalrus] at hn
      simp only [fragE, Bool.and_eq_true] at hf
      have := frag_adjust_nw v (some .load) hn hf.1
      simp [adjustCtx, fragE, noWalrus, this.1, this.2]
  | .subscript i v s c, ov, hn, hf => by
      simp only [noWalrus, Bool.and_eq_true] at hn
      simp only [fragE, Bool.and_eq_true] at hf
      have h1 := frag_adjust_nw v (some .load) hn.1 hf.1.1.1
      have h2 := frag_adjust_nw s (some .load) hn.2 hf.1.1.2
      simp [adjustCtx, fragE, noWalrus, h1.1, h1.2, h2.1, h2.2]
  | .call i f as ks, ov, hn, hf => by
      simp only [noWalrus, Bool.and_eq_true] at hn
      simp only [fragE, Bool.and_eq_true, List.isEmpty_iff] at hf
      obtain ⟨⟨hff, hfa⟩, rfl⟩ := hf
      have h1 := frag_adjust_nw f none hn.1.1 hff
      have h2 := frags_adjust_nw as none hn.1.2 hfa
      simp [adjustCtx, adjustCtxs, fragE, noWalrus, noWalruss, h1.1, h1.2, h2.1, h2.2]
  | .unary i op e, ov, hn, hf => by
      simp only [noWalrus] at hn
      simp only [fragE] at hf
      have := frag_adjust_nw e ov hn hf
      simp [adjustCtx, fragE, noWalrus, this.1, this.2]
  | .binop i op l r, ov, hn, hf => by
      simp only [noWalrus, Bool.and_eq_true] at hn
      simp only [fragE, Bool.and_eq_true] at hf
      have h1 := frag_adjust_nw l ov hn.1 hf.1
      have h2 := frag_adjust_nw r ov hn.2 hf.2
      simp [adjustCtx, fragE, noWalrus, h1.1, h1.2, h2.1, h2.2]
  | .compare i l ops rs, ov, hn, hf => by
      simp only [noWalrus, Bool.and_eq_true] at hn
      simp only [fragE, Bool.and_eq_true] at hf
      obtain ⟨⟨⟨hl, hrs⟩, hops⟩, hlen⟩ := hf
      have h1 := frag_adjust_nw l ov hn.1 hl
      have h2 := frags_adjust_nw rs ov hn.2 hrs
      simp [adjustCtx, fragE, noWalrus, h1.1, h1.2, h2.1, h2.2, hops, adjustCtxs_length, hlen]
  | .seq i .set es c, ov, hn, hf => by
      simp only [noWalrus] at hn
      simp only [fragE, Bool.and_eq_true] at hf
      have h2 := frags_adjust_nw es ov hn hf.1
      simp [adjustCtx, fragE, noWalrus, h2.1, h2.2]
  | .seq i .tuple es c, ov, hn, hf => by
      simp only [noWalrus] at hn
      simp only [fragE, Bool.and_eq_true] at hf
      have h2 := frags_adjust_nw es ov hn hf.1
      simp [adjustCtx, fragE, noWalrus, h2.1, h2.2]
  | .seq i .list es c, ov, hn, hf => by
      simp only [noWalrus] at hn
      simp only [fragE, Bool.and_eq_true] at hf
      have h2 := frags_adjust_nw es ov hn hf.1
      simp [adjustCtx, fragE, noWalrus, h2.1, h2.2]
  | .namedexpr .., _, hn, _ => by simp [noWalrus] at hn
  | .keyword .., _, _, h | .boolop .., _, _, h | .ifexp .., _, _, h | .lambda .., _, _, h | .starred .., _, _, h
  | .comp .., _, _, h | .comprehension .., _, _, h | .arguments .., _, _, h | .arg .., _, _, h | .withitem .., _, _, h
  | .noneMarker, _, _, h | .other .., _, _, h => by notfrag h
theorem frags_adjust_nw : ∀ (es : List Expr) (ov : Option Ctx), noWalruss es = true → fragEs es = true →
    fragEs (adjustCtxs ov es) = true ∧ noWalruss (adjustCtxs ov es) = true
  | [], ov, _, _ => by simp [adjustCtxs, fragEs, noWalruss]
  | e :: es, ov, hn, hf => by
      simp only [noWalruss, Bool.and_eq_true] at hn
      simp only [fragEs, Bool.and_eq_true] at hf
      have h1 := frag_adjust_nw e ov hn.1 hf.1
      have h2 := frags_adjust_nw es ov hn.2 hf.2
      simp [adjustCtxs, fragEs, noWalruss, h1.1, h1.2, h2.1, h2.2]
theorem adjustCtxs_length : ∀ (es : List Expr) (ov : Option Ctx), (adjustCtxs ov es).length = es.length
  | [], ov => by simp [adjustCtxs]
  | e :: es, ov => by simp [adjustCtxs, adjustCtxs_length es]
end

/-! ### evaluation of `:=`-free expressions ignores expression contexts -/
mutual
theorem evalE_adjust (O : Oracle) : ∀ (e : Expr) (ov : Option Ctx) (σ : St), noWalrus e = true → fragE e = true →
    evalE O (adjustCtx ov e) σ = evalE O e σ
  | .name .., ov, σ, _, _ => by simp [adjustCtx, evalE]
  | .const .., ov, σ, _, _ => by simp [adjustCtx, evalE]
  | .attr i v a c, ov, σ, hn, h => by
      simp only [noWalrus] at hn
      simp only [fragE, Bool.and_eq_true] at h
      simp [adjustCtx, evalE, evalE_adjust O v _ _ hn h.1]
  | .subscript i v s c, ov, σ, hn, h => by
      simp only [noWalrus, Bool.and_eq_true] at hn
      simp only [fragE, Bool.and_eq_true] at h
      simp only [adjustCtx, evalE, evalE_adjust O v _ _ hn.1 h.1.1.1]
      cases evalE O v σ with
      | mk r σ1 => cases r <;> simp [evalE_adjust O s _ _ hn.2 h.1.1.2]
  | .call i f as ks, ov, σ, hn, h => by
      simp only [noWalrus, Bool.and_eq_true] at hn
      simp only [fragE, Bool.and_eq_true, List.isEmpty_iff] at h
      obtain ⟨⟨hf, ha⟩, rfl⟩ := h
      simp only [adjustCtx, adjustCtxs, evalE, evalE_adjust O f _ _ hn.1.1 hf]
      cases evalE O f σ with
      | mk r σ1 => cases r <;> simp [evalArgs_adjust O as _ _ hn.1.2 ha]
  | .unary i op e, ov, σ, hn, h => by
      simp only [noWalrus] at hn
      simp only [fragE] at h
      simp [adjustCtx, evalE, evalE_adjust O e _ _ hn h]
  | .binop i op l r, ov, σ, hn, h => by
      simp only [noWalrus, Bool.and_eq_true] at hn
      simp only [fragE, Bool.and_eq_true] at h
      simp only [adjustCtx, evalE, evalE_adjust O l _ _ hn.1 h.1]
      cases evalE O l σ with
      | mk r1 σ1 => cases r1 <;> simp [evalE_adjust O r _ _ hn.2 h.2]
  | .compare i l ops rs, ov, σ, hn, h => by
      simp only [noWalrus, Bool.and_eq_true] at hn
      simp only [fragE, Bool.and_eq_true] at h
      obtain ⟨⟨⟨hl, hrs⟩, -⟩, -⟩ := h
      simp only [adjustCtx, evalE, evalE_adjust O l _ _ hn.1 hl]
      cases evalE O l σ with
      | mk r1 σ1 => cases r1 <;> simp [evalCmp_adjust O rs _ _ _ _ hn.2 hrs]
  | .seq i .set es c, ov, σ, hn, h => by
      simp only [noWalrus] at hn
      simp only [fragE, Bool.and_eq_true] at h
      simp [adjustCtx, evalE, evalArgs_adjust O es _ _ hn h.1]
  | .seq i .tuple es c, ov, σ, hn, h => by
      simp only [noWalrus] at hn
      simp only [fragE, Bool.and_eq_true] at h
      simp [adjustCtx, evalE, evalArgs_adjust O es _ _ hn h.1]
  | .seq i .list es c, ov, σ, hn, h => by
      simp only [noWalrus] at hn
      simp only [fragE, Bool.and_eq_true] at h
      simp [adjustCtx, evalE, evalArgs_adjust O es _ _ hn h.1]
  | .namedexpr .., _, _, hn, _ => by simp [noWalrus] at hn
  | .keyword .., _, _, _, h | .boolop .., _, _, _, h | .ifexp .., _, _, _, h | .lambda .., _, _, _, h
  | .starred .., _, _, _, h | .comp .., _, _, _, h | .comprehension .., _, _, _, h | .arguments .., _, _, _, h
  | .arg .., _, _, _, h | .withitem .., _, _, _, h | .noneMarker, _, _, _, h | .other .., _, _, _, h => by notfrag h
theorem evalArgs_adjust (O : Oracle) : ∀ (es : List Expr) (ov : Option Ctx) (σ : St), noWalruss es = true →
    fragEs es = true → evalArgs O (adjustCtxs ov es) σ = evalArgs O es σ
  | [], ov, σ, _, _ => by simp [adjustCtxs, evalArgs]
  | e :: es, ov, σ, hn, h => by
      simp only [noWalruss, Bool.and_eq_true] at hn
      simp only [fragEs, Bool.and_eq_true] at h
      rw [adjustCtxs, evalArgs_cons_frag O (frag_adjust_nw e ov hn.1 h.1).1, evalArgs_cons_frag O h.1,
        evalE_adjust O e _ _ hn.1 h.1]
      cases evalE O e σ with
      | mk r1 σ1 => cases r1 <;> simp [evalArgs_adjust O es _ _ hn.2 h.2]
theorem evalCmp_adjust (O : Oracle) : ∀ (rs : List Expr) (ov : Option Ctx) (x : Val) (ops : List String) (σ : St),
    noWalruss rs = true → fragEs rs = true → evalCmp O x ops (adjustCtxs ov rs) σ = evalCmp O x ops rs σ
  | [], ov, x, ops, σ, _, _ => by cases ops <;> simp [adjustCtxs, evalCmp]
  | r :: rs, ov, x, ops, σ, hn, h => by
      simp only [noWalruss, Bool.and_eq_true] at hn
      simp only [fragEs, Bool.and_eq_true] at h
      cases ops with
      | nil => simp [adjustCtxs, evalCmp]
      | cons op ops =>
        simp only [adjustCtxs, evalCmp, evalE_adjust O r _ _ hn.1 h.1]
        cases evalE O r σ with
        | mk r1 σ1 => cases r1 <;> simp [evalCmp_adjust O rs _ _ _ _ hn.2 h.2]
end

/-- an expression of the fragment that carries a context contains no `:=` -/
theorem frag_hasCtx_nw {x : Expr} (hf : fragE x = true) (hc : hasCtx x = true) : noWalrus x = true := by
  cases x <;> simp [hasCtx] at hc <;> simp [fragE] at hf
  · simp [noWalrus]
  · simp [noWalrus, hf.2]
  · simp [noWalrus, hf.1.2, hf.2]
  · simp [noWalrus, hf.2]

end Malt.Anf

namespace Malt.Anf
open Malt.Py Malt.SemAnf

/-! ### frame: evaluation only rebinds the targets of `:=` -/
theorem consArg_snd_get (a : Arg) (r : ER (List Arg)) : (consArg a r).2 = r.2 := by
  unfold consArg; rcases r with ⟨r1, σ⟩; cases r1 <;> rfl

theorem doCall_get (O : Oracle) (f : Val) (as : List Arg) (σ : St) (y : String) :
    (doCall O f as σ).2.get y = σ.get y := by
  unfold doCall
  split <;> simp [get_emit]

mutual
theorem evalE_frame (O : Oracle) : ∀ (e : Expr) (σ : St) (y : String), fragE e = true → y ∉ writesE e →
    (evalE O e σ).2.get y = σ.get y
  | .name .., σ, y, _, _ => by simp [evalE]
  | .const .., σ, y, _, _ => by simp [evalE]
  | .attr i v a c, σ, y, h, hy => by
      simp only [fragE, Bool.and_eq_true] at h
      simp only [writesE] at hy
      have := evalE_frame O v σ y h.1 hy
      simp only [evalE]
      rcases hv : evalE O v σ with ⟨r, σ1⟩
      rw [hv] at this
      cases r <;> simpa using this
  | .subscript i v s c, σ, y, h, hy => by
      simp only [fragE, Bool.and_eq_true] at h
      simp only [writesE, List.mem_append, not_or] at hy
      have h1 := evalE_frame O v σ y h.1.1.1 hy.1
      simp only [evalE]
      rcases hv : evalE O v σ with ⟨r, σ1⟩
      rw [hv] at h1
      cases r with
      | error x => simpa using h1
      | ok x =>
        have h2 := evalE_frame O s σ1 y h.1.1.2 hy.2
        simp only
        rcases hs : evalE O s σ1 with ⟨r2, σ2⟩
        rw [hs] at h2
        cases r2 <;> simp at h2 ⊢ <;> rw [h2] <;> simpa using h1
  | .call i f as ks, σ, y, h, hy => by
      simp only [fragE, Bool.and_eq_true, List.isEmpty_iff] at h
      obtain ⟨⟨hf, ha⟩, rfl⟩ := h
      simp only [writesE, writesEs, List.append_nil, List.mem_append, not_or] at hy
      have h1 := evalE_frame O f σ y hf hy.1
      simp only [evalE]
      rcases hv : evalE O f σ with ⟨r, σ1⟩
      rw [hv] at h1
      cases r with
      | error x => simpa using h1
      | ok fv =>
        have h2 := evalArgs_frame O as σ1 y ha hy.2
        simp only
        rcases hs : evalArgs O as σ1 with ⟨r2, σ2⟩
        rw [hs] at h2
        cases r2 with
        | error x => simp at h2 ⊢; rw [h2]; simpa using h1
        | ok avs =>
          simp only [evalArgs]
          simp at h2 ⊢
          rw [doCall_get, h2]; simpa using h1
  | .unary i op e, σ, y, h, hy => by
      simp only [fragE] at h
      simp only [writesE] at hy
      have := evalE_frame O e σ y h hy
      simp only [evalE]
      rcases hv : evalE O e σ with ⟨r, σ1⟩
      rw [hv] at this
      cases r <;> simpa using this
  | .binop i op l r, σ, y, h, hy => by
      simp only [fragE, Bool.and_eq_true] at h
      simp only [writesE, List.mem_append, not_or] at hy
      have h1 := evalE_frame O l σ y h.1 hy.1
      simp only [evalE]
      rcases hv : evalE O l σ with ⟨r1, σ1⟩
      rw [hv] at h1
      cases r1 with
      | error x => simpa using h1
      | ok x =>
        have h2 := evalE_frame O r σ1 y h.2 hy.2
        simp only
        rcases hs : evalE O r σ1 with ⟨r2, σ2⟩
        rw [hs] at h2
        cases r2 <;> simp at h2 ⊢ <;> rw [h2] <;> simpa using h1
  | .compare i l ops rs, σ, y, h, hy => by
      simp only [fragE, Bool.and_eq_true] at h
      obtain ⟨⟨⟨hl, hrs⟩, -⟩, -⟩ := h
      simp only [writesE, List.mem_append, not_or] at hy
      have h1 := evalE_frame O l σ y hl hy.1
      simp only [evalE]
      rcases hv : evalE O l σ with ⟨r1, σ1⟩
      rw [hv] at h1
      cases r1 with
      | error x => simpa using h1
      | ok x =>
        simp only
        rw [evalCmp_frame O rs x ops σ1 y hrs hy.2]; simpa using h1
  | .seq i k es c, σ, y, h, hy => by
      simp only [fragE, Bool.and_eq_true] at h
      simp only [writesE] at hy
      have h2 := evalArgs_frame O es σ y h.1 hy
      simp only [evalE]
      rcases hs : evalArgs O es σ with ⟨r2, σ2⟩
      rw [hs] at h2
      cases r2 with
      | error x => simpa using h2
      | ok avs =>
        simp only
        split <;> simpa using h2
  | .namedexpr i (.name j s .store) v, σ, y, h, hy => by
      simp only [fragE] at h
      simp only [writesE, namesE, List.mem_append, List.mem_singleton, not_or] at hy
      have h1 := evalE_frame O v σ y h hy.2
      simp only [evalE]
      rcases hv : evalE O v σ with ⟨r1, σ1⟩
      rw [hv] at h1
      cases r1 with
      | error x => simpa using h1
      | ok x =>
        simp only [get_set, if_neg hy.1]; simpa using h1
  | .namedexpr _ (.name _ _ .load) _, _, _, h, _ | .namedexpr _ (.name _ _ .del) _, _, _, h, _
  | .namedexpr _ (.const ..) _, _, _, h, _ | .namedexpr _ (.attr ..) _, _, _, h, _ | .namedexpr _ (.subscript ..) _, _, _, h, _
  | .namedexpr _ (.call ..) _, _, _, h, _ | .namedexpr _ (.keyword ..) _, _, _, h, _ | .namedexpr _ (.boolop ..) _, _, _, h, _
  | .namedexpr _ (.unary ..) _, _, _, h, _ | .namedexpr _ (.binop ..) _, _, _, h, _ | .namedexpr _ (.compare ..) _, _, _, h, _
  | .namedexpr _ (.ifexp ..) _, _, _, h, _ | .namedexpr _ (.lambda ..) _, _, _, h, _ | .namedexpr _ (.seq ..) _, _, _, h, _
  | .namedexpr _ (.starred ..) _, _, _, h, _ | .namedexpr _ (.namedexpr ..) _, _, _, h, _ | .namedexpr _ (.comp ..) _, _, _, h, _
  | .namedexpr _ (.comprehension ..) _, _, _, h, _ | .namedexpr _ (.arguments ..) _, _, _, h, _ | .namedexpr _ (.arg ..) _, _, _, h, _
  | .namedexpr _ (.withitem ..) _, _, _, h, _ | .namedexpr _ .noneMarker _, _, _, h, _ | .namedexpr _ (.other ..) _, _, _, h, _
  | .keyword .., _, _, h, _ | .boolop .., _, _, h, _ | .ifexp .., _, _, h, _ | .lambda .., _, _, h, _ | .starred .., _, _, h, _
  | .comp .., _, _, h, _ | .comprehension .., _, _, h, _ | .arguments .., _, _, h, _ | .arg .., _, _, h, _
  | .withitem .., _, _, h, _ | .noneMarker, _, _, h, _ | .other .., _, _, h, _ => by simp [fragE] at h
theorem evalArgs_frame (O : Oracle) : ∀ (es : List Expr) (σ : St) (y : String), fragEs es = true → y ∉ writesEs es →
    (evalArgs O es σ).2.get y = σ.get y
  | [], σ, y, _, _ => by simp [evalArgs]
  | e :: es, σ, y, h, hy => by
      simp only [fragEs, Bool.and_eq_true] at h
      simp only [writesEs, List.mem_append, not_or] at hy
      rw [evalArgs_cons_frag O h.1]
      have h1 := evalE_frame O e σ y h.1 hy.1
      rcases hv : evalE O e σ with ⟨r1, σ1⟩
      rw [hv] at h1
      cases r1 with
      | error x => simpa using h1
      | ok x =>
        simp only [consArg_snd_get]
        rw [evalArgs_frame O es σ1 y h.2 hy.2]; simpa using h1
theorem evalCmp_frame (O : Oracle) : ∀ (rs : List Expr) (x : Val) (ops : List String) (σ : St) (y : String),
    fragEs rs = true → y ∉ writesEs rs → (evalCmp O x ops rs σ).2.get y = σ.get y
  | [], x, ops, σ, y, _, _ => by cases ops <;> simp [evalCmp]
  | r :: rs, x, ops, σ, y, h, hy => by
      simp only [fragEs, Bool.and_eq_true] at h
      simp only [writesEs, List.mem_append, not_or] at hy
      cases ops with
      | nil => simp [evalCmp]
      | cons op ops =>
        simp only [evalCmp]
        have h1 := evalE_frame O r σ y h.1 hy.1
        rcases hv : evalE O r σ with ⟨r1, σ1⟩
        rw [hv] at h1
        cases r1 with
        | error x => simpa using h1
        | ok v =>
          simp only
          cases ops with
          | nil => simpa using h1
          | cons op2 ops2 =>
            simp only
            split
            · rw [evalCmp_frame O rs _ _ σ1 y h.2 hy.2]; simpa using h1
            · simpa using h1
end

end Malt.Anf
