import MaltModel.Rt.Builtins
/-! General lemmas about the `_find_originating_frame` loop (`findLoop`). -/
namespace Malt.Builtins

/-- Frames that do not hold the scope object are skipped. -/
theorem findLoop_skip (name : String) (id : Nat) (inn : Bool) :
    ∀ (l : List Frame) (i : Nat) (res : Option Nat), (∀ f ∈ l, f.holds name id = false) →
      findLoop name id inn l i res = res := by
  intro l
  induction l with
  | nil => intro i res _; rfl
  | cons f r ih =>
    intro i res h
    have hf := h f (List.mem_cons_self ..)
    simp only [findLoop, hf, Bool.false_eq_true, if_false]
    exact ih _ _ (fun g hg => h g (List.mem_cons_of_mem _ hg))

/-- `innermost=True`: the first frame (from the current one outwards) holding the scope object. -/
theorem findLoop_innermost (name : String) (id : Nat) (fr : Frame) (rest : List Frame)
    (hfr : fr.holds name id = true) :
    ∀ (lib : List Frame) (i : Nat) (res : Option Nat), (∀ f ∈ lib, f.holds name id = false) →
      findLoop name id true (lib ++ fr :: rest) i res = some (i + lib.length) := by
  intro lib
  induction lib with
  | nil => intro i res _; simp [findLoop, hfr]
  | cons f r ih =>
    intro i res h
    have hf := h f (List.mem_cons_self ..)
    simp only [List.cons_append, findLoop, hf, Bool.false_eq_true, if_false, List.length_cons]
    rw [ih (i + 1) res (fun g hg => h g (List.mem_cons_of_mem _ hg))]
    congr 1; omega

/-- `innermost=False`: the last frame holding the scope object. -/
theorem findLoop_outermost (name : String) (id : Nat) (fr : Frame) (outer : List Frame)
    (hfr : fr.holds name id = true) (hout : ∀ f ∈ outer, f.holds name id = false) :
    ∀ (pre : List Frame) (i : Nat) (res : Option Nat),
      findLoop name id false (pre ++ fr :: outer) i res = some (i + pre.length) := by
  intro pre
  induction pre with
  | nil =>
    intro i res
    simp only [List.nil_append, findLoop, hfr, if_true, Bool.false_eq_true, if_false, List.length_nil, Nat.add_zero]
    exact findLoop_skip name id false outer (i + 1) (some i) hout
  | cons f r ih =>
    intro i res
    simp only [List.cons_append, findLoop, Bool.false_eq_true, if_false, List.length_cons]
    split
    · rw [ih (i + 1) (some i)]; congr 1; omega
    · rw [ih (i + 1) res]; congr 1; omega

/-- Whatever the search returns (other than the initial `result`) is the index of a frame that holds the scope object. -/
theorem findLoop_some (name : String) (id : Nat) (inn : Bool) :
    ∀ (l : List Frame) (i : Nat) (res : Option Nat) (j : Nat),
      findLoop name id inn l i res = some j →
        res = some j ∨ (i ≤ j ∧ ∃ f, l[j - i]? = some f ∧ f.holds name id = true) := by
  intro l
  induction l with
  | nil => intro i res j h; exact .inl h
  | cons f r ih =>
    intro i res j h
    unfold findLoop at h
    split at h
    · rename_i hf
      split at h
      · injection h with h
        subst h
        exact .inr ⟨Nat.le_refl _, f, by simp, hf⟩
      · rcases ih (i + 1) (some i) j h with h' | ⟨hle, g, hg, hh⟩
        · injection h' with h'
          subst h'
          exact .inr ⟨Nat.le_refl _, f, by simp, hf⟩
        · refine .inr ⟨by omega, g, ?_, hh⟩
          have : j - i = (j - (i + 1)) + 1 := by omega
          rw [this]; simpa using hg
    · rcases ih (i + 1) res j h with h' | ⟨hle, g, hg, hh⟩
      · exact .inl h'
      · refine .inr ⟨by omega, g, ?_, hh⟩
        have : j - i = (j - (i + 1)) + 1 := by omega
        rw [this]; simpa using hg

/-! ### The frame discipline `GenStack`: facts proved by induction on the nesting depth -/

/-- The user function's frame is the last frame, it holds the scope object and has globals `g`. -/
theorem GenStack.split {name : String} {id g d : Nat} {gen : List Frame} {u : Frame}
    (h : GenStack name id g d gen u) :
    ∃ pre, gen = pre ++ [u] ∧ u.holds name id = true ∧ u.globals = g ∧ d ≤ pre.length ∧
      (d = 0 → pre = []) := by
  induction h with
  | user u hu hg => exact ⟨[], rfl, hu, hg, Nat.le_refl _, fun _ => rfl⟩
  | body d b ops rest u hb hg hops _ ih =>
    obtain ⟨pre, hpre, hu, hgu, hd, _⟩ := ih
    refine ⟨b :: (ops ++ pre), by simp [hpre], hu, hgu, ?_, fun h => by omega⟩
    simp only [List.length_cons, List.length_append]
    omega

/-- The innermost generated frame (the one containing the call) holds the scope object. -/
theorem GenStack.head {name : String} {id g d : Nat} {gen : List Frame} {u : Frame}
    (h : GenStack name id g d gen u) :
    ∃ c t, gen = c :: t ∧ c.holds name id = true ∧ c.globals = g ∧ (d = 0 → c = u ∧ t = []) := by
  cases h with
  | user u hu hg => exact ⟨u, [], rfl, hu, hg, fun _ => ⟨rfl, rfl⟩⟩
  | body d b ops rest u hb hg hops hrest => exact ⟨b, ops ++ rest, rfl, hb, hg, fun h => by omega⟩

/-- Every frame of the activation that holds the scope object runs in the generated module's globals. -/
theorem GenStack.globals {name : String} {id g d : Nat} {gen : List Frame} {u : Frame}
    (h : GenStack name id g d gen u) : ∀ f ∈ gen, f.holds name id = true → f.globals = g := by
  induction h with
  | user u hu hg => intro f hf _; simp at hf; rw [hf]; exact hg
  | body d b ops rest u hb hg hops _ ih =>
    intro f hf hh
    simp only [List.mem_cons, List.mem_append] at hf
    rcases hf with rfl | hf | hf
    · exact hg
    · rw [hops f hf] at hh; cases hh
    · exact ih f hf hh

/-- Exactly `d + 1` frames of the activation hold the scope object: the `d` generated bodies and
the user function. -/
theorem GenStack.holders_length {name : String} {id g d : Nat} {gen : List Frame} {u : Frame}
    (h : GenStack name id g d gen u) : (holders name id gen).length = d + 1 := by
  induction h with
  | user u hu hg => simp [holders, hu]
  | body d b ops rest u hb hg hops _ ih =>
    have hops' : ops.filter (fun f => f.holds name id) = [] := by
      apply List.filter_eq_nil_iff.mpr
      intro f hf; simp [hops f hf]
    simp only [holders, List.filter_cons, hb, if_true, List.filter_append, hops', List.nil_append,
      List.length_cons] at ih ⊢
    omega

theorem holders_append (name : String) (id : Nat) (a b : List Frame) :
    holders name id (a ++ b) = holders name id a ++ holders name id b := by
  simp [holders]

theorem holders_nil_of_none {name : String} {id : Nat} {l : List Frame}
    (h : ∀ f ∈ l, f.holds name id = false) : holders name id l = [] := by
  apply List.filter_eq_nil_iff.mpr
  intro f hf; simp [h f hf]

/-- Soundness of the checker: a stack whose first holder is at its head and whose holders number
`n + 1`, all in globals `g`, IS an activation at depth `n` followed by frames that do not hold the
scope object. -/
theorem genStack_of_holders (name : String) (id g : Nat) :
    ∀ (n : Nat) (stack : List Frame) (h : Frame) (t : List Frame), stack = h :: t →
      h.holds name id = true → (holders name id stack).length = n + 1 →
      genGlobalsOk name id g stack = true →
      ∃ gen outer u, stack = gen ++ outer ∧ GenStack name id g n gen u ∧
        (∀ f ∈ outer, f.holds name id = false) := by
  intro n
  induction n with
  | zero =>
    intro stack h t hst hh hlen hgl
    subst hst
    have ht : ∀ f ∈ t, f.holds name id = false := by
      intro f hf
      cases hfh : f.holds name id with
      | false => rfl
      | true =>
        exfalso
        have : f ∈ holders name id t := List.mem_filter.mpr ⟨hf, hfh⟩
        simp only [holders, List.filter_cons, hh, if_true, List.length_cons] at hlen
        have h0 : (List.filter (fun f => f.holds name id) t).length = 0 := by omega
        rw [List.length_eq_zero_iff] at h0
        simp [holders, h0] at this
    have hg : h.globals = g := by
      simp only [genGlobalsOk, holders, List.filter_cons, hh, if_true, List.all_cons, Bool.and_eq_true, beq_iff_eq] at hgl
      exact hgl.1
    exact ⟨[h], t, h, rfl, .user h hh hg, ht⟩
  | succ n ih =>
    intro stack h t hst hh hlen hgl
    subst hst
    have hg : h.globals = g := by
      simp only [genGlobalsOk, holders, List.filter_cons, hh, if_true, List.all_cons, Bool.and_eq_true, beq_iff_eq] at hgl
      exact hgl.1
    have hglt : genGlobalsOk name id g t = true := by
      simp only [genGlobalsOk, holders, List.filter_cons, hh, if_true, List.all_cons, Bool.and_eq_true] at hgl
      exact hgl.2
    have hlent : (holders name id t).length = n + 1 := by
      simp only [holders, List.filter_cons, hh, if_true, List.length_cons] at hlen
      simp only [holders]; omega
    -- split t at its first holder
    have hsplit : ∀ (l : List Frame), (holders name id l).length = n + 1 →
        ∃ ops h' t', l = ops ++ h' :: t' ∧ (∀ f ∈ ops, f.holds name id = false) ∧ h'.holds name id = true := by
      intro l
      induction l with
      | nil => intro hl; simp [holders] at hl
      | cons a r ihr =>
        intro hl
        cases ha : a.holds name id with
        | true => exact ⟨[], a, r, rfl, by simp, ha⟩
        | false =>
          have : (holders name id r).length = n + 1 := by
            simpa [holders, List.filter_cons, ha] using hl
          obtain ⟨ops, h', t', hr, hops, hh'⟩ := ihr this
          refine ⟨a :: ops, h', t', by simp [hr], ?_, hh'⟩
          intro f hf
          simp only [List.mem_cons] at hf
          rcases hf with rfl | hf
          · exact ha
          · exact hops f hf
    obtain ⟨ops, h', t', ht, hops, hh'⟩ := hsplit t hlent
    have hlen2 : (holders name id (h' :: t')).length = n + 1 := by
      rw [ht, holders_append, holders_nil_of_none hops] at hlent
      simpa using hlent
    have hgl2 : genGlobalsOk name id g (h' :: t') = true := by
      simp only [genGlobalsOk] at hglt ⊢
      rw [ht, holders_append, holders_nil_of_none hops] at hglt
      simpa using hglt
    obtain ⟨gen, outer, u, hgo, hgen, hout⟩ := ih (h' :: t') h' t' rfl hh' hlen2 hgl2
    refine ⟨h :: (ops ++ gen), outer, u, ?_, .body n h ops gen u hh hg hops hgen, hout⟩
    rw [ht, hgo]; simp

/-- A stack with at least one holder splits at its first holder. -/
theorem split_first_holder (name : String) (id : Nat) :
    ∀ (l : List Frame), holders name id l ≠ [] →
      ∃ lib h t, l = lib ++ h :: t ∧ (∀ f ∈ lib, f.holds name id = false) ∧ h.holds name id = true := by
  intro l
  induction l with
  | nil => intro hl; simp [holders] at hl
  | cons a r ihr =>
    intro hl
    cases ha : a.holds name id with
    | true => exact ⟨[], a, r, rfl, by simp, ha⟩
    | false =>
      have : holders name id r ≠ [] := by simpa [holders, List.filter_cons, ha] using hl
      obtain ⟨ops, h', t', hr, hops, hh'⟩ := ihr this
      refine ⟨a :: ops, h', t', by simp [hr], ?_, hh'⟩
      intro f hf
      simp only [List.mem_cons] at hf
      rcases hf with rfl | hf
      · exact ha
      · exact hops f hf

/-- Soundness of the recorded-stack checker (`genDepth`, `genGlobalsOk`): whatever real stack passes
it is `lib ++ gen ++ outer` with `gen` an activation obeying the discipline at the reported depth. -/
theorem genStack_of_check (name : String) (id g n : Nat) (stack : List Frame)
    (hd : genDepth name id stack = some n) (hg : genGlobalsOk name id g stack = true) :
    ∃ lib gen outer u, stack = lib ++ gen ++ outer ∧ GenStack name id g n gen u ∧
      (∀ f ∈ lib, f.holds name id = false) ∧ (∀ f ∈ outer, f.holds name id = false) := by
  have hlen : (holders name id stack).length = n + 1 := by
    unfold genDepth at hd
    split at hd
    · cases hd
    · rename_i m hm; injection hd with hd; omega
  have hne : holders name id stack ≠ [] := by
    intro h; rw [h] at hlen; simp at hlen
  obtain ⟨lib, h, t, hst, hlib, hh⟩ := split_first_holder name id stack hne
  have hlen2 : (holders name id (h :: t)).length = n + 1 := by
    rw [hst, holders_append, holders_nil_of_none hlib] at hlen
    simpa using hlen
  have hgl2 : genGlobalsOk name id g (h :: t) = true := by
    simp only [genGlobalsOk] at hg ⊢
    rw [hst, holders_append, holders_nil_of_none hlib] at hg
    simpa using hg
  obtain ⟨gen, outer, u, hgo, hgen, hout⟩ := genStack_of_holders name id g n (h :: t) h t rfl hh hlen2 hgl2
  exact ⟨lib, gen, outer, u, by rw [hst, hgo, List.append_assoc], hgen, hlib, hout⟩

end Malt.Builtins
