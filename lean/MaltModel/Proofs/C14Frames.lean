import MaltModel.Rt.Builtins
/-! General lemmas about the `_find_originating_frame` loop (`findLoop`). -/
namespace Malt.Builtins

/-- Frames that do not hold the scope object are skipped. -/
theorem findLoop_skip (name : String) (id : Nat) (inn : Bool) :
    ∀ (l : List Frame) (i : Nat) (res : Option Nat), (∀ f ∈ l, f.holds name id = false) →
      findLoop name id inn l i res = res := by
  intro l
  induction l with
  | nil => intro i res _; rfl
  | cons f r ih =>
    intro i res h
    have hf := h f (List.mem_cons_self ..)
    simp only [findLoop, hf, Bool.false_eq_true, if_false]
    exact ih _ _ (fun g hg => h g (List.mem_cons_of_mem _ hg))

/-- `innermost=True`: the first frame (from the current one outwards) holding the scope object. -/
theorem findLoop_innermost (name : String) (id : Nat) (fr : Frame) (rest : List Frame)
    (hfr : fr.holds name id = true) :
    ∀ (lib : List Frame) (i : Nat) (res : Option Nat), (∀ f ∈ lib, f.holds name id = false) →
      findLoop name id true (lib ++ fr :: rest) i res = some (i + lib.length) := by
  intro lib
  induction lib with
  | nil => intro i res _; simp [findLoop, hfr]
  | cons f r ih =>
    intro i res h
    have hf := h f (List.mem_cons_self ..)
    simp only [List.cons_append, findLoop, hf, Bool.false_eq_true, if_false, List.length_cons]
    rw [ih (i + 1) res (fun g hg => h g (List.mem_cons_of_mem _ hg))]
    congr 1; omega

/-- `innermost=False`: the last frame holding the scope object. -/
theorem findLoop_outermost (name : String) (id : Nat) (fr : Frame) (outer : List Frame)
    (hfr : fr.holds name id = true) (hout : ∀ f ∈ outer, f.holds name id = false) :
    ∀ (pre : List Frame) (i : Nat) (res : Option Nat),
      findLoop name id false (pre ++ fr :: outer) i res = some (i + pre.length) := by
  intro pre
  induction pre with
  | nil =>
    intro i res
    simp only [List.nil_append, findLoop, hfr, if_true, Bool.false_eq_true, if_false, List.length_nil, Nat.add_zero]
    exact findLoop_skip name id false outer (i + 1) (some i) hout
  | cons f r ih =>
    intro i res
    simp only [List.cons_append, findLoop, Bool.false_eq_true, if_false, List.length_cons]
    split
    · rw [ih (i + 1) (some i)]; congr 1; omega
    · rw [ih (i + 1) res]; congr 1; omega

/-- Whatever the search returns (other than the initial `result`) is the index of a frame that holds the scope object. -/
theorem findLoop_some (name : String) (id : Nat) (inn : Bool) :
    ∀ (l : List Frame) (i : Nat) (res : Option Nat) (j : Nat),
      findLoop name id inn l i res = some j →
        res = some j ∨ (i ≤ j ∧ ∃ f, l[j - i]? = some f ∧ f.holds name id = true) := by
  intro l
  induction l with
  | nil => intro i res j h; exact .inl h
  | cons f r ih =>
    intro i res j h
    unfold findLoop at h
    split at h
    · rename_i hf
      split at h
      · injection h with h
        subst h
        exact .inr ⟨Nat.le_refl _, f, by simp, hf⟩
      · rcases ih (i + 1) (some i) j h with h' | ⟨hle, g, hg, hh⟩
        · injection h' with h'
          subst h'
          exact .inr ⟨Nat.le_refl _, f, by simp, hf⟩
        · refine .inr ⟨by omega, g, ?_, hh⟩
          have : j - i = (j - (i + 1)) + 1 := by omega
          rw [this]; simpa using hg
    · rcases ih (i + 1) res j h with h' | ⟨hle, g, hg, hh⟩
      · exact .inl h'
      · refine .inr ⟨by omega, g, ?_, hh⟩
        have : j - i = (j - (i + 1)) + 1 := by omega
        rw [this]; simpa using hg

end Malt.Builtins
