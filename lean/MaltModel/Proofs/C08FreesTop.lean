import MaltModel.Proofs.C08FreesStmt
/-
Helper development for `C08_frees_nested`, part 4: every function definition of the tree.
-/
namespace Malt.Analysis
open Malt.Py Malt.Spec

mutual
theorem declBelow_all (g : Bool) : (b : Block) → (enc : List String) → declBelowB g enc b = [] →
    ∀ b' ∈ allBlocks b, (b'.kind == .function || b'.kind == .lambda) = true →
      declBelowBs g (b'.params ++ b'.binds ++ b'.globals ++ b'.nonlocals) b'.children = []
  | .mk id kind name params binds globals nonlocals uses walrus children, enc, h => by
      simp only [declBelowB, List.append_eq_nil_iff] at h
      intro b' hb' hk
      simp only [allBlocks, List.mem_cons] at hb'
      rcases hb' with rfl | hb'
      · simp only [Block.kind] at hk
        simpa [Block.params, Block.binds, Block.globals, Block.nonlocals, Block.children, hk] using h.2
      · exact declBelow_allL g children _ h.2 b' hb' hk
theorem declBelow_allL (g : Bool) : (bs : List Block) → (enc : List String) → declBelowBs g enc bs = [] →
    ∀ b' ∈ allBlocksL bs, (b'.kind == .function || b'.kind == .lambda) = true →
      declBelowBs g (b'.params ++ b'.binds ++ b'.globals ++ b'.nonlocals) b'.children = []
  | [], _, _ => by simp [allBlocksL]
  | b :: rest, enc, h => by
      simp only [declBelowBs, List.append_eq_nil_iff] at h
      intro b' hb' hk
      simp only [allBlocksL, List.mem_append] at hb'
      rcases hb' with hb' | hb'
      · exact declBelow_all g b enc h.1 b' hb' hk
      · exact declBelow_allL g rest enc h.2 b' hb' hk
end

mutual
theorem shadow_all : (b : Block) → shadowB b = [] → ∀ b' ∈ allBlocks b, shadowBs b'.children = []
  | .mk id kind name params binds globals nonlocals uses walrus children, h => by
      simp only [shadowB, List.append_eq_nil_iff] at h
      intro b' hb'
      simp only [allBlocks, List.mem_cons] at hb'
      rcases hb' with rfl | hb'
      · simpa [Block.children] using h.2
      · exact shadow_allL children h.2 b' hb'
theorem shadow_allL : (bs : List Block) → shadowBs bs = [] → ∀ b' ∈ allBlocksL bs, shadowBs b'.children = []
  | [], _ => by simp [allBlocksL]
  | b :: rest, h => by
      simp only [shadowBs, List.append_eq_nil_iff] at h
      intro b' hb'
      simp only [allBlocksL, List.mem_append] at hb'
      rcases hb' with hb' | hb'
      · exact shadow_all b h.1 b' hb'
      · exact shadow_allL rest h.2 b' hb'
end

/-- **What a function definition needs from outside, according to the analysis and according to `outerB`.**
    `cI` is the recorded ARGS_AND_BODY scope of the definition (`hb`…`hr`: what `DefOk` says about it). -/
theorem def_outer (i : Nat) (name : String) (ai : Nat) (po ar va ko kd kw df : List Expr) (body : List Stmt)
    (decos returns : List Expr) (isAsync : Bool)
    (hfb : FragSs body = true) (hsb : SpecOkSs body = true) (cI : Scope)
    (hb : ∀ x, QN.sym x ∈ cI.bound ↔ x ∈ paramStrs po ar va ko kw ∨ x ∈ ownBindsSs body ∨ x ∈ ownDeclsSs false body ∨ x ∈ ownLeaksSs body)
    (hg : ∀ x, QN.sym x ∈ cI.globals ↔ x ∈ ownDeclsSs true body)
    (hn : ∀ x, QN.sym x ∈ cI.nonlocals ↔ x ∈ ownDeclsSs false body)
    (hr : ∃ fns, ∀ q, q ∈ cI.read ↔ q ∈ (effSs fns body).read)
    (blk : Block) (hblk : blk = mkDefBlock (.functionDef i name (.arguments ai po ar va ko kd kw df) body decos returns isAsync))
    (hG : declBelowBs true (blk.params ++ blk.binds ++ blk.globals ++ blk.nonlocals) blk.children = [])
    (hL : leaksBs (blk.params ++ blk.binds ++ blk.globals ++ blk.nonlocals) blk.children = [])
    (hS : shadowBs blk.children = []) :
    ∀ x, (QN.sym x ∈ cI.passedOn ∧ QN.sym x ∉ cI.globals) ↔ x ∈ outerB blk := by
  obtain ⟨fns, hr⟩ := hr
  subst hblk
  have hC := collectSs_spec body hfb hsb { params := (po ++ ar ++ ko ++ va ++ kw).filterMap paramName }
  obtain ⟨new, hnew, hcov⟩ := hC.children
  simp only [List.nil_append] at hnew
  simp only [mkDefBlock, Acc.toBlock, Block.params, Block.binds, Block.globals, Block.nonlocals, Block.children] at hG hL hS
  simp only [mkDefBlock]
  generalize hin : collectSs body { params := (po ++ ar ++ ko ++ va ++ kw).filterMap paramName } = inner at *
  have HI : Hyp (inner.params ++ inner.binds ++ inner.globals ++ inner.nonlocals)
      (inner.params ++ inner.binds ++ inner.globals ++ inner.nonlocals)
      (inner.params ++ inner.binds ++ inner.globals ++ inner.nonlocals) inner :=
    ⟨fun x hx => by simp [hx], fun x hx => by simp [hx], fun x hx => by simp [hx], fun x hx => hx, fun x hx => hx, hG, hL, hS⟩
  have RI := readRelSs body hfb hsb fns _ _ _ { params := (po ++ ar ++ ko ++ va ++ kw).filterMap paramName }
    (by rw [hin]; exact HI)
  rw [hin] at RI
  have hrel := fun_block_rel i .function name rfl inner.params (ownLeaksSs body) inner (effSs fns body)
    ({ read := cI.read, bound := cI.bound, nonlocals := cI.nonlocals, globals := cI.globals } : Eff) rfl hC.walrus
    (by intro x; exact hr _)
    (by
      intro x
      show QN.sym x ∈ cI.bound ↔ _
      rw [hb, hC.params, mem_specParams_iff, hC.binds, hC.nonlocals]
      simp)
    (by intro x; show QN.sym x ∈ cI.nonlocals ↔ _; rw [hn, hC.nonlocals]; simp)
    (by intro x; show QN.sym x ∈ cI.globals ↔ _; rw [hg, hC.globals]; simp)
    (by
      intro x hx
      show QN.sym x ∈ cI.read
      have hx' : x ∈ ownDeclsSs false body := by
        have := (hC.nonlocals x).mp hx
        simpa using this
      rw [hr]
      exact (effSs_declRead body fns).sub _ (Or.inl (((effSs_sets body hfb fns).nonlocals x).mpr hx')))
    (by
      intro x hx
      by_cases hd : x ∈ inner.params ++ inner.binds ++ inner.globals ++ inner.nonlocals
      · exact hd
      · exfalso
        have := hcov _ x hx hd
        rw [← hnew, hL] at this
        simp at this)
    (by rw [hC.params] at RI ⊢; exact RI)
  intro x
  have hgx : QN.sym x ∈ cI.globals ↔ x ∈ inner.globals := by rw [hg, hC.globals]; simp
  by_cases h1 : x ∈ inner.globals
  · simp [hgx, h1, outerB, Acc.toBlock, BlockKind.functionLike]
  · have := hrel x h1
    rw [hgx, ← this]
    simp [h1, Scope.passedOn]

end Malt.Analysis
