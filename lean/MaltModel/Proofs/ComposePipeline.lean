import MaltModel.Proofs.ComposeJumps
import MaltModel.Props.C01Exprs
import MaltModel.Conv.Pipeline
import MaltModel.Conv.JumpToSem
/-
The semantic pipeline as a fold over the EXTRACTED pass list (`Malt.Gen.Pipeline.steps`, regenerated from
`PyToPy.transform_ast` by tools/extract_pipeline.py): every step name is interpreted as the stage the proved
core has for it.  A reordering, removal or addition of a pass in /repo changes `steps`, hence the value of
`runSteps … steps`, hence breaks `runSteps_extracted` and the end-to-end theorem that uses it.
-/
namespace Malt.Sem.Jumps
open Malt.Sem

/-- The three program representations along the pipeline. -/
inductive Prog where
  /-- a `Malt.Sem` function body (source, and the output of the jump passes) -/
  | src (b : Block)
  /-- the functionalised program (`Malt.Func.TBlock`, native target semantics `execNB`) -/
  | tgt (t : Func.TBlock)
  /-- the functionalised program with every expression converted (`execNBW`) -/
  | fin (t : Malt.SemW.TBlockW)

/-- What is fixed besides the program: the generators of the jump passes, the annotation the control-flow pass
reads, and whether EQUALITY_OPERATORS is on. -/
structure PipeCfg where
  genB : Gen
  genC : Gen
  dr : Name
  rv : Name
  ann : Func.Ann
  eqOn : Bool

/-- The passes of `PyToPy.transform_ast` the chain knows. -/
inductive Step where
  | verify | initialAnalysis | functions | directives
  | breakStatements | continueStatements | returnStatements
  | callTrees | controlFlow | conditionalExpressions | logicalExpressions | variables
  deriving DecidableEq, Repr

def Step.ofName (s : String) : Option Step :=
  if s = "unsupported_features_checker.verify" then some .verify
  else if s = "initial_analysis" then some .initialAnalysis
  else if s = "functions" then some .functions
  else if s = "directives" then some .directives
  else if s = "break_statements" then some .breakStatements
  else if s = "continue_statements" then some .continueStatements
  else if s = "return_statements" then some .returnStatements
  else if s = "call_trees" then some .callTrees
  else if s = "control_flow" then some .controlFlow
  else if s = "conditional_expressions" then some .conditionalExpressions
  else if s = "logical_expressions" then some .logicalExpressions
  else if s = "variables" then some .variables
  else none

/-- The unguarded steps of the extracted `(step, feature guard)` list, decoded; `none` if a step is unknown.
Feature-guarded steps (`asserts`: ASSERT_STATEMENTS, `lists`/`slices`: LISTS) do not run for the option sets of
C01 that the proved core covers. -/
def decodeSteps : List (String × String) → Option (List Step)
  | [] => some []
  | (s, g) :: rest =>
      if g = "" then
        (match Step.ofName s, decodeSteps rest with
         | some st, some r => some (st :: r)
         | _, _ => none)
      else decodeSteps rest

/-- The stage of one pass; `none` = the proved chain does not cover this pass at this position (a jump pass after
functionalisation, an expression pass before it).
* `functions`, `directives`, the analyses and the feature check have no counterpart in `Malt.Sem` (the
  FunctionScope wrapper is transparent for `toSem`);
* the four expression passes (`call_trees`, `conditional_expressions`, `logical_expressions`, `variables`) are
  ONE model (`SemW.wrap`, Props/C01Exprs.lean); it is applied where the last of them (`variables`) runs, the
  other two post-functionalisation passes must come after `control_flow`, and `call_trees` — which in /repo
  runs before `control_flow` — is accounted for there too (`wrap_target_correct` covers all four at once). -/
def stage (c : PipeCfg) : Step → Prog → Option Prog
  | .verify, p => some p
  | .initialAnalysis, p => some p
  | .functions, .src b => some (.src b)
  | .directives, .src b => some (.src b)
  | .breakStatements, .src b => some (.src (lowerBreak c.genB b))
  | .continueStatements, .src b => some (.src (lowerContinue c.genC b))
  | .returnStatements, .src b => some (.src (lowerReturn c.dr c.rv b))
  | .callTrees, .src b => some (.src b)
  | .controlFlow, .src b => (Func.func c.ann b).map .tgt
  | .conditionalExpressions, .tgt t => some (.tgt t)
  | .logicalExpressions, .tgt t => some (.tgt t)
  | .variables, .tgt t => some (.fin (Malt.SemW.wrapTB c.eqOn t))
  | _, _ => none

def runStages (c : PipeCfg) : List Step → Prog → Option Prog
  | [], p => some p
  | s :: rest, p => (stage c s p).bind (runStages c rest)

/-- Fold of the extracted pass list. -/
def runSteps (c : PipeCfg) (steps : List (String × String)) (p : Prog) : Option Prog :=
  (decodeSteps steps).bind fun l => runStages c l p

/-- The extracted pipeline, decoded (by computation on `Malt.Gen.Pipeline.steps`: fails to compile when the
order, the set or the guards of the passes of /repo change). -/
theorem decode_extracted :
    decodeSteps Malt.Gen.Pipeline.steps =
      some [.verify, .initialAnalysis, .functions, .directives, .breakStatements, .continueStatements,
        .returnStatements, .callTrees, .controlFlow, .conditionalExpressions, .logicalExpressions, .variables] := by
  decide

/-- **On the extracted pipeline** the fold is: break, continue, return lowering, functionalisation, expression
wrappers — in this order. -/
theorem runSteps_extracted (c : PipeCfg) (body : Block) :
    runSteps c Malt.Gen.Pipeline.steps (.src body) =
      (Func.func c.ann (jumpPasses c.genB c.genC c.dr c.rv body)).map
        (fun t => Prog.fin (Malt.SemW.wrapTB c.eqOn t)) := by
  simp only [runSteps, decode_extracted, Option.bind_some, runStages, stage, jumpPasses]
  cases Func.func c.ann (lowerReturn c.dr c.rv (lowerContinue c.genC (lowerBreak c.genB body))) with
  | none => rfl
  | some t => rfl

/-- The precedences this fold relies on are among those `C01_pipeline_order` checks on the extracted list. -/
theorem stage_order_required :
    [("break_statements", "continue_statements"), ("continue_statements", "control_flow"),
     ("break_statements", "control_flow"), ("return_statements", "control_flow"),
     ("control_flow", "conditional_expressions"), ("control_flow", "logical_expressions"),
     ("control_flow", "variables")].all (fun p => Malt.Conv.Pipeline.requiredBefore.contains p) = true := by
  decide

/-! ### a constant "everything is live, everything is declared" annotation
Sound for every program all of whose names are in `V`: used for the non-vacuity example. -/

def allInfo (V : List Name) : Func.Info :=
  { liveIn := V, liveOut := V, definedIn := V, declared := V, undefined := [], nouts := 0 }

def annAll (V : List Name) : Func.Ann := fun _ => allInfo V

end Malt.Sem.Jumps
