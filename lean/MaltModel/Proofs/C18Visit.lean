import MaltModel.Proofs.C18Basic
/- C18: the invariant of expression visits. -/
namespace Malt.Anf
open Malt.Py

theorem trivialOnly_ok {w : String} {x : Bool} {r b : Expr × List Stmt × Nat} :
    trivialOnly w x r = .ok b ↔ x = false ∧ r.2.1 = [] ∧ b = r := by
  unfold trivialOnly
  cases x <;> cases h : r.2.1 <;> simp [eq_comm]

def isNameE : Expr → Bool
  | .name .. => true
  | _ => false

/-- What every successful expression visit guarantees. -/
structure VInv (cfg : Config) (e : Expr) (n : Nat) (e' : Expr) (D : List Stmt) (n' : Nat) : Prop where
  hoists : HoistsOk cfg n D n'
  quiet : quiet cfg e' = true
  same : D = [] → e' = e
  isName : isNameE e' = isNameE e

structure VsInv (cfg : Config) (es : List Expr) (n : Nat) (es' : List Expr) (D : List Stmt) (n' : Nat) : Prop where
  hoists : HoistsOk cfg n D n'
  quiet : quiets cfg es' = true
  same : D = [] → es' = es

macro "vopen" h:ident : tactic =>
  `(tactic| simp only [visitE, visitEs, bind_ok, Prod.exists] at $h:ident)
macro "vclose" h:ident : tactic =>
  `(tactic| (simp only [pure, Except.pure, Except.ok.injEq, Prod.mk.injEq, trivialOnly_ok] at $h:ident))

theorem app_nil2 {α} {a b : List α} (h : a ++ b = []) : a = [] ∧ b = [] := List.append_eq_nil_iff.mp h

mutual
theorem visitE_inv (cfg : Config) : ∀ (e : Expr) (n : Nat) (e' : Expr) (D : List Stmt) (n' : Nat),
    visitE cfg e n = .ok (e', D, n') → VInv cfg e n e' D n'
  | .name .., n, e', D, n', h => by
      vopen h; vclose h; obtain ⟨rfl, rfl, rfl⟩ := h
      exact ⟨rfl, rfl, fun _ => rfl, rfl⟩
  | .const .., n, e', D, n', h => by
      vopen h; vclose h; obtain ⟨rfl, rfl, rfl⟩ := h
      exact ⟨rfl, rfl, fun _ => rfl, rfl⟩
  | .noneMarker, n, e', D, n', h => by
      vopen h; vclose h; obtain ⟨rfl, rfl, rfl⟩ := h
      exact ⟨rfl, rfl, fun _ => rfl, rfl⟩
  | .attr i v a c, n, e', D, n', h => by
      vopen h
      obtain ⟨v1, d1, n1, hv, h⟩ := h
      rcases hE : ensure cfg "Attribute" "value" v1 n1 with ⟨v2, h1, n2⟩
      simp only [hE] at h; vclose h
      obtain ⟨rfl, rfl, rfl⟩ := h
      have iv := visitE_inv cfg _ _ _ _ _ hv
      have he := ensure_spec' iv.quiet hE
      refine ⟨iv.hoists.append he.1, by simp [Malt.Anf.quiet, he.2.1, he.2.2.1], fun hd => ?_, rfl⟩
      obtain ⟨hd1, hd2⟩ := app_nil2 hd
      rw [he.2.2.2 hd2, iv.same hd1]
  | .subscript i v s c, n, e', D, n', h => by
      vopen h
      obtain ⟨v1, d1, n1, hv, s1, d2, n2, hs, h⟩ := h
      rcases hE1 : ensure cfg "Subscript" "value" v1 n2 with ⟨v2, h1, n3⟩
      rcases hE2 : ensure cfg "Subscript" "slice" s1 n3 with ⟨s2, h2, n4⟩
      simp only [hE1, hE2] at h; vclose h
      obtain ⟨rfl, rfl, rfl⟩ := h
      have iv := visitE_inv cfg _ _ _ _ _ hv
      have is := visitE_inv cfg _ _ _ _ _ hs
      have he1 := ensure_spec' iv.quiet hE1
      have he2 := ensure_spec' is.quiet hE2
      refine ⟨((iv.hoists.append is.hoists).append he1.1).append he2.1,
        by simp [Malt.Anf.quiet, he1.2.1, he1.2.2.1, he2.2.1, he2.2.2.1], fun hd => ?_, rfl⟩
      obtain ⟨hd, hd4⟩ := app_nil2 hd
      obtain ⟨hd, hd3⟩ := app_nil2 hd
      obtain ⟨hd1, hd2⟩ := app_nil2 hd
      rw [he1.2.2.2 hd3, he2.2.2.2 hd4, iv.same hd1, is.same hd2]
  | .call i f as ks, n, e', D, n', h => by
      vopen h
      obtain ⟨f1, d1, n1, hf, as1, d2, n2, has, ks1, d3, n3, hks, h⟩ := h
      rcases hE1 : ensure cfg "Call" "func" f1 n3 with ⟨f2, h1, n4⟩
      rcases hE2 : ensureList cfg "Call" "args" as1 n4 with ⟨as2, h2, n5⟩
      rcases hE3 : ensureList cfg "Call" "keywords" ks1 n5 with ⟨ks2, h3, n6⟩
      simp only [hE1, hE2, hE3] at h; vclose h
      obtain ⟨rfl, rfl, rfl⟩ := h
      have i1 := visitE_inv cfg _ _ _ _ _ hf
      have i2 := visitEs_inv cfg _ _ _ _ _ has
      have i3 := visitEs_inv cfg _ _ _ _ _ hks
      have he1 := ensure_spec' i1.quiet hE1
      have he2 := ensureList_spec' i2.quiet hE2
      have he3 := ensureList_spec' i3.quiet hE3
      refine ⟨((((i1.hoists.append i2.hoists).append i3.hoists).append he1.1).append he2.1).append he3.1,
        by simp [Malt.Anf.quiet, he1.2.1, he1.2.2.1, he2.2.1, he2.2.2.1, he3.2.1, he3.2.2.1], fun hd => ?_, rfl⟩
      obtain ⟨hd, hd6⟩ := app_nil2 hd
      obtain ⟨hd, hd5⟩ := app_nil2 hd
      obtain ⟨hd, hd4⟩ := app_nil2 hd
      obtain ⟨hd, hd3⟩ := app_nil2 hd
      obtain ⟨hd1, hd2⟩ := app_nil2 hd
      rw [he1.2.2.2 hd4, he2.2.2.2 hd5, he3.2.2.2 hd6, i1.same hd1, i2.same hd2, i3.same hd3]
  | .keyword i a hs v, n, e', D, n', h => by
      vopen h
      obtain ⟨v1, d1, n1, hv, h⟩ := h
      vclose h; obtain ⟨rfl, rfl, rfl⟩ := h
      have iv := visitE_inv cfg _ _ _ _ _ hv
      exact ⟨iv.hoists, by simp [Malt.Anf.quiet, iv.quiet], fun hd => by rw [iv.same hd], rfl⟩
  | .boolop i isAnd vs, n, e', D, n', h => by
      vopen h
      obtain ⟨vs1, d1, n1, hv, h⟩ := h
      rcases hE : ensureList cfg "BoolOp" "values" vs1 n1 with ⟨vs2, h1, n2⟩
      simp only [hE] at h; vclose h
      obtain ⟨hp, hnil, rfl, rfl, rfl⟩ := h
      have iv := visitEs_inv cfg _ _ _ _ _ hv
      have he := ensureList_spec' iv.quiet hE
      simp only [pseudoSelected] at hp
      refine ⟨iv.hoists.append he.1, by simp [Malt.Anf.quiet, he.2.1, he.2.2.1, hp], fun hd => ?_, rfl⟩
      obtain ⟨hd1, hd2⟩ := app_nil2 hd
      rw [he.2.2.2 hd2, iv.same hd1]
  | .unary i op v, n, e', D, n', h => by
      vopen h
      obtain ⟨v1, d1, n1, hv, h⟩ := h
      rcases hE : ensure cfg "UnaryOp" "operand" v1 n1 with ⟨v2, h1, n2⟩
      simp only [hE] at h; vclose h
      obtain ⟨rfl, rfl, rfl⟩ := h
      have iv := visitE_inv cfg _ _ _ _ _ hv
      have he := ensure_spec' iv.quiet hE
      refine ⟨iv.hoists.append he.1, by simp [Malt.Anf.quiet, he.2.1, he.2.2.1], fun hd => ?_, rfl⟩
      obtain ⟨hd1, hd2⟩ := app_nil2 hd
      rw [he.2.2.2 hd2, iv.same hd1]
  | .binop i op l r, n, e', D, n', h => by
      simp only [visitE] at h
      split at h
      · simp at h
      next hmm =>
      vopen h
      obtain ⟨v1, d1, n1, hv, s1, d2, n2, hs, h⟩ := h
      rcases hE1 : ensure cfg "BinOp" "left" v1 n2 with ⟨v2, h1, n3⟩
      rcases hE2 : ensure cfg "BinOp" "right" s1 n3 with ⟨s2, h2, n4⟩
      simp only [hE1, hE2] at h; vclose h
      obtain ⟨rfl, rfl, rfl⟩ := h
      have iv := visitE_inv cfg _ _ _ _ _ hv
      have is := visitE_inv cfg _ _ _ _ _ hs
      have he1 := ensure_spec' iv.quiet hE1
      have he2 := ensure_spec' is.quiet hE2
      refine ⟨((iv.hoists.append is.hoists).append he1.1).append he2.1,
        by simp [Malt.Anf.quiet, he1.2.1, he1.2.2.1, he2.2.1, he2.2.2.1, hmm], fun hd => ?_, rfl⟩
      obtain ⟨hd, hd4⟩ := app_nil2 hd
      obtain ⟨hd, hd3⟩ := app_nil2 hd
      obtain ⟨hd1, hd2⟩ := app_nil2 hd
      rw [he1.2.2.2 hd3, he2.2.2.2 hd4, iv.same hd1, is.same hd2]
  | .compare i l ops rs, n, e', D, n', h => by
      simp only [visitE] at h
      split at h
      · simp at h
      next hlen =>
      vopen h
      obtain ⟨v1, d1, n1, hv, s1, d2, n2, hs, h⟩ := h
      rcases hE1 : ensure cfg "Compare" "left" v1 n2 with ⟨v2, h1, n3⟩
      rcases hE2 : ensureList cfg "Compare" "comparators" s1 n3 with ⟨s2, h2, n4⟩
      simp only [hE1, hE2] at h; vclose h
      obtain ⟨rfl, rfl, rfl⟩ := h
      have iv := visitE_inv cfg _ _ _ _ _ hv
      have is := visitEs_inv cfg _ _ _ _ _ hs
      have he1 := ensure_spec' iv.quiet hE1
      have he2 := ensureList_spec' is.quiet hE2
      refine ⟨((iv.hoists.append is.hoists).append he1.1).append he2.1,
        by simp [Malt.Anf.quiet, he1.2.1, he1.2.2.1, he2.2.1, he2.2.2.1, hlen], fun hd => ?_, rfl⟩
      obtain ⟨hd, hd4⟩ := app_nil2 hd
      obtain ⟨hd, hd3⟩ := app_nil2 hd
      obtain ⟨hd1, hd2⟩ := app_nil2 hd
      rw [he1.2.2.2 hd3, he2.2.2.2 hd4, iv.same hd1, is.same hd2]
  | .ifexp i t b e, n, e', D, n', h => by
      vopen h
      obtain ⟨t1, d1, n1, ht, b1, d2, n2, hb, e1, d3, n3, he, h⟩ := h
      rcases hE1 : ensure cfg "IfExp" "test" t1 n3 with ⟨t2, h1, n4⟩
      rcases hE2 : ensure cfg "IfExp" "body" b1 n4 with ⟨b2, h2, n5⟩
      rcases hE3 : ensure cfg "IfExp" "orelse" e1 n5 with ⟨e2, h3, n6⟩
      simp only [hE1, hE2, hE3] at h; vclose h
      obtain ⟨-, hnil, rfl, rfl, rfl⟩ := h
      have i1 := visitE_inv cfg _ _ _ _ _ ht
      have i2 := visitE_inv cfg _ _ _ _ _ hb
      have i3 := visitE_inv cfg _ _ _ _ _ he
      have he1 := ensure_spec' i1.quiet hE1
      have he2 := ensure_spec' i2.quiet hE2
      have he3 := ensure_spec' i3.quiet hE3
      refine ⟨((((i1.hoists.append i2.hoists).append i3.hoists).append he1.1).append he2.1).append he3.1,
        by simp [Malt.Anf.quiet, he1.2.1, he1.2.2.1, he2.2.1, he2.2.2.1, he3.2.1, he3.2.2.1], fun hd => ?_, rfl⟩
      obtain ⟨hd, hd6⟩ := app_nil2 hd
      obtain ⟨hd, hd5⟩ := app_nil2 hd
      obtain ⟨hd, hd4⟩ := app_nil2 hd
      obtain ⟨hd, hd3⟩ := app_nil2 hd
      obtain ⟨hd1, hd2⟩ := app_nil2 hd
      rw [he1.2.2.2 hd4, he2.2.2.2 hd5, he3.2.2.2 hd6, i1.same hd1, i2.same hd2, i3.same hd3]
  | .lambda i as b, n, e', D, n', h => by
      vopen h
      obtain ⟨v1, d1, n1, hv, s1, d2, n2, hs, h⟩ := h
      rcases hE1 : ensure cfg "Lambda" "body" s1 n2 with ⟨s2, h1, n3⟩
      simp only [hE1] at h; vclose h
      obtain ⟨hp, hnil, rfl, rfl, rfl⟩ := h
      have iv := visitE_inv cfg _ _ _ _ _ hv
      have is := visitE_inv cfg _ _ _ _ _ hs
      have he1 := ensure_spec' is.quiet hE1
      simp only [pseudoSelected] at hp
      refine ⟨(iv.hoists.append is.hoists).append he1.1,
        by simp [Malt.Anf.quiet, he1.2.1, he1.2.2.1, iv.quiet, hp], fun hd => ?_, rfl⟩
      obtain ⟨hd, hd3⟩ := app_nil2 hd
      obtain ⟨hd1, hd2⟩ := app_nil2 hd
      rw [he1.2.2.2 hd3, iv.same hd1, is.same hd2]
  | .seq i .set es c, n, e', D, n', h => by
      vopen h
      obtain ⟨vs1, d1, n1, hv, h⟩ := h
      rcases hE : ensureList cfg "Set" "elts" vs1 n1 with ⟨vs2, h1, n2⟩
      simp only [hE] at h; vclose h
      obtain ⟨rfl, rfl, rfl⟩ := h
      have iv := visitEs_inv cfg _ _ _ _ _ hv
      have he := ensureList_spec' iv.quiet hE
      refine ⟨iv.hoists.append he.1, by simp [Malt.Anf.quiet, he.2.1, he.2.2.1], fun hd => ?_, rfl⟩
      obtain ⟨hd1, hd2⟩ := app_nil2 hd
      rw [he.2.2.2 hd2, iv.same hd1]
  | .seq i .tuple es c, n, e', D, n', h => by
      vopen h
      obtain ⟨vs1, d1, n1, hv, h⟩ := h
      have iv := visitEs_inv cfg _ _ _ _ _ hv
      split at h
      · next hc =>
        vclose h; obtain ⟨rfl, rfl, rfl⟩ := h
        exact ⟨iv.hoists, by simp [Malt.Anf.quiet, iv.quiet, hc], fun hd => by rw [iv.same hd], rfl⟩
      · rcases hE : ensureList cfg "Tuple" "elts" vs1 n1 with ⟨vs2, h1, n2⟩
        simp only [hE] at h; vclose h
        obtain ⟨rfl, rfl, rfl⟩ := h
        have he := ensureList_spec' iv.quiet hE
        refine ⟨iv.hoists.append he.1, by simp [Malt.Anf.quiet, he.2.1, he.2.2.1], fun hd => ?_, rfl⟩
        obtain ⟨hd1, hd2⟩ := app_nil2 hd
        rw [he.2.2.2 hd2, iv.same hd1]
  | .seq i .list es c, n, e', D, n', h => by
      vopen h
      obtain ⟨vs1, d1, n1, hv, h⟩ := h
      have iv := visitEs_inv cfg _ _ _ _ _ hv
      split at h
      · next hc =>
        vclose h; obtain ⟨rfl, rfl, rfl⟩ := h
        exact ⟨iv.hoists, by simp [Malt.Anf.quiet, iv.quiet, hc], fun hd => by rw [iv.same hd], rfl⟩
      · rcases hE : ensureList cfg "List" "elts" vs1 n1 with ⟨vs2, h1, n2⟩
        simp only [hE] at h; vclose h
        obtain ⟨rfl, rfl, rfl⟩ := h
        have he := ensureList_spec' iv.quiet hE
        refine ⟨iv.hoists.append he.1, by simp [Malt.Anf.quiet, he.2.1, he.2.2.1], fun hd => ?_, rfl⟩
        obtain ⟨hd1, hd2⟩ := app_nil2 hd
        rw [he.2.2.2 hd2, iv.same hd1]
  | .starred i v c, n, e', D, n', h => by
      vopen h
      obtain ⟨v1, d1, n1, hv, h⟩ := h
      vclose h; obtain ⟨rfl, rfl, rfl⟩ := h
      have iv := visitE_inv cfg _ _ _ _ _ hv
      exact ⟨iv.hoists, by simp [Malt.Anf.quiet, iv.quiet], fun hd => by rw [iv.same hd], rfl⟩
  | .namedexpr i t v, n, e', D, n', h => by
      vopen h
      obtain ⟨v1, d1, n1, hv, s1, d2, n2, hs, h⟩ := h
      vclose h; obtain ⟨rfl, rfl, rfl⟩ := h
      have iv := visitE_inv cfg _ _ _ _ _ hv
      have is := visitE_inv cfg _ _ _ _ _ hs
      refine ⟨iv.hoists.append is.hoists, by simp [Malt.Anf.quiet, iv.quiet, is.quiet], fun hd => ?_, rfl⟩
      obtain ⟨hd1, hd2⟩ := app_nil2 hd
      rw [iv.same hd1, is.same hd2]
  | .comp .., n, e', D, n', h => by simp [visitE] at h
  | .comprehension i t it ifs a, n, e', D, n', h => by
      vopen h
      obtain ⟨t1, d1, n1, ht, b1, d2, n2, hb, e1, d3, n3, he, h⟩ := h
      vclose h; obtain ⟨rfl, rfl, rfl⟩ := h
      have i1 := visitE_inv cfg _ _ _ _ _ ht
      have i2 := visitE_inv cfg _ _ _ _ _ hb
      have i3 := visitEs_inv cfg _ _ _ _ _ he
      refine ⟨(i1.hoists.append i2.hoists).append i3.hoists,
        by simp [Malt.Anf.quiet, i1.quiet, i2.quiet, i3.quiet], fun hd => ?_, rfl⟩
      obtain ⟨hd, hd3⟩ := app_nil2 hd
      obtain ⟨hd1, hd2⟩ := app_nil2 hd
      rw [i1.same hd1, i2.same hd2, i3.same hd3]
  | .arguments i po ar va ko kd kw df, n, e', D, n', h => by
      vopen h
      obtain ⟨x1, d1, n1, h1, x2, d2, n2, h2, x3, d3, n3, h3, x4, d4, n4, h4, x5, d5, n5, h5, x6, d6, n6, h6,
        x7, d7, n7, h7, h⟩ := h
      vclose h; obtain ⟨rfl, rfl, rfl⟩ := h
      have i1 := visitEs_inv cfg _ _ _ _ _ h1
      have i2 := visitEs_inv cfg _ _ _ _ _ h2
      have i3 := visitEs_inv cfg _ _ _ _ _ h3
      have i4 := visitEs_inv cfg _ _ _ _ _ h4
      have i5 := visitEs_inv cfg _ _ _ _ _ h5
      have i6 := visitEs_inv cfg _ _ _ _ _ h6
      have i7 := visitEs_inv cfg _ _ _ _ _ h7
      refine ⟨(((((i1.hoists.append i2.hoists).append i3.hoists).append i4.hoists).append i5.hoists).append
          i6.hoists).append i7.hoists,
        by simp [Malt.Anf.quiet, i1.quiet, i2.quiet, i3.quiet, i4.quiet, i5.quiet, i6.quiet, i7.quiet], fun hd => ?_, rfl⟩
      obtain ⟨hd, hd7⟩ := app_nil2 hd
      obtain ⟨hd, hd6⟩ := app_nil2 hd
      obtain ⟨hd, hd5⟩ := app_nil2 hd
      obtain ⟨hd, hd4⟩ := app_nil2 hd
      obtain ⟨hd, hd3⟩ := app_nil2 hd
      obtain ⟨hd1, hd2⟩ := app_nil2 hd
      rw [i1.same hd1, i2.same hd2, i3.same hd3, i4.same hd4, i5.same hd5, i6.same hd6, i7.same hd7]
  | .arg i nm an, n, e', D, n', h => by
      vopen h
      obtain ⟨v1, d1, n1, hv, h⟩ := h
      vclose h; obtain ⟨rfl, rfl, rfl⟩ := h
      have iv := visitEs_inv cfg _ _ _ _ _ hv
      exact ⟨iv.hoists, by simp [Malt.Anf.quiet, iv.quiet], fun hd => by rw [iv.same hd], rfl⟩
  | .withitem i ce ov, n, e', D, n', h => by
      vopen h
      obtain ⟨v1, d1, n1, hv, s1, d2, n2, hs, h⟩ := h
      vclose h; obtain ⟨rfl, rfl, rfl⟩ := h
      have iv := visitE_inv cfg _ _ _ _ _ hv
      have is := visitEs_inv cfg _ _ _ _ _ hs
      refine ⟨iv.hoists.append is.hoists, by simp [Malt.Anf.quiet, iv.quiet, is.quiet], fun hd => ?_, rfl⟩
      obtain ⟨hd1, hd2⟩ := app_nil2 hd
      rw [iv.same hd1, is.same hd2]
  | .other i k ats ks, n, e', D, n', h => by
      simp only [visitE] at h
      split at h
      · next hk =>       -- Dict
        simp only [bind_ok, Prod.exists] at h
        obtain ⟨ks1, d1, n1, hv, h⟩ := h
        rcases hE1 : ensureList cfg "Dict" "keys" (List.take (dictNk ats) ks1) n1 with ⟨a2, h1, n2⟩
        rcases hE2 : ensureList cfg "Dict" "values" (List.drop (dictNk ats) ks1) n2 with ⟨b2, h2, n3⟩
        simp only [hE1, hE2] at h; vclose h
        obtain ⟨rfl, rfl, rfl⟩ := h
        have iv := visitEs_inv cfg _ _ _ _ _ hv
        have hq := iv.quiet
        rw [quiets_take_drop cfg (dictNk ats), Bool.and_eq_true] at hq
        have he1 := ensureList_spec' hq.1 hE1
        have he2 := ensureList_spec' hq.2 hE2
        have hl1 := ensureList_length cfg "Dict" "keys" (List.take (dictNk ats) ks1) n1
        have hl2 := ensureList_length cfg "Dict" "values" (List.drop (dictNk ats) ks1) n2
        rw [hE1] at hl1; rw [hE2] at hl2
        have hr := take_drop_rebuild _ ks1 a2 b2 hl1 hl2
        refine ⟨(iv.hoists.append he1.1).append he2.1, ?_, fun hd => ?_, rfl⟩
        · simp only [Malt.Anf.quiet, hk, if_true, hr.1, hr.2, quiets_append, he1.2.1, he1.2.2.1, he2.2.1, he2.2.2.1,
            Bool.and_self]
        · obtain ⟨hd, hd3⟩ := app_nil2 hd
          obtain ⟨hd1, hd2⟩ := app_nil2 hd
          rw [he1.2.2.2 hd2, he2.2.2.2 hd3, List.take_append_drop, iv.same hd1]
      next hk0 =>
      split at h
      · next hk =>       -- Slice
        simp only [bind_ok, Prod.exists] at h
        obtain ⟨ks1, d1, n1, hv, h⟩ := h
        vclose h; obtain ⟨rfl, rfl, rfl⟩ := h
        have iv := visitEs_inv cfg _ _ _ _ _ hv
        exact ⟨iv.hoists, by simp [Malt.Anf.quiet, hk0, hk, iv.quiet], fun hd => by rw [iv.same hd], rfl⟩
      next hk1 =>
      split at h
      · next hk =>       -- Yield
        simp only [bind_ok, Prod.exists] at h
        obtain ⟨ks1, d1, n1, hv, h⟩ := h
        rcases hE : ensureList cfg "Yield" "value" ks1 n1 with ⟨vs2, h1, n2⟩
        simp only [hE] at h; vclose h
        obtain ⟨rfl, rfl, rfl⟩ := h
        have iv := visitEs_inv cfg _ _ _ _ _ hv
        have he := ensureList_spec' iv.quiet hE
        refine ⟨iv.hoists.append he.1, by simp [Malt.Anf.quiet, hk0, hk1, hk, he.2.1, he.2.2.1], fun hd => ?_, rfl⟩
        obtain ⟨hd1, hd2⟩ := app_nil2 hd
        rw [he.2.2.2 hd2, iv.same hd1]
      next hk2 =>
      split at h
      · next hk =>       -- Await / YieldFrom
        simp only [bind_ok, Prod.exists] at h
        obtain ⟨ks1, d1, n1, hv, h⟩ := h
        rcases hE : ensureList cfg k "value" ks1 n1 with ⟨vs2, h1, n2⟩
        simp only [hE] at h; vclose h
        obtain ⟨-, hnil, rfl, rfl, rfl⟩ := h
        have iv := visitEs_inv cfg _ _ _ _ _ hv
        have he := ensureList_spec' iv.quiet hE
        refine ⟨iv.hoists.append he.1, ?_, fun hd => ?_, rfl⟩
        · simp only [Malt.Anf.quiet, hk0, hk1, hk2, hk, if_true, he.2.1, he.2.2.1, Bool.and_self]; simp
        · obtain ⟨hd1, hd2⟩ := app_nil2 hd
          rw [he.2.2.2 hd2, iv.same hd1]
      next hk3 =>
      split at h
      · next hk =>       -- JoinedStr
        simp only [bind_ok, Prod.exists] at h
        obtain ⟨ks1, d1, n1, hv, h⟩ := h
        rcases hE : ensureList cfg k "values" ks1 n1 with ⟨vs2, h1, n2⟩
        simp only [hE] at h; vclose h
        obtain ⟨-, hnil, rfl, rfl, rfl⟩ := h
        have iv := visitEs_inv cfg _ _ _ _ _ hv
        have he := ensureList_spec' iv.quiet hE
        refine ⟨iv.hoists.append he.1, ?_, fun hd => ?_, rfl⟩
        · simp only [Malt.Anf.quiet, hk0, hk1, hk2, hk3, hk, if_true, he.2.1, he.2.2.1, Bool.and_self]; simp
        · obtain ⟨hd1, hd2⟩ := app_nil2 hd
          rw [he.2.2.2 hd2, iv.same hd1]
      next hk4 =>
      split at h
      · next hk =>       -- FormattedValue
        simp only [bind_ok, Prod.exists] at h
        obtain ⟨ks1, d1, n1, hv, h⟩ := h
        rcases hE1 : ensureList cfg k "value" (List.take 1 ks1) n1 with ⟨a2, h1, n2⟩
        simp only [hE1] at h
        split at h
        · simp at h
        next hconv =>
        rcases hE2 : ensureList cfg k "format_spec" (List.drop 1 ks1) n2 with ⟨b2, h2, n3⟩
        simp only [hE2] at h; vclose h
        obtain ⟨-, hnil, rfl, rfl, rfl⟩ := h
        have iv := visitEs_inv cfg _ _ _ _ _ hv
        have hq := iv.quiet
        rw [quiets_take_drop cfg 1, Bool.and_eq_true] at hq
        have he1 := ensureList_spec' hq.1 hE1
        have he2 := ensureList_spec' hq.2 hE2
        have hl1 := ensureList_length cfg k "value" (List.take 1 ks1) n1
        have hl2 := ensureList_length cfg k "format_spec" (List.drop 1 ks1) n2
        rw [hE1] at hl1; rw [hE2] at hl2
        have hr := take_drop_rebuild _ ks1 a2 b2 hl1 hl2
        refine ⟨(iv.hoists.append he1.1).append he2.1, ?_, fun hd => ?_, rfl⟩
        · simp only [Malt.Anf.quiet, hk0, hk1, hk2, hk3, hk4, hk, if_true, hr.1, hr.2, quiets_append, he1.2.1,
            he1.2.2.1, he2.2.1, he2.2.2.1, Bool.and_self]
          simpa using hconv
        · obtain ⟨hd, hd3⟩ := app_nil2 hd
          obtain ⟨hd1, hd2⟩ := app_nil2 hd
          rw [he1.2.2.2 hd2, he2.2.2.2 hd3, List.take_append_drop, iv.same hd1]
      · simp at h
theorem visitEs_inv (cfg : Config) : ∀ (es : List Expr) (n : Nat) (es' : List Expr) (D : List Stmt) (n' : Nat),
    visitEs cfg es n = .ok (es', D, n') → VsInv cfg es n es' D n'
  | [], n, es', D, n', h => by
      vopen h; vclose h; obtain ⟨rfl, rfl, rfl⟩ := h
      exact ⟨rfl, rfl, fun _ => rfl⟩
  | e :: es, n, es', D, n', h => by
      vopen h
      obtain ⟨v1, d1, n1, hv, s1, d2, n2, hs, h⟩ := h
      vclose h; obtain ⟨rfl, rfl, rfl⟩ := h
      have iv := visitE_inv cfg _ _ _ _ _ hv
      have is := visitEs_inv cfg _ _ _ _ _ hs
      refine ⟨iv.hoists.append is.hoists, by simp [quiets, iv.quiet, is.quiet], fun hd => ?_⟩
      obtain ⟨hd1, hd2⟩ := app_nil2 hd
      rw [iv.same hd1, is.same hd2]
end

end Malt.Anf
