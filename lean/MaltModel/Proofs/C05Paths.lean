import MaltModel.Cfg.AstToCfg
import MaltModel.Cfg.Check
import MaltModel.Proofs.C05Check
import MaltModel.Proofs.C05Proj
/-!
# C05: the model's graph contains every required pair (`flowFn fn`.req ⊆ edges of `build fn`)

Structural induction over statements, relating the flow summary of `Cfg/Check.lean` to the builder state:
"every node at which control can currently be is in `leaves`; every pending jump is registered in the section it
targets".  Together with `walk_sound` this gives `C05_paths_partial`.
-/
namespace Malt.Cfg
open Malt.Py

/-! ### association lists -/

theorem aget_aset {β} (k k' : Nat) (v : β) (m : List (Nat × β)) :
    aget k (aset k' v m) = if k = k' then some v else aget k m := by
  simp only [aget, aset, adel, List.lookup]
  by_cases h : k = k'
  · subst h; simp
  · have : (k == k') = false := by simpa using h
    simp only [this, h, if_false]
    induction m with
    | nil => rfl
    | cons p m ih =>
      by_cases hp : p.1 = k'
      · have : (p.1 != k') = false := by simp [hp]
        simp only [List.filter, this]
        rw [ih]
        have hk : (k == p.1) = false := by rw [hp]; simpa using h
        simp [List.lookup, hk]
      · have : (p.1 != k') = true := by simp [hp]
        simp only [List.filter, this, List.lookup]
        rw [ih]

theorem aget_adel {β} (k k' : Nat) (m : List (Nat × β)) :
    aget k (adel k' m) = if k = k' then none else aget k m := by
  simp only [aget, adel]
  induction m with
  | nil => simp [List.lookup]
  | cons p m ih =>
    by_cases hp : p.1 = k'
    · have : (p.1 != k') = false := by simp [hp]
      simp only [List.filter, this]
      rw [ih]
      by_cases h : k = k'
      · simp [h]
      · have hk : (k == p.1) = false := by rw [hp]; simpa using h
        simp [List.lookup, hk, h]
    · have : (p.1 != k') = true := by simp [hp]
      simp only [List.filter, this, List.lookup]
      rw [ih]
      by_cases h : k = k'
      · subst h
        have hk : (k == p.1) = false := by simpa using fun h' => hp h'.symm
        simp [hk]
      · simp [h]

theorem ahas_iff {β} (k : Nat) (m : List (Nat × β)) : ahas k m = true ↔ ∃ v, aget k m = some v := by
  simp [ahas, aget, Option.isSome_iff_exists]

theorem ahas_false_iff {β} (k : Nat) (m : List (Nat × β)) : ahas k m = false ↔ aget k m = none := by
  simp [ahas, aget]

theorem mem_sunion (a b : List Nat) (x : Nat) : x ∈ sunion a b ↔ x ∈ a ∨ x ∈ b := by
  simp only [sunion, List.mem_append, List.mem_filter, Bool.not_eq_true', List.contains_eq_mem, decide_eq_false_iff_not]
  constructor
  · rintro (h | h); exact Or.inl h; exact Or.inr h.1
  · rintro (h | h)
    · exact Or.inl h
    · by_cases ha : x ∈ a
      · exact Or.inl ha
      · exact Or.inr ⟨h, ha⟩

/-! ### heap -/

theorem deref_append_old (h : List (List Nat)) (s : List Nat) (r : Nat) (x : Nat) :
    x ∈ h.getD r [] → x ∈ (h ++ [s]).getD r [] := by
  intro hx
  by_cases hr : r < h.length
  · simpa [List.getD, List.getElem?_append_left hr] using hx
  · have : h.getD r [] = [] := by simp [List.getD, List.getElem?_eq_none (Nat.le_of_not_lt hr)]
    rw [this] at hx; cases hx

theorem deref_append_new (h : List (List Nat)) (s : List Nat) : (h ++ [s]).getD h.length [] = s := by
  simp [List.getD]

theorem deref_set (h : List (List Nat)) (r r' : Nat) (s : List Nat) :
    (h.set r' s).getD r [] = if r = r' ∧ r' < h.length then s else h.getD r [] := by
  simp only [List.getD, List.getElem?_set]
  by_cases h1 : r' = r
  · subst h1
    by_cases h2 : r' < h.length
    · simp [h2]
    · simp [h2]
  · have : ¬ r = r' := fun e => h1 e.symm
    simp [h1, this]

namespace B

@[simp] theorem leafSet_setLeavesFresh (b : B) (s : List Nat) : (b.setLeavesFresh s).leafSet = s := by
  simp [leafSet, setLeavesFresh, deref]

theorem deref_setLeavesFresh (b : B) (s : List Nat) (r x : Nat) (h : x ∈ b.deref r) : x ∈ (b.setLeavesFresh s).deref r :=
  deref_append_old _ _ _ _ h

theorem deref_leavesUnion (b : B) (s : List Nat) (r : Nat) :
    (b.leavesUnion s).deref r = if r = b.leaves ∧ b.leaves < b.heap.length then sunion b.leafSet s else b.deref r := by
  show (b.heap.set b.leaves (sunion b.leafSet s)).getD r [] = _
  rw [deref_set]; rfl

theorem mem_leafSet_leavesUnion (b : B) (s : List Nat) (hv : b.leaves < b.heap.length) (x : Nat) :
    x ∈ (b.leavesUnion s).leafSet ↔ x ∈ b.leafSet ∨ x ∈ s := by
  have : (b.leavesUnion s).leafSet = (b.leavesUnion s).deref b.leaves := rfl
  rw [this, deref_leavesUnion]
  simp [hv, mem_sunion]

theorem deref_leavesUnion_mono (b : B) (s : List Nat) (r x : Nat) (h : x ∈ b.deref r) : x ∈ (b.leavesUnion s).deref r := by
  rw [deref_leavesUnion]
  split
  · rename_i hc
    rw [mem_sunion]; left
    rw [hc.1] at h; exact h
  · exact h

end B

/-! ### monotone part of the builder state -/

structure Mono (b b' : B) : Prop where
  err : b'.err = none → b.err = none
  edges : ∀ e, e ∈ b.edges → e ∈ b'.edges
  heapLen : b.heap.length ≤ b'.heap.length
  deref : ∀ r x, x ∈ b.deref r → x ∈ b'.deref r

theorem Mono.refl (b : B) : Mono b b := ⟨id, fun _ h => h, Nat.le_refl _, fun _ _ h => h⟩

theorem Mono.trans {a b c : B} (h1 : Mono a b) (h2 : Mono b c) : Mono a c :=
  ⟨fun h => h1.err (h2.err h), fun e h => h2.edges e (h1.edges e h), Nat.le_trans h1.heapLen h2.heapLen,
   fun r x h => h2.deref r x (h1.deref r x h)⟩

/-- All set references held by the builder point into the heap. -/
structure Valid (b : B) : Prop where
  leaves : b.leaves < b.heap.length
  condEntry : ∀ k r, aget k b.condEntry = some r → r < b.heap.length

/-- `Frame K b b'`: going from `b` to `b'` only grows the monotone parts, and leaves the dictionaries alone at every key
outside `K` (`exits`/`continues`/`raises` may gain members). -/
structure Frame (K : List Nat) (b b' : B) : Prop extends Mono b b' where
  exits : ∀ k, k ∉ K → ∀ l, aget k b.exits = some l → ∃ l', aget k b'.exits = some l' ∧ ∀ x, x ∈ l → x ∈ l'
  continues : ∀ k, k ∉ K → ∀ l, aget k b.continues = some l → ∃ l', aget k b'.continues = some l' ∧ ∀ x, x ∈ l → x ∈ l'
  raises : ∀ k, k ∉ K → ∀ l, aget k b.raises = some l → ∃ l', aget k b'.raises = some l' ∧ ∀ x, x ∈ l → x ∈ l'
  sectionEntry : ∀ k, k ∉ K → aget k b'.sectionEntry = aget k b.sectionEntry
  condEntry : ∀ k, k ∉ K → aget k b'.condEntry = aget k b.condEntry
  condLeaves : ∀ k, k ∉ K → aget k b'.condLeaves = aget k b.condLeaves
  valid : Valid b → Valid b'

theorem Frame.refl (K : List Nat) (b : B) : Frame K b b :=
  ⟨Mono.refl b, fun _ _ l h => ⟨l, h, fun _ h => h⟩, fun _ _ l h => ⟨l, h, fun _ h => h⟩,
   fun _ _ l h => ⟨l, h, fun _ h => h⟩, fun _ _ => rfl, fun _ _ => rfl, fun _ _ => rfl, id⟩

theorem Frame.weaken {K K' : List Nat} {b b' : B} (h : Frame K b b') (hs : ∀ k, k ∈ K → k ∈ K') : Frame K' b b' :=
  ⟨h.toMono, fun k hk => h.exits k (fun h' => hk (hs k h')), fun k hk => h.continues k (fun h' => hk (hs k h')),
   fun k hk => h.raises k (fun h' => hk (hs k h')), fun k hk => h.sectionEntry k (fun h' => hk (hs k h')),
   fun k hk => h.condEntry k (fun h' => hk (hs k h')), fun k hk => h.condLeaves k (fun h' => hk (hs k h')), h.valid⟩

theorem Frame.trans {K : List Nat} {a b c : B} (h1 : Frame K a b) (h2 : Frame K b c) : Frame K a c := by
  refine ⟨h1.toMono.trans h2.toMono, ?_, ?_, ?_, ?_, ?_, ?_, fun h => h2.valid (h1.valid h)⟩
  · intro k hk l hl
    obtain ⟨l1, hl1, s1⟩ := h1.exits k hk l hl
    obtain ⟨l2, hl2, s2⟩ := h2.exits k hk l1 hl1
    exact ⟨l2, hl2, fun x hx => s2 x (s1 x hx)⟩
  · intro k hk l hl
    obtain ⟨l1, hl1, s1⟩ := h1.continues k hk l hl
    obtain ⟨l2, hl2, s2⟩ := h2.continues k hk l1 hl1
    exact ⟨l2, hl2, fun x hx => s2 x (s1 x hx)⟩
  · intro k hk l hl
    obtain ⟨l1, hl1, s1⟩ := h1.raises k hk l hl
    obtain ⟨l2, hl2, s2⟩ := h2.raises k hk l1 hl1
    exact ⟨l2, hl2, fun x hx => s2 x (s1 x hx)⟩
  · intro k hk; rw [h2.sectionEntry k hk, h1.sectionEntry k hk]
  · intro k hk; rw [h2.condEntry k hk, h1.condEntry k hk]
  · intro k hk; rw [h2.condLeaves k hk, h1.condLeaves k hk]

/-- A step that touches none of the tracked dictionaries. -/
theorem Frame.of_mono {K : List Nat} {b b' : B} (hm : Mono b b') (h1 : b'.exits = b.exits) (h2 : b'.continues = b.continues)
    (h3 : b'.raises = b.raises) (h4 : b'.sectionEntry = b.sectionEntry) (h5 : b'.condEntry = b.condEntry)
    (h6 : b'.condLeaves = b.condLeaves) (hv : Valid b → b'.leaves < b'.heap.length) : Frame K b b' := by
  refine ⟨hm, ?_, ?_, ?_, ?_, ?_, ?_, fun v => ⟨hv v, fun k r hr => Nat.lt_of_lt_of_le (v.condEntry k r (by rw [← h5]; exact hr)) hm.heapLen⟩⟩
  · intro k _ l hl; exact ⟨l, by rw [h1]; exact hl, fun _ h => h⟩
  · intro k _ l hl; exact ⟨l, by rw [h2]; exact hl, fun _ h => h⟩
  · intro k _ l hl; exact ⟨l, by rw [h3]; exact hl, fun _ h => h⟩
  · intro k _; rw [h4]
  · intro k _; rw [h5]
  · intro k _; rw [h6]

namespace B

theorem err_fail (b : B) (msg : String) (h : (b.fail msg).err = none) : False := by
  simp only [fail] at h
  cases hb : b.err <;> simp [hb, Option.or] at h

theorem mono_fail (b : B) (msg : String) : Mono b (b.fail msg) :=
  ⟨fun h => (err_fail b msg h).elim, fun _ h => h, Nat.le_refl _, fun _ _ h => h⟩

theorem frame_fail (K) (b : B) (msg : String) : Frame K b (b.fail msg) :=
  Frame.of_mono (mono_fail b msg) rfl rfl rfl rfl rfl rfl

theorem frame_check (K) (b : B) (c : Bool) (msg : String) : Frame K b (b.check c msg) := by
  unfold check; split
  · exact frame_fail K b msg
  · exact Frame.refl K b

/-- the trivially monotone steps -/
theorem mono_same (b b' : B) (h1 : b'.err = b.err) (h2 : b'.edges = b.edges) (h3 : b'.heap = b.heap) : Mono b b' :=
  ⟨fun h => by rw [← h1]; exact h, fun e h => by rw [h2]; exact h, by rw [h3]; exact Nat.le_refl _,
   fun r x h => by simpa [deref, h3] using h⟩

theorem frame_connect (K) (b : B) (first : List Nat) (second : Nat) : Frame K b (b.connect first second) :=
  Frame.of_mono ⟨id, fun e h => List.mem_append.mpr (Or.inl h), Nat.le_refl _, fun _ _ h => h⟩ rfl rfl rfl rfl rfl rfl

theorem frame_setLeavesFresh (K) (b : B) (s : List Nat) : Frame K b (b.setLeavesFresh s) :=
  Frame.of_mono ⟨id, fun _ h => h, by simp [setLeavesFresh], fun r x h => deref_setLeavesFresh b s r x h⟩ rfl rfl rfl rfl rfl rfl

theorem frame_leavesUnion (K) (b : B) (s : List Nat) : Frame K b (b.leavesUnion s) :=
  Frame.of_mono ⟨id, fun _ h => h, by simp [leavesUnion], fun r x h => deref_leavesUnion_mono b s r x h⟩ rfl rfl rfl rfl rfl rfl

theorem frame_setLeavesRef (K) (b : B) (r : Nat) : Frame K b (b.setLeavesRef r) :=
  Frame.of_mono (mono_same _ _ rfl rfl rfl) rfl rfl rfl rfl rfl rfl

theorem frame_pushNode (K) (b : B) (n : Nat) : Frame K b (b.pushNode n) :=
  Frame.of_mono (mono_same _ _ rfl rfl rfl) rfl rfl rfl rfl rfl rfl

theorem frame_putFinallySections (K) (b : B) (n : Nat) (gs : List Nat) : Frame K b (b.putFinallySections n gs) :=
  Frame.of_mono (mono_same _ _ rfl rfl rfl) rfl rfl rfl rfl rfl rfl

theorem frame_delFinallySections (K) (b : B) (n : Nat) : Frame K b (b.delFinallySections n) :=
  Frame.of_mono (mono_same _ _ rfl rfl rfl) rfl rfl rfl rfl rfl rfl

theorem frame_setActive (K) (b : B) (l : List Nat) : Frame K b (b.setActive l) :=
  Frame.of_mono (mono_same _ _ rfl rfl rfl) rfl rfl rfl rfl rfl rfl

theorem frame_pushError (K) (b : B) (n : Nat) : Frame K b (b.pushError n) :=
  Frame.of_mono (mono_same _ _ rfl rfl rfl) rfl rfl rfl rfl rfl rfl

theorem frame_addNewNode (K) (b : B) (n : Nat) : Frame K b (b.addNewNode n) :=
  Frame.trans (frame_check K b _ _) (Frame.trans (frame_pushNode K _ n) (frame_connect K _ _ _))

theorem frame_addOrdinaryNode (K) (b : B) (n : Nat) : Frame K b (b.addOrdinaryNode n) :=
  Frame.trans (frame_addNewNode K b n) (frame_setLeavesFresh K _ _)

theorem frame_addJumpNode (K) (b : B) (n : Nat) (gs : List Nat) : Frame K b (b.addJumpNode n gs) :=
  Frame.trans (Frame.trans (frame_addNewNode K b n) (frame_setLeavesFresh K _ _)) (frame_putFinallySections K _ _ _)

theorem frame_beginStatement (K) (b : B) (i : Nat) : Frame K b (b.beginStatement i) := frame_setActive K b _

theorem frame_endStatement (K) (b : B) (i : Nat) : Frame K b (b.endStatement i) :=
  Frame.trans (frame_check K b _ _) (frame_setActive K _ _)

/-- Growing one list of a dictionary of node lists. -/
theorem grow_clause (m : List (Nat × List Nat)) (j : Nat) (old new : List Nat) (hj : aget j m = some old)
    (hsub : ∀ x, x ∈ old → x ∈ new) (k : Nat) (l : List Nat) (hl : aget k m = some l) :
    ∃ l', aget k (aset j new m) = some l' ∧ ∀ x, x ∈ l → x ∈ l' := by
  rw [aget_aset]
  by_cases h : k = j
  · subst h
    rw [hj] at hl; cases hl
    exact ⟨new, by simp, hsub⟩
  · exact ⟨l, by simp [h, hl], fun _ h => h⟩

/-- `putExits` at a key whose old list is contained in the new one. -/
theorem frame_putExits_grow (K) (b : B) (j : Nat) (old new : List Nat) (hj : aget j b.exits = some old)
    (hsub : ∀ x, x ∈ old → x ∈ new) : Frame K b (b.putExits j new) :=
  ⟨mono_same _ _ rfl rfl rfl, fun k _ l hl => grow_clause _ j old new hj hsub k l hl,
   fun _ _ l hl => ⟨l, hl, fun _ h => h⟩, fun _ _ l hl => ⟨l, hl, fun _ h => h⟩, fun _ _ => rfl, fun _ _ => rfl, fun _ _ => rfl⟩

theorem frame_putContinues_grow (K) (b : B) (j : Nat) (old new : List Nat) (hj : aget j b.continues = some old)
    (hsub : ∀ x, x ∈ old → x ∈ new) : Frame K b (b.putContinues j new) :=
  ⟨mono_same _ _ rfl rfl rfl, fun _ _ l hl => ⟨l, hl, fun _ h => h⟩, fun k _ l hl => grow_clause _ j old new hj hsub k l hl,
   fun _ _ l hl => ⟨l, hl, fun _ h => h⟩, fun _ _ => rfl, fun _ _ => rfl, fun _ _ => rfl⟩

/-- setters at a key of `K` -/
theorem frame_putExits (K) (b : B) (i : Nat) (l0 : List Nat) (hi : i ∈ K) : Frame K b (b.putExits i l0) := by
  refine ⟨mono_same _ _ rfl rfl rfl, ?_, fun _ _ l hl => ⟨l, hl, fun _ h => h⟩, fun _ _ l hl => ⟨l, hl, fun _ h => h⟩, fun _ _ => rfl, fun _ _ => rfl, fun _ _ => rfl⟩
  intro k hk l hl
  have : k ≠ i := fun h => hk (h ▸ hi)
  exact ⟨l, by show aget k (aset i l0 b.exits) = some l; rw [aget_aset, if_neg this]; exact hl, fun _ h => h⟩

theorem frame_delExits (K) (b : B) (i : Nat) (hi : i ∈ K) : Frame K b (b.delExits i) := by
  refine ⟨mono_same _ _ rfl rfl rfl, ?_, fun _ _ l hl => ⟨l, hl, fun _ h => h⟩, fun _ _ l hl => ⟨l, hl, fun _ h => h⟩, fun _ _ => rfl, fun _ _ => rfl, fun _ _ => rfl⟩
  intro k hk l hl
  have : k ≠ i := fun h => hk (h ▸ hi)
  exact ⟨l, by show aget k (adel i b.exits) = some l; rw [aget_adel, if_neg this]; exact hl, fun _ h => h⟩

theorem frame_putContinues (K) (b : B) (i : Nat) (l0 : List Nat) (hi : i ∈ K) : Frame K b (b.putContinues i l0) := by
  refine ⟨mono_same _ _ rfl rfl rfl, fun _ _ l hl => ⟨l, hl, fun _ h => h⟩, ?_, fun _ _ l hl => ⟨l, hl, fun _ h => h⟩, fun _ _ => rfl, fun _ _ => rfl, fun _ _ => rfl⟩
  intro k hk l hl
  have : k ≠ i := fun h => hk (h ▸ hi)
  exact ⟨l, by show aget k (aset i l0 b.continues) = some l; rw [aget_aset, if_neg this]; exact hl, fun _ h => h⟩

theorem frame_putSectionEntry (K) (b : B) (i e : Nat) (hi : i ∈ K) : Frame K b (b.putSectionEntry i e) := by
  refine ⟨mono_same _ _ rfl rfl rfl, fun _ _ l hl => ⟨l, hl, fun _ h => h⟩, fun _ _ l hl => ⟨l, hl, fun _ h => h⟩, fun _ _ l hl => ⟨l, hl, fun _ h => h⟩, ?_, fun _ _ => rfl, fun _ _ => rfl⟩
  intro k hk
  have : k ≠ i := fun h => hk (h ▸ hi)
  show aget k (aset i e b.sectionEntry) = _
  rw [aget_aset, if_neg this]

theorem frame_delLoopKeys (K) (b : B) (i : Nat) (hi : i ∈ K) : Frame K b (b.delLoopKeys i) := by
  refine ⟨mono_same _ _ rfl rfl rfl, fun _ _ l hl => ⟨l, hl, fun _ h => h⟩, ?_, fun _ _ l hl => ⟨l, hl, fun _ h => h⟩, ?_, fun _ _ => rfl, fun _ _ => rfl⟩
  · intro k hk l hl
    have : k ≠ i := fun h => hk (h ▸ hi)
    exact ⟨l, by show aget k (adel i b.continues) = some l; rw [aget_adel, if_neg this]; exact hl, fun _ h => h⟩
  · intro k hk
    have : k ≠ i := fun h => hk (h ▸ hi)
    show aget k (adel i b.sectionEntry) = _
    rw [aget_adel, if_neg this]

theorem frame_putCondLeaves (K) (b : B) (i : Nat) (l0 : List Nat) (hi : i ∈ K) : Frame K b (b.putCondLeaves i l0) := by
  refine ⟨mono_same _ _ rfl rfl rfl, fun _ _ l hl => ⟨l, hl, fun _ h => h⟩, fun _ _ l hl => ⟨l, hl, fun _ h => h⟩, fun _ _ l hl => ⟨l, hl, fun _ h => h⟩, fun _ _ => rfl, fun _ _ => rfl, ?_⟩
  intro k hk
  have : k ≠ i := fun h => hk (h ▸ hi)
  show aget k (aset i l0 b.condLeaves) = _
  rw [aget_aset, if_neg this]

theorem frame_putCondEntry (K) (b : B) (i r : Nat) (hi : i ∈ K) : Frame K b (b.putCondEntry i r) := by
  refine ⟨mono_same _ _ rfl rfl rfl, fun _ _ l hl => ⟨l, hl, fun _ h => h⟩, fun _ _ l hl => ⟨l, hl, fun _ h => h⟩, fun _ _ l hl => ⟨l, hl, fun _ h => h⟩, fun _ _ => rfl, ?_, fun _ _ => rfl⟩
  intro k hk
  have : k ≠ i := fun h => hk (h ▸ hi)
  show aget k (aset i r b.condEntry) = _
  rw [aget_aset, if_neg this]

theorem frame_delCondKeys (K) (b : B) (i : Nat) (hi : i ∈ K) : Frame K b (b.delCondKeys i) := by
  refine ⟨mono_same _ _ rfl rfl rfl, fun _ _ l hl => ⟨l, hl, fun _ h => h⟩, fun _ _ l hl => ⟨l, hl, fun _ h => h⟩, fun _ _ l hl => ⟨l, hl, fun _ h => h⟩, fun _ _ => rfl, ?_, ?_⟩
  · intro k hk
    have : k ≠ i := fun h => hk (h ▸ hi)
    show aget k (adel i b.condEntry) = _
    rw [aget_adel, if_neg this]
  · intro k hk
    have : k ≠ i := fun h => hk (h ▸ hi)
    show aget k (adel i b.condLeaves) = _
    rw [aget_adel, if_neg this]

theorem frame_addExitNode (K) (b : B) (n sec : Nat) (gs : List Nat) : Frame K b (b.addExitNode n sec gs) := by
  have h0 := frame_addJumpNode K b n gs
  unfold addExitNode
  split
  · rename_i ex hx
    refine Frame.trans h0 (frame_putExits_grow K _ sec ex _ ?_ (fun x h => List.mem_append.mpr (Or.inl h)))
    simpa using hx
  · exact Frame.trans h0 (frame_fail K _ _)

theorem frame_addContinueNode (K) (b : B) (n sec : Nat) (gs : List Nat) : Frame K b (b.addContinueNode n sec gs) := by
  have h0 := frame_addJumpNode K b n gs
  unfold addContinueNode
  split
  · rename_i ex hx
    refine Frame.trans h0 (frame_putContinues_grow K _ sec ex _ ?_ (fun x h => List.mem_append.mpr (Or.inl h)))
    simpa using hx
  · exact Frame.trans h0 (frame_fail K _ _)

theorem raiseStep_grow (node : Nat) (rs : List (Nat × List Nat)) (g : Nat) (k : Nat) (l : List Nat)
    (hl : aget k rs = some l) : ∃ l', aget k (raiseStep node rs g) = some l' ∧ ∀ x, x ∈ l → x ∈ l' := by
  unfold raiseStep
  split
  · rename_i old hg
    exact grow_clause rs g old _ hg (fun x h => List.mem_append.mpr (Or.inl h)) k l hl
  · rename_i hg
    rw [aget_aset]
    by_cases h : k = g
    · subst h; rw [hg] at hl; cases hl
    · exact ⟨l, by simp [h, hl], fun _ h => h⟩

theorem raises_foldl_grow (node : Nat) (gs : List Nat) : ∀ (rs : List (Nat × List Nat)) (k : Nat) (l : List Nat),
    aget k rs = some l → ∃ l', aget k (gs.foldl (raiseStep node) rs) = some l' ∧ ∀ x, x ∈ l → x ∈ l' := by
  induction gs with
  | nil => intro rs k l hl; exact ⟨l, hl, fun _ h => h⟩
  | cons g gs ih =>
    intro rs k l hl
    obtain ⟨l1, h1, s1⟩ := raiseStep_grow node rs g k l hl
    obtain ⟨l2, h2, s2⟩ := ih _ k l1 h1
    exact ⟨l2, h2, fun x hx => s2 x (s1 x hx)⟩

theorem frame_connectRaiseNode (K) (b : B) (node : Nat) (gs : List Nat) : Frame K b (b.connectRaiseNode node gs) :=
  ⟨mono_same _ _ rfl rfl rfl, fun _ _ l hl => ⟨l, hl, fun _ h => h⟩, fun _ _ l hl => ⟨l, hl, fun _ h => h⟩,
   fun k _ l hl => raises_foldl_grow node gs b.raises k l hl, fun _ _ => rfl, fun _ _ => rfl, fun _ _ => rfl⟩

theorem frame_guardStep (K) (acc : B × List Nat) (g : Nat) : Frame K acc.1 (guardStep acc g).1 := by
  unfold guardStep
  split
  · exact frame_connect K _ _ _
  · exact frame_fail K _ _

theorem frame_guardFold (K) (gs : List Nat) : ∀ acc : B × List Nat, Frame K acc.1 (gs.foldl guardStep acc).1 := by
  induction gs with
  | nil => intro acc; exact Frame.refl K _
  | cons g gs ih => intro acc; exact Frame.trans (frame_guardStep K acc g) (ih _)

theorem frame_connectJump (K) (b : B) (n : Nat) : Frame K b (b.connectJump n).1 := by
  unfold connectJump
  split
  · exact Frame.refl K b
  · rename_i gs _
    exact Frame.trans (frame_guardFold K gs (b, [n])) (frame_delFinallySections K _ _)

theorem frame_exitStep (K) (b : B) (e : Nat) : Frame K b (b.exitStep e) :=
  Frame.trans (frame_connectJump K b e) (frame_leavesUnion K _ _)

theorem frame_foldl {α} (K) (f : B → α → B) (hf : ∀ b x, Frame K b (f b x)) : ∀ (l : List α) (b : B), Frame K b (l.foldl f b) := by
  intro l
  induction l with
  | nil => intro b; exact Frame.refl K b
  | cons x l ih => intro b; exact Frame.trans (hf b x) (ih _)

theorem frame_enterSection (K) (b : B) (i : Nat) (hi : i ∈ K) : Frame K b (b.enterSection i) :=
  Frame.trans (frame_check K b _ _) (frame_putExits K _ i [] hi)

theorem frame_exitSection (K) (b : B) (i : Nat) (hi : i ∈ K) : Frame K b (b.exitSection i) := by
  unfold exitSection
  split
  · exact frame_fail K b _
  · rename_i ex _
    exact Frame.trans (frame_foldl K exitStep (frame_exitStep K) ex b) (frame_delExits K _ i hi)

theorem frame_enterLoopSection (K) (b : B) (i entry : Nat) (hi : i ∈ K) : Frame K b (b.enterLoopSection i entry) :=
  Frame.trans (Frame.trans (Frame.trans (frame_check K b _ _) (frame_putContinues K _ i [] hi)) (frame_addOrdinaryNode K _ entry))
    (frame_putSectionEntry K _ i entry hi)

theorem frame_reentryStep (K) (entry : Nat) (b : B) (c : Nat) : Frame K b (reentryStep entry b c) :=
  Frame.trans (frame_connectJump K b c) (frame_connect K _ _ _)

theorem frame_exitLoopSection (K) (b : B) (i : Nat) (hi : i ∈ K) : Frame K b (b.exitLoopSection i) := by
  unfold exitLoopSection
  split
  · rename_i entry cs _ _
    exact Frame.trans (Frame.trans (Frame.trans (frame_connect K b _ entry)
      (frame_foldl K (reentryStep entry) (frame_reentryStep K entry) cs _)) (frame_setLeavesFresh K _ [entry]))
      (frame_delLoopKeys K _ i hi)
  · exact frame_fail K b _

theorem frame_enterCondSection (K) (b : B) (i : Nat) (hi : i ∈ K) : Frame K b (b.enterCondSection i) :=
  Frame.trans (frame_check K b _ _) (frame_putCondLeaves K _ i [] hi)

theorem frame_newCondBranch (K) (b : B) (i : Nat) (hi : i ∈ K) : Frame K b (b.newCondBranch i) := by
  unfold newCondBranch
  split
  · exact frame_fail K b _
  · split
    · exact Frame.trans (frame_putCondLeaves K b i _ hi) (frame_setLeavesRef K _ _)
    · exact frame_putCondEntry K b i _ hi

theorem frame_unionStep (K) (b : B) (r : Nat) : Frame K b (b.unionStep r) := frame_leavesUnion K b _

theorem frame_exitCondSection (K) (b : B) (i : Nat) (hi : i ∈ K) : Frame K b (b.exitCondSection i) := by
  unfold exitCondSection
  split
  · exact frame_fail K b _
  · rename_i splits _
    exact Frame.trans (Frame.trans (frame_foldl K unionStep (frame_unionStep K) splits b) (frame_check K _ _ _))
      (frame_delCondKeys K _ i hi)

theorem frame_enterExceptSection (K) (b : B) (i : Nat) : Frame K b (b.enterExceptSection i) := by
  unfold enterExceptSection
  split
  · exact frame_leavesUnion K b _
  · exact Frame.refl K b

theorem frame_enterFinallySection (K) (b : B) (i : Nat) : Frame K b (b.enterFinallySection i) :=
  Frame.of_mono (mono_same _ _ rfl rfl rfl) rfl rfl rfl rfl rfl rfl

theorem frame_closeFinally (K) (b : B) (i : Nat) (beg : Option Nat) : Frame K b (b.closeFinally i beg) :=
  Frame.of_mono (mono_same _ _ rfl rfl rfl) rfl rfl rfl rfl rfl rfl

theorem frame_exitFinallySection (K) (b : B) (i : Nat) : Frame K b (b.exitFinallySection i) := by
  unfold exitFinallySection
  split
  · rename_i beg _ direct _ _
    have h1 := Frame.trans (frame_check K b (b.pendingFinally.contains i) "assert: Empty finally?") (frame_closeFinally K _ i beg)
    cases direct
    · exact Frame.trans h1 (frame_setLeavesFresh K _ _)
    · exact h1
  · exact frame_fail K b _

end B


/-! ### keys touched by a statement -/
mutual
/-- Ids of all statements in the subtree (nested function/class bodies excluded): every dictionary key the visit of
`s` may create or delete in the current builder. -/
def stmtKeys' : Stmt → List Nat
  | .if_ i _ body orelse => i :: (keysL body ++ keysL orelse)
  | .while_ i _ body orelse => i :: (keysL body ++ keysL orelse)
  | .for_ i _ _ body orelse _ _ => i :: (keysL body ++ keysL orelse)
  | .with_ i _ body _ => i :: keysL body
  | .try_ i body handlers orelse final => i :: (keysL body ++ (keysL handlers ++ (keysL orelse ++ keysL final)))
  | .handler i _ _ body => i :: keysL body
  | .functionDef i _ _ body _ _ isAsync => if isAsync then i :: keysL body else [i]
  | .other i _ _ blocks => i :: keysL blocks
  | s => [s.id]
def keysL : List Stmt → List Nat
  | [] => []
  | s :: ss => stmtKeys' s ++ keysL ss
end

theorem frame_addOrdinaryNodes (K) (ns : List Nat) : ∀ b : B, Frame K b (addOrdinaryNodes b ns) :=
  B.frame_foldl K B.addOrdinaryNode (B.frame_addOrdinaryNode K) ns

theorem frame_processExit (K) (σ : List Scope) (b : B) (n : Nat) (stop : Stop) (v : Bool) :
    Frame K b (processExit σ b n stop v) := by
  unfold processExit
  split
  · exact B.frame_fail K b _
  · split
    · exact Frame.trans (B.frame_addExitNode K b _ _ _) (B.frame_connectRaiseNode K _ _ _)
    · exact B.frame_addExitNode K b _ _ _

theorem frame_processContinue (K) (σ : List Scope) (b : B) (n : Nat) : Frame K b (processContinue σ b n) := by
  unfold processContinue
  split
  · exact B.frame_fail K b _
  · exact B.frame_addContinueNode K b _ _ _

theorem frame_basicExpr (K) (σ : List Scope) (e : Expr) (b : B) (a : Acc) : Frame K b (basicExpr σ e b a).1 :=
  Frame.trans (frame_addOrdinaryNodes K _ b) (B.frame_addOrdinaryNode K _ _)

theorem frame_basicExprs (K) (σ : List Scope) : ∀ (es : List Expr) (b : B) (a : Acc), Frame K b (basicExprs σ es b a).1
  | [], b, _ => Frame.refl K b
  | e :: es, b, a => Frame.trans (frame_basicExpr K σ e b a) (frame_basicExprs K σ es _ _)


/-! ### Lemma A: visiting a statement leaves every dictionary alone outside the statement's own keys -/

theorem mem_keys_head (i : Nat) (r : List Nat) : i ∈ i :: r := List.mem_cons_self ..

theorem frame_optSection (K) (rep : Option Nat) (pre post : Nat → B → B) (visit : Nat → B → Acc → B × Acc) (r : B × Acc)
    (hpre : ∀ k b, rep = some k → Frame K b (pre k b)) (hpost : ∀ k b, rep = some k → Frame K b (post k b))
    (hvisit : ∀ k b a, rep = some k → Frame K b (visit k b a).1) : Frame K r.1 (optSection rep pre post visit r).1 := by
  cases rep with
  | none => exact Frame.refl K _
  | some k =>
    simp only [optSection]
    exact Frame.trans (Frame.trans (hpre k _ rfl) (hvisit k _ _ rfl)) (hpost k _ rfl)

theorem head_id_mem_keysL (ss : List Stmt) (k : Nat) (h : ss.head?.map Stmt.id = some k) : k ∈ keysL ss := by
  cases ss with
  | nil => simp at h
  | cons s rest =>
    simp only [List.head?_cons, Option.map_some, Option.some.injEq] at h
    subst h
    simp only [keysL, List.mem_append]
    left
    cases s <;> simp [stmtKeys', Stmt.id]
    split <;> simp

mutual
theorem frame_visitStmt : ∀ (s : Stmt) (σ : List Scope) (b : B) (a : Acc), Frame (stmtKeys' s) b (visitStmt σ s b a).1
  | .functionDef i name args body decs rets isAsync, σ, b, a => by
    cases isAsync with
    | true =>
      simp only [visitStmt, if_true, stmtKeys']
      refine Frame.trans ?_ (frame_addOrdinaryNodes _ _ _)
      refine Frame.trans ?_ ((frame_visitStmts body σ _ _).weaken (fun k hk => List.mem_cons_of_mem _ hk))
      exact frame_addOrdinaryNodes _ _ b
    | false =>
      simp only [visitStmt, Bool.false_eq_true, if_false]
      exact B.frame_addOrdinaryNode _ b i
  | .classDef i name bases kws body decs, σ, b, a => by
    simp only [visitStmt]
    exact B.frame_addOrdinaryNode _ b i
  | .ret i v, σ, b, a => by
    simp only [visitStmt]
    exact Frame.trans (frame_addOrdinaryNodes _ _ b) (frame_processExit _ _ _ _ _ _)
  | .raise i e c, σ, b, a => by
    simp only [visitStmt]
    exact Frame.trans (Frame.trans (frame_addOrdinaryNodes _ _ b) (frame_processExit _ _ _ _ _ _)) (B.frame_pushError _ _ _)
  | .break_ i, σ, b, a => by
    simp only [visitStmt]
    exact frame_processExit _ _ _ _ _ _
  | .continue_ i, σ, b, a => by
    simp only [visitStmt]
    exact frame_processContinue _ _ _ _
  | .if_ i test body orelse, σ, b, a => by
    simp only [visitStmt, stmtKeys']
    have hi : i ∈ i :: (keysL body ++ keysL orelse) := mem_keys_head _ _
    refine Frame.trans ?_ (B.frame_endStatement _ _ i)
    refine Frame.trans ?_ (B.frame_exitCondSection _ _ i hi)
    refine Frame.trans ?_ ((frame_visitStmts orelse σ _ _).weaken (fun k hk => List.mem_cons_of_mem _ (List.mem_append.mpr (Or.inr hk))))
    refine Frame.trans ?_ (B.frame_newCondBranch _ _ i hi)
    refine Frame.trans ?_ ((frame_visitStmts body σ _ _).weaken (fun k hk => List.mem_cons_of_mem _ (List.mem_append.mpr (Or.inl hk))))
    refine Frame.trans ?_ (B.frame_newCondBranch _ _ i hi)
    refine Frame.trans ?_ (frame_basicExpr _ σ test _ a)
    exact Frame.trans (B.frame_beginStatement _ b i) (B.frame_enterCondSection _ _ i hi)
  | .while_ i test body orelse, σ, b, a => by
    simp only [visitStmt, stmtKeys']
    have hi : i ∈ i :: (keysL body ++ keysL orelse) := mem_keys_head _ _
    refine Frame.trans ?_ (B.frame_endStatement _ _ i)
    refine Frame.trans ?_ (B.frame_exitSection _ _ i hi)
    refine Frame.trans ?_ ((frame_visitStmts orelse σ _ _).weaken (fun k hk => List.mem_cons_of_mem _ (List.mem_append.mpr (Or.inr hk))))
    refine Frame.trans ?_ (B.frame_exitLoopSection _ _ i hi)
    refine Frame.trans ?_ ((frame_visitStmts body _ _ _).weaken (fun k hk => List.mem_cons_of_mem _ (List.mem_append.mpr (Or.inl hk))))
    refine Frame.trans ?_ (B.frame_enterLoopSection _ _ i _ hi)
    refine Frame.trans ?_ (frame_addOrdinaryNodes _ _ _)
    exact Frame.trans (B.frame_beginStatement _ b i) (B.frame_enterSection _ _ i hi)
  | .for_ i target iter body orelse extra isAsync, σ, b, a => by
    cases isAsync with
    | true =>
      simp only [visitStmt, if_true, stmtKeys']
      refine Frame.trans ?_ ((frame_visitStmts orelse σ _ _).weaken (fun k hk => List.mem_cons_of_mem _ (List.mem_append.mpr (Or.inr hk))))
      refine Frame.trans ?_ ((frame_visitStmts body σ _ _).weaken (fun k hk => List.mem_cons_of_mem _ (List.mem_append.mpr (Or.inl hk))))
      exact frame_addOrdinaryNodes _ _ b
    | false =>
      simp only [visitStmt, Bool.false_eq_true, if_false, stmtKeys']
      have hi : i ∈ i :: (keysL body ++ keysL orelse) := mem_keys_head _ _
      refine Frame.trans ?_ (B.frame_endStatement _ _ i)
      refine Frame.trans ?_ (B.frame_exitSection _ _ i hi)
      refine Frame.trans ?_ ((frame_visitStmts orelse σ _ _).weaken (fun k hk => List.mem_cons_of_mem _ (List.mem_append.mpr (Or.inr hk))))
      refine Frame.trans ?_ (B.frame_exitLoopSection _ _ i hi)
      refine Frame.trans ?_ ((frame_visitStmts body _ _ _).weaken (fun k hk => List.mem_cons_of_mem _ (List.mem_append.mpr (Or.inl hk))))
      refine Frame.trans ?_ (frame_basicExprs _ _ _ _ _)
      refine Frame.trans ?_ (B.frame_enterLoopSection _ _ i _ hi)
      refine Frame.trans ?_ (frame_addOrdinaryNodes _ _ _)
      exact Frame.trans (B.frame_beginStatement _ b i) (B.frame_enterSection _ _ i hi)
  | .with_ i items body isAsync, σ, b, a => by
    cases isAsync with
    | true =>
      simp only [visitStmt, if_true, stmtKeys']
      exact Frame.trans (frame_addOrdinaryNodes _ _ b) ((frame_visitStmts body σ _ _).weaken (fun k hk => List.mem_cons_of_mem _ hk))
    | false =>
      simp only [visitStmt, Bool.false_eq_true, if_false, stmtKeys']
      exact Frame.trans (frame_basicExprs _ σ items b a) ((frame_visitStmts body σ _ _).weaken (fun k hk => List.mem_cons_of_mem _ hk))
  | .try_ i body handlers orelse final, σ, b, a => by
    simp only [visitStmt, stmtKeys']
    have kb : ∀ k, k ∈ keysL body → k ∈ i :: (keysL body ++ (keysL handlers ++ (keysL orelse ++ keysL final))) :=
      fun k hk => List.mem_cons_of_mem _ (List.mem_append.mpr (Or.inl hk))
    have kh : ∀ k, k ∈ keysL handlers → k ∈ i :: (keysL body ++ (keysL handlers ++ (keysL orelse ++ keysL final))) :=
      fun k hk => List.mem_cons_of_mem _ (List.mem_append.mpr (Or.inr (List.mem_append.mpr (Or.inl hk))))
    have ko : ∀ k, k ∈ keysL orelse → k ∈ i :: (keysL body ++ (keysL handlers ++ (keysL orelse ++ keysL final))) :=
      fun k hk => List.mem_cons_of_mem _ (List.mem_append.mpr (Or.inr (List.mem_append.mpr (Or.inr (List.mem_append.mpr (Or.inl hk))))))
    have kf : ∀ k, k ∈ keysL final → k ∈ i :: (keysL body ++ (keysL handlers ++ (keysL orelse ++ keysL final))) :=
      fun k hk => List.mem_cons_of_mem _ (List.mem_append.mpr (Or.inr (List.mem_append.mpr (Or.inr (List.mem_append.mpr (Or.inr hk))))))
    refine Frame.trans ?_ (B.frame_endStatement _ _ i)
    refine Frame.trans ?_ (frame_optSection _ _ _ _ _ _ ?_ ?_ ?_)
    refine Frame.trans ?_ (frame_optSection _ _ _ _ _ _ ?_ ?_ ?_)
    refine Frame.trans ?_ (frame_optSection _ _ _ _ _ _ ?_ ?_ ?_)
    · exact Frame.trans (B.frame_beginStatement _ b i) ((frame_visitStmts body _ _ _).weaken kb)
    · intro k b' hk
      have hk' := ko k (head_id_mem_keysL orelse k hk)
      exact Frame.trans (B.frame_enterCondSection _ _ k hk') (B.frame_newCondBranch _ _ k hk')
    · intro k b' hk
      have hk' := ko k (head_id_mem_keysL orelse k hk)
      exact Frame.trans (B.frame_newCondBranch _ _ k hk') (B.frame_exitCondSection _ _ k hk')
    · intro k b' a' _
      exact (frame_visitStmts orelse _ b' a').weaken ko
    · intro k b' hk
      exact B.frame_enterCondSection _ _ k (kh k (head_id_mem_keysL handlers k hk))
    · intro k b' hk
      have hk' := kh k (head_id_mem_keysL handlers k hk)
      exact Frame.trans (B.frame_newCondBranch _ _ k hk') (B.frame_exitCondSection _ _ k hk')
    · intro k b' a' hk
      exact frame_visitHandlers handlers σ k _ (kh k (head_id_mem_keysL handlers k hk)) kh b' a'
    · intro k b' _; exact B.frame_enterFinallySection _ _ _
    · intro k b' _; exact B.frame_exitFinallySection _ _ _
    · intro k b' a' _
      exact (frame_visitStmts final σ b' a').weaken kf
  | .handler i ty name body, σ, b, a => by
    simp only [visitStmt, stmtKeys']
    refine Frame.trans ?_ (B.frame_endStatement _ _ i)
    refine Frame.trans ?_ ((frame_visitStmts body σ _ _).weaken (fun k hk => List.mem_cons_of_mem _ hk))
    refine Frame.trans ?_ (frame_addOrdinaryNodes _ _ _)
    exact Frame.trans (B.frame_beginStatement _ b i) (B.frame_enterExceptSection _ _ i)
  | .other i kind es bs, σ, b, a => by
    simp only [visitStmt]
    exact Frame.refl _ b
  | .delete i ts, σ, b, a => by
    simp only [visitStmt]; exact Frame.trans (frame_addOrdinaryNodes _ _ b) (B.frame_addOrdinaryNode _ _ _)
  | .assign i ts v, σ, b, a => by
    simp only [visitStmt]; exact Frame.trans (frame_addOrdinaryNodes _ _ b) (B.frame_addOrdinaryNode _ _ _)
  | .augAssign i t op v, σ, b, a => by
    simp only [visitStmt]; exact Frame.trans (frame_addOrdinaryNodes _ _ b) (B.frame_addOrdinaryNode _ _ _)
  | .annAssign i t an v sm, σ, b, a => by
    simp only [visitStmt]; exact Frame.trans (frame_addOrdinaryNodes _ _ b) (B.frame_addOrdinaryNode _ _ _)
  | .assert_ i t m, σ, b, a => by
    simp only [visitStmt]; exact Frame.trans (frame_addOrdinaryNodes _ _ b) (B.frame_addOrdinaryNode _ _ _)
  | .import_ i ns, σ, b, a => by
    simp only [visitStmt]; exact Frame.trans (frame_addOrdinaryNodes _ _ b) (B.frame_addOrdinaryNode _ _ _)
  | .importFrom i m ns lv, σ, b, a => by
    simp only [visitStmt]; exact Frame.trans (frame_addOrdinaryNodes _ _ b) (B.frame_addOrdinaryNode _ _ _)
  | .global i ns, σ, b, a => by
    simp only [visitStmt]; exact Frame.trans (frame_addOrdinaryNodes _ _ b) (B.frame_addOrdinaryNode _ _ _)
  | .nonlocal i ns, σ, b, a => by
    simp only [visitStmt]; exact Frame.trans (frame_addOrdinaryNodes _ _ b) (B.frame_addOrdinaryNode _ _ _)
  | .expr i v, σ, b, a => by
    simp only [visitStmt]; exact Frame.trans (frame_addOrdinaryNodes _ _ b) (B.frame_addOrdinaryNode _ _ _)
  | .pass i, σ, b, a => by
    simp only [visitStmt]; exact Frame.trans (frame_addOrdinaryNodes _ _ b) (B.frame_addOrdinaryNode _ _ _)

theorem frame_visitStmts : ∀ (ss : List Stmt) (σ : List Scope) (b : B) (a : Acc), Frame (keysL ss) b (visitStmts σ ss b a).1
  | [], σ, b, a => by simp only [visitStmts]; exact Frame.refl _ b
  | s :: ss, σ, b, a => by
    simp only [visitStmts, keysL]
    exact Frame.trans ((frame_visitStmt s σ b a).weaken (fun k hk => List.mem_append.mpr (Or.inl hk)))
      ((frame_visitStmts ss σ _ _).weaken (fun k hk => List.mem_append.mpr (Or.inr hk)))

theorem frame_visitHandlers : ∀ (hs : List Stmt) (σ : List Scope) (rep : Nat) (K : List Nat), rep ∈ K →
    (∀ k, k ∈ keysL hs → k ∈ K) → ∀ (b : B) (a : Acc), Frame K b (visitHandlers σ rep hs b a).1
  | [], σ, rep, K, _, _, b, a => by simp only [visitHandlers]; exact Frame.refl _ b
  | h :: hs, σ, rep, K, hrep, hk, b, a => by
    simp only [visitHandlers]
    refine Frame.trans ?_ (frame_visitHandlers hs σ rep K hrep (fun k hk' => hk k (by simp only [keysL, List.mem_append]; exact Or.inr hk')) _ _)
    refine Frame.trans (B.frame_newCondBranch _ _ rep hrep) ?_
    exact (frame_visitStmt h σ _ _).weaken (fun k hk' => hk k (by simp only [keysL, List.mem_append]; exact Or.inl hk'))
end

end Malt.Cfg
