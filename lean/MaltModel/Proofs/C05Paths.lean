import MaltModel.Cfg.AstToCfg
import MaltModel.Cfg.Check
import MaltModel.Proofs.C05Check
import MaltModel.Proofs.C05Proj
/-!
# C05: the model's graph contains every required pair (`flowFn fn`.req ⊆ edges of `build fn`)

Structural induction over statements, relating the flow summary of `Cfg/Check.lean` to the builder state:
"every node at which control can currently be is in `leaves`; every pending jump is registered in the section it
targets".  Together with `walk_sound` this gives `C05_paths_partial`.
-/
namespace Malt.Cfg
open Malt.Py

/-! ### association lists -/

theorem aget_aset {β} (k k' : Nat) (v : β) (m : List (Nat × β)) :
    aget k (aset k' v m) = if k = k' then some v else aget k m := by
  simp only [aget, aset, adel, List.lookup]
  by_cases h : k = k'
  · subst h; simp
  · have : (k == k') = false := by simpa using h
    simp only [this, h, if_false]
    induction m with
    | nil => rfl
    | cons p m ih =>
      by_cases hp : p.1 = k'
      · have : (p.1 != k') = false := by simp [hp]
        simp only [List.filter, this]
        rw [ih]
        have hk : (k == p.1) = false := by rw [hp]; simpa using h
        simp [List.lookup, hk]
      · have : (p.1 != k') = true := by simp [hp]
        simp only [List.filter, this, List.lookup]
        rw [ih]

theorem aget_adel {β} (k k' : Nat) (m : List (Nat × β)) :
    aget k (adel k' m) = if k = k' then none else aget k m := by
  simp only [aget, adel]
  induction m with
  | nil => simp [List.lookup]
  | cons p m ih =>
    by_cases hp : p.1 = k'
    · have : (p.1 != k') = false := by simp [hp]
      simp only [List.filter, this]
      rw [ih]
      by_cases h : k = k'
      · simp [h]
      · have hk : (k == p.1) = false := by rw [hp]; simpa using h
        simp [List.lookup, hk, h]
    · have : (p.1 != k') = true := by simp [hp]
      simp only [List.filter, this, List.lookup]
      rw [ih]
      by_cases h : k = k'
      · subst h
        have hk : (k == p.1) = false := by simpa using fun h' => hp h'.symm
        simp [hk]
      · simp [h]

theorem ahas_iff {β} (k : Nat) (m : List (Nat × β)) : ahas k m = true ↔ ∃ v, aget k m = some v := by
  simp [ahas, aget, Option.isSome_iff_exists]

theorem ahas_false_iff {β} (k : Nat) (m : List (Nat × β)) : ahas k m = false ↔ aget k m = none := by
  simp [ahas, aget]

theorem mem_sunion (a b : List Nat) (x : Nat) : x ∈ sunion a b ↔ x ∈ a ∨ x ∈ b := by
  simp only [sunion, List.mem_append, List.mem_filter, Bool.not_eq_true', List.contains_eq_mem, decide_eq_false_iff_not]
  constructor
  · rintro (h | h); exact Or.inl h; exact Or.inr h.1
  · rintro (h | h)
    · exact Or.inl h
    · by_cases ha : x ∈ a
      · exact Or.inl ha
      · exact Or.inr ⟨h, ha⟩

/-! ### heap -/

theorem deref_append_old (h : List (List Nat)) (s : List Nat) (r : Nat) (x : Nat) :
    x ∈ h.getD r [] → x ∈ (h ++ [s]).getD r [] := by
  intro hx
  by_cases hr : r < h.length
  · simpa [List.getD, List.getElem?_append_left hr] using hx
  · have : h.getD r [] = [] := by simp [List.getD, List.getElem?_eq_none (Nat.le_of_not_lt hr)]
    rw [this] at hx; cases hx

theorem deref_append_new (h : List (List Nat)) (s : List Nat) : (h ++ [s]).getD h.length [] = s := by
  simp [List.getD]

theorem deref_set (h : List (List Nat)) (r r' : Nat) (s : List Nat) :
    (h.set r' s).getD r [] = if r = r' ∧ r' < h.length then s else h.getD r [] := by
  simp only [List.getD, List.getElem?_set]
  by_cases h1 : r' = r
  · subst h1
    by_cases h2 : r' < h.length
    · simp [h2]
    · simp [h2]
  · have : ¬ r = r' := fun e => h1 e.symm
    simp [h1, this]

namespace B

@[simp] theorem leafSet_setLeavesFresh (b : B) (s : List Nat) : (b.setLeavesFresh s).leafSet = s := by
  simp [leafSet, setLeavesFresh, deref]

theorem deref_setLeavesFresh (b : B) (s : List Nat) (r x : Nat) (h : x ∈ b.deref r) : x ∈ (b.setLeavesFresh s).deref r :=
  deref_append_old _ _ _ _ h

theorem deref_leavesUnion (b : B) (s : List Nat) (r : Nat) :
    (b.leavesUnion s).deref r = if r = b.leaves ∧ b.leaves < b.heap.length then sunion b.leafSet s else b.deref r := by
  show (b.heap.set b.leaves (sunion b.leafSet s)).getD r [] = _
  rw [deref_set]; rfl

theorem mem_leafSet_leavesUnion (b : B) (s : List Nat) (hv : b.leaves < b.heap.length) (x : Nat) :
    x ∈ (b.leavesUnion s).leafSet ↔ x ∈ b.leafSet ∨ x ∈ s := by
  have : (b.leavesUnion s).leafSet = (b.leavesUnion s).deref b.leaves := rfl
  rw [this, deref_leavesUnion]
  simp [hv, mem_sunion]

theorem deref_leavesUnion_mono (b : B) (s : List Nat) (r x : Nat) (h : x ∈ b.deref r) : x ∈ (b.leavesUnion s).deref r := by
  rw [deref_leavesUnion]
  split
  · rename_i hc
    rw [mem_sunion]; left
    rw [hc.1] at h; exact h
  · exact h

end B

/-! ### monotone part of the builder state -/

structure Mono (b b' : B) : Prop where
  err : b'.err = none → b.err = none
  edges : ∀ e, e ∈ b.edges → e ∈ b'.edges
  heapLen : b.heap.length ≤ b'.heap.length
  deref : ∀ r x, x ∈ b.deref r → x ∈ b'.deref r
  head : ∀ x, b.head = some x → b'.head = some x
  nodes : ∀ x, x ∈ b.nodes → x ∈ b'.nodes

theorem Mono.refl (b : B) : Mono b b := ⟨id, fun _ h => h, Nat.le_refl _, fun _ _ h => h, fun _ h => h, fun _ h => h⟩

theorem Mono.trans {a b c : B} (h1 : Mono a b) (h2 : Mono b c) : Mono a c :=
  ⟨fun h => h1.err (h2.err h), fun e h => h2.edges e (h1.edges e h), Nat.le_trans h1.heapLen h2.heapLen,
   fun r x h => h2.deref r x (h1.deref r x h), fun x h => h2.head x (h1.head x h), fun x h => h2.nodes x (h1.nodes x h)⟩

/-- All set references held by the builder point into the heap. -/
structure Valid (b : B) : Prop where
  leaves : b.leaves < b.heap.length
  condEntry : ∀ k r, aget k b.condEntry = some r → r < b.heap.length

/-- `Frame K b b'`: going from `b` to `b'` only grows the monotone parts, and leaves the dictionaries alone at every key
outside `K` (`exits`/`continues`/`raises` may gain members). -/
structure Frame (K : List Nat) (b b' : B) : Prop extends Mono b b' where
  exits : ∀ k, k ∉ K → ∀ l, aget k b.exits = some l → ∃ l', aget k b'.exits = some l' ∧ ∀ x, x ∈ l → x ∈ l'
  continues : ∀ k, k ∉ K → ∀ l, aget k b.continues = some l → ∃ l', aget k b'.continues = some l' ∧ ∀ x, x ∈ l → x ∈ l'
  raises : ∀ k, k ∉ K → ∀ l, aget k b.raises = some l → ∃ l', aget k b'.raises = some l' ∧ ∀ x, x ∈ l → x ∈ l'
  sectionEntry : ∀ k, k ∉ K → aget k b'.sectionEntry = aget k b.sectionEntry
  condEntry : ∀ k, k ∉ K → aget k b'.condEntry = aget k b.condEntry
  condLeaves : ∀ k, k ∉ K → aget k b'.condLeaves = aget k b.condLeaves
  valid : Valid b → Valid b'

theorem Frame.refl (K : List Nat) (b : B) : Frame K b b :=
  ⟨Mono.refl b, fun _ _ l h => ⟨l, h, fun _ h => h⟩, fun _ _ l h => ⟨l, h, fun _ h => h⟩,
   fun _ _ l h => ⟨l, h, fun _ h => h⟩, fun _ _ => rfl, fun _ _ => rfl, fun _ _ => rfl, id⟩

theorem Frame.weaken {K K' : List Nat} {b b' : B} (h : Frame K b b') (hs : ∀ k, k ∈ K → k ∈ K') : Frame K' b b' :=
  ⟨h.toMono, fun k hk => h.exits k (fun h' => hk (hs k h')), fun k hk => h.continues k (fun h' => hk (hs k h')),
   fun k hk => h.raises k (fun h' => hk (hs k h')), fun k hk => h.sectionEntry k (fun h' => hk (hs k h')),
   fun k hk => h.condEntry k (fun h' => hk (hs k h')), fun k hk => h.condLeaves k (fun h' => hk (hs k h')), h.valid⟩

theorem Frame.trans {K : List Nat} {a b c : B} (h1 : Frame K a b) (h2 : Frame K b c) : Frame K a c := by
  refine ⟨h1.toMono.trans h2.toMono, ?_, ?_, ?_, ?_, ?_, ?_, fun h => h2.valid (h1.valid h)⟩
  · intro k hk l hl
    obtain ⟨l1, hl1, s1⟩ := h1.exits k hk l hl
    obtain ⟨l2, hl2, s2⟩ := h2.exits k hk l1 hl1
    exact ⟨l2, hl2, fun x hx => s2 x (s1 x hx)⟩
  · intro k hk l hl
    obtain ⟨l1, hl1, s1⟩ := h1.continues k hk l hl
    obtain ⟨l2, hl2, s2⟩ := h2.continues k hk l1 hl1
    exact ⟨l2, hl2, fun x hx => s2 x (s1 x hx)⟩
  · intro k hk l hl
    obtain ⟨l1, hl1, s1⟩ := h1.raises k hk l hl
    obtain ⟨l2, hl2, s2⟩ := h2.raises k hk l1 hl1
    exact ⟨l2, hl2, fun x hx => s2 x (s1 x hx)⟩
  · intro k hk; rw [h2.sectionEntry k hk, h1.sectionEntry k hk]
  · intro k hk; rw [h2.condEntry k hk, h1.condEntry k hk]
  · intro k hk; rw [h2.condLeaves k hk, h1.condLeaves k hk]

/-- A step that touches none of the tracked dictionaries. -/
theorem Frame.of_mono {K : List Nat} {b b' : B} (hm : Mono b b') (h1 : b'.exits = b.exits) (h2 : b'.continues = b.continues)
    (h3 : b'.raises = b.raises) (h4 : b'.sectionEntry = b.sectionEntry) (h5 : b'.condEntry = b.condEntry)
    (h6 : b'.condLeaves = b.condLeaves) (hv : Valid b → b'.leaves < b'.heap.length) : Frame K b b' := by
  refine ⟨hm, ?_, ?_, ?_, ?_, ?_, ?_, fun v => ⟨hv v, fun k r hr => Nat.lt_of_lt_of_le (v.condEntry k r (by rw [← h5]; exact hr)) hm.heapLen⟩⟩
  · intro k _ l hl; exact ⟨l, by rw [h1]; exact hl, fun _ h => h⟩
  · intro k _ l hl; exact ⟨l, by rw [h2]; exact hl, fun _ h => h⟩
  · intro k _ l hl; exact ⟨l, by rw [h3]; exact hl, fun _ h => h⟩
  · intro k _; rw [h4]
  · intro k _; rw [h5]
  · intro k _; rw [h6]

namespace B

theorem err_fail (b : B) (msg : String) (h : (b.fail msg).err = none) : False := by
  simp only [fail] at h
  cases hb : b.err <;> simp [hb, Option.or] at h

theorem mono_fail (b : B) (msg : String) : Mono b (b.fail msg) :=
  ⟨fun h => (err_fail b msg h).elim, fun _ h => h, Nat.le_refl _, fun _ _ h => h, fun _ h => h, fun _ h => h⟩

theorem frame_fail (K) (b : B) (msg : String) : Frame K b (b.fail msg) :=
  Frame.of_mono (mono_fail b msg) rfl rfl rfl rfl rfl rfl (fun v => v.leaves)

theorem frame_check (K) (b : B) (c : Bool) (msg : String) : Frame K b (b.check c msg) := by
  unfold check; split
  · exact frame_fail K b msg
  · exact Frame.refl K b

/-- the trivially monotone steps -/
theorem mono_same (b b' : B) (h1 : b'.err = b.err) (h2 : b'.edges = b.edges) (h3 : b'.heap = b.heap)
    (h4 : ∀ x, b.head = some x → b'.head = some x) (h5 : ∀ x, x ∈ b.nodes → x ∈ b'.nodes := by exact fun _ h => h) : Mono b b' :=
  ⟨fun h => by rw [← h1]; exact h, fun e h => by rw [h2]; exact h, by rw [h3]; exact Nat.le_refl _,
   fun r x h => by simpa [deref, h3] using h, h4, h5⟩

theorem frame_connect (K) (b : B) (first : List Nat) (second : Nat) : Frame K b (b.connect first second) :=
  Frame.of_mono ⟨id, fun e h => List.mem_append.mpr (Or.inl h), Nat.le_refl _, fun _ _ h => h, fun _ h => h, fun _ h => h⟩ rfl rfl rfl rfl rfl rfl (fun v => v.leaves)

theorem frame_setLeavesFresh (K) (b : B) (s : List Nat) : Frame K b (b.setLeavesFresh s) :=
  Frame.of_mono ⟨id, fun _ h => h, by simp [setLeavesFresh], fun r x h => deref_setLeavesFresh b s r x h, fun _ h => h, fun _ h => h⟩ rfl rfl rfl rfl rfl rfl
    (fun _ => by simp [setLeavesFresh])

theorem frame_leavesUnion (K) (b : B) (s : List Nat) : Frame K b (b.leavesUnion s) :=
  Frame.of_mono ⟨id, fun _ h => h, by simp [leavesUnion], fun r x h => deref_leavesUnion_mono b s r x h, fun _ h => h, fun _ h => h⟩ rfl rfl rfl rfl rfl rfl
    (fun v => by simpa [leavesUnion] using v.leaves)

theorem frame_setLeavesRef (K) (b : B) (r : Nat) (hr : Valid b → r < b.heap.length) : Frame K b (b.setLeavesRef r) :=
  Frame.of_mono (mono_same _ _ rfl rfl rfl (fun _ h => h)) rfl rfl rfl rfl rfl rfl hr

theorem frame_pushNode (K) (b : B) (n : Nat) : Frame K b (b.pushNode n) :=
  Frame.of_mono (mono_same _ _ rfl rfl rfl (fun x h => by simp [pushNode, h, Option.or]) (fun x h => List.mem_append.mpr (Or.inl h))) rfl rfl rfl rfl rfl rfl (fun v => v.leaves)

theorem frame_putFinallySections (K) (b : B) (n : Nat) (gs : List Nat) : Frame K b (b.putFinallySections n gs) :=
  Frame.of_mono (mono_same _ _ rfl rfl rfl (fun _ h => h)) rfl rfl rfl rfl rfl rfl (fun v => v.leaves)

theorem frame_delFinallySections (K) (b : B) (n : Nat) : Frame K b (b.delFinallySections n) :=
  Frame.of_mono (mono_same _ _ rfl rfl rfl (fun _ h => h)) rfl rfl rfl rfl rfl rfl (fun v => v.leaves)

theorem frame_setActive (K) (b : B) (l : List Nat) : Frame K b (b.setActive l) :=
  Frame.of_mono (mono_same _ _ rfl rfl rfl (fun _ h => h)) rfl rfl rfl rfl rfl rfl (fun v => v.leaves)

theorem frame_pushError (K) (b : B) (n : Nat) : Frame K b (b.pushError n) :=
  Frame.of_mono (mono_same _ _ rfl rfl rfl (fun _ h => h)) rfl rfl rfl rfl rfl rfl (fun v => v.leaves)

theorem frame_addNewNode (K) (b : B) (n : Nat) : Frame K b (b.addNewNode n) :=
  Frame.trans (frame_check K b _ _) (Frame.trans (frame_pushNode K _ n) (frame_connect K _ _ _))

theorem frame_addOrdinaryNode (K) (b : B) (n : Nat) : Frame K b (b.addOrdinaryNode n) :=
  Frame.trans (frame_addNewNode K b n) (frame_setLeavesFresh K _ _)

theorem frame_addJumpNode (K) (b : B) (n : Nat) (gs : List Nat) : Frame K b (b.addJumpNode n gs) :=
  Frame.trans (Frame.trans (frame_addNewNode K b n) (frame_setLeavesFresh K _ _)) (frame_putFinallySections K _ _ _)

theorem frame_beginStatement (K) (b : B) (i : Nat) : Frame K b (b.beginStatement i) := frame_setActive K b _

theorem frame_endStatement (K) (b : B) (i : Nat) : Frame K b (b.endStatement i) :=
  Frame.trans (frame_check K b _ _) (frame_setActive K _ _)

/-- Growing one list of a dictionary of node lists. -/
theorem grow_clause (m : List (Nat × List Nat)) (j : Nat) (old new : List Nat) (hj : aget j m = some old)
    (hsub : ∀ x, x ∈ old → x ∈ new) (k : Nat) (l : List Nat) (hl : aget k m = some l) :
    ∃ l', aget k (aset j new m) = some l' ∧ ∀ x, x ∈ l → x ∈ l' := by
  rw [aget_aset]
  by_cases h : k = j
  · subst h
    rw [hj] at hl; cases hl
    exact ⟨new, by simp, hsub⟩
  · exact ⟨l, by simp [h, hl], fun _ h => h⟩

/-- `putExits` at a key whose old list is contained in the new one. -/
theorem frame_putExits_grow (K) (b : B) (j : Nat) (old new : List Nat) (hj : aget j b.exits = some old)
    (hsub : ∀ x, x ∈ old → x ∈ new) : Frame K b (b.putExits j new) :=
  ⟨mono_same _ _ rfl rfl rfl (fun _ h => h), fun k _ l hl => grow_clause _ j old new hj hsub k l hl,
   fun _ _ l hl => ⟨l, hl, fun _ h => h⟩, fun _ _ l hl => ⟨l, hl, fun _ h => h⟩, fun _ _ => rfl, fun _ _ => rfl, fun _ _ => rfl, fun v => ⟨v.leaves, v.condEntry⟩⟩

theorem frame_putContinues_grow (K) (b : B) (j : Nat) (old new : List Nat) (hj : aget j b.continues = some old)
    (hsub : ∀ x, x ∈ old → x ∈ new) : Frame K b (b.putContinues j new) :=
  ⟨mono_same _ _ rfl rfl rfl (fun _ h => h), fun _ _ l hl => ⟨l, hl, fun _ h => h⟩, fun k _ l hl => grow_clause _ j old new hj hsub k l hl,
   fun _ _ l hl => ⟨l, hl, fun _ h => h⟩, fun _ _ => rfl, fun _ _ => rfl, fun _ _ => rfl, fun v => ⟨v.leaves, v.condEntry⟩⟩

/-- setters at a key of `K` -/
theorem frame_putExits (K) (b : B) (i : Nat) (l0 : List Nat) (hi : i ∈ K) : Frame K b (b.putExits i l0) := by
  refine ⟨mono_same _ _ rfl rfl rfl (fun _ h => h), ?_, fun _ _ l hl => ⟨l, hl, fun _ h => h⟩, fun _ _ l hl => ⟨l, hl, fun _ h => h⟩, fun _ _ => rfl, fun _ _ => rfl, fun _ _ => rfl, fun v => ⟨v.leaves, v.condEntry⟩⟩
  intro k hk l hl
  have : k ≠ i := fun h => hk (h ▸ hi)
  exact ⟨l, by show aget k (aset i l0 b.exits) = some l; rw [aget_aset, if_neg this]; exact hl, fun _ h => h⟩

theorem frame_delExits (K) (b : B) (i : Nat) (hi : i ∈ K) : Frame K b (b.delExits i) := by
  refine ⟨mono_same _ _ rfl rfl rfl (fun _ h => h), ?_, fun _ _ l hl => ⟨l, hl, fun _ h => h⟩, fun _ _ l hl => ⟨l, hl, fun _ h => h⟩, fun _ _ => rfl, fun _ _ => rfl, fun _ _ => rfl, fun v => ⟨v.leaves, v.condEntry⟩⟩
  intro k hk l hl
  have : k ≠ i := fun h => hk (h ▸ hi)
  exact ⟨l, by show aget k (adel i b.exits) = some l; rw [aget_adel, if_neg this]; exact hl, fun _ h => h⟩

theorem frame_putContinues (K) (b : B) (i : Nat) (l0 : List Nat) (hi : i ∈ K) : Frame K b (b.putContinues i l0) := by
  refine ⟨mono_same _ _ rfl rfl rfl (fun _ h => h), fun _ _ l hl => ⟨l, hl, fun _ h => h⟩, ?_, fun _ _ l hl => ⟨l, hl, fun _ h => h⟩, fun _ _ => rfl, fun _ _ => rfl, fun _ _ => rfl, fun v => ⟨v.leaves, v.condEntry⟩⟩
  intro k hk l hl
  have : k ≠ i := fun h => hk (h ▸ hi)
  exact ⟨l, by show aget k (aset i l0 b.continues) = some l; rw [aget_aset, if_neg this]; exact hl, fun _ h => h⟩

theorem frame_putSectionEntry (K) (b : B) (i e : Nat) (hi : i ∈ K) : Frame K b (b.putSectionEntry i e) := by
  refine ⟨mono_same _ _ rfl rfl rfl (fun _ h => h), fun _ _ l hl => ⟨l, hl, fun _ h => h⟩, fun _ _ l hl => ⟨l, hl, fun _ h => h⟩, fun _ _ l hl => ⟨l, hl, fun _ h => h⟩, ?_, fun _ _ => rfl, fun _ _ => rfl, fun v => ⟨v.leaves, v.condEntry⟩⟩
  intro k hk
  have : k ≠ i := fun h => hk (h ▸ hi)
  show aget k (aset i e b.sectionEntry) = _
  rw [aget_aset, if_neg this]

theorem frame_delLoopKeys (K) (b : B) (i : Nat) (hi : i ∈ K) : Frame K b (b.delLoopKeys i) := by
  refine ⟨mono_same _ _ rfl rfl rfl (fun _ h => h), fun _ _ l hl => ⟨l, hl, fun _ h => h⟩, ?_, fun _ _ l hl => ⟨l, hl, fun _ h => h⟩, ?_, fun _ _ => rfl, fun _ _ => rfl, fun v => ⟨v.leaves, v.condEntry⟩⟩
  · intro k hk l hl
    have : k ≠ i := fun h => hk (h ▸ hi)
    exact ⟨l, by show aget k (adel i b.continues) = some l; rw [aget_adel, if_neg this]; exact hl, fun _ h => h⟩
  · intro k hk
    have : k ≠ i := fun h => hk (h ▸ hi)
    show aget k (adel i b.sectionEntry) = _
    rw [aget_adel, if_neg this]

theorem frame_putCondLeaves (K) (b : B) (i : Nat) (l0 : List Nat) (hi : i ∈ K) : Frame K b (b.putCondLeaves i l0) := by
  refine ⟨mono_same _ _ rfl rfl rfl (fun _ h => h), fun _ _ l hl => ⟨l, hl, fun _ h => h⟩, fun _ _ l hl => ⟨l, hl, fun _ h => h⟩, fun _ _ l hl => ⟨l, hl, fun _ h => h⟩, fun _ _ => rfl, fun _ _ => rfl, ?_, fun v => ⟨v.leaves, v.condEntry⟩⟩
  intro k hk
  have : k ≠ i := fun h => hk (h ▸ hi)
  show aget k (aset i l0 b.condLeaves) = _
  rw [aget_aset, if_neg this]

theorem frame_putCondEntry (K) (b : B) (i r : Nat) (hi : i ∈ K) (hr : Valid b → r < b.heap.length) : Frame K b (b.putCondEntry i r) := by
  refine ⟨mono_same _ _ rfl rfl rfl (fun _ h => h), fun _ _ l hl => ⟨l, hl, fun _ h => h⟩, fun _ _ l hl => ⟨l, hl, fun _ h => h⟩, fun _ _ l hl => ⟨l, hl, fun _ h => h⟩, fun _ _ => rfl, ?_, fun _ _ => rfl, ?_⟩
  · intro k hk
    have : k ≠ i := fun h => hk (h ▸ hi)
    show aget k (aset i r b.condEntry) = _
    rw [aget_aset, if_neg this]
  · intro v
    refine ⟨v.leaves, ?_⟩
    intro k r' hk
    have hk' : aget k (aset i r b.condEntry) = some r' := hk
    rw [aget_aset] at hk'
    by_cases h : k = i
    · simp only [h, if_true, Option.some.injEq] at hk'; subst hk'; exact hr v
    · simp only [h, if_false] at hk'; exact v.condEntry k r' hk'

theorem frame_delCondKeys (K) (b : B) (i : Nat) (hi : i ∈ K) : Frame K b (b.delCondKeys i) := by
  refine ⟨mono_same _ _ rfl rfl rfl (fun _ h => h), fun _ _ l hl => ⟨l, hl, fun _ h => h⟩, fun _ _ l hl => ⟨l, hl, fun _ h => h⟩, fun _ _ l hl => ⟨l, hl, fun _ h => h⟩, fun _ _ => rfl, ?_, ?_, ?_⟩
  · intro k hk
    have : k ≠ i := fun h => hk (h ▸ hi)
    show aget k (adel i b.condEntry) = _
    rw [aget_adel, if_neg this]
  · intro k hk
    have : k ≠ i := fun h => hk (h ▸ hi)
    show aget k (adel i b.condLeaves) = _
    rw [aget_adel, if_neg this]
  · intro v
    refine ⟨v.leaves, ?_⟩
    intro k r' hk
    have hk' : aget k (adel i b.condEntry) = some r' := hk
    rw [aget_adel] at hk'
    by_cases h : k = i
    · simp [h] at hk'
    · simp only [h, if_false] at hk'; exact v.condEntry k r' hk'

theorem frame_addExitNode (K) (b : B) (n sec : Nat) (gs : List Nat) : Frame K b (b.addExitNode n sec gs) := by
  have h0 := frame_addJumpNode K b n gs
  unfold addExitNode
  split
  · rename_i ex hx
    refine Frame.trans h0 (frame_putExits_grow K _ sec ex _ ?_ (fun x h => List.mem_append.mpr (Or.inl h)))
    simpa using hx
  · exact Frame.trans h0 (frame_fail K _ _)

theorem frame_addContinueNode (K) (b : B) (n sec : Nat) (gs : List Nat) : Frame K b (b.addContinueNode n sec gs) := by
  have h0 := frame_addJumpNode K b n gs
  unfold addContinueNode
  split
  · rename_i ex hx
    refine Frame.trans h0 (frame_putContinues_grow K _ sec ex _ ?_ (fun x h => List.mem_append.mpr (Or.inl h)))
    simpa using hx
  · exact Frame.trans h0 (frame_fail K _ _)

theorem raiseStep_grow (node : Nat) (rs : List (Nat × List Nat)) (g : Nat) (k : Nat) (l : List Nat)
    (hl : aget k rs = some l) : ∃ l', aget k (raiseStep node rs g) = some l' ∧ ∀ x, x ∈ l → x ∈ l' := by
  unfold raiseStep
  split
  · rename_i old hg
    exact grow_clause rs g old _ hg (fun x h => List.mem_append.mpr (Or.inl h)) k l hl
  · rename_i hg
    rw [aget_aset]
    by_cases h : k = g
    · subst h; rw [hg] at hl; cases hl
    · exact ⟨l, by simp [h, hl], fun _ h => h⟩

theorem raises_foldl_grow (node : Nat) (gs : List Nat) : ∀ (rs : List (Nat × List Nat)) (k : Nat) (l : List Nat),
    aget k rs = some l → ∃ l', aget k (gs.foldl (raiseStep node) rs) = some l' ∧ ∀ x, x ∈ l → x ∈ l' := by
  induction gs with
  | nil => intro rs k l hl; exact ⟨l, hl, fun _ h => h⟩
  | cons g gs ih =>
    intro rs k l hl
    obtain ⟨l1, h1, s1⟩ := raiseStep_grow node rs g k l hl
    obtain ⟨l2, h2, s2⟩ := ih _ k l1 h1
    exact ⟨l2, h2, fun x hx => s2 x (s1 x hx)⟩

theorem frame_connectRaiseNode (K) (b : B) (node : Nat) (gs : List Nat) : Frame K b (b.connectRaiseNode node gs) :=
  ⟨mono_same _ _ rfl rfl rfl (fun _ h => h), fun _ _ l hl => ⟨l, hl, fun _ h => h⟩, fun _ _ l hl => ⟨l, hl, fun _ h => h⟩,
   fun k _ l hl => raises_foldl_grow node gs b.raises k l hl, fun _ _ => rfl, fun _ _ => rfl, fun _ _ => rfl, fun v => ⟨v.leaves, v.condEntry⟩⟩

theorem frame_guardStep (K) (acc : B × List Nat) (g : Nat) : Frame K acc.1 (guardStep acc g).1 := by
  unfold guardStep
  split
  · exact frame_connect K _ _ _
  · exact frame_fail K _ _

theorem frame_guardFold (K) (gs : List Nat) : ∀ acc : B × List Nat, Frame K acc.1 (gs.foldl guardStep acc).1 := by
  induction gs with
  | nil => intro acc; exact Frame.refl K _
  | cons g gs ih => intro acc; exact Frame.trans (frame_guardStep K acc g) (ih _)

theorem frame_connectJump (K) (b : B) (n : Nat) : Frame K b (b.connectJump n).1 := by
  unfold connectJump
  split
  · exact Frame.refl K b
  · rename_i gs _
    exact Frame.trans (frame_guardFold K gs (b, [n])) (frame_delFinallySections K _ _)

theorem frame_exitStep (K) (b : B) (e : Nat) : Frame K b (b.exitStep e) :=
  Frame.trans (frame_connectJump K b e) (frame_leavesUnion K _ _)

theorem frame_foldl {α} (K) (f : B → α → B) (hf : ∀ b x, Frame K b (f b x)) : ∀ (l : List α) (b : B), Frame K b (l.foldl f b) := by
  intro l
  induction l with
  | nil => intro b; exact Frame.refl K b
  | cons x l ih => intro b; exact Frame.trans (hf b x) (ih _)

theorem frame_enterSection (K) (b : B) (i : Nat) (hi : i ∈ K) : Frame K b (b.enterSection i) :=
  Frame.trans (frame_check K b _ _) (frame_putExits K _ i [] hi)

theorem frame_exitSection (K) (b : B) (i : Nat) (hi : i ∈ K) : Frame K b (b.exitSection i) := by
  unfold exitSection
  split
  · exact frame_fail K b _
  · rename_i ex _
    exact Frame.trans (frame_foldl K exitStep (frame_exitStep K) ex b) (frame_delExits K _ i hi)

theorem frame_enterLoopSection (K) (b : B) (i entry : Nat) (hi : i ∈ K) : Frame K b (b.enterLoopSection i entry) :=
  Frame.trans (Frame.trans (Frame.trans (frame_check K b _ _) (frame_putContinues K _ i [] hi)) (frame_addOrdinaryNode K _ entry))
    (frame_putSectionEntry K _ i entry hi)

theorem frame_reentryStep (K) (entry : Nat) (b : B) (c : Nat) : Frame K b (reentryStep entry b c) :=
  Frame.trans (frame_connectJump K b c) (frame_connect K _ _ _)

theorem frame_exitLoopSection (K) (b : B) (i : Nat) (hi : i ∈ K) : Frame K b (b.exitLoopSection i) := by
  unfold exitLoopSection
  split
  · rename_i entry cs _ _
    exact Frame.trans (Frame.trans (Frame.trans (frame_connect K b _ entry)
      (frame_foldl K (reentryStep entry) (frame_reentryStep K entry) cs _)) (frame_setLeavesFresh K _ [entry]))
      (frame_delLoopKeys K _ i hi)
  · exact frame_fail K b _

theorem frame_enterCondSection (K) (b : B) (i : Nat) (hi : i ∈ K) : Frame K b (b.enterCondSection i) :=
  Frame.trans (frame_check K b _ _) (frame_putCondLeaves K _ i [] hi)

theorem frame_newCondBranch (K) (b : B) (i : Nat) (hi : i ∈ K) : Frame K b (b.newCondBranch i) := by
  unfold newCondBranch
  split
  · exact frame_fail K b _
  · split
    · rename_i entry he
      exact Frame.trans (frame_putCondLeaves K b i _ hi) (frame_setLeavesRef K _ _ (fun v => v.condEntry i entry he))
    · exact frame_putCondEntry K b i _ hi (fun v => v.leaves)

theorem frame_unionStep (K) (b : B) (r : Nat) : Frame K b (b.unionStep r) := frame_leavesUnion K b _

theorem frame_exitCondSection (K) (b : B) (i : Nat) (hi : i ∈ K) : Frame K b (b.exitCondSection i) := by
  unfold exitCondSection
  split
  · exact frame_fail K b _
  · rename_i splits _
    exact Frame.trans (Frame.trans (frame_foldl K unionStep (frame_unionStep K) splits b) (frame_check K _ _ _))
      (frame_delCondKeys K _ i hi)

theorem frame_enterExceptSection (K) (b : B) (i : Nat) : Frame K b (b.enterExceptSection i) := by
  unfold enterExceptSection
  split
  · exact frame_leavesUnion K b _
  · exact Frame.refl K b

theorem frame_enterFinallySection (K) (b : B) (i : Nat) : Frame K b (b.enterFinallySection i) :=
  Frame.of_mono (mono_same _ _ rfl rfl rfl (fun _ h => h)) rfl rfl rfl rfl rfl rfl (fun v => v.leaves)

theorem frame_closeFinally (K) (b : B) (i : Nat) (beg : Option Nat) : Frame K b (b.closeFinally i beg) :=
  Frame.of_mono (mono_same _ _ rfl rfl rfl (fun _ h => h)) rfl rfl rfl rfl rfl rfl (fun v => v.leaves)

theorem frame_exitFinallySection (K) (b : B) (i : Nat) : Frame K b (b.exitFinallySection i) := by
  unfold exitFinallySection
  split
  · rename_i beg _ direct _ _
    have h1 := Frame.trans (frame_check K b (b.pendingFinally.contains i) "assert: Empty finally?") (frame_closeFinally K _ i beg)
    cases direct
    · exact Frame.trans h1 (frame_setLeavesFresh K _ _)
    · exact h1
  · exact frame_fail K b _

end B


/-! ### keys touched by a statement -/
mutual
/-- Ids of all statements in the subtree (nested function/class bodies excluded): every dictionary key the visit of
`s` may create or delete in the current builder. -/
def stmtKeys' : Stmt → List Nat
  | .if_ i _ body orelse => i :: (keysL body ++ keysL orelse)
  | .while_ i _ body orelse => i :: (keysL body ++ keysL orelse)
  | .for_ i _ _ body orelse _ _ => i :: (keysL body ++ keysL orelse)
  | .with_ i _ body _ => i :: keysL body
  | .try_ i body handlers orelse final => i :: (keysL body ++ (keysL handlers ++ (keysL orelse ++ keysL final)))
  | .handler i _ _ body => i :: keysL body
  | .functionDef i _ _ body _ _ isAsync => if isAsync then i :: keysL body else [i]
  | .other i _ _ blocks => i :: keysL blocks
  | s => [s.id]
def keysL : List Stmt → List Nat
  | [] => []
  | s :: ss => stmtKeys' s ++ keysL ss
end

theorem frame_addOrdinaryNodes (K) (ns : List Nat) : ∀ b : B, Frame K b (addOrdinaryNodes b ns) :=
  B.frame_foldl K B.addOrdinaryNode (B.frame_addOrdinaryNode K) ns

theorem frame_processExit (K) (σ : List Scope) (b : B) (n : Nat) (stop : Stop) (v : Bool) :
    Frame K b (processExit σ b n stop v) := by
  unfold processExit
  split
  · exact B.frame_fail K b _
  · split
    · exact Frame.trans (B.frame_addExitNode K b _ _ _) (B.frame_connectRaiseNode K _ _ _)
    · exact B.frame_addExitNode K b _ _ _

theorem frame_processContinue (K) (σ : List Scope) (b : B) (n : Nat) : Frame K b (processContinue σ b n) := by
  unfold processContinue
  split
  · exact B.frame_fail K b _
  · exact B.frame_addContinueNode K b _ _ _

theorem frame_basicExpr (K) (σ : List Scope) (e : Expr) (b : B) (a : Acc) : Frame K b (basicExpr σ e b a).1 :=
  Frame.trans (frame_addOrdinaryNodes K _ b) (B.frame_addOrdinaryNode K _ _)

theorem frame_basicExprs (K) (σ : List Scope) : ∀ (es : List Expr) (b : B) (a : Acc), Frame K b (basicExprs σ es b a).1
  | [], b, _ => Frame.refl K b
  | e :: es, b, a => Frame.trans (frame_basicExpr K σ e b a) (frame_basicExprs K σ es _ _)


/-! ### Lemma A: visiting a statement leaves every dictionary alone outside the statement's own keys -/

theorem mem_keys_head (i : Nat) (r : List Nat) : i ∈ i :: r := List.mem_cons_self ..

theorem frame_optSection (K) (rep : Option Nat) (pre post : Nat → B → B) (visit : Nat → B → Acc → B × Acc) (r : B × Acc)
    (hpre : ∀ k b, rep = some k → Frame K b (pre k b)) (hpost : ∀ k b, rep = some k → Frame K b (post k b))
    (hvisit : ∀ k b a, rep = some k → Frame K b (visit k b a).1) : Frame K r.1 (optSection rep pre post visit r).1 := by
  cases rep with
  | none => exact Frame.refl K _
  | some k =>
    simp only [optSection]
    exact Frame.trans (Frame.trans (hpre k _ rfl) (hvisit k _ _ rfl)) (hpost k _ rfl)

theorem head_id_mem_keysL (ss : List Stmt) (k : Nat) (h : ss.head?.map Stmt.id = some k) : k ∈ keysL ss := by
  cases ss with
  | nil => simp at h
  | cons s rest =>
    simp only [List.head?_cons, Option.map_some, Option.some.injEq] at h
    subst h
    simp only [keysL, List.mem_append]
    left
    cases s <;> simp [stmtKeys', Stmt.id]
    split <;> simp

mutual
theorem frame_visitStmt : ∀ (s : Stmt) (σ : List Scope) (b : B) (a : Acc), Frame (stmtKeys' s) b (visitStmt σ s b a).1
  | .functionDef i name args body decs rets isAsync, σ, b, a => by
    cases isAsync with
    | true =>
      simp only [visitStmt, if_true, stmtKeys']
      refine Frame.trans ?_ (frame_addOrdinaryNodes _ _ _)
      refine Frame.trans ?_ ((frame_visitStmts body σ _ _).weaken (fun k hk => List.mem_cons_of_mem _ hk))
      exact frame_addOrdinaryNodes _ _ b
    | false =>
      simp only [visitStmt, Bool.false_eq_true, if_false]
      exact B.frame_addOrdinaryNode _ b i
  | .classDef i name bases kws body decs, σ, b, a => by
    simp only [visitStmt]
    exact B.frame_addOrdinaryNode _ b i
  | .ret i v, σ, b, a => by
    simp only [visitStmt]
    exact Frame.trans (frame_addOrdinaryNodes _ _ b) (frame_processExit _ _ _ _ _ _)
  | .raise i e c, σ, b, a => by
    simp only [visitStmt]
    exact Frame.trans (Frame.trans (frame_addOrdinaryNodes _ _ b) (frame_processExit _ _ _ _ _ _)) (B.frame_pushError _ _ _)
  | .break_ i, σ, b, a => by
    simp only [visitStmt]
    exact frame_processExit _ _ _ _ _ _
  | .continue_ i, σ, b, a => by
    simp only [visitStmt]
    exact frame_processContinue _ _ _ _
  | .if_ i test body orelse, σ, b, a => by
    simp only [visitStmt, stmtKeys']
    have hi : i ∈ i :: (keysL body ++ keysL orelse) := mem_keys_head _ _
    refine Frame.trans ?_ (B.frame_endStatement _ _ i)
    refine Frame.trans ?_ (B.frame_exitCondSection _ _ i hi)
    refine Frame.trans ?_ ((frame_visitStmts orelse σ _ _).weaken (fun k hk => List.mem_cons_of_mem _ (List.mem_append.mpr (Or.inr hk))))
    refine Frame.trans ?_ (B.frame_newCondBranch _ _ i hi)
    refine Frame.trans ?_ ((frame_visitStmts body σ _ _).weaken (fun k hk => List.mem_cons_of_mem _ (List.mem_append.mpr (Or.inl hk))))
    refine Frame.trans ?_ (B.frame_newCondBranch _ _ i hi)
    refine Frame.trans ?_ (frame_basicExpr _ σ test _ a)
    exact Frame.trans (B.frame_beginStatement _ b i) (B.frame_enterCondSection _ _ i hi)
  | .while_ i test body orelse, σ, b, a => by
    simp only [visitStmt, stmtKeys']
    have hi : i ∈ i :: (keysL body ++ keysL orelse) := mem_keys_head _ _
    refine Frame.trans ?_ (B.frame_endStatement _ _ i)
    refine Frame.trans ?_ (B.frame_exitSection _ _ i hi)
    refine Frame.trans ?_ ((frame_visitStmts orelse σ _ _).weaken (fun k hk => List.mem_cons_of_mem _ (List.mem_append.mpr (Or.inr hk))))
    refine Frame.trans ?_ (B.frame_exitLoopSection _ _ i hi)
    refine Frame.trans ?_ ((frame_visitStmts body _ _ _).weaken (fun k hk => List.mem_cons_of_mem _ (List.mem_append.mpr (Or.inl hk))))
    refine Frame.trans ?_ (B.frame_enterLoopSection _ _ i _ hi)
    refine Frame.trans ?_ (frame_addOrdinaryNodes _ _ _)
    exact Frame.trans (B.frame_beginStatement _ b i) (B.frame_enterSection _ _ i hi)
  | .for_ i target iter body orelse extra isAsync, σ, b, a => by
    cases isAsync with
    | true =>
      simp only [visitStmt, if_true, stmtKeys']
      refine Frame.trans ?_ ((frame_visitStmts orelse σ _ _).weaken (fun k hk => List.mem_cons_of_mem _ (List.mem_append.mpr (Or.inr hk))))
      refine Frame.trans ?_ ((frame_visitStmts body σ _ _).weaken (fun k hk => List.mem_cons_of_mem _ (List.mem_append.mpr (Or.inl hk))))
      exact frame_addOrdinaryNodes _ _ b
    | false =>
      simp only [visitStmt, Bool.false_eq_true, if_false, stmtKeys']
      have hi : i ∈ i :: (keysL body ++ keysL orelse) := mem_keys_head _ _
      refine Frame.trans ?_ (B.frame_endStatement _ _ i)
      refine Frame.trans ?_ (B.frame_exitSection _ _ i hi)
      refine Frame.trans ?_ ((frame_visitStmts orelse σ _ _).weaken (fun k hk => List.mem_cons_of_mem _ (List.mem_append.mpr (Or.inr hk))))
      refine Frame.trans ?_ (B.frame_exitLoopSection _ _ i hi)
      refine Frame.trans ?_ ((frame_visitStmts body _ _ _).weaken (fun k hk => List.mem_cons_of_mem _ (List.mem_append.mpr (Or.inl hk))))
      refine Frame.trans ?_ (frame_basicExprs _ _ _ _ _)
      refine Frame.trans ?_ (B.frame_enterLoopSection _ _ i _ hi)
      refine Frame.trans ?_ (frame_addOrdinaryNodes _ _ _)
      exact Frame.trans (B.frame_beginStatement _ b i) (B.frame_enterSection _ _ i hi)
  | .with_ i items body isAsync, σ, b, a => by
    cases isAsync with
    | true =>
      simp only [visitStmt, if_true, stmtKeys']
      exact Frame.trans (frame_addOrdinaryNodes _ _ b) ((frame_visitStmts body σ _ _).weaken (fun k hk => List.mem_cons_of_mem _ hk))
    | false =>
      simp only [visitStmt, Bool.false_eq_true, if_false, stmtKeys']
      exact Frame.trans (frame_basicExprs _ σ items b a) ((frame_visitStmts body σ _ _).weaken (fun k hk => List.mem_cons_of_mem _ hk))
  | .try_ i body handlers orelse final, σ, b, a => by
    simp only [visitStmt, stmtKeys']
    have kb : ∀ k, k ∈ keysL body → k ∈ i :: (keysL body ++ (keysL handlers ++ (keysL orelse ++ keysL final))) :=
      fun k hk => List.mem_cons_of_mem _ (List.mem_append.mpr (Or.inl hk))
    have kh : ∀ k, k ∈ keysL handlers → k ∈ i :: (keysL body ++ (keysL handlers ++ (keysL orelse ++ keysL final))) :=
      fun k hk => List.mem_cons_of_mem _ (List.mem_append.mpr (Or.inr (List.mem_append.mpr (Or.inl hk))))
    have ko : ∀ k, k ∈ keysL orelse → k ∈ i :: (keysL body ++ (keysL handlers ++ (keysL orelse ++ keysL final))) :=
      fun k hk => List.mem_cons_of_mem _ (List.mem_append.mpr (Or.inr (List.mem_append.mpr (Or.inr (List.mem_append.mpr (Or.inl hk))))))
    have kf : ∀ k, k ∈ keysL final → k ∈ i :: (keysL body ++ (keysL handlers ++ (keysL orelse ++ keysL final))) :=
      fun k hk => List.mem_cons_of_mem _ (List.mem_append.mpr (Or.inr (List.mem_append.mpr (Or.inr (List.mem_append.mpr (Or.inr hk))))))
    refine Frame.trans ?_ (B.frame_endStatement _ _ i)
    refine Frame.trans ?_ (frame_optSection _ _ _ _ _ _ ?_ ?_ ?_)
    refine Frame.trans ?_ (frame_optSection _ _ _ _ _ _ ?_ ?_ ?_)
    refine Frame.trans ?_ (frame_optSection _ _ _ _ _ _ ?_ ?_ ?_)
    · exact Frame.trans (B.frame_beginStatement _ b i) ((frame_visitStmts body _ _ _).weaken kb)
    · intro k b' hk
      have hk' := ko k (head_id_mem_keysL orelse k hk)
      exact Frame.trans (B.frame_enterCondSection _ _ k hk') (B.frame_newCondBranch _ _ k hk')
    · intro k b' hk
      have hk' := ko k (head_id_mem_keysL orelse k hk)
      exact Frame.trans (B.frame_newCondBranch _ _ k hk') (B.frame_exitCondSection _ _ k hk')
    · intro k b' a' _
      exact (frame_visitStmts orelse _ b' a').weaken ko
    · intro k b' hk
      exact B.frame_enterCondSection _ _ k (kh k (head_id_mem_keysL handlers k hk))
    · intro k b' hk
      have hk' := kh k (head_id_mem_keysL handlers k hk)
      exact Frame.trans (B.frame_newCondBranch _ _ k hk') (B.frame_exitCondSection _ _ k hk')
    · intro k b' a' hk
      exact frame_visitHandlers handlers σ k _ (kh k (head_id_mem_keysL handlers k hk)) kh b' a'
    · intro k b' _; exact B.frame_enterFinallySection _ _ _
    · intro k b' _; exact B.frame_exitFinallySection _ _ _
    · intro k b' a' _
      exact (frame_visitStmts final σ b' a').weaken kf
  | .handler i ty name body, σ, b, a => by
    simp only [visitStmt, stmtKeys']
    refine Frame.trans ?_ (B.frame_endStatement _ _ i)
    refine Frame.trans ?_ ((frame_visitStmts body σ _ _).weaken (fun k hk => List.mem_cons_of_mem _ hk))
    refine Frame.trans ?_ (frame_addOrdinaryNodes _ _ _)
    exact Frame.trans (B.frame_beginStatement _ b i) (B.frame_enterExceptSection _ _ i)
  | .other i kind es bs, σ, b, a => by
    simp only [visitStmt]
    exact Frame.refl _ b
  | .delete i ts, σ, b, a => by
    simp only [visitStmt]; exact Frame.trans (frame_addOrdinaryNodes _ _ b) (B.frame_addOrdinaryNode _ _ _)
  | .assign i ts v, σ, b, a => by
    simp only [visitStmt]; exact Frame.trans (frame_addOrdinaryNodes _ _ b) (B.frame_addOrdinaryNode _ _ _)
  | .augAssign i t op v, σ, b, a => by
    simp only [visitStmt]; exact Frame.trans (frame_addOrdinaryNodes _ _ b) (B.frame_addOrdinaryNode _ _ _)
  | .annAssign i t an v sm, σ, b, a => by
    simp only [visitStmt]; exact Frame.trans (frame_addOrdinaryNodes _ _ b) (B.frame_addOrdinaryNode _ _ _)
  | .assert_ i t m, σ, b, a => by
    simp only [visitStmt]; exact Frame.trans (frame_addOrdinaryNodes _ _ b) (B.frame_addOrdinaryNode _ _ _)
  | .import_ i ns, σ, b, a => by
    simp only [visitStmt]; exact Frame.trans (frame_addOrdinaryNodes _ _ b) (B.frame_addOrdinaryNode _ _ _)
  | .importFrom i m ns lv, σ, b, a => by
    simp only [visitStmt]; exact Frame.trans (frame_addOrdinaryNodes _ _ b) (B.frame_addOrdinaryNode _ _ _)
  | .global i ns, σ, b, a => by
    simp only [visitStmt]; exact Frame.trans (frame_addOrdinaryNodes _ _ b) (B.frame_addOrdinaryNode _ _ _)
  | .nonlocal i ns, σ, b, a => by
    simp only [visitStmt]; exact Frame.trans (frame_addOrdinaryNodes _ _ b) (B.frame_addOrdinaryNode _ _ _)
  | .expr i v, σ, b, a => by
    simp only [visitStmt]; exact Frame.trans (frame_addOrdinaryNodes _ _ b) (B.frame_addOrdinaryNode _ _ _)
  | .pass i, σ, b, a => by
    simp only [visitStmt]; exact Frame.trans (frame_addOrdinaryNodes _ _ b) (B.frame_addOrdinaryNode _ _ _)

theorem frame_visitStmts : ∀ (ss : List Stmt) (σ : List Scope) (b : B) (a : Acc), Frame (keysL ss) b (visitStmts σ ss b a).1
  | [], σ, b, a => by simp only [visitStmts]; exact Frame.refl _ b
  | s :: ss, σ, b, a => by
    simp only [visitStmts, keysL]
    exact Frame.trans ((frame_visitStmt s σ b a).weaken (fun k hk => List.mem_append.mpr (Or.inl hk)))
      ((frame_visitStmts ss σ _ _).weaken (fun k hk => List.mem_append.mpr (Or.inr hk)))

theorem frame_visitHandlers : ∀ (hs : List Stmt) (σ : List Scope) (rep : Nat) (K : List Nat), rep ∈ K →
    (∀ k, k ∈ keysL hs → k ∈ K) → ∀ (b : B) (a : Acc), Frame K b (visitHandlers σ rep hs b a).1
  | [], σ, rep, K, _, _, b, a => by simp only [visitHandlers]; exact Frame.refl _ b
  | h :: hs, σ, rep, K, hrep, hk, b, a => by
    simp only [visitHandlers]
    refine Frame.trans ?_ (frame_visitHandlers hs σ rep K hrep (fun k hk' => hk k (by simp only [keysL, List.mem_append]; exact Or.inr hk')) _ _)
    refine Frame.trans (B.frame_newCondBranch _ _ rep hrep) ?_
    exact (frame_visitStmt h σ _ _).weaken (fun k hk' => hk k (by simp only [keysL, List.mem_append]; exact Or.inl hk'))
end


/-! ### positive effects of the builder steps -/

/-- Every registered jump has an empty guard list (true as long as no `try … finally` is in scope). -/
def AllNil (b : B) : Prop := ∀ n gs, aget n b.finallySections = some gs → gs = []

/-- `l ⊆ leafSet`. -/
def InLeaves (b : B) (l : List Nat) : Prop := ∀ x, x ∈ l → x ∈ b.leafSet

namespace B

theorem leafSet_eq_of (b b' : B) (h1 : b'.heap = b.heap) (h2 : b'.leaves = b.leaves) : b'.leafSet = b.leafSet := by
  simp [leafSet, deref, h1, h2]

@[simp] theorem leafSet_check (b : B) (c : Bool) (m : String) : (b.check c m).leafSet = b.leafSet :=
  leafSet_eq_of _ _ (by simp) (by simp)
@[simp] theorem leafSet_pushNode (b : B) (n : Nat) : (b.pushNode n).leafSet = b.leafSet := rfl
@[simp] theorem leafSet_connect (b : B) (f : List Nat) (n : Nat) : (b.connect f n).leafSet = b.leafSet := rfl
@[simp] theorem leafSet_putExits (b : B) (k : Nat) (l : List Nat) : (b.putExits k l).leafSet = b.leafSet := rfl
@[simp] theorem leafSet_delExits (b : B) (k : Nat) : (b.delExits k).leafSet = b.leafSet := rfl
@[simp] theorem leafSet_putContinues (b : B) (k : Nat) (l : List Nat) : (b.putContinues k l).leafSet = b.leafSet := rfl
@[simp] theorem leafSet_putSectionEntry (b : B) (k e : Nat) : (b.putSectionEntry k e).leafSet = b.leafSet := rfl
@[simp] theorem leafSet_delLoopKeys (b : B) (k : Nat) : (b.delLoopKeys k).leafSet = b.leafSet := rfl
@[simp] theorem leafSet_putCondLeaves (b : B) (k : Nat) (l : List Nat) : (b.putCondLeaves k l).leafSet = b.leafSet := rfl
@[simp] theorem leafSet_putCondEntry (b : B) (k r : Nat) : (b.putCondEntry k r).leafSet = b.leafSet := rfl
@[simp] theorem leafSet_delCondKeys (b : B) (k : Nat) : (b.delCondKeys k).leafSet = b.leafSet := rfl
@[simp] theorem leafSet_putFinallySections (b : B) (n : Nat) (g : List Nat) : (b.putFinallySections n g).leafSet = b.leafSet := rfl
@[simp] theorem leafSet_delFinallySections (b : B) (n : Nat) : (b.delFinallySections n).leafSet = b.leafSet := rfl
@[simp] theorem leafSet_setRaises (b : B) (r : List (Nat × List Nat)) : (b.setRaises r).leafSet = b.leafSet := rfl
@[simp] theorem leafSet_setActive (b : B) (l : List Nat) : (b.setActive l).leafSet = b.leafSet := rfl
@[simp] theorem leafSet_pushError (b : B) (n : Nat) : (b.pushError n).leafSet = b.leafSet := rfl
@[simp] theorem leafSet_beginStatement (b : B) (i : Nat) : (b.beginStatement i).leafSet = b.leafSet := rfl
@[simp] theorem leafSet_endStatement (b : B) (i : Nat) : (b.endStatement i).leafSet = b.leafSet :=
  leafSet_eq_of _ _ (by simp) (by simp)
@[simp] theorem leafSet_fail (b : B) (m : String) : (b.fail m).leafSet = b.leafSet := rfl

/-- edges of `addNewNode`: the old ones plus one from every leaf. -/
theorem edges_addNewNode (b : B) (n : Nat) : (b.addNewNode n).edges = b.edges ++ b.leafSet.map (fun x => (x, n)) := by
  simp [addNewNode, connect]

@[simp] theorem leafSet_addOrdinaryNode (b : B) (n : Nat) : (b.addOrdinaryNode n).leafSet = [n] := by
  simp [addOrdinaryNode]

theorem edges_addOrdinaryNode (b : B) (n : Nat) : (b.addOrdinaryNode n).edges = b.edges ++ b.leafSet.map (fun x => (x, n)) := by
  simp [addOrdinaryNode, edges_addNewNode]

@[simp] theorem leafSet_addJumpNode (b : B) (n : Nat) (g : List Nat) : (b.addJumpNode n g).leafSet = [] := by
  simp [addJumpNode]

theorem edges_addJumpNode (b : B) (n : Nat) (g : List Nat) : (b.addJumpNode n g).edges = b.edges ++ b.leafSet.map (fun x => (x, n)) := by
  simp [addJumpNode, edges_addNewNode]

theorem finallySections_addJumpNode (b : B) (n : Nat) (g : List Nat) : (b.addJumpNode n g).finallySections = aset n g b.finallySections := by
  simp [addJumpNode, putFinallySections]

theorem cross_sub_addOrdinaryNode (b : B) (n : Nat) (cur : List Nat) (h : InLeaves b cur) :
    Sub (cross cur n) (b.addOrdinaryNode n).edges := by
  intro p hp
  rw [edges_addOrdinaryNode]
  simp only [cross, List.mem_map] at hp
  obtain ⟨c, hc, rfl⟩ := hp
  exact List.mem_append.mpr (Or.inr (List.mem_map.mpr ⟨c, h c hc, rfl⟩))

end B

theorem allNil_of_fs_eq {b b' : B} (h : b'.finallySections = b.finallySections) (ha : AllNil b) : AllNil b' := by
  intro n gs hn; rw [h] at hn; exact ha n gs hn

theorem allNil_addOrdinaryNode {b : B} (n : Nat) (ha : AllNil b) : AllNil (b.addOrdinaryNode n) :=
  allNil_of_fs_eq (by simp) ha

theorem allNil_addOrdinaryNodes (ns : List Nat) : ∀ {b : B}, AllNil b → AllNil (addOrdinaryNodes b ns) := by
  induction ns with
  | nil => intro b h; exact h
  | cons n ns ih => intro b h; exact ih (allNil_addOrdinaryNode n h)

/-- Emitting ordinary nodes realises the required pairs of `emit`. -/
theorem emit_addOrdinaryNodes (ns : List Nat) : ∀ (b : B) (cur : List Nat), InLeaves b cur →
    Sub (emit cur ns).1 (addOrdinaryNodes b ns).edges ∧ InLeaves (addOrdinaryNodes b ns) (emit cur ns).2 := by
  induction ns with
  | nil => intro b cur h; exact ⟨sub_nil _, h⟩
  | cons n ns ih =>
    intro b cur h
    have h1 := B.cross_sub_addOrdinaryNode b n cur h
    have h2 := ih (b.addOrdinaryNode n) [n] (by intro x hx; simpa using hx)
    have hf := (frame_addOrdinaryNodes [] ns (b.addOrdinaryNode n)).edges
    simp only [emit, sub_append]
    exact ⟨⟨fun p hp => hf p (h1 p hp), h2.1⟩, h2.2⟩


/-! jumps -/

theorem allNil_aset {b : B} (n : Nat) (ha : AllNil b) : ∀ m gs, aget m (aset n [] b.finallySections) = some gs → gs = [] := by
  intro m gs h
  rw [aget_aset] at h
  by_cases hm : m = n
  · simp only [hm, if_true, Option.some.injEq] at h; exact h.symm
  · simp only [hm, if_false] at h; exact ha m gs h

theorem allNil_addJumpNode {b : B} (n : Nat) (ha : AllNil b) : AllNil (b.addJumpNode n []) := by
  intro m gs h
  rw [B.finallySections_addJumpNode] at h
  exact allNil_aset n ha m gs h

/-- `add_exit_node(n, sec, [])` when the section is open. -/
theorem addExitNode_effect (b : B) (n sec : Nat) (ex : List Nat) (hx : aget sec b.exits = some ex) (cur : List Nat)
    (hc : InLeaves b cur) (ha : AllNil b) :
    Sub (cross cur n) (b.addExitNode n sec []).edges ∧ (b.addExitNode n sec []).leafSet = [] ∧
    aget sec (b.addExitNode n sec []).exits = some (ex ++ [n]) ∧ AllNil (b.addExitNode n sec []) := by
  simp only [B.addExitNode, hx]
  refine ⟨?_, by simp, ?_, ?_⟩
  · intro p hp
    show p ∈ (b.addJumpNode n []).edges
    rw [B.edges_addJumpNode]
    simp only [cross, List.mem_map] at hp
    obtain ⟨c, hc', rfl⟩ := hp
    exact List.mem_append.mpr (Or.inr (List.mem_map.mpr ⟨c, hc c hc', rfl⟩))
  · show aget sec (aset sec (ex ++ [n]) (b.addJumpNode n []).exits) = _
    rw [aget_aset]; simp
  · exact allNil_of_fs_eq (b := b.addJumpNode n []) rfl (allNil_addJumpNode n ha)

theorem addContinueNode_effect (b : B) (n sec : Nat) (cs : List Nat) (hx : aget sec b.continues = some cs) (cur : List Nat)
    (hc : InLeaves b cur) (ha : AllNil b) :
    Sub (cross cur n) (b.addContinueNode n sec []).edges ∧ (b.addContinueNode n sec []).leafSet = [] ∧
    aget sec (b.addContinueNode n sec []).continues = some (cs ++ [n]) ∧ AllNil (b.addContinueNode n sec []) := by
  simp only [B.addContinueNode, hx]
  refine ⟨?_, by simp, ?_, ?_⟩
  · intro p hp
    show p ∈ (b.addJumpNode n []).edges
    rw [B.edges_addJumpNode]
    simp only [cross, List.mem_map] at hp
    obtain ⟨c, hc', rfl⟩ := hp
    exact List.mem_append.mpr (Or.inr (List.mem_map.mpr ⟨c, hc c hc', rfl⟩))
  · show aget sec (aset sec (cs ++ [n]) (b.addJumpNode n []).continues) = _
    rw [aget_aset]; simp
  · exact allNil_of_fs_eq (b := b.addJumpNode n []) rfl (allNil_addJumpNode n ha)

/-- With empty guard lists a jump is connected to nothing and stays its own cursor. -/
theorem connectJump_allNil (b : B) (e : Nat) (ha : AllNil b) :
    (b.connectJump e).2 = [e] ∧ ((b.connectJump e).1 = b ∨ (b.connectJump e).1 = b.delFinallySections e) := by
  unfold B.connectJump
  split
  · exact ⟨rfl, Or.inl rfl⟩
  · rename_i gs hg
    have := ha e gs hg
    subst this
    exact ⟨rfl, Or.inr rfl⟩

theorem allNil_delFinallySections {b : B} (e : Nat) (ha : AllNil b) : AllNil (b.delFinallySections e) := by
  intro m gs h
  have h' : aget m (adel e b.finallySections) = some gs := h
  rw [aget_adel] at h'
  by_cases hm : m = e
  · simp [hm] at h'
  · simp only [hm, if_false] at h'; exact ha m gs h'

theorem allNil_connectJump {b : B} (e : Nat) (ha : AllNil b) : AllNil (b.connectJump e).1 := by
  rcases (connectJump_allNil b e ha).2 with h | h <;> rw [h]
  · exact ha
  · exact allNil_delFinallySections e ha

theorem leafSet_connectJump (b : B) (e : Nat) (ha : AllNil b) : (b.connectJump e).1.leafSet = b.leafSet := by
  rcases (connectJump_allNil b e ha).2 with h | h <;> rw [h]
  rfl

theorem valid_connectJump (b : B) (e : Nat) (ha : AllNil b) (hv : Valid b) : Valid (b.connectJump e).1 := by
  rcases (connectJump_allNil b e ha).2 with h | h <;> rw [h]
  · exact hv
  · exact ⟨hv.leaves, hv.condEntry⟩

/-- `exit_section` body: every exit becomes a leaf. -/
theorem exitFold_effect (ex : List Nat) : ∀ (b : B), AllNil b → Valid b →
    AllNil (ex.foldl B.exitStep b) ∧ (∀ x, (x ∈ b.leafSet ∨ x ∈ ex) → x ∈ (ex.foldl B.exitStep b).leafSet) := by
  induction ex with
  | nil => intro b ha _; exact ⟨ha, fun x h => h.elim id (fun h => by cases h)⟩
  | cons e ex ih =>
    intro b ha hv
    have hcj := connectJump_allNil b e ha
    have ha1 : AllNil (b.exitStep e) := allNil_of_fs_eq (b := (b.connectJump e).1) rfl (allNil_connectJump e ha)
    have hv0 := valid_connectJump b e ha hv
    have hv1 : Valid (b.exitStep e) := (B.frame_leavesUnion [] _ _).valid hv0
    have hl : ∀ x, (x ∈ b.leafSet ∨ x = e) → x ∈ (b.exitStep e).leafSet := by
      intro x hx
      show x ∈ ((b.connectJump e).1.leavesUnion (b.connectJump e).2).leafSet
      rw [B.mem_leafSet_leavesUnion _ _ hv0.leaves, leafSet_connectJump b e ha, hcj.1]
      simpa using hx
    obtain ⟨ih1, ih2⟩ := ih (b.exitStep e) ha1 hv1
    refine ⟨ih1, ?_⟩
    intro x hx
    simp only [List.foldl_cons]
    apply ih2
    rcases hx with hx | hx
    · exact Or.inl (hl x (Or.inl hx))
    · rcases List.mem_cons.mp hx with hx | hx
      · exact Or.inl (hl x (Or.inr hx))
      · exact Or.inr hx

theorem exitSection_effect (b : B) (i : Nat) (ex : List Nat) (hx : aget i b.exits = some ex) (ha : AllNil b) (hv : Valid b) :
    AllNil (b.exitSection i) ∧ (∀ x, (x ∈ b.leafSet ∨ x ∈ ex) → x ∈ (b.exitSection i).leafSet) := by
  simp only [B.exitSection, hx]
  obtain ⟨h1, h2⟩ := exitFold_effect ex b ha hv
  exact ⟨allNil_of_fs_eq (b := ex.foldl B.exitStep b) rfl h1, fun x hx => by simpa using h2 x hx⟩

/-- `exit_loop_section` body: every `continue` flows back to the entry. -/
theorem reentryFold_effect (entry : Nat) (cs : List Nat) : ∀ (b : B), AllNil b →
    AllNil (cs.foldl (B.reentryStep entry) b) ∧ Sub (cross cs entry) (cs.foldl (B.reentryStep entry) b).edges ∧
    (cs.foldl (B.reentryStep entry) b).leafSet = b.leafSet ∧ (cs.foldl (B.reentryStep entry) b).heap = b.heap ∧
    (cs.foldl (B.reentryStep entry) b).exits = b.exits := by
  induction cs with
  | nil => intro b ha; exact ⟨ha, sub_nil _, rfl, rfl, rfl⟩
  | cons c cs ih =>
    intro b ha
    have hcj := connectJump_allNil b c ha
    have ha1 : AllNil (B.reentryStep entry b c) := allNil_of_fs_eq (b := (b.connectJump c).1) rfl (allNil_connectJump c ha)
    obtain ⟨i1, i2, i3, i4, i5⟩ := ih (B.reentryStep entry b c) ha1
    have he1 : (B.reentryStep entry b c).exits = b.exits := by
      show ((b.connectJump c).1.connect _ entry).exits = _
      rcases hcj.2 with h | h <;> rw [h] <;> rfl
    have hedge : (c, entry) ∈ (B.reentryStep entry b c).edges := by
      show (c, entry) ∈ ((b.connectJump c).1.connect (b.connectJump c).2 entry).edges
      rw [hcj.1]
      simp [B.connect]
    have hmono := (B.frame_foldl [] (B.reentryStep entry) (B.frame_reentryStep [] entry) cs (B.reentryStep entry b c)).edges
    have hl1 : (B.reentryStep entry b c).leafSet = b.leafSet := by
      show ((b.connectJump c).1.connect _ entry).leafSet = _
      simp [leafSet_connectJump b c ha]
    have hh1 : (B.reentryStep entry b c).heap = b.heap := by
      show ((b.connectJump c).1.connect _ entry).heap = _
      rcases hcj.2 with h | h <;> rw [h] <;> rfl
    refine ⟨i1, ?_, by simp only [List.foldl_cons]; rw [i3, hl1], by simp only [List.foldl_cons]; rw [i4, hh1],
      by simp only [List.foldl_cons]; rw [i5, he1]⟩
    intro p hp
    simp only [cross, List.map_cons, List.mem_cons] at hp
    simp only [List.foldl_cons]
    rcases hp with hp | hp
    · subst hp; exact hmono _ hedge
    · exact i2 p hp

theorem exitLoopSection_effect (b : B) (i entry : Nat) (cs : List Nat) (he : aget i b.sectionEntry = some entry)
    (hc : aget i b.continues = some cs) (ha : AllNil b) :
    AllNil (b.exitLoopSection i) ∧ Sub (cross b.leafSet entry) (b.exitLoopSection i).edges ∧
    Sub (cross cs entry) (b.exitLoopSection i).edges ∧ (b.exitLoopSection i).leafSet = [entry] ∧
    (b.exitLoopSection i).exits = b.exits := by
  simp only [B.exitLoopSection, he, hc]
  obtain ⟨h1, h2, _, _, h5⟩ := reentryFold_effect entry cs (b.connect b.leafSet entry) (allNil_of_fs_eq (b := b) rfl ha)
  have hmono := (B.frame_foldl [] (B.reentryStep entry) (B.frame_reentryStep [] entry) cs (b.connect b.leafSet entry)).edges
  refine ⟨allNil_of_fs_eq (b := cs.foldl (B.reentryStep entry) (b.connect b.leafSet entry)) rfl h1, ?_, ?_, by simp,
    by simpa using h5⟩
  · intro p hp
    show p ∈ (cs.foldl (B.reentryStep entry) (b.connect b.leafSet entry)).edges
    apply hmono
    simp only [B.connect, List.mem_append]
    exact Or.inr hp
  · intro p hp
    exact h2 p hp


/-! sections -/

theorem enterSection_effect (b : B) (i : Nat) :
    aget i (b.enterSection i).exits = some [] ∧ (b.enterSection i).leafSet = b.leafSet ∧
    (b.enterSection i).finallySections = b.finallySections ∧ (b.enterSection i).continues = b.continues ∧
    (b.enterSection i).condEntry = b.condEntry := by
  refine ⟨?_, by simp [B.enterSection], by simp [B.enterSection], by simp [B.enterSection], by simp [B.enterSection]⟩
  show aget i (aset i [] _) = _
  rw [aget_aset]; simp

theorem enterLoopSection_effect (b : B) (i h : Nat) :
    aget i (b.enterLoopSection i h).continues = some [] ∧ aget i (b.enterLoopSection i h).sectionEntry = some h ∧
    (b.enterLoopSection i h).exits = b.exits ∧ Sub (cross b.leafSet h) (b.enterLoopSection i h).edges ∧
    (b.enterLoopSection i h).leafSet = [h] ∧ (b.enterLoopSection i h).finallySections = b.finallySections ∧
    (b.enterLoopSection i h).condEntry = b.condEntry := by
  refine ⟨?_, ?_, by simp [B.enterLoopSection], ?_, by simp [B.enterLoopSection], by simp [B.enterLoopSection], by simp [B.enterLoopSection]⟩
  · simp only [B.enterLoopSection, B.putSectionEntry_continues, B.addOrdinaryNode_continues]
    show aget i (aset i [] _) = _
    rw [aget_aset]; simp
  · show aget i (aset i h _) = _
    rw [aget_aset]; simp
  · intro p hp
    simp only [B.enterLoopSection, B.putSectionEntry_edges]
    exact B.cross_sub_addOrdinaryNode _ h b.leafSet (fun x hx => by simpa using hx) p hp

/-! conditionals -/

theorem enterCondSection_effect (b : B) (i : Nat) :
    aget i (b.enterCondSection i).condLeaves = some [] ∧ (b.enterCondSection i).condEntry = b.condEntry ∧
    (b.enterCondSection i).leafSet = b.leafSet ∧ (b.enterCondSection i).finallySections = b.finallySections ∧
    (b.enterCondSection i).exits = b.exits ∧ (b.enterCondSection i).continues = b.continues := by
  refine ⟨?_, by simp [B.enterCondSection], by simp [B.enterCondSection], by simp [B.enterCondSection],
    by simp [B.enterCondSection], by simp [B.enterCondSection]⟩
  show aget i (aset i [] _) = _
  rw [aget_aset]; simp

/-- first `new_cond_branch`: remember the split point -/
theorem newCondBranch_first (b : B) (i : Nat) (splits : List Nat) (h1 : aget i b.condLeaves = some splits)
    (h2 : aget i b.condEntry = none) : b.newCondBranch i = b.putCondEntry i b.leaves := by
  simp [B.newCondBranch, h1, h2]

/-- subsequent `new_cond_branch`: memorise the leaves, move back to the split point -/
theorem newCondBranch_next (b : B) (i : Nat) (splits : List Nat) (entry : Nat) (h1 : aget i b.condLeaves = some splits)
    (h2 : aget i b.condEntry = some entry) :
    b.newCondBranch i = (b.putCondLeaves i (splits ++ [b.leaves])).setLeavesRef entry := by
  simp [B.newCondBranch, h1, h2]

theorem unionFold_effect (splits : List Nat) : ∀ (b : B), Valid b →
    (∀ x, x ∈ b.leafSet → x ∈ (splits.foldl B.unionStep b).leafSet) ∧
    (∀ r, r ∈ splits → ∀ x, x ∈ b.deref r → x ∈ (splits.foldl B.unionStep b).leafSet) ∧
    (splits.foldl B.unionStep b).finallySections = b.finallySections := by
  induction splits with
  | nil => intro b _; exact ⟨fun _ h => h, fun r hr => (List.not_mem_nil hr).elim, rfl⟩
  | cons r0 rs ih =>
    intro b hv
    have hv1 : Valid (b.unionStep r0) := (B.frame_unionStep [] b r0).valid hv
    obtain ⟨i1, i2, i3⟩ := ih (b.unionStep r0) hv1
    have hl : ∀ x, (x ∈ b.leafSet ∨ x ∈ b.deref r0) → x ∈ (b.unionStep r0).leafSet := by
      intro x hx
      show x ∈ (b.leavesUnion (b.deref r0)).leafSet
      rw [B.mem_leafSet_leavesUnion _ _ hv.leaves]; exact hx
    refine ⟨fun x hx => i1 x (hl x (Or.inl hx)), ?_, by simp only [List.foldl_cons]; rw [i3]; rfl⟩
    intro r hr x hx
    rcases List.mem_cons.mp hr with hr | hr
    · subst hr; exact i1 x (hl x (Or.inr hx))
    · exact i2 r hr x ((B.frame_unionStep [] b r0).deref r x hx)

theorem exitCondSection_effect (b : B) (i : Nat) (splits : List Nat) (h1 : aget i b.condLeaves = some splits) (hv : Valid b) :
    (∀ x, x ∈ b.leafSet → x ∈ (b.exitCondSection i).leafSet) ∧
    (∀ r, r ∈ splits → ∀ x, x ∈ b.deref r → x ∈ (b.exitCondSection i).leafSet) ∧
    (b.exitCondSection i).finallySections = b.finallySections := by
  simp only [B.exitCondSection, h1]
  obtain ⟨u1, u2, u3⟩ := unionFold_effect splits b hv
  exact ⟨fun x hx => by simpa using u1 x hx, fun r hr x hx => by simpa using u2 r hr x hx, by simpa using u3⟩

/-! ### scopes without `try` -/

def Scope.isTry : Scope → Bool
  | .try_ .. => true
  | _ => false

/-- No `try` scope is open. -/
def NoTryScope (σ : List Scope) : Prop := ∀ sc, sc ∈ σ → sc.isTry = false

theorem enclosingFinally_noTry (stop : Stop) : ∀ σ : List Scope, NoTryScope σ → (enclosingFinally stop σ).2 = [] := by
  intro σ
  induction σ with
  | nil => intro _; rfl
  | cons sc σ ih =>
    intro h
    have hsc : sc.isTry = false := h sc (List.mem_cons_self ..)
    have hrest : NoTryScope σ := fun s hs => h s (List.mem_cons_of_mem _ hs)
    simp only [enclosingFinally]
    cases sc <;> simp [Scope.isTry] at hsc <;> (split <;> simp [ih hrest])

theorem enclosingExcept_noTry (stop : Stop) : ∀ σ : List Scope, NoTryScope σ → enclosingExcept stop σ = [] := by
  intro σ
  induction σ with
  | nil => intro _; rfl
  | cons sc σ ih =>
    intro h
    have hsc : sc.isTry = false := h sc (List.mem_cons_self ..)
    have hrest : NoTryScope σ := fun s hs => h s (List.mem_cons_of_mem _ hs)
    simp only [enclosingExcept]
    cases sc <;> simp [Scope.isTry] at hsc <;> (split <;> simp [ih hrest])

/-- The target found by `_get_enclosing_finally_scopes` is the id of an open scope. -/
theorem enclosingFinally_target_mem (stop : Stop) : ∀ (σ : List Scope) (t : Nat), (enclosingFinally stop σ).1 = some t →
    ∃ sc, sc ∈ σ ∧ sc.id = t := by
  intro σ
  induction σ with
  | nil => intro t h; simp [enclosingFinally] at h
  | cons sc σ ih =>
    intro t h
    simp only [enclosingFinally] at h
    split at h
    · simp only [Option.some.injEq] at h
      exact ⟨sc, List.mem_cons_self .., h⟩
    · obtain ⟨sc', h1, h2⟩ := ih t h
      exact ⟨sc', List.mem_cons_of_mem _ h1, h2⟩


/-! ### the invariant of Lemma B -/

def loopOf (σ : List Scope) : Option Nat := (enclosingFinally .loop σ).1
def fnOf (σ : List Scope) : Option Nat := (enclosingFinally .fn σ).1

/-- What the builder state owes to the flow summary `R` of code already visited: every required pair is an edge, and
every pending jump is registered in the section it targets. -/
structure Pend (σ : List Scope) (b : B) (R : Flow) : Prop where
  req : Sub R.req b.edges
  brk : ∀ x, x ∈ R.brk → ∃ L l, loopOf σ = some L ∧ aget L b.exits = some l ∧ x ∈ l
  cont : ∀ x, x ∈ R.cont → ∃ L l, loopOf σ = some L ∧ aget L b.continues = some l ∧ x ∈ l
  ret : ∀ x, x ∈ R.ret → ∃ F l, fnOf σ = some F ∧ aget F b.exits = some l ∧ x ∈ l
  raise : ∀ x, x ∈ R.raise → ∃ F l, fnOf σ = some F ∧ aget F b.exits = some l ∧ x ∈ l
  exempt : R.exempt = []

theorem Pend.empty (σ : List Scope) (b : B) : Pend σ b {} :=
  ⟨sub_nil _, fun _ h => (List.not_mem_nil h).elim, fun _ h => (List.not_mem_nil h).elim,
   fun _ h => (List.not_mem_nil h).elim, fun _ h => (List.not_mem_nil h).elim, rfl⟩

theorem Pend.of_req (σ : List Scope) (b : B) (l : List (Nat × Nat)) (nrm : List Nat) (h : Sub l b.edges) :
    Pend σ b { req := l, normal := nrm } :=
  ⟨h, fun _ h => (List.not_mem_nil h).elim, fun _ h => (List.not_mem_nil h).elim,
   fun _ h => (List.not_mem_nil h).elim, fun _ h => (List.not_mem_nil h).elim, rfl⟩

theorem Pend.transport {σ : List Scope} {K : List Nat} {b b' : B} {R : Flow} (hf : Frame K b b')
    (hσ : ∀ sc, sc ∈ σ → sc.id ∉ K) (h : Pend σ b R) : Pend σ b' R := by
  refine ⟨fun p hp => hf.edges p (h.req p hp), ?_, ?_, ?_, ?_, h.exempt⟩
  · intro x hx
    obtain ⟨L, l, hL, hl, hxl⟩ := h.brk x hx
    obtain ⟨sc, hsc, hid⟩ := enclosingFinally_target_mem .loop σ L hL
    obtain ⟨l', hl', hsub⟩ := hf.exits L (hid ▸ hσ sc hsc) l hl
    exact ⟨L, l', hL, hl', hsub x hxl⟩
  · intro x hx
    obtain ⟨L, l, hL, hl, hxl⟩ := h.cont x hx
    obtain ⟨sc, hsc, hid⟩ := enclosingFinally_target_mem .loop σ L hL
    obtain ⟨l', hl', hsub⟩ := hf.continues L (hid ▸ hσ sc hsc) l hl
    exact ⟨L, l', hL, hl', hsub x hxl⟩
  · intro x hx
    obtain ⟨F, l, hF, hl, hxl⟩ := h.ret x hx
    obtain ⟨sc, hsc, hid⟩ := enclosingFinally_target_mem .fn σ F hF
    obtain ⟨l', hl', hsub⟩ := hf.exits F (hid ▸ hσ sc hsc) l hl
    exact ⟨F, l', hF, hl', hsub x hxl⟩
  · intro x hx
    obtain ⟨F, l, hF, hl, hxl⟩ := h.raise x hx
    obtain ⟨sc, hsc, hid⟩ := enclosingFinally_target_mem .fn σ F hF
    obtain ⟨l', hl', hsub⟩ := hf.exits F (hid ▸ hσ sc hsc) l hl
    exact ⟨F, l', hF, hl', hsub x hxl⟩

theorem Pend.seq {σ : List Scope} {b : B} {R1 R2 : Flow} (h1 : Pend σ b R1) (h2 : Pend σ b R2) : Pend σ b (R1.seq R2) := by
  refine ⟨?_, ?_, ?_, ?_, ?_, ?_⟩
  · simp only [Flow.seq, sub_append]; exact ⟨h1.req, h2.req⟩
  · intro x hx; simp only [Flow.seq, List.mem_append] at hx; exact hx.elim (h1.brk x) (h2.brk x)
  · intro x hx; simp only [Flow.seq, List.mem_append] at hx; exact hx.elim (h1.cont x) (h2.cont x)
  · intro x hx; simp only [Flow.seq, List.mem_append] at hx; exact hx.elim (h1.ret x) (h2.ret x)
  · intro x hx; simp only [Flow.seq, List.mem_append] at hx; exact hx.elim (h1.raise x) (h2.raise x)
  · simp [Flow.seq, h1.exempt, h2.exempt]

theorem Pend.alt {σ : List Scope} {b : B} {R1 R2 : Flow} (h1 : Pend σ b R1) (h2 : Pend σ b R2) : Pend σ b (R1.alt R2) := by
  refine ⟨?_, ?_, ?_, ?_, ?_, ?_⟩
  · simp only [Flow.alt, sub_append]; exact ⟨h1.req, h2.req⟩
  · intro x hx; simp only [Flow.alt, List.mem_append] at hx; exact hx.elim (h1.brk x) (h2.brk x)
  · intro x hx; simp only [Flow.alt, List.mem_append] at hx; exact hx.elim (h1.cont x) (h2.cont x)
  · intro x hx; simp only [Flow.alt, List.mem_append] at hx; exact hx.elim (h1.ret x) (h2.ret x)
  · intro x hx; simp only [Flow.alt, List.mem_append] at hx; exact hx.elim (h1.raise x) (h2.raise x)
  · simp [Flow.alt, h1.exempt, h2.exempt]

/-- What Lemma B assumes of the builder state before visiting code whose keys are `K`. -/
structure Pre (σ : List Scope) (K : List Nat) (b : B) : Prop where
  noTry : NoTryScope σ
  disj : ∀ sc, sc ∈ σ → sc.id ∉ K
  fresh : ∀ k, k ∈ K → aget k b.condEntry = none
  loopOpen : ∀ L, loopOf σ = some L → (∃ l, aget L b.exits = some l) ∧ (∃ l, aget L b.continues = some l)
  fnOpen : ∃ F, fnOf σ = some F ∧ ∃ l, aget F b.exits = some l
  valid : Valid b
  allNil : AllNil b

/-- What Lemma B establishes. -/
structure Post (σ : List Scope) (b' : B) (R : Flow) : Prop where
  pend : Pend σ b' R
  norm : InLeaves b' R.normal
  allNil : AllNil b'

theorem Pre.sub {σ : List Scope} {K K' : List Nat} {b : B} (h : Pre σ K b) (hs : ∀ k, k ∈ K' → k ∈ K) : Pre σ K' b :=
  ⟨h.noTry, fun sc hsc hk => h.disj sc hsc (hs _ hk), fun k hk => h.fresh k (hs k hk), h.loopOpen, h.fnOpen, h.valid, h.allNil⟩

/-- After visiting code with keys `K1` (disjoint from `K2`), the precondition for `K2` still holds. -/
theorem Pre.step {σ : List Scope} {K1 K2 : List Nat} {b b1 : B} (h : Pre σ (K1 ++ K2) b) (hf : Frame K1 b b1)
    (hd : ∀ k, k ∈ K2 → k ∉ K1) (ha : AllNil b1) : Pre σ K2 b1 := by
  have hσ1 : ∀ sc, sc ∈ σ → sc.id ∉ K1 := fun sc hsc hk => h.disj sc hsc (List.mem_append.mpr (Or.inl hk))
  refine ⟨h.noTry, fun sc hsc hk => h.disj sc hsc (List.mem_append.mpr (Or.inr hk)), ?_, ?_, ?_, hf.valid h.valid, ha⟩
  · intro k hk
    rw [hf.condEntry k (hd k hk)]
    exact h.fresh k (List.mem_append.mpr (Or.inr hk))
  · intro L hL
    obtain ⟨sc, hsc, hid⟩ := enclosingFinally_target_mem .loop σ L hL
    obtain ⟨⟨l1, h1⟩, ⟨l2, h2⟩⟩ := h.loopOpen L hL
    obtain ⟨l1', h1', _⟩ := hf.exits L (hid ▸ hσ1 sc hsc) l1 h1
    obtain ⟨l2', h2', _⟩ := hf.continues L (hid ▸ hσ1 sc hsc) l2 h2
    exact ⟨⟨l1', h1'⟩, ⟨l2', h2'⟩⟩
  · obtain ⟨F, hF, l, hl⟩ := h.fnOpen
    obtain ⟨sc, hsc, hid⟩ := enclosingFinally_target_mem .fn σ F hF
    obtain ⟨l', hl', _⟩ := hf.exits F (hid ▸ hσ1 sc hsc) l hl
    exact ⟨F, hF, l', hl'⟩

/-- Moving the precondition for keys `K2` across a step that touches only keys `K1` (disjoint from `K2` and from the
open scopes). -/
theorem Pre.move {σ : List Scope} {K1 K2 : List Nat} {b b1 : B} (h : Pre σ K2 b) (hf : Frame K1 b b1)
    (hσ1 : ∀ sc, sc ∈ σ → sc.id ∉ K1) (hd : ∀ k, k ∈ K2 → k ∉ K1) (ha : AllNil b1) : Pre σ K2 b1 := by
  refine ⟨h.noTry, h.disj, ?_, ?_, ?_, hf.valid h.valid, ha⟩
  · intro k hk
    rw [hf.condEntry k (hd k hk)]
    exact h.fresh k hk
  · intro L hL
    obtain ⟨sc, hsc, hid⟩ := enclosingFinally_target_mem .loop σ L hL
    obtain ⟨⟨l1, h1⟩, ⟨l2, h2⟩⟩ := h.loopOpen L hL
    obtain ⟨l1', h1', _⟩ := hf.exits L (hid ▸ hσ1 sc hsc) l1 h1
    obtain ⟨l2', h2', _⟩ := hf.continues L (hid ▸ hσ1 sc hsc) l2 h2
    exact ⟨⟨l1', h1'⟩, ⟨l2', h2'⟩⟩
  · obtain ⟨F, hF, l, hl⟩ := h.fnOpen
    obtain ⟨sc, hsc, hid⟩ := enclosingFinally_target_mem .fn σ F hF
    obtain ⟨l', hl', _⟩ := hf.exits F (hid ▸ hσ1 sc hsc) l hl
    exact ⟨F, hF, l', hl'⟩

theorem addOrdinaryNodes_append (b : B) (a c : List Nat) : addOrdinaryNodes b (a ++ c) = addOrdinaryNodes (addOrdinaryNodes b a) c := by
  simp [addOrdinaryNodes, List.foldl_append]

/-- Emitting `ns` as ordinary nodes and completing normally. -/
theorem post_emit_normal (σ : List Scope) (b : B) (cur ns : List Nat) (hc : InLeaves b cur) (ha : AllNil b) :
    Post σ (addOrdinaryNodes b ns) { req := (emit cur ns).1, normal := (emit cur ns).2 } := by
  obtain ⟨h1, h2⟩ := emit_addOrdinaryNodes ns b cur hc
  exact ⟨Pend.of_req σ _ _ _ h1, h2, allNil_addOrdinaryNodes ns ha⟩

theorem emit_snoc (cur a : List Nat) (n : Nat) :
    (emit cur (a ++ [n])).1 = (emit cur a).1 ++ cross (emit cur a).2 n ∧ (emit cur (a ++ [n])).2 = [n] := by
  induction a generalizing cur with
  | nil => simp [emit]
  | cons x a ih =>
    obtain ⟨i1, i2⟩ := ih [x]
    simp only [List.cons_append, emit, i1, i2, List.append_assoc, and_self]


/-! ### the fragment without `try` (step 1 of `C05_paths`) -/
mutual
/-- Statements of the modelled language that contain no `try` (nested function/class bodies are not inspected: they
have their own graphs).  `inLoop`: a `break`/`continue` here has a target loop in this function. -/
def frag1 (inLoop : Bool) : Stmt → Bool
  | .try_ .. => false
  | .handler .. => false
  | .other .. => false
  | .if_ _ _ body orelse => frag1L inLoop body && frag1L inLoop orelse
  | .while_ _ _ body orelse => frag1L true body && frag1L inLoop orelse
  | .for_ _ _ _ body orelse extra isAsync => !isAsync && extra.isEmpty && frag1L true body && frag1L inLoop orelse
  | .with_ _ _ body isAsync => !isAsync && frag1L inLoop body
  | .functionDef _ _ _ _ _ _ isAsync => !isAsync
  | .break_ _ => inLoop
  | .continue_ _ => inLoop
  | _ => true
def frag1L (inLoop : Bool) : List Stmt → Bool
  | [] => true
  | s :: ss => frag1 inLoop s && frag1L inLoop ss
end

theorem processExit_eq (σ : List Scope) (b : B) (n : Nat) (stop : Stop) (v : Bool) (t : Nat)
    (h1 : (enclosingFinally stop σ).1 = some t) (hn : NoTryScope σ) :
    processExit σ b n stop v = b.addExitNode n t [] := by
  have h2 := enclosingFinally_noTry stop σ hn
  have : enclosingFinally stop σ = (some t, []) := Prod.ext h1 h2
  simp only [processExit, this]
  cases v
  · rfl
  · simp only [if_true, enclosingExcept_noTry stop σ hn]; rfl

theorem processContinue_eq (σ : List Scope) (b : B) (n : Nat) (t : Nat)
    (h1 : (enclosingFinally .loop σ).1 = some t) (hn : NoTryScope σ) :
    processContinue σ b n = b.addContinueNode n t [] := by
  have h2 := enclosingFinally_noTry .loop σ hn
  have : enclosingFinally .loop σ = (some t, []) := Prod.ext h1 h2
  simp only [processContinue, this]

/-- a jump node of a section keyed by `t`, emitted after the lambdas `lams` -/
theorem post_exit (σ : List Scope) (b : B) (cur lams : List Nat) (n t : Nat) (ex : List Nat) (hc : InLeaves b cur)
    (ha : AllNil b) (ht : aget t b.exits = some ex) :
    Sub (emit cur (lams ++ [n])).1 ((addOrdinaryNodes b lams).addExitNode n t []).edges ∧
    ((addOrdinaryNodes b lams).addExitNode n t []).leafSet = [] ∧
    (∃ l, aget t ((addOrdinaryNodes b lams).addExitNode n t []).exits = some l ∧ n ∈ l) ∧
    AllNil ((addOrdinaryNodes b lams).addExitNode n t []) := by
  obtain ⟨h1, h2⟩ := emit_addOrdinaryNodes lams b cur hc
  have hf := frame_addOrdinaryNodes [] lams b
  obtain ⟨ex1, hex1, _⟩ := hf.exits t (by simp) ex ht
  obtain ⟨e1, e2, e3, e4⟩ := addExitNode_effect (addOrdinaryNodes b lams) n t ex1 hex1 _ h2 (allNil_addOrdinaryNodes lams ha)
  refine ⟨?_, e2, ⟨_, e3, by simp⟩, e4⟩
  rw [(emit_snoc cur lams n).1, sub_append]
  exact ⟨fun p hp => (B.frame_addExitNode [] _ n t []).edges p (h1 p hp), e1⟩


theorem addOrdinaryNodes_snoc (b : B) (ns : List Nat) (n : Nat) :
    addOrdinaryNodes b (ns ++ [n]) = (addOrdinaryNodes b ns).addOrdinaryNode n := by
  simp [addOrdinaryNodes, List.foldl_append]

theorem basicExprs_eq (σ : List Scope) : ∀ (items : List Expr) (b : B) (a : Acc),
    (basicExprs σ items b a).1 = addOrdinaryNodes b (withItemNodes items)
  | [], b, a => rfl
  | e :: es, b, a => by
    simp only [basicExprs, withItemNodes, basicExpr]
    rw [basicExprs_eq σ es]
    have : e.kidLams ++ e.id :: withItemNodes es = (e.kidLams ++ [e.id]) ++ withItemNodes es := by simp
    rw [this, addOrdinaryNodes_append, addOrdinaryNodes_snoc]


theorem deref_eq_of_heap {b b' : B} (h : b'.heap = b.heap) (r : Nat) : b'.deref r = b.deref r := by
  simp [B.deref, h]

/-- The `if` statement, given Lemma B for its two blocks. -/
theorem lemB_if (σ : List Scope) (i : Nat) (test : Expr) (body orelse : List Stmt) (b : B) (a a1 a2 : Acc) (cur : List Nat)
    (hnd : (i :: (keysL body ++ keysL orelse)).Nodup)
    (hp : Pre σ (i :: (keysL body ++ keysL orelse)) b) (hc : InLeaves b cur)
    (hbody : ∀ (b : B) (a : Acc) (cur : List Nat), Pre σ (keysL body) b → InLeaves b cur →
      Post σ (visitStmts σ body b a).1 (flowBlock body cur))
    (horelse : ∀ (b : B) (a : Acc) (cur : List Nat), Pre σ (keysL orelse) b → InLeaves b cur →
      Post σ (visitStmts σ orelse b a).1 (flowBlock orelse cur)) :
    Post σ
      ((((visitStmts σ orelse
          ((visitStmts σ body ((basicExpr σ test ((b.beginStatement i).enterCondSection i) a).1.newCondBranch i) a1).1.newCondBranch i)
          a2).1).exitCondSection i).endStatement i)
      (flowStmt (.if_ i test body orelse) cur) := by
  -- keys
  obtain ⟨hi_all, hnd2⟩ := List.nodup_cons.mp hnd
  obtain ⟨ndb, ndo, dbo⟩ := List.nodup_append.mp hnd2
  have hi_b : i ∉ keysL body := fun h => hi_all (List.mem_append.mpr (Or.inl h))
  have hi_o : i ∉ keysL orelse := fun h => hi_all (List.mem_append.mpr (Or.inr h))
  have hσi : ∀ sc, sc ∈ σ → sc.id ∉ [i] := fun sc hsc h => hp.disj sc hsc (by simp only [List.mem_singleton] at h; rw [h]; exact List.mem_cons_self ..)
  have hσb : ∀ sc, sc ∈ σ → sc.id ∉ i :: keysL body := fun sc hsc h => hp.disj sc hsc (by
    rcases List.mem_cons.mp h with h | h
    · rw [h]; exact List.mem_cons_self ..
    · exact List.mem_cons_of_mem _ (List.mem_append.mpr (Or.inl h)))
  -- states
  let b1 := (b.beginStatement i).enterCondSection i
  let bt := (basicExpr σ test b1 a).1
  have hbt : bt = addOrdinaryNodes b1 (test.kidLams ++ [test.id]) := by
    show (addOrdinaryNodes b1 test.kidLams).addOrdinaryNode test.id = _
    rw [addOrdinaryNodes_snoc]
  obtain ⟨c1, c2, c3, c4, _, _⟩ := enterCondSection_effect (b.beginStatement i) i
  have hc1 : InLeaves b1 cur := fun x hx => by rw [show b1.leafSet = b.leafSet from c3]; exact hc x hx
  have ha1 : AllNil b1 := allNil_of_fs_eq (b := b) c4 hp.allNil
  obtain ⟨e1, e2⟩ := emit_addOrdinaryNodes (test.kidLams ++ [test.id]) b1 cur hc1
  rw [← hbt] at e1 e2
  have hat : AllNil bt := by rw [hbt]; exact allNil_addOrdinaryNodes _ ha1
  have ft : Frame [] b1 bt := frame_basicExpr [] σ test b1 a
  have hcl_t : aget i bt.condLeaves = some [] := by rw [ft.condLeaves i (by simp)]; exact c1
  have hce_t : aget i bt.condEntry = none := by
    rw [ft.condEntry i (by simp)]
    show aget i ((b.beginStatement i).enterCondSection i).condEntry = none
    rw [c2]; exact hp.fresh i (List.mem_cons_self ..)
  let b2 := bt.newCondBranch i
  have hb2 : b2 = bt.putCondEntry i bt.leaves := newCondBranch_first bt i [] hcl_t hce_t
  have hl2 : b2.leafSet = bt.leafSet := by rw [hb2]; rfl
  have hce2 : aget i b2.condEntry = some bt.leaves := by rw [hb2]; show aget i (aset i _ _) = _; rw [aget_aset]; simp
  have hcl2 : aget i b2.condLeaves = some [] := by rw [hb2]; exact hcl_t
  have ha2 : AllNil b2 := allNil_of_fs_eq (b := bt) (by rw [hb2]; rfl) hat
  have f02 : Frame [i] b b2 :=
    Frame.trans (Frame.trans (Frame.trans (B.frame_beginStatement _ b i) (B.frame_enterCondSection _ _ i (by simp)))
      (frame_basicExpr _ σ test _ a)) (B.frame_newCondBranch _ _ i (by simp))
  have pre2 : Pre σ (keysL body) b2 :=
    (hp.sub (fun k hk => List.mem_cons_of_mem _ (List.mem_append.mpr (Or.inl hk)))).move f02 hσi
      (fun k hk h => hi_b (by simp only [List.mem_singleton] at h; rw [← h]; exact hk)) ha2
  have hc2 : InLeaves b2 (emit cur (test.kidLams ++ [test.id])).2 := fun x hx => by rw [hl2]; exact e2 x hx
  have IHb := hbody b2 a1 _ pre2 hc2
  let b3 := (visitStmts σ body b2 a1).1
  have fb : Frame (keysL body) b2 b3 := frame_visitStmts body σ b2 a1
  have hce3 : aget i b3.condEntry = some bt.leaves := by rw [fb.condEntry i hi_b]; exact hce2
  have hcl3 : aget i b3.condLeaves = some [] := by rw [fb.condLeaves i hi_b]; exact hcl2
  have hd3 : ∀ x, x ∈ (emit cur (test.kidLams ++ [test.id])).2 → x ∈ b3.deref bt.leaves := by
    intro x hx
    apply fb.deref
    rw [deref_eq_of_heap (b := bt) (by rw [hb2]; rfl)]
    exact e2 x hx
  let b4 := b3.newCondBranch i
  have hb4 : b4 = (b3.putCondLeaves i ([] ++ [b3.leaves])).setLeavesRef bt.leaves := newCondBranch_next b3 i [] _ hcl3 hce3
  have hl4 : b4.leafSet = b3.deref bt.leaves := by rw [hb4]; rfl
  have hcl4 : aget i b4.condLeaves = some [b3.leaves] := by
    rw [hb4]; show aget i (aset i _ _) = _; rw [aget_aset]; simp
  have ha4 : AllNil b4 := allNil_of_fs_eq (b := b3) (by rw [hb4]; rfl) IHb.allNil
  have f34 : Frame [i] b3 b4 := B.frame_newCondBranch _ _ i (by simp)
  have f04 : Frame (i :: keysL body) b b4 :=
    Frame.trans (Frame.trans (f02.weaken (fun k hk => by simp only [List.mem_singleton] at hk; rw [hk]; exact List.mem_cons_self ..))
      (fb.weaken (fun k hk => List.mem_cons_of_mem _ hk)))
      (f34.weaken (fun k hk => by simp only [List.mem_singleton] at hk; rw [hk]; exact List.mem_cons_self ..))
  have pre4 : Pre σ (keysL orelse) b4 :=
    (hp.sub (fun k hk => List.mem_cons_of_mem _ (List.mem_append.mpr (Or.inr hk)))).move f04 hσb
      (fun k hk h => by
        rcases List.mem_cons.mp h with h | h
        · exact hi_o (h ▸ hk)
        · exact dbo k h k hk rfl) ha4
  have hc4 : InLeaves b4 (emit cur (test.kidLams ++ [test.id])).2 := fun x hx => by rw [hl4]; exact hd3 x hx
  have IHo := horelse b4 a2 _ pre4 hc4
  let b5 := (visitStmts σ orelse b4 a2).1
  have fo : Frame (keysL orelse) b4 b5 := frame_visitStmts orelse σ b4 a2
  have hcl5 : aget i b5.condLeaves = some [b3.leaves] := by rw [fo.condLeaves i hi_o]; exact hcl4
  have hd5 : ∀ x, x ∈ (flowBlock body (emit cur (test.kidLams ++ [test.id])).2).normal → x ∈ b5.deref b3.leaves := by
    intro x hx
    apply fo.deref
    rw [deref_eq_of_heap (b := b3) (by rw [hb4]; rfl)]
    exact IHb.norm x hx
  have hv5 : Valid b5 := fo.valid pre4.valid
  obtain ⟨x1, x2, x3⟩ := exitCondSection_effect b5 i [b3.leaves] hcl5 hv5
  -- frames to the final state, all at the statement's key set
  have f57 : Frame (i :: (keysL body ++ keysL orelse)) b5 ((b5.exitCondSection i).endStatement i) :=
    Frame.trans (B.frame_exitCondSection _ b5 i (List.mem_cons_self ..)) (B.frame_endStatement _ _ i)
  have f37 : Frame (i :: (keysL body ++ keysL orelse)) b3 ((b5.exitCondSection i).endStatement i) :=
    Frame.trans (Frame.trans (f34.weaken (fun k hk => by simp only [List.mem_singleton] at hk; rw [hk]; exact List.mem_cons_self ..))
      (fo.weaken (fun k hk => List.mem_cons_of_mem _ (List.mem_append.mpr (Or.inr hk))))) f57
  have ft7 : Frame (i :: (keysL body ++ keysL orelse)) bt ((b5.exitCondSection i).endStatement i) :=
    Frame.trans (Frame.trans (B.frame_newCondBranch _ bt i (List.mem_cons_self ..))
      (fb.weaken (fun k hk => List.mem_cons_of_mem _ (List.mem_append.mpr (Or.inl hk))))) f37
  simp only [flowStmt]
  refine ⟨Pend.seq ((Pend.of_req σ bt _ [] e1).transport ft7 hp.disj)
      (Pend.alt (IHb.pend.transport f37 hp.disj) (IHo.pend.transport f57 hp.disj)), ?_, ?_⟩
  · intro x hx
    simp only [Flow.seq, Flow.alt, List.mem_append] at hx
    show x ∈ ((b5.exitCondSection i).endStatement i).leafSet
    rw [B.leafSet_endStatement]
    rcases hx with hx | hx
    · exact x2 _ (by simp) x (hd5 x hx)
    · exact x1 x (IHo.norm x hx)
  · exact allNil_of_fs_eq (b := b5) (by rw [B.endStatement_finallySections]; exact x3) IHo.allNil


theorem loopOf_loop (i : Nat) (σ : List Scope) : loopOf (Scope.loop i :: σ) = some i := rfl
theorem fnOf_loop (i : Nat) (σ : List Scope) : fnOf (Scope.loop i :: σ) = fnOf σ := rfl

theorem noTryScope_loop {σ : List Scope} (i : Nat) (h : NoTryScope σ) : NoTryScope (Scope.loop i :: σ) := by
  intro sc hsc
  rcases List.mem_cons.mp hsc with hsc | hsc
  · subst hsc; rfl
  · exact h sc hsc

theorem sub_cross_of {cur cur' : List Nat} {n : Nat} {E : List (Nat × Nat)} (h : Sub (cross cur' n) E)
    (hs : ∀ x, x ∈ cur → x ∈ cur') : Sub (cross cur n) E := by
  intro p hp
  simp only [cross, List.mem_map] at hp
  obtain ⟨c, hc, rfl⟩ := hp
  exact h _ (List.mem_map.mpr ⟨c, hs c hc, rfl⟩)

/-- A `while`/`for` loop with header node `h` (preceded by the lambdas `lams`), given Lemma B for its two blocks. -/
theorem lemB_loop (σ : List Scope) (i h : Nat) (lams : List Nat) (body orelse : List Stmt) (b : B) (a1 a2 : Acc) (cur : List Nat)
    (hnd : (i :: (keysL body ++ keysL orelse)).Nodup)
    (hp : Pre σ (i :: (keysL body ++ keysL orelse)) b) (hc : InLeaves b cur)
    (hbody : ∀ (b : B) (a : Acc) (cur : List Nat), Pre (Scope.loop i :: σ) (keysL body) b → InLeaves b cur →
      Post (Scope.loop i :: σ) (visitStmts (Scope.loop i :: σ) body b a).1 (flowBlock body cur))
    (horelse : ∀ (b : B) (a : Acc) (cur : List Nat), Pre σ (keysL orelse) b → InLeaves b cur →
      Post σ (visitStmts σ orelse b a).1 (flowBlock orelse cur)) :
    Post σ
      ((((visitStmts σ orelse
          ((visitStmts (Scope.loop i :: σ) body
            ((addOrdinaryNodes ((b.beginStatement i).enterSection i) lams).enterLoopSection i h) a1).1.exitLoopSection i)
          a2).1).exitSection i).endStatement i)
      (Flow.seq { req := (emit cur lams).1 ++ cross (emit cur lams).2 h } (loopFlow h [] body orelse)) := by
  -- keys
  obtain ⟨hi_all, hnd2⟩ := List.nodup_cons.mp hnd
  obtain ⟨ndb, ndo, dbo⟩ := List.nodup_append.mp hnd2
  have hi_b : i ∉ keysL body := fun h => hi_all (List.mem_append.mpr (Or.inl h))
  have hi_o : i ∉ keysL orelse := fun h => hi_all (List.mem_append.mpr (Or.inr h))
  have hσK := hp.disj
  have hσi : ∀ sc, sc ∈ σ → sc.id ≠ i := fun sc hsc h => hp.disj sc hsc (h ▸ List.mem_cons_self ..)
  have hσb : ∀ sc, sc ∈ σ → sc.id ∉ i :: keysL body := fun sc hsc h => hp.disj sc hsc (by
    rcases List.mem_cons.mp h with h | h
    · rw [h]; exact List.mem_cons_self ..
    · exact List.mem_cons_of_mem _ (List.mem_append.mpr (Or.inl h)))
  have kI : ∀ k, k ∈ [i] → k ∈ i :: (keysL body ++ keysL orelse) := fun k hk => by
    simp only [List.mem_singleton] at hk; rw [hk]; exact List.mem_cons_self ..
  have kB : ∀ k, k ∈ keysL body → k ∈ i :: (keysL body ++ keysL orelse) :=
    fun k hk => List.mem_cons_of_mem _ (List.mem_append.mpr (Or.inl hk))
  have kO : ∀ k, k ∈ keysL orelse → k ∈ i :: (keysL body ++ keysL orelse) :=
    fun k hk => List.mem_cons_of_mem _ (List.mem_append.mpr (Or.inr hk))
  -- states up to the loop entry
  let b1 := (b.beginStatement i).enterSection i
  obtain ⟨s1, s2, s3, s4, s5⟩ := enterSection_effect (b.beginStatement i) i
  have hc1 : InLeaves b1 cur := fun x hx => by rw [show b1.leafSet = b.leafSet from s2]; exact hc x hx
  have ha1 : AllNil b1 := allNil_of_fs_eq (b := b) s3 hp.allNil
  let b2 := addOrdinaryNodes b1 lams
  obtain ⟨e1, e2⟩ := emit_addOrdinaryNodes lams b1 cur hc1
  have ha2 : AllNil b2 := allNil_addOrdinaryNodes lams ha1
  have f12 : Frame [] b1 b2 := frame_addOrdinaryNodes [] lams b1
  obtain ⟨ex2, hex2, _⟩ := f12.exits i (by simp) [] s1
  let b3 := b2.enterLoopSection i h
  obtain ⟨l1, l2, l3, l4, l5, l6, l7⟩ := enterLoopSection_effect b2 i h
  have ha3 : AllNil b3 := allNil_of_fs_eq (b := b2) l6 ha2
  have f03 : Frame (i :: (keysL body ++ keysL orelse)) b b3 :=
    Frame.trans (Frame.trans (Frame.trans (B.frame_beginStatement _ b i) (B.frame_enterSection _ _ i (List.mem_cons_self ..)))
      (frame_addOrdinaryNodes _ lams _)) (B.frame_enterLoopSection _ _ i h (List.mem_cons_self ..))
  have f03' : Frame [i] b b3 :=
    Frame.trans (Frame.trans (Frame.trans (B.frame_beginStatement _ b i) (B.frame_enterSection _ _ i (by simp)))
      (frame_addOrdinaryNodes _ lams _)) (B.frame_enterLoopSection _ _ i h (by simp))
  have hex3 : aget i b3.exits = some ex2 := by rw [show b3.exits = b2.exits from l3]; exact hex2
  have pre3 : Pre (Scope.loop i :: σ) (keysL body) b3 := by
    refine ⟨noTryScope_loop i hp.noTry, ?_, ?_, ?_, ?_, f03.valid hp.valid, ha3⟩
    · intro sc hsc
      rcases List.mem_cons.mp hsc with hsc | hsc
      · subst hsc; exact hi_b
      · exact fun hk => hp.disj sc hsc (kB _ hk)
    · intro k hk
      have hki : k ∉ [i] := fun h => hi_b (by simp only [List.mem_singleton] at h; rw [← h]; exact hk)
      rw [f03'.condEntry k hki]
      exact hp.fresh k (kB k hk)
    · intro L hL
      rw [loopOf_loop] at hL
      cases hL
      exact ⟨⟨_, hex3⟩, ⟨_, l1⟩⟩
    · obtain ⟨F, hF, l, hl⟩ := hp.fnOpen
      obtain ⟨sc, hsc, hid⟩ := enclosingFinally_target_mem .fn σ F hF
      obtain ⟨l', hl', _⟩ := f03'.exits F (by simp only [List.mem_singleton]; exact hid ▸ hσi sc hsc) l hl
      exact ⟨F, by rw [fnOf_loop]; exact hF, l', hl'⟩
  have hc3 : InLeaves b3 [h] := fun x hx => by rw [show b3.leafSet = [h] from l5]; exact hx
  have IHb := hbody b3 a1 [h] pre3 hc3
  let b4 := (visitStmts (Scope.loop i :: σ) body b3 a1).1
  have fb : Frame (keysL body) b3 b4 := frame_visitStmts body _ b3 a1
  have hse4 : aget i b4.sectionEntry = some h := by rw [fb.sectionEntry i hi_b]; exact l2
  obtain ⟨cs4, hcs4, _⟩ := fb.continues i hi_b [] l1
  obtain ⟨ex4, hex4, _⟩ := fb.exits i hi_b ex2 hex3
  have hcont4 : ∀ x, x ∈ (flowBlock body [h]).cont → x ∈ cs4 := by
    intro x hx
    obtain ⟨L, l, hL, hl, hxl⟩ := IHb.pend.cont x hx
    rw [loopOf_loop] at hL; cases hL
    rw [hcs4] at hl; cases hl; exact hxl
  have hbrk4 : ∀ x, x ∈ (flowBlock body [h]).brk → x ∈ ex4 := by
    intro x hx
    obtain ⟨L, l, hL, hl, hxl⟩ := IHb.pend.brk x hx
    rw [loopOf_loop] at hL; cases hL
    rw [hex4] at hl; cases hl; exact hxl
  obtain ⟨x1, x2, x3, x4, x5⟩ := exitLoopSection_effect b4 i h cs4 hse4 hcs4 IHb.allNil
  let b5 := b4.exitLoopSection i
  have f45 : Frame [i] b4 b5 := B.frame_exitLoopSection _ b4 i (by simp)
  have f05 : Frame (i :: keysL body) b b5 :=
    Frame.trans (Frame.trans (f03'.weaken (fun k hk => by simp only [List.mem_singleton] at hk; rw [hk]; exact List.mem_cons_self ..))
      (fb.weaken (fun k hk => List.mem_cons_of_mem _ hk)))
      (f45.weaken (fun k hk => by simp only [List.mem_singleton] at hk; rw [hk]; exact List.mem_cons_self ..))
  have pre5 : Pre σ (keysL orelse) b5 :=
    (hp.sub kO).move f05 hσb
      (fun k hk h => by
        rcases List.mem_cons.mp h with h | h
        · exact hi_o (h ▸ hk)
        · exact dbo k h k hk rfl) x1
  have hc5 : InLeaves b5 [h] := fun x hx => by rw [show b5.leafSet = [h] from x4]; exact hx
  have IHo := horelse b5 a2 [h] pre5 hc5
  let b6 := (visitStmts σ orelse b5 a2).1
  have fo : Frame (keysL orelse) b5 b6 := frame_visitStmts orelse σ b5 a2
  have hex5 : aget i b5.exits = some ex4 := by rw [show b5.exits = b4.exits from x5]; exact hex4
  obtain ⟨ex6, hex6, hsub6⟩ := fo.exits i hi_o ex4 hex5
  have hv6 : Valid b6 := fo.valid pre5.valid
  obtain ⟨y1, y2⟩ := exitSection_effect b6 i ex6 hex6 IHo.allNil hv6
  -- frames to the final state
  have f68 : Frame (i :: (keysL body ++ keysL orelse)) b6 ((b6.exitSection i).endStatement i) :=
    Frame.trans (B.frame_exitSection _ b6 i (List.mem_cons_self ..)) (B.frame_endStatement _ _ i)
  have f58 : Frame (i :: (keysL body ++ keysL orelse)) b5 ((b6.exitSection i).endStatement i) :=
    Frame.trans (fo.weaken kO) f68
  have f48 : Frame (i :: (keysL body ++ keysL orelse)) b4 ((b6.exitSection i).endStatement i) :=
    Frame.trans (f45.weaken kI) f58
  have f38 : Frame (i :: (keysL body ++ keysL orelse)) b3 ((b6.exitSection i).endStatement i) :=
    Frame.trans (fb.weaken kB) f48
  have f28 : Frame (i :: (keysL body ++ keysL orelse)) b2 ((b6.exitSection i).endStatement i) :=
    Frame.trans (B.frame_enterLoopSection _ b2 i h (List.mem_cons_self ..)) f38
  have Po := IHo.pend.transport f68 hp.disj
  -- the body's pending returns/raises, read in the outer scope list
  have retB : ∀ x, x ∈ (flowBlock body [h]).ret → ∃ F l, fnOf σ = some F ∧
      aget F ((b6.exitSection i).endStatement i).exits = some l ∧ x ∈ l := by
    intro x hx
    obtain ⟨F, l, hF, hl, hxl⟩ := IHb.pend.ret x hx
    rw [fnOf_loop] at hF
    obtain ⟨sc, hsc, hid⟩ := enclosingFinally_target_mem .fn σ F hF
    obtain ⟨l', hl', hs'⟩ := f48.exits F (hid ▸ hp.disj sc hsc) l hl
    exact ⟨F, l', hF, hl', hs' x hxl⟩
  have raiseB : ∀ x, x ∈ (flowBlock body [h]).raise → ∃ F l, fnOf σ = some F ∧
      aget F ((b6.exitSection i).endStatement i).exits = some l ∧ x ∈ l := by
    intro x hx
    obtain ⟨F, l, hF, hl, hxl⟩ := IHb.pend.raise x hx
    rw [fnOf_loop] at hF
    obtain ⟨sc, hsc, hid⟩ := enclosingFinally_target_mem .fn σ F hF
    obtain ⟨l', hl', hs'⟩ := f48.exits F (hid ▸ hp.disj sc hsc) l hl
    exact ⟨F, l', hF, hl', hs' x hxl⟩
  refine ⟨⟨?_, ?_, ?_, ?_, ?_, ?_⟩, ?_, ?_⟩
  · -- required pairs
    simp only [Flow.seq, loopFlow, emit, List.nil_append, sub_append]
    refine ⟨⟨fun p hp' => f28.edges p (e1 p hp'), ?_⟩, fun p hp' => f48.edges p (IHb.pend.req p hp'), ?_, ?_, Po.req⟩
    · exact fun p hp' => f38.edges p (sub_cross_of l4 e2 p hp')
    · exact fun p hp' => f58.edges p (sub_cross_of x2 IHb.norm p hp')
    · exact fun p hp' => f58.edges p (sub_cross_of x3 hcont4 p hp')
  · intro x hx
    simp only [Flow.seq, loopFlow, List.nil_append] at hx
    exact Po.brk x hx
  · intro x hx
    simp only [Flow.seq, loopFlow, List.nil_append] at hx
    exact Po.cont x hx
  · intro x hx
    simp only [Flow.seq, loopFlow, List.nil_append, List.mem_append] at hx
    exact hx.elim (retB x) (Po.ret x)
  · intro x hx
    simp only [Flow.seq, loopFlow, List.nil_append, List.mem_append] at hx
    exact hx.elim (raiseB x) (Po.raise x)
  · have hbe : (flowBlock body (emit [h] []).2).exempt = [] := IHb.pend.exempt
    simp [Flow.seq, loopFlow, hbe, IHo.pend.exempt]
  · intro x hx
    simp only [Flow.seq, loopFlow, List.mem_append] at hx
    show x ∈ ((b6.exitSection i).endStatement i).leafSet
    rw [B.leafSet_endStatement]
    rcases hx with hx | hx
    · exact y2 x (Or.inl (IHo.norm x hx))
    · exact y2 x (Or.inr (hsub6 x (hbrk4 x hx)))
  · exact allNil_of_fs_eq (b := b6.exitSection i) (B.endStatement_finallySections _ _) y1

mutual
theorem lemB_stmt : ∀ (s : Stmt) (σ : List Scope) (b : B) (a : Acc) (inLoop : Bool) (cur : List Nat),
    frag1 inLoop s = true → (inLoop = true → ∃ L, loopOf σ = some L) → (stmtKeys' s).Nodup →
    Pre σ (stmtKeys' s) b → InLeaves b cur → Post σ (visitStmt σ s b a).1 (flowStmt s cur)
  | .ret i v, σ, b, a, inLoop, cur, _, _, _, hp, hc => by
    obtain ⟨F, hF, l, hl⟩ := hp.fnOpen
    simp only [visitStmt, flowStmt]
    rw [processExit_eq σ _ i .fn false F hF hp.noTry]
    obtain ⟨e1, e2, ⟨l', e3, e3'⟩, e4⟩ := post_exit σ b cur (lamsL v) i F l hc hp.allNil hl
    refine ⟨⟨e1, fun _ h => (List.not_mem_nil h).elim, fun _ h => (List.not_mem_nil h).elim, ?_,
      fun _ h => (List.not_mem_nil h).elim, rfl⟩, fun _ h => (List.not_mem_nil h).elim, e4⟩
    intro x hx
    rw [(emit_snoc cur (lamsL v) i).2] at hx
    simp only [List.mem_singleton] at hx
    subst hx
    exact ⟨F, l', hF, e3, e3'⟩
  | .raise i e c, σ, b, a, inLoop, cur, _, _, _, hp, hc => by
    obtain ⟨F, hF, l, hl⟩ := hp.fnOpen
    simp only [visitStmt, flowStmt]
    rw [processExit_eq σ _ i .fn true F hF hp.noTry]
    have hlam : lamsL e ++ (lamsL c ++ [i]) = (lamsL e ++ lamsL c) ++ [i] := by simp
    rw [hlam]
    obtain ⟨e1, e2, ⟨l', e3, e3'⟩, e4⟩ := post_exit σ b cur (lamsL e ++ lamsL c) i F l hc hp.allNil hl
    refine ⟨⟨e1, fun _ h => (List.not_mem_nil h).elim, fun _ h => (List.not_mem_nil h).elim,
      fun _ h => (List.not_mem_nil h).elim, ?_, rfl⟩, fun _ h => (List.not_mem_nil h).elim, allNil_of_fs_eq (by simp) e4⟩
    intro x hx
    rw [(emit_snoc cur (lamsL e ++ lamsL c) i).2] at hx
    simp only [List.mem_singleton] at hx
    subst hx
    exact ⟨F, l', hF, by simpa using e3, e3'⟩
  | .break_ i, σ, b, a, inLoop, cur, hfr, hlp, _, hp, hc => by
    simp only [frag1] at hfr
    obtain ⟨L, hL⟩ := hlp hfr
    obtain ⟨⟨l, hl⟩, _⟩ := hp.loopOpen L hL
    simp only [visitStmt, flowStmt]
    rw [processExit_eq σ _ i .loop false L hL hp.noTry]
    obtain ⟨e1, e2, ⟨l', e3, e3'⟩, e4⟩ := post_exit σ b cur [] i L l hc hp.allNil hl
    refine ⟨⟨e1, ?_, fun _ h => (List.not_mem_nil h).elim, fun _ h => (List.not_mem_nil h).elim,
      fun _ h => (List.not_mem_nil h).elim, rfl⟩, fun _ h => (List.not_mem_nil h).elim, e4⟩
    intro x hx
    simp only [emit, List.mem_singleton] at hx
    subst hx
    exact ⟨L, l', hL, e3, e3'⟩
  | .continue_ i, σ, b, a, inLoop, cur, hfr, hlp, _, hp, hc => by
    simp only [frag1] at hfr
    obtain ⟨L, hL⟩ := hlp hfr
    obtain ⟨_, ⟨l, hl⟩⟩ := hp.loopOpen L hL
    simp only [visitStmt, flowStmt]
    rw [processContinue_eq σ _ i L hL hp.noTry]
    obtain ⟨e1, e2, e3, e4⟩ := addContinueNode_effect b i L l hl cur hc hp.allNil
    refine ⟨⟨by simpa [emit] using e1, fun _ h => (List.not_mem_nil h).elim, ?_, fun _ h => (List.not_mem_nil h).elim,
      fun _ h => (List.not_mem_nil h).elim, rfl⟩, fun _ h => (List.not_mem_nil h).elim, e4⟩
    intro x hx
    simp only [emit, List.mem_singleton] at hx
    subst hx
    exact ⟨L, _, hL, e3, by simp⟩
  | .functionDef i name args body decs rets isAsync, σ, b, a, inLoop, cur, hfr, _, _, hp, hc => by
    simp only [frag1, Bool.not_eq_true'] at hfr
    subst hfr
    simp only [visitStmt, Bool.false_eq_true, if_false, flowStmt]
    exact post_emit_normal σ b cur [i] hc hp.allNil
  | .classDef i name bases kws body decs, σ, b, a, inLoop, cur, _, _, _, hp, hc => by
    simp only [visitStmt, flowStmt]
    exact post_emit_normal σ b cur [i] hc hp.allNil
  | .with_ i items body isAsync, σ, b, a, inLoop, cur, hfr, hlp, hnd, hp, hc => by
    simp only [frag1, Bool.and_eq_true, Bool.not_eq_true'] at hfr
    obtain ⟨has, hfb⟩ := hfr
    subst has
    simp only [visitStmt, Bool.false_eq_true, if_false, flowStmt, stmtKeys'] at hnd hp ⊢
    have hbe : (basicExprs σ items b a).1 = addOrdinaryNodes b (withItemNodes items) := basicExprs_eq σ items b a
    have p0 := post_emit_normal σ b cur (withItemNodes items) hc hp.allNil
    rw [← hbe] at p0
    have hf0 : Frame [i] b (basicExprs σ items b a).1 := frame_basicExprs _ σ items b a
    have hnd' := List.nodup_cons.mp hnd
    have hp1 : Pre σ (keysL body) (basicExprs σ items b a).1 :=
      Pre.step (K1 := [i]) (by simpa using hp) hf0 (fun k hk h1 => hnd'.1 (by simp only [List.mem_singleton] at h1; subst h1; exact hk)) p0.allNil
    have ih := lemB_stmts body σ _ (basicExprs σ items b a).2 inLoop _ hfb hlp hnd'.2 hp1 p0.norm
    have hfb' := frame_visitStmts body σ (basicExprs σ items b a).1 (basicExprs σ items b a).2
    exact ⟨Pend.seq ((Pend.of_req σ _ _ [] p0.pend.req).transport hfb' hp1.disj) ih.pend, ih.norm, ih.allNil⟩
  | .if_ i test body orelse, σ, b, a, inLoop, cur, hfr, hlp, hnd, hp, hc => by
    simp only [frag1, Bool.and_eq_true] at hfr
    simp only [stmtKeys'] at hnd hp
    obtain ⟨_, hnd2⟩ := List.nodup_cons.mp hnd
    obtain ⟨ndb, ndo, _⟩ := List.nodup_append.mp hnd2
    simp only [visitStmt]
    exact lemB_if σ i test body orelse b a _ _ cur hnd hp hc
      (fun b' a' cur' hp' hc' => lemB_stmts body σ b' a' inLoop cur' hfr.1 hlp ndb hp' hc')
      (fun b' a' cur' hp' hc' => lemB_stmts orelse σ b' a' inLoop cur' hfr.2 hlp ndo hp' hc')
  | .while_ i test body orelse, σ, b, a, inLoop, cur, hfr, hlp, hnd, hp, hc => by
    simp only [frag1, Bool.and_eq_true] at hfr
    simp only [stmtKeys'] at hnd hp
    obtain ⟨_, hnd2⟩ := List.nodup_cons.mp hnd
    obtain ⟨ndb, ndo, _⟩ := List.nodup_append.mp hnd2
    simp only [visitStmt]
    show Post σ _ (Flow.seq { req := (emit cur test.kidLams).1 ++ cross (emit cur test.kidLams).2 test.id } (loopFlow test.id [] body orelse))
    exact lemB_loop σ i test.id test.kidLams body orelse b _ _ cur hnd hp hc
      (fun b' a' cur' hp' hc' => lemB_stmts body (Scope.loop i :: σ) b' a' true cur' hfr.1 (fun _ => ⟨i, rfl⟩) ndb hp' hc')
      (fun b' a' cur' hp' hc' => lemB_stmts orelse σ b' a' inLoop cur' hfr.2 hlp ndo hp' hc')
  | .for_ i target iter body orelse extra isAsync, σ, b, a, inLoop, cur, hfr, hlp, hnd, hp, hc => by
    simp only [frag1, Bool.and_eq_true, Bool.not_eq_true', List.isEmpty_iff] at hfr
    obtain ⟨⟨⟨has, hex⟩, hfb⟩, hfo⟩ := hfr
    subst has; subst hex
    simp only [stmtKeys'] at hnd hp
    obtain ⟨_, hnd2⟩ := List.nodup_cons.mp hnd
    obtain ⟨ndb, ndo, _⟩ := List.nodup_append.mp hnd2
    simp only [visitStmt, Bool.false_eq_true, if_false, List.take, basicExprs]
    show Post σ _ (Flow.seq { req := (emit cur iter.kidLams).1 ++ cross (emit cur iter.kidLams).2 iter.id } (loopFlow iter.id [] body orelse))
    exact lemB_loop σ i iter.id iter.kidLams body orelse b _ _ cur hnd hp hc
      (fun b' a' cur' hp' hc' => lemB_stmts body (Scope.loop i :: σ) b' a' true cur' hfb (fun _ => ⟨i, rfl⟩) ndb hp' hc')
      (fun b' a' cur' hp' hc' => lemB_stmts orelse σ b' a' inLoop cur' hfo hlp ndo hp' hc')
  | .try_ .., _, _, _, _, _, hfr, _, _, _, _ => by simp [frag1] at hfr
  | .handler .., _, _, _, _, _, hfr, _, _, _, _ => by simp [frag1] at hfr
  | .other .., _, _, _, _, _, hfr, _, _, _, _ => by simp [frag1] at hfr
  | .delete i ts, σ, b, a, inLoop, cur, _, _, _, hp, hc => by
    simp only [visitStmt, flowStmt, ← addOrdinaryNodes_snoc]; exact post_emit_normal σ b cur _ hc hp.allNil
  | .assign i ts v, σ, b, a, inLoop, cur, _, _, _, hp, hc => by
    simp only [visitStmt, flowStmt, ← addOrdinaryNodes_snoc]; exact post_emit_normal σ b cur _ hc hp.allNil
  | .augAssign i t op v, σ, b, a, inLoop, cur, _, _, _, hp, hc => by
    simp only [visitStmt, flowStmt, ← addOrdinaryNodes_snoc]; exact post_emit_normal σ b cur _ hc hp.allNil
  | .annAssign i t an v sm, σ, b, a, inLoop, cur, _, _, _, hp, hc => by
    simp only [visitStmt, flowStmt, ← addOrdinaryNodes_snoc]; exact post_emit_normal σ b cur _ hc hp.allNil
  | .assert_ i t m, σ, b, a, inLoop, cur, _, _, _, hp, hc => by
    simp only [visitStmt, flowStmt, ← addOrdinaryNodes_snoc]; exact post_emit_normal σ b cur _ hc hp.allNil
  | .import_ i ns, σ, b, a, inLoop, cur, _, _, _, hp, hc => by
    simp only [visitStmt, flowStmt, ← addOrdinaryNodes_snoc]; exact post_emit_normal σ b cur _ hc hp.allNil
  | .importFrom i m ns lv, σ, b, a, inLoop, cur, _, _, _, hp, hc => by
    simp only [visitStmt, flowStmt, ← addOrdinaryNodes_snoc]; exact post_emit_normal σ b cur _ hc hp.allNil
  | .global i ns, σ, b, a, inLoop, cur, _, _, _, hp, hc => by
    simp only [visitStmt, flowStmt, ← addOrdinaryNodes_snoc]; exact post_emit_normal σ b cur _ hc hp.allNil
  | .nonlocal i ns, σ, b, a, inLoop, cur, _, _, _, hp, hc => by
    simp only [visitStmt, flowStmt, ← addOrdinaryNodes_snoc]; exact post_emit_normal σ b cur _ hc hp.allNil
  | .expr i v, σ, b, a, inLoop, cur, _, _, _, hp, hc => by
    simp only [visitStmt, flowStmt, ← addOrdinaryNodes_snoc]; exact post_emit_normal σ b cur _ hc hp.allNil
  | .pass i, σ, b, a, inLoop, cur, _, _, _, hp, hc => by
    simp only [visitStmt, flowStmt, ← addOrdinaryNodes_snoc]; exact post_emit_normal σ b cur _ hc hp.allNil

theorem lemB_stmts : ∀ (ss : List Stmt) (σ : List Scope) (b : B) (a : Acc) (inLoop : Bool) (cur : List Nat),
    frag1L inLoop ss = true → (inLoop = true → ∃ L, loopOf σ = some L) → (keysL ss).Nodup →
    Pre σ (keysL ss) b → InLeaves b cur → Post σ (visitStmts σ ss b a).1 (flowBlock ss cur)
  | [], σ, b, a, inLoop, cur, _, _, _, hp, hc => by
    simp only [visitStmts, flowBlock]
    exact ⟨Pend.of_req σ b [] cur (sub_nil _), hc, hp.allNil⟩
  | s :: ss, σ, b, a, inLoop, cur, hfr, hlp, hnd, hp, hc => by
    simp only [frag1L, Bool.and_eq_true] at hfr
    simp only [keysL] at hnd hp
    have hnd' := List.nodup_append.mp hnd
    have ih1 := lemB_stmt s σ b a inLoop cur hfr.1 hlp hnd'.1 (hp.sub (fun k hk => List.mem_append.mpr (Or.inl hk))) hc
    have hf1 := frame_visitStmt s σ b a
    have hp1 : Pre σ (keysL ss) (visitStmt σ s b a).1 :=
      Pre.step hp hf1 (fun k hk h1 => (hnd'.2.2 k h1 k hk) rfl) ih1.allNil
    have ih2 := lemB_stmts ss σ (visitStmt σ s b a).1 (visitStmt σ s b a).2 inLoop (flowStmt s cur).normal hfr.2 hlp hnd'.2.1 hp1 ih1.norm
    have hf2 := frame_visitStmts ss σ (visitStmt σ s b a).1 (visitStmt σ s b a).2
    simp only [visitStmts, flowBlock]
    by_cases hce : cur.isEmpty = true
    · simp only [hce, if_true]
      exact ⟨Pend.empty σ _, fun _ h => (List.not_mem_nil h).elim, ih2.allNil⟩
    · simp only [hce, if_false, Bool.false_eq_true]
      exact ⟨Pend.seq (ih1.pend.transport hf2 hp1.disj) ih2.pend, ih2.norm, ih2.allNil⟩
end


/-! ### the whole function -/

/-- The root function is in the try-free fragment. -/
def fnFrag1 : Stmt → Bool
  | .functionDef _ _ _ body _ _ isAsync => !isAsync && frag1L false body
  | _ => false

/-- The section keys of the function are pairwise distinct (they are statement ids assigned by the serialiser). -/
def fnDistinctKeys : Stmt → Bool
  | .functionDef i _ _ body _ _ _ => nodupB (i :: keysL body)
  | _ => false

theorem rootGraph_last (i : Nat) (name : String) (args : Expr) (body : List Stmt) (decs rets : List Expr) :
    (build (.functionDef i name args body decs rets false)).cfgs.getLast? =
      some (i, (rootBuilder (.functionDef i name args body decs rets false)).1.build) := by
  simp [build, Acc.finish]

theorem head_addOrdinaryNodes_cons (b : B) (n : Nat) (ns : List Nat) (hb : b.head = none) :
    (addOrdinaryNodes b (n :: ns)).head = some n := by
  have h1 : (b.addOrdinaryNode n).head = some n := by
    simp [B.addOrdinaryNode, B.addNewNode, B.pushNode, hb, Option.or]
  exact (frame_addOrdinaryNodes [] ns (b.addOrdinaryNode n)).head n h1

theorem fresh_valid : Valid ({} : B) := ⟨by decide, fun k r h => by simp [aget] at h⟩

/-- **Lemma C**: in the try-free fragment the model's graph of the root function passes `pathCheck`. -/
theorem pathCheck_build (i : Nat) (name : String) (args : Expr) (body : List Stmt) (decs rets : List Expr)
    (hfr : fnFrag1 (.functionDef i name args body decs rets false) = true)
    (hdk : fnDistinctKeys (.functionDef i name args body decs rets false) = true) :
    pathCheck (.functionDef i name args body decs rets false)
      (rootBuilder (.functionDef i name args body decs rets false)).1.build = true := by
  simp only [fnFrag1, Bool.not_false, Bool.true_and] at hfr
  have hnd : (i :: keysL body).Nodup := nodupB_sound _ hdk
  obtain ⟨hib, hndb⟩ := List.nodup_cons.mp hnd
  -- the states
  let σ : List Scope := [Scope.fn i]
  let b0 : B := ({} : B).enterSection i
  obtain ⟨s1, s2, s3, s4, s5⟩ := enterSection_effect ({} : B) i
  let b1 := (basicExpr σ args b0 {}).1
  have hb1 : b1 = addOrdinaryNodes b0 (args.kidLams ++ [args.id]) := by
    show (addOrdinaryNodes b0 args.kidLams).addOrdinaryNode args.id = _
    rw [addOrdinaryNodes_snoc]
  have ha0 : AllNil b0 := by
    intro n gs h
    rw [show b0.finallySections = ({} : B).finallySections from s3] at h
    simp [aget] at h
  obtain ⟨e1, e2⟩ := emit_addOrdinaryNodes (args.kidLams ++ [args.id]) b0 [] (fun _ h => (List.not_mem_nil h).elim)
  rw [← hb1] at e1 e2
  have ha1 : AllNil b1 := by rw [hb1]; exact allNil_addOrdinaryNodes _ ha0
  have f01 : Frame [i] ({} : B) b1 :=
    Frame.trans (B.frame_enterSection _ _ i (by simp)) (frame_basicExpr _ σ args b0 {})
  have f0b1 : Frame [] b0 b1 := frame_basicExpr _ σ args b0 {}
  obtain ⟨ex1, hex1, _⟩ := f0b1.exits i (by simp) [] s1
  have pre1 : Pre σ (keysL body) b1 := by
    refine ⟨?_, ?_, ?_, ?_, ⟨i, rfl, ex1, hex1⟩, f01.valid fresh_valid, ha1⟩
    · intro sc hsc; simp only [σ, List.mem_singleton] at hsc; subst hsc; rfl
    · intro sc hsc; simp only [σ, List.mem_singleton] at hsc; subst hsc; exact hib
    · intro k _
      rw [f0b1.condEntry k (by simp), show b0.condEntry = ({} : B).condEntry from s5]
      simp [aget]
    · intro L hL; simp [σ, loopOf, enclosingFinally, Scope.isStop] at hL
  have P := lemB_stmts body σ b1 (basicExpr σ args b0 {}).2 false _ hfr (fun h => by cases h) hndb pre1 e2
  let b2 := (visitStmts σ body b1 (basicExpr σ args b0 {}).2).1
  have f12 : Frame (keysL body) b1 b2 := frame_visitStmts body σ b1 _
  obtain ⟨ex2, hex2, _⟩ := f12.exits i hib ex1 hex1
  have hv2 : Valid b2 := f12.valid pre1.valid
  obtain ⟨y1, y2⟩ := exitSection_effect b2 i ex2 hex2 P.allNil hv2
  have f23 : Frame [i] b2 (b2.exitSection i) := B.frame_exitSection _ b2 i (by simp)
  -- the final builder is `b2.exitSection i`
  have hroot : (rootBuilder (.functionDef i name args body decs rets false)).1 = b2.exitSection i := rfl
  rw [hroot]
  simp only [pathCheck, Bool.and_eq_true, beq_iff_eq, List.all_eq_true, Bool.or_eq_true, List.contains_eq_mem,
    decide_eq_true_eq]
  refine ⟨⟨?_, ?_⟩, ?_⟩
  · -- entry
    show (b2.exitSection i).head = (entryNodes _).head?
    simp only [entryNodes]
    obtain ⟨n0, r0, hns⟩ : ∃ n0 r0, args.kidLams ++ [args.id] = n0 :: r0 := by
      cases args.kidLams with
      | nil => exact ⟨_, _, rfl⟩
      | cons x r => exact ⟨x, r ++ [args.id], rfl⟩
    rw [hns]
    have h1 : b1.head = some n0 := by
      rw [hb1, hns]
      exact head_addOrdinaryNodes_cons b0 n0 r0 (by simp [b0, B.enterSection])
    simpa using f23.head n0 (f12.head n0 h1)
  · -- required pairs
    intro p hp
    show p ∈ (b2.exitSection i).edges
    simp only [flowFn, Flow.seq, List.mem_append] at hp
    rcases hp with hp | hp
    · exact f23.edges p (f12.edges p (e1 p hp))
    · exact f23.edges p (P.pend.req p hp)
  · -- final nodes
    intro x hx
    left
    show x ∈ (b2.exitSection i).leafSet
    simp only [flowFn, Flow.finals, Flow.seq, List.mem_append, List.nil_append] at hx
    have hret : ∀ x, x ∈ (flowBlock body (emit [] (args.kidLams ++ [args.id])).2).ret → x ∈ ex2 := by
      intro x hx
      obtain ⟨F, l, hF, hl, hxl⟩ := P.pend.ret x hx
      have : F = i := by simpa [σ, fnOf, enclosingFinally, Scope.isStop, Scope.id] using hF.symm
      subst this
      rw [hex2] at hl; cases hl; exact hxl
    have hraise : ∀ x, x ∈ (flowBlock body (emit [] (args.kidLams ++ [args.id])).2).raise → x ∈ ex2 := by
      intro x hx
      obtain ⟨F, l, hF, hl, hxl⟩ := P.pend.raise x hx
      have : F = i := by simpa [σ, fnOf, enclosingFinally, Scope.isStop, Scope.id] using hF.symm
      subst this
      rw [hex2] at hl; cases hl; exact hxl
    rcases hx with hx | hx | hx | hx
    · exact y2 x (Or.inl (P.norm x hx))
    · exact y2 x (Or.inr (hret x hx))
    · exact y2 x (Or.inr (hraise x hx))
    · rw [P.pend.exempt] at hx; cases hx

end Malt.Cfg
