import MaltModel.Proofs.C19
/-! Concrete instances used by the examples and counterexamples of `Props/C19.lean`:
the program `def f(): x = 1; <N>; return x` for several middle nodes `N`, a tiny truthful resolver and the
matching run-time behaviour. -/
namespace Malt.TypeInf
open Malt.Py
namespace CEx

def R0 : Resolver where
  value k _ := if k = "int" then some [.int] else if k = "str" then some [.str] else if k = "float" then some [.float] else none
  name _ := none
  arg _ _ _ _ := none
  call _ _ _ _ := none
  sliceIdx _ _ _ := none
  slice _ _ _ := none
  compare _ _ _ := none
  unop _ _ := none
  binop _ _ _ := none
  listLit _ := some [.list]
  attr _ _ := none

/-- Literals evaluate to a value of their own kind; `def` creates a function that promises nothing. -/
def sem0 : Sem where
  const k _ v := (k = "int" ∧ v = .int 1) ∨ (k = "str" ∧ v = .str "a") ∨ (k = "float" ∧ v = .float 3)
  call _ _ _ _ := False
  slice _ _ _ _ := False
  compare _ _ _ _ := False
  unop _ _ _ := False
  binop _ _ _ _ := False
  attr _ _ _ := False
  fnRet _ ρ := ρ = .any
  argVal _ _ := False

def env0 : FnEnv := { fname := "f", isLocal := false, bound := ["x", "y", "g"], nonlocals := [], closure := [] }

theorem truthful0 : Truthful R0 sem0 env0 where
  const := by
    intro k r T v h hs
    simp only [R0] at h
    rcases hs with ⟨rfl, rfl⟩ | ⟨rfl, rfl⟩ | ⟨rfl, rfl⟩
    · simp at h; subst h; exact ⟨.int, by simp, rfl⟩
    · simp at h; subst h; exact ⟨.str, by simp, rfl⟩
    · simp at h; subst h; exact ⟨.float, by simp, rfl⟩
  call := by intro _ _ _ _ _ _ _ _ h; simp [R0] at h
  sliceIdx := by intro _ _ _ _ _ _ h; simp [R0] at h
  slice := by intro _ _ _ _ _ _ _ h; simp [R0] at h
  compare := by intro _ _ _ _ _ _ _ h; simp [R0] at h
  unop := by intro _ _ _ _ _ h; simp [R0] at h
  binop := by intro _ _ _ _ _ _ _ h; simp [R0] at h
  attr := by intro _ _ _ _ _ h; simp [R0] at h
  listLit := by
    intro ts T vs h _
    simp only [R0, Option.some.injEq] at h
    subst h
    exact ⟨.list, by simp, rfl⟩
  arg := by intro _ _ _ _ _ _ h; exact h.elim
  fnRet := by
    intro i g a b d r as ρ h
    simp only [sem0] at h
    subst h
    refine ⟨.fn .any, ?_, by simp [hasTy]⟩
    simp only [defTypes]
    cases r with
    | nil => simp
    | cons e r =>
      cases r with
      | nil => cases e <;> simp [nameOf?, R0]
      | cons _ _ => simp

def xm : TMap := [("x", [.int])]

/-- `def f(): x = 1; <N>; return x`. -/
def nArgs : GNode :=
  { id := 1, node := .expr (.arguments 1 [] [] [] [] [] [] []), succs := [2], hasScope := true, reads := [], defsIn := [] }
def nX1 : GNode :=
  { id := 2, node := .stmt (.assign 2 [.name 3 "x" .store] (.const 4 "int" "1")), succs := [3], hasScope := true, reads := [], defsIn := [] }
def nMid (N : CNode) : GNode := { id := 3, node := N, succs := [4], hasScope := true, reads := [], defsIn := [] }
def nRet : GNode :=
  { id := 4, node := .stmt (.ret 8 [.name 9 "x" .load]), succs := [], hasScope := true, reads := ["x"], defsIn := [] }
def graphOf (N : CNode) : Graph := { entry := 1, nodes := [nArgs, nX1, nMid N, nRet] }

def reachC : List Nat := [1, 2, 3, 4]
def insC : NMap := [(1, []), (2, []), (3, xm), (4, xm)]
def outsC : NMap := [(1, []), (2, xm), (3, xm), (4, xm)]

/-- `for x in ['a']: …` (the CFG node is the iterable; the target is bound by the loop). -/
def forN : CNode := .forIter (.name 5 "x" .store) (.seq 6 .list [.const 7 "str" "'a'"] .load)
/-- `x += 1.5`. -/
def augN : CNode := .stmt (.augAssign 5 (.name 6 "x" .store) "Add" (.const 7 "float" "1.5"))
/-- `with cm as x: …`. -/
def withN : CNode := .expr (.withitem 5 (.name 6 "cm" .load) [.name 7 "x" .store])
/-- `x = 'a' if c else 2.5` (no rule for `IfExp`: the value's type is unknown, the old set is kept). -/
def ifexpN : CNode :=
  .stmt (.assign 5 [.name 6 "x" .store] (.ifexp 7 (.name 10 "c" .load) (.const 11 "str" "'a'") (.const 12 "float" "2.5")))
/-- `y = x` (every binder tracked). -/
def copyN : CNode := .stmt (.assign 5 [.name 6 "y" .store] (.name 7 "x" .load))

def emp : State := fun _ => none
def s1 : State := emp.set "x" (.int 1)

theorem init0 (S : List String) : InitOk R0 env0 S emp := by
  intro x v _ h
  simp [emp] at h

/-- The execution `entry; x = 1` reaching the middle node. -/
theorem exec_to_mid (N : CNode) : Exec sem0 env0 [] (graphOf N) emp 3 s1 := by
  have e1 : Exec sem0 env0 [] (graphOf N) emp 1 emp := .start
  have e2 : Exec sem0 env0 [] (graphOf N) emp 2 emp :=
    .step e1 (n := nArgs) (by rfl) (.args (by exact .nil) (Agree.refl _ _)) (by simp [nArgs])
  exact .step e2 (n := nX1) (by rfl)
      (.assign (v := .int 1) (.const (Or.inl ⟨rfl, rfl⟩)) (.cons .name .nil) (Agree.refl _ _)) (by simp [nX1])

/-- The execution `entry; x = 1; N` where `N` leaves `x` holding the string `'a'`. -/
theorem exec_to_ret (N : CNode) (hN : Step sem0 env0 [] N s1 (s1.set "x" (.str "a"))) :
    Exec sem0 env0 [] (graphOf N) emp 4 (s1.set "x" (.str "a")) :=
  .step (exec_to_mid N) (n := nMid N) (by rfl) hN (by simp [nMid])

def xym : TMap := ("y", [.int]) :: xm
def insCopy : NMap := [(1, []), (2, []), (3, xm), (4, xym)]
def outsCopy : NMap := [(1, []), (2, xm), (3, xym), (4, xym)]

theorem plain_step (N : CNode) (hp : isPlain N = true) (hx : "x" ∈ storedN N) :
    Step sem0 env0 [] N s1 (s1.set "x" (.str "a")) := by
  refine .plain hp ?_
  intro y hy
  have : y ≠ "x" := fun h => hy (by simp [h, hx])
  simp [State.set, this]

theorem str_not_int : ¬ InSet (.str "a") [.int] := by
  rintro ⟨t, ht, hh⟩
  simp only [List.mem_singleton] at ht
  subst ht
  simp [hasTy] at hh

/-! A graph with a local function and a call: `def f(): x = 1; def g(): …; g()`. -/
def nDef : GNode :=
  { id := 3, node := .stmt (.functionDef 5 "g" (.arguments 6 [] [] [] [] [] [] []) [] [] [] false), succs := [4],
    hasScope := true, reads := [], defsIn := [] }
def nCall : GNode :=
  { id := 4, node := .stmt (.expr 7 (.call 8 (.name 9 "g" .load) [] [])), succs := [], hasScope := true, reads := ["g"],
    defsIn := [(3, "g")] }
def graphG : Graph := { entry := 1, nodes := [nArgs, nX1, nDef, nCall] }

def xg : TMap := [("g", [.fn .any]), ("x", [.int])]
def insG : NMap := [(1, []), (2, []), (3, xm), (4, xg)]
def outsG : NMap := [(1, []), (2, xm), (3, xg), (4, xg)]
def closG : NMap := [(3, xg)]
def s2 : State := s1.set "g" (.fn .any)

theorem exec_to_call : Exec sem0 env0 [] graphG emp 4 s2 := by
  have e1 : Exec sem0 env0 [] graphG emp 1 emp := .start
  have e2 : Exec sem0 env0 [] graphG emp 2 emp :=
    .step e1 (n := nArgs) (by rfl) (.args (by exact .nil) (Agree.refl _ _)) (by simp [nArgs])
  have e3 : Exec sem0 env0 [] graphG emp 3 s1 :=
    .step e2 (n := nX1) (by rfl)
      (.assign (v := .int 1) (.const (Or.inl ⟨rfl, rfl⟩)) (.cons .name .nil) (Agree.refl _ _)) (by simp [nX1])
  exact .step e3 (n := nDef) (by rfl) (.fndef (ρ := .any) rfl (Agree.refl _ _)) (by simp [nDef])

/-- `g()` as an expression statement, where `g` is a local function that rebinds the nonlocal `x`. -/
def callN : CNode := .stmt (.expr 5 (.call 6 (.name 7 "g" .load) [] []))

theorem exec_to_mid_W (W : List String) (N : CNode) : Exec sem0 env0 W (graphOf N) emp 3 s1 := by
  have e1 : Exec sem0 env0 W (graphOf N) emp 1 emp := .start
  have e2 : Exec sem0 env0 W (graphOf N) emp 2 emp :=
    .step e1 (n := nArgs) (by rfl) (.args (by exact .nil) (Agree.refl _ _)) (by simp [nArgs])
  exact .step e2 (n := nX1) (by rfl)
      (.assign (v := .int 1) (.const (Or.inl ⟨rfl, rfl⟩)) (.cons .name .nil) (Agree.refl _ _)) (by simp [nX1])

end CEx
end Malt.TypeInf
