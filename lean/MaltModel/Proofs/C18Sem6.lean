import MaltModel.Proofs.C18Sem5
/- C18, semantics part 6: statements and functions of the fragment. -/
set_option linter.unusedSimpArgs false
namespace Malt.Anf
open Malt.Py Malt.SemAnf

/-- The transformed block simulates the original computation `orig`: same outcome, agreeing states. -/
def SimB (O : Oracle) (orig : St → SR) (ss : List Stmt) : Prop :=
  ∀ σ σ', Agree σ σ' → (execB O ss σ').1 = (orig σ).1 ∧ Agree (orig σ).2 (execB O ss σ').2

/-- the two finishers give the same outcome from agreeing states -/
def RelFin {α : Type} (fin fin' : α → St → SR) : Prop :=
  ∀ a σ τ, Agree σ τ → (fin' a τ).1 = (fin a σ).1 ∧ Agree (fin a σ).2 (fin' a τ).2

/-- "evaluate, then finish" as a statement -/
def thenS {α : Type} (k : St → ER α) (fin : α → St → SR) (σ : St) : SR :=
  match k σ with
  | (.ok a, σ1) => fin a σ1
  | (.error x, σ1) => (.raise x, σ1)

theorem execB_single (O : Oracle) (s : Stmt) (σ : St) : execB O [s] σ = execS O s σ := by
  simp only [execB]
  rcases execS O s σ with ⟨o, σ1⟩
  cases o <;> rfl

theorem simB_of_simK {α : Type} {O : Oracle} {G : List Stmt} {k k' : St → ER α} {fin fin' : α → St → SR}
    (hfin : RelFin fin fin') (h : SimK O G k k') (s' : Stmt) (hs' : ∀ σ, execS O s' σ = thenS k' fin' σ) :
    SimB O (thenS k fin) (G ++ [s']) := by
  intro σ σ' hA
  have := h σ σ' hA
  rw [execB_append]
  rcases hx : execB O G σ' with ⟨o, σ2⟩
  rw [hx] at this
  cases o with
  | normal =>
    obtain ⟨hv, hag⟩ := this
    simp only [execB_single, hs', thenS]
    rcases hk : k σ with ⟨r, σ1⟩
    rcases hk' : k' σ2 with ⟨r', σ1'⟩
    rw [hk, hk'] at hv hag
    simp only at hv hag
    subst hv
    cases r' with
    | error x => exact ⟨rfl, hag⟩
    | ok a => exact hfin a σ1 σ1' hag
  | raise x =>
    obtain ⟨hv, hag⟩ := this
    simp only [thenS]
    rcases hk : k σ with ⟨r, σ1⟩
    rw [hk] at hv hag
    simp only at hv hag
    subst hv
    exact ⟨rfl, hag⟩
  | brk => exact this.elim
  | cont => exact this.elim
  | ret _ => exact this.elim

theorem SimB.congr {O : Oracle} {f g : St → SR} {ss : List Stmt} (h : ∀ σ, f σ = g σ) (hs : SimB O g ss) : SimB O f ss := by
  intro σ σ' hA
  rw [h σ]; exact hs σ σ' hA

theorem SimB.seq {O : Oracle} {s : Stmt} {l r1 r2 : List Stmt} (h1 : SimB O (execS O s) r1) (h2 : SimB O (execB O l) r2) :
    SimB O (execB O (s :: l)) (r1 ++ r2) := by
  intro σ σ' hA
  have a := h1 σ σ' hA
  rw [execB_append]
  simp only [execB]
  rcases hx : execB O r1 σ' with ⟨o', τ'⟩
  rcases hy : execS O s σ with ⟨o, τ⟩
  rw [hx, hy] at a
  simp only at a
  obtain ⟨ho, hag⟩ := a
  subst ho
  cases o' with
  | normal => exact h2 τ τ' hag
  | _ => exact ⟨rfl, hag⟩

theorem SimB.nil (O : Oracle) : SimB O (execB O []) [] := by
  intro σ σ' hA
  simp only [execB]
  exact ⟨trivial, hA⟩

/-! ### `for` loops -/
theorem forLoop_sim {bind bind' : Val → St → SR} {body body' : St → SR}
    (hb : ∀ v σ τ, Agree σ τ → (bind' v τ).1 = (bind v σ).1 ∧ Agree (bind v σ).2 (bind' v τ).2)
    (hbody : ∀ σ τ, Agree σ τ → (body' τ).1 = (body σ).1 ∧ Agree (body σ).2 (body' τ).2) :
    ∀ (vs : List Val) (σ τ : St), Agree σ τ →
      (forLoop bind' body' vs τ).1.1 = (forLoop bind body vs σ).1.1 ∧
      Agree (forLoop bind body vs σ).1.2 (forLoop bind' body' vs τ).1.2 ∧
      (forLoop bind' body' vs τ).2 = (forLoop bind body vs σ).2
  | [], σ, τ, h => by simp only [forLoop]; exact ⟨trivial, h, trivial⟩
  | v :: vs, σ, τ, h => by
      have a := hb v σ τ h
      simp only [forLoop]
      rcases hx : bind v σ with ⟨o, σ1⟩
      rcases hy : bind' v τ with ⟨o', τ1⟩
      rw [hx, hy] at a
      simp only at a
      obtain ⟨ho, hag⟩ := a
      subst ho
      cases o' with
      | normal =>
        have b := hbody σ1 τ1 hag
        simp only
        rcases hx2 : body σ1 with ⟨p, σ2⟩
        rcases hy2 : body' τ1 with ⟨p', τ2⟩
        rw [hx2, hy2] at b
        simp only at b
        obtain ⟨hp, hag2⟩ := b
        subst hp
        cases p' with
        | normal => exact forLoop_sim hb hbody vs σ2 τ2 hag2
        | cont => exact forLoop_sim hb hbody vs σ2 τ2 hag2
        | brk => exact ⟨rfl, hag2, rfl⟩
        | ret _ => exact ⟨rfl, hag2, rfl⟩
        | raise _ => exact ⟨rfl, hag2, rfl⟩
      | brk => exact ⟨rfl, hag, rfl⟩
      | cont => exact ⟨rfl, hag, rfl⟩
      | ret _ => exact ⟨rfl, hag, rfl⟩
      | raise _ => exact ⟨rfl, hag, rfl⟩

end Malt.Anf

namespace Malt.Anf
open Malt.Py Malt.SemAnf

theorem exec_assign_name (O : Oracle) (i j : Nat) (x : String) (c : Ctx) (v : Expr) (σ : St) :
    execS O (.assign i [.name j x c] v) σ = thenS (evalE O v) (fun val τ => (.normal, τ.set x val)) σ := by
  simp only [execS, thenS]
  rcases evalE O v σ with ⟨r, σ1⟩
  cases r <;> simp [assignEach, assignTo]

theorem exec_expr (O : Oracle) (i : Nat) (v : Expr) (σ : St) :
    execS O (.expr i v) σ = thenS (evalE O v) (fun _ τ => (.normal, τ)) σ := by
  simp only [execS, thenS]
  rcases evalE O v σ with ⟨r, σ1⟩
  cases r <;> rfl

def oneVal (f : Val → St → SR) (vs : List Val) (τ : St) : SR :=
  match vs with
  | [x] => f x τ
  | _ => (.raise unsupported, τ)

theorem thenS_opts1 {O : Oracle} (v : Expr) (f : Val → St → SR) (σ : St) :
    thenS (evalOpts O [v]) (oneVal f) σ = thenS (evalE O v) f σ := by
  simp only [thenS, evalOpts_cons, evalOpts]
  rcases evalE O v σ with ⟨r, σ1⟩
  cases r <;> rfl

theorem exec_ret1 (O : Oracle) (i : Nat) (v : Expr) (σ : St) :
    execS O (.ret i [v]) σ = thenS (evalOpts O [v]) (oneVal fun x τ => (.ret x, τ)) σ := by
  rw [thenS_opts1]
  simp only [execS, thenS]
  rcases evalE O v σ with ⟨r, σ1⟩
  cases r <;> rfl

def ifFin (O : Oracle) (b e : List Stmt) (c : Val) (τ : St) : SR := if O.truthy c then execB O b τ else execB O e τ

theorem exec_if (O : Oracle) (i : Nat) (t : Expr) (b e : List Stmt) (σ : St) :
    execS O (.if_ i t b e) σ = thenS (evalOpts O [t]) (oneVal (ifFin O b e)) σ := by
  rw [thenS_opts1]
  simp only [execS, thenS, ifFin]
  rcases evalE O t σ with ⟨r, σ1⟩
  cases r <;> rfl

def forFin (O : Oracle) (x : String) (b e : List Stmt) (c : Val) (τ : St) : SR :=
  match O.iter c with
  | some vs =>
    match forLoop (fun v s => ((.normal, s.set x v) : SR)) (fun s => execB O b s) vs τ with
    | ((.normal, σ2), false) => execB O e σ2
    | (r, _) => r
  | none => (.raise typeError, τ)

theorem exec_for (O : Oracle) (i j : Nat) (x : String) (cx : Ctx) (it : Expr) (b e : List Stmt) (xt : List Expr) (σ : St) :
    execS O (.for_ i (.name j x cx) it b e xt false) σ = thenS (evalOpts O [it]) (oneVal (forFin O x b e)) σ := by
  rw [thenS_opts1]
  simp only [execS, thenS, forFin, assignTo]
  rcases evalE O it σ with ⟨r, σ1⟩
  cases r <;> rfl

theorem relFin_one {f f' : Val → St → SR} (h : RelFin f f') : RelFin (oneVal f) (oneVal f') := by
  intro vs σ τ hA
  unfold oneVal
  split
  · exact h _ σ τ hA
  · exact ⟨rfl, hA⟩

theorem relFin_if {O : Oracle} {b e b1 e1 : List Stmt} (hb : SimB O (execB O b) b1) (he : SimB O (execB O e) e1) :
    RelFin (ifFin O b e) (ifFin O b1 e1) := by
  intro c σ τ hA
  unfold ifFin
  split
  · exact hb σ τ hA
  · exact he σ τ hA

theorem relFin_for {O : Oracle} {x : String} {b e b1 e1 : List Stmt} (hb : SimB O (execB O b) b1)
    (he : SimB O (execB O e) e1) : RelFin (forFin O x b e) (forFin O x b1 e1) := by
  intro c σ τ hA
  unfold forFin
  cases O.iter c with
  | none => exact ⟨rfl, hA⟩
  | some vs =>
    have fl := forLoop_sim (bind := fun v s => ((.normal, s.set x v) : SR)) (bind' := fun v s => ((.normal, s.set x v) : SR))
      (body := fun s => execB O b s) (body' := fun s => execB O b1 s)
      (fun v σ τ h => ⟨rfl, h.set_both x v⟩) (fun σ τ h => hb σ τ h) vs σ τ hA
    simp only
    rcases hx : forLoop (fun v s => ((.normal, s.set x v) : SR)) (fun s => execB O b s) vs σ with ⟨⟨o, σ2⟩, br⟩
    rcases hy : forLoop (fun v s => ((.normal, s.set x v) : SR)) (fun s => execB O b1 s) vs τ with ⟨⟨o', τ2⟩, br'⟩
    rw [hx, hy] at fl
    simp only at fl
    obtain ⟨ho, hag, hbr⟩ := fl
    subst ho; subst hbr
    cases o' <;> cases br' <;> first | exact he σ2 τ2 hag | exact ⟨rfl, hag⟩

end Malt.Anf

namespace Malt.Anf
open Malt.Py Malt.SemAnf

theorem isNameT_spec {t : Expr} (h : isNameT t = true) : ∃ j x c, t = .name j x c := by
  cases t <;> simp [isNameT] at h
  exact ⟨_, _, _, rfl⟩

theorem isSingleName_spec {ts : List Expr} (h : isSingleName ts = true) : ∃ j x c, ts = [.name j x c] := by
  cases ts with
  | nil => simp [isSingleName] at h
  | cons t r =>
    cases r with
    | nil =>
      obtain ⟨j, x, c, rfl⟩ := isNameT_spec (by simpa [isSingleName] using h)
      exact ⟨j, x, c, rfl⟩
    | cons _ _ => simp [isSingleName] at h

/-! ### stores under agreeing states -/
theorem agree_congr (O : Oracle) {e : Expr} (hf : fragE e = true) (hn : ∀ y ∈ namesE e, isTempName y = false)
    {σ τ : St} (hA : Agree σ τ) : (evalE O e τ).1 = (evalE O e σ).1 ∧ Agree (evalE O e σ).2 (evalE O e τ).2 := by
  have c := evalE_congr O (fun y => isTempName y = true) e hf (fun y hy => by simp [hn y hy]) σ τ
    ((agree_iff_agreeX σ τ).mp hA)
  exact ⟨c.1, (agree_iff_agreeX _ _).mpr c.2⟩

theorem assignAll_names_agree (O : Oracle) : ∀ (ts : List Expr) (vs : List Val) (σ τ : St), ts.all isNameT = true →
    Agree σ τ → (assignAll O ts vs τ).1 = (assignAll O ts vs σ).1 ∧ Agree (assignAll O ts vs σ).2 (assignAll O ts vs τ).2
  | [], vs, σ, τ, _, hA => by simp only [assignAll]; exact ⟨trivial, hA⟩
  | t :: ts, [], σ, τ, _, hA => by simp only [assignAll]; exact ⟨trivial, hA⟩
  | t :: ts, v :: vs, σ, τ, ht, hA => by
      simp only [List.all_cons, Bool.and_eq_true] at ht
      obtain ⟨j, x, c, rfl⟩ := isNameT_spec ht.1
      simp only [assignAll, assignTo]
      exact assignAll_names_agree O ts vs _ _ ht.2 (hA.set_both x v)

theorem assignTo_agree (O : Oracle) {t : Expr} (ht : tgtOk t = true) (hn : ∀ y ∈ namesE t, isTempName y = false)
    (v : Val) {σ τ : St} (hA : Agree σ τ) :
    (assignTo O t v τ).1 = (assignTo O t v σ).1 ∧ Agree (assignTo O t v σ).2 (assignTo O t v τ).2 := by
  cases t with
  | name j x c => simp only [assignTo]; exact ⟨trivial, hA.set_both x v⟩
  | attr j o a c =>
    simp only [tgtOk] at ht
    simp only [namesE] at hn
    have c1 := agree_congr O ht hn hA
    simp only [assignTo]
    rcases hx : evalE O o σ with ⟨r, σ1⟩
    rcases hy : evalE O o τ with ⟨r', τ1⟩
    rw [hx, hy] at c1
    simp only at c1
    obtain ⟨hr, hag⟩ := c1
    subst hr
    cases r' with
    | error e => exact ⟨rfl, hag⟩
    | ok x => exact ⟨rfl, hag.emit_both _⟩
  | subscript j o s c =>
    simp only [tgtOk, Bool.and_eq_true] at ht
    simp only [namesE, List.mem_append] at hn
    have c1 := agree_congr O ht.1 (fun y hy => hn y (Or.inl hy)) hA
    simp only [assignTo]
    rcases hx : evalE O o σ with ⟨r, σ1⟩
    rcases hy : evalE O o τ with ⟨r', τ1⟩
    rw [hx, hy] at c1
    simp only at c1
    obtain ⟨hr, hag⟩ := c1
    subst hr
    cases r' with
    | error e => exact ⟨rfl, hag⟩
    | ok x =>
      have c2 := agree_congr O ht.2 (fun y hy => hn y (Or.inr hy)) hag
      simp only
      rcases hx2 : evalE O s σ1 with ⟨q, σ2⟩
      rcases hy2 : evalE O s τ1 with ⟨q', τ2⟩
      rw [hx2, hy2] at c2
      simp only at c2
      obtain ⟨hq, hag2⟩ := c2
      subst hq
      cases q' with
      | error e => exact ⟨rfl, hag2⟩
      | ok y => exact ⟨rfl, hag2.emit_both _⟩
  | seq j k es c =>
    simp only [tgtOk, Bool.and_eq_true] at ht
    simp only [assignTo]
    split
    · split
      · exact assignAll_names_agree O es _ σ τ ht.2 hA
      · exact ⟨rfl, hA⟩
    · exact ⟨rfl, hA⟩
  | _ => simp [tgtOk] at ht

theorem deleteOne_agree (O : Oracle) {t : Expr} (ht : delOk t = true) (hn : ∀ y ∈ namesE t, isTempName y = false)
    {σ τ : St} (hA : Agree σ τ) :
    (deleteOne O t τ).1 = (deleteOne O t σ).1 ∧ Agree (deleteOne O t σ).2 (deleteOne O t τ).2 := by
  cases t with
  | name j x c => simp only [deleteOne]; exact ⟨trivial, hA.set_both x _⟩
  | attr j o a c =>
    simp only [delOk] at ht
    simp only [namesE] at hn
    have c1 := agree_congr O ht hn hA
    simp only [deleteOne]
    rcases hx : evalE O o σ with ⟨r, σ1⟩
    rcases hy : evalE O o τ with ⟨r', τ1⟩
    rw [hx, hy] at c1
    simp only at c1
    obtain ⟨hr, hag⟩ := c1
    subst hr
    cases r' with
    | error e => exact ⟨rfl, hag⟩
    | ok x => exact ⟨rfl, hag.emit_both _⟩
  | subscript j o s c =>
    simp only [delOk, Bool.and_eq_true] at ht
    simp only [namesE, List.mem_append] at hn
    have c1 := agree_congr O ht.1 (fun y hy => hn y (Or.inl hy)) hA
    simp only [deleteOne]
    rcases hx : evalE O o σ with ⟨r, σ1⟩
    rcases hy : evalE O o τ with ⟨r', τ1⟩
    rw [hx, hy] at c1
    simp only at c1
    obtain ⟨hr, hag⟩ := c1
    subst hr
    cases r' with
    | error e => exact ⟨rfl, hag⟩
    | ok x =>
      have c2 := agree_congr O ht.2 (fun y hy => hn y (Or.inr hy)) hag
      simp only
      rcases hx2 : evalE O s σ1 with ⟨q, σ2⟩
      rcases hy2 : evalE O s τ1 with ⟨q', τ2⟩
      rw [hx2, hy2] at c2
      simp only at c2
      obtain ⟨hq, hag2⟩ := c2
      subst hq
      cases q' with
      | error e => exact ⟨rfl, hag2⟩
      | ok y => exact ⟨rfl, hag2.emit_both _⟩
  | _ => simp [delOk] at ht

theorem deleteAll_agree (O : Oracle) : ∀ (ts : List Expr), ts.all delOk = true → (∀ y ∈ namesEs ts, isTempName y = false) →
    ∀ (σ τ : St), Agree σ τ → (deleteAll O ts τ).1 = (deleteAll O ts σ).1 ∧ Agree (deleteAll O ts σ).2 (deleteAll O ts τ).2
  | [], _, _, σ, τ, hA => by simp only [deleteAll]; exact ⟨trivial, hA⟩
  | t :: ts, ht, hn, σ, τ, hA => by
      simp only [List.all_cons, Bool.and_eq_true] at ht
      simp only [namesEs, List.mem_append] at hn
      have a := deleteOne_agree O ht.1 (fun y hy => hn y (Or.inl hy)) hA
      simp only [deleteAll]
      rcases hx : deleteOne O t σ with ⟨o, σ1⟩
      rcases hy : deleteOne O t τ with ⟨o', τ1⟩
      rw [hx, hy] at a
      simp only at a
      obtain ⟨ho, hag⟩ := a
      subst ho
      cases o' with
      | normal => exact deleteAll_agree O ts ht.2 (fun y hy => hn y (Or.inr hy)) σ1 τ1 hag
      | _ => exact ⟨rfl, hag⟩

theorem assert_agree (O : Oracle) (i : Nat) {t : Expr} {m : List Expr} (ht : fragE t = true)
    (hm : (match m with | [] => true | [x] => fragE x | _ => false) = true)
    (hn : ∀ y ∈ namesE t ++ namesEs m, isTempName y = false) {σ τ : St} (hA : Agree σ τ) :
    (execS O (.assert_ i t m) τ).1 = (execS O (.assert_ i t m) σ).1 ∧
      Agree (execS O (.assert_ i t m) σ).2 (execS O (.assert_ i t m) τ).2 := by
  simp only [List.mem_append] at hn
  have c1 := agree_congr O ht (fun y hy => hn y (Or.inl hy)) hA
  simp only [execS]
  rcases hx : evalE O t σ with ⟨r, σ1⟩
  rcases hy : evalE O t τ with ⟨r', τ1⟩
  rw [hx, hy] at c1
  simp only at c1
  obtain ⟨hr, hag⟩ := c1
  subst hr
  cases r' with
  | error e => exact ⟨rfl, hag⟩
  | ok c =>
    simp only
    split
    · exact ⟨rfl, hag⟩
    · cases m with
      | nil => exact ⟨rfl, hag⟩
      | cons x rest =>
        cases rest with
        | nil =>
          have c2 := agree_congr O (by simpa using hm) (fun y hy => hn y (Or.inr (by simp [namesEs, hy]))) hag
          simp only
          rcases hx2 : evalE O x σ1 with ⟨q, σ2⟩
          rcases hy2 : evalE O x τ1 with ⟨q', τ2⟩
          rw [hx2, hy2] at c2
          simp only at c2
          obtain ⟨hq, hag2⟩ := c2
          subst hq
          cases q' <;> exact ⟨rfl, hag2⟩
        | cons _ _ => simp at hm

theorem exec_assign (O : Oracle) (i : Nat) (ts : List Expr) (v : Expr) (σ : St) :
    execS O (.assign i ts v) σ = thenS (evalE O v) (fun x τ => assignEach O ts x τ) σ := by
  simp only [execS, thenS]
  rcases evalE O v σ with ⟨r, σ1⟩
  cases r <;> rfl

theorem relFin_assignEach (O : Oracle) : ∀ (ts : List Expr), ts.all tgtOk = true →
    (∀ y ∈ namesEs ts, isTempName y = false) → RelFin (fun x τ => assignEach O ts x τ) (fun x τ => assignEach O ts x τ)
  | [], _, _ => by
      intro x σ τ hA
      simp only [assignEach]; exact ⟨trivial, hA⟩
  | t :: ts, ht, hn => by
      simp only [List.all_cons, Bool.and_eq_true] at ht
      simp only [namesEs, List.mem_append] at hn
      intro x σ τ hA
      have a := assignTo_agree O ht.1 (fun y hy => hn y (Or.inl hy)) x hA
      simp only [assignEach]
      rcases hx : assignTo O t x σ with ⟨o, σ1⟩
      rcases hy : assignTo O t x τ with ⟨o', τ1⟩
      rw [hx, hy] at a
      simp only at a
      obtain ⟨ho, hag⟩ := a
      subst ho
      cases o' with
      | normal => exact relFin_assignEach O ts ht.2 (fun y hy => hn y (Or.inr hy)) x σ1 τ1 hag
      | _ => exact ⟨rfl, hag⟩

theorem exec_raise1 (O : Oracle) (i : Nat) (e : Expr) (σ : St) :
    execS O (.raise i [e] []) σ = thenS (evalOpts O [e]) (oneVal fun x τ => (.raise (raiseVal x), τ)) σ := by
  rw [thenS_opts1]
  simp only [execS, thenS]
  rcases evalE O e σ with ⟨r, σ1⟩
  cases r <;> rfl

/-- single ensured operand of a statement (`return`, `if`, `for`): the operand list machinery with one entry -/
theorem simOne (O : Oracle) (cfg : Config) (pk fld : String) {v v1 v2 : Expr} {n n1 n2 : Nat} {d1 h1 : List Stmt}
    (hf : fragE v = true) (hok : okT cfg v = true) (hnt : ∀ y ∈ namesE v, isTempName y = false)
    (hv : visitE cfg v n = .ok (v1, d1, n1)) (hE : ensure cfg pk fld v1 n1 = (v2, h1, n2)) :
    SimL O [v] [v2] (d1 ++ h1) := by
  have hk := simKids O cfg pk [(fld, v)] n [v1] (d1 ++ []) n1 n1 [v2] (h1 ++ []) n2
    (by simp [fragEs, hf]) (by simpa [namesEs] using hnt) (pairsOkT_single _ _ _)
    (by intro p hp
        simp only [List.mem_singleton] at hp; subst hp
        exact simE O cfg v hf hok hnt)
    (by simp [visitEs, hv, bind, Except.bind, pure, Except.pure]) (Nat.le_refl _) (by simp [ensureFs, hE])
  simpa using hk

mutual
theorem simS (O : Oracle) (cfg : Config) : ∀ (s : Stmt), fragS cfg s = true → (∀ y ∈ namesS s, isTempName y = false) →
    ∀ (n : Nat) (ss : List Stmt) (n' : Nat) (pend' : List Stmt), visitS cfg s n [] = .ok (ss, n', pend') →
    pend' = [] ∧ SimB O (execS O s) ss
  | .assign i ts v, hf, hnt, n, ss, n', pend', h => by
      simp only [fragS, Bool.and_eq_true] at hf
      obtain ⟨⟨⟨⟨-, htg⟩, hqt⟩, hfv⟩, hokv⟩ := hf
      simp only [namesS, List.mem_append] at hnt
      sopen h
      obtain ⟨_, -, t1, d1, n1, h1, v1, d2, n2, h2, h⟩ := h
      obtain ⟨e1, rfl, rfl⟩ := revisits hqt h1
      have e2 := e1.symm
      subst e2
      sclose h; obtain ⟨rfl, rfl, rfl⟩ := h
      refine ⟨rfl, ?_⟩
      have hs := simE O cfg v hfv hokv (fun y hy => hnt y (Or.inr hy)) _ _ _ _ h2
      simp only [List.nil_append]
      exact SimB.congr (exec_assign O i ts v)
        (simB_of_simK (relFin_assignEach O ts htg (fun y hy => hnt y (Or.inl hy))) hs _ (exec_assign O i ts v1))
  | .augAssign i t op v, hf, hnt, n, ss, n', pend', h => by
      simp only [fragS, Bool.and_eq_true] at hf
      obtain ⟨⟨⟨htn, hfv⟩, hokv⟩, hdis⟩ := hf
      obtain ⟨j, x, cx, rfl⟩ := isNameT_spec htn
      have hxw : x ∉ writesE v := disjoint_spec hdis x (by simp [namesE])
      simp only [namesS, namesE, List.mem_append, List.mem_singleton] at hnt
      sopen h
      obtain ⟨_, -, t1, d1, n1, h1, v1, d2, n2, h2, h⟩ := h
      simp only [visitE, pure, Except.pure, Except.ok.injEq, Prod.mk.injEq] at h1
      obtain ⟨rfl, rfl, rfl⟩ := h1
      sclose h; obtain ⟨rfl, rfl, rfl⟩ := h
      refine ⟨rfl, ?_⟩
      have hs := simE O cfg v hfv hokv (fun y hy => hnt y (Or.inr hy)) _ _ _ _ h2
      have fv := visitE_finv cfg (fun y => y ∈ writesE v) v _ v1 d2 _ hfv (fun y hy => hy) h2
      have hxnt : isTempName x = false := hnt x (Or.inl rfl)
      simp only [List.nil_append]
      intro σ σ' hA
      have a := hs σ σ' hA
      have hfrx := (exec_hoists O _ d2 _ _ σ' fv.hoists).2 x hxw (fun k _ _ heq => by
        rw [heq, isTempName_tmpName] at hxnt; exact Bool.noConfusion hxnt)
      rw [execB_append]
      rcases hd : execB O d2 σ' with ⟨o, σ2'⟩
      rw [hd] at a hfrx
      simp only at hfrx
      simp only [execS, augAssign]
      rcases hv : evalE O v σ with ⟨r, σ1⟩
      rw [hv] at a
      cases o with
      | normal =>
        obtain ⟨hval, hag⟩ := a
        simp only [execB_single, execS, augAssign]
        rcases hv1 : evalE O v1 σ2' with ⟨r1, σ1'⟩
        rw [hv1] at hval hag
        simp only at hval hag
        subst hval
        cases r1 with
        | error e => exact ⟨rfl, hag⟩
        | ok y =>
          simp only
          rw [hfrx, ← hA.2 x hxnt]
          exact ⟨by first | rfl | trivial, hag.set_both x _⟩
      | raise e =>
        obtain ⟨hval, hag⟩ := a
        simp only at hval hag
        subst hval
        exact ⟨rfl, hag⟩
      | brk => exact a.elim
      | cont => exact a.elim
      | ret _ => exact a.elim
  | .raise i exc cause, hf, hnt, n, ss, n', pend', h => by
      simp only [fragS, Bool.and_eq_true, List.isEmpty_iff] at hf
      obtain ⟨hexc, rfl⟩ := hf
      obtain ⟨e, rfl⟩ : ∃ e, exc = [e] := by
        cases exc with
        | nil => simp at hexc
        | cons a t => cases t with
          | nil => exact ⟨a, rfl⟩
          | cons _ _ => simp at hexc
      replace hf : (fragE e = true ∧ okT cfg e = true) ∧ True := ⟨by simpa using hexc, trivial⟩
      simp only [namesS, namesEs, List.append_nil] at hnt
      sopen h
      obtain ⟨_, -, vs1, d1, n1, h1, c1, d2', n2', h2, h⟩ := h
      simp only [visitEs, bind_ok, Prod.exists, pure, Except.pure, Except.ok.injEq, Prod.mk.injEq] at h1 h2
      obtain ⟨v1, d1', n1', hv, _, _, _, ⟨rfl, rfl, rfl⟩, rfl, rfl, rfl⟩ := h1
      obtain ⟨rfl, rfl, rfl⟩ := h2
      simp only [ensureList] at h
      rcases hE : ensure cfg "Raise" "exc" v1 n1' with ⟨v2, g1, n2⟩
      simp only [hE] at h; sclose h
      obtain ⟨rfl, rfl, rfl⟩ := h
      refine ⟨rfl, ?_⟩
      have hs := simOne O cfg "Raise" "exc" hf.1.1 hf.1.2 hnt hv hE
      simp only [List.append_nil]
      refine SimB.congr (exec_raise1 O i e) (simB_of_simK (relFin_one ?_) hs _ (exec_raise1 O i v2))
      intro val σ τ hA
      exact ⟨rfl, hA⟩
  | .expr i v, hf, hnt, n, ss, n', pend', h => by
      simp only [fragS, Bool.and_eq_true] at hf
      simp only [namesS] at hnt
      sopen h
      obtain ⟨_, -, v1, d1, n1, h1, h⟩ := h
      sclose h; obtain ⟨rfl, rfl, rfl⟩ := h
      refine ⟨rfl, ?_⟩
      have hs := simE O cfg v hf.1 hf.2 hnt _ _ _ _ h1
      refine SimB.congr (exec_expr O i v) (simB_of_simK ?_ hs _ (exec_expr O i v1))
      intro val σ τ hA
      exact ⟨rfl, hA⟩
  | .ret i [], hf, hnt, n, ss, n', pend', h => by
      clear hf
      sopen h
      obtain ⟨_, -, v1, d1, n1, h1, h⟩ := h
      simp only [visitEs, Except.ok.injEq, Prod.mk.injEq] at h1
      obtain ⟨rfl, rfl, rfl⟩ := h1
      try simp only [ensureList] at h
      sclose h; obtain ⟨rfl, rfl, rfl⟩ := h
      refine ⟨rfl, ?_⟩
      intro σ σ' hA
      simp only [List.append_nil, List.nil_append, execB, execS]
      exact ⟨trivial, hA⟩
  | .ret i (_ :: _ :: _), hf, _, _, _, _, _, _ => by simp [fragS] at hf
  | .ret i [v], hf, hnt, n, ss, n', pend', h => by
      simp only [fragS, Bool.and_eq_true] at hf
      simp only [namesS, namesEs, List.append_nil] at hnt
      sopen h
      obtain ⟨_, -, vs1, d1, n1, h1, h⟩ := h
      simp only [visitEs, bind_ok, Prod.exists, pure, Except.pure, Except.ok.injEq, Prod.mk.injEq] at h1
      obtain ⟨v1, d1', n1', hv, _, _, _, ⟨rfl, rfl, rfl⟩, rfl, rfl, rfl⟩ := h1
      simp only [ensureList] at h
      rcases hE : ensure cfg "Return" "value" v1 n1' with ⟨v2, g1, n2⟩
      simp only [hE] at h; sclose h
      obtain ⟨rfl, rfl, rfl⟩ := h
      refine ⟨rfl, ?_⟩
      have hs := simOne O cfg "Return" "value" hf.1 hf.2 hnt hv hE
      simp only [List.append_nil]
      refine SimB.congr (exec_ret1 O i v) (simB_of_simK (relFin_one ?_) hs _ (exec_ret1 O i v2))
      intro val σ τ hA
      exact ⟨rfl, hA⟩
  | .if_ i t b e, hf, hnt, n, ss, n', pend', h => by
      simp only [fragS, Bool.and_eq_true] at hf
      obtain ⟨⟨⟨hft, hokt⟩, hfb⟩, hfe⟩ := hf
      simp only [namesS, List.mem_append] at hnt
      sopen h
      obtain ⟨_, -, t1, d1, n1, h1, h⟩ := h
      rcases hE : ensure cfg "If" "test" t1 n1 with ⟨t2, g1, n2⟩
      simp only [hE] at h
      obtain ⟨t3, p1, n3, h3, b1, n4, p2, hb, e1, n5, p3, he, _, rfl, h⟩ := h
      sclose h; obtain ⟨rfl, rfl, rfl⟩ := h
      have i1 := visitE_inv cfg _ _ _ _ _ h1
      have hen := ensure_spec' i1.quiet hE
      obtain ⟨rfl, rfl, rfl⟩ := revisit hen.2.1 h3
      have ib := simSs O cfg b hfb (fun y hy => hnt y (Or.inl (Or.inr hy))) _ _ _ _ hb
      obtain ⟨rfl, sb⟩ := ib
      have ie := simSs O cfg e hfe (fun y hy => hnt y (Or.inr hy)) _ _ _ _ he
      obtain ⟨-, se⟩ := ie
      refine ⟨rfl, ?_⟩
      have hs := simOne O cfg "If" "test" hft hokt (fun y hy => hnt y (Or.inl (Or.inl hy))) h1 hE
      exact SimB.congr (exec_if O i t b e)
        (simB_of_simK (relFin_one (relFin_if sb se)) hs _ (exec_if O i _ b1 e1))
  | .for_ i tg it b e xt isAsync, hf, hnt, n, ss, n', pend', h => by
      simp only [fragS, Bool.and_eq_true, Bool.not_eq_true'] at hf
      obtain ⟨⟨⟨⟨⟨htg, has⟩, hft⟩, hokt⟩, hfb⟩, hfe⟩ := hf
      subst has
      obtain ⟨j, x, cx, rfl⟩ := isNameT_spec htg
      simp only [namesS, namesE, List.mem_append] at hnt
      simp only [visitS, Bool.false_eq_true, if_false] at h
      sopen h
      obtain ⟨_, -, t1, d1, n1, h1, h⟩ := h
      rcases hE : ensure cfg "For" "iter" t1 n1 with ⟨t2, g1, n2⟩
      simp only [hE] at h
      obtain ⟨tg1, p0, n3, htg, it3, p1, n4, h3, b1, n5, p2, hb, e1, n6, p3, he, _, rfl, h⟩ := h
      sclose h; obtain ⟨rfl, rfl, rfl⟩ := h
      simp only [visitE, pure, Except.pure, Except.ok.injEq, Prod.mk.injEq] at htg
      obtain ⟨rfl, rfl, rfl⟩ := htg
      have i1 := visitE_inv cfg _ _ _ _ _ h1
      have hen := ensure_spec' i1.quiet hE
      obtain ⟨rfl, rfl, rfl⟩ := revisit hen.2.1 h3
      simp only [List.append_nil] at hb
      have ib := simSs O cfg b hfb (fun y hy => hnt y (Or.inl (Or.inl (Or.inr hy)))) _ _ _ _ hb
      obtain ⟨rfl, sb⟩ := ib
      have ie := simSs O cfg e hfe (fun y hy => hnt y (Or.inl (Or.inr hy))) _ _ _ _ he
      obtain ⟨-, se⟩ := ie
      refine ⟨rfl, ?_⟩
      have hs := simOne O cfg "For" "iter" hft hokt (fun y hy => hnt y (Or.inl (Or.inl (Or.inl (Or.inr hy))))) h1 hE
      exact SimB.congr (exec_for O i j x cx it b e xt)
        (simB_of_simK (relFin_one (relFin_for sb se)) hs _ (exec_for O i j x cx _ b1 e1 xt))
  | .try_ i b hs e f, hf, hnt, n, ss, n', pend', h => by
      simp only [fragS, Bool.and_eq_true] at hf
      obtain ⟨⟨⟨hfb, hfh⟩, hfe⟩, hff⟩ := hf
      simp only [namesS, List.mem_append] at hnt
      sopen h
      obtain ⟨b1, n1, p1, hb, hs1, n2, p2, hh, e1, n3, p3, he, f1, n4, p4, hf4, h⟩ := h
      sclose h; obtain ⟨rfl, rfl, rfl⟩ := h
      have ib := simSs O cfg b hfb (fun y hy => hnt y (Or.inl (Or.inl (Or.inl hy)))) _ _ _ _ hb
      obtain ⟨rfl, sb⟩ := ib
      have ih := simHs O cfg hs hfh (fun y hy => hnt y (Or.inl (Or.inl (Or.inr hy)))) _ _ _ _ hh
      obtain ⟨rfl, sh⟩ := ih
      have ie := simSs O cfg e hfe (fun y hy => hnt y (Or.inl (Or.inr hy))) _ _ _ _ he
      obtain ⟨rfl, se⟩ := ie
      have iff := simSs O cfg f hff (fun y hy => hnt y (Or.inr hy)) _ _ _ _ hf4
      obtain ⟨hp4, sf⟩ := iff
      refine ⟨hp4, ?_⟩
      intro σ σ' hA
      simp only [execB_single, execS]
      -- the protected part: body, then handlers / else
      have hr1 : ∀ (r r' : SR), r'.1 = r.1 → Agree r.2 r'.2 →
          (match execB O f1 r'.2 with | (.normal, σ3) => (r'.1, σ3) | q => q).1
            = (match execB O f r.2 with | (.normal, σ3) => (r.1, σ3) | q => q).1 ∧
          Agree (match execB O f r.2 with | (.normal, σ3) => (r.1, σ3) | q => q).2
            (match execB O f1 r'.2 with | (.normal, σ3) => (r'.1, σ3) | q => q).2 := by
        intro r r' ho hag
        have a := sf r.2 r'.2 hag
        rcases hx : execB O f r.2 with ⟨o, τ⟩
        rcases hy : execB O f1 r'.2 with ⟨o', τ'⟩
        rw [hx, hy] at a
        simp only at a
        obtain ⟨ho2, hag2⟩ := a
        subst ho2
        cases o' <;> first | exact ⟨ho, hag2⟩ | exact ⟨rfl, hag2⟩
      apply hr1
      · have a := sb σ σ' hA
        rcases hx : execB O b σ with ⟨o, τ⟩
        rcases hy : execB O b1 σ' with ⟨o', τ'⟩
        rw [hx, hy] at a
        simp only at a
        obtain ⟨ho, hag⟩ := a
        subst ho
        cases o' with
        | raise x => exact (sh x τ τ' hag).1
        | normal => exact (se τ τ' hag).1
        | _ => rfl
      · have a := sb σ σ' hA
        rcases hx : execB O b σ with ⟨o, τ⟩
        rcases hy : execB O b1 σ' with ⟨o', τ'⟩
        rw [hx, hy] at a
        simp only at a
        obtain ⟨ho, hag⟩ := a
        subst ho
        cases o' with
        | raise x => exact (sh x τ τ' hag).2
        | normal => exact (se τ τ' hag).2
        | _ => exact hag
  | .pass i, _, _, n, ss, n', pend', h => by
      simp only [visitS, Except.ok.injEq, Prod.mk.injEq] at h; obtain ⟨rfl, rfl, rfl⟩ := h
      refine ⟨rfl, fun σ σ' hA => ?_⟩
      simp only [execB_single, execS]; exact ⟨trivial, hA⟩
  | .break_ i, _, _, n, ss, n', pend', h => by
      simp only [visitS, Except.ok.injEq, Prod.mk.injEq] at h; obtain ⟨rfl, rfl, rfl⟩ := h
      refine ⟨rfl, fun σ σ' hA => ?_⟩
      simp only [execB_single, execS]; exact ⟨trivial, hA⟩
  | .continue_ i, _, _, n, ss, n', pend', h => by
      simp only [visitS, Except.ok.injEq, Prod.mk.injEq] at h; obtain ⟨rfl, rfl, rfl⟩ := h
      refine ⟨rfl, fun σ σ' hA => ?_⟩
      simp only [execB_single, execS]; exact ⟨trivial, hA⟩
  | .global i ns, _, _, n, ss, n', pend', h => by
      simp only [visitS, Except.ok.injEq, Prod.mk.injEq] at h; obtain ⟨rfl, rfl, rfl⟩ := h
      refine ⟨rfl, fun σ σ' hA => ?_⟩
      simp only [execB_single, execS]; exact ⟨trivial, hA⟩
  | .nonlocal i ns, _, _, n, ss, n', pend', h => by
      simp only [visitS, Except.ok.injEq, Prod.mk.injEq] at h; obtain ⟨rfl, rfl, rfl⟩ := h
      refine ⟨rfl, fun σ σ' hA => ?_⟩
      simp only [execB_single, execS]; exact ⟨trivial, hA⟩
  | .functionDef i nm as b ds rs isAsync, hf, hnt, n, ss, n', pend', h => by
      simp only [fragS, Bool.and_eq_true, List.isEmpty_iff] at hf
      obtain ⟨⟨⟨⟨-, hq⟩, rfl⟩, rfl⟩, hfb⟩ := hf
      have ihb := simSs O cfg b hfb (fun y hy => hnt y (by simp [namesS, hy]))
      sopen h
      obtain ⟨as1, d1, n1, h1, b1, n2, p1, hb, ds1, d2, n3, h2, rs1, d3, n4, h3, h⟩ := h
      obtain ⟨e1, rfl, rfl⟩ := revisit hq h1
      have e2 := e1.symm
      subst e2
      simp only [visitEs, Except.ok.injEq, Prod.mk.injEq] at h2 h3
      obtain ⟨rfl, rfl, rfl⟩ := h2
      obtain ⟨rfl, rfl, rfl⟩ := h3
      simp only [List.append_nil] at hb
      obtain ⟨rfl, -⟩ := ihb _ _ _ _ hb
      sclose h; obtain ⟨rfl, rfl, rfl⟩ := h
      refine ⟨rfl, fun σ σ' hA => ?_⟩
      simp only [execB_single, execS]
      exact ⟨trivial, hA.set_both nm _⟩
  | .delete i ts, hf, hnt, n, ss, n', pend', h => by
      simp only [fragS, Bool.and_eq_true] at hf
      simp only [namesS] at hnt
      sopen h
      obtain ⟨_, -, t1, d1, n1, h1, h⟩ := h
      obtain ⟨e1, rfl, rfl⟩ := revisits hf.2 h1
      have e2 := e1.symm
      subst e2
      sclose h; obtain ⟨rfl, rfl, rfl⟩ := h
      refine ⟨rfl, fun σ σ' hA => ?_⟩
      simp only [List.nil_append, execB_single, execS]
      exact deleteAll_agree O ts hf.1 hnt σ σ' hA
  | .assert_ i t m, hf, hnt, n, ss, n', pend', h => by
      simp only [fragS, Bool.and_eq_true] at hf
      simp only [namesS] at hnt
      sopen h
      obtain ⟨_, -, t1, d1, n1, h1, m1, d2, n2, h2, h⟩ := h
      rcases hE1 : ensure cfg "Assert" "test" t1 n2 with ⟨t2, g1, n3⟩
      rcases hE2 : ensureList cfg "Assert" "msg" m1 n3 with ⟨m2, g2, n4⟩
      simp only [hE1, hE2] at h
      split at h
      · simp at h
      next hnil =>
      sclose h; obtain ⟨rfl, rfl, rfl⟩ := h
      have hnil' : d1 ++ d2 ++ g1 ++ g2 = [] := by simpa using hnil
      obtain ⟨h3, hg2⟩ := List.append_eq_nil_iff.mp hnil'
      obtain ⟨h4, hg1⟩ := List.append_eq_nil_iff.mp h3
      obtain ⟨hd1, hd2⟩ := List.append_eq_nil_iff.mp h4
      subst hd1; subst hd2; subst hg1; subst hg2
      have i1 := visitE_inv cfg _ _ _ _ _ h1
      have i2 := visitEs_inv cfg _ _ _ _ _ h2
      have et : t1 = t := i1.same rfl
      have em : m1 = m := i2.same rfl
      subst et; subst em
      have he1 := ensure_spec' i1.quiet hE1
      have he2 := ensureList_spec' i2.quiet hE2
      have et2 : t2 = t1 := he1.2.2.2 rfl
      have em2 : m2 = m1 := he2.2.2.2 rfl
      subst et2; subst em2
      refine ⟨rfl, fun σ σ' hA => ?_⟩
      simp only [execB_single]
      exact assert_agree O i hf.1 hf.2 hnt hA
  | .classDef .., hf, _, _, _, _, _, _
  | .annAssign .., hf, _, _, _, _, _, _ | .while_ .., hf, _, _, _, _, _, _
  | .with_ .., hf, _, _, _, _, _, _
  | .handler .., hf, _, _, _, _, _, _ | .import_ .., hf, _, _, _, _, _, _
  | .importFrom .., hf, _, _, _, _, _, _
  | .other .., hf, _, _, _, _, _, _ => by simp [fragS] at hf
theorem simSs (O : Oracle) (cfg : Config) : ∀ (l : List Stmt), fragSs cfg l = true → (∀ y ∈ namesSs l, isTempName y = false) →
    ∀ (n : Nat) (ss : List Stmt) (n' : Nat) (pend' : List Stmt), visitSs cfg l n [] = .ok (ss, n', pend') →
    pend' = [] ∧ SimB O (execB O l) ss
  | [], _, _, n, ss, n', pend', h => by
      simp only [visitSs, Except.ok.injEq, Prod.mk.injEq] at h; obtain ⟨rfl, rfl, rfl⟩ := h
      exact ⟨rfl, SimB.nil O⟩
  | s :: l, hf, hnt, n, ss, n', pend', h => by
      simp only [fragSs, Bool.and_eq_true] at hf
      simp only [namesSs, List.mem_append] at hnt
      sopen h
      obtain ⟨r1, n1, p1, h1, r2, n2, p2, h2, h⟩ := h
      sclose h; obtain ⟨rfl, rfl, rfl⟩ := h
      have i1 := simS O cfg s hf.1 (fun y hy => hnt y (Or.inl hy)) _ _ _ _ h1
      obtain ⟨rfl, s1⟩ := i1
      have i2 := simSs O cfg l hf.2 (fun y hy => hnt y (Or.inr hy)) _ _ _ _ h2
      exact ⟨i2.1, SimB.seq s1 i2.2⟩
theorem simHs (O : Oracle) (cfg : Config) : ∀ (hs : List Stmt), fragHs cfg hs = true → (∀ y ∈ namesSs hs, isTempName y = false) →
    ∀ (n : Nat) (ss : List Stmt) (n' : Nat) (pend' : List Stmt), visitSs cfg hs n [] = .ok (ss, n', pend') →
    pend' = [] ∧ ∀ (x : Val) (σ σ' : St), Agree σ σ' →
      (execH O ss x σ').1 = (execH O hs x σ).1 ∧ Agree (execH O hs x σ).2 (execH O ss x σ').2
  | [], _, _, n, ss, n', pend', h => by
      simp only [visitSs, Except.ok.injEq, Prod.mk.injEq] at h; obtain ⟨rfl, rfl, rfl⟩ := h
      refine ⟨rfl, fun x σ σ' hA => ?_⟩
      simp only [execH]; exact ⟨trivial, hA⟩
  | .handler i ty nm b :: hs, hf, hnt, n, ss, n', pend', h => by
      simp only [fragHs, Bool.and_eq_true, List.isEmpty_iff] at hf
      obtain ⟨⟨⟨hty, rfl⟩, hfb⟩, hfh⟩ := hf
      simp only [namesSs, namesS, List.mem_append, List.append_nil] at hnt
      have ihb := simSs O cfg b hfb (fun y hy => hnt y (Or.inl (Or.inr hy)))
      have ihh := simHs O cfg hs hfh (fun y hy => hnt y (Or.inr hy))
      have hqty : quiets cfg ty = true := by
        cases ty with
        | nil => rfl
        | cons t r =>
          cases r with
          | nil =>
            obtain ⟨j, y, c, rfl⟩ := isNameT_spec (by simpa [handlerTypeOk] using hty)
            simp [quiets, quiet]
          | cons _ _ => simp [handlerTypeOk] at hty
      sopen h
      obtain ⟨r1, n1, p1, h1, r2, n2, p2, h2, h⟩ := h
      sclose h; obtain ⟨rfl, rfl, rfl⟩ := h
      obtain ⟨ty1, d1, m1, hvt, b1, m2, q1, hvb, h1⟩ := h1
      sclose h1; obtain ⟨rfl, rfl, rfl⟩ := h1
      obtain ⟨e1, rfl, rfl⟩ := revisits hqty hvt
      have e2 := e1.symm
      subst e2
      simp only [List.append_nil] at hvb
      obtain ⟨rfl, sb⟩ := ihb _ _ _ _ hvb
      obtain ⟨hp, sh⟩ := ihh _ _ _ _ h2
      refine ⟨hp, fun x σ σ' hA => ?_⟩
      simp only [List.singleton_append, List.cons_append, List.nil_append, execH]
      cases ty with
      | nil => exact sb σ σ' hA
      | cons t r =>
        cases r with
        | nil =>
          obtain ⟨j, y, c, rfl⟩ := isNameT_spec (by simpa [handlerTypeOk] using hty)
          simp only [evalE]
          have hy : σ'.get y = σ.get y := (hA.2 y (hnt y (Or.inl (Or.inl (by simp [namesEs, namesE]))))).symm
          rw [hy]
          split
          · exact sb σ σ' hA
          · exact sh x σ σ' hA
        | cons _ _ => simp [handlerTypeOk] at hty
  | .functionDef .. :: _, hf, _, _, _, _, _, _ | .classDef .. :: _, hf, _, _, _, _, _, _ | .ret .. :: _, hf, _, _, _, _, _, _
  | .delete .. :: _, hf, _, _, _, _, _, _ | .assign .. :: _, hf, _, _, _, _, _, _ | .augAssign .. :: _, hf, _, _, _, _, _, _
  | .annAssign .. :: _, hf, _, _, _, _, _, _ | .for_ .. :: _, hf, _, _, _, _, _, _ | .while_ .. :: _, hf, _, _, _, _, _, _
  | .if_ .. :: _, hf, _, _, _, _, _, _ | .with_ .. :: _, hf, _, _, _, _, _, _ | .raise .. :: _, hf, _, _, _, _, _, _
  | .try_ .. :: _, hf, _, _, _, _, _, _ | .assert_ .. :: _, hf, _, _, _, _, _, _ | .import_ .. :: _, hf, _, _, _, _, _, _
  | .importFrom .. :: _, hf, _, _, _, _, _, _ | .global .. :: _, hf, _, _, _, _, _, _ | .nonlocal .. :: _, hf, _, _, _, _, _, _
  | .expr .. :: _, hf, _, _, _, _, _, _ | .pass .. :: _, hf, _, _, _, _, _, _ | .break_ .. :: _, hf, _, _, _, _, _, _
  | .continue_ .. :: _, hf, _, _, _, _, _, _ | .other .. :: _, hf, _, _, _, _, _, _ => by simp [fragHs] at hf
end

end Malt.Anf

namespace Malt.Anf
open Malt.Py Malt.SemAnf

/-- Functions of the fragment: the transformed function observes the same as the original. -/
theorem sem_fragFn (O : Oracle) (cfg : Config) (p q : Stmt) (genv : Env) (args : List Val)
    (hfrag : fragFn cfg p = true) (hnt : NoTempNames p) (h : anf cfg p = .ok [q]) :
    observe (runFn O genv q args) = observe (runFn O genv p args) := by
  cases p with
  | functionDef i nm as b ds rs isAsync =>
    simp only [fragFn, Bool.and_eq_true] at hfrag
    obtain ⟨⟨⟨hq, hqd⟩, hqr⟩, hfb⟩ := hfrag
    unfold anf at h
    cases hv : visitS cfg (.functionDef i nm as b ds rs isAsync) 0 [] with
    | error e => rw [hv] at h; simp [Except.map] at h
    | ok r =>
      rw [hv] at h
      simp only [Except.map, Except.ok.injEq] at h
      obtain ⟨ss, n', pend'⟩ := r
      simp only at h
      subst h
      simp only [visitS, visitSs, bind_ok, Prod.exists] at hv
      obtain ⟨as1, d1, n1, h1, b1, n2, p1, hb, ds1, d2, n3, h2, rs1, d3, n4, h3, hv⟩ := hv
      obtain ⟨e1, rfl, rfl⟩ := revisit hq h1
      have e2 := e1.symm
      subst e2
      simp only [List.append_nil] at hb
      have hs := simSs O cfg b hfb (fun y hy => hnt y (by simp [namesS, hy])) _ _ _ _ hb
      obtain ⟨hp1, hsb⟩ := hs
      subst hp1
      obtain ⟨e3, rfl, rfl⟩ := revisits hqd h2
      obtain ⟨e4, rfl, rfl⟩ := revisits hqr h3
      simp only [pure, Except.pure, Except.ok.injEq, Prod.mk.injEq, List.cons.injEq, and_true] at hv
      obtain ⟨rfl, -, -⟩ := hv
      simp only [runFn, observe]
      generalize (⟨bindParams (paramNames _) args genv, []⟩ : St) = σ0
      have hsim := hsb σ0 σ0 (Agree.refl _)
      rcases hx : execB O b σ0 with ⟨o, σ1⟩
      rcases hy : execB O b1 σ0 with ⟨o', σ1'⟩
      rw [hx, hy] at hsim
      simp only at hsim
      obtain ⟨ho, hag⟩ := hsim
      subst ho
      cases o' <;> simp [hag.1]
  | _ => simp [fragFn] at hfrag

end Malt.Anf
