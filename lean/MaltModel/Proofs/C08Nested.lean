import MaltModel.Proofs.C08Classes
/-
Helper development for `C08_classes_nested`: what `C08Classes` shows for the root function holds for every
(non-async) function definition nested in statement position anywhere in the tree.
-/
namespace Malt.Analysis
open Malt.Py Malt.Spec

/-! ### every function definition of the tree (not only the root) -/

mutual
/-- The (non-async) function definitions nested in statement position below `s`, `s` included. -/
def defsS : Stmt → List Stmt
  | .functionDef i name args body decos returns isAsync =>
      .functionDef i name args body decos returns isAsync :: defsSs body
  | .classDef _ _ _ _ body _ => defsSs body
  | .for_ _ _ _ body orelse _ _ => defsSs body ++ defsSs orelse
  | .while_ _ _ body orelse => defsSs body ++ defsSs orelse
  | .if_ _ _ body orelse => defsSs body ++ defsSs orelse
  | .with_ _ _ body _ => defsSs body
  | .try_ _ b h o f => defsSs b ++ defsSs h ++ defsSs o ++ defsSs f
  | .handler _ _ _ body => defsSs body
  | .other _ _ _ bs => defsSs bs
  | _ => []
def defsSs : List Stmt → List Stmt
  | [] => []
  | s :: rest => defsS s ++ defsSs rest
end

/-- What the analysis has recorded for the function definition `d`: the ARGS_AND_BODY scope on the node and the
    scope on its `arguments` node, with the sets the classification is read from. -/
def DefOk (st : St) : Stmt → Prop
  | .functionDef i _ (.arguments ai po ar va ko _ kw _) body _ _ _ =>
      ∃ cI ca, (i, AnnoKey.argsAndBodyScope, cI) ∈ st.annos ∧ (ai, AnnoKey.scope, ca) ∈ st.annos ∧
        (∀ x, QN.sym x ∈ cI.bound ↔ x ∈ paramStrs po ar va ko kw ∨ x ∈ ownBindsSs body ∨ x ∈ ownDeclsSs false body ∨ x ∈ ownLeaksSs body) ∧
        (∀ x, QN.sym x ∈ cI.globals ↔ x ∈ ownDeclsSs true body) ∧
        (∀ x, QN.sym x ∈ cI.nonlocals ↔ x ∈ ownDeclsSs false body) ∧
        (∀ x, QN.sym x ∈ ca.paramNames ↔ x ∈ paramStrs po ar va ko kw) ∧
        (∃ fns, ∀ q, q ∈ cI.read ↔ q ∈ (effSs fns body).read)
  | _ => True

theorem DefOk.mono {a b : St} {e : Eff} {d : Stmt} (h : Adds a b e) (r : DefOk a d) : DefOk b d := by
  obtain ⟨n, hn⟩ := h.ext
  cases d with
  | functionDef i name args body decos returns isAsync =>
    cases args with
    | arguments ai po ar va ko kd kw df =>
      obtain ⟨cI, ca, h1, h2, h3⟩ := r
      exact ⟨cI, ca, by rw [hn]; exact List.mem_append_right _ h1, by rw [hn]; exact List.mem_append_right _ h2, h3⟩
    | _ => trivial
  | _ => trivial

/-- `DefOk` only looks at the annotations. -/
theorem DefOk.ofAnnos {a b : St} {d : Stmt} (h : ∀ x, x ∈ a.annos → x ∈ b.annos) (r : DefOk a d) : DefOk b d := by
  cases d with
  | functionDef i name args body decos returns isAsync =>
    cases args with
    | arguments ai po ar va ko kd kw df =>
      obtain ⟨cI, ca, h1, h2, h3⟩ := r
      exact ⟨cI, ca, h _ h1, h _ h2, h3⟩
    | _ => trivial
  | _ => trivial


theorem DefOk.popFn {x : St} {d : Stmt} (r : DefOk x d) : DefOk x.popFn d :=
  DefOk.ofAnnos (a := x) (b := x.popFn) (fun _ h => h) r

/-- The function definition itself. -/
theorem defOk_self (i : Nat) (name : String) (ai : Nat) (po ar va ko kd kw df : List Expr) (body : List Stmt)
    (decos returns : List Expr) (st : St) (fns : List FnCtx) (p : PlainS st fns)
    (hf : FragS (.functionDef i name (.arguments ai po ar va ko kd kw df) body decos returns false) = true) :
    DefOk (visitS (.functionDef i name (.arguments ai po ar va ko kd kw df) body decos returns false) st)
      (.functionDef i name (.arguments ai po ar va ko kd kw df) body decos returns false) := by
  obtain ⟨cI, ca, rest, hann, hca, hcI, hpar, -⟩ := functionDef_recorded i name ai po ar va ko kd kw df body decos returns st fns p hf
  simp only [FragS, Bool.and_eq_true, Bool.not_eq_true'] at hf
  have hM := effSs_sets body hf.2 (.fn i name :: fns)
  refine ⟨cI, ca, by rw [hann]; exact List.mem_cons_self, by rw [hann]; exact List.mem_cons_of_mem _ hca, ?_, ?_, ?_, ?_,
    ⟨.fn i name :: fns, fun q => by rw [hcI.read]; simp [Eff.exported]⟩⟩
  · intro x
    simp only [hcI.bound, Eff.append_bound, Eff.exported_false_bound', List.mem_append, hM.bound, mem_paramNames_iff]
    try grind
  · intro x
    simp only [hcI.globals, Eff.append_globals, Eff.exported_false_globals', List.mem_append, hM.globals, List.not_mem_nil, false_or]
  · intro x
    simp only [hcI.nonlocals, Eff.append_nonlocals, Eff.exported_false_nonlocals', List.mem_append, hM.nonlocals, List.not_mem_nil, false_or]
  · intro x
    rw [hpar, mem_paramNames_iff]

/-- A block processed by `_process_block_node` keeps what its statements recorded. -/
theorem block_defs {fns} (body : List Stmt) (hb : FragSs body = true) (recs : List (Nat × AnnoKey))
    (ih : ∀ s, PlainS s fns → ∀ d ∈ defsSs body, DefOk (visitSs body s) d) :
    ∀ s, PlainS s fns → ∀ d ∈ defsSs body, DefOk ((visitSs body (s.enter false)).exitWith recs) d := by
  intro s ps d hd
  have B1 := visitSs_adds body _ fns (ps.enter false none) hb
  obtain ⟨c', -, ha, -⟩ := (scoped_block ps.plain false none B1 recs).popped
  exact DefOk.ofAnnos (fun x hx => by rw [ha]; exact List.mem_append_right _ hx) (ih _ (ps.enter false none) d hd)

/-- The pattern of `_process_parallel_blocks`. -/
theorem parallel_defs {st : St} {fns} (p : PlainS st fns) (f g : St → St) (D1 D2 : List Stmt) (d1 d2 : Eff)
    (hf : ∀ s, PlainS s fns → Adds s (f s) d1) (hg : ∀ s, PlainS s fns → Adds s (g s) d2)
    (uf : ∀ s, PlainS s fns → ∀ d ∈ D1, DefOk (f s) d) (ug : ∀ s, PlainS s fns → ∀ d ∈ D2, DefOk (g s) d) :
    ∀ d ∈ D1 ++ D2, DefOk ((g ((f (st.restore st.stack)).restore st.stack)).mergeAfter (f (st.restore st.stack)).stack
              (g ((f (st.restore st.stack)).restore st.stack)).stack) d := by
  rw [St.restore_self]
  intro d hd
  have A1 := hf st p
  have R := restore_adds p.plain A1
  have q := R.plainS p
  have A2 := hg _ q
  apply DefOk.ofAnnos (a := g ((f st).restore st.stack)) (fun x hx => hx)
  simp only [List.mem_append] at hd
  rcases hd with hd | hd
  · exact DefOk.mono A2 (DefOk.ofAnnos (a := f st) (fun x hx => hx) (uf st p d hd))
  · exact ug _ q d hd


mutual
theorem visitS_defs : (s : Stmt) → (st : St) → (fns : List FnCtx) → PlainS st fns → FragS s = true →
    ∀ d ∈ defsS s, DefOk (visitS s st) d
  | .ret .., _, _, _, _ => by simp [defsS]
  | .delete .., _, _, _, _ => by simp [defsS]
  | .assign .., _, _, _, _ => by simp [defsS]
  | .augAssign .., _, _, _, _ => by simp [defsS]
  | .annAssign .., _, _, _, _ => by simp [defsS]
  | .raise .., _, _, _, _ => by simp [defsS]
  | .assert_ .., _, _, _, _ => by simp [defsS]
  | .expr .., _, _, _, _ => by simp [defsS]
  | .import_ .., _, _, _, _ => by simp [defsS]
  | .importFrom .., _, _, _, _ => by simp [defsS]
  | .global .., _, _, _, _ => by simp [defsS]
  | .nonlocal .., _, _, _, _ => by simp [defsS]
  | .pass _, _, _, _, _ => by simp [defsS]
  | .break_ _, _, _, _, _ => by simp [defsS]
  | .continue_ _, _, _, _, _ => by simp [defsS]
  | .other _ _ es bs, st, fns, p, hf => by
      simp only [FragS, Bool.and_eq_true] at hf
      simp only [defsS, visitS]
      have A1 := visitEs_adds es _ p.plain hf.1 fns false false p.ctx
      exact visitSs_defs bs _ fns (A1.plainS p) hf.2
  | .try_ _ b h o f, st, fns, p, hf => by
      simp only [FragS, Bool.and_eq_true] at hf
      intro d hd
      simp only [defsS, List.mem_append] at hd
      simp only [visitS]
      have A1 := visitSs_adds b _ fns p hf.1.1.1
      have A2 := visitSs_adds h _ fns (A1.plainS p) hf.1.1.2
      have A3 := visitSs_adds o _ fns ((A1.trans A2).plainS p) hf.1.2
      have A4 := visitSs_adds f _ fns (((A1.trans A2).trans A3).plainS p) hf.2
      rcases hd with ((hd | hd) | hd) | hd
      · exact DefOk.mono A4 (DefOk.mono A3 (DefOk.mono A2 (visitSs_defs b _ fns p hf.1.1.1 d hd)))
      · exact DefOk.mono A4 (DefOk.mono A3 (visitSs_defs h _ fns (A1.plainS p) hf.1.1.2 d hd))
      · exact DefOk.mono A4 (visitSs_defs o _ fns ((A1.trans A2).plainS p) hf.1.2 d hd)
      · exact visitSs_defs f _ fns (((A1.trans A2).trans A3).plainS p) hf.2 d hd
  | .handler _ ty name body, st, fns, p, hf => by
      simp only [FragS, Bool.and_eq_true] at hf
      intro d hd
      simp only [defsS] at hd
      simp only [visitS]
      have p1 := p.enter false none
      have E : Adds (st.enter false) (if name.isEmpty = true then st.enter false else (st.enter false).setErr) {} := by
        split
        · exact Adds.refl p1.plain
        · exact ⟨p1.plain.ne, rfl, ScopeAdds.refl _, rfl, rfl, rfl, p1.plain.annoOnly, p1.plain.comps, ⟨[], rfl⟩⟩
      have A1 := E.trans (visitEs_adds ty _ E.plain hf.1 fns false false (E.inCtx p1.ctx))
      have A2 := A1.trans (visitSs_adds body _ fns (A1.plainS p1) hf.2)
      obtain ⟨c', -, ha, -⟩ := (scoped_block p.plain false none A2 []).popped
      exact DefOk.ofAnnos (fun x hx => by rw [ha]; exact List.mem_append_right _ hx)
        (visitSs_defs body _ fns (A1.plainS p1) hf.2 d hd)
  | .with_ i items body isAsync, st, fns, p, hf => by
      simp only [FragS, Bool.and_eq_true, Bool.not_eq_true'] at hf
      obtain ⟨⟨⟨ha, hi⟩, -⟩, hb⟩ := hf
      subst ha
      intro d hd
      simp only [defsS] at hd
      simp only [visitS, Bool.false_eq_true, ↓reduceIte]
      have p1 := p.enter false none
      have A1 := visitEs_adds items _ p1.plain hi fns false false p1.ctx
      have A2 := visitSs_adds body _ fns (A1.plainS p1) hb
      obtain ⟨c', -, hx, -⟩ := (scoped_block p.plain false none (A1.trans A2) [(i, .bodyScope)]).popped
      exact DefOk.ofAnnos (fun x hx' => by rw [hx]; exact List.mem_append_right _ hx')
        (visitSs_defs body _ fns (A1.plainS p1) hb d hd)
  | .if_ i test body orelse, st, fns, p, hf => by
      simp only [FragS, Bool.and_eq_true] at hf
      simp only [defsS, visitS]
      have S1 := Adds.scopedAdds p.plain false none
        (visitE_adds test _ (St.enter_plain p.plain false none) hf.1.1 fns false false (p.ctx.enter false none))
        [(test.id, .scope), (i, .condScope)]
      exact parallel_defs (S1.plainS p)
        (fun s => ((s.enter false) |> visitSs body).exitWith [(i, .bodyScope)])
        (fun s => ((s.enter false) |> visitSs orelse).exitWith [(i, .orelseScope)]) _ _ _ _
        (fun s ps => Adds.scopedAdds ps.plain false none (visitSs_adds body _ fns (ps.enter false none) hf.1.2) _)
        (fun s ps => Adds.scopedAdds ps.plain false none (visitSs_adds orelse _ fns (ps.enter false none) hf.2) _)
        (block_defs body hf.1.2 _ (fun s ps => visitSs_defs body s fns ps hf.1.2))
        (block_defs orelse hf.2 _ (fun s ps => visitSs_defs orelse s fns ps hf.2))
  | .while_ i test body orelse, st, fns, p, hf => by
      simp only [FragS, Bool.and_eq_true] at hf
      simp only [defsS, visitS]
      have S1 := Adds.scopedAdds p.plain false none
        (visitE_adds test _ (St.enter_plain p.plain false none) hf.1.1 fns false false (p.ctx.enter false none))
        [(test.id, .scope), (i, .condScope)]
      exact parallel_defs (S1.plainS p)
        (fun s => ((s.enter false) |> visitSs body).exitWith [(i, .bodyScope)])
        (fun s => ((s.enter false) |> visitSs orelse).exitWith [(i, .orelseScope)]) _ _ _ _
        (fun s ps => Adds.scopedAdds ps.plain false none (visitSs_adds body _ fns (ps.enter false none) hf.1.2) _)
        (fun s ps => Adds.scopedAdds ps.plain false none (visitSs_adds orelse _ fns (ps.enter false none) hf.2) _)
        (block_defs body hf.1.2 _ (fun s ps => visitSs_defs body s fns ps hf.1.2))
        (block_defs orelse hf.2 _ (fun s ps => visitSs_defs orelse s fns ps hf.2))
  | .for_ i t it body orelse extra isAsync, st, fns, p, hf => by
      simp only [FragS, Bool.and_eq_true, Bool.not_eq_true', List.isEmpty_iff] at hf
      obtain ⟨⟨⟨⟨⟨ha, hx⟩, ht⟩, hit⟩, hb⟩, ho⟩ := hf
      subst ha hx
      simp only [defsS, visitS, Bool.false_eq_true, ↓reduceIte]
      have p1 := p.enter false none
      have A1 := visitE_adds t _ p1.plain ht fns false false p1.ctx
      have A2 := A1.trans (visitE_adds it _ A1.plain hit fns false false (A1.inCtx p1.ctx))
      have S1 := Adds.scopedAdds p.plain false none A2 [(it.id, .scope)]
      have q := S1.plainS p
      have S2 := Adds.scopedAdds q.plain false none
        (visitE_adds t _ (q.enter false none).plain ht fns false false (q.enter false none).ctx) [(i, .iterateScope)]
      exact parallel_defs (S2.plainS q)
        (fun s => ((s.enter false) |> visitSs body).exitWith [(i, .bodyScope)])
        (fun s => ((s.enter false) |> visitSs orelse).exitWith [(i, .orelseScope)]) _ _ _ _
        (fun s ps => Adds.scopedAdds ps.plain false none (visitSs_adds body _ fns (ps.enter false none) hb) _)
        (fun s ps => Adds.scopedAdds ps.plain false none (visitSs_adds orelse _ fns (ps.enter false none) ho) _)
        (block_defs body hb _ (fun s ps => visitSs_defs body s fns ps hb))
        (block_defs orelse ho _ (fun s ps => visitSs_defs orelse s fns ps ho))
  | .classDef i name bases kws body decos, st, fns, p, hf => by
      simp only [FragS, Bool.and_eq_true] at hf
      obtain ⟨⟨⟨hb, hk⟩, hd⟩, hbody⟩ := hf
      intro d hdd
      simp only [defsS] at hdd
      simp only [visitS]
      apply DefOk.popFn
      have p0 := p.pushFn (.cls i)
      generalize st.pushFn (.cls i) = s0 at p0 ⊢
      have p1 := p0.enter false none
      have A1 := visitEs_adds decos _ p1.plain hd _ false false p1.ctx
      have A2 := A1.trans (Adds.addModified A1.plain (.sym name))
      have A3 := A2.trans (Adds.addBound A2.plain (.sym name))
      have A4 := A3.trans (visitEs_adds bases _ A3.plain hb _ false false (A3.inCtx p1.ctx))
      have A5 := A4.trans (visitEs_adds kws _ A4.plain hk _ false false (A4.inCtx p1.ctx))
      have S1 := Adds.scopedAdds p0.plain false none A5 [(i, .scope)]
      have q := S1.plainS p0
      have q1 := q.enter true none
      have B1 := visitEs_adds bases _ q1.plain hb _ false false q1.ctx
      have B2 := B1.trans (visitEs_adds kws _ B1.plain hk _ false false (B1.inCtx q1.ctx))
      have B3 := visitSs_adds body _ _ (B2.plainS q1) hbody
      have B4 := visitEs_adds decos _ (B2.trans B3).plain hd _ false false ((B2.trans B3).inCtx q1.ctx)
      obtain ⟨c', -, hx, -⟩ := (scoped_block q.plain true none ((B2.trans B3).trans B4) []).popped
      exact DefOk.ofAnnos (fun x hx' => by rw [hx]; exact List.mem_append_right _ hx')
        (DefOk.mono B4 (visitSs_defs body _ _ (B2.plainS q1) hbody d hdd))
  | .functionDef i name args body decos returns isAsync, st, fns, p, hf => by
      cases args with
      | arguments ai po ar va ko kd kw df =>
        have hf0 := hf
        simp only [FragS, Bool.and_eq_true, Bool.not_eq_true'] at hf
        obtain ⟨⟨⟨⟨ha, _⟩, _⟩, _⟩, hbody⟩ := hf
        subst ha
        intro d hd
        simp only [defsS, List.mem_cons] at hd
        rcases hd with hd | hd
        · subst hd
          exact defOk_self i name ai po ar va ko kd kw df body decos returns st fns p hf0
        · obtain ⟨cI, ca, rest, hann, -, -, -, sb, psb, hsub⟩ :=
            functionDef_recorded i name ai po ar va ko kd kw df body decos returns st fns p hf0
          exact DefOk.ofAnnos (fun x hx => by rw [hann]; exact List.mem_cons_of_mem _ (hsub x hx))
            (visitSs_defs body sb _ psb hbody d hd)
      | _ => simp [FragS] at hf
theorem visitSs_defs : (ss : List Stmt) → (st : St) → (fns : List FnCtx) → PlainS st fns → FragSs ss = true →
    ∀ d ∈ defsSs ss, DefOk (visitSs ss st) d
  | [], _, _, _, _ => by simp [defsSs]
  | s :: rest, st, fns, p, hf => by
      simp only [FragSs, Bool.and_eq_true] at hf
      intro d hd
      simp only [defsSs, List.mem_append] at hd
      simp only [visitSs]
      have A1 := visitS_adds s st fns p hf.1
      rcases hd with hd | hd
      · exact DefOk.mono (visitSs_adds rest _ fns (A1.plainS p) hf.2) (visitS_defs s st fns p hf.1 d hd)
      · exact visitSs_defs rest _ fns (A1.plainS p) hf.2 d hd
end


/-! ### the specification side: every block of the tree is in the table -/

mutual
/-- A block and all blocks below it. -/
def allBlocks : Block → List Block
  | .mk id kind name params binds globals nonlocals uses walrus children =>
      .mk id kind name params binds globals nonlocals uses walrus children :: allBlocksL children
def allBlocksL : List Block → List Block
  | [] => []
  | b :: rest => allBlocks b ++ allBlocksL rest
end

theorem mem_allBlocks_self (b : Block) : b ∈ allBlocks b := by
  cases b; simp [allBlocks]

theorem mem_allBlocksL {b c : Block} {bs : List Block} (hc : c ∈ bs) (hb : b ∈ allBlocks c) : b ∈ allBlocksL bs := by
  induction bs with
  | nil => simp at hc
  | cons x r ih =>
    simp only [List.mem_cons] at hc
    simp only [allBlocksL, List.mem_append]
    rcases hc with rfl | hc
    · exact Or.inl hb
    · exact Or.inr (ih hc)

theorem allBlocksL_append (a b : List Block) : allBlocksL (a ++ b) = allBlocksL a ++ allBlocksL b := by
  induction a with
  | nil => simp [allBlocksL]
  | cons x r ih => simp [allBlocksL, ih]

/-- What the table says about a block without named-expression targets (there are none in the fragment),
    whatever is visible from the enclosing blocks. -/
def InfoFacts (b : Block) (info : BlockInfo) : Prop :=
  info.id = b.id ∧
  (∀ x, x ∈ info.params ↔ x ∈ b.params) ∧
  (∀ x, x ∈ info.locals ↔ (x ∈ b.params ∨ x ∈ b.binds) ∧ x ∉ b.globals ∧ x ∉ b.nonlocals) ∧
  (∀ x, x ∈ info.declaredGlobals ↔ x ∈ b.globals) ∧
  (∀ x, x ∈ info.declaredNonlocals ↔ x ∉ b.globals ∧ x ∈ b.nonlocals)

theorem analyzeBlock_info (id : Nat) (kind : BlockKind) (name : String)
    (params binds globals nonlocals uses : List String) (children : List Block) (parent : Nat) (bound eg : List String) :
    ∃ info rest, (analyzeBlock (.mk id kind name params binds globals nonlocals uses [] children) parent bound eg).1 = info :: rest ∧
      InfoFacts (.mk id kind name params binds globals nonlocals uses [] children) info ∧
      rest = (analyzeBlocks children id
        (if kind.functionLike then dedup (((ownNames (.mk id kind name params binds globals nonlocals uses [] [])).filter fun n =>
            scopeOf (.mk id kind name params binds globals nonlocals uses [] []) bound eg n == .local) ++ bound.filter (fun n => !globals.contains n))
         else bound)
        (if kind.isComp then eg else globals)).1 := by
  simp only [analyzeBlock]
  refine ⟨_, _, rfl, ⟨rfl, ?_, ?_, ?_, ?_⟩, rfl⟩
  · intro x
    simp only [BlockInfo.params, BlockInfo.names, List.filter_append, List.map_append, List.mem_append, List.mem_map,
      List.mem_filter, ownNames, dedup, List.mem_eraseDups, Block.params, Block.binds, Block.globals, Block.nonlocals,
      Block.uses, Block.walrus]
    constructor
    · rintro (⟨sy, ⟨⟨n, hn, rfl⟩, hp⟩, rfl⟩ | ⟨sy, ⟨⟨n, hn, rfl⟩, hp⟩, rfl⟩)
      · simpa using hp
      · simp at hp
    · intro hx
      exact Or.inl ⟨_, ⟨⟨x, by simp [hx], rfl⟩, by simpa using hx⟩, rfl⟩
  · intro x
    simp only [BlockInfo.locals, BlockInfo.names, List.filter_append, List.map_append, List.mem_append, List.mem_map,
      List.mem_filter, ownNames, dedup, List.mem_eraseDups, Block.params, Block.binds, Block.globals, Block.nonlocals,
      Block.uses, Block.walrus, scopeOf]
    constructor
    · rintro (⟨sy, ⟨⟨n, hn, rfl⟩, hp⟩, rfl⟩ | ⟨sy, ⟨⟨n, hn, rfl⟩, hp⟩, rfl⟩)
      · simp only at hp ⊢
        by_cases h1 : n ∈ globals <;> by_cases h3 : n ∈ nonlocals <;>
          by_cases h4 : n ∈ params <;> by_cases h5 : n ∈ binds <;> by_cases h6 : n ∈ bound <;> simp_all
      · simp at hp
    · rintro ⟨hpb, hg, hn⟩
      refine Or.inl ⟨_, ⟨⟨x, by rcases hpb with h | h <;> simp [h], rfl⟩, ?_⟩, rfl⟩
      rcases hpb with h | h <;> simp [hg, hn, h]
  · intro x
    simp only [BlockInfo.declaredGlobals, BlockInfo.names, List.filter_append, List.map_append, List.mem_append, List.mem_map,
      List.mem_filter, ownNames, dedup, List.mem_eraseDups, Block.params, Block.binds, Block.globals, Block.nonlocals,
      Block.uses, Block.walrus, scopeOf]
    constructor
    · rintro (⟨sy, ⟨⟨n, hn, rfl⟩, hp⟩, rfl⟩ | ⟨sy, ⟨⟨n, hn, rfl⟩, hp⟩, rfl⟩)
      · simp only at hp ⊢
        by_cases h1 : n ∈ globals <;> by_cases h3 : n ∈ nonlocals <;>
          by_cases h4 : n ∈ params <;> by_cases h5 : n ∈ binds <;> by_cases h6 : n ∈ bound <;> simp_all
      · simp at hp
    · intro hx
      exact Or.inl ⟨_, ⟨⟨x, by simp [hx], rfl⟩, by simp [hx]⟩, rfl⟩
  · intro x
    simp only [BlockInfo.declaredNonlocals, BlockInfo.names, List.filter_append, List.map_append, List.mem_append, List.mem_map,
      List.mem_filter, ownNames, dedup, List.mem_eraseDups, Block.params, Block.binds, Block.globals, Block.nonlocals,
      Block.uses, Block.walrus, scopeOf]
    constructor
    · rintro (⟨sy, ⟨⟨n, hn, rfl⟩, hp⟩, rfl⟩ | ⟨sy, ⟨⟨n, hn, rfl⟩, hp⟩, rfl⟩)
      · simp only at hp ⊢
        by_cases h1 : n ∈ globals <;> by_cases h3 : n ∈ nonlocals <;>
          by_cases h4 : n ∈ params <;> by_cases h5 : n ∈ binds <;> by_cases h6 : n ∈ bound <;> simp_all
      · simp at hp
    · rintro ⟨hg, hn⟩
      refine Or.inl ⟨_, ⟨⟨x, by simp [hn], rfl⟩, ?_⟩, rfl⟩
      simp [hg, hn]


mutual
theorem table_all : (b : Block) → (parent : Nat) → (bound eg : List String) →
    (∀ b' ∈ allBlocks b, b'.walrus = []) →
    ∀ b' ∈ allBlocks b, ∃ info ∈ (analyzeBlock b parent bound eg).1, InfoFacts b' info
  | .mk id kind name params binds globals nonlocals uses walrus children, parent, bound, eg, hw => by
      have hw0 : walrus = [] := hw _ (mem_allBlocks_self _)
      subst hw0
      obtain ⟨info, rest, he, hfacts, hrest⟩ := analyzeBlock_info id kind name params binds globals nonlocals uses children parent bound eg
      intro b' hb'
      simp only [allBlocks, List.mem_cons] at hb'
      rw [he]
      rcases hb' with rfl | hb'
      · exact ⟨info, List.mem_cons_self, hfacts⟩
      · obtain ⟨i2, hi2, hf2⟩ := table_allL children id _ _
          (fun b'' hb'' => hw b'' (by simp only [allBlocks, List.mem_cons]; exact Or.inr hb'')) b' hb'
        exact ⟨i2, List.mem_cons_of_mem _ (by rw [hrest]; exact hi2), hf2⟩
theorem table_allL : (bs : List Block) → (parent : Nat) → (bound eg : List String) →
    (∀ b' ∈ allBlocksL bs, b'.walrus = []) →
    ∀ b' ∈ allBlocksL bs, ∃ info ∈ (analyzeBlocks bs parent bound eg).1, InfoFacts b' info
  | [], _, _, _, _ => by simp [allBlocksL]
  | b :: rest, parent, bound, eg, hw => by
      intro b' hb'
      simp only [allBlocksL, List.mem_append] at hb'
      simp only [analyzeBlocks]
      rcases hb' with hb' | hb'
      · obtain ⟨i, hi, hf⟩ := table_all b parent bound eg
          (fun b'' hb'' => hw b'' (by simp only [allBlocksL, List.mem_append]; exact Or.inl hb'')) b' hb'
        exact ⟨i, List.mem_append_left _ hi, hf⟩
      · obtain ⟨i, hi, hf⟩ := table_allL rest parent bound eg
          (fun b'' hb'' => hw b'' (by simp only [allBlocksL, List.mem_append]; exact Or.inr hb'')) b' hb'
        exact ⟨i, List.mem_append_right _ hi, hf⟩
end


/-! ### the blocks collected for a fragment program -/

/-- The collection step from `a` to `a'` only appends blocks, all of them (and all below them) free of
    named-expression targets; `D` are blocks that are among them. -/
structure NewBlocks (a a' : Acc) (D : List Block) : Prop where
  ext : ∃ new, a'.children = a.children ++ new ∧ (∀ b ∈ allBlocksL new, b.walrus = []) ∧ (∀ b ∈ D, b ∈ allBlocksL new)

theorem NewBlocks.refl (a : Acc) : NewBlocks a a [] := ⟨⟨[], by simp, by simp [allBlocksL], by simp⟩⟩

theorem NewBlocks.trans {a b c : Acc} {D1 D2 : List Block} (h1 : NewBlocks a b D1) (h2 : NewBlocks b c D2) :
    NewBlocks a c (D1 ++ D2) := by
  obtain ⟨n1, e1, w1, d1⟩ := h1.ext
  obtain ⟨n2, e2, w2, d2⟩ := h2.ext
  refine ⟨⟨n1 ++ n2, by rw [e2, e1, List.append_assoc], ?_, ?_⟩⟩
  · intro b hb
    rw [allBlocksL_append, List.mem_append] at hb
    rcases hb with hb | hb
    · exact w1 b hb
    · exact w2 b hb
  · intro b hb
    rw [allBlocksL_append, List.mem_append]
    simp only [List.mem_append] at hb
    rcases hb with hb | hb
    · exact Or.inl (d1 b hb)
    · exact Or.inr (d2 b hb)

theorem NewBlocks.weaken {a a' : Acc} {D D' : List Block} (h : NewBlocks a a' D) (hs : ∀ b ∈ D', b ∈ D) : NewBlocks a a' D' := by
  obtain ⟨n, e, w, d⟩ := h.ext
  exact ⟨⟨n, e, w, fun b hb => d b (hs b hb)⟩⟩

/-- Adding one block whose own `walrus` is empty and whose children are new blocks of an inner collection. -/
theorem NewBlocks.child {a a' : Acc} {D : List Block} (h : NewBlocks a a' D) (inner0 inner : Acc) (DI : List Block)
    (hi : NewBlocks inner0 inner DI) (h0 : inner0.children = []) (hw : inner.walrus = [])
    (id : Nat) (kind : BlockKind) (name : String) :
    NewBlocks a (a'.child (inner.toBlock id kind name)) (inner.toBlock id kind name :: (D ++ DI)) := by
  obtain ⟨n, e, w, d⟩ := h.ext
  obtain ⟨ni, ei, wi, di⟩ := hi.ext
  rw [h0, List.nil_append] at ei
  have hall : allBlocks (inner.toBlock id kind name) = inner.toBlock id kind name :: allBlocksL ni := by
    simp [Acc.toBlock, allBlocks, ei]
  refine ⟨⟨n ++ [inner.toBlock id kind name], by simp [Acc.child, e], ?_, ?_⟩⟩
  · intro b hb
    rw [allBlocksL_append, List.mem_append] at hb
    rcases hb with hb | hb
    · exact w b hb
    · simp only [allBlocksL, List.append_nil, hall, List.mem_cons] at hb
      rcases hb with rfl | hb
      · simpa [Acc.toBlock, Block.walrus] using hw
      · exact wi b hb
  · intro b hb
    rw [allBlocksL_append, List.mem_append]
    simp only [List.mem_cons, List.mem_append] at hb
    rcases hb with rfl | hb | hb
    · right; simp [allBlocksL, hall]
    · exact Or.inl (d b hb)
    · right; simp only [allBlocksL, List.append_nil, hall, List.mem_cons]; exact Or.inr (di b hb)

mutual
theorem collectE_blocks : (e : Expr) → FragE e = true → (a : Acc) → NewBlocks a (collectE false e a) []
  | .name _ s c, _, a => by
      cases c <;> exact ⟨⟨[], by simp [collectE, Acc.use, Acc.bind], by simp [allBlocksL], by simp⟩⟩
  | .const .., _, a => by simpa [collectE] using NewBlocks.refl a
  | .noneMarker, _, a => by simpa [collectE] using NewBlocks.refl a
  | .attr _ v _ _, hf, a => by
      simp only [FragE] at hf
      simpa [collectE] using collectE_blocks v hf a
  | .subscript _ v s _, hf, a => by
      simp only [FragE, Bool.and_eq_true] at hf
      simpa [collectE] using (collectE_blocks v hf.1 a).trans (collectE_blocks s hf.2 _)
  | .call _ f as ks, hf, a => by
      simp only [FragE, Bool.and_eq_true] at hf
      simpa [collectE] using ((collectE_blocks f hf.1.1 a).trans (collectEs_blocks as hf.1.2 _)).trans (collectEs_blocks ks hf.2 _)
  | .keyword _ _ _ v, hf, a => by
      simp only [FragE] at hf
      simpa [collectE] using collectE_blocks v hf a
  | .boolop _ _ vs, hf, a => by
      simp only [FragE] at hf
      simpa [collectE] using collectEs_blocks vs hf a
  | .unary _ _ v, hf, a => by
      simp only [FragE] at hf
      simpa [collectE] using collectE_blocks v hf a
  | .binop _ _ l r, hf, a => by
      simp only [FragE, Bool.and_eq_true] at hf
      simpa [collectE] using (collectE_blocks l hf.1 a).trans (collectE_blocks r hf.2 _)
  | .compare _ l _ cs, hf, a => by
      simp only [FragE, Bool.and_eq_true] at hf
      simpa [collectE] using (collectE_blocks l hf.1 a).trans (collectEs_blocks cs hf.2 _)
  | .ifexp _ t b o, hf, a => by
      simp only [FragE, Bool.and_eq_true] at hf
      simpa [collectE] using ((collectE_blocks t hf.1.1 a).trans (collectE_blocks b hf.1.2 _)).trans (collectE_blocks o hf.2 _)
  | .lambda i args body, hf, a => by
      cases args with
      | arguments ai po ar va ko kd kw df =>
        simp only [FragE, Bool.and_eq_true] at hf
        have h1 := (collectEs_blocks df hf.1.2 a).trans (collectEs_blocks kd hf.1.1.2 _)
        have hb := collectE_blocks body hf.2 { params := (po ++ ar ++ ko ++ va ++ kw).filterMap paramName }
        have hw := (collectE_spec body hf.2 { params := (po ++ ar ++ ko ++ va ++ kw).filterMap paramName }).walrus
        simp only [collectE]
        exact (h1.child _ _ [] hb rfl hw i .lambda "lambda").weaken (by simp)
      | _ => simp [FragE] at hf
  | .seq _ _ es _, hf, a => by
      simp only [FragE] at hf
      simpa [collectE] using collectEs_blocks es hf a
  | .starred _ v _, hf, a => by
      simp only [FragE] at hf
      simpa [collectE] using collectE_blocks v hf a
  | .namedexpr _ t v, hf, a => by
      simp only [FragE, Bool.and_eq_true] at hf
      simpa [collectE] using (collectE_blocks t hf.1 a).trans (collectE_blocks v hf.2 _)
  | .comp .., hf, _ => by simp [FragE] at hf
  | .comprehension .., hf, _ => by simp [FragE] at hf
  | .arguments .., hf, _ => by simp [FragE] at hf
  | .arg .., hf, _ => by simp [FragE] at hf
  | .withitem _ c v, hf, a => by
      simp only [FragE, Bool.and_eq_true] at hf
      simpa [collectE] using (collectE_blocks c hf.1 a).trans (collectEs_blocks v hf.2 _)
  | .other _ _ _ kids, hf, a => by
      simp only [FragE] at hf
      simpa [collectE] using collectEs_blocks kids hf a
theorem collectEs_blocks : (es : List Expr) → FragEs es = true → (a : Acc) → NewBlocks a (collectEs false es a) []
  | [], _, a => by simpa [collectEs] using NewBlocks.refl a
  | e :: rest, hf, a => by
      simp only [FragEs, Bool.and_eq_true] at hf
      simpa [collectEs] using (collectE_blocks e hf.1 a).trans (collectEs_blocks rest hf.2 _)
end


/-- The specification's block of a function definition. -/
def mkDefBlock : Stmt → Block
  | .functionDef i name (.arguments _ po ar va ko _ kw _) body _ _ _ =>
      (collectSs body { params := (po ++ ar ++ ko ++ va ++ kw).filterMap paramName }).toBlock i .function name
  | _ => default

theorem NewBlocks.ofChildrenEq {a a' : Acc} (h : a'.children = a.children) : NewBlocks a a' [] :=
  ⟨⟨[], by simp [h], by simp [allBlocksL], by simp⟩⟩

mutual
theorem collectS_blocks : (s : Stmt) → FragS s = true → SpecOkS s = true → (a : Acc) →
    NewBlocks a (collectS s a) ((defsS s).map mkDefBlock)
  | .ret _ v, hf, _, a => by
      simp only [FragS] at hf
      simpa [collectS, defsS] using collectEs_blocks v hf a
  | .delete _ ts, hf, _, a => by
      simp only [FragS] at hf
      simpa [collectS, defsS] using collectEs_blocks ts hf a
  | .expr _ v, hf, _, a => by
      simp only [FragS] at hf
      simpa [collectS, defsS] using collectE_blocks v hf a
  | .assign _ ts v, hf, _, a => by
      simp only [FragS, Bool.and_eq_true] at hf
      simpa [collectS, defsS] using (collectEs_blocks ts hf.1 a).trans (collectE_blocks v hf.2 _)
  | .augAssign _ t _ v, hf, _, a => by
      simp only [FragS, Bool.and_eq_true] at hf
      simpa [collectS, defsS] using (collectE_blocks t hf.1 a).trans (collectE_blocks v hf.2 _)
  | .raise _ e c, hf, _, a => by
      simp only [FragS, Bool.and_eq_true] at hf
      simpa [collectS, defsS] using (collectEs_blocks e hf.1 a).trans (collectEs_blocks c hf.2 _)
  | .assert_ _ t m, hf, _, a => by
      simp only [FragS, Bool.and_eq_true] at hf
      simpa [collectS, defsS] using (collectE_blocks t hf.1 a).trans (collectEs_blocks m hf.2 _)
  | .annAssign _ t an v simple, hf, _, a => by
      simp only [FragS, Bool.and_eq_true] at hf
      simp only [collectS, defsS, List.map_nil]
      have hrest : ∀ a0 : Acc, NewBlocks a0 (collectEs false v (collectE false an a0)) [] :=
        fun a0 => by simpa using (collectE_blocks an hf.1.2 a0).trans (collectEs_blocks v hf.2 _)
      cases t with
      | name i n c =>
        simp only
        split
        · have hb : NewBlocks a (a.bind n) [] := NewBlocks.ofChildrenEq rfl
          simpa using hb.trans (hrest _)
        · exact hrest _
      | _ => simpa using (collectE_blocks _ hf.1.1 a).trans (hrest _)
  | .import_ _ names, _, _, a => by
      simp only [collectS, defsS, List.map_nil]
      exact NewBlocks.ofChildrenEq (foldl_bind _ a).2.2.2.2.2
  | .importFrom _ _ names _, _, _, a => by
      simp only [collectS, defsS, List.map_nil]
      exact NewBlocks.ofChildrenEq (foldl_bind _ a).2.2.2.2.2
  | .global _ names, _, _, a => by
      simp only [collectS, defsS, List.map_nil]
      exact NewBlocks.ofChildrenEq rfl
  | .nonlocal _ names, _, _, a => by
      simp only [collectS, defsS, List.map_nil]
      exact NewBlocks.ofChildrenEq rfl
  | .pass _, _, _, a => by simpa [collectS, defsS] using NewBlocks.refl a
  | .break_ _, _, _, a => by simpa [collectS, defsS] using NewBlocks.refl a
  | .continue_ _, _, _, a => by simpa [collectS, defsS] using NewBlocks.refl a
  | .other _ _ es bs, hf, hs, a => by
      simp only [FragS, Bool.and_eq_true] at hf
      simp only [SpecOkS] at hs
      simpa [collectS, defsS] using (collectEs_blocks es hf.1 a).trans (collectSs_blocks bs hf.2 hs _)
  | .try_ _ b h o f, hf, hs, a => by
      simp only [FragS, Bool.and_eq_true] at hf
      simp only [SpecOkS, Bool.and_eq_true] at hs
      simpa [collectS, defsS] using
        (((collectSs_blocks b hf.1.1.1 hs.1.1.1 a).trans (collectSs_blocks h hf.1.1.2 hs.1.1.2 _)).trans
          (collectSs_blocks o hf.1.2 hs.1.2 _)).trans (collectSs_blocks f hf.2 hs.2 _)
  | .handler _ ty name body, hf, hs, a => by
      simp only [FragS, Bool.and_eq_true] at hf
      simp only [SpecOkS, Bool.and_eq_true, List.isEmpty_iff] at hs
      obtain ⟨hn, hb⟩ := hs
      subst hn
      simpa [collectS, defsS] using (collectEs_blocks ty hf.1 a).trans (collectSs_blocks body hf.2 hb _)
  | .with_ _ items body _, hf, hs, a => by
      simp only [FragS, Bool.and_eq_true] at hf
      simp only [SpecOkS] at hs
      simpa [collectS, defsS] using (collectEs_blocks items hf.1.1.2 a).trans (collectSs_blocks body hf.2 hs _)
  | .if_ _ t body orelse, hf, hs, a => by
      simp only [FragS, Bool.and_eq_true] at hf
      simp only [SpecOkS, Bool.and_eq_true] at hs
      simpa [collectS, defsS] using
        ((collectE_blocks t hf.1.1 a).trans (collectSs_blocks body hf.1.2 hs.1 _)).trans (collectSs_blocks orelse hf.2 hs.2 _)
  | .while_ _ t body orelse, hf, hs, a => by
      simp only [FragS, Bool.and_eq_true] at hf
      simp only [SpecOkS, Bool.and_eq_true] at hs
      simpa [collectS, defsS] using
        ((collectE_blocks t hf.1.1 a).trans (collectSs_blocks body hf.1.2 hs.1 _)).trans (collectSs_blocks orelse hf.2 hs.2 _)
  | .for_ _ t it body orelse extra _, hf, hs, a => by
      simp only [FragS, Bool.and_eq_true, List.isEmpty_iff] at hf
      obtain ⟨⟨⟨⟨⟨_, hx⟩, ht⟩, hit⟩, hb⟩, ho⟩ := hf
      subst hx
      simp only [SpecOkS, Bool.and_eq_true] at hs
      simpa [collectS, collectEs, defsS] using
        (((collectE_blocks t ht a).trans (collectE_blocks it hit _)).trans (collectSs_blocks body hb hs.1 _)).trans
          (collectSs_blocks orelse ho hs.2 _)
  | .classDef i name bases kws body decos, hf, hs, a => by
      simp only [FragS, Bool.and_eq_true] at hf
      obtain ⟨⟨⟨hb, hk⟩, hd⟩, hbody⟩ := hf
      simp only [SpecOkS] at hs
      have hn : NewBlocks a (a.bind name) [] := NewBlocks.ofChildrenEq rfl
      have h1 := ((hn.trans (collectEs_blocks bases hb _)).trans (collectEs_blocks kws hk _)).trans (collectEs_blocks decos hd _)
      have hB := collectSs_blocks body hbody hs {}
      have hw := (collectSs_spec body hbody hs {}).walrus
      simp only [collectS, defsS]
      exact (h1.child _ _ _ hB rfl hw i .class_ name).weaken (by intro b hb; simp at hb ⊢; exact Or.inr hb)
  | .functionDef i name args body decos returns isAsync, hf, hs, a => by
      cases args with
      | arguments ai po ar va ko kd kw df =>
        simp only [FragS, Bool.and_eq_true, Bool.not_eq_true'] at hf
        obtain ⟨⟨⟨⟨_, ⟨⟨⟨⟨⟨⟨hpo, har⟩, hva⟩, hko⟩, hkw⟩, hkd⟩, hdf⟩⟩, hdec⟩, hret⟩, hbody⟩ := hf
        simp only [SpecOkS] at hs
        have hann : Spec.argAnnotations (po ++ ar ++ va ++ ko ++ kw) = [] :=
          argAnnotations_plain _ (by simp [List.all_append, hpo, har, hva, hko, hkw])
        have hn : NewBlocks a (a.bind name) [] := NewBlocks.ofChildrenEq rfl
        have h1 := (((hn.trans (collectEs_blocks df hdf _)).trans (collectEs_blocks kd hkd _)).trans
          (collectEs_blocks returns hret _)).trans (collectEs_blocks decos hdec _)
        have hB := collectSs_blocks body hbody hs { params := (po ++ ar ++ ko ++ va ++ kw).filterMap paramName }
        have hw := (collectSs_spec body hbody hs { params := (po ++ ar ++ ko ++ va ++ kw).filterMap paramName }).walrus
        simp only [collectS, defsS, hann, collectEs, List.map_cons, mkDefBlock]
        exact (h1.child _ _ _ hB rfl hw i .function name).weaken (by intro b hb; simpa using hb)
      | _ => simp [FragS] at hf
theorem collectSs_blocks : (ss : List Stmt) → FragSs ss = true → SpecOkSs ss = true → (a : Acc) →
    NewBlocks a (collectSs ss a) ((defsSs ss).map mkDefBlock)
  | [], _, _, a => by simpa [collectSs, defsSs] using NewBlocks.refl a
  | s :: rest, hf, hs, a => by
      simp only [FragSs, Bool.and_eq_true] at hf
      simp only [SpecOkSs, Bool.and_eq_true] at hs
      simpa [collectSs, defsSs] using (collectS_blocks s hf.1 hs.1 a).trans (collectSs_blocks rest hf.2 hs.2 _)
end


/-! ### no harmful leak anywhere below -/

mutual
theorem leakFree_all : (b : Block) → (enc : List String) → leaksB enc b = [] →
    ∀ b' ∈ allBlocks b, b'.kind.isComp = false →
      leaksBs (b'.params ++ b'.binds ++ b'.globals ++ b'.nonlocals) b'.children = []
  | .mk id kind name params binds globals nonlocals uses walrus children, enc, h => by
      simp only [leaksB, List.append_eq_nil_iff] at h
      intro b' hb' hk
      simp only [allBlocks, List.mem_cons] at hb'
      rcases hb' with rfl | hb'
      · simp only [Block.kind] at hk
        simpa [Block.params, Block.binds, Block.globals, Block.nonlocals, Block.children, hk] using h.2
      · exact leakFree_allL children _ h.2 b' hb' hk
theorem leakFree_allL : (bs : List Block) → (enc : List String) → leaksBs enc bs = [] →
    ∀ b' ∈ allBlocksL bs, b'.kind.isComp = false →
      leaksBs (b'.params ++ b'.binds ++ b'.globals ++ b'.nonlocals) b'.children = []
  | [], _, _ => by simp [allBlocksL]
  | b :: rest, enc, h => by
      simp only [leaksBs, List.append_eq_nil_iff] at h
      intro b' hb' hk
      simp only [allBlocksL, List.mem_append] at hb'
      rcases hb' with hb' | hb'
      · exact leakFree_all b enc h.1 b' hb' hk
      · exact leakFree_allL rest enc h.2 b' hb' hk
end


mutual
theorem disj_all : (b : Block) → disjB b = true → ∀ b' ∈ allBlocks b, ∀ x, ¬ (x ∈ b'.globals ∧ x ∈ b'.nonlocals)
  | .mk id kind name params binds globals nonlocals uses walrus children, h => by
      simp only [disjB, Bool.and_eq_true, List.all_eq_true] at h
      intro b' hb' x hx
      simp only [allBlocks, List.mem_cons] at hb'
      rcases hb' with rfl | hb'
      · have := h.1 x hx.1
        simp [Block.nonlocals] at this hx
        exact this hx.2
      · exact disj_allL children h.2 b' hb' x hx
theorem disj_allL : (bs : List Block) → disjBs bs = true → ∀ b' ∈ allBlocksL bs, ∀ x, ¬ (x ∈ b'.globals ∧ x ∈ b'.nonlocals)
  | [], _ => by simp [allBlocksL]
  | b :: rest, h => by
      simp only [disjBs, Bool.and_eq_true] at h
      intro b' hb' x hx
      simp only [allBlocksL, List.mem_append] at hb'
      rcases hb' with hb' | hb'
      · exact disj_all b h.1 b' hb' x hx
      · exact disj_allL rest h.2 b' hb' x hx
end

mutual
/-- The function definitions of a fragment tree are themselves in the fragment. -/
theorem defsS_frag : (s : Stmt) → FragS s = true → SpecOkS s = true → ∀ d ∈ defsS s, FragS d = true ∧ SpecOkS d = true
  | .functionDef i name args body decos returns isAsync, hf, hs => by
      intro d hd
      simp only [defsS, List.mem_cons] at hd
      rcases hd with rfl | hd
      · exact ⟨hf, hs⟩
      · simp only [FragS, Bool.and_eq_true] at hf
        simp only [SpecOkS] at hs
        exact defsSs_frag body hf.2 hs d hd
  | .classDef _ _ _ _ body _, hf, hs => by
      simp only [FragS, Bool.and_eq_true] at hf
      simp only [SpecOkS] at hs
      simpa [defsS] using defsSs_frag body hf.2 hs
  | .for_ _ _ _ body orelse _ _, hf, hs => by
      simp only [FragS, Bool.and_eq_true] at hf
      simp only [SpecOkS, Bool.and_eq_true] at hs
      intro d hd
      simp only [defsS, List.mem_append] at hd
      rcases hd with hd | hd
      · exact defsSs_frag body hf.1.2 hs.1 d hd
      · exact defsSs_frag orelse hf.2 hs.2 d hd
  | .while_ _ _ body orelse, hf, hs => by
      simp only [FragS, Bool.and_eq_true] at hf
      simp only [SpecOkS, Bool.and_eq_true] at hs
      intro d hd
      simp only [defsS, List.mem_append] at hd
      rcases hd with hd | hd
      · exact defsSs_frag body hf.1.2 hs.1 d hd
      · exact defsSs_frag orelse hf.2 hs.2 d hd
  | .if_ _ _ body orelse, hf, hs => by
      simp only [FragS, Bool.and_eq_true] at hf
      simp only [SpecOkS, Bool.and_eq_true] at hs
      intro d hd
      simp only [defsS, List.mem_append] at hd
      rcases hd with hd | hd
      · exact defsSs_frag body hf.1.2 hs.1 d hd
      · exact defsSs_frag orelse hf.2 hs.2 d hd
  | .with_ _ _ body _, hf, hs => by
      simp only [FragS, Bool.and_eq_true] at hf
      simp only [SpecOkS] at hs
      simpa [defsS] using defsSs_frag body hf.2 hs
  | .try_ _ b h o f, hf, hs => by
      simp only [FragS, Bool.and_eq_true] at hf
      simp only [SpecOkS, Bool.and_eq_true] at hs
      intro d hd
      simp only [defsS, List.mem_append] at hd
      rcases hd with ((hd | hd) | hd) | hd
      · exact defsSs_frag b hf.1.1.1 hs.1.1.1 d hd
      · exact defsSs_frag h hf.1.1.2 hs.1.1.2 d hd
      · exact defsSs_frag o hf.1.2 hs.1.2 d hd
      · exact defsSs_frag f hf.2 hs.2 d hd
  | .handler _ _ _ body, hf, hs => by
      simp only [FragS, Bool.and_eq_true] at hf
      simp only [SpecOkS, Bool.and_eq_true] at hs
      simpa [defsS] using defsSs_frag body hf.2 hs.2
  | .other _ _ _ bs, hf, hs => by
      simp only [FragS, Bool.and_eq_true] at hf
      simp only [SpecOkS] at hs
      simpa [defsS] using defsSs_frag bs hf.2 hs
  | .ret .., _, _ | .delete .., _, _ | .assign .., _, _ | .augAssign .., _, _ | .annAssign .., _, _ | .raise .., _, _
  | .assert_ .., _, _ | .import_ .., _, _ | .importFrom .., _, _ | .global .., _, _ | .nonlocal .., _, _ | .expr .., _, _
  | .pass _, _, _ | .break_ _, _, _ | .continue_ _, _, _ => by simp [defsS]
theorem defsSs_frag : (ss : List Stmt) → FragSs ss = true → SpecOkSs ss = true → ∀ d ∈ defsSs ss, FragS d = true ∧ SpecOkS d = true
  | [], _, _ => by simp [defsSs]
  | s :: rest, hf, hs => by
      simp only [FragSs, Bool.and_eq_true] at hf
      simp only [SpecOkSs, Bool.and_eq_true] at hs
      intro d hd
      simp only [defsSs, List.mem_append] at hd
      rcases hd with hd | hd
      · exact defsS_frag s hf.1 hs.1 d hd
      · exact defsSs_frag rest hf.2 hs.2 d hd
end


/-- The sets recorded by the analysis for a function definition and those of its block in the table coincide,
    when the block is free of harmful leaks and does not declare a name both global and nonlocal. -/
theorem def_matches (i : Nat) (name : String) (ai : Nat) (po ar va ko kd kw df : List Expr) (body : List Stmt)
    (decos returns : List Expr) (isAsync : Bool)
    (hfb : FragSs body = true) (hsb : SpecOkSs body = true) (cI ca : Scope)
    (hb : ∀ x, QN.sym x ∈ cI.bound ↔ x ∈ paramStrs po ar va ko kw ∨ x ∈ ownBindsSs body ∨ x ∈ ownDeclsSs false body ∨ x ∈ ownLeaksSs body)
    (hg : ∀ x, QN.sym x ∈ cI.globals ↔ x ∈ ownDeclsSs true body)
    (hn : ∀ x, QN.sym x ∈ cI.nonlocals ↔ x ∈ ownDeclsSs false body)
    (hp : ∀ x, QN.sym x ∈ ca.paramNames ↔ x ∈ paramStrs po ar va ko kw)
    (info : BlockInfo)
    (hinfo : InfoFacts (mkDefBlock (.functionDef i name (.arguments ai po ar va ko kd kw df) body decos returns isAsync)) info)
    (hleak : leaksBs ((mkDefBlock (.functionDef i name (.arguments ai po ar va ko kd kw df) body decos returns isAsync)).params ++
               (mkDefBlock (.functionDef i name (.arguments ai po ar va ko kd kw df) body decos returns isAsync)).binds ++
               (mkDefBlock (.functionDef i name (.arguments ai po ar va ko kd kw df) body decos returns isAsync)).globals ++
               (mkDefBlock (.functionDef i name (.arguments ai po ar va ko kd kw df) body decos returns isAsync)).nonlocals)
             (mkDefBlock (.functionDef i name (.arguments ai po ar va ko kd kw df) body decos returns isAsync)).children = [])
    (hdisj : ∀ x, ¬ (x ∈ (mkDefBlock (.functionDef i name (.arguments ai po ar va ko kd kw df) body decos returns isAsync)).globals ∧
                     x ∈ (mkDefBlock (.functionDef i name (.arguments ai po ar va ko kd kw df) body decos returns isAsync)).nonlocals)) :
    info.id = i ∧
    (∀ x, x ∈ ca.paramNames.names ↔ x ∈ info.params) ∧
    (∀ x, (x ∈ cI.bound.names ∧ x ∉ cI.globals.names ∧ x ∉ cI.nonlocals.names) ↔ x ∈ info.locals) ∧
    (∀ x, x ∈ cI.globals.names ↔ x ∈ info.declaredGlobals) ∧
    (∀ x, x ∈ cI.nonlocals.names ↔ x ∈ info.declaredNonlocals) := by
  have hC := collectSs_spec body hfb hsb { params := (po ++ ar ++ ko ++ va ++ kw).filterMap paramName }
  obtain ⟨new, hnew, hcov⟩ := hC.children
  simp only [mkDefBlock, Acc.toBlock, Block.params, Block.binds, Block.globals, Block.nonlocals, Block.children] at hleak hdisj
  obtain ⟨hid, hip, hil, hig, hin⟩ := hinfo
  simp only [mkDefBlock, Acc.toBlock, Block.params, Block.binds, Block.globals, Block.nonlocals, Block.id] at hid hip hil hig hin
  have hP : ∀ x, x ∈ (collectSs body { params := (po ++ ar ++ ko ++ va ++ kw).filterMap paramName }).params ↔
      x ∈ paramStrs po ar va ko kw := by
    intro x; rw [hC.params]; exact mem_specParams_iff po ar va ko kw x
  have hB : ∀ x, x ∈ (collectSs body { params := (po ++ ar ++ ko ++ va ++ kw).filterMap paramName }).binds ↔ x ∈ ownBindsSs body := by
    intro x; rw [hC.binds]; simp [show ({ params := (po ++ ar ++ ko ++ va ++ kw).filterMap paramName } : Acc).binds = [] from rfl]
  have hG : ∀ x, x ∈ (collectSs body { params := (po ++ ar ++ ko ++ va ++ kw).filterMap paramName }).globals ↔ x ∈ ownDeclsSs true body := by
    intro x; rw [hC.globals]; simp [show ({ params := (po ++ ar ++ ko ++ va ++ kw).filterMap paramName } : Acc).globals = [] from rfl]
  have hN : ∀ x, x ∈ (collectSs body { params := (po ++ ar ++ ko ++ va ++ kw).filterMap paramName }).nonlocals ↔ x ∈ ownDeclsSs false body := by
    intro x; rw [hC.nonlocals]; simp [show ({ params := (po ++ ar ++ ko ++ va ++ kw).filterMap paramName } : Acc).nonlocals = [] from rfl]
  have hL : ∀ x, x ∈ ownLeaksSs body → x ∈ paramStrs po ar va ko kw ∨ x ∈ ownBindsSs body ∨ x ∈ ownDeclsSs true body ∨ x ∈ ownDeclsSs false body := by
    intro x hx
    by_cases hdec : x ∈ (collectSs body { params := (po ++ ar ++ ko ++ va ++ kw).filterMap paramName }).params ++
        (collectSs body { params := (po ++ ar ++ ko ++ va ++ kw).filterMap paramName }).binds ++
        (collectSs body { params := (po ++ ar ++ ko ++ va ++ kw).filterMap paramName }).globals ++
        (collectSs body { params := (po ++ ar ++ ko ++ va ++ kw).filterMap paramName }).nonlocals
    · simp only [List.mem_append, hP, hB, hG, hN] at hdec
      grind
    · exfalso
      have hmem := hcov _ x hx hdec
      rw [hnew] at hleak
      simp only [List.nil_append] at hleak
      rw [hleak] at hmem
      simp at hmem
  have hdisj' : ∀ x, ¬ (x ∈ ownDeclsSs true body ∧ x ∈ ownDeclsSs false body) := by
    intro x ⟨h1, h2⟩
    exact hdisj x ⟨(hG x).mpr h1, (hN x).mpr h2⟩
  refine ⟨hid, ?_, ?_, ?_, ?_⟩
  · intro x
    simp only [QSet.mem_names, hip, hP, hp]
  · intro x
    simp only [QSet.mem_names, hil, hP, hB, hG, hN, hb, hg, hn]
    have := hL x
    grind
  · intro x
    simp only [QSet.mem_names, hig, hG, hg]
  · intro x
    simp only [QSet.mem_names, hin, hG, hN, hn]
    have := hdisj' x
    grind

end Malt.Analysis
