import MaltModel.Proofs.C10Inv
/-!
C10, part 3: the interleaved system refines the atomic specification "lookup-or-convert"
(`Malt.Cache.Spec`), for histories in which distinct code objects have distinct values.

Linearisation points: a request that converts takes effect when it stores the factory (`st2`); a
request that finds the factory (lock-free or under the lock) takes effect when it returns (`inst`);
a request whose conversion raises takes effect when it leaves the critical section (`rel none`).
-/
namespace Malt.Cache
open Spec

section
variable {Opts Factory : Type} [BEq Opts] [Hashable Opts] [LawfulBEq Opts]

/-- The request in progress has already taken effect in the specification. -/
def linearised : Pc Factory → Option Factory
  | .rel (some f) true => some f
  | .inst f true => some f
  | _ => none

def absThread (th : Thread Opts Factory) : SThread Opts Factory :=
  match linearised th.pc, th.todo with
  | some f, r :: rest => { todo := rest, results := th.results ++ [(r, some f)] }
  | _, _ => { todo := th.todo, results := th.results }

/-- The abstraction function. -/
def abs (P : List (Request Opts)) (s : State Opts Factory) : SState Opts Factory :=
  { table := fun c o => if c ∈ codes P then table s c o else none,
    threads := s.threads.map absThread }

/-- Which atomic step of the specification an implementation step corresponds to (none = stutter). -/
def lin (s : State Opts Factory) : Label → Option SLabel
  | .gc c => if live s c then none else some (.gc c)
  | .thr t =>
    match s.threads[t]? with
    | none => none
    | some th =>
      match th.todo, th.pc with
      | _ :: _, .st2 _ _ => some (.serve t)
      | _ :: _, .inst _ false => some (.serve t)
      | _ :: _, .rel none _ => some (.serve t)
      | _, _ => none

def sstepOpt (T : Code → Opts → Nat → Option Factory) (σ : SState Opts Factory) : Option SLabel → SState Opts Factory
  | none => σ
  | some l => sstep T σ l

variable (T : Code → Opts → Nat → Option Factory) (P : List (Request Opts))

/-- Distinct keys of the outer dictionary own distinct bucket objects. -/
def Inj (s : State Opts Factory) : Prop :=
  ∀ e ∈ s.outer, ∀ e' ∈ s.outer, e.2 = e'.2 → e.1 = e'.1

/-- The factory a thread is about to store is the conversion against its *own* namespace. -/
def Own (s : State Opts Factory) : Prop :=
  ∀ (t : Tid) (th : Thread Opts Factory) (r : Request Opts) (rest : List (Request Opts)),
    s.threads[t]? = some th → th.todo = r :: rest →
    ∀ f, (th.pc = .st1 f ∨ th.pc = .st1c f ∨ ∃ b, th.pc = .st2 f b) → T r.code r.opts r.env.sig = some f

variable {T P}

theorem Inj_step {s : State Opts Factory} (inv : Inv P s) (h : Inj s) (l : Label) : Inj (step T s l) := by
  cases l with
  | gc c =>
    simp only [step]
    split
    · exact h
    · intro e he e' he'
      exact h e (mem_ogc.mp he).1 e' (mem_ogc.mp he').1
  | thr t =>
    show Inj (stepThread T s t)
    cases hth : s.threads[t]? with
    | none => rw [stepThread_none hth]; exact h
    | some th =>
      cases htodo : th.todo with
      | nil => rw [stepThread_nil hth htodo]; exact h
      | cons r rest =>
        rw [stepThread_cons hth htodo]
        have ok := action_Inv (T := T) inv hth htodo
        generalize action T s t r th.pc = a at ok
        obtain ⟨eff, nxt⟩ := a
        cases eff with
        | create c =>
          obtain ⟨rfl, hnone, _⟩ := ok.create c rfl
          intro e he e' he'
          have he1 : e ∈ oset r.code s.heap.length s.outer := he
          have he2 : e' ∈ oset r.code s.heap.length s.outer := he'
          rw [oset_of_ofind_none _ hnone] at he1 he2
          intro h2
          rcases List.mem_append.mp he1 with h1 | h1 <;> rcases List.mem_append.mp he2 with h1' | h1'
          · exact h e h1 e' h1' h2
          · simp only [List.mem_singleton] at h1'
            subst h1'
            have := (inv.keys e h1).2
            simp only at h2
            omega
          · simp only [List.mem_singleton] at h1
            subst h1
            have := (inv.keys e' h1').2
            simp only at h2
            omega
          · simp only [List.mem_singleton] at h1 h1'
            rw [h1, h1']
        | nop => exact h
        | store b o f => exact h
        | acquire => exact h
        | release => exact h
        | logx c o => exact h

theorem Own_step {s : State Opts Factory} (h : Own T s) (l : Label) : Own T (step T s l) := by
  cases l with
  | gc c =>
    simp only [step]
    split
    · exact h
    · exact h
  | thr t =>
    show Own T (stepThread T s t)
    cases hth : s.threads[t]? with
    | none => rw [stepThread_none hth]; exact h
    | some th =>
      cases htodo : th.todo with
      | nil => rw [stepThread_nil hth htodo]; exact h
      | cons r rest =>
        rw [stepThread_cons hth htodo]
        intro t' th' r' rest' hth' htodo' f hf
        simp only at hth'
        rw [threads_set_get hth] at hth'
        by_cases htt : t' = t
        · simp only [htt, if_true, Option.some.injEq] at hth'
          subst hth'
          have hold := h t th r rest hth htodo
          cases hp : th.pc with
          | idle => simp [action, applyNext, hp] at hf
          | has1 lk =>
            simp only [action, hp] at hf
            cases ho : ofind r.code s.outer <;> cases lk <;> simp [ho, applyNext, miss] at hf
          | has2 lk b =>
            simp only [action, hp] at hf
            split at hf <;> cases lk <;> simp [applyNext, miss] at hf
          | get1 lk =>
            simp only [action, hp] at hf
            cases ho : ofind r.code s.outer <;> simp [ho, applyNext] at hf
          | get1c lk => simp [action, applyNext, hp] at hf
          | get2 lk b =>
            simp only [action, hp] at hf
            cases hb : bfind r.opts (bucketAt s b) <;> cases lk <;> simp [hb, applyNext] at hf
          | acq =>
            simp only [action, hp] at hf
            cases hl : s.lock with
            | none => simp [hl, applyNext] at hf
            | some hn =>
              obtain ⟨h', n⟩ := hn
              by_cases hh : h' = t
              · simp [hl, hh, applyNext] at hf
              · simp [hl, hh, applyNext, hp] at hf
          | xform =>
            simp only [action, hp] at hf htodo'
            cases hT : T r.code r.opts r.env.sig with
            | none => simp [hT, applyNext] at hf
            | some f1 =>
              simp only [hT, applyNext] at hf htodo'
              rw [htodo] at htodo'
              simp only [List.cons.injEq] at htodo'
              obtain ⟨rfl, _⟩ := htodo'
              have : f = f1 := by simpa [eq_comm] using hf
              rw [this]; exact hT
          | st1 f0 =>
            have h0 := hold f0 (Or.inl hp)
            simp only [action, hp] at hf htodo'
            cases ho : ofind r.code s.outer with
            | none =>
              simp only [ho, applyNext] at hf htodo'
              rw [htodo] at htodo'
              simp only [List.cons.injEq] at htodo'
              obtain ⟨rfl, _⟩ := htodo'
              have : f = f0 := by simpa [eq_comm] using hf
              rw [this]; exact h0
            | some b =>
              simp only [ho, applyNext] at hf htodo'
              rw [htodo] at htodo'
              simp only [List.cons.injEq] at htodo'
              obtain ⟨rfl, _⟩ := htodo'
              have : f = f0 := by
                rcases hf with hf | hf | ⟨b', hf⟩ <;> simp at hf
                exact hf.1.symm
              rw [this]; exact h0
          | st1c f0 =>
            have h0 := hold f0 (Or.inr (Or.inl hp))
            simp only [action, hp, applyNext] at hf htodo'
            rw [htodo] at htodo'
            simp only [List.cons.injEq] at htodo'
            obtain ⟨rfl, _⟩ := htodo'
            have : f = f0 := by
              rcases hf with hf | hf | ⟨b', hf⟩ <;> simp at hf
              exact hf.1.symm
            rw [this]; exact h0
          | st2 f0 b => simp [action, applyNext, hp] at hf
          | rel res own =>
            simp only [action, hp] at hf
            cases res <;> simp [applyNext] at hf
          | inst f0 own => simp [action, applyNext, hp] at hf
        · simp only [htt, if_false] at hth'
          exact h t' th' r' rest' hth' htodo' f hf

end

end Malt.Cache

namespace Malt.Cache
open Spec

section
variable {Opts Factory : Type} [BEq Opts] [Hashable Opts] [LawfulBEq Opts]
variable {T : Code → Opts → Nat → Option Factory} {P : List (Request Opts)}

theorem SState_ext {σ σ' : SState Opts Factory} (h1 : σ.table = σ'.table) (h2 : σ.threads = σ'.threads) :
    σ = σ' := by
  cases σ; cases σ'; simp_all

theorem set_same {α : Type} {l : List α} {t : Nat} {a : α} (h : l[t]? = some a) : l.set t a = l := by
  apply List.ext_getElem?
  intro i
  rw [threads_set_get h]
  by_cases hi : i = t
  · subst hi; simp [h]
  · simp [hi]

theorem abs_after_threads (s : State Opts Factory) (t : Tid) (th : Thread Opts Factory) (r : Request Opts)
    (eff : Eff Opts Factory) (nxt : Next Factory) :
    (abs P (after s t th r eff nxt)).threads =
      (s.threads.map absThread).set t (absThread (applyNext th r nxt)) := by
  simp [abs, List.map_set]

theorem abs_get {s : State Opts Factory} {t : Tid} {th : Thread Opts Factory} (hth : s.threads[t]? = some th) :
    (abs P s).threads[t]? = some (absThread th) := by
  simp [abs, hth]

/-- A step that changes no lookup and not the abstract view of its thread is invisible. -/
theorem abs_stutter {s : State Opts Factory} {t : Tid} {th : Thread Opts Factory} {r : Request Opts}
    {eff : Eff Opts Factory} {nxt : Next Factory} (hth : s.threads[t]? = some th)
    (htab : ∀ c o, table (applyEff s t eff) c o = table s c o)
    (hthr : absThread (applyNext th r nxt) = absThread th) :
    abs P (after s t th r eff nxt) = abs P s := by
  apply SState_ext
  · funext c o
    simp only [abs, after_table, htab]
  · rw [abs_after_threads, hthr]
    exact set_same (abs_get (P := P) hth)

theorem table_eff_same {s : State Opts Factory} (inv : Inv P s) {t : Tid} {th : Thread Opts Factory}
    {r : Request Opts} {eff : Eff Opts Factory} {nxt : Next Factory} (ok : ActOK T s t th r eff nxt)
    (hns : ∀ b o f, eff ≠ .store b o f) (c : Code) (o : Opts) :
    table (applyEff s t eff) c o = table s c o := by
  cases eff with
  | nop => rfl
  | acquire => rfl
  | release => rfl
  | logx c' o' => rfl
  | create c' =>
    obtain ⟨_, hnone, _⟩ := ok.create c' rfl
    exact table_create (fun e he => (inv.keys e he).2) hnone c o
  | store b o' f => exact absurd rfl (hns b o' f)

/-- Storing into the bucket of `r.code` changes exactly the lookup of `(r.code, r.opts)`. -/
theorem table_store_eq {s : State Opts Factory} (inv : Inv P s) (V : ValInj P) (hinj : Inj s) {t : Tid}
    {r : Request Opts} (hrP : r ∈ P) {b : Nat} {f : Factory} (ho : ofind r.code s.outer = some b)
    {c : Code} (hc : c ∈ codes P) (o : Opts) :
    table (applyEff s t (.store b r.opts f)) c o =
      if c = r.code ∧ (o == r.opts) = true then some f else table s c o := by
  have hb : b < s.heap.length := by
    obtain ⟨k, hm, _⟩ := ofind_mem ho
    exact (inv.keys _ hm).2
  unfold table
  show (match ofind c s.outer with
        | some b' => bfind o (bucketAt (applyEff s t (.store b r.opts f)) b') | none => none) = _
  cases hoc : ofind c s.outer with
  | none =>
    have hne : c ≠ r.code := by rintro rfl; rw [ho] at hoc; cases hoc
    simp [hne]
  | some b' =>
    by_cases hbb : b' = b
    · subst hbb
      have hcr : c = r.code := by
        obtain ⟨k, hm, hv⟩ := ofind_mem hoc
        obtain ⟨k', hm', hv'⟩ := ofind_mem ho
        have hk : k = k' := hinj _ hm _ hm' rfl
        exact valInj_codes V hc (mem_codes hrP) (by rw [← hv, hk, hv'])
      subst hcr
      simp only [bucketAt_store_same hb, true_and]
      by_cases hoo : o = r.opts
      · subst hoo; simp [bfind_bset_self]
      · have hoo' : r.opts ≠ o := fun h => hoo h.symm
        simp [bfind_bset_ne hoo', hoo]
    · have hne : c ≠ r.code := by rintro rfl; rw [ho] at hoc; cases hoc; exact hbb rfl
      simp [bucketAt_store_other hbb, hne]

theorem ofind_ogc_self (V : ValInj P) {m : List (Code × Nat)} (hk : ∀ e ∈ m, e.1 ∈ codes P) {c : Code}
    (hc : c ∈ codes P) : ofind c (ogc c m) = none := by
  cases h : ofind c (ogc c m) with
  | none => rfl
  | some b =>
    obtain ⟨k, hm, hv⟩ := ofind_mem h
    obtain ⟨hm', hne⟩ := mem_ogc.mp hm
    exact absurd (valInj_codes V (hk _ hm') hc hv) hne

theorem absThread_todo_sub (th : Thread Opts Factory) : ∀ x ∈ (absThread th).todo, x ∈ th.todo := by
  intro x hx
  unfold absThread at hx
  split at hx
  · rename_i f r rest _ htodo
    rw [htodo]; exact List.mem_cons_of_mem _ hx
  · exact hx

/-- Forward simulation: every implementation step is a stutter or exactly one atomic step. -/
theorem sim_step (V : ValInj P) {s : State Opts Factory} (inv : Inv P s) (hinj : Inj s) (hown : Own T s)
    (herr : ErrInv T s) (l : Label) : abs P (step T s l) = sstepOpt T (abs P s) (lin s l) := by
  cases l with
  | gc c =>
    simp only [step, lin, live]
    by_cases hl : (s.threads.any fun th => th.needs c) = true
    · simp [hl, sstepOpt]
    · simp only [hl, if_false, Bool.false_eq_true, sstepOpt, sstep]
      have hguard : ((abs P s).threads.any fun th => th.todo.any fun r => decide (r.code = c)) = false := by
        cases hx : ((abs P s).threads.any fun th => th.todo.any fun r => decide (r.code = c)) with
        | false => rfl
        | true =>
          exfalso
          simp only [abs, List.any_map, List.any_eq_true, Function.comp, decide_eq_true_eq] at hx
          obtain ⟨th, hth, x, hx, hxc⟩ := hx
          apply hl
          simp only [List.any_eq_true, Thread.needs, decide_eq_true_eq]
          exact ⟨th, hth, x, absThread_todo_sub th x hx, hxc⟩
      rw [hguard]
      simp only [Bool.false_eq_true, if_false]
      apply SState_ext
      · funext c' o
        have hkeys : ∀ e ∈ s.outer, e.1 ∈ codes P := fun e he => (inv.keys e he).1
        simp only [abs]
        by_cases hc' : c' ∈ codes P
        · simp only [hc', if_true]
          by_cases hcc : c' = c
          · subst hcc
            simp [table, ofind_ogc_self V hkeys hc']
          · simp only [hcc, if_false]
            simp only [table, ofind_gc V hkeys hc' hcc]
            rfl
        · simp [hc']
      · rfl
  | thr t =>
    show abs P (stepThread T s t) = sstepOpt T (abs P s) (lin s (.thr t))
    cases hth : s.threads[t]? with
    | none => rw [stepThread_none hth]; simp [lin, hth, sstepOpt]
    | some th =>
      cases htodo : th.todo with
      | nil => rw [stepThread_nil hth htodo]; simp [lin, hth, htodo, sstepOpt]
      | cons r rest =>
        rw [stepThread_cons hth htodo]
        have ok := action_Inv (T := T) inv hth htodo
        have hpc := inv.pc t th r rest hth htodo
        have hrP : r ∈ P := inv.todo th (List.mem_of_getElem? hth) r (by rw [htodo]; exact List.mem_cons_self)
        have hcP : r.code ∈ codes P := mem_codes hrP
        have habs_tab : (abs P s).table r.code r.opts = table s r.code r.opts := by simp [abs, hcP]
        -- generic stutter argument for the cases where the abstract thread view does not change
        have stut : ∀ (pc : Pc Factory), th.pc = pc → lin s (.thr t) = none →
            (∀ b o f, (action T s t r pc).1 ≠ .store b o f) →
            absThread (applyNext th r (action T s t r pc).2) = absThread th →
            abs P (after s t th r (action T s t r pc).1 (action T s t r pc).2) =
              sstepOpt T (abs P s) (lin s (.thr t)) := by
          intro pc hpc' hl hns hthr
          subst hpc'
          rw [hl]
          exact abs_stutter hth (table_eff_same inv ok hns) hthr
        show abs P (after s t th r (action T s t r th.pc).1 (action T s t r th.pc).2) = _
        cases hp : th.pc with
        | idle =>
          apply stut _ hp <;> simp [lin, hth, htodo, hp, action, applyNext, absThread, linearised]
        | has1 lk =>
          apply stut _ hp
          · simp [lin, hth, htodo, hp]
          · simp only [hp, action]; cases ofind r.code s.outer <;> simp
          · simp only [hp, action]
            cases ofind r.code s.outer <;> cases lk <;> simp [applyNext, absThread, linearised, hp, miss]
        | has2 lk b =>
          apply stut _ hp
          · simp [lin, hth, htodo, hp]
          · simp only [hp, action]; split <;> simp
          · simp only [hp, action]
            split <;> cases lk <;> simp [applyNext, absThread, linearised, hp, miss]
        | get1 lk =>
          apply stut _ hp
          · simp [lin, hth, htodo, hp]
          · simp only [hp, action]; cases ofind r.code s.outer <;> simp
          · simp only [hp, action]
            cases ofind r.code s.outer <;> simp [applyNext, absThread, linearised, hp]
        | get1c lk =>
          rw [hp] at hpc
          exact absurd hpc (by simp [PcInv])
        | get2 lk b =>
          rw [hp] at hpc
          obtain ⟨_, hsome⟩ := hpc
          apply stut _ hp
          · simp [lin, hth, htodo, hp]
          · simp only [hp, action]; cases bfind r.opts (bucketAt s b) <;> cases lk <;> simp
          · simp only [hp, action]
            cases hb : bfind r.opts (bucketAt s b) with
            | none => simp [hb] at hsome
            | some f => cases lk <;> simp [applyNext, absThread, linearised, hp]
        | acq =>
          apply stut _ hp
          · simp [lin, hth, htodo, hp]
          · simp only [hp, action]
            cases s.lock with
            | none => simp
            | some hn => obtain ⟨h, n⟩ := hn; by_cases hh : h = t <;> simp [hh]
          · simp only [hp, action]
            cases s.lock with
            | none => simp [applyNext, absThread, linearised, hp]
            | some hn => obtain ⟨h, n⟩ := hn; by_cases hh : h = t <;> simp [hh, applyNext, absThread, linearised, hp]
        | xform =>
          apply stut _ hp
          · simp [lin, hth, htodo, hp]
          · simp only [action]; cases T r.code r.opts r.env.sig <;> simp
          · simp only [action]
            cases T r.code r.opts r.env.sig <;> simp [applyNext, absThread, linearised, hp]
        | st1 f =>
          apply stut _ hp
          · simp [lin, hth, htodo, hp]
          · simp only [hp, action]; cases ofind r.code s.outer <;> simp
          · simp only [hp, action]
            cases ofind r.code s.outer <;> simp [applyNext, absThread, linearised, hp]
        | st1c f =>
          apply stut _ hp <;> simp [lin, hth, htodo, hp, action, applyNext, absThread, linearised]
        | rel res own =>
          rw [hp] at hpc
          cases res with
          | some f =>
            apply stut _ hp
            · simp [lin, hth, htodo, hp]
            · simp [action]
            · cases own <;> simp [hp, action, applyNext, absThread, linearised, htodo]
          | none =>
            -- linearisation point of a request whose conversion raised
            have htab0 : table s r.code r.opts = none := hpc
            have hT : T r.code r.opts r.env.sig = none := herr.2 t th r rest hth htodo own hp
            have hlin : lin s (.thr t) = some (.serve t) := by simp [lin, hth, htodo, hp]
            rw [hlin]
            simp only [action, sstepOpt, sstep, abs_get (P := P) hth]
            have habsT : absThread th = { todo := r :: rest, results := th.results } := by
              simp [absThread, linearised, hp, htodo]
            simp only [habsT, habs_tab, htab0, hT]
            apply SState_ext
            · funext c o
              simp only [abs, after_table]
              rfl
            · rw [abs_after_threads]
              simp [abs, applyNext, absThread, linearised, htodo]
        | st2 f b =>
          -- linearisation point of a converting request
          rw [hp] at hpc
          obtain ⟨ho, hnone⟩ := hpc
          have hf : T r.code r.opts r.env.sig = some f := hown t th r rest hth htodo f (Or.inr (Or.inr ⟨b, hp⟩))
          have htab0 : table s r.code r.opts = none := by rw [table_of_ofind ho]; exact hnone
          have hlin : lin s (.thr t) = some (.serve t) := by simp [lin, hth, htodo, hp]
          rw [hlin]
          simp only [action, sstepOpt, sstep, abs_get (P := P) hth]
          have habsT : absThread th = { todo := r :: rest, results := th.results } := by
            simp [absThread, linearised, hp, htodo]
          simp only [habsT, habs_tab, htab0, hf]
          apply SState_ext
          · funext c o
            simp only [abs, after_table]
            by_cases hc : c ∈ codes P
            · simp only [hc, if_true]
              rw [table_store_eq inv V hinj hrP ho hc o]
            · have hne : c ≠ r.code := fun h => hc (h ▸ hcP)
              simp [hc, hne]
          · rw [abs_after_threads]
            simp [abs, applyNext, absThread, linearised, htodo]
        | inst f own =>
          rw [hp] at hpc
          have htab1 : table s r.code r.opts = some f := hpc
          cases own with
          | true =>
            apply stut _ hp
            · simp [lin, hth, htodo, hp]
            · simp [hp, action]
            · simp [hp, action, applyNext, absThread, linearised, htodo]
          | false =>
            -- linearisation point of a request that found the factory
            have hlin : lin s (.thr t) = some (.serve t) := by simp [lin, hth, htodo, hp]
            rw [hlin]
            simp only [action, sstepOpt, sstep, abs_get (P := P) hth]
            have habsT : absThread th = { todo := r :: rest, results := th.results } := by
              simp [absThread, linearised, hp, htodo]
            simp only [habsT, habs_tab, htab1]
            apply SState_ext
            · funext c o
              simp only [abs, after_table]
              rfl
            · rw [abs_after_threads]
              simp [abs, applyNext, absThread, linearised, htodo]

theorem abs_init (progs : List (List (Request Opts))) :
    abs P (init progs : State Opts Factory) = sinit progs := by
  apply SState_ext
  · funext c o
    simp [abs, init, sinit, table, ofind]
  · simp [abs, init, sinit, absThread, linearised, Function.comp_def]

/-- Refinement: for every schedule there is a sequence of atomic specification steps (obtained step
by step from the schedule) that reaches the abstraction of the implementation's state. -/
theorem refines_from (V : ValInj P) (sched : List Label) :
    ∀ {s : State Opts Factory}, Inv P s → Inj s → Own T s → ErrInv T s →
      ∃ ls : List SLabel, srun T (abs P s) ls = abs P (run T s sched) := by
  induction sched with
  | nil => intro s _ _ _ _; exact ⟨[], rfl⟩
  | cons l rest ih =>
    intro s inv hinj hown herr
    obtain ⟨ls, hls⟩ := ih (Inv_step (T := T) inv l (stepSafe_of_valInj V inv l)) (Inj_step (T := T) inv hinj l) (Own_step hown l)
      (ErrInv_step inv herr l)
    rw [sim_step V inv hinj hown herr l] at hls
    cases hl : lin s l with
    | none =>
      rw [hl] at hls
      exact ⟨ls, hls⟩
    | some x =>
      rw [hl] at hls
      exact ⟨x :: ls, hls⟩

end

end Malt.Cache

namespace Malt.Cache
open Spec

section
variable {Opts Factory : Type} [BEq Opts] [Hashable Opts] [LawfulBEq Opts]
variable {T : Code → Opts → Nat → Option Factory} {P : List (Request Opts)}

/-- In the specification, serving a request changes at most the table entry of its own key. -/
theorem sstep_serve_frame (σ : SState Opts Factory) (t : Tid) (c : Code) (o : Opts)
    (h : (sstep T σ (.serve t)).table c o ≠ σ.table c o) :
    ∃ th r rest, σ.threads[t]? = some th ∧ th.todo = r :: rest ∧ r.code = c ∧ r.opts = o := by
  unfold sstep at h
  cases hth : σ.threads[t]? with
  | none => simp [hth] at h
  | some th =>
    cases htodo : th.todo with
    | nil => simp [hth, htodo] at h
    | cons r rest =>
      simp only [hth, htodo] at h
      cases htab : σ.table r.code r.opts with
      | some f => simp [htab] at h
      | none =>
        simp only [htab] at h
        cases hT : T r.code r.opts r.env.sig with
        | none => simp [hT] at h
        | some f =>
          simp only [hT] at h
          by_cases hk : c = r.code ∧ (o == r.opts) = true
          · exact ⟨th, r, rest, rfl, htodo, hk.1.symm, (eq_of_beq hk.2).symm⟩
          · simp at h
            exact absurd ⟨h.1, by simp [h.2.1]⟩ hk

/-- **Frame**: a thread step changes the lookup of a (code object of the history, options) pair only
if that pair is the key of the request the thread is executing. -/
theorem table_frame (V : ValInj P) {s : State Opts Factory} (inv : Inv P s) (hinj : Inj s) (hown : Own T s)
    (herr : ErrInv T s) (t : Tid) {c : Code} (hc : c ∈ codes P) (o : Opts)
    (h : table (step T s (.thr t)) c o ≠ table s c o) :
    ∃ th r rest, s.threads[t]? = some th ∧ th.todo = r :: rest ∧ r.code = c ∧ r.opts = o := by
  have hsim := sim_step (T := T) V inv hinj hown herr (.thr t)
  have h1 : (abs P (step T s (.thr t))).table c o = table (step T s (.thr t)) c o := by simp [abs, hc]
  have h2 : (abs P s).table c o = table s c o := by simp [abs, hc]
  rw [← h1, ← h2, hsim] at h
  cases hl : lin s (.thr t) with
  | none => rw [hl] at h; exact absurd rfl h
  | some x =>
    rw [hl] at h
    -- `lin` only ever answers `serve t` for a thread step, and only for a thread that is not linearised
    simp only [lin] at hl
    cases hth : s.threads[t]? with
    | none => simp [hth] at hl
    | some th =>
      simp only [hth] at hl
      cases htodo : th.todo with
      | nil => simp [htodo] at hl
      | cons r rest =>
        have hx : x = .serve t ∧ absThread th = { todo := r :: rest, results := th.results } := by
          cases hp : th.pc <;> simp [htodo, hp] at hl
          case st2 f b => exact ⟨hl.symm, by simp [absThread, linearised, hp, htodo]⟩
          case inst f own =>
            cases own <;> simp at hl
            exact ⟨hl.symm, by simp [absThread, linearised, hp, htodo]⟩
          case rel res own =>
            cases res <;> simp at hl
            exact ⟨hl.symm, by simp [absThread, linearised, hp, htodo]⟩
        obtain ⟨rfl, habs⟩ := hx
        obtain ⟨th', r', rest', hth', htodo', hc', ho'⟩ := sstep_serve_frame (T := T) _ t c o h
        rw [abs_get (P := P) hth] at hth'
        simp only [Option.some.injEq] at hth'
        subst hth'
        rw [habs] at htodo'
        simp only [List.cons.injEq] at htodo'
        obtain ⟨rfl, rfl⟩ := htodo'
        exact ⟨th, r, rest, rfl, htodo, hc', ho'⟩

end

end Malt.Cache

namespace Malt.Cache
open Spec Ideal

section
variable {Opts Factory : Type} [BEq Opts] [LawfulBEq Opts]
variable {T : Code → Opts → Nat → Option Factory} {P : List (Request Opts)}

/-- What the lookup-or-convert specification has in its table is, for every requester of that key
in the history, exactly the fresh conversion of that requester. -/
def TabOK (T : Code → Opts → Nat → Option Factory) (P : List (Request Opts)) (σ : SState Opts Factory) : Prop :=
  (∀ c o f, σ.table c o = some f → ∀ r ∈ P, r.code = c → r.opts = o → T r.code r.opts r.env.sig = some f) ∧
  (∀ th ∈ σ.threads, ∀ r ∈ th.todo, r ∈ P)

def serveTid : SLabel → Option Tid
  | .serve t => some t
  | .gc _ => none

/-- Under `SigCoherent`, one step of the lookup-or-convert specification is one step (or none, for
`gc`) of the cache-less specification, and the table stays a table of fresh conversions. -/
theorem sstep_ideal (hS : ∀ r ∈ P, ∀ r' ∈ P, r.code.val = r'.code.val → r.env.sig = r'.env.sig)
    {σ : SState Opts Factory} (h : TabOK T P σ) (l : SLabel) :
    TabOK T P (sstep T σ l) ∧
    (sstep T σ l).threads = (match serveTid l with | some t => istep T σ.threads t | none => σ.threads) := by
  obtain ⟨htab, htodo⟩ := h
  cases l with
  | gc c =>
    simp only [sstep, serveTid]
    split
    · exact ⟨⟨htab, htodo⟩, rfl⟩
    · refine ⟨⟨?_, htodo⟩, rfl⟩
      intro c' o f hf r hr hc ho
      by_cases hcc : c' = c
      · simp [hcc] at hf
      · simp only [hcc, if_false] at hf
        exact htab c' o f hf r hr hc ho
  | serve t =>
    simp only [serveTid]
    cases hth : σ.threads[t]? with
    | none =>
      have e1 : sstep T σ (.serve t) = σ := by simp [sstep, hth]
      have e2 : istep T σ.threads t = σ.threads := by simp [istep, hth]
      rw [e1, e2]; exact ⟨⟨htab, htodo⟩, rfl⟩
    | some th =>
      cases hto : th.todo with
      | nil =>
        have e1 : sstep T σ (.serve t) = σ := by simp [sstep, hth, hto]
        have e2 : istep T σ.threads t = σ.threads := by simp [istep, hth, hto]
        rw [e1, e2]; exact ⟨⟨htab, htodo⟩, rfl⟩
      | cons r rest =>
        have hthm : th ∈ σ.threads := List.mem_of_getElem? hth
        have hrP : r ∈ P := htodo th hthm r (by rw [hto]; exact List.mem_cons_self)
        have htodo' : ∀ x, ∀ th' ∈ σ.threads.set t { todo := rest, results := th.results ++ [(r, x)] },
            ∀ r' ∈ th'.todo, r' ∈ P := by
          intro x th' hth' r' hr'
          rcases mem_set_of hth' with hm | hm
          · exact htodo th' hm r' hr'
          · subst hm
            exact htodo th hthm r' (by rw [hto]; exact List.mem_cons_of_mem _ hr')
        have e2 : istep T σ.threads t =
            σ.threads.set t { todo := rest, results := th.results ++ [(r, T r.code r.opts r.env.sig)] } := by
          simp [istep, hth, hto]
        rw [e2]
        cases htb : σ.table r.code r.opts with
        | some f =>
          have hT : T r.code r.opts r.env.sig = some f := htab _ _ f htb r hrP rfl rfl
          have e1 : sstep T σ (.serve t) =
              { σ with threads := σ.threads.set t { todo := rest, results := th.results ++ [(r, some f)] } } := by
            simp [sstep, hth, hto, htb]
          rw [e1, hT]
          exact ⟨⟨htab, htodo' _⟩, rfl⟩
        | none =>
          cases hT : T r.code r.opts r.env.sig with
          | none =>
            have e1 : sstep T σ (.serve t) =
                { σ with threads := σ.threads.set t { todo := rest, results := th.results ++ [(r, none)] } } := by
              simp [sstep, hth, hto, htb, hT]
            rw [e1]
            exact ⟨⟨htab, htodo' _⟩, rfl⟩
          | some f =>
            have e1 : sstep T σ (.serve t) =
                { table := fun c o => if c = r.code ∧ (o == r.opts) = true then some f else σ.table c o,
                  threads := σ.threads.set t { todo := rest, results := th.results ++ [(r, some f)] } } := by
              simp [sstep, hth, hto, htb, hT]
            rw [e1]
            refine ⟨⟨?_, htodo' _⟩, rfl⟩
            intro c o f' hf r' hr' hc ho
            by_cases hk : c = r.code ∧ (o == r.opts) = true
            · simp only [hk, and_self, if_true, Option.some.injEq] at hf
              subst hf
              have ho' : o = r.opts := eq_of_beq hk.2
              have hcode : r'.code = r.code := hc.trans hk.1
              have hsig : r'.env.sig = r.env.sig := hS r' hr' r hrP (by rw [hcode])
              rw [hcode, ho, ho', hsig]; exact hT
            · simp only [hk, if_false] at hf
              exact htab c o f' hf r' hr' hc ho

theorem srun_ideal (hS : ∀ r ∈ P, ∀ r' ∈ P, r.code.val = r'.code.val → r.env.sig = r'.env.sig)
    (ls : List SLabel) : ∀ {σ : SState Opts Factory}, TabOK T P σ →
    (srun T σ ls).threads = irun T σ.threads (ls.filterMap serveTid) := by
  induction ls with
  | nil => intro σ _; rfl
  | cons l rest ih =>
    intro σ h
    obtain ⟨h', hth⟩ := sstep_ideal (T := T) hS h l
    show (srun T (sstep T σ l) rest).threads = _
    rw [ih h']
    cases hl : serveTid l with
    | none => simp [hl] at hth; simp [List.filterMap_cons, hl, hth]
    | some t => simp [hl] at hth; simp [List.filterMap_cons, hl, hth, irun]

end

end Malt.Cache
