import MaltModel.Sem.CoreLemmas
import MaltModel.Conv.JumpsSem
set_option linter.unusedSectionVars false
/-
The concrete name generator `stdGen` is injective, and a program whose names are all user names (do not start
with `$`) is clean for any set of hidden names that all start with `$`.
-/
namespace Malt.Sem.Jumps
open Malt.Sem

theorem replicate_dot_inj : ∀ (n m : Nat) (a b : List Char),
    List.replicate n 'i' ++ '.' :: a = List.replicate m 'i' ++ '.' :: b → n = m ∧ a = b
  | 0, 0, a, b, h => by simpa using h
  | 0, m+1, a, b, h => by simp [List.replicate_succ] at h
  | n+1, 0, a, b, h => by simp [List.replicate_succ] at h
  | n+1, m+1, a, b, h => by
      simp only [List.replicate_succ, List.cons_append, List.cons.injEq, true_and] at h
      obtain ⟨h1, h2⟩ := replicate_dot_inj n m a b h
      exact ⟨by omega, h2⟩

theorem encPath_inj : ∀ (p q : List Nat), encPath p = encPath q → p = q
  | [], [], _ => rfl
  | [], m :: q, h => by
      simp only [encPath] at h
      cases m <;> simp [List.replicate_succ] at h
  | n :: p, [], h => by
      simp only [encPath] at h
      cases n <;> simp [List.replicate_succ] at h
  | n :: p, m :: q, h => by
      simp only [encPath] at h
      obtain ⟨h1, h2⟩ := replicate_dot_inj n m _ _ h
      rw [h1, encPath_inj p q h2]

theorem stdGen_inj (tag : Char) (p q : List Nat) (h : stdGen tag p = stdGen tag q) : p = q := by
  have := congrArg String.toList h
  simp only [stdGen, String.toList_ofList, List.cons.injEq, true_and] at this
  exact encPath_inj p q this

theorem stdGen_not_user (tag : Char) (q : List Nat) : userName (stdGen tag q) = false := by
  simp [userName, stdGen]

section
variable (G : Name → Prop) (hG : ∀ x, G x → userName x = false)
include hG

theorem userName_clean {x : Name} (h : userName x = true) : ¬ G x := by
  intro hx; rw [hG x hx] at h; cases h

mutual
theorem userNamesE_clean : ∀ (e : Expr), userNamesE e = true → CleanE G e
  | .const _, _ => by simp [CleanE]
  | .var x, h => by simp only [userNamesE] at h; simp only [CleanE]; exact userName_clean G hG h
  | .not e, h => by simp only [userNamesE] at h; simp only [CleanE]; exact userNamesE_clean e h
  | .and a b, h => by
      simp only [userNamesE, Bool.and_eq_true] at h
      exact ⟨userNamesE_clean a h.1, userNamesE_clean b h.2⟩
  | .or a b, h => by
      simp only [userNamesE, Bool.and_eq_true] at h
      exact ⟨userNamesE_clean a h.1, userNamesE_clean b h.2⟩
  | .ite c t e, h => by
      simp only [userNamesE, Bool.and_eq_true] at h
      exact ⟨userNamesE_clean c h.1.1, userNamesE_clean t h.1.2, userNamesE_clean e h.2⟩
  | .bin _ a b, h => by
      simp only [userNamesE, Bool.and_eq_true] at h
      exact ⟨userNamesE_clean a h.1, userNamesE_clean b h.2⟩
  | .call _ args, h => by
      simp only [userNamesE] at h; simp only [CleanE]; exact userNamesEs_clean args h
theorem userNamesEs_clean : ∀ (es : List Expr), userNamesEs es = true → CleanEs G es
  | [], _ => by simp [CleanEs]
  | e :: es, h => by
      simp only [userNamesEs, Bool.and_eq_true] at h
      exact ⟨userNamesE_clean e h.1, userNamesEs_clean es h.2⟩
end

theorem userNamesO_clean : ∀ (e : Option Expr), userNamesO e = true → CleanO G e
  | none, _ => by simp [CleanO]
  | some e, h => by simp only [userNamesO] at h; simp only [CleanO]; exact userNamesE_clean G hG e h

mutual
theorem userNamesS_clean : ∀ (s : Stmt), userNamesS s = true → CleanS G s
  | .assign x e, h => by
      simp only [userNamesS, Bool.and_eq_true] at h
      exact ⟨userName_clean G hG h.1, userNamesE_clean G hG e h.2⟩
  | .expr e, h => by simp only [userNamesS] at h; simp only [CleanS]; exact userNamesE_clean G hG e h
  | .ifS c t e, h => by
      simp only [userNamesS, Bool.and_eq_true] at h
      exact ⟨userNamesE_clean G hG c h.1.1, userNamesB_clean t h.1.2, userNamesB_clean e h.2⟩
  | .whileS c b, h => by
      simp only [userNamesS, Bool.and_eq_true] at h
      exact ⟨userNamesE_clean G hG c h.1, userNamesB_clean b h.2⟩
  | .forS x it extra b, h => by
      simp only [userNamesS, Bool.and_eq_true] at h
      exact ⟨userName_clean G hG h.1.1.1, userNamesE_clean G hG it h.1.1.2, userNamesO_clean G hG extra h.1.2,
        userNamesB_clean b h.2⟩
  | .ret e, h => by simp only [userNamesS] at h; simp only [CleanS]; exact userNamesO_clean G hG e h
  | .tryS b hs f, h => by
      simp only [userNamesS, Bool.and_eq_true] at h
      exact ⟨userNamesB_clean b h.1.1, userNamesH_clean hs h.1.2, userNamesB_clean f h.2⟩
  | .withS _ b, h => by simp only [userNamesS] at h; simp only [CleanS]; exact userNamesB_clean b h
  | .brk, _ => by simp [CleanS]
  | .cont, _ => by simp [CleanS]
  | .raise _, _ => by simp [CleanS]
  | .pass, _ => by simp [CleanS]
theorem userNamesB_clean : ∀ (b : List Stmt), userNamesB b = true → CleanB G b
  | [], _ => by simp [CleanB]
  | s :: rest, h => by
      simp only [userNamesB, Bool.and_eq_true] at h
      exact ⟨userNamesS_clean s h.1, userNamesB_clean rest h.2⟩
theorem userNamesH_clean : ∀ (hs : List (Nat × List Stmt)), userNamesH hs = true → CleanH G hs
  | [], _ => by simp [CleanH]
  | (_, b) :: hs, h => by
      simp only [userNamesH, Bool.and_eq_true] at h
      exact ⟨userNamesB_clean b h.1, userNamesH_clean hs h.2⟩
end

end

end Malt.Sem.Jumps
