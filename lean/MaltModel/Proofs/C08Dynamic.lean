import MaltModel.Proofs.C08Activity
import MaltModel.Spec.Dynamic
/-
Helper lemmas for `C08_dynamic`: the syntactic "what does evaluating this expression read / rebind /
delete" of `Spec.Dynamic` is contained in the effect `effE` that the activity model adds for it
(on the fragment without comprehensions), and a simple statement records a scope holding that effect.
-/
namespace Malt.Analysis
open Malt.Py Malt.Spec

@[simp] theorem Eff.exported_false_read (d : Eff) : (d.exported false).read = d.read := rfl
@[simp] theorem Eff.exported_false_modified (d : Eff) : (d.exported false).modified = d.modified := rfl
@[simp] theorem Eff.exported_false_bound (d : Eff) : (d.exported false).bound = d.bound := rfl
@[simp] theorem Eff.exported_false_globals (d : Eff) : (d.exported false).globals = d.globals := rfl
@[simp] theorem Eff.exported_false_nonlocals (d : Eff) : (d.exported false).nonlocals = d.nonlocals := rfl
@[simp] theorem Eff.exported_false_annotations (d : Eff) : (d.exported false).annotations = d.annotations := rfl
@[simp] theorem Eff.exported_false_deleted (d : Eff) : (d.exported false).deleted = [] := rfl

mutual
/-- Every variable that evaluating `e` reads is in the `read` set the analysis adds for `e`. -/
theorem reads_sub_effE : (e : Expr) → FragE e = true → (fns : List FnCtx) → (aug anno : Bool) →
    ∀ x ∈ readsE [] e, QN.sym x ∈ (effE fns aug anno e).read
  | .name _ s c, _, fns, aug, anno => by
      intro x hx
      cases c <;> simp [readsE] at hx
      subst hx
      simp [effE, trackEff]
  | .const .., _, _, _, _ => by simp [readsE]
  | .noneMarker, _, _, _, _ => by simp [readsE]
  | .attr i v a c, hf, fns, aug, anno => by
      simp only [FragE] at hf
      intro x hx
      simp only [readsE] at hx
      simp only [effE, Eff.append_read, List.mem_append]
      exact Or.inl (reads_sub_effE v hf fns aug anno x hx)
  | .subscript i v s c, hf, fns, aug, anno => by
      simp only [FragE, Bool.and_eq_true] at hf
      intro x hx
      simp only [readsE, List.mem_append] at hx
      simp only [effE, Eff.append_read, List.mem_append]
      rcases hx with hx | hx
      · exact Or.inl (Or.inl (reads_sub_effE v hf.1 fns aug anno x hx))
      · exact Or.inl (Or.inr (reads_sub_effE s hf.2 fns aug anno x hx))
  | .call _ f as ks, hf, fns, aug, anno => by
      simp only [FragE, Bool.and_eq_true] at hf
      intro x hx
      simp only [readsE, List.mem_append] at hx
      simp only [effE, Eff.append_read, List.mem_append, Eff.exported_false_read]
      rcases hx with (hx | hx) | hx
      · exact Or.inr (reads_sub_effE f hf.1.1 fns aug anno x hx)
      · exact Or.inl (Or.inl (reads_sub_effEs as hf.1.2 fns aug anno x hx))
      · exact Or.inl (Or.inr (reads_sub_effEs ks hf.2 fns aug anno x hx))
  | .keyword _ _ _ v, hf, fns, aug, anno => by
      simp only [FragE] at hf
      simpa [readsE, effE] using reads_sub_effE v hf fns aug anno
  | .boolop _ _ vs, hf, fns, aug, anno => by
      simp only [FragE] at hf
      simpa [readsE, effE] using reads_sub_effEs vs hf fns aug anno
  | .unary _ _ v, hf, fns, aug, anno => by
      simp only [FragE] at hf
      simpa [readsE, effE] using reads_sub_effE v hf fns aug anno
  | .binop _ _ l r, hf, fns, aug, anno => by
      simp only [FragE, Bool.and_eq_true] at hf
      intro x hx
      simp only [readsE, List.mem_append] at hx
      simp only [effE, Eff.append_read, List.mem_append]
      rcases hx with hx | hx
      · exact Or.inl (reads_sub_effE l hf.1 fns aug anno x hx)
      · exact Or.inr (reads_sub_effE r hf.2 fns aug anno x hx)
  | .compare _ l _ cs, hf, fns, aug, anno => by
      simp only [FragE, Bool.and_eq_true] at hf
      intro x hx
      simp only [readsE, List.mem_append] at hx
      simp only [effE, Eff.append_read, List.mem_append]
      rcases hx with hx | hx
      · exact Or.inl (reads_sub_effE l hf.1 fns aug anno x hx)
      · exact Or.inr (reads_sub_effEs cs hf.2 fns aug anno x hx)
  | .ifexp _ t b o, hf, fns, aug, anno => by
      simp only [FragE, Bool.and_eq_true] at hf
      intro x hx
      simp only [readsE, List.mem_append] at hx
      simp only [effE, Eff.append_read, List.mem_append]
      rcases hx with (hx | hx) | hx
      · exact Or.inl (Or.inl (reads_sub_effE t hf.1.1 fns aug anno x hx))
      · exact Or.inl (Or.inr (reads_sub_effE b hf.1.2 fns aug anno x hx))
      · exact Or.inr (reads_sub_effE o hf.2 fns aug anno x hx)
  | .lambda i args body, hf, fns, aug, anno => by
      cases args with
      | arguments ai po ar va ko kd kw df =>
        simp only [FragE, Bool.and_eq_true] at hf
        intro x hx
        simp only [readsE, List.mem_append] at hx
        simp only [effE, Eff.append_read, List.mem_append, Eff.exported_false_read]
        rcases hx with hx | hx
        · exact Or.inl (Or.inl (Or.inl (Or.inl (reads_sub_effEs kd hf.1.1.2 _ aug anno x hx))))
        · exact Or.inl (Or.inl (Or.inl (Or.inr (reads_sub_effEs df hf.1.2 _ aug anno x hx))))
      | _ => simp [FragE] at hf
  | .seq _ _ es _, hf, fns, aug, anno => by
      simp only [FragE] at hf
      simpa [readsE, effE] using reads_sub_effEs es hf fns aug anno
  | .starred _ v _, hf, fns, aug, anno => by
      simp only [FragE] at hf
      simpa [readsE, effE] using reads_sub_effE v hf fns aug anno
  | .namedexpr _ t v, hf, fns, aug, anno => by
      simp only [FragE, Bool.and_eq_true] at hf
      intro x hx
      simp only [readsE, List.mem_append] at hx
      simp only [effE, Eff.append_read, List.mem_append]
      rcases hx with hx | hx
      · exact Or.inl (reads_sub_effE t hf.1 fns aug anno x hx)
      · exact Or.inr (reads_sub_effE v hf.2 fns aug anno x hx)
  | .comp .., hf, _, _, _ => by simp [FragE] at hf
  | .comprehension .., hf, _, _, _ => by simp [FragE] at hf
  | .arguments .., hf, _, _, _ => by simp [FragE] at hf
  | .arg .., hf, _, _, _ => by simp [FragE] at hf
  | .withitem _ c v, hf, fns, aug, anno => by
      simp only [FragE, Bool.and_eq_true] at hf
      intro x hx
      simp only [readsE, List.mem_append] at hx
      simp only [effE, Eff.append_read, List.mem_append, Eff.exported_false_read]
      rcases hx with hx | hx
      · exact Or.inl (reads_sub_effE c hf.1 fns aug anno x hx)
      · exact Or.inr (reads_sub_effEs v hf.2 fns aug anno x hx)
  | .other _ _ _ kids, hf, fns, aug, anno => by
      simp only [FragE] at hf
      simpa [readsE, effE] using reads_sub_effEs kids hf fns aug anno
theorem reads_sub_effEs : (es : List Expr) → FragEs es = true → (fns : List FnCtx) → (aug anno : Bool) →
    ∀ x ∈ readsEs [] es, QN.sym x ∈ (effEs fns aug anno es).read
  | [], _, _, _, _ => by simp [readsEs]
  | e :: rest, hf, fns, aug, anno => by
      simp only [FragEs, Bool.and_eq_true] at hf
      intro x hx
      simp only [readsEs, List.mem_append] at hx
      simp only [effEs, Eff.append_read, List.mem_append]
      rcases hx with hx | hx
      · exact Or.inl (reads_sub_effE e hf.1 fns aug anno x hx)
      · exact Or.inr (reads_sub_effEs rest hf.2 fns aug anno x hx)
end

mutual
/-- Every variable that evaluating `e` rebinds is in the `modified` set the analysis adds for `e`. -/
theorem writes_sub_effE : (e : Expr) → FragE e = true → (fns : List FnCtx) → (aug anno : Bool) →
    ∀ x ∈ writesE [] e, QN.sym x ∈ (effE fns aug anno e).modified
  | .name _ s c, _, fns, aug, anno => by
      intro x hx
      cases c <;> simp [writesE] at hx
      subst hx
      simp [effE, trackEff]
  | .const .., _, _, _, _ => by simp [writesE]
  | .noneMarker, _, _, _, _ => by simp [writesE]
  | .attr i v a c, hf, fns, aug, anno => by
      simp only [FragE] at hf
      intro x hx
      simp only [writesE] at hx
      simp only [effE, Eff.append_modified, List.mem_append]
      exact Or.inl (writes_sub_effE v hf fns aug anno x hx)
  | .subscript i v s c, hf, fns, aug, anno => by
      simp only [FragE, Bool.and_eq_true] at hf
      intro x hx
      simp only [writesE, List.mem_append] at hx
      simp only [effE, Eff.append_modified, List.mem_append]
      rcases hx with hx | hx
      · exact Or.inl (Or.inl (writes_sub_effE v hf.1 fns aug anno x hx))
      · exact Or.inl (Or.inr (writes_sub_effE s hf.2 fns aug anno x hx))
  | .call _ f as ks, hf, fns, aug, anno => by
      simp only [FragE, Bool.and_eq_true] at hf
      intro x hx
      simp only [writesE, List.mem_append] at hx
      simp only [effE, Eff.append_modified, List.mem_append, Eff.exported_false_modified]
      rcases hx with (hx | hx) | hx
      · exact Or.inr (writes_sub_effE f hf.1.1 fns aug anno x hx)
      · exact Or.inl (Or.inl (writes_sub_effEs as hf.1.2 fns aug anno x hx))
      · exact Or.inl (Or.inr (writes_sub_effEs ks hf.2 fns aug anno x hx))
  | .keyword _ _ _ v, hf, fns, aug, anno => by
      simp only [FragE] at hf
      simpa [writesE, effE] using writes_sub_effE v hf fns aug anno
  | .boolop _ _ vs, hf, fns, aug, anno => by
      simp only [FragE] at hf
      simpa [writesE, effE] using writes_sub_effEs vs hf fns aug anno
  | .unary _ _ v, hf, fns, aug, anno => by
      simp only [FragE] at hf
      simpa [writesE, effE] using writes_sub_effE v hf fns aug anno
  | .binop _ _ l r, hf, fns, aug, anno => by
      simp only [FragE, Bool.and_eq_true] at hf
      intro x hx
      simp only [writesE, List.mem_append] at hx
      simp only [effE, Eff.append_modified, List.mem_append]
      rcases hx with hx | hx
      · exact Or.inl (writes_sub_effE l hf.1 fns aug anno x hx)
      · exact Or.inr (writes_sub_effE r hf.2 fns aug anno x hx)
  | .compare _ l _ cs, hf, fns, aug, anno => by
      simp only [FragE, Bool.and_eq_true] at hf
      intro x hx
      simp only [writesE, List.mem_append] at hx
      simp only [effE, Eff.append_modified, List.mem_append]
      rcases hx with hx | hx
      · exact Or.inl (writes_sub_effE l hf.1 fns aug anno x hx)
      · exact Or.inr (writes_sub_effEs cs hf.2 fns aug anno x hx)
  | .ifexp _ t b o, hf, fns, aug, anno => by
      simp only [FragE, Bool.and_eq_true] at hf
      intro x hx
      simp only [writesE, List.mem_append] at hx
      simp only [effE, Eff.append_modified, List.mem_append]
      rcases hx with (hx | hx) | hx
      · exact Or.inl (Or.inl (writes_sub_effE t hf.1.1 fns aug anno x hx))
      · exact Or.inl (Or.inr (writes_sub_effE b hf.1.2 fns aug anno x hx))
      · exact Or.inr (writes_sub_effE o hf.2 fns aug anno x hx)
  | .lambda i args body, hf, fns, aug, anno => by
      cases args with
      | arguments ai po ar va ko kd kw df =>
        simp only [FragE, Bool.and_eq_true] at hf
        intro x hx
        simp only [writesE, List.mem_append] at hx
        simp only [effE, Eff.append_modified, List.mem_append, Eff.exported_false_modified]
        rcases hx with hx | hx
        · exact Or.inl (Or.inl (Or.inl (Or.inl (writes_sub_effEs kd hf.1.1.2 _ aug anno x hx))))
        · exact Or.inl (Or.inl (Or.inl (Or.inr (writes_sub_effEs df hf.1.2 _ aug anno x hx))))
      | _ => simp [FragE] at hf
  | .seq _ _ es _, hf, fns, aug, anno => by
      simp only [FragE] at hf
      simpa [writesE, effE] using writes_sub_effEs es hf fns aug anno
  | .starred _ v _, hf, fns, aug, anno => by
      simp only [FragE] at hf
      simpa [writesE, effE] using writes_sub_effE v hf fns aug anno
  | .namedexpr _ t v, hf, fns, aug, anno => by
      simp only [FragE, Bool.and_eq_true] at hf
      intro x hx
      simp only [writesE, List.mem_append] at hx
      simp only [effE, Eff.append_modified, List.mem_append]
      rcases hx with hx | hx
      · exact Or.inl (writes_sub_effE t hf.1 fns aug anno x hx)
      · exact Or.inr (writes_sub_effE v hf.2 fns aug anno x hx)
  | .comp .., hf, _, _, _ => by simp [FragE] at hf
  | .comprehension .., hf, _, _, _ => by simp [FragE] at hf
  | .arguments .., hf, _, _, _ => by simp [FragE] at hf
  | .arg .., hf, _, _, _ => by simp [FragE] at hf
  | .withitem _ c v, hf, fns, aug, anno => by
      simp only [FragE, Bool.and_eq_true] at hf
      intro x hx
      simp only [writesE, List.mem_append] at hx
      simp only [effE, Eff.append_modified, List.mem_append, Eff.exported_false_modified]
      rcases hx with hx | hx
      · exact Or.inl (writes_sub_effE c hf.1 fns aug anno x hx)
      · exact Or.inr (writes_sub_effEs v hf.2 fns aug anno x hx)
  | .other _ _ _ kids, hf, fns, aug, anno => by
      simp only [FragE] at hf
      simpa [writesE, effE] using writes_sub_effEs kids hf fns aug anno
theorem writes_sub_effEs : (es : List Expr) → FragEs es = true → (fns : List FnCtx) → (aug anno : Bool) →
    ∀ x ∈ writesEs [] es, QN.sym x ∈ (effEs fns aug anno es).modified
  | [], _, _, _, _ => by simp [writesEs]
  | e :: rest, hf, fns, aug, anno => by
      simp only [FragEs, Bool.and_eq_true] at hf
      intro x hx
      simp only [writesEs, List.mem_append] at hx
      simp only [effEs, Eff.append_modified, List.mem_append]
      rcases hx with hx | hx
      · exact Or.inl (writes_sub_effE e hf.1 fns aug anno x hx)
      · exact Or.inr (writes_sub_effEs rest hf.2 fns aug anno x hx)
end


mutual
/-- The names a `del` statement unbinds are in the `deleted` set. -/
theorem dels_sub_effE : (e : Expr) → (fns : List FnCtx) → (aug anno : Bool) →
    ∀ x ∈ delNames e, QN.sym x ∈ (effE fns aug anno e).deleted
  | .name _ s c, fns, aug, anno => by
      intro x hx
      cases c <;> simp [delNames] at hx
      subst hx
      simp [effE, trackEff]
  | .seq _ _ es _, fns, aug, anno => by simpa [delNames, effE] using dels_sub_effEs es fns aug anno
  | .starred _ v _, fns, aug, anno => by simpa [delNames, effE] using dels_sub_effE v fns aug anno
  | .const .., _, _, _ | .noneMarker, _, _, _ | .attr .., _, _, _ | .subscript .., _, _, _ | .call .., _, _, _
  | .keyword .., _, _, _ | .boolop .., _, _, _ | .unary .., _, _, _ | .binop .., _, _, _ | .compare .., _, _, _
  | .ifexp .., _, _, _ | .lambda .., _, _, _ | .namedexpr .., _, _, _ | .comp .., _, _, _ | .comprehension .., _, _, _
  | .arguments .., _, _, _ | .arg .., _, _, _ | .withitem .., _, _, _ | .other .., _, _, _ => by simp [delNames]
theorem dels_sub_effEs : (es : List Expr) → (fns : List FnCtx) → (aug anno : Bool) →
    ∀ x ∈ delNamesL es, QN.sym x ∈ (effEs fns aug anno es).deleted
  | [], _, _, _ => by simp [delNamesL]
  | e :: rest, fns, aug, anno => by
      intro x hx
      simp only [delNamesL, List.mem_append] at hx
      simp only [effEs, Eff.append_deleted, List.mem_append]
      rcases hx with hx | hx
      · exact Or.inl (dels_sub_effE e fns aug anno x hx)
      · exact Or.inr (dels_sub_effEs rest fns aug anno x hx)
end

mutual
/-- The target of an augmented assignment is also read (`_in_aug_assign`). -/
theorem augTargets_sub_effE : (e : Expr) → (fns : List FnCtx) → (anno : Bool) →
    ∀ x ∈ targetNames e, QN.sym x ∈ (effE fns true anno e).read
  | .name _ s c, fns, anno => by
      intro x hx
      simp [targetNames] at hx
      subst hx
      cases c <;> simp [effE, trackEff]
  | .seq _ _ es _, fns, anno => by simpa [targetNames, effE] using augTargets_sub_effEs es fns anno
  | .starred _ v _, fns, anno => by simpa [targetNames, effE] using augTargets_sub_effE v fns anno
  | .const .., _, _ | .noneMarker, _, _ | .attr .., _, _ | .subscript .., _, _ | .call .., _, _
  | .keyword .., _, _ | .boolop .., _, _ | .unary .., _, _ | .binop .., _, _ | .compare .., _, _
  | .ifexp .., _, _ | .lambda .., _, _ | .namedexpr .., _, _ | .comp .., _, _ | .comprehension .., _, _
  | .arguments .., _, _ | .arg .., _, _ | .withitem .., _, _ | .other .., _, _ => by simp [targetNames]
theorem augTargets_sub_effEs : (es : List Expr) → (fns : List FnCtx) → (anno : Bool) →
    ∀ x ∈ targetNamesL es, QN.sym x ∈ (effEs fns true anno es).read
  | [], _, _ => by simp [targetNamesL]
  | e :: rest, fns, anno => by
      intro x hx
      simp only [targetNamesL, List.mem_append] at hx
      simp only [effEs, Eff.append_read, List.mem_append]
      rcases hx with hx | hx
      · exact Or.inl (augTargets_sub_effE e fns anno x hx)
      · exact Or.inr (augTargets_sub_effEs rest fns anno x hx)
end


/-! ### every statement-level unit gets a scope that contains what it reads and rebinds -/

def keyOf : NodeKey → AnnoKey
  | .scope => .scope
  | .iterate => .iterateScope

/-- The scope `c` covers the unit `u`. -/
def Good (u : ExecUnit) (c : Scope) : Prop :=
  (∀ x ∈ u.reads, QN.sym x ∈ c.read) ∧ (∀ x ∈ u.writes, QN.sym x ∈ c.modified ∨ QN.sym x ∈ c.deleted)

/-- The analysis has annotated the node of `u` with a scope covering `u`. -/
def Recorded (st : St) (u : ExecUnit) : Prop := ∃ c, (u.id, keyOf u.key, c) ∈ st.annos ∧ Good u c

theorem Recorded.mono {a b : St} {d : Eff} {u : ExecUnit} (h : Adds a b d) (r : Recorded a u) : Recorded b u := by
  obtain ⟨c, hc, hg⟩ := r
  obtain ⟨n, e⟩ := h.ext
  exact ⟨c, by rw [e]; exact List.mem_append_right _ hc, hg⟩

theorem Recorded.popFn {x : St} {u : ExecUnit} (r : Recorded x u) : Recorded x.popFn u := r

theorem scoped_recorded {st st2 st3 : St} {iso : Bool} {d : Eff} {recs : List (Nat × AnnoKey)}
    (S : Scoped st st2 iso d recs st3) (u : ExecUnit) (hk : (u.id, keyOf u.key) ∈ recs)
    (hr : ∀ x ∈ u.reads, QN.sym x ∈ d.read)
    (hw : ∀ x ∈ u.writes, QN.sym x ∈ d.modified ∨ QN.sym x ∈ d.deleted) : Recorded st3 u := by
  obtain ⟨c, hp, ha, -⟩ := S.popped
  refine ⟨c, ?_, fun x hx => (hp.read _).mpr (hr x hx), fun x hx => ?_⟩
  · rw [ha]
    apply List.mem_append_left
    simp only [List.mem_reverse, List.mem_map]
    exact ⟨(u.id, keyOf u.key), hk, rfl⟩
  · rcases hw x hx with h | h
    · exact Or.inl ((hp.modified _).mpr h)
    · exact Or.inr ((hp.deleted _).mpr h)

theorem readsEs_append (hid : List String) (a b : List Expr) : readsEs hid (a ++ b) = readsEs hid a ++ readsEs hid b := by
  induction a with
  | nil => simp [readsEs]
  | cons e r ih => simp [readsEs, ih]

theorem writesEs_append (hid : List String) (a b : List Expr) : writesEs hid (a ++ b) = writesEs hid a ++ writesEs hid b := by
  induction a with
  | nil => simp [writesEs]
  | cons e r ih => simp [writesEs, ih]

theorem effEs_append (fns : List FnCtx) (aug anno : Bool) (a b : List Expr) (q : QN) :
    (q ∈ (effEs fns aug anno (a ++ b)).read ↔ q ∈ (effEs fns aug anno a).read ∨ q ∈ (effEs fns aug anno b).read) ∧
    (q ∈ (effEs fns aug anno (a ++ b)).modified ↔ q ∈ (effEs fns aug anno a).modified ∨ q ∈ (effEs fns aug anno b).modified) := by
  induction a with
  | nil => simp [effEs]
  | cons e r ih => simp [effEs, ih.1, ih.2, or_assoc]

theorem argAnnos_plain (as : List Expr) (h : as.all isPlainArg = true) : argAnnos as = [] := by
  induction as with
  | nil => rfl
  | cons a r ih =>
    simp only [List.all_cons, Bool.and_eq_true] at h
    match a, h.1 with
    | .arg _ n [], _ => simp [argAnnos, List.flatMap_cons] at *; simpa [argAnnos] using ih h.2


theorem recorded_withitems (items : List Expr) (hf : FragEs items = true) (hw : items.all isWithitem = true) (st : St) (fns : List FnCtx) (p : PlainS st fns) :
    ∀ u ∈ items.map (fun it => simpleUnit it.id [it]), Recorded (visitEs items st) u := by
  induction items generalizing st with
  | nil => simp
  | cons it rest ih =>
    simp only [FragEs, Bool.and_eq_true] at hf
    simp only [List.all_cons, Bool.and_eq_true] at hw
    intro u hu
    simp only [List.map_cons, List.mem_cons] at hu
    simp only [visitEs]
    have A1 := visitE_adds it st p.plain hf.1 fns false false p.ctx
    rcases hu with hu | hu
    · subst hu
      apply Recorded.mono (visitEs_adds rest _ A1.plain hf.2 fns false false (A1.inCtx p.ctx))
      cases it with
      | withitem i c v =>
        simp only [FragE, Bool.and_eq_true] at hf
        simp only [visitE]
        have B1 := visitE_adds c _ (St.enter_plain p.plain false none) hf.1.1 fns false false (p.ctx.enter false none)
        have B2 := B1.trans (visitEs_adds v _ B1.plain hf.1.2 fns false false (B1.inCtx (p.ctx.enter false none)))
        refine scoped_recorded (scoped_block p.plain false none B2 [(i, .scope)]) _ (by simp [simpleUnit, keyOf, Expr.id]) ?_ ?_
        · intro x hx
          simp only [simpleUnit, List.nil_append, readsEs, readsE, List.append_nil, List.mem_append] at hx
          simp only [Eff.append_read, List.mem_append]
          rcases hx with hx | hx
          · exact Or.inl (reads_sub_effE c hf.1.1 fns false false x hx)
          · exact Or.inr (reads_sub_effEs v hf.1.2 fns false false x hx)
        · intro x hx
          simp only [simpleUnit, List.nil_append, writesEs, writesE, List.append_nil, List.mem_append] at hx
          simp only [Eff.append_modified, List.mem_append]
          rcases hx with hx | hx
          · exact Or.inl (Or.inl (writes_sub_effE c hf.1.1 fns false false x hx))
          · exact Or.inl (Or.inr (writes_sub_effEs v hf.1.2 fns false false x hx))
      | _ => simp [isWithitem] at hw
    · exact ih hf.2 hw.2 _ (A1.plainS p) u hu


/-- The pattern of `_process_parallel_blocks`: what each block visitor records is still recorded at the end. -/
theorem parallel_units {st : St} {fns} (p : PlainS st fns) (f g : St → St) (U1 U2 : List ExecUnit) (d1 d2 : Eff)
    (hf : ∀ s, PlainS s fns → Adds s (f s) d1) (hg : ∀ s, PlainS s fns → Adds s (g s) d2)
    (uf : ∀ s, PlainS s fns → ∀ u ∈ U1, Recorded (f s) u) (ug : ∀ s, PlainS s fns → ∀ u ∈ U2, Recorded (g s) u) :
    ∀ u ∈ U1 ++ U2, Recorded ((g ((f (st.restore st.stack)).restore st.stack)).mergeAfter (f (st.restore st.stack)).stack
              (g ((f (st.restore st.stack)).restore st.stack)).stack) u := by
  rw [St.restore_self]
  intro u hu
  have A1 := hf st p
  have R := restore_adds p.plain A1
  have q := R.plainS p
  have A2 := hg _ q
  have hm : ∀ (x : St) (a b : List Scope), Recorded x u → Recorded (x.mergeAfter a b) u := fun x a b r => r
  apply hm
  simp only [List.mem_append] at hu
  rcases hu with hu | hu
  · have r1 : Recorded (f st) u := uf st p u hu
    have r2 : Recorded ((f st).restore st.stack) u := r1
    exact Recorded.mono A2 r2
  · exact ug _ q u hu

/-- A block processed by `_process_block_node` keeps what its statements recorded. -/
theorem block_units {fns} (body : List Stmt) (hb : FragSs body = true) (recs : List (Nat × AnnoKey))
    (ih : ∀ s, PlainS s fns → ∀ u ∈ stmtUnitsL body, Recorded (visitSs body s) u) :
    ∀ s, PlainS s fns → ∀ u ∈ stmtUnitsL body, Recorded ((visitSs body (s.enter false)).exitWith recs) u := by
  intro s ps u hu
  have B1 := visitSs_adds body _ fns (ps.enter false none) hb
  obtain ⟨c, hc, hg⟩ := ih _ (ps.enter false none) u hu
  obtain ⟨c', -, ha, -⟩ := (scoped_block ps.plain false none B1 recs).popped
  exact ⟨c, by rw [ha]; exact List.mem_append_right _ hc, hg⟩


/-- A simple statement (`_process_statement`): one scope around the visits of its parts. -/
theorem simple_unit {st st2 : St} {fns} (p : PlainS st fns) {d : Eff} (A : Adds (st.enter false) st2 d) (i : Nat)
    (u : ExecUnit) (hid : u.id = i) (hkey : u.key = .scope)
    (hr : ∀ x ∈ u.reads, QN.sym x ∈ d.read) (hw : ∀ x ∈ u.writes, QN.sym x ∈ d.modified ∨ QN.sym x ∈ d.deleted) :
    Recorded (st2.exitWith [(i, .scope)]) u :=
  scoped_recorded (scoped_block p.plain false none A [(i, .scope)]) u (by simp [hid, hkey, keyOf]) hr hw

mutual
theorem visitS_units : (s : Stmt) → (st : St) → (fns : List FnCtx) → PlainS st fns → FragS s = true →
    ∀ u ∈ stmtUnits s, Recorded (visitS s st) u
  | .ret i v, st, fns, p, hf => by
      simp only [FragS] at hf
      intro u hu
      simp only [stmtUnits, List.mem_singleton] at hu
      subst hu
      simp only [visitS]
      refine simple_unit p (visitEs_adds v _ (St.enter_plain p.plain false none) hf fns false false (p.ctx.enter false none))
        i _ rfl rfl ?_ ?_
      · intro x hx; simp only [simpleUnit, List.nil_append] at hx; exact reads_sub_effEs v hf fns false false x hx
      · intro x hx; simp only [simpleUnit, List.nil_append] at hx; exact Or.inl (writes_sub_effEs v hf fns false false x hx)
  | .delete i ts, st, fns, p, hf => by
      simp only [FragS] at hf
      intro u hu
      simp only [stmtUnits, List.mem_singleton] at hu
      subst hu
      simp only [visitS]
      refine simple_unit p (visitEs_adds ts _ (St.enter_plain p.plain false none) hf fns false false (p.ctx.enter false none))
        i _ rfl rfl ?_ ?_
      · intro x hx; simp only [simpleUnit, List.nil_append] at hx; exact reads_sub_effEs ts hf fns false false x hx
      · intro x hx
        simp only [simpleUnit, List.mem_append] at hx
        rcases hx with hx | hx
        · exact Or.inr (dels_sub_effEs ts fns false false x hx)
        · exact Or.inl (writes_sub_effEs ts hf fns false false x hx)
  | .assign i ts v, st, fns, p, hf => by
      simp only [FragS, Bool.and_eq_true] at hf
      intro u hu
      simp only [stmtUnits, List.mem_singleton] at hu
      subst hu
      simp only [visitS]
      have A1 := visitEs_adds ts _ (St.enter_plain p.plain false none) hf.1 fns false false (p.ctx.enter false none)
      have A2 := A1.trans (visitE_adds v _ A1.plain hf.2 fns false false (A1.inCtx (p.ctx.enter false none)))
      refine simple_unit p A2 i _ rfl rfl ?_ ?_
      · intro x hx
        simp only [simpleUnit, List.nil_append, readsEs_append, readsEs, List.append_nil, List.mem_append] at hx
        simp only [Eff.append_read, List.mem_append]
        rcases hx with hx | hx
        · exact Or.inl (reads_sub_effEs ts hf.1 fns false false x hx)
        · exact Or.inr (reads_sub_effE v hf.2 fns false false x hx)
      · intro x hx
        simp only [simpleUnit, List.nil_append, writesEs_append, writesEs, List.append_nil, List.mem_append] at hx
        simp only [Eff.append_modified, List.mem_append]
        rcases hx with hx | hx
        · exact Or.inl (Or.inl (writes_sub_effEs ts hf.1 fns false false x hx))
        · exact Or.inl (Or.inr (writes_sub_effE v hf.2 fns false false x hx))
  | .augAssign i t op v, st, fns, p, hf => by
      simp only [FragS, Bool.and_eq_true] at hf
      intro u hu
      simp only [stmtUnits, List.mem_singleton] at hu
      subst hu
      simp only [visitS]
      have p1 := p.enter false none
      obtain ⟨hp, hc⟩ := p1.setInAug
      have A1 := aug_bracket p1 (visitE_adds t _ hp hf.1 fns true false hc)
      have A2 := A1.trans (visitE_adds v _ A1.plain hf.2 fns false false (A1.inCtx p1.ctx))
      refine simple_unit p A2 i _ rfl rfl ?_ ?_
      · intro x hx
        simp only [simpleUnit, readsEs, List.append_nil, List.mem_append] at hx
        simp only [Eff.append_read, List.mem_append]
        rcases hx with hx | hx | hx
        · exact Or.inl (augTargets_sub_effE t fns false x hx)
        · exact Or.inl (reads_sub_effE t hf.1 fns true false x hx)
        · exact Or.inr (reads_sub_effE v hf.2 fns false false x hx)
      · intro x hx
        simp only [simpleUnit, List.nil_append, writesEs, List.append_nil, List.mem_append] at hx
        simp only [Eff.append_modified, List.mem_append]
        rcases hx with hx | hx
        · exact Or.inl (Or.inl (writes_sub_effE t hf.1 fns true false x hx))
        · exact Or.inl (Or.inr (writes_sub_effE v hf.2 fns false false x hx))
  | .annAssign i t an v simple, st, fns, p, hf => by
      simp only [FragS, Bool.and_eq_true] at hf
      intro u hu
      simp only [stmtUnits, List.mem_singleton] at hu
      subst hu
      simp only [visitS]
      have p1 := p.enter false none
      have A1 := visitE_adds t _ p1.plain hf.1.1 fns false false p1.ctx
      have A2 := A1.trans (visitEs_adds v _ A1.plain hf.2 fns false false (A1.inCtx p1.ctx))
      obtain ⟨hp, hc⟩ := (A2.plainS p1).setInAnno
      have A3 := A2.trans (anno_bracket (A2.plainS p1) (visitE_adds an _ hp hf.1.2 fns false true hc))
      refine simple_unit p A3 i _ rfl rfl ?_ ?_
      · intro x hx
        simp only [simpleUnit, List.nil_append, List.cons_append, readsEs, List.mem_append] at hx
        simp only [Eff.append_read, List.mem_append]
        rcases hx with hx | hx | hx
        · exact Or.inl (Or.inl (reads_sub_effE t hf.1.1 fns false false x hx))
        · exact Or.inr (reads_sub_effE an hf.1.2 fns false true x hx)
        · exact Or.inl (Or.inr (reads_sub_effEs v hf.2 fns false false x hx))
      · intro x hx
        simp only [simpleUnit, List.nil_append, List.cons_append, writesEs, List.mem_append] at hx
        simp only [Eff.append_modified, List.mem_append]
        rcases hx with hx | hx | hx
        · exact Or.inl (Or.inl (Or.inl (writes_sub_effE t hf.1.1 fns false false x hx)))
        · exact Or.inl (Or.inr (writes_sub_effE an hf.1.2 fns false true x hx))
        · exact Or.inl (Or.inl (Or.inr (writes_sub_effEs v hf.2 fns false false x hx)))
  | .raise i e c, st, fns, p, hf => by
      simp only [FragS, Bool.and_eq_true] at hf
      intro u hu
      simp only [stmtUnits, List.mem_singleton] at hu
      subst hu
      simp only [visitS]
      have A1 := visitEs_adds e _ (St.enter_plain p.plain false none) hf.1 fns false false (p.ctx.enter false none)
      have A2 := A1.trans (visitEs_adds c _ A1.plain hf.2 fns false false (A1.inCtx (p.ctx.enter false none)))
      refine simple_unit p A2 i _ rfl rfl ?_ ?_
      · intro x hx
        simp only [simpleUnit, List.nil_append, readsEs_append, List.mem_append] at hx
        simp only [Eff.append_read, List.mem_append]
        rcases hx with hx | hx
        · exact Or.inl (reads_sub_effEs e hf.1 fns false false x hx)
        · exact Or.inr (reads_sub_effEs c hf.2 fns false false x hx)
      · intro x hx
        simp only [simpleUnit, List.nil_append, writesEs_append, List.mem_append] at hx
        simp only [Eff.append_modified, List.mem_append]
        rcases hx with hx | hx
        · exact Or.inl (Or.inl (writes_sub_effEs e hf.1 fns false false x hx))
        · exact Or.inl (Or.inr (writes_sub_effEs c hf.2 fns false false x hx))
  | .assert_ i t m, st, fns, p, hf => by
      simp only [FragS, Bool.and_eq_true] at hf
      intro u hu
      simp only [stmtUnits, List.mem_singleton] at hu
      subst hu
      simp only [visitS]
      have A1 := visitE_adds t _ (St.enter_plain p.plain false none) hf.1 fns false false (p.ctx.enter false none)
      have A2 := A1.trans (visitEs_adds m _ A1.plain hf.2 fns false false (A1.inCtx (p.ctx.enter false none)))
      refine simple_unit p A2 i _ rfl rfl ?_ ?_
      · intro x hx
        simp only [simpleUnit, List.nil_append, readsEs, List.mem_append] at hx
        simp only [Eff.append_read, List.mem_append]
        rcases hx with hx | hx
        · exact Or.inl (reads_sub_effE t hf.1 fns false false x hx)
        · exact Or.inr (reads_sub_effEs m hf.2 fns false false x hx)
      · intro x hx
        simp only [simpleUnit, List.nil_append, writesEs, List.mem_append] at hx
        simp only [Eff.append_modified, List.mem_append]
        rcases hx with hx | hx
        · exact Or.inl (Or.inl (writes_sub_effE t hf.1 fns false false x hx))
        · exact Or.inl (Or.inr (writes_sub_effEs m hf.2 fns false false x hx))
  | .expr i v, st, fns, p, hf => by
      simp only [FragS] at hf
      intro u hu
      simp only [stmtUnits, List.mem_singleton] at hu
      subst hu
      simp only [visitS]
      refine simple_unit p (visitE_adds v _ (St.enter_plain p.plain false none) hf fns false false (p.ctx.enter false none))
        i _ rfl rfl ?_ ?_
      · intro x hx
        simp only [simpleUnit, List.nil_append, readsEs, List.append_nil] at hx
        exact reads_sub_effE v hf fns false false x hx
      · intro x hx
        simp only [simpleUnit, List.nil_append, writesEs, List.append_nil] at hx
        exact Or.inl (writes_sub_effE v hf fns false false x hx)
  | .import_ i names, st, fns, p, _ => by
      intro u hu
      simp only [stmtUnits, List.mem_singleton] at hu
      subst hu
      simp only [visitS]
      refine simple_unit p (visitAliases_adds names (St.enter_plain p.plain false none)) i _ rfl rfl (by simp) ?_
      intro x hx
      simp only [List.mem_map] at hx
      obtain ⟨a, ha, rfl⟩ := hx
      exact Or.inl (by simp only [aliasEff, List.mem_map]; exact ⟨a, ha, rfl⟩)
  | .importFrom i m names l, st, fns, p, _ => by
      intro u hu
      simp only [stmtUnits, List.mem_singleton] at hu
      subst hu
      simp only [visitS]
      refine simple_unit p (visitAliases_adds names (St.enter_plain p.plain false none)) i _ rfl rfl (by simp) ?_
      intro x hx
      simp only [List.mem_map] at hx
      obtain ⟨a, ha, rfl⟩ := hx
      exact Or.inl (by simp only [aliasEff, List.mem_map]; exact ⟨a, ha, rfl⟩)
  | .global i names, st, fns, p, _ => by
      intro u hu
      simp only [stmtUnits, List.mem_singleton] at hu
      subst hu
      simp only [visitS]
      exact simple_unit p (declGlobals_adds names (St.enter_plain p.plain false none)) i _ rfl rfl (by simp) (by simp)
  | .nonlocal i names, st, fns, p, _ => by
      intro u hu
      simp only [stmtUnits, List.mem_singleton] at hu
      subst hu
      simp only [visitS]
      exact simple_unit p (declNonlocals_adds names (St.enter_plain p.plain false none)) i _ rfl rfl (by simp) (by simp)
  | .pass _, _, _, _, _ => by simp [stmtUnits]
  | .break_ _, _, _, _, _ => by simp [stmtUnits]
  | .continue_ _, _, _, _, _ => by simp [stmtUnits]
  | .other _ _ es bs, st, fns, p, hf => by
      simp only [FragS, Bool.and_eq_true] at hf
      simp only [stmtUnits, visitS]
      have A1 := visitEs_adds es _ p.plain hf.1 fns false false p.ctx
      exact visitSs_units bs _ fns (A1.plainS p) hf.2
  | .try_ _ b h o f, st, fns, p, hf => by
      simp only [FragS, Bool.and_eq_true] at hf
      intro u hu
      simp only [stmtUnits, List.mem_append] at hu
      simp only [visitS]
      have A1 := visitSs_adds b _ fns p hf.1.1.1
      have A2 := visitSs_adds h _ fns (A1.plainS p) hf.1.1.2
      have A3 := visitSs_adds o _ fns ((A1.trans A2).plainS p) hf.1.2
      have A4 := visitSs_adds f _ fns (((A1.trans A2).trans A3).plainS p) hf.2
      rcases hu with ((hu | hu) | hu) | hu
      · exact Recorded.mono A4 (Recorded.mono A3 (Recorded.mono A2 (visitSs_units b _ fns p hf.1.1.1 u hu)))
      · exact Recorded.mono A4 (Recorded.mono A3 (visitSs_units h _ fns (A1.plainS p) hf.1.1.2 u hu))
      · exact Recorded.mono A4 (visitSs_units o _ fns ((A1.trans A2).plainS p) hf.1.2 u hu)
      · exact visitSs_units f _ fns (((A1.trans A2).trans A3).plainS p) hf.2 u hu
  | .handler _ ty name body, st, fns, p, hf => by
      simp only [FragS, Bool.and_eq_true] at hf
      intro u hu
      simp only [stmtUnits] at hu
      simp only [visitS]
      have p1 := p.enter false none
      have E : Adds (st.enter false) (if name.isEmpty = true then st.enter false else (st.enter false).setErr) {} := by
        split
        · exact Adds.refl p1.plain
        · exact ⟨p1.plain.ne, rfl, ScopeAdds.refl _, rfl, rfl, rfl, p1.plain.annoOnly, p1.plain.comps, ⟨[], rfl⟩⟩
      have A1 := E.trans (visitEs_adds ty _ E.plain hf.1 fns false false (E.inCtx p1.ctx))
      have A2 := A1.trans (visitSs_adds body _ fns (A1.plainS p1) hf.2)
      obtain ⟨c, hc, hg⟩ := visitSs_units body _ fns (A1.plainS p1) hf.2 u hu
      obtain ⟨c', -, ha, -⟩ := (scoped_block p.plain false none A2 []).popped
      exact ⟨c, by rw [ha]; exact List.mem_append_right _ hc, hg⟩
  | .with_ i items body isAsync, st, fns, p, hf => by
      simp only [FragS, Bool.and_eq_true, Bool.not_eq_true'] at hf
      obtain ⟨⟨⟨ha, hi⟩, hw⟩, hb⟩ := hf
      subst ha
      intro u hu
      simp only [stmtUnits, List.mem_append] at hu
      simp only [visitS, Bool.false_eq_true, ↓reduceIte]
      have p1 := p.enter false none
      have A1 := visitEs_adds items _ p1.plain hi fns false false p1.ctx
      have A2 := visitSs_adds body _ fns (A1.plainS p1) hb
      have r : Recorded (visitSs body (visitEs items (st.enter false))) u := by
        rcases hu with hu | hu
        · exact Recorded.mono A2 (recorded_withitems items hi hw _ fns p1 u hu)
        · exact visitSs_units body _ fns (A1.plainS p1) hb u hu
      obtain ⟨c, hc, hg⟩ := r
      obtain ⟨c', -, hx, -⟩ := (scoped_block p.plain false none (A1.trans A2) [(i, .bodyScope)]).popped
      exact ⟨c, by rw [hx]; exact List.mem_append_right _ hc, hg⟩
  | .if_ i test body orelse, st, fns, p, hf => by
      simp only [FragS, Bool.and_eq_true] at hf
      intro u hu
      simp only [stmtUnits, List.mem_cons] at hu
      simp only [visitS]
      have A := visitE_adds test _ (St.enter_plain p.plain false none) hf.1.1 fns false false (p.ctx.enter false none)
      have SB := scoped_block p.plain false none A [(test.id, .scope), (i, .condScope)]
      have S1 := SB.adds
      have P := parallel_blocks (S1.plainS p)
        (fun s => ((s.enter false) |> visitSs body).exitWith [(i, .bodyScope)])
        (fun s => ((s.enter false) |> visitSs orelse).exitWith [(i, .orelseScope)]) _ _
        (fun s ps => Adds.scopedAdds ps.plain false none (visitSs_adds body _ fns (ps.enter false none) hf.1.2) _)
        (fun s ps => Adds.scopedAdds ps.plain false none (visitSs_adds orelse _ fns (ps.enter false none) hf.2) _)
      rcases hu with hu | hu
      · subst hu
        apply Recorded.mono P
        refine scoped_recorded SB _ (by simp [simpleUnit, keyOf]) ?_ ?_
        · intro x hx
          simp only [simpleUnit, List.nil_append, readsEs, List.append_nil] at hx
          exact reads_sub_effE test hf.1.1 fns false false x hx
        · intro x hx
          simp only [simpleUnit, List.nil_append, writesEs, List.append_nil] at hx
          exact Or.inl (writes_sub_effE test hf.1.1 fns false false x hx)
      · exact parallel_units (S1.plainS p)
          (fun s => ((s.enter false) |> visitSs body).exitWith [(i, .bodyScope)])
          (fun s => ((s.enter false) |> visitSs orelse).exitWith [(i, .orelseScope)]) _ _ _ _
          (fun s ps => Adds.scopedAdds ps.plain false none (visitSs_adds body _ fns (ps.enter false none) hf.1.2) _)
          (fun s ps => Adds.scopedAdds ps.plain false none (visitSs_adds orelse _ fns (ps.enter false none) hf.2) _)
          (block_units body hf.1.2 _ (fun s ps => visitSs_units body s fns ps hf.1.2))
          (block_units orelse hf.2 _ (fun s ps => visitSs_units orelse s fns ps hf.2)) u hu
  | .while_ i test body orelse, st, fns, p, hf => by
      simp only [FragS, Bool.and_eq_true] at hf
      intro u hu
      simp only [stmtUnits, List.mem_cons] at hu
      simp only [visitS]
      have A := visitE_adds test _ (St.enter_plain p.plain false none) hf.1.1 fns false false (p.ctx.enter false none)
      have SB := scoped_block p.plain false none A [(test.id, .scope), (i, .condScope)]
      have S1 := SB.adds
      have P := parallel_blocks (S1.plainS p)
        (fun s => ((s.enter false) |> visitSs body).exitWith [(i, .bodyScope)])
        (fun s => ((s.enter false) |> visitSs orelse).exitWith [(i, .orelseScope)]) _ _
        (fun s ps => Adds.scopedAdds ps.plain false none (visitSs_adds body _ fns (ps.enter false none) hf.1.2) _)
        (fun s ps => Adds.scopedAdds ps.plain false none (visitSs_adds orelse _ fns (ps.enter false none) hf.2) _)
      rcases hu with hu | hu
      · subst hu
        apply Recorded.mono P
        refine scoped_recorded SB _ (by simp [simpleUnit, keyOf]) ?_ ?_
        · intro x hx
          simp only [simpleUnit, List.nil_append, readsEs, List.append_nil] at hx
          exact reads_sub_effE test hf.1.1 fns false false x hx
        · intro x hx
          simp only [simpleUnit, List.nil_append, writesEs, List.append_nil] at hx
          exact Or.inl (writes_sub_effE test hf.1.1 fns false false x hx)
      · exact parallel_units (S1.plainS p)
          (fun s => ((s.enter false) |> visitSs body).exitWith [(i, .bodyScope)])
          (fun s => ((s.enter false) |> visitSs orelse).exitWith [(i, .orelseScope)]) _ _ _ _
          (fun s ps => Adds.scopedAdds ps.plain false none (visitSs_adds body _ fns (ps.enter false none) hf.1.2) _)
          (fun s ps => Adds.scopedAdds ps.plain false none (visitSs_adds orelse _ fns (ps.enter false none) hf.2) _)
          (block_units body hf.1.2 _ (fun s ps => visitSs_units body s fns ps hf.1.2))
          (block_units orelse hf.2 _ (fun s ps => visitSs_units orelse s fns ps hf.2)) u hu
  | .for_ i t it body orelse extra isAsync, st, fns, p, hf => by
      simp only [FragS, Bool.and_eq_true, Bool.not_eq_true', List.isEmpty_iff] at hf
      obtain ⟨⟨⟨⟨⟨ha, hx⟩, ht⟩, hit⟩, hb⟩, ho⟩ := hf
      subst ha hx
      intro u hu
      simp only [stmtUnits, List.mem_cons] at hu
      simp only [visitS, Bool.false_eq_true, ↓reduceIte]
      have p1 := p.enter false none
      have A1 := visitE_adds t _ p1.plain ht fns false false p1.ctx
      have A2 := A1.trans (visitE_adds it _ A1.plain hit fns false false (A1.inCtx p1.ctx))
      have SB1 := scoped_block p.plain false none A2 [(it.id, .scope)]
      have S1 := SB1.adds
      have q := S1.plainS p
      have B := visitE_adds t _ (q.enter false none).plain ht fns false false (q.enter false none).ctx
      have SB2 := scoped_block q.plain false none B [(i, .iterateScope)]
      have S2 := SB2.adds
      have P := parallel_blocks (S2.plainS q)
        (fun s => ((s.enter false) |> visitSs body).exitWith [(i, .bodyScope)])
        (fun s => ((s.enter false) |> visitSs orelse).exitWith [(i, .orelseScope)]) _ _
        (fun s ps => Adds.scopedAdds ps.plain false none (visitSs_adds body _ fns (ps.enter false none) hb) _)
        (fun s ps => Adds.scopedAdds ps.plain false none (visitSs_adds orelse _ fns (ps.enter false none) ho) _)
      rcases hu with hu | hu | hu
      · subst hu
        apply Recorded.mono P
        apply Recorded.mono S2
        refine scoped_recorded SB1 _ (by simp [simpleUnit, keyOf]) ?_ ?_
        · intro x hx
          simp only [simpleUnit, List.nil_append, readsEs, List.append_nil] at hx
          simp only [Eff.append_read, List.mem_append]
          exact Or.inr (reads_sub_effE it hit fns false false x hx)
        · intro x hx
          simp only [simpleUnit, List.nil_append, writesEs, List.append_nil] at hx
          simp only [Eff.append_modified, List.mem_append]
          exact Or.inl (Or.inr (writes_sub_effE it hit fns false false x hx))
      · subst hu
        apply Recorded.mono P
        refine scoped_recorded SB2 _ (by simp [keyOf]) ?_ ?_
        · intro x hx; exact reads_sub_effE t ht fns false false x hx
        · intro x hx; exact Or.inl (writes_sub_effE t ht fns false false x hx)
      · exact parallel_units (S2.plainS q)
          (fun s => ((s.enter false) |> visitSs body).exitWith [(i, .bodyScope)])
          (fun s => ((s.enter false) |> visitSs orelse).exitWith [(i, .orelseScope)]) _ _ _ _
          (fun s ps => Adds.scopedAdds ps.plain false none (visitSs_adds body _ fns (ps.enter false none) hb) _)
          (fun s ps => Adds.scopedAdds ps.plain false none (visitSs_adds orelse _ fns (ps.enter false none) ho) _)
          (block_units body hb _ (fun s ps => visitSs_units body s fns ps hb))
          (block_units orelse ho _ (fun s ps => visitSs_units orelse s fns ps ho)) u hu
  | .classDef i name bases kws body decos, st, fns, p, hf => by
      simp only [FragS, Bool.and_eq_true] at hf
      obtain ⟨⟨⟨hb, hk⟩, hd⟩, hbody⟩ := hf
      intro u hu
      simp only [stmtUnits, List.mem_cons] at hu
      simp only [visitS]
      apply Recorded.popFn
      have p0 := p.pushFn (.cls i)
      generalize st.pushFn (.cls i) = s0 at p0 ⊢
      have p1 := p0.enter false none
      have A1 := visitEs_adds decos _ p1.plain hd _ false false p1.ctx
      have A2 := A1.trans (Adds.addModified A1.plain (.sym name))
      have A3 := A2.trans (Adds.addBound A2.plain (.sym name))
      have A4 := A3.trans (visitEs_adds bases _ A3.plain hb _ false false (A3.inCtx p1.ctx))
      have A5 := A4.trans (visitEs_adds kws _ A4.plain hk _ false false (A4.inCtx p1.ctx))
      have SB1 := scoped_block p0.plain false none A5 [(i, .scope)]
      have S1 := SB1.adds
      have q := S1.plainS p0
      have q1 := q.enter true none
      have B1 := visitEs_adds bases _ q1.plain hb _ false false q1.ctx
      have B2 := B1.trans (visitEs_adds kws _ B1.plain hk _ false false (B1.inCtx q1.ctx))
      have B3 := visitSs_adds body _ _ (B2.plainS q1) hbody
      have B4 := visitEs_adds decos _ (B2.trans B3).plain hd _ false false ((B2.trans B3).inCtx q1.ctx)
      have SB2 := scoped_block q.plain true none ((B2.trans B3).trans B4) []
      rcases hu with hu | hu
      · subst hu
        apply Recorded.mono SB2.adds
        refine scoped_recorded SB1 _ (by simp [simpleUnit, keyOf]) ?_ ?_
        · intro x hx
          simp only [simpleUnit, List.nil_append, readsEs_append, List.mem_append] at hx
          simp only [Eff.append_read, List.mem_append]
          rcases hx with (hx | hx) | hx
          · exact Or.inl (Or.inl (Or.inl (Or.inl (reads_sub_effEs decos hd _ false false x hx))))
          · exact Or.inl (Or.inr (reads_sub_effEs bases hb _ false false x hx))
          · exact Or.inr (reads_sub_effEs kws hk _ false false x hx)
        · intro x hx
          simp only [simpleUnit, List.cons_append, List.nil_append, writesEs_append, List.mem_cons, List.mem_append] at hx
          simp only [Eff.append_modified, List.mem_append]
          rcases hx with hx | (hx | hx) | hx
          · subst hx; exact Or.inl (Or.inl (Or.inl (Or.inl (Or.inr (by simp)))))
          · exact Or.inl (Or.inl (Or.inl (Or.inl (Or.inl (writes_sub_effEs decos hd _ false false x hx)))))
          · exact Or.inl (Or.inl (Or.inr (writes_sub_effEs bases hb _ false false x hx)))
          · exact Or.inl (Or.inr (writes_sub_effEs kws hk _ false false x hx))
      · obtain ⟨c, hc, hg⟩ := Recorded.mono B4 (visitSs_units body _ _ (B2.plainS q1) hbody u hu)
        obtain ⟨c', -, hx, -⟩ := SB2.popped
        exact ⟨c, by rw [hx]; exact List.mem_append_right _ hc, hg⟩
  | .functionDef i name args body decos returns isAsync, st, fns, p, hf => by
      cases args with
      | arguments ai po ar va ko kd kw df =>
        simp only [FragS, Bool.and_eq_true, Bool.not_eq_true'] at hf
        obtain ⟨⟨⟨⟨ha, ⟨⟨⟨⟨⟨⟨hpo, har⟩, hva⟩, hko⟩, hkw⟩, hkd⟩, hdf⟩⟩, hdec⟩, hret⟩, hbody⟩ := hf
        subst ha
        have hpp : PlainParams po ar va ko kw := ⟨hpo, har, hva, hko, hkw⟩
        intro u hu
        simp only [stmtUnits, List.mem_cons] at hu
        simp only [visitS, Bool.false_eq_true, ↓reduceIte]
        rw [show ∀ s : St, (visitEs kw (visitEs ko (visitEs va (visitEs ar (visitEs po (s.setAnnoOnly true)))))).setAnnoOnly false
              = (visitParams po ar va ko kw (s.setAnnoOnly true)).setAnnoOnly false from fun _ => rfl,
            show ∀ s : St, visitEs kw (visitEs ko (visitEs va (visitEs ar (visitEs po s)))) = visitParams po ar va ko kw s
              from fun _ => rfl]
        apply Recorded.popFn
        have p0 := p.pushFn (.fn i name)
        generalize st.pushFn (.fn i name) = s0 at p0 ⊢
        have p1 := p0.enter false none
        have A1 := visitEs_adds decos _ p1.plain hdec _ false false p1.ctx
        have A2 := A1.trans (returnsStep_adds returns (A1.plainS p1)
          (fun s hs hc => visitEs_adds returns s hs hret _ false true hc))
        have A3 := A2.trans (visitEs_adds kd _ A2.plain hkd _ false false (A2.inCtx p1.ctx))
        have A4 := A3.trans (visitEs_adds df _ A3.plain hdf _ false false (A3.inCtx p1.ctx))
        have A5 := A4.trans (visitParams_adds hpp A4.plain)
        rw [visitParams_annoOnly hpp A4.plain]
        have A6 := A5.trans (Adds.addModified A5.plain (.sym name))
        have A7 := A6.trans (Adds.addBound A6.plain (.sym name))
        have SB1 := scoped_block p0.plain false none A7 [(i, .scope)]
        have S1 := SB1.adds
        have q := S1.plainS p0
        have qI := q.enter true (some name)
        have B1 := visitParams_adds hpp (St.enter_plain qI.plain false (some name))
        have SBa := Adds.scopedAdds qI.plain false (some name) B1 [(ai, .scope)]
        have qB := SBa.plainS qI
        have B2 := visitSs_adds body _ _ (qB.enter false (some name)) hbody
        have SBb := scoped_block qB.plain false (some name) B2 [(i, .bodyScope)]
        have SBc := scoped_block q.plain true (some name) (SBa.trans SBb.adds) [(i, .argsAndBodyScope)]
        rcases hu with hu | hu
        · subst hu
          apply Recorded.mono SBc.adds
          refine scoped_recorded SB1 _ (by simp [simpleUnit, keyOf]) ?_ ?_
          · intro x hx
            have hann : argAnnos (po ++ ar ++ va ++ ko ++ kw) = [] :=
              argAnnos_plain _ (by simp [List.all_append, hpo, har, hva, hko, hkw])
            simp only [simpleUnit, defExprs, hann, List.nil_append, List.append_nil, readsEs_append, List.mem_append] at hx
            simp only [Eff.append_read, List.mem_append]
            rcases hx with ((hx | hx) | hx) | hx
            · exact Or.inl (Or.inl (Or.inl (Or.inl (Or.inl (Or.inl (reads_sub_effEs decos hdec _ false false x hx))))))
            · exact Or.inl (Or.inl (Or.inl (Or.inr (reads_sub_effEs df hdf _ false false x hx))))
            · exact Or.inl (Or.inl (Or.inl (Or.inl (Or.inr (reads_sub_effEs kd hkd _ false false x hx)))))
            · exact Or.inl (Or.inl (Or.inl (Or.inl (Or.inl (Or.inr (reads_sub_effEs returns hret _ false true x hx))))))
          · intro x hx
            have hann : argAnnos (po ++ ar ++ va ++ ko ++ kw) = [] :=
              argAnnos_plain _ (by simp [List.all_append, hpo, har, hva, hko, hkw])
            simp only [simpleUnit, defExprs, hann, List.cons_append, List.nil_append, List.append_nil, writesEs_append,
              List.mem_cons, List.mem_append] at hx
            simp only [Eff.append_modified, List.mem_append]
            rcases hx with hx | ((hx | hx) | hx) | hx
            · subst hx; exact Or.inl (Or.inl (Or.inr (by simp)))
            · exact Or.inl (Or.inl (Or.inl (Or.inl (Or.inl (Or.inl (Or.inl (writes_sub_effEs decos hdec _ false false x hx)))))))
            · exact Or.inl (Or.inl (Or.inl (Or.inl (Or.inr (writes_sub_effEs df hdf _ false false x hx)))))
            · exact Or.inl (Or.inl (Or.inl (Or.inl (Or.inl (Or.inr (writes_sub_effEs kd hkd _ false false x hx))))))
            · exact Or.inl (Or.inl (Or.inl (Or.inl (Or.inl (Or.inl (Or.inr (writes_sub_effEs returns hret _ false true x hx)))))))
        · obtain ⟨c, hc, hg⟩ := visitSs_units body _ _ (qB.enter false (some name)) hbody u hu
          obtain ⟨c1, -, hx1, -⟩ := SBb.popped
          obtain ⟨c2, -, hx2, -⟩ := SBc.popped
          exact ⟨c, by rw [hx2]; apply List.mem_append_right; rw [hx1]; exact List.mem_append_right _ hc, hg⟩
      | _ => simp [FragS] at hf
theorem visitSs_units : (ss : List Stmt) → (st : St) → (fns : List FnCtx) → PlainS st fns → FragSs ss = true →
    ∀ u ∈ stmtUnitsL ss, Recorded (visitSs ss st) u
  | [], _, _, _, _ => by simp [stmtUnitsL]
  | s :: rest, st, fns, p, hf => by
      simp only [FragSs, Bool.and_eq_true] at hf
      intro u hu
      simp only [stmtUnitsL, List.mem_append] at hu
      simp only [visitSs]
      have A1 := visitS_adds s st fns p hf.1
      rcases hu with hu | hu
      · exact Recorded.mono (visitSs_adds rest _ fns (A1.plainS p) hf.2) (visitS_units s st fns p hf.1 u hu)
      · exact visitSs_units rest _ fns (A1.plainS p) hf.2 u hu
end

end Malt.Analysis
