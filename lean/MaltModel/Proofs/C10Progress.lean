import MaltModel.Proofs.C10Inv
/-!
C10, part 4: absence of deadlock and livelock.  A measure (`work`) that every effective thread step
strictly decreases and no step increases; in every reachable state with an unfinished request some
thread can take an effective step (the lock holder is never blocked, and nobody is blocked when the
lock is free).
-/
namespace Malt.Cache

section
variable {Opts Factory : Type} [BEq Opts] [Hashable Opts]

/-- Position of a program counter along `transform_function` (every transition increases it). -/
def rank : Pc Factory → Nat
  | .idle => 0
  | .has1 lk => if lk then 7 else 1
  | .has2 lk _ => if lk then 8 else 2
  | .get1 lk => if lk then 9 else 3
  | .get1c lk => if lk then 10 else 4
  | .get2 lk _ => if lk then 11 else 5
  | .acq => 6
  | .xform => 12
  | .st1 _ => 13
  | .st1c _ => 14
  | .st2 _ _ => 15
  | .rel _ _ => 16
  | .inst _ _ => 17

theorem rank_le (pc : Pc Factory) : rank pc ≤ 17 := by
  cases pc <;> simp only [rank] <;> (try split) <;> omega

/-- Remaining work of a thread / of the system: 18 units per unfinished request, minus the progress
of the request in flight. -/
def workTh (th : Thread Opts Factory) : Nat := 18 * th.todo.length - rank th.pc
def work (s : State Opts Factory) : Nat := (s.threads.map workTh).sum

theorem sum_set_lt {α : Type} (f : α → Nat) : ∀ (l : List α) (t : Nat) (a old : α),
    l[t]? = some old → f a < f old → ((l.set t a).map f).sum < (l.map f).sum := by
  intro l
  induction l with
  | nil => intro t a old h; simp at h
  | cons x tl ih =>
    intro t a old h hlt
    cases t with
    | zero =>
      simp only [List.getElem?_cons_zero, Option.some.injEq] at h
      subst h
      simp only [List.set_cons_zero, List.map_cons, List.sum_cons]
      omega
    | succ n =>
      simp only [List.getElem?_cons_succ] at h
      have := ih n a old h hlt
      simp only [List.set_cons_succ, List.map_cons, List.sum_cons]
      omega

/-- Every transition of a request moves forward. -/
theorem action_rank (T : Code → Opts → Nat → Option Factory) (s : State Opts Factory) (t : Tid)
    (r : Request Opts) (pc : Pc Factory) :
    ∀ pc', (action T s t r pc).2 = .goto pc' → rank pc < rank pc' := by
  intro pc' h
  cases pc with
  | idle => simp [action] at h; subst h; simp [rank]
  | has1 lk =>
    simp only [action] at h
    cases ho : ofind r.code s.outer <;> simp only [ho] at h <;> cases lk <;> simp [miss] at h <;>
      subst h <;> simp [rank]
  | has2 lk b =>
    simp only [action] at h
    cases hb : (bfind r.opts (bucketAt s b)).isSome <;> simp only [hb] at h <;> cases lk <;>
      simp [miss] at h <;> subst h <;> simp [rank]
  | get1 lk =>
    simp only [action] at h
    cases ho : ofind r.code s.outer <;> simp only [ho] at h <;> cases lk <;> simp at h <;>
      subst h <;> simp [rank]
  | get1c lk => cases lk <;> simp [action] at h <;> subst h <;> simp [rank]
  | get2 lk b =>
    simp only [action] at h
    cases hb : bfind r.opts (bucketAt s b) <;> simp only [hb] at h <;> cases lk <;> simp at h <;>
      subst h <;> simp [rank]
  | acq =>
    simp only [action] at h
    cases hl : s.lock with
    | none => simp [hl] at h; subst h; simp [rank]
    | some hn =>
      obtain ⟨h', n⟩ := hn
      by_cases hh : h' = t
      · simp [hl, hh] at h; subst h; simp [rank]
      · simp [hl, hh] at h
  | xform =>
    simp only [action] at h
    cases hT : T r.code r.opts r.env.sig <;> simp only [hT] at h <;> simp at h <;> subst h <;> simp [rank]
  | st1 f =>
    simp only [action] at h
    cases ho : ofind r.code s.outer <;> simp only [ho] at h <;> simp at h <;> subst h <;> simp [rank]
  | st1c f => simp [action] at h; subst h; simp [rank]
  | st2 f b => simp [action] at h; subst h; simp [rank]
  | rel res own =>
    cases res with
    | none => simp [action] at h
    | some f => simp [action] at h; subst h; simp [rank]
  | inst f own => simp [action] at h

theorem set_same' {α : Type} {l : List α} {t : Nat} {a : α} (h : l[t]? = some a) : l.set t a = l := by
  apply List.ext_getElem?
  intro i
  rw [threads_set_get h]
  by_cases hi : i = t
  · subst hi; simp [h]
  · simp [hi]

/-- Only a thread waiting for a lock that *another* thread holds is blocked. -/
theorem blocked_iff {T : Code → Opts → Nat → Option Factory} {s : State Opts Factory} {t : Tid} {r : Request Opts}
    {pc : Pc Factory} (h : (action T s t r pc).2 = .blocked) :
    pc = .acq ∧ (action T s t r pc).1 = .nop ∧ ∃ h' n, s.lock = some (h', n) ∧ h' ≠ t := by
  cases pc with
  | acq =>
    refine ⟨rfl, ?_⟩
    simp only [action] at h
    cases hl : s.lock with
    | none => simp [hl] at h
    | some hn =>
      obtain ⟨h', n⟩ := hn
      by_cases hh : h' = t
      · simp [hl, hh] at h
      · exact ⟨by simp [action, hl, hh], h', n, rfl, hh⟩
  | idle => simp [action] at h
  | has1 lk => simp only [action] at h; cases ho : ofind r.code s.outer <;> simp [ho] at h
  | has2 lk b => simp only [action] at h; cases hb : (bfind r.opts (bucketAt s b)).isSome <;> simp [hb] at h
  | get1 lk => simp only [action] at h; cases ho : ofind r.code s.outer <;> simp [ho] at h
  | get1c lk => simp [action] at h
  | get2 lk b => simp only [action] at h; cases hb : bfind r.opts (bucketAt s b) <;> cases lk <;> simp [hb] at h
  | xform => simp only [action] at h; cases hT : T r.code r.opts r.env.sig <;> simp [hT] at h
  | st1 f => simp only [action] at h; cases ho : ofind r.code s.outer <;> simp [ho] at h
  | st1c f => simp [action] at h
  | st2 f b => simp [action] at h
  | rel res own => cases res <;> simp [action] at h
  | inst f own => simp [action] at h

/-- A thread step that is not blocked strictly decreases `work`; a blocked one changes nothing. -/
theorem stepThread_work (T : Code → Opts → Nat → Option Factory) {s : State Opts Factory} {t : Tid}
    {th : Thread Opts Factory} {r : Request Opts} {rest : List (Request Opts)}
    (hth : s.threads[t]? = some th) (htodo : th.todo = r :: rest) :
    ((action T s t r th.pc).2 = .blocked ∧ stepThread T s t = s) ∨
    ((action T s t r th.pc).2 ≠ .blocked ∧ work (stepThread T s t) < work s) := by
  rw [stepThread_cons hth htodo]
  have hr := action_rank T s t r th.pc
  generalize hact : action T s t r th.pc = a at hr
  obtain ⟨eff, nxt⟩ := a
  have h17 := rank_le th.pc
  cases nxt with
  | blocked =>
    left
    refine ⟨rfl, ?_⟩
    have heff : eff = .nop := by
      have hb : (action T s t r th.pc).2 = .blocked := by rw [hact]
      have := (blocked_iff hb).2.1
      rw [hact] at this; exact this
    subst heff
    simp only [applyEff, applyNext]
    rw [set_same' hth]
  | goto pc' =>
    right
    refine ⟨by simp, ?_⟩
    have hlt := hr pc' rfl
    have h17' := rank_le pc'
    show ((s.threads.set t (applyNext th r (.goto pc'))).map workTh).sum < (s.threads.map workTh).sum
    apply sum_set_lt workTh _ _ _ th hth
    simp only [workTh, applyNext, htodo, List.length_cons]
    omega
  | finish res =>
    right
    refine ⟨by simp, ?_⟩
    show ((s.threads.set t (applyNext th r (.finish res))).map workTh).sum < (s.threads.map workTh).sum
    apply sum_set_lt workTh _ _ _ th hth
    have h0 : rank (Pc.idle : Pc Factory) = 0 := rfl
    simp only [workTh, applyNext, htodo, List.length_cons, List.tail_cons, h0]
    omega

/-- No step increases `work`. -/
theorem step_work_le (T : Code → Opts → Nat → Option Factory) (s : State Opts Factory) (l : Label) :
    work (step T s l) ≤ work s := by
  cases l with
  | gc c => simp only [step]; split <;> exact Nat.le_refl _
  | thr t =>
    show work (stepThread T s t) ≤ work s
    cases hth : s.threads[t]? with
    | none => rw [stepThread_none hth]; exact Nat.le_refl _
    | some th =>
      cases htodo : th.todo with
      | nil => rw [stepThread_nil hth htodo]; exact Nat.le_refl _
      | cons r rest =>
        rcases stepThread_work T hth htodo with ⟨_, h⟩ | ⟨_, h⟩
        · rw [h]; exact Nat.le_refl _
        · exact Nat.le_of_lt h

end

section
variable {Opts Factory : Type} [BEq Opts] [Hashable Opts] [LawfulBEq Opts]
variable {T : Code → Opts → Nat → Option Factory} {P : List (Request Opts)}

/-- **Progress**: in a state satisfying the protocol invariant, if some request is unfinished then
some thread can take a step that strictly decreases `work`. -/
theorem progress {s : State Opts Factory} (inv : Inv P s)
    (hw : ∃ th ∈ s.threads, th.todo ≠ []) : ∃ t, work (stepThread T s t) < work s := by
  cases hl : s.lock with
  | none =>
    obtain ⟨th, hth, hne⟩ := hw
    obtain ⟨t, hlt, hget⟩ := List.getElem_of_mem hth |>.imp fun i h => h
    have hth' : s.threads[t]? = some th := by
      rw [List.getElem?_eq_getElem hlt, hget]
    cases htodo : th.todo with
    | nil => exact absurd htodo hne
    | cons r rest =>
      refine ⟨t, ?_⟩
      rcases stepThread_work T hth' htodo with ⟨hb, _⟩ | ⟨_, h⟩
      · obtain ⟨_, _, h', n, hl', _⟩ := blocked_iff hb
        rw [hl] at hl'; cases hl'
      · exact h
  | some hn =>
    obtain ⟨h, n⟩ := hn
    obtain ⟨_, th, hth, hlk⟩ := inv.lock1 h n hl
    cases htodo : th.todo with
    | nil =>
      have := inv.idle h th hth htodo
      rw [this] at hlk; simp [Pc.locked] at hlk
    | cons r rest =>
      refine ⟨h, ?_⟩
      rcases stepThread_work T hth htodo with ⟨hb, _⟩ | ⟨_, hlt⟩
      · obtain ⟨hpc, _⟩ := blocked_iff hb
        rw [hpc] at hlk; simp [Pc.locked] at hlk
      · exact hlt

theorem le_sum_of_mem : ∀ (l : List Nat) (x : Nat), x ∈ l → x ≤ l.sum := by
  intro l
  induction l with
  | nil => intro x h; simp at h
  | cons y tl ih =>
    intro x h
    simp only [List.sum_cons]
    rcases List.mem_cons.mp h with rfl | h
    · omega
    · have := ih x h; omega

theorem work_zero {s : State Opts Factory} (h : work s = 0) (inv : Inv P s) :
    ∀ th ∈ s.threads, th.todo = [] := by
  intro th hth
  cases htodo : th.todo with
  | nil => rfl
  | cons r rest =>
    exfalso
    have hpos : 0 < workTh th := by
      have := rank_le th.pc
      simp only [workTh, htodo, List.length_cons]
      omega
    have : workTh th ≤ work s := by
      unfold work
      exact le_sum_of_mem _ _ (List.mem_map.mpr ⟨th, hth, rfl⟩)
    omega

/-- **No deadlock, no livelock**: from every state satisfying the protocol invariant there is a
schedule of at most `work s` thread steps after which every request has finished. -/
theorem can_complete : ∀ (n : Nat) {s : State Opts Factory}, Inv P s → work s ≤ n →
    ∃ sched : List Label, sched.length ≤ n ∧ ∀ th ∈ (run T s sched).threads, th.todo = [] := by
  intro n
  induction n with
  | zero =>
    intro s inv hw
    exact ⟨[], Nat.le_refl _, work_zero (Nat.le_zero.mp hw) inv⟩
  | succ n ih =>
    intro s inv hw
    by_cases hdone : ∃ th ∈ s.threads, th.todo ≠ []
    · obtain ⟨t, hlt⟩ := progress (T := T) inv hdone
      have inv' : Inv P (step T s (.thr t)) := Inv_step inv (.thr t) trivial
      obtain ⟨sched, hlen, hfin⟩ := ih inv' (by show work (stepThread T s t) ≤ n; omega)
      exact ⟨.thr t :: sched, by simp; omega, hfin⟩
    · refine ⟨[], Nat.zero_le _, ?_⟩
      intro th hth
      cases htodo : th.todo with
      | nil => rfl
      | cons r rest => exact absurd ⟨th, hth, by rw [htodo]; simp⟩ hdone

end

end Malt.Cache
