import MaltModel.Proofs.C18Visit
/- C18: a quiet expression is a fixed point of the visit; consequences. -/
set_option linter.unusedSimpArgs false
namespace Malt.Anf
open Malt.Py

theorem trivialOnly_nil (w : String) (e : Expr) (n : Nat) : trivialOnly w false (e, [], n) = .ok (e, [], n) := by
  simp [trivialOnly]

mutual
theorem visitE_quiet (cfg : Config) : ∀ (e : Expr) (n : Nat), quiet cfg e = true → visitE cfg e n = .ok (e, [], n)
  | .name .., n, _ => by simp [visitE]
  | .const .., n, _ => by simp [visitE]
  | .noneMarker, n, _ => by simp [visitE]
  | .attr i v a c, n, hq => by
      simp only [quiet, Bool.and_eq_true] at hq
      simp [visitE, visitE_quiet cfg v n hq.1, ensure_ok cfg _ _ v n hq.2, bind, Except.bind, pure, Except.pure]
  | .subscript i v s c, n, hq => by
      simp only [quiet, Bool.and_eq_true] at hq
      obtain ⟨⟨⟨h1, h2⟩, h3⟩, h4⟩ := hq
      simp [visitE, visitE_quiet cfg v n h1, visitE_quiet cfg s n h2, ensure_ok cfg _ _ v n h3, ensure_ok cfg _ _ s n h4,
        bind, Except.bind, pure, Except.pure]
  | .call i f as ks, n, hq => by
      simp only [quiet, Bool.and_eq_true] at hq
      obtain ⟨⟨⟨⟨⟨h1, h2⟩, h3⟩, h4⟩, h5⟩, h6⟩ := hq
      simp [visitE, visitE_quiet cfg f n h1, visitEs_quiet cfg as n h2, visitEs_quiet cfg ks n h3,
        ensure_ok cfg _ _ f n h4, ensureList_ok cfg _ _ as n h5, ensureList_ok cfg _ _ ks n h6,
        bind, Except.bind, pure, Except.pure]
  | .keyword i a hs v, n, hq => by
      simp only [quiet] at hq
      simp [visitE, visitE_quiet cfg v n hq, bind, Except.bind, pure, Except.pure]
  | .boolop i isAnd vs, n, hq => by
      simp only [quiet, Bool.and_eq_true, Bool.not_eq_true'] at hq
      obtain ⟨⟨h1, h2⟩, h3⟩ := hq
      simp [visitE, visitEs_quiet cfg vs n h1, ensureList_ok cfg _ _ vs n h2, pseudoSelected, h3, trivialOnly,
        bind, Except.bind, pure, Except.pure]
  | .unary i op v, n, hq => by
      simp only [quiet, Bool.and_eq_true] at hq
      simp [visitE, visitE_quiet cfg v n hq.1, ensure_ok cfg _ _ v n hq.2, bind, Except.bind, pure, Except.pure]
  | .binop i op l r, n, hq => by
      simp only [quiet, Bool.and_eq_true, Bool.not_eq_true'] at hq
      obtain ⟨⟨⟨⟨h0, h1⟩, h2⟩, h3⟩, h4⟩ := hq
      simp [visitE, h0, visitE_quiet cfg l n h1, visitE_quiet cfg r n h2, ensure_ok cfg _ _ l n h3, ensure_ok cfg _ _ r n h4,
        bind, Except.bind, pure, Except.pure]
  | .compare i l ops rs, n, hq => by
      simp only [quiet, Bool.and_eq_true, Bool.not_eq_true', decide_eq_false_iff_not] at hq
      obtain ⟨⟨⟨⟨h0, h1⟩, h2⟩, h3⟩, h4⟩ := hq
      simp [visitE, h0, visitE_quiet cfg l n h1, visitEs_quiet cfg rs n h2, ensure_ok cfg _ _ l n h3,
        ensureList_ok cfg _ _ rs n h4, bind, Except.bind, pure, Except.pure]
  | .ifexp i t b e, n, hq => by
      simp only [quiet, Bool.and_eq_true] at hq
      obtain ⟨⟨⟨⟨⟨h1, h2⟩, h3⟩, h4⟩, h5⟩, h6⟩ := hq
      simp [visitE, visitE_quiet cfg t n h1, visitE_quiet cfg b n h2, visitE_quiet cfg e n h3,
        ensure_ok cfg _ _ t n h4, ensure_ok cfg _ _ b n h5, ensure_ok cfg _ _ e n h6, trivialOnly,
        bind, Except.bind, pure, Except.pure]
  | .lambda i as b, n, hq => by
      simp only [quiet, Bool.and_eq_true, Bool.not_eq_true'] at hq
      obtain ⟨⟨⟨h1, h2⟩, h3⟩, h4⟩ := hq
      simp [visitE, visitE_quiet cfg as n h1, visitE_quiet cfg b n h2, ensure_ok cfg _ _ b n h3, pseudoSelected, h4,
        trivialOnly, bind, Except.bind, pure, Except.pure]
  | .seq i .set es c, n, hq => by
      simp only [quiet, Bool.and_eq_true] at hq
      simp [visitE, visitEs_quiet cfg es n hq.1, ensureList_ok cfg _ _ es n hq.2, bind, Except.bind, pure, Except.pure]
  | .seq i .tuple es c, n, hq => by
      simp only [quiet, Bool.and_eq_true, Bool.or_eq_true] at hq
      rcases hq with ⟨h1, h2 | h2⟩
      · simp [visitE, visitEs_quiet cfg es n h1, h2, bind, Except.bind, pure, Except.pure]
      · by_cases hc : (c == Ctx.store) = true
        · simp [visitE, visitEs_quiet cfg es n h1, hc, bind, Except.bind, pure, Except.pure]
        · simp [visitE, visitEs_quiet cfg es n h1, hc, ensureList_ok cfg _ _ es n h2, bind, Except.bind, pure, Except.pure]
  | .seq i .list es c, n, hq => by
      simp only [quiet, Bool.and_eq_true, Bool.or_eq_true] at hq
      rcases hq with ⟨h1, h2 | h2⟩
      · simp [visitE, visitEs_quiet cfg es n h1, h2, bind, Except.bind, pure, Except.pure]
      · by_cases hc : (c == Ctx.store) = true
        · simp [visitE, visitEs_quiet cfg es n h1, hc, bind, Except.bind, pure, Except.pure]
        · simp [visitE, visitEs_quiet cfg es n h1, hc, ensureList_ok cfg _ _ es n h2, bind, Except.bind, pure, Except.pure]
  | .starred i v c, n, hq => by
      simp only [quiet] at hq
      simp [visitE, visitE_quiet cfg v n hq, bind, Except.bind, pure, Except.pure]
  | .namedexpr i t v, n, hq => by
      simp only [quiet, Bool.and_eq_true] at hq
      simp [visitE, visitE_quiet cfg t n hq.1, visitE_quiet cfg v n hq.2, bind, Except.bind, pure, Except.pure]
  | .comp .., n, hq => by simp [quiet] at hq
  | .comprehension i t it ifs a, n, hq => by
      simp only [quiet, Bool.and_eq_true] at hq
      simp [visitE, visitE_quiet cfg t n hq.1.1, visitE_quiet cfg it n hq.1.2, visitEs_quiet cfg ifs n hq.2,
        bind, Except.bind, pure, Except.pure]
  | .arguments i po ar va ko kd kw df, n, hq => by
      simp only [quiet, Bool.and_eq_true] at hq
      obtain ⟨⟨⟨⟨⟨⟨h1, h2⟩, h3⟩, h4⟩, h5⟩, h6⟩, h7⟩ := hq
      simp [visitE, visitEs_quiet cfg po n h1, visitEs_quiet cfg ar n h2, visitEs_quiet cfg va n h3,
        visitEs_quiet cfg ko n h4, visitEs_quiet cfg kd n h5, visitEs_quiet cfg kw n h6, visitEs_quiet cfg df n h7,
        bind, Except.bind, pure, Except.pure]
  | .arg i nm an, n, hq => by
      simp only [quiet] at hq
      simp [visitE, visitEs_quiet cfg an n hq, bind, Except.bind, pure, Except.pure]
  | .withitem i ce ov, n, hq => by
      simp only [quiet, Bool.and_eq_true] at hq
      simp [visitE, visitE_quiet cfg ce n hq.1, visitEs_quiet cfg ov n hq.2, bind, Except.bind, pure, Except.pure]
  | .other i k ats ks, n, hq => by
      simp only [quiet] at hq
      simp only [visitE]
      split at hq
      · next hk =>
        simp only [Bool.and_eq_true] at hq
        obtain ⟨⟨h1, h2⟩, h3⟩ := hq
        simp only [hk, if_true, visitEs_quiet cfg ks n h1, ensureList_ok cfg _ _ _ n h2, ensureList_ok cfg _ _ _ n h3,
          bind, Except.bind, pure, Except.pure, List.append_nil, List.take_append_drop]
      next hk0 =>
      split at hq
      · next hk =>
        simp [hk0, hk, visitEs_quiet cfg ks n hq, bind, Except.bind, pure, Except.pure]
      next hk1 =>
      split at hq
      · next hk =>
        simp only [Bool.and_eq_true] at hq
        simp [hk0, hk1, hk, visitEs_quiet cfg ks n hq.1, ensureList_ok cfg _ _ _ n hq.2, bind, Except.bind, pure, Except.pure]
      next hk2 =>
      split at hq
      · next hk =>
        simp only [Bool.and_eq_true] at hq
        simp [hk0, hk1, hk2, hk, visitEs_quiet cfg ks n hq.1, ensureList_ok cfg _ _ _ n hq.2, trivialOnly,
          bind, Except.bind, pure, Except.pure]
      next hk3 =>
      split at hq
      · next hk =>
        simp only [Bool.and_eq_true] at hq
        simp [hk0, hk1, hk2, hk3, hk, visitEs_quiet cfg ks n hq.1, ensureList_ok cfg _ _ _ n hq.2, trivialOnly,
          bind, Except.bind, pure, Except.pure]
      next hk4 =>
      split at hq
      · next hk =>
        simp only [Bool.and_eq_true, Bool.not_eq_true'] at hq
        obtain ⟨⟨⟨h1, h2⟩, h3⟩, h4⟩ := hq
        simp only [hk0, hk1, hk2, hk3, hk4, hk, if_true, if_false, visitEs_quiet cfg ks n h1, ensureList_ok cfg _ _ _ n h2, h3,
          ensureList_ok cfg _ _ _ n h4, trivialOnly, bind, Except.bind, pure, Except.pure, List.append_nil,
          List.take_append_drop, Bool.false_eq_true, Bool.or_self, List.isEmpty_nil, Bool.not_true]
      · simp at hq
theorem visitEs_quiet (cfg : Config) : ∀ (es : List Expr) (n : Nat), quiets cfg es = true → visitEs cfg es n = .ok (es, [], n)
  | [], n, _ => by simp [visitEs]
  | e :: es, n, hq => by
      simp only [quiets, Bool.and_eq_true] at hq
      simp [visitEs, visitE_quiet cfg e n hq.1, visitEs_quiet cfg es n hq.2, bind, Except.bind, pure, Except.pure]
end

/-- `quiet` characterises exactly the visits that succeed without creating a statement. -/
theorem quiet_iff_visit_nil (cfg : Config) (e : Expr) (n : Nat) :
    quiet cfg e = true ↔ ∃ e' n', visitE cfg e n = .ok (e', [], n') := by
  constructor
  · intro h; exact ⟨e, n, visitE_quiet cfg e n h⟩
  · rintro ⟨e', n', h⟩
    have inv := visitE_inv cfg e n e' [] n' h
    have := inv.same rfl
    rw [← this]; exact inv.quiet

theorem quiets_iff_visit_nil (cfg : Config) (es : List Expr) (n : Nat) :
    quiets cfg es = true ↔ ∃ es' n', visitEs cfg es n = .ok (es', [], n') := by
  constructor
  · intro h; exact ⟨es, n, visitEs_quiet cfg es n h⟩
  · rintro ⟨es', n', h⟩
    have inv := visitEs_inv cfg es n es' [] n' h
    have := inv.same rfl
    rw [← this]; exact inv.quiet

end Malt.Anf
