import MaltModel.Proofs.ComposePreserve
import MaltModel.Proofs.JumpsBreak
import MaltModel.Proofs.JumpsContinue
import MaltModel.Proofs.JumpsReturn
import MaltModel.Proofs.JumpsFresh
import MaltModel.Props.C01Func
/-
Composition of the three jump-lowering passes in pipeline order (break, continue, return), the shape of the
composed output, and the chain into the functionalisation theorem (`Malt.Func.control_flow_correct_sem`).
-/
namespace Malt.Sem.Jumps
open Malt.Sem

/-- The three jump passes in the order of `PyToPy.transform_ast` (`Conv/Pipeline.lean`: break_statements <
continue_statements < return_statements). -/
def jumpPasses (genB genC : Gen) (dr rv : Name) (body : Block) : Block :=
  lowerReturn dr rv (lowerContinue genC (lowerBreak genB body))

/-- All names the three passes may generate. -/
def GenAll (genB genC : Gen) (dr rv : Name) : Name → Prop :=
  fun x => Hid genB x ∨ Hid genC x ∨ HidR dr rv x

/-- What the composition needs from the name generators: injective, pairwise disjoint families, and never a
user name (user names do not start with `$`). -/
structure JumpGens (genB genC : Gen) (dr rv : Name) : Prop where
  injB : ∀ p q : List Nat, genB p = genB q → p = q
  injC : ∀ p q : List Nat, genC p = genC q → p = q
  ne : dr ≠ rv
  disjBC : ∀ p q : List Nat, genB p ≠ genC q
  drB : ∀ p : List Nat, genB p ≠ dr
  rvB : ∀ p : List Nat, genB p ≠ rv
  drC : ∀ p : List Nat, genC p ≠ dr
  rvC : ∀ p : List Nat, genC p ≠ rv
  nonuser : ∀ x, GenAll genB genC dr rv x → userName x = false

/-- The combined hypothesis on the SOURCE body, decidable: no `$`-names (freshness for all three passes),
fragment S1, no EXTRA_LOOP_TEST yet, no `break`/`continue` outside a loop. -/
def JumpHyp (body : Block) : Bool :=
  userNamesB body && finOKB body && noExtraB body && !topContB body && !mayBrkB body

theorem Agree.weaken {G G' : Name → Prop} {σ τ : St} (h : Agree G σ τ) (hs : ∀ x, G x → G' x) : Agree G' σ τ :=
  ⟨h.1, fun x hx => h.2 x (fun hg => hx (hs x hg))⟩

theorem Agree.trans {G : Name → Prop} {a b c : St} (h1 : Agree G a b) (h2 : Agree G b c) : Agree G a c :=
  ⟨h1.1.trans h2.1, fun x hx => (h1.2 x hx).trans (h2.2 x hx)⟩

section
variable {genB genC : Gen} {dr rv : Name}

theorem jump_passes_correct (X : Ext) (gens : JumpGens genB genC dr rv) (body : Block)
    (hyp : JumpHyp body = true) (n : Nat) (σ : St) (o : Out) (σ₁ : St)
    (h : execB X n body σ = some (o, σ₁)) :
    ∃ m σ₁' o', execB X m (jumpPasses genB genC dr rv body) σ = some (o', σ₁') ∧
      fnResult o' = fnResult o ∧ Agree (GenAll genB genC dr rv) σ₁ σ₁' := by
  simp only [JumpHyp, Bool.and_eq_true, Bool.not_eq_true'] at hyp
  obtain ⟨⟨⟨⟨hun, hfin⟩, hne⟩, htc⟩, hmb⟩ := hyp
  -- freshness of the source for each family
  have hcB : CleanB (Hid genB) body :=
    userNamesB_clean (Hid genB) (fun x hx => gens.nonuser x (Or.inl hx)) body hun
  have hcC : CleanB (Hid genC) body :=
    userNamesB_clean (Hid genC) (fun x hx => gens.nonuser x (Or.inr (Or.inl hx))) body hun
  have hcR : CleanB (HidR dr rv) body :=
    userNamesB_clean (HidR dr rv) (fun x hx => gens.nonuser x (Or.inr (Or.inr hx))) body hun
  -- the outcome of a well-formed body is neither break nor continue
  have hmay := mayB_outcome X h
  have hob : o ≠ .brk := by intro he; have := hmay.1 he; rw [hmb] at this; cases this
  have hoc : o ≠ .cont := by intro he; have := hmay.2.1 he; rw [htc] at this; cases this
  -- 1. break lowering
  obtain ⟨m1, σa, hx1, hag1⟩ := lowerBreak_correct genB X gens.injB body hcB hfin hne n σ o σ₁ h
  have ho1 : brkOut o = o := by cases o <;> simp_all [brkOut]
  rw [ho1] at hx1
  -- 2. continue lowering of the result
  have hB_C : ∀ q, ¬ Hid genC (genB q) := by rintro q ⟨q', he⟩; exact gens.disjBC q q' he
  have hcC1 : CleanB (Hid genC) (lowerBreak genB body) :=
    brkB_clean (Hid genC) genB hB_C (genB []) [0] body (hB_C []) hcC
  have hfin1 : finOKB (lowerBreak genB body) = true := brkB_finOK genB (genB []) [0] body hfin
  have htc1 : topContB (lowerBreak genB body) = false := by
    simp only [lowerBreak]; rw [brkB_topCont, htc, hmb]; rfl
  obtain ⟨m2, σb, hx2, hag2⟩ :=
    lowerContinue_correct genC X gens.injC (lowerBreak genB body) hcC1 hfin1 m1 σ o σa hx1
      (by intro hh; rw [cntB_hit, htc1] at hh; cases hh)
  have ho2 : cntOut o = o := by cases o <;> simp_all [cntOut]
  rw [ho2] at hx2
  -- 3. return lowering of the result
  have hB_R : ∀ q, ¬ HidR dr rv (genB q) := by
    rintro q (he | he)
    · exact gens.drB q he
    · exact gens.rvB q he
  have hC_R : ∀ q, ¬ HidR dr rv (genC q) := by
    rintro q (he | he)
    · exact gens.drC q he
    · exact gens.rvC q he
  have hcR2 : CleanB (HidR dr rv) (lowerContinue genC (lowerBreak genB body)) :=
    cntB_clean (HidR dr rv) genC hC_R (genC []) [0] false _ (hC_R [])
      (brkB_clean (HidR dr rv) genB hB_R (genB []) [0] body (hB_R []) hcR)
  have hfin2 : finOKB (lowerContinue genC (lowerBreak genB body)) = true :=
    cntB_finOK genC (genC []) [0] false _ hfin1
  obtain ⟨m3, σc, o', hx3, hres, hag3⟩ :=
    lowerReturn_correct dr rv X gens.ne _ hcR2 hfin2 m2 σ o σb hx2
  refine ⟨m3, σc, o', hx3, hres, ?_⟩
  exact Agree.trans (Agree.trans (Agree.weaken hag1 (fun x hx => Or.inl hx))
    (Agree.weaken hag2 (fun x hx => Or.inr (Or.inl hx)))) (Agree.weaken hag3 (fun x hx => Or.inr (Or.inr hx)))

/-! ### shape of the composed output -/

theorem jumpPasses_noBrk (body : Block) : hasBrkB (jumpPasses genB genC dr rv body) = false := by
  have h : hasBrkB (retB dr rv false false (lowerContinue genC (lowerBreak genB body))).1 = false := by
    rw [retB_hasBrk]; simp only [lowerContinue]; rw [cntB_hasBrk]; exact lowerBreak_noBrk genB body
  simp only [jumpPasses, lowerReturn]
  split <;> simp [hasBrkB_append, hasBrkB, hasBrkS, h]

theorem jumpPasses_noCont (body : Block) : hasContB (jumpPasses genB genC dr rv body) = false := by
  have h : hasContB (retB dr rv false false (lowerContinue genC (lowerBreak genB body))).1 = false := by
    rw [retB_hasCont]; exact lowerContinue_noCont genC _
  simp only [jumpPasses, lowerReturn]
  split <;> simp [hasContB_append, hasContB, hasContS, h]

theorem jumpPasses_inS0 (body : Block) (h : inS0B body = true) :
    inS0B (jumpPasses genB genC dr rv body) = true :=
  lowerReturn_inS0 dr rv _ (cntB_inS0 genC (genC []) [0] false _ (brkB_inS0 genB (genB []) [0] body h))

end

/-! ### the output lies in the domain of the functionalisation -/

mutual
/-- Bridge to `Func.noJumpB` ("no break/continue", try/with allowed). -/
theorem noJumpS_of_has : ∀ (s : Stmt), hasBrkS s = false → hasContS s = false → Func.noJumpS s = true
  | .assign x e, _, _ => by simp [Func.noJumpS]
  | .expr e, _, _ => by simp [Func.noJumpS]
  | .pass, _, _ => by simp [Func.noJumpS]
  | .ret e, _, _ => by simp [Func.noJumpS]
  | .raise t, _, _ => by simp [Func.noJumpS]
  | .brk, h, _ => by simp [hasBrkS] at h
  | .cont, _, h => by simp [hasContS] at h
  | .ifS c t e, hb, hc => by
      simp only [hasBrkS, Bool.or_eq_false_iff] at hb
      simp only [hasContS, Bool.or_eq_false_iff] at hc
      simp [Func.noJumpS, noJumpB_of_has t hb.1 hc.1, noJumpB_of_has e hb.2 hc.2]
  | .whileS c b, hb, hc => by
      simp only [hasBrkS] at hb
      simp only [hasContS] at hc
      simp [Func.noJumpS, noJumpB_of_has b hb hc]
  | .forS x it ex b, hb, hc => by
      simp only [hasBrkS] at hb
      simp only [hasContS] at hc
      simp [Func.noJumpS, noJumpB_of_has b hb hc]
  | .withS t b, hb, hc => by
      simp only [hasBrkS] at hb
      simp only [hasContS] at hc
      simp [Func.noJumpS, noJumpB_of_has b hb hc]
  | .tryS b hs f, hb, hc => by
      simp only [hasBrkS, Bool.or_eq_false_iff] at hb
      simp only [hasContS, Bool.or_eq_false_iff] at hc
      simp [Func.noJumpS, noJumpB_of_has b hb.1.1 hc.1.1, noJumpH_of_has hs hb.1.2 hc.1.2,
        noJumpB_of_has f hb.2 hc.2]
theorem noJumpB_of_has : ∀ (b : List Stmt), hasBrkB b = false → hasContB b = false → Func.noJumpB b = true
  | [], _, _ => by simp [Func.noJumpB]
  | s :: rest, hb, hc => by
      simp only [hasBrkB, Bool.or_eq_false_iff] at hb
      simp only [hasContB, Bool.or_eq_false_iff] at hc
      simp [Func.noJumpB, noJumpS_of_has s hb.1 hc.1, noJumpB_of_has rest hb.2 hc.2]
theorem noJumpH_of_has : ∀ (hs : List (Nat × List Stmt)), hasBrkH hs = false → hasContH hs = false →
    Func.noJumpH hs = true
  | [], _, _ => by simp [Func.noJumpH]
  | (t, b) :: hs, hb, hc => by
      simp only [hasBrkH, Bool.or_eq_false_iff] at hb
      simp only [hasContH, Bool.or_eq_false_iff] at hc
      simp [Func.noJumpH, noJumpB_of_has b hb.1 hc.1, noJumpH_of_has hs hb.2 hc.2]
end

/-- The composed output is accepted by `Func.annotB` under every annotation — for EVERY source. -/
theorem jumpPasses_annotatable (genB genC : Gen) (dr rv : Name) (body : Block) (ann : Func.Ann) :
    ∃ q, Func.annotB ann 0 (jumpPasses genB genC dr rv body) = some q :=
  Func.annotB_total_of_noJump _ ann (noJumpB_of_has _ (jumpPasses_noBrk body) (jumpPasses_noCont body))

end Malt.Sem.Jumps
