import MaltModel.Func.Functionalise
/-! Soundness of the executable checkers for the hypotheses of `control_flow_correct`. -/
namespace Malt.Func
open Malt.Sem

theorem subB_iff {A B : List Name} : subB A B = true ↔ A ⊆ B := by
  simp [subB, List.all_eq_true, List.subset_def]

theorem disjB_iff {A B : List Name} : disjB A B = true ↔ ∀ u ∈ A, u ∉ B := by
  simp [disjB, List.all_eq_true]

theorem raiseOKb_iff {K : ExcCtx} {i : Info} {ts : List Nat} : raiseOKb K i ts = true ↔ raiseOK K i ts := by
  simp only [raiseOKb, raiseOK, List.all_eq_true, subB_iff]

mutual
theorem liveS_sound : ∀ (K : ExcCtx) (s : AStmt), liveS K s = true → LiveS K s
  | K, .assign i x e, h => by simpa [liveS, LiveS, subB_iff, and_assoc] using h
  | K, .expr i e, h => by simpa [liveS, LiveS, subB_iff, and_assoc] using h
  | K, .pass i, h => by simpa [liveS, LiveS, subB_iff] using h
  | K, .ret i e, h => by simpa [liveS, LiveS, subB_iff] using h
  | K, .raise i t, h => by simpa [liveS, LiveS, subB_iff] using h
  | K, .ifS i c t e, h => by
      simp only [liveS, Bool.and_eq_true, subB_iff, raiseOKb_iff] at h
      simp only [LiveS]
      exact ⟨h.1.1.1.1.1.1, h.1.1.1.1.1.2, h.1.1.1.1.2, liveB_sound K t _ h.1.1.1.2, liveB_sound K e _ h.1.1.2, h.1.2, h.2⟩
  | K, .whileS i c b, h => by
      simp only [liveS, Bool.and_eq_true, subB_iff, raiseOKb_iff] at h
      simp only [LiveS]
      exact ⟨h.1.1.1.1.1, h.1.1.1.1.2, h.1.1.1.2, liveB_sound K b _ h.1.1.2, h.1.2, h.2⟩
  | K, .forS i x it extra b, h => by
      simp only [liveS, Bool.and_eq_true, subB_iff, raiseOKb_iff] at h
      simp only [LiveS]
      exact ⟨h.1.1.1.1.1.1, h.1.1.1.1.1.2, h.1.1.1.1.2, h.1.1.1.2, liveB_sound K b _ h.1.1.2, h.1.2, h.2⟩
  | K, .withS i tag b, h => by
      simp only [liveS, Bool.and_eq_true, subB_iff] at h
      simp only [LiveS]
      exact ⟨h.1, liveB_sound K b _ h.2⟩
  | K, .tryS i b hs f, h => by
      simp only [liveS, Bool.and_eq_true, subB_iff] at h
      simp only [LiveS]
      exact ⟨liveB_sound K f _ h.1.1.1, liveH_sound _ hs _ h.1.1.2, liveB_sound _ b _ h.1.2, h.2⟩
theorem liveB_sound : ∀ (K : ExcCtx) (b : List AStmt) (O : List Name), liveB K b O = true → LiveB K b O
  | _, [], _, _ => by simp [LiveB]
  | K, s :: r, O, h => by
      simp only [liveB, Bool.and_eq_true, subB_iff] at h
      simp only [LiveB]
      exact ⟨liveS_sound K s h.1.1, h.1.2, liveB_sound K r O h.2⟩
theorem liveH_sound : ∀ (K : ExcCtx) (hs : List (Nat × List AStmt)) (O : List Name), liveH K hs O = true → LiveH K hs O
  | _, [], _, _ => by simp [LiveH]
  | K, (t, b) :: r, O, h => by
      simp only [liveH, Bool.and_eq_true] at h
      simp only [LiveH]
      exact ⟨liveB_sound K b O h.1, liveH_sound K r O h.2⟩
end

/-- The checker run on the real `LIVE_VARS_IN/OUT` is sound for `LiveConsistent`. -/
theorem liveConsistent_sound (p : ABlock) (O : List Name) (h : liveConsistent p O = true) : LiveConsistent p O :=
  liveB_sound ExcCtx.top p O h

mutual
theorem declS_sound : ∀ (s : AStmt), declS s = true → DeclS s
  | .assign .., _ => by simp [DeclS]
  | .expr .., _ => by simp [DeclS]
  | .pass .., _ => by simp [DeclS]
  | .ret .., _ => by simp [DeclS]
  | .raise .., _ => by simp [DeclS]
  | .ifS i c t e, h => by
      simp only [declS, Bool.and_eq_true, subB_iff] at h
      simp only [DeclS]
      exact ⟨h.1.1.1, h.1.1.2, declB_sound t h.1.2, declB_sound e h.2⟩
  | .whileS i c b, h => by
      simp only [declS, Bool.and_eq_true, subB_iff] at h
      simp only [DeclS]
      exact ⟨h.1.1, h.1.2, declB_sound b h.2⟩
  | .forS i x it extra b, h => by
      simp only [declS, Bool.and_eq_true, subB_iff] at h
      simp only [DeclS]
      exact ⟨h.1.1, h.1.2, declB_sound b h.2⟩
  | .withS i tag b, h => by
      simp only [declS] at h
      simp only [DeclS]
      exact declB_sound b h
  | .tryS i b hs f, h => by
      simp only [declS, Bool.and_eq_true] at h
      simp only [DeclS]
      exact ⟨declB_sound b h.1.1, declH_sound hs h.1.2, declB_sound f h.2⟩
theorem declB_sound : ∀ (b : List AStmt), declB b = true → DeclB b
  | [], _ => by simp [DeclB]
  | s :: r, h => by
      simp only [declB, Bool.and_eq_true] at h
      simp only [DeclB]
      exact ⟨declS_sound s h.1, declB_sound r h.2⟩
theorem declH_sound : ∀ (hs : List (Nat × List AStmt)), declH hs = true → DeclH hs
  | [], _ => by simp [DeclH]
  | (t, b) :: r, h => by
      simp only [declH, Bool.and_eq_true] at h
      simp only [DeclH]
      exact ⟨declB_sound b h.1, declH_sound r h.2⟩
end

mutual
theorem defS_sound : ∀ (D : List Name) (s : AStmt), defS D s = true → DefS D s
  | _, .assign .., _ => by simp [DefS]
  | _, .expr .., _ => by simp [DefS]
  | _, .pass .., _ => by simp [DefS]
  | _, .ret .., _ => by simp [DefS]
  | _, .raise .., _ => by simp [DefS]
  | D, .ifS i c t e, h => by
      simp only [defS, Bool.and_eq_true, subB_iff, disjB_iff] at h
      simp only [DefS]
      exact ⟨h.1.1.1, h.1.1.2, defB_sound D t h.1.2, defB_sound D e h.2⟩
  | D, .whileS i c b, h => by
      simp only [defS, Bool.and_eq_true, subB_iff, disjB_iff] at h
      simp only [DefS]
      exact ⟨h.1.1, h.1.2, defB_sound _ b h.2⟩
  | D, .forS i x it extra b, h => by
      simp only [defS, Bool.and_eq_true, subB_iff, disjB_iff] at h
      simp only [DefS]
      exact ⟨h.1.1, h.1.2, defB_sound _ b h.2⟩
  | D, .withS i tag b, h => by
      simp only [defS] at h
      simp only [DefS]
      exact defB_sound D b h
  | D, .tryS i b hs f, h => by
      simp only [defS, Bool.and_eq_true] at h
      simp only [DefS]
      exact ⟨defB_sound D b h.1.1, defH_sound _ hs h.1.2, defB_sound _ f h.2⟩
theorem defB_sound : ∀ (D : List Name) (b : List AStmt), defB D b = true → DefB D b
  | _, [], _ => by simp [DefB]
  | D, s :: r, h => by
      simp only [defB, Bool.and_eq_true] at h
      simp only [DefB]
      exact ⟨defS_sound D s h.1, defB_sound _ r h.2⟩
theorem defH_sound : ∀ (D : List Name) (hs : List (Nat × List AStmt)), defH D hs = true → DefH D hs
  | _, [], _ => by simp [DefH]
  | D, (t, b) :: r, h => by
      simp only [defH, Bool.and_eq_true] at h
      simp only [DefH]
      exact ⟨defB_sound D b h.1, defH_sound D r h.2⟩
end

theorem funcHyp_sound (D : List Name) (p : ABlock) (O : List Name) (h : funcHyp D p O = true) : FuncHyp D p O := by
  simp only [funcHyp, Bool.and_eq_true] at h
  exact ⟨liveConsistent_sound p O h.1.1.1, declB_sound p h.1.1.2, defB_sound D p h.1.2, h.2⟩

/-- A consistent liveness annotation is outside the finding class `for_target_live_across_zero_trip`. -/
theorem subB_contains {A B : List Name} (h : A ⊆ B) {x : Name} (hx : A.contains x = true) : B.contains x = true := by
  have : x ∈ A := by simpa using hx
  simpa using h this

mutual
theorem live_not_zeroTripS : ∀ (K : ExcCtx) (s : AStmt), LiveS K s → forTargetZeroTripS s = false
  | _, .assign .., _ => rfl
  | _, .expr .., _ => rfl
  | _, .pass .., _ => rfl
  | _, .ret .., _ => rfl
  | _, .raise .., _ => rfl
  | K, .ifS i c t e, h => by
      simp only [LiveS] at h
      simp [forTargetZeroTripS, live_not_zeroTripB K t _ h.2.2.2.1, live_not_zeroTripB K e _ h.2.2.2.2.1]
  | K, .whileS i c b, h => by
      simp only [LiveS] at h
      simp [forTargetZeroTripS, live_not_zeroTripB K b _ h.2.2.2.1]
  | K, .forS i x it extra b, h => by
      simp only [LiveS] at h
      simp only [forTargetZeroTripS, live_not_zeroTripB K b _ h.2.2.2.2.1, Bool.or_false]
      cases hc : i.liveOut.contains x with
      | false => rfl
      | true => simp; exact h.2.2.1 (by simpa using hc)
  | K, .withS i tag b, h => by
      simp only [LiveS] at h
      simp [forTargetZeroTripS, live_not_zeroTripB K b _ h.2]
  | K, .tryS i b hs f, h => by
      simp only [LiveS] at h
      simp [forTargetZeroTripS, live_not_zeroTripB _ b _ h.2.2.1, live_not_zeroTripH _ hs _ h.2.1, live_not_zeroTripB K f _ h.1]
theorem live_not_zeroTripB : ∀ (K : ExcCtx) (b : List AStmt) (O : List Name), LiveB K b O → forTargetZeroTripB b = false
  | _, [], _, _ => rfl
  | K, s :: r, O, h => by
      simp only [LiveB] at h
      simp [forTargetZeroTripB, live_not_zeroTripS K s h.1, live_not_zeroTripB K r O h.2.2]
theorem live_not_zeroTripH : ∀ (K : ExcCtx) (hs : List (Nat × List AStmt)) (O : List Name), LiveH K hs O →
    forTargetZeroTripH hs = false
  | _, [], _, _ => rfl
  | K, (t, b) :: r, O, h => by
      simp only [LiveH] at h
      simp [forTargetZeroTripH, live_not_zeroTripB K b O h.1, live_not_zeroTripH K r O h.2]
end

theorem nodupB_sound : ∀ (l : List Name), nodupB l = true → l.Nodup
  | [], _ => List.nodup_nil
  | x :: xs, h => by
      simp only [nodupB, Bool.and_eq_true, Bool.not_eq_eq_eq_not, Bool.not_true] at h
      refine List.nodup_cons.mpr ⟨fun hx => ?_, nodupB_sound xs h.2⟩
      have : xs.contains x = true := by simpa using hx
      rw [h.1] at this; cases this

mutual
theorem hypFS_sound : ∀ (s : AStmt), hypFS s = true → HypFS s
  | .assign .., _ => by simp [HypFS]
  | .expr .., _ => by simp [HypFS]
  | .pass .., _ => by simp [HypFS]
  | .ret .., _ => by simp [HypFS]
  | .raise .., _ => by simp [HypFS]
  | .ifS i c t e, h => by
      simp only [hypFS, Bool.and_eq_true, subB_iff, disjB_iff] at h
      simp only [HypFS]
      exact ⟨nodupB_sound _ h.1.1.1.1, h.1.1.1.2, h.1.1.2, hypFB_sound t h.1.2, hypFB_sound e h.2⟩
  | .whileS i c b, h => by
      simp only [hypFS, Bool.and_eq_true, subB_iff] at h
      simp only [HypFS]
      exact ⟨h.1, hypFB_sound b h.2⟩
  | .forS i x it extra b, h => by
      simp only [hypFS, Bool.and_eq_true, subB_iff] at h
      simp only [HypFS]
      exact ⟨h.1, hypFB_sound b h.2⟩
  | .withS i tag b, h => by
      simp only [hypFS] at h
      simp only [HypFS]
      exact hypFB_sound b h
  | .tryS i b hs f, h => by
      simp only [hypFS, Bool.and_eq_true] at h
      simp only [HypFS]
      exact ⟨hypFB_sound b h.1.1, hypFH_sound hs h.1.2, hypFB_sound f h.2⟩
theorem hypFB_sound : ∀ (b : List AStmt), hypFB b = true → HypFB b
  | [], _ => by simp [HypFB]
  | s :: r, h => by
      simp only [hypFB, Bool.and_eq_true] at h
      simp only [HypFB]
      exact ⟨hypFS_sound s h.1, hypFB_sound r h.2⟩
theorem hypFH_sound : ∀ (hs : List (Nat × List AStmt)), hypFH hs = true → HypFH hs
  | [], _ => by simp [HypFH]
  | (t, b) :: r, h => by
      simp only [hypFH, Bool.and_eq_true] at h
      simp only [HypFH]
      exact ⟨hypFB_sound b h.1, hypFH_sound r h.2⟩
end

/-! ### `annotB` really annotates: erasing the annotation gives the program back -/
mutual
theorem annotS_erase : ∀ (s : Stmt) (a : Ann) (s' : AStmt), annotS a s = some s' → eraseS s' = s
  | .assign x e, a, s', h => by simp [annotS] at h; subst h; rfl
  | .expr e, a, s', h => by simp [annotS] at h; subst h; rfl
  | .pass, a, s', h => by simp [annotS] at h; subst h; rfl
  | .ret e, a, s', h => by simp [annotS] at h; subst h; rfl
  | .raise t, a, s', h => by simp [annotS] at h; subst h; rfl
  | .brk, a, s', h => by simp [annotS] at h
  | .cont, a, s', h => by simp [annotS] at h
  | .tryS b hs f, a, s', h => by
      simp only [annotS] at h
      cases hb : annotB (fun p => a (0 :: p)) 0 b with
      | none => simp [hb] at h
      | some b' =>
        cases hh : annotH a 2 hs with
        | none => simp [hb, hh] at h
        | some hs' =>
          cases hf : annotB (fun p => a (1 :: p)) 0 f with
          | none => simp [hb, hh, hf] at h
          | some f' =>
            simp [hb, hh, hf] at h; subst h
            simp [eraseS, annotB_erase b _ 0 b' hb, annotH_erase hs a 2 hs' hh, annotB_erase f _ 0 f' hf]
  | .withS tag b, a, s', h => by
      simp only [annotS] at h
      cases hb : annotB (fun p => a (0 :: p)) 0 b with
      | none => simp [hb] at h
      | some b' => simp [hb] at h; subst h; simp [eraseS, annotB_erase b _ 0 b' hb]
  | .ifS c t e, a, s', h => by
      simp only [annotS] at h
      cases ht : annotB (fun p => a (0 :: p)) 0 t with
      | none => simp [ht] at h
      | some t' =>
        cases he : annotB (fun p => a (1 :: p)) 0 e with
        | none => simp [ht, he] at h
        | some e' =>
          simp [ht, he] at h; subst h
          simp [eraseS, annotB_erase t _ 0 t' ht, annotB_erase e _ 0 e' he]
  | .whileS c b, a, s', h => by
      simp only [annotS] at h
      cases hb : annotB (fun p => a (0 :: p)) 0 b with
      | none => simp [hb] at h
      | some b' => simp [hb] at h; subst h; simp [eraseS, annotB_erase b _ 0 b' hb]
  | .forS x it extra b, a, s', h => by
      simp only [annotS] at h
      cases hb : annotB (fun p => a (0 :: p)) 0 b with
      | none => simp [hb] at h
      | some b' => simp [hb] at h; subst h; simp [eraseS, annotB_erase b _ 0 b' hb]
theorem annotB_erase : ∀ (b : Block) (A : Ann) (k : Nat) (b' : List AStmt), annotB A k b = some b' → eraseB b' = b
  | [], A, k, b', h => by simp [annotB] at h; subst h; rfl
  | s :: r, A, k, b', h => by
      simp only [annotB] at h
      cases hs : annotS (fun p => A (k :: p)) s with
      | none => simp [hs] at h
      | some s' =>
        cases hr : annotB A (k+1) r with
        | none => simp [hs, hr] at h
        | some r' =>
          simp [hs, hr] at h; subst h
          simp [eraseB, annotS_erase s _ s' hs, annotB_erase r A (k+1) r' hr]
theorem annotH_erase : ∀ (hs : List (Nat × Block)) (a : Ann) (j : Nat) (hs' : List (Nat × List AStmt)),
    annotH a j hs = some hs' → eraseH hs' = hs
  | [], a, j, hs', h => by simp [annotH] at h; subst h; rfl
  | (t, b) :: r, a, j, hs', h => by
      simp only [annotH] at h
      cases hb : annotB (fun p => a (j :: p)) 0 b with
      | none => simp [hb] at h
      | some b' =>
        cases hr : annotH a (j+1) r with
        | none => simp [hb, hr] at h
        | some r' =>
          simp [hb, hr] at h; subst h
          simp [eraseH, annotB_erase b _ 0 b' hb, annotH_erase r a (j+1) r' hr]
end

mutual
/-- `annotB` is total on programs without `break`/`continue` (in particular on every output of the jump passes,
with or without `try`/`with`). -/
def noJumpS : Stmt → Bool
  | .brk => false
  | .cont => false
  | .ifS _ t e => noJumpB t && noJumpB e
  | .whileS _ b => noJumpB b
  | .forS _ _ _ b => noJumpB b
  | .withS _ b => noJumpB b
  | .tryS b hs f => noJumpB b && noJumpH hs && noJumpB f
  | _ => true
def noJumpB : List Stmt → Bool
  | [] => true
  | s :: r => noJumpS s && noJumpB r
def noJumpH : List (Nat × List Stmt) → Bool
  | [] => true
  | (_, b) :: r => noJumpB b && noJumpH r
end

mutual
theorem annotS_total : ∀ (s : Stmt) (a : Ann), noJumpS s = true → ∃ q, annotS a s = some q
  | .assign x e, a, _ => ⟨_, rfl⟩
  | .expr e, a, _ => ⟨_, rfl⟩
  | .pass, a, _ => ⟨_, rfl⟩
  | .ret e, a, _ => ⟨_, rfl⟩
  | .raise t, a, _ => ⟨_, rfl⟩
  | .brk, a, h => by simp [noJumpS] at h
  | .cont, a, h => by simp [noJumpS] at h
  | .ifS c t e, a, h => by
      simp only [noJumpS, Bool.and_eq_true] at h
      obtain ⟨t', ht⟩ := annotB_total t (fun p => a (0 :: p)) 0 h.1
      obtain ⟨e', he⟩ := annotB_total e (fun p => a (1 :: p)) 0 h.2
      exact ⟨.ifS (a []) c t' e', by simp only [annotS, ht, he]⟩
  | .whileS c b, a, h => by
      simp only [noJumpS] at h
      obtain ⟨b', hb'⟩ := annotB_total b (fun p => a (0 :: p)) 0 h
      exact ⟨.whileS (a []) c b', by simp only [annotS, hb']⟩
  | .forS x it ex b, a, h => by
      simp only [noJumpS] at h
      obtain ⟨b', hb'⟩ := annotB_total b (fun p => a (0 :: p)) 0 h
      exact ⟨.forS (a []) x it ex b', by simp only [annotS, hb']⟩
  | .withS tag b, a, h => by
      simp only [noJumpS] at h
      obtain ⟨b', hb'⟩ := annotB_total b (fun p => a (0 :: p)) 0 h
      exact ⟨.withS (a []) tag b', by simp only [annotS, hb']⟩
  | .tryS b hs f, a, h => by
      simp only [noJumpS, Bool.and_eq_true] at h
      obtain ⟨b', hb'⟩ := annotB_total b (fun p => a (0 :: p)) 0 h.1.1
      obtain ⟨hs', hh'⟩ := annotH_total hs a 2 h.1.2
      obtain ⟨f', hf'⟩ := annotB_total f (fun p => a (1 :: p)) 0 h.2
      exact ⟨.tryS (a []) b' hs' f', by simp only [annotS, hb', hh', hf']⟩
theorem annotB_total : ∀ (b : List Stmt) (A : Ann) (k : Nat), noJumpB b = true → ∃ q, annotB A k b = some q
  | [], A, k, _ => ⟨[], rfl⟩
  | s :: rest, A, k, h => by
      simp only [noJumpB, Bool.and_eq_true] at h
      obtain ⟨s', hs'⟩ := annotS_total s (fun p => A (k :: p)) h.1
      obtain ⟨r', hr'⟩ := annotB_total rest A (k + 1) h.2
      exact ⟨s' :: r', by simp only [annotB, hs', hr']⟩
theorem annotH_total : ∀ (hs : List (Nat × List Stmt)) (a : Ann) (j : Nat), noJumpH hs = true → ∃ q, annotH a j hs = some q
  | [], a, j, _ => ⟨[], rfl⟩
  | (t, b) :: r, a, j, h => by
      simp only [noJumpH, Bool.and_eq_true] at h
      obtain ⟨b', hb'⟩ := annotB_total b (fun p => a (j :: p)) 0 h.1
      obtain ⟨r', hr'⟩ := annotH_total r a (j + 1) h.2
      exact ⟨(t, b') :: r', by simp only [annotH, hb', hr']⟩
end

end Malt.Func
