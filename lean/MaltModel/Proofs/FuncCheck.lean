import MaltModel.Func.Functionalise
/-! Soundness of the executable checkers for the hypotheses of `control_flow_correct`. -/
namespace Malt.Func
open Malt.Sem

theorem subB_iff {A B : List Name} : subB A B = true ↔ A ⊆ B := by
  simp [subB, List.all_eq_true, List.subset_def]

theorem disjB_iff {A B : List Name} : disjB A B = true ↔ ∀ u ∈ A, u ∉ B := by
  simp [disjB, List.all_eq_true]

mutual
theorem liveS_sound : ∀ (s : AStmt), liveS s = true → LiveS s
  | .assign i x e, h => by simpa [liveS, LiveS, subB_iff] using h
  | .expr i e, h => by simpa [liveS, LiveS, subB_iff] using h
  | .pass i, h => by simpa [liveS, LiveS, subB_iff] using h
  | .ret i e, h => by simpa [liveS, LiveS, subB_iff] using h
  | .raise i t, _ => by simp [LiveS]
  | .ifS i c t e, h => by
      simp only [liveS, Bool.and_eq_true, subB_iff] at h
      simp only [LiveS]
      exact ⟨h.1.1.1.1, h.1.1.1.2, h.1.1.2, liveB_sound t _ h.1.2, liveB_sound e _ h.2⟩
  | .whileS i c b, h => by
      simp only [liveS, Bool.and_eq_true, subB_iff] at h
      simp only [LiveS]
      exact ⟨h.1.1.1, h.1.1.2, h.1.2, liveB_sound b _ h.2⟩
  | .forS i x it extra b, h => by
      simp only [liveS, Bool.and_eq_true, subB_iff] at h
      simp only [LiveS]
      exact ⟨h.1.1.1.1, h.1.1.1.2, h.1.1.2, h.1.2, liveB_sound b _ h.2⟩
theorem liveB_sound : ∀ (b : List AStmt) (O : List Name), liveB b O = true → LiveB b O
  | [], _, _ => by simp [LiveB]
  | s :: r, O, h => by
      simp only [liveB, Bool.and_eq_true, subB_iff] at h
      simp only [LiveB]
      exact ⟨liveS_sound s h.1.1, h.1.2, liveB_sound r O h.2⟩
end

/-- The checker run on the real `LIVE_VARS_IN/OUT` is sound for `LiveConsistent`. -/
theorem liveConsistent_sound (p : ABlock) (O : List Name) (h : liveConsistent p O = true) : LiveConsistent p O :=
  liveB_sound p O h

mutual
theorem declS_sound : ∀ (s : AStmt), declS s = true → DeclS s
  | .assign .., _ => by simp [DeclS]
  | .expr .., _ => by simp [DeclS]
  | .pass .., _ => by simp [DeclS]
  | .ret .., _ => by simp [DeclS]
  | .raise .., _ => by simp [DeclS]
  | .ifS i c t e, h => by
      simp only [declS, Bool.and_eq_true, subB_iff] at h
      simp only [DeclS]
      exact ⟨h.1.1.1, h.1.1.2, declB_sound t h.1.2, declB_sound e h.2⟩
  | .whileS i c b, h => by
      simp only [declS, Bool.and_eq_true, subB_iff] at h
      simp only [DeclS]
      exact ⟨h.1.1, h.1.2, declB_sound b h.2⟩
  | .forS i x it extra b, h => by
      simp only [declS, Bool.and_eq_true, subB_iff] at h
      simp only [DeclS]
      exact ⟨h.1.1, h.1.2, declB_sound b h.2⟩
theorem declB_sound : ∀ (b : List AStmt), declB b = true → DeclB b
  | [], _ => by simp [DeclB]
  | s :: r, h => by
      simp only [declB, Bool.and_eq_true] at h
      simp only [DeclB]
      exact ⟨declS_sound s h.1, declB_sound r h.2⟩
end

mutual
theorem defS_sound : ∀ (D : List Name) (s : AStmt), defS D s = true → DefS D s
  | _, .assign .., _ => by simp [DefS]
  | _, .expr .., _ => by simp [DefS]
  | _, .pass .., _ => by simp [DefS]
  | _, .ret .., _ => by simp [DefS]
  | _, .raise .., _ => by simp [DefS]
  | D, .ifS i c t e, h => by
      simp only [defS, Bool.and_eq_true, subB_iff, disjB_iff] at h
      simp only [DefS]
      exact ⟨h.1.1.1, h.1.1.2, defB_sound D t h.1.2, defB_sound D e h.2⟩
  | D, .whileS i c b, h => by
      simp only [defS, Bool.and_eq_true, subB_iff, disjB_iff] at h
      simp only [DefS]
      exact ⟨h.1.1, h.1.2, defB_sound _ b h.2⟩
  | D, .forS i x it extra b, h => by
      simp only [defS, Bool.and_eq_true, subB_iff, disjB_iff] at h
      simp only [DefS]
      exact ⟨h.1.1, h.1.2, defB_sound _ b h.2⟩
theorem defB_sound : ∀ (D : List Name) (b : List AStmt), defB D b = true → DefB D b
  | _, [], _ => by simp [DefB]
  | D, s :: r, h => by
      simp only [defB, Bool.and_eq_true] at h
      simp only [DefB]
      exact ⟨defS_sound D s h.1, defB_sound _ r h.2⟩
end

theorem funcHyp_sound (D : List Name) (p : ABlock) (O : List Name) (h : funcHyp D p O = true) : FuncHyp D p O := by
  simp only [funcHyp, Bool.and_eq_true] at h
  exact ⟨liveConsistent_sound p O h.1.1.1, declB_sound p h.1.1.2, defB_sound D p h.1.2, h.2⟩

/-- A consistent liveness annotation is outside the finding class `for_target_live_across_zero_trip`. -/
theorem subB_contains {A B : List Name} (h : A ⊆ B) {x : Name} (hx : A.contains x = true) : B.contains x = true := by
  have : x ∈ A := by simpa using hx
  simpa using h this

mutual
theorem live_not_zeroTripS : ∀ (s : AStmt), LiveS s → forTargetZeroTripS s = false
  | .assign .., _ => rfl
  | .expr .., _ => rfl
  | .pass .., _ => rfl
  | .ret .., _ => rfl
  | .raise .., _ => rfl
  | .ifS i c t e, h => by
      simp only [LiveS] at h
      simp [forTargetZeroTripS, live_not_zeroTripB t _ h.2.2.2.1, live_not_zeroTripB e _ h.2.2.2.2]
  | .whileS i c b, h => by
      simp only [LiveS] at h
      simp [forTargetZeroTripS, live_not_zeroTripB b _ h.2.2.2]
  | .forS i x it extra b, h => by
      simp only [LiveS] at h
      simp only [forTargetZeroTripS, live_not_zeroTripB b _ h.2.2.2.2, Bool.or_false]
      cases hc : i.liveOut.contains x with
      | false => rfl
      | true => simp; exact h.2.2.1 (by simpa using hc)
theorem live_not_zeroTripB : ∀ (b : List AStmt) (O : List Name), LiveB b O → forTargetZeroTripB b = false
  | [], _, _ => rfl
  | s :: r, O, h => by
      simp only [LiveB] at h
      simp [forTargetZeroTripB, live_not_zeroTripS s h.1, live_not_zeroTripB r O h.2.2]
end

theorem nodupB_sound : ∀ (l : List Name), nodupB l = true → l.Nodup
  | [], _ => List.nodup_nil
  | x :: xs, h => by
      simp only [nodupB, Bool.and_eq_true, Bool.not_eq_eq_eq_not, Bool.not_true] at h
      refine List.nodup_cons.mpr ⟨fun hx => ?_, nodupB_sound xs h.2⟩
      have : xs.contains x = true := by simpa using hx
      rw [h.1] at this; cases this

mutual
theorem hypFS_sound : ∀ (s : AStmt), hypFS s = true → HypFS s
  | .assign .., _ => by simp [HypFS]
  | .expr .., _ => by simp [HypFS]
  | .pass .., _ => by simp [HypFS]
  | .ret .., _ => by simp [HypFS]
  | .raise .., _ => by simp [HypFS]
  | .ifS i c t e, h => by
      simp only [hypFS, Bool.and_eq_true, subB_iff, disjB_iff] at h
      simp only [HypFS]
      exact ⟨nodupB_sound _ h.1.1.1.1, h.1.1.1.2, h.1.1.2, hypFB_sound t h.1.2, hypFB_sound e h.2⟩
  | .whileS i c b, h => by
      simp only [hypFS, Bool.and_eq_true, subB_iff] at h
      simp only [HypFS]
      exact ⟨h.1, hypFB_sound b h.2⟩
  | .forS i x it extra b, h => by
      simp only [hypFS, Bool.and_eq_true, subB_iff] at h
      simp only [HypFS]
      exact ⟨h.1, hypFB_sound b h.2⟩
theorem hypFB_sound : ∀ (b : List AStmt), hypFB b = true → HypFB b
  | [], _ => by simp [HypFB]
  | s :: r, h => by
      simp only [hypFB, Bool.and_eq_true] at h
      simp only [HypFB]
      exact ⟨hypFS_sound s h.1, hypFB_sound r h.2⟩
end

/-! ### `annotB` really annotates: erasing the annotation gives the program back -/
mutual
theorem annotS_erase : ∀ (s : Stmt) (a : Ann) (s' : AStmt), annotS a s = some s' → eraseS s' = s
  | .assign x e, a, s', h => by simp [annotS] at h; subst h; rfl
  | .expr e, a, s', h => by simp [annotS] at h; subst h; rfl
  | .pass, a, s', h => by simp [annotS] at h; subst h; rfl
  | .ret e, a, s', h => by simp [annotS] at h; subst h; rfl
  | .raise t, a, s', h => by simp [annotS] at h; subst h; rfl
  | .brk, a, s', h => by simp [annotS] at h
  | .cont, a, s', h => by simp [annotS] at h
  | .tryS .., a, s', h => by simp [annotS] at h
  | .withS .., a, s', h => by simp [annotS] at h
  | .ifS c t e, a, s', h => by
      simp only [annotS] at h
      cases ht : annotB (fun p => a (0 :: p)) 0 t with
      | none => simp [ht] at h
      | some t' =>
        cases he : annotB (fun p => a (1 :: p)) 0 e with
        | none => simp [ht, he] at h
        | some e' =>
          simp [ht, he] at h; subst h
          simp [eraseS, annotB_erase t _ 0 t' ht, annotB_erase e _ 0 e' he]
  | .whileS c b, a, s', h => by
      simp only [annotS] at h
      cases hb : annotB (fun p => a (0 :: p)) 0 b with
      | none => simp [hb] at h
      | some b' => simp [hb] at h; subst h; simp [eraseS, annotB_erase b _ 0 b' hb]
  | .forS x it extra b, a, s', h => by
      simp only [annotS] at h
      cases hb : annotB (fun p => a (0 :: p)) 0 b with
      | none => simp [hb] at h
      | some b' => simp [hb] at h; subst h; simp [eraseS, annotB_erase b _ 0 b' hb]
theorem annotB_erase : ∀ (b : Block) (A : Ann) (k : Nat) (b' : List AStmt), annotB A k b = some b' → eraseB b' = b
  | [], A, k, b', h => by simp [annotB] at h; subst h; rfl
  | s :: r, A, k, b', h => by
      simp only [annotB] at h
      cases hs : annotS (fun p => A (k :: p)) s with
      | none => simp [hs] at h
      | some s' =>
        cases hr : annotB A (k+1) r with
        | none => simp [hs, hr] at h
        | some r' =>
          simp [hs, hr] at h; subst h
          simp [eraseB, annotS_erase s _ s' hs, annotB_erase r A (k+1) r' hr]
end

end Malt.Func
