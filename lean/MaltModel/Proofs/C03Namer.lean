import MaltModel.Rt.Naming
import Std.Data.String.ToNat
/-! Freshness of `Namer.new_symbol` (model `Rt.Naming.newSymbol`): the name handed out is not in the namespace,
not reserved and was not generated before; by pigeonhole the bounded search of the model never runs out. -/
namespace Malt.Naming

theorem candidate_inj {root : String} {j k : Nat} (h : candidate root j = candidate root k) : j = k := by
  unfold candidate at h
  rw [String.append_assoc, String.append_assoc, String.append_right_inj, String.append_right_inj] at h
  exact Nat.repr_inj.mp h

theorem pigeon : ∀ (l S : List String), S.Nodup → (∀ x ∈ S, x ∈ l) → S.length ≤ l.length
  | [], S, _, hs => by
      cases S with
      | nil => simp
      | cons a S => exact absurd (hs a (List.mem_cons_self ..)) (by simp)
  | a :: l, S, hn, hs => by
      have h1 : (S.erase a).Nodup := hn.erase a
      have h2 : ∀ x ∈ S.erase a, x ∈ l := by
        intro x hx
        have := (hn.mem_erase_iff).mp hx
        rcases List.mem_cons.mp (hs x this.2) with rfl | h
        · exact absurd rfl this.1
        · exact h
      have ih := pigeon l (S.erase a) h1 h2
      by_cases ha : a ∈ S
      · rw [List.length_erase_of_mem ha] at ih
        simp only [List.length_cons]; omega
      · rw [List.erase_of_not_mem ha] at ih
        simp only [List.length_cons]; omega

theorem firstFree_spec (root : String) (taken : List String) :
    ∀ (fuel start : Nat), firstFree root taken start fuel ∉ taken ∨
      ∀ k, k ≤ fuel → candidate root (start + k) ∈ taken
  | 0, start => by
      unfold firstFree
      by_cases h : candidate root start ∈ taken
      · right; intro k hk
        have : k = 0 := by omega
        subst this; simpa using h
      · left; exact h
  | fuel + 1, start => by
      unfold firstFree
      by_cases h : taken.contains (candidate root start) = true
      · rw [if_pos h]
        rcases firstFree_spec root taken fuel (start + 1) with ih | ih
        · left; exact ih
        · right; intro k hk
          cases k with
          | zero => simpa using h
          | succ j =>
            have := ih j (by omega)
            rwa [show start + 1 + j = start + (j + 1) by omega] at this
      · rw [if_neg h]
        left; simpa using h

theorem firstFree_fresh (root : String) (taken : List String) (start : Nat) :
    firstFree root taken start (taken.length + 1) ∉ taken := by
  rcases firstFree_spec root taken (taken.length + 1) start with h | h
  · exact h
  · exfalso
    let S := (List.range (taken.length + 2)).map (fun k => candidate root (start + k))
    have hn : S.Nodup := by
      refine (List.pairwise_map.mpr ?_)
      refine List.Pairwise.imp ?_ (List.nodup_range (n := taken.length + 2))
      intro a b hab heq
      exact hab (by have := candidate_inj heq; omega)
    have hs : ∀ x ∈ S, x ∈ taken := by
      intro x hx
      obtain ⟨k, hk, rfl⟩ := List.mem_map.mp hx
      exact h k (by have := List.mem_range.mp hk; omega)
    have := pigeon taken S hn hs
    simp only [S, List.length_map, List.length_range] at this
    omega

/-- The name handed out is not in the namespace, not reserved and was not generated before. -/
theorem newSymbol_fresh (nm : Namer) (root : String) (reserved : List String) :
    (newSymbol nm root reserved).1 ∉ nm.globalNs ++ reserved ++ nm.generated := by
  unfold newSymbol
  simp only
  split
  · rename_i h
    exact firstFree_fresh _ _ _
  · rename_i h
    simpa using h

theorem newSymbol_generated (nm : Namer) (root : String) (reserved : List String) :
    (newSymbol nm root reserved).2.generated = (newSymbol nm root reserved).1 :: nm.generated := by
  unfold newSymbol
  simp only

theorem newSymbol_globalNs (nm : Namer) (root : String) (reserved : List String) :
    (newSymbol nm root reserved).2.globalNs = nm.globalNs := by
  unfold newSymbol
  simp only

end Malt.Naming
