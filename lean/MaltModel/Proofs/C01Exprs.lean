import MaltModel.Sem.Wrappers
/-
Helper development for Props/C01Exprs.lean: packing algebra, purity, comparison chains, the mutual
structural induction `wrap_sem`, and the embedding of `Malt.Sem` expressions.
-/
namespace Malt.C01Exprs
open Malt.Sem (Name Val BinOp Exc Event St Ext truthy ofBool evalBin)
open Malt.SemW

abbrev R := Except Exc Val × St
abbrev RL := Except Exc (List Val) × St

/-! ### small facts about values -/
theorem truthy_ofBool (b : Bool) : truthy (ofBool b) = b := by cases b <;> rfl

theorem evalBin_eq (v w : Val) : evalBin .eq v w = .ok (ofBool (v == w)) := by
  cases v <;> cases w <;> rfl

theorem evalBin_ne (v w : Val) : evalBin .ne v w = .ok (ofBool (!truthy (ofBool (v == w)))) := by
  rw [truthy_ofBool]
  cases v <;> cases w <;> rfl

/-- `ag__.eq` / `ag__.not_eq` (when EQUALITY_OPERATORS is on) mean `==` / `!=`. -/
theorem cmp_sem (X : Ext) (eqOn : Bool) (op : BinOp) (l r : Expr) (σ : St) :
    evalW X (cmp eqOn op l r) σ = evalW X (.bin op l r) σ := by
  unfold cmp
  split
  · rename_i h
    simp only [Bool.and_eq_true, beq_iff_eq] at h
    obtain ⟨_, rfl⟩ := h
    simp only [evalW]
    rcases evalW X l σ with ⟨_ | v, σ'⟩ <;> simp only []
    rcases evalW X r σ' with ⟨_ | w, σ''⟩ <;> simp only [evalBin_eq]
  · split
    · rename_i _ h
      simp only [Bool.and_eq_true, beq_iff_eq] at h
      obtain ⟨_, rfl⟩ := h
      simp only [evalW]
      rcases evalW X l σ with ⟨_ | v, σ'⟩ <;> simp only []
      rcases evalW X r σ' with ⟨_ | w, σ''⟩ <;> simp only [evalBin_ne]
    · rfl

/-! ### the argument packing preserves order and effects

Sequencing combinator on "evaluate to a list of values" computations; the packing is a re-association. -/
def seqL (f g : St → RL) : St → RL := fun σ =>
  match f σ with
  | (.ok vs, σ') => (match g σ' with
      | (.ok ws, σ'') => (.ok (vs ++ ws), σ'')
      | r => r)
  | r => r

def unitL : St → RL := fun σ => (.ok [], σ)

/-- one plain argument -/
def one (X : Ext) (e : Expr) : St → RL := fun σ =>
  match evalW X e σ with
  | (.ok v, σ') => (.ok [v], σ')
  | (.error ex, σ') => (.error ex, σ')

/-- one starred argument / `tuple(e)` -/
def spl (X : Ext) (e : Expr) : St → RL := fun σ =>
  match evalW X e σ with
  | (.ok v, σ') => (match splice v with
      | .ok items => (.ok items, σ')
      | .error ex => (.error ex, σ'))
  | (.error ex, σ') => (.error ex, σ')

theorem seqL_unit_left (g : St → RL) : seqL unitL g = g := by
  funext σ
  simp only [seqL, unitL]
  rcases g σ with ⟨_ | ws, σ2⟩ <;> simp

theorem seqL_unit_right (f : St → RL) : seqL f unitL = f := by
  funext σ
  simp only [seqL, unitL]
  rcases f σ with ⟨_ | vs, σ1⟩ <;> simp

theorem seqL_assoc (f g h : St → RL) : seqL (seqL f g) h = seqL f (seqL g h) := by
  funext σ
  simp only [seqL]
  rcases f σ with ⟨_ | vs, σ1⟩ <;> simp only []
  rcases g σ1 with ⟨_ | ws, σ2⟩ <;> simp only []
  rcases h σ2 with ⟨_ | us, σ3⟩ <;> simp [List.append_assoc]

theorem evalTup_nil (X : Ext) : evalTup X [] = unitL := by funext σ; simp [evalTup, unitL]

theorem evalTup_cons (X : Ext) (e : Expr) (es : List Expr) : evalTup X (e :: es) = seqL (one X e) (evalTup X es) := by
  funext σ
  simp only [evalTup, seqL, one]
  rcases evalW X e σ with ⟨_ | v, σ1⟩ <;> simp only []
  rcases evalTup X es σ1 with ⟨_ | vs, σ2⟩ <;> simp

theorem evalTup_snoc (X : Ext) : ∀ (acc : List Expr) (a : Expr), evalTup X (acc ++ [a]) = seqL (evalTup X acc) (one X a)
  | [], a => by
      rw [List.nil_append, evalTup_cons, evalTup_nil, seqL_unit_left, seqL_unit_right]
  | e :: acc, a => by
      rw [List.cons_append, evalTup_cons, evalTup_cons, evalTup_snoc X acc a, seqL_assoc]

theorem evalArgs_nil (X : Ext) : evalArgs X [] = unitL := by funext σ; simp [evalArgs, unitL]

theorem evalArgs_star (X : Ext) (e : Expr) (es : List Expr) :
    evalArgs X (.star e :: es) = seqL (spl X e) (evalArgs X es) := by
  funext σ
  simp only [evalArgs, seqL, spl]
  rcases evalW X e σ with ⟨_ | v, σ1⟩ <;> simp only []
  rcases splice v with _ | items <;> simp only []
  rcases evalArgs X es σ1 with ⟨_ | vs, σ2⟩ <;> simp

/-- not a starred argument -/
def plain : Expr → Bool
  | .star _ => false
  | _ => true

theorem evalArgs_plain (X : Ext) (e : Expr) (es : List Expr) (h : plain e = true) :
    evalArgs X (e :: es) = seqL (one X e) (evalArgs X es) := by
  funext σ
  cases e <;> simp [plain] at h <;> simp only [evalArgs, seqL, one]
  all_goals
    generalize evalW X _ σ = r
    rcases r with ⟨_ | v, σ1⟩ <;> simp only []
    rcases evalArgs X es σ1 with ⟨_ | vs, σ2⟩ <;> simp

def evalPacks (X : Ext) : List Pack → St → RL
  | [] => unitL
  | p :: ps => seqL (evalPack X p) (evalPacks X ps)

theorem evalPack_add (X : Ext) (p q : Pack) : evalPack X (.add p q) = seqL (evalPack X p) (evalPack X q) := by
  funext σ; simp only [evalPack, seqL]
  rcases evalPack X p σ with ⟨_ | vs, σ1⟩
  · rfl
  · rcases evalPack X q σ1 with ⟨_ | ws, σ2⟩ <;> rfl

theorem evalPack_tupleOf (X : Ext) (e : Expr) : evalPack X (.tupleOf e) = spl X e := by
  funext σ; simp only [evalPack, spl]
  rcases evalW X e σ with ⟨_ | v, σ1⟩
  · rfl
  · rcases splice v with _ | items <;> rfl

theorem evalPack_tup (X : Ext) (es : List Expr) : evalPack X (.tup es) = evalTup X es := by
  funext σ; simp only [evalPack]

theorem evalPacks_append (X : Ext) : ∀ (a b : List Pack), evalPacks X (a ++ b) = seqL (evalPacks X a) (evalPacks X b)
  | [], b => by simp [evalPacks, seqL_unit_left]
  | p :: a, b => by simp [evalPacks, evalPacks_append X a b, seqL_assoc]

theorem evalPack_addAll (X : Ext) : ∀ (xs : List Pack) (r : Pack),
    evalPack X (addAll r xs) = seqL (evalPack X r) (evalPacks X xs)
  | [], r => by simp [addAll, evalPacks, seqL_unit_right]
  | x :: xs, r => by simp [addAll, evalPacks, evalPack_addAll X xs, evalPack_add, seqL_assoc]

theorem evalPacks_consume (X : Ext) (acc : List Expr) (spec : List Pack) :
    evalPacks X (consume acc spec) = seqL (evalPacks X spec) (evalTup X acc) := by
  unfold consume
  split
  · rename_i h
    have : acc = [] := List.isEmpty_iff.mp h
    subst this
    rw [evalTup_nil, seqL_unit_right]
  · rw [evalPacks_append]
    simp [evalPacks, evalPack_tup, seqL_unit_right]

theorem evalPacks_argSpec (X : Ext) : ∀ (args acc : List Expr) (spec : List Pack),
    evalPacks X (argSpec acc spec args) = seqL (evalPacks X spec) (seqL (evalTup X acc) (evalArgs X args))
  | [], acc, spec => by
      simp only [argSpec]
      rw [evalPacks_consume, evalArgs_nil, seqL_unit_right]
  | a :: rest, acc, spec => by
      cases a
      case star e =>
        simp only [argSpec]
        rw [evalPacks_argSpec X rest [] _, evalPacks_append, evalPacks_consume, evalArgs_star, evalTup_nil]
        simp [evalPacks, evalPack_tupleOf, seqL_unit_left, seqL_unit_right, seqL_assoc]
      all_goals
        simp only [argSpec]
        rw [evalPacks_argSpec X rest _ spec, evalTup_snoc, evalArgs_plain X _ rest rfl]
        simp [seqL_assoc]

/-- **The packing of call arguments preserves evaluation order, effects and values**: evaluating the
tuple expression `(a, b) + tuple(c) + (d,)` built by `_ArgTemplateBuilder` is evaluating `a, b, *c, d`. -/
theorem packOf_sem (X : Ext) (args : List Expr) (σ : St) : evalPack X (packOf args) σ = evalArgs X args σ := by
  have h := evalPacks_argSpec X args [] []
  unfold packOf
  split
  · rename_i heq
    rw [heq] at h
    rw [evalPack_tup, evalTup_nil]
    simp only [evalPacks, evalTup_nil, seqL_unit_left] at h
    exact congrFun h σ
  · rename_i x xs heq
    rw [heq] at h
    rw [evalPack_addAll]
    simp only [evalPacks, evalTup_nil, seqL_unit_left] at h
    exact congrFun h σ

/-! ### call-free expressions leave the state alone -/
def SemPure (X : Ext) (e : Expr) : Prop := ∀ σ, (evalW X e σ).2 = σ

mutual
theorem pureE_state (X : Ext) : ∀ (e : Expr), pureE e = true → ∀ σ, (evalW X e σ).2 = σ
  | .const v, _, σ => by simp [evalW]
  | .var x, _, σ => by simp only [evalW]; cases σ.env x <;> rfl
  | .ld x, _, σ => by simp only [evalW]; cases σ.env x <;> rfl
  | .not e, h, σ => by
      simp only [pureE] at h
      have := pureE_state X e h σ
      simp only [evalW]; rcases hr : evalW X e σ with ⟨_ | v, σ1⟩ <;> simp_all
  | .not_ e, h, σ => by
      simp only [pureE] at h
      have := pureE_state X e h σ
      simp only [evalW]; rcases hr : evalW X e σ with ⟨_ | v, σ1⟩ <;> simp_all
  | .and a b, h, σ => by
      simp only [pureE, Bool.and_eq_true] at h
      have ha := pureE_state X a h.1 σ
      simp only [evalW]; rcases hr : evalW X a σ with ⟨_ | v, σ1⟩ <;> simp_all
      split
      · exact pureE_state X b h.2 σ
      · rfl
  | .and_ a b, h, σ => by
      simp only [pureE, Bool.and_eq_true] at h
      have ha := pureE_state X a h.1 σ
      simp only [evalW]; rcases hr : evalW X a σ with ⟨_ | v, σ1⟩ <;> simp_all
      split
      · exact pureE_state X b h.2 σ
      · rfl
  | .or a b, h, σ => by
      simp only [pureE, Bool.and_eq_true] at h
      have ha := pureE_state X a h.1 σ
      simp only [evalW]; rcases hr : evalW X a σ with ⟨_ | v, σ1⟩ <;> simp_all
      split
      · rfl
      · exact pureE_state X b h.2 σ
  | .or_ a b, h, σ => by
      simp only [pureE, Bool.and_eq_true] at h
      have ha := pureE_state X a h.1 σ
      simp only [evalW]; rcases hr : evalW X a σ with ⟨_ | v, σ1⟩ <;> simp_all
      split
      · rfl
      · exact pureE_state X b h.2 σ
  | .ite c t e, h, σ => by
      simp only [pureE, Bool.and_eq_true] at h
      have hc := pureE_state X c h.1.1 σ
      simp only [evalW]; rcases hr : evalW X c σ with ⟨_ | v, σ1⟩ <;> simp_all
      split
      · exact pureE_state X t h.1.2 σ
      · exact pureE_state X e h.2 σ
  | .ifExp c t e, h, σ => by
      simp only [pureE, Bool.and_eq_true] at h
      have hc := pureE_state X c h.1.1 σ
      simp only [evalW]; rcases hr : evalW X c σ with ⟨_ | v, σ1⟩ <;> simp_all
      split
      · exact pureE_state X t h.1.2 σ
      · exact pureE_state X e h.2 σ
  | .bin op a b, h, σ => by
      simp only [pureE, Bool.and_eq_true] at h
      have ha := pureE_state X a h.1 σ
      simp only [evalW]; rcases hr : evalW X a σ with ⟨_ | v, σ1⟩ <;> simp_all
      have hb := pureE_state X b h.2 σ
      rcases hr2 : evalW X b σ with ⟨_ | w, σ2⟩ <;> simp_all
      cases evalBin op v w <;> rfl
  | .eq_ a b, h, σ => by
      simp only [pureE, Bool.and_eq_true] at h
      have ha := pureE_state X a h.1 σ
      simp only [evalW]; rcases hr : evalW X a σ with ⟨_ | v, σ1⟩ <;> simp_all
      have hb := pureE_state X b h.2 σ
      rcases hr2 : evalW X b σ with ⟨_ | w, σ2⟩ <;> simp_all
  | .notEq_ a b, h, σ => by
      simp only [pureE, Bool.and_eq_true] at h
      have ha := pureE_state X a h.1 σ
      simp only [evalW]; rcases hr : evalW X a σ with ⟨_ | v, σ1⟩ <;> simp_all
      have hb := pureE_state X b h.2 σ
      rcases hr2 : evalW X b σ with ⟨_ | w, σ2⟩ <;> simp_all
  | .chain f ops rest, h, σ => by
      simp only [pureE, Bool.and_eq_true] at h
      have hf := pureE_state X f h.1 σ
      simp only [evalW]; rcases hr : evalW X f σ with ⟨_ | v, σ1⟩ <;> simp_all
      exact pureL_chain X rest h.2 v ops σ
  | .star e, _, σ => by simp [evalW]
  | .call .., h, _ => by simp [pureE] at h
  | .convCall .., h, _ => by simp [pureE] at h
theorem pureL_chain (X : Ext) : ∀ (es : List Expr), pureL es = true → ∀ prev ops σ, (evalChain X prev ops es σ).2 = σ
  | [], _, prev, ops, σ => by cases ops <;> simp [evalChain]
  | e :: es, h, prev, ops, σ => by
      simp only [pureL, Bool.and_eq_true] at h
      cases ops with
      | nil => simp [evalChain]
      | cons op ops =>
          have he := pureE_state X e h.1 σ
          simp only [evalChain]
          rcases hr : evalW X e σ with ⟨_ | w, σ1⟩ <;> simp_all
          cases evalBin op prev w with
          | error ex => rfl
          | ok r =>
              simp only []
              cases ops with
              | nil => rfl
              | cons op2 ops2 =>
                  cases es with
                  | nil => rfl
                  | cons e2 es2 =>
                      simp only []
                      split
                      · exact pureL_chain X (e2 :: es2) h.2 w (op2 :: ops2) σ
                      · rfl
end

/-! ### comparison chains -/

/-- what the left-nested `and_` chain built by `wrapChain` computes once the accumulated prefix has been
evaluated to `res` -/
def tailSem (X : Ext) (eqOn : Bool) : R → Expr → List BinOp → List Expr → R
  | res, left, op :: ops, r :: rs =>
      (match res with
       | (.ok v, σ1) => if truthy v then tailSem X eqOn (evalW X (cmp eqOn op left r) σ1) r ops rs else (.ok v, σ1)
       | e => e)
  | res, _, _, _ => res

theorem tailSem_stop (X : Ext) (eqOn : Bool) (v : Val) (σ1 : St) (hv : truthy v = false) :
    ∀ (ops : List BinOp) (rs : List Expr) (left : Expr), tailSem X eqOn (.ok v, σ1) left ops rs = (.ok v, σ1)
  | [], _, _ => by simp [tailSem]
  | _ :: _, [], _ => by simp [tailSem]
  | _ :: _, _ :: _, _ => by simp [tailSem, hv]

theorem tailSem_err (X : Ext) (eqOn : Bool) (ex : Exc) (σ1 : St) :
    ∀ (ops : List BinOp) (rs : List Expr) (left : Expr), tailSem X eqOn (.error ex, σ1) left ops rs = (.error ex, σ1)
  | [], _, _ => by simp [tailSem]
  | _ :: _, [], _ => by simp [tailSem]
  | _ :: _, _ :: _, _ => by simp [tailSem]

/-- the `and_` chain evaluates its prefix once, then the next comparison, … -/
theorem wrapChain_some_sem (X : Ext) (eqOn : Bool) :
    ∀ (ops : List BinOp) (rs : List Expr) (acc left : Expr) (σ : St),
      ∃ t, wrapChain eqOn (some acc) left ops rs = some t ∧ evalW X t σ = tailSem X eqOn (evalW X acc σ) left ops rs
  | [], _, acc, left, σ => ⟨acc, by simp [wrapChain], by simp [tailSem]⟩
  | _ :: _, [], acc, left, σ => ⟨acc, by simp [wrapChain], by simp [tailSem]⟩
  | op :: ops, r :: rs, acc, left, σ => by
      obtain ⟨t, ht, hs⟩ := wrapChain_some_sem X eqOn ops rs (.and_ acc (cmp eqOn op left r)) r σ
      refine ⟨t, by simpa [wrapChain] using ht, ?_⟩
      rw [hs]
      simp only [evalW, tailSem]
      rcases evalW X acc σ with ⟨ex | v, σ1⟩
      · simp [tailSem_err]
      · simp only []
        cases hv : truthy v
        · simp [tailSem_stop X eqOn v σ1 hv]
        · simp

/-- Python's chain = the `and_` chain, when every re-used (middle) operand is semantically pure. -/
theorem tailSem_chain (X : Ext) (eqOn : Bool) :
    ∀ (ops : List BinOp) (rs : List Expr) (op : BinOp) (r left : Expr) (prev : Val) (σ σ1 : St),
      evalW X left σ = (.ok prev, σ1) → (∀ m ∈ middles (r :: rs), SemPure X m) →
      tailSem X eqOn (evalW X (cmp eqOn op left r) σ) r ops rs = evalChain X prev (op :: ops) (r :: rs) σ1
  | ops, rs, op, r, left, prev, σ, σ1, hl, hm => by
      rw [cmp_sem]
      simp only [evalW, hl, evalChain]
      rcases hr : evalW X r σ1 with ⟨ex | w, σ2⟩
      · simp [tailSem_err]
      · simp only []
        cases hb : evalBin op prev w with
        | error ex => simp [tailSem_err]
        | ok res =>
            simp only []
            cases ops with
            | nil => simp [tailSem]
            | cons op2 ops2 =>
                cases rs with
                | nil => simp [tailSem]
                | cons r2 rs2 =>
                    simp only [tailSem]
                    cases hv : truthy res
                    · simp
                    · simp only [if_true]
                      have hpure : SemPure X r := hm r (by simp [middles])
                      have h2 : σ2 = σ1 := by have := hpure σ1; rw [hr] at this; exact this
                      subst h2
                      exact tailSem_chain X eqOn ops2 rs2 op2 r2 r w σ2 σ2 hr
                        (fun m hmm => hm m (by simp only [middles] at hmm ⊢; exact List.mem_cons_of_mem _ hmm))

/-- conversion of a whole chain whose operands are already converted -/
theorem chain_sem (X : Ext) (eqOn : Bool) (first : Expr) (ops : List BinOp) (rs : List Expr)
    (hm : ∀ m ∈ middles rs, SemPure X m) (σ : St) :
    evalW X (chainResult first (wrapChain eqOn none first ops rs)) σ = evalW X (.chain first ops rs) σ := by
  cases ops with
  | nil =>
      simp only [wrapChain, chainResult, evalW]
      rcases evalW X first σ with ⟨ex | v, σ1⟩ <;> simp [evalChain]
  | cons op ops =>
      cases rs with
      | nil =>
          simp only [wrapChain, chainResult, evalW]
          rcases evalW X first σ with ⟨ex | v, σ1⟩ <;> simp [evalChain]
      | cons r rs =>
          simp only [wrapChain]
          obtain ⟨t, ht, hs⟩ := wrapChain_some_sem X eqOn ops rs (cmp eqOn op first r) r σ
          rw [ht]
          simp only [chainResult]
          rw [hs]
          simp only [evalW]
          rcases hf : evalW X first σ with ⟨ex | v, σ1⟩
          · rw [cmp_sem]; simp [evalW, hf, tailSem_err]
          · exact tailSem_chain X eqOn ops rs op r first v σ σ1 hf hm

/-! ### the main theorem -/
inductive SemEqL (X : Ext) : List Expr → List Expr → Prop
  | nil : SemEqL X [] []
  | cons : (∀ σ, evalW X a σ = evalW X b σ) → SemEqL X as bs → SemEqL X (a :: as) (b :: bs)

theorem evalChain_congr (X : Ext) {as bs : List Expr} (h : SemEqL X as bs) :
    ∀ (prev : Val) (ops : List BinOp) (σ : St), evalChain X prev ops as σ = evalChain X prev ops bs σ := by
  induction h with
  | nil => intros; rfl
  | @cons a b as' bs' hab hrest ih =>
      intro prev ops σ
      cases ops with
      | nil => simp [evalChain]
      | cons op ops =>
          simp only [evalChain, hab]
          rcases evalW X b σ with ⟨ex | w, σ1⟩
          · rfl
          · simp only []
            cases evalBin op prev w with
            | error ex => rfl
            | ok r =>
                simp only []
                cases ops with
                | nil => rfl
                | cons op2 ops2 =>
                    cases hrest with
                    | nil => rfl
                    | cons hab2 hrest2 =>
                        simp only []
                        split
                        · exact ih w (op2 :: ops2) σ1
                        · rfl

theorem middles_semPure (X : Ext) {as bs : List Expr} (h : SemEqL X as bs) :
    (∀ m ∈ middles bs, SemPure X m) → ∀ m ∈ middles as, SemPure X m := by
  induction h with
  | nil => intro _ m hm; simp [middles] at hm
  | @cons a b as' bs' hab hrest ih =>
      intro hb m hm
      cases hrest with
      | nil => simp [middles] at hm
      | @cons a2 b2 as2 bs2 hab2 hrest2 =>
          simp only [middles, List.mem_cons] at hm
          rcases hm with rfl | hm
          · intro σ; rw [hab]; exact hb b (by simp [middles]) σ
          · exact ih (fun m' hm' => hb m' (by simp only [middles]; exact List.mem_cons_of_mem _ hm')) m
              (by simpa [middles] using hm)

theorem pureL_mem : ∀ (es : List Expr), pureL es = true → ∀ m ∈ es, pureE m = true
  | [], _, m, hm => by cases hm
  | e :: es, h, m, hm => by
      simp only [pureL, Bool.and_eq_true] at h
      rcases List.mem_cons.mp hm with rfl | hm'
      · exact h.1
      · exact pureL_mem es h.2 m hm'

theorem plain_cmp (eqOn : Bool) (op : BinOp) (l r : Expr) : plain (cmp eqOn op l r) = true := by
  unfold cmp; split <;> (try split) <;> rfl

theorem wrapChain_plain (eqOn : Bool) : ∀ (ops : List BinOp) (rs : List Expr) (acc : Option Expr) (left t : Expr),
    (∀ a, acc = some a → plain a = true) → wrapChain eqOn acc left ops rs = some t → plain t = true
  | [], _, acc, left, t, ha, h => by simp [wrapChain] at h; exact ha t h
  | _ :: _, [], acc, left, t, ha, h => by simp [wrapChain] at h; exact ha t h
  | op :: ops, r :: rs, acc, left, t, ha, h => by
      simp only [wrapChain] at h
      refine wrapChain_plain eqOn ops rs _ r t ?_ h
      intro a hsome
      simp only [Option.some.injEq] at hsome
      subst hsome
      cases acc with
      | none => exact plain_cmp eqOn op left r
      | some _ => rfl

theorem plain_wrap (eqOn : Bool) (e : Expr) : plain (wrap eqOn e) = plain e := by
  cases e with
  | bin op a b => simp only [wrap]; rw [plain_cmp]; rfl
  | chain f ops rest =>
      simp only [wrap]
      cases hw : wrapChain eqOn none (wrap eqOn f) ops (wrapL eqOn rest) with
      | none => rfl
      | some t => exact wrapChain_plain eqOn ops _ none _ t (by intro a h; cases h) hw
  | _ => simp [wrap, plain]

theorem one_congr (X : Ext) (a b : Expr) (h : ∀ σ, evalW X a σ = evalW X b σ) : one X a = one X b := by
  funext σ; simp only [one, h]

theorem spl_congr (X : Ext) (a b : Expr) (h : ∀ σ, evalW X a σ = evalW X b σ) : spl X a = spl X b := by
  funext σ; simp only [spl, h]

mutual
/-- Full statement (FALSE, see `expr_wrappers_counterexample`):
      `∀ e σ, evalW X (wrap eqOn e) σ = evalW X e σ`. -/
theorem wrap_sem (X : Ext) (eqOn : Bool) : ∀ (e : Expr), chainsOk e = true → ∀ σ, evalW X (wrap eqOn e) σ = evalW X e σ
  | .const v, _, σ => by simp [wrap]
  | .var x, _, σ => by simp [wrap, evalW]
  | .not e, h, σ => by
      simp only [chainsOk] at h
      simp only [wrap, evalW, wrap_sem X eqOn e h]
  | .and a b, h, σ => by
      simp only [chainsOk, Bool.and_eq_true] at h
      simp only [wrap, evalW, wrap_sem X eqOn a h.1, wrap_sem X eqOn b h.2]
  | .or a b, h, σ => by
      simp only [chainsOk, Bool.and_eq_true] at h
      simp only [wrap, evalW, wrap_sem X eqOn a h.1, wrap_sem X eqOn b h.2]
  | .ite c t e, h, σ => by
      simp only [chainsOk, Bool.and_eq_true] at h
      simp only [wrap, evalW, wrap_sem X eqOn c h.1.1, wrap_sem X eqOn t h.1.2, wrap_sem X eqOn e h.2]
  | .bin op a b, h, σ => by
      simp only [chainsOk, Bool.and_eq_true] at h
      simp only [wrap]
      rw [cmp_sem]
      simp only [evalW, wrap_sem X eqOn a h.1, wrap_sem X eqOn b h.2]
  | .chain first ops rest, h, σ => by
      simp only [chainsOk, Bool.and_eq_true] at h
      have hL := wrapL_semEq X eqOn rest h.1.2
      have hpure : ∀ m ∈ middles rest, SemPure X m :=
        fun m hm => pureE_state X m (pureL_mem _ h.2 m hm)
      simp only [wrap]
      rw [chain_sem X eqOn (wrap eqOn first) ops (wrapL eqOn rest) (middles_semPure X hL hpure) σ]
      simp only [evalW, wrap_sem X eqOn first h.1.1]
      rcases evalW X first σ with ⟨ex | v, σ1⟩
      · rfl
      · exact evalChain_congr X hL v ops σ1
  | .call f args, h, σ => by
      simp only [chainsOk] at h
      simp only [wrap, evalW]
      rw [packOf_sem, wrapL_args X eqOn args h σ]
  | .star e, _, σ => by simp [wrap, evalW]
  | .ld _, _, _ => by simp [wrap]
  | .not_ _, _, _ => by simp [wrap]
  | .and_ _ _, _, _ => by simp [wrap]
  | .or_ _ _, _, _ => by simp [wrap]
  | .ifExp _ _ _, _, _ => by simp [wrap]
  | .eq_ _ _, _, _ => by simp [wrap]
  | .notEq_ _ _, _, _ => by simp [wrap]
  | .convCall _ _, _, _ => by simp [wrap]
theorem wrapL_semEq (X : Ext) (eqOn : Bool) : ∀ (es : List Expr), chainsOkL es = true → SemEqL X (wrapL eqOn es) es
  | [], _ => by simp only [wrapL]; exact .nil
  | e :: es, h => by
      simp only [chainsOkL, Bool.and_eq_true] at h
      simp only [wrapL]
      exact .cons (wrap_sem X eqOn e h.1) (wrapL_semEq X eqOn es h.2)
theorem wrapL_args (X : Ext) (eqOn : Bool) : ∀ (es : List Expr), chainsOkL es = true →
    ∀ σ, evalArgs X (wrapL eqOn es) σ = evalArgs X es σ
  | [], _, σ => by simp [wrapL]
  | .star x :: es, h, σ => by
      simp only [chainsOkL, chainsOk, Bool.and_eq_true] at h
      simp only [wrapL, wrap]
      rw [evalArgs_star, evalArgs_star, spl_congr X _ _ (wrap_sem X eqOn x h.1)]
      have : evalArgs X (wrapL eqOn es) = evalArgs X es := funext (wrapL_args X eqOn es h.2)
      rw [this]
  | e :: es, h, σ => by
      simp only [chainsOkL, Bool.and_eq_true] at h
      cases hp : plain e with
      | false => cases e <;> simp [plain] at hp
                 rename_i x
                 simp only [chainsOk] at h
                 simp only [wrapL, wrap]
                 rw [evalArgs_star, evalArgs_star, spl_congr X _ _ (wrap_sem X eqOn x h.1)]
                 have : evalArgs X (wrapL eqOn es) = evalArgs X es := funext (wrapL_args X eqOn es h.2)
                 rw [this]
      | true =>
          simp only [wrapL]
          rw [evalArgs_plain X _ _ (by rw [plain_wrap]; exact hp), evalArgs_plain X _ _ hp,
            one_congr X _ _ (wrap_sem X eqOn e h.1)]
          have : evalArgs X (wrapL eqOn es) = evalArgs X es := funext (wrapL_args X eqOn es h.2)
          rw [this]
end

/-! ### `Malt.Sem` expressions: no hypothesis at all -/
theorem plain_ofSem (e : Malt.Sem.Expr) : plain (ofSem e) = true := by
  cases e <;> simp [ofSem, plain]

mutual
theorem ofSem_eval (X : Ext) : ∀ (e : Malt.Sem.Expr) (σ : St), evalW X (ofSem e) σ = Malt.Sem.evalE X e σ
  | .const v, σ => by simp [ofSem, evalW, Malt.Sem.evalE]
  | .var x, σ => by
      simp only [ofSem, evalW, Malt.Sem.evalE]
      cases σ.env x <;> rfl
  | .not e, σ => by
      simp only [ofSem, evalW, Malt.Sem.evalE, ofSem_eval X e]
      rcases Malt.Sem.evalE X e σ with ⟨ex | v, σ1⟩ <;> rfl
  | .and a b, σ => by
      simp only [ofSem, evalW, Malt.Sem.evalE, ofSem_eval X a, ofSem_eval X b]
      rcases Malt.Sem.evalE X a σ with ⟨ex | v, σ1⟩ <;> rfl
  | .or a b, σ => by
      simp only [ofSem, evalW, Malt.Sem.evalE, ofSem_eval X a, ofSem_eval X b]
      rcases Malt.Sem.evalE X a σ with ⟨ex | v, σ1⟩ <;> rfl
  | .ite c t e, σ => by
      simp only [ofSem, evalW, Malt.Sem.evalE, ofSem_eval X c, ofSem_eval X t, ofSem_eval X e]
      rcases Malt.Sem.evalE X c σ with ⟨ex | v, σ1⟩ <;> rfl
  | .bin op a b, σ => by
      simp only [ofSem, evalW, Malt.Sem.evalE, ofSem_eval X a, ofSem_eval X b]
      rcases Malt.Sem.evalE X a σ with ⟨ex | v, σ1⟩
      · rfl
      · rcases Malt.Sem.evalE X b σ1 with ⟨ex | w, σ2⟩
        · rfl
        · cases evalBin op v w <;> rfl
  | .call f args, σ => by
      simp only [ofSem, evalW, Malt.Sem.evalE, ofSemL_eval X args]
      rcases Malt.Sem.evalArgs X args σ with ⟨ex | vs, σ1⟩ <;> rfl
theorem ofSemL_eval (X : Ext) : ∀ (es : List Malt.Sem.Expr) (σ : St), evalArgs X (ofSemL es) σ = Malt.Sem.evalArgs X es σ
  | [], σ => by simp [ofSemL, evalArgs, Malt.Sem.evalArgs]
  | e :: es, σ => by
      simp only [ofSemL]
      rw [evalArgs_plain X _ _ (plain_ofSem e)]
      simp only [seqL, one, ofSem_eval X e, Malt.Sem.evalArgs]
      rcases Malt.Sem.evalE X e σ with ⟨ex | v, σ1⟩
      · rfl
      · simp only [ofSemL_eval X es σ1]
        rcases Malt.Sem.evalArgs X es σ1 with ⟨ex | vs, σ2⟩ <;> simp
end

mutual
theorem chainsOk_ofSem : ∀ (e : Malt.Sem.Expr), chainsOk (ofSem e) = true
  | .const _ => rfl
  | .var _ => rfl
  | .not e => by simp [ofSem, chainsOk, chainsOk_ofSem e]
  | .and a b => by simp [ofSem, chainsOk, chainsOk_ofSem a, chainsOk_ofSem b]
  | .or a b => by simp [ofSem, chainsOk, chainsOk_ofSem a, chainsOk_ofSem b]
  | .ite c t e => by simp [ofSem, chainsOk, chainsOk_ofSem c, chainsOk_ofSem t, chainsOk_ofSem e]
  | .bin _ a b => by simp [ofSem, chainsOk, chainsOk_ofSem a, chainsOk_ofSem b]
  | .call _ args => by simp [ofSem, chainsOk, chainsOkL_ofSem args]
theorem chainsOkL_ofSem : ∀ (es : List Malt.Sem.Expr), chainsOkL (ofSemL es) = true
  | [] => rfl
  | e :: es => by simp [ofSemL, chainsOkL, chainsOk_ofSem e, chainsOkL_ofSem es]
end


end Malt.C01Exprs
