import MaltModel.Conv.AnfSpec
import MaltModel.Py.SemAnfStd
/- C18: concrete programs used by the examples / counterexamples of Props/C18.lean. -/
namespace Malt.Anf.Ex
open Malt.Py Malt.Anf Malt.SemAnf

def argsAB : Expr := .arguments 0 [] [.arg 0 "a" [], .arg 0 "b" []] [] [] [] [] []
def fn (body : List Stmt) : Stmt := .functionDef 1 "f" argsAB body [] [] false
def nm (s : String) : Expr := .name 0 s .load
def st (s : String) : Expr := .name 0 s .store
def num (n : String) : Expr := .const 0 "int" n
def tr (args : List Expr) : Expr := .call 0 (nm "tr") args []

/-- `x = a; return x + (x := 5)` -/
def pWalrus : Stmt := fn
  [.assign 2 [st "x"] (nm "a"),
   .ret 5 [.binop 6 "Add" (nm "x") (.namedexpr 8 (st "x") (num "5"))]]

/-- `O[tr(1)] = tr(2); return 0` -/
def pStore : Stmt := fn
  [.assign 2 [.subscript 3 (nm "O") (tr [num "1"]) .store] (tr [num "2"]), .ret 5 [num "0"]]

/-- `return tr(1, tr(2), tr(3, tr(4)))` -/
def pSibling : Stmt := fn [.ret 2 [tr [num "1", tr [num "2"], tr [num "3", tr [num "4"]]]]]

/-- `return tr(1, {tr(2): tr(3), tr(4): tr(5)})` -/
def pDict : Stmt := fn
  [.ret 2 [tr [num "1", .other 3 "Dict" ["2"] [tr [num "2"], tr [num "4"], tr [num "3"], tr [num "5"]]]]]

/-- `tmp_1001 = a + 7; return tr(1, tr(2, b), tmp_1001)` -/
def pTempName : Stmt := fn
  [.assign 2 [st "tmp_1001"] (.binop 3 "Add" (nm "a") (num "7")),
   .ret 5 [tr [num "1", tr [num "2", nm "b"], nm "tmp_1001"]]]

/-- a program of the proved fragment:
`x = tr(1, a + b * 2); for v in (tr(2), x): if v < tr(3, v): x = tr(4, x, v); return tr(5, x)` -/
def pGood : Stmt := fn
  [.assign 2 [st "x"] (tr [num "1", .binop 3 "Add" (nm "a") (.binop 4 "Mult" (nm "b") (num "2"))]),
   .for_ 5 (st "v") (.seq 6 .tuple [tr [num "2"], nm "x"] .load)
     [.if_ 7 (.compare 8 (nm "v") ["Lt"] [tr [num "3", nm "v"]])
        [.assign 9 [st "x"] (tr [num "4", nm "x", nm "v"])] []] [] [] false,
   .ret 10 [tr [num "5", nm "x"]]]

/-- a program exercising the constructs added to the fragment:
```
def f(a, b):
    global g
    def h(u): return tr(9, u)
    x = tr(1, O.yy, tr(2, tr(3, a)))     # a pure operand (O.yy) overtaken by a nested call
    O.p = tr(4, x)                       # attribute store
    O[b] = x                             # item store
    (u, v) = (x, tr(5))                  # unpacking
    x += tr(6, u - v)                    # augmented assignment
    assert x, b
    del O[a], u
    if x < tr(7): raise E(tr(8, x))
    return x
``` -/
def pGood2 : Stmt := fn
  [.global 2 ["g"],
   .functionDef 3 "h" (.arguments 0 [] [.arg 0 "u" []] [] [] [] [] []) [.ret 4 [tr [num "9", nm "u"]]] [] [] false,
   .assign 5 [st "x"] (tr [num "1", .attr 0 (nm "O") "yy" .load, tr [num "2", tr [num "3", nm "a"]]]),
   .assign 6 [.attr 0 (nm "O") "p" .store] (tr [num "4", nm "x"]),
   .assign 7 [.subscript 0 (nm "O") (nm "b") .store] (nm "x"),
   .assign 8 [.seq 0 .tuple [st "u", st "v"] .store] (.seq 0 .tuple [nm "x", tr [num "5"]] .load),
   .augAssign 9 (st "x") "Add" (tr [num "6", .binop 0 "Sub" (nm "u") (nm "v")]),
   .assert_ 10 (nm "x") [nm "b"],
   .delete 11 [.subscript 0 (nm "O") (nm "a") .del, .name 0 "u" .del],
   .if_ 12 (.compare 0 (nm "x") ["Lt"] [tr [num "7"]]) [.raise 13 [.call 0 (nm "E") [tr [num "8", nm "x"]] []] []] [],
   .ret 14 [nm "x"]]

def run (p : Stmt) (a b : Int) : Outcome × List Event := observe (runFn stdOracle stdGlobals p [.int a, .int b])

def runAnf (cfg : Config) (p : Stmt) (a b : Int) : Option (Outcome × List Event) :=
  match anf cfg p with
  | .ok [q] => some (run q a b)
  | _ => none

/-- the observable, flattened to integers: tags of the `tr` calls in order, then the returned integer -/
def sig (o : Outcome × List Event) : List Int :=
  (o.2.filterMap fun e => if e.callee == "tr" then (match e.args with | .int t :: _ => some t | _ => none)
      else if e.what == "call" then none else some (-(e.args.length : Int)))    -- stores / deletes show up as -arity
  ++ (match o.1 with | .ret (.int i) => [i] | .raise _ => [-99] | _ => [])

def sigAnf (cfg : Config) (p : Stmt) (a b : Int) : List Int :=
  match runAnf cfg p a b with
  | some o => sig o
  | none => [-1]

end Malt.Anf.Ex
