import MaltModel.Conv.Template
/- C17 helper lemmas: copy discipline.  `Fresh a l b`: the label list `l` is exactly `a, a+1, …, b-1`. -/
set_option linter.unusedSimpArgs false
set_option linter.unusedVariables false
namespace Malt.Conv.Template
open Malt.Py

def Fresh (a : Nat) (l : List Nat) (b : Nat) : Prop := a ≤ b ∧ l = List.range' a (b - a)

theorem Fresh.nil (a : Nat) : Fresh a [] a := by simp [Fresh]

theorem Fresh.cons {a b : Nat} {l : List Nat} (h : Fresh (a + 1) l b) : Fresh a (a :: l) b := by
  obtain ⟨h1, h2⟩ := h
  refine ⟨by omega, ?_⟩
  have : b - a = (b - (a + 1)) + 1 := by omega
  rw [this, List.range'_succ, h2]

theorem Fresh.append {a b c : Nat} {l1 l2 : List Nat} (h1 : Fresh a l1 b) (h2 : Fresh b l2 c) : Fresh a (l1 ++ l2) c := by
  obtain ⟨ha, hl1⟩ := h1
  obtain ⟨hb, hl2⟩ := h2
  refine ⟨by omega, ?_⟩
  have e : c - a = (b - a) + (c - b) := by omega
  have e2 : b = a + 1 * (b - a) := by omega
  rw [hl1, hl2, e]
  conv => lhs; rhs; rw [e2]
  rw [List.range'_append]
  congr 1
  omega

theorem Fresh.le {a b : Nat} {l : List Nat} (h : Fresh a l b) : a ≤ b := h.1

theorem Fresh.bounds {a b : Nat} {l : List Nat} (h : Fresh a l b) : ∀ x ∈ l, a ≤ x ∧ x < b := by
  intro x hx
  rw [h.2, List.mem_range'_1] at hx
  omega

theorem Fresh.nodup {a b : Nat} {l : List Nat} (h : Fresh a l b) : l.Nodup := by
  rw [h.2]
  exact List.nodup_range'

theorem Fresh.single (a : Nat) : Fresh a [a] (a + 1) := Fresh.cons (Fresh.nil _)

/-! ### copy_clean hands out exactly the next labels -/

mutual
theorem copyE_fresh : ∀ (e : Expr) (n : Nat), Fresh n (labelsE (copyE e n).1) (copyE e n).2
  | .noneMarker, n => by simp only [copyE, labelsE]; exact Fresh.nil _
  | .name _ f_s f_ctx, n => by
      simp only [copyE, labelsE]
      exact Fresh.cons (Fresh.nil _)
  | .attr _ f_value f_attr f_ctx, n => by
      simp only [copyE, labelsE]
      exact Fresh.cons (copyE_fresh f_value _)
  | .subscript _ f_value f_slice f_ctx, n => by
      simp only [copyE, labelsE]
      exact Fresh.cons (Fresh.append (copyE_fresh f_value _) (copyE_fresh f_slice _))
  | .seq _ f_kind f_elts f_ctx, n => by
      simp only [copyE, labelsE]
      exact Fresh.cons (copyEs_fresh f_elts _)
  | .starred _ f_value f_ctx, n => by
      simp only [copyE, labelsE]
      exact Fresh.cons (copyE_fresh f_value _)
  | .const _ f_kind f_repr, n => by
      simp only [copyE, labelsE]
      exact Fresh.cons (Fresh.nil _)
  | .call _ f_func f_args f_keywords, n => by
      simp only [copyE, labelsE]
      exact Fresh.cons (Fresh.append (copyE_fresh f_func _) (Fresh.append (copyEs_fresh f_args _) (copyEs_fresh f_keywords _)))
  | .keyword _ f_arg f_hasArg f_value, n => by
      simp only [copyE, labelsE]
      exact Fresh.cons (copyE_fresh f_value _)
  | .boolop _ f_isAnd f_values, n => by
      simp only [copyE, labelsE]
      exact Fresh.cons (copyEs_fresh f_values _)
  | .unary _ f_op f_operand, n => by
      simp only [copyE, labelsE]
      exact Fresh.cons (copyE_fresh f_operand _)
  | .binop _ f_op f_left f_right, n => by
      simp only [copyE, labelsE]
      exact Fresh.cons (Fresh.append (copyE_fresh f_left _) (copyE_fresh f_right _))
  | .compare _ f_left f_ops f_comparators, n => by
      simp only [copyE, labelsE]
      exact Fresh.cons (Fresh.append (copyE_fresh f_left _) (copyEs_fresh f_comparators _))
  | .ifexp _ f_test f_body f_orelse, n => by
      simp only [copyE, labelsE]
      exact Fresh.cons (Fresh.append (copyE_fresh f_test _) (Fresh.append (copyE_fresh f_body _) (copyE_fresh f_orelse _)))
  | .lambda _ f_args f_body, n => by
      simp only [copyE, labelsE]
      exact Fresh.cons (Fresh.append (copyE_fresh f_args _) (copyE_fresh f_body _))
  | .namedexpr _ f_target f_value, n => by
      simp only [copyE, labelsE]
      exact Fresh.cons (Fresh.append (copyE_fresh f_target _) (copyE_fresh f_value _))
  | .comp _ f_kind f_elts f_generators, n => by
      simp only [copyE, labelsE]
      exact Fresh.cons (Fresh.append (copyEs_fresh f_elts _) (copyEs_fresh f_generators _))
  | .comprehension _ f_target f_iter f_ifs f_isAsync, n => by
      simp only [copyE, labelsE]
      exact Fresh.cons (Fresh.append (copyE_fresh f_target _) (Fresh.append (copyE_fresh f_iter _) (copyEs_fresh f_ifs _)))
  | .arguments _ f_posonly f_args f_vararg f_kwonly f_kwDefaults f_kwarg f_defaults, n => by
      simp only [copyE, labelsE]
      exact Fresh.cons (Fresh.append (copyEs_fresh f_posonly _) (Fresh.append (copyEs_fresh f_args _) (Fresh.append (copyEs_fresh f_vararg _) (Fresh.append (copyEs_fresh f_kwonly _) (Fresh.append (copyEs_fresh f_kwDefaults _) (Fresh.append (copyEs_fresh f_kwarg _) (copyEs_fresh f_defaults _)))))))
  | .arg _ f_name f_annotation, n => by
      simp only [copyE, labelsE]
      exact Fresh.cons (copyEs_fresh f_annotation _)
  | .withitem _ f_contextExpr f_optionalVars, n => by
      simp only [copyE, labelsE]
      exact Fresh.cons (Fresh.append (copyE_fresh f_contextExpr _) (copyEs_fresh f_optionalVars _))
  | .other _ f_kind f_attrs f_kids, n => by
      simp only [copyE, labelsE]
      exact Fresh.cons (copyEs_fresh f_kids _)
theorem copyEs_fresh : ∀ (es : List Expr) (n : Nat), Fresh n (labelsEs (copyEs es n).1) (copyEs es n).2
  | [], n => by simp only [copyEs, labelsEs]; exact Fresh.nil _
  | e :: es, n => by
      simp only [copyEs, labelsEs]
      exact Fresh.append (copyE_fresh e _) (copyEs_fresh es _)
end
mutual
theorem copyS_fresh : ∀ (s : Stmt) (n : Nat), Fresh n (labelsS (copyS s n).1) (copyS s n).2
  | .functionDef _ f_name f_args f_body f_decorators f_returns f_isAsync, n => by
      simp only [copyS, labelsS]
      exact Fresh.cons (Fresh.append (copyE_fresh f_args _) (Fresh.append (copySs_fresh f_body _) (Fresh.append (copyEs_fresh f_decorators _) (copyEs_fresh f_returns _))))
  | .classDef _ f_name f_bases f_keywords f_body f_decorators, n => by
      simp only [copyS, labelsS]
      exact Fresh.cons (Fresh.append (copyEs_fresh f_bases _) (Fresh.append (copyEs_fresh f_keywords _) (Fresh.append (copySs_fresh f_body _) (copyEs_fresh f_decorators _))))
  | .ret _ f_value, n => by
      simp only [copyS, labelsS]
      exact Fresh.cons (copyEs_fresh f_value _)
  | .delete _ f_targets, n => by
      simp only [copyS, labelsS]
      exact Fresh.cons (copyEs_fresh f_targets _)
  | .assign _ f_targets f_value, n => by
      simp only [copyS, labelsS]
      exact Fresh.cons (Fresh.append (copyEs_fresh f_targets _) (copyE_fresh f_value _))
  | .augAssign _ f_target f_op f_value, n => by
      simp only [copyS, labelsS]
      exact Fresh.cons (Fresh.append (copyE_fresh f_target _) (copyE_fresh f_value _))
  | .annAssign _ f_target f_annotation f_value f_simple, n => by
      simp only [copyS, labelsS]
      exact Fresh.cons (Fresh.append (copyE_fresh f_target _) (Fresh.append (copyE_fresh f_annotation _) (copyEs_fresh f_value _)))
  | .for_ _ f_target f_iter f_body f_orelse f_extraTest f_isAsync, n => by
      simp only [copyS, labelsS]
      exact Fresh.cons (Fresh.append (copyE_fresh f_target _) (Fresh.append (copyE_fresh f_iter _) (Fresh.append (copySs_fresh f_body _) (Fresh.append (copySs_fresh f_orelse _) (copyEs_fresh f_extraTest _)))))
  | .while_ _ f_test f_body f_orelse, n => by
      simp only [copyS, labelsS]
      exact Fresh.cons (Fresh.append (copyE_fresh f_test _) (Fresh.append (copySs_fresh f_body _) (copySs_fresh f_orelse _)))
  | .if_ _ f_test f_body f_orelse, n => by
      simp only [copyS, labelsS]
      exact Fresh.cons (Fresh.append (copyE_fresh f_test _) (Fresh.append (copySs_fresh f_body _) (copySs_fresh f_orelse _)))
  | .with_ _ f_items f_body f_isAsync, n => by
      simp only [copyS, labelsS]
      exact Fresh.cons (Fresh.append (copyEs_fresh f_items _) (copySs_fresh f_body _))
  | .raise _ f_exc f_cause, n => by
      simp only [copyS, labelsS]
      exact Fresh.cons (Fresh.append (copyEs_fresh f_exc _) (copyEs_fresh f_cause _))
  | .try_ _ f_body f_handlers f_orelse f_finalbody, n => by
      simp only [copyS, labelsS]
      exact Fresh.cons (Fresh.append (copySs_fresh f_body _) (Fresh.append (copySs_fresh f_handlers _) (Fresh.append (copySs_fresh f_orelse _) (copySs_fresh f_finalbody _))))
  | .handler _ f_type_ f_name f_body, n => by
      simp only [copyS, labelsS]
      exact Fresh.cons (Fresh.append (copyEs_fresh f_type_ _) (copySs_fresh f_body _))
  | .assert_ _ f_test f_msg, n => by
      simp only [copyS, labelsS]
      exact Fresh.cons (Fresh.append (copyE_fresh f_test _) (copyEs_fresh f_msg _))
  | .import_ _ f_names, n => by
      simp only [copyS, labelsS]
      exact Fresh.cons (Fresh.nil _)
  | .importFrom _ f_module f_names f_level, n => by
      simp only [copyS, labelsS]
      exact Fresh.cons (Fresh.nil _)
  | .global _ f_names, n => by
      simp only [copyS, labelsS]
      exact Fresh.cons (Fresh.nil _)
  | .nonlocal _ f_names, n => by
      simp only [copyS, labelsS]
      exact Fresh.cons (Fresh.nil _)
  | .expr _ f_value, n => by
      simp only [copyS, labelsS]
      exact Fresh.cons (copyE_fresh f_value _)
  | .pass _, n => by
      simp only [copyS, labelsS]
      exact Fresh.cons (Fresh.nil _)
  | .break_ _, n => by
      simp only [copyS, labelsS]
      exact Fresh.cons (Fresh.nil _)
  | .continue_ _, n => by
      simp only [copyS, labelsS]
      exact Fresh.cons (Fresh.nil _)
  | .other _ f_kind f_exprs f_blocks, n => by
      simp only [copyS, labelsS]
      exact Fresh.cons (Fresh.append (copyEs_fresh f_exprs _) (copySs_fresh f_blocks _))
theorem copySs_fresh : ∀ (ss : List Stmt) (n : Nat), Fresh n (labelsSs (copySs ss n).1) (copySs ss n).2
  | [], n => by simp only [copySs, labelsSs]; exact Fresh.nil _
  | s :: ss, n => by
      simp only [copySs, labelsSs]
      exact Fresh.append (copyS_fresh s _) (copySs_fresh ss _)
end

/-! ### the adjuster does not touch identities -/
mutual
theorem adjust_labels : ∀ (c : Ctx) (e : Expr), labelsE (adjust c e) = labelsE e
  | c, .noneMarker => by simp [adjust]
  | c, .name .. => by simp [adjust, labelsE]
  | c, .attr _ v _ _ => by simp [adjust, labelsE, adjust_labels .load v]
  | c, .subscript _ v s _ => by simp [adjust, labelsE, adjust_labels .load v, adjust_labels .load s]
  | c, .seq _ k es _ => by simp [adjust, labelsE, adjustEs_labels c es]
  | c, .starred _ v _ => by simp [adjust, labelsE, adjust_labels c v]
  | c, .const .. => by simp [adjust]
  | c, .call .. => by simp [adjust]
  | c, .lambda .. => by simp [adjust]
  | c, .comprehension .. => by simp [adjust]
  | c, .keyword _ _ _ v => by simp [adjust, labelsE, adjust_labels c v]
  | c, .boolop _ _ vs => by simp [adjust, labelsE, adjustEs_labels c vs]
  | c, .unary _ _ e => by simp [adjust, labelsE, adjust_labels c e]
  | c, .binop _ _ l r => by simp [adjust, labelsE, adjust_labels c l, adjust_labels c r]
  | c, .compare _ l _ rs => by simp [adjust, labelsE, adjust_labels c l, adjustEs_labels c rs]
  | c, .ifexp _ t b e => by simp [adjust, labelsE, adjust_labels c t, adjust_labels c b, adjust_labels c e]
  | c, .namedexpr _ t v => by simp [adjust, labelsE, adjust_labels c t, adjust_labels c v]
  | c, .comp _ _ es gs => by simp [adjust, labelsE, adjustEs_labels c es, adjustEs_labels c gs]
  | c, .arguments _ po ar va ko kd kw df => by
      simp [adjust, labelsE, adjustEs_labels c po, adjustEs_labels c ar, adjustEs_labels c va, adjustEs_labels c ko,
        adjustEs_labels c kd, adjustEs_labels c kw, adjustEs_labels c df]
  | c, .arg _ _ an => by simp [adjust, labelsE, adjustEs_labels c an]
  | c, .withitem _ ce ov => by simp [adjust, labelsE, adjust_labels c ce, adjustEs_labels c ov]
  | c, .other _ k _ kids => by
      by_cases hk : k = "Dict"
      · simp [adjust, hk]
      · simp [adjust, hk, labelsE, adjustEs_labels c kids]
theorem adjustEs_labels : ∀ (c : Ctx) (es : List Expr), labelsEs (adjustEs c es) = labelsEs es
  | c, [] => by simp [adjustEs]
  | c, e :: es => by simp [adjustEs, labelsEs, adjust_labels c e, adjustEs_labels c es]
end

theorem adjTop_labels (c : Ctx) (e : Expr) : labelsE (adjTop c e) = labelsE e := by
  unfold adjTop
  split
  · exact adjust_labels c e
  · rfl

theorem map_adjTop_labels (c : Ctx) : ∀ (es : List Expr), labelsEs (es.map (adjTop c)) = labelsEs es
  | [] => rfl
  | e :: es => by simp [labelsEs, adjTop_labels, map_adjTop_labels c es]

theorem argRepl_fresh : ∀ (es : List Expr) (n : Nat), es.all isName = true →
    Fresh n (labelsEs (argRepl es n).1) (argRepl es n).2
  | [], n, _ => by simp only [argRepl, labelsEs]; exact Fresh.nil _
  | .name _ id _ :: r, n, h => by
      have hr : r.all isName = true := by simpa [isName] using h
      simp only [argRepl, labelsEs, labelsE, List.nil_append, List.cons_append]
      exact Fresh.cons (argRepl_fresh r (n + 1) hr)
  | .noneMarker :: r, n, h => by simp [isName] at h
  | .const .. :: r, n, h => by simp [isName] at h
  | .attr .. :: r, n, h => by simp [isName] at h
  | .subscript .. :: r, n, h => by simp [isName] at h
  | .call .. :: r, n, h => by simp [isName] at h
  | .keyword .. :: r, n, h => by simp [isName] at h
  | .boolop .. :: r, n, h => by simp [isName] at h
  | .unary .. :: r, n, h => by simp [isName] at h
  | .binop .. :: r, n, h => by simp [isName] at h
  | .compare .. :: r, n, h => by simp [isName] at h
  | .ifexp .. :: r, n, h => by simp [isName] at h
  | .lambda .. :: r, n, h => by simp [isName] at h
  | .seq .. :: r, n, h => by simp [isName] at h
  | .starred .. :: r, n, h => by simp [isName] at h
  | .namedexpr .. :: r, n, h => by simp [isName] at h
  | .comp .. :: r, n, h => by simp [isName] at h
  | .comprehension .. :: r, n, h => by simp [isName] at h
  | .arguments .. :: r, n, h => by simp [isName] at h
  | .arg .. :: r, n, h => by simp [isName] at h
  | .withitem .. :: r, n, h => by simp [isName] at h
  | .other .. :: r, n, h => by simp [isName] at h

theorem labelsEs_append : ∀ (l r : List Expr), labelsEs (l ++ r) = labelsEs l ++ labelsEs r
  | [], r => by simp [labelsEs]
  | e :: l, r => by simp [labelsEs, labelsEs_append l r]

theorem labelsSs_append : ∀ (l r : List Stmt), labelsSs (l ++ r) = labelsSs l ++ labelsSs r
  | [], r => by simp [labelsSs]
  | e :: l, r => by simp [labelsSs, labelsSs_append l r]

/-! ### destructuring the result monad -/
theorem R.bind_ok {α β : Type} (x : R α) (f : α → Nat → R β) (p : β × Nat) :
    R.bind x f = .ok p ↔ ∃ a n, x = .ok (a, n) ∧ f a n = .ok p := by
  cases x with
  | error e => simp [R.bind]
  | ok v =>
    obtain ⟨a, n⟩ := v
    simp only [R.bind]
    constructor
    · intro h; exact ⟨a, n, rfl, h⟩
    · rintro ⟨a', n', h1, h2⟩
      simp only [Except.ok.injEq, Prod.mk.injEq] at h1
      obtain ⟨rfl, rfl⟩ := h1
      exact h2

theorem single_ok (x : R (List Expr)) (a : Expr) (n : Nat) : single x = .ok (a, n) ↔ x = .ok ([a], n) := by
  unfold single
  rw [R.bind_ok]
  constructor
  · rintro ⟨l, m, hx, h⟩
    match l, h with
    | [a'], h => simp only [Except.ok.injEq, Prod.mk.injEq] at h; obtain ⟨rfl, rfl⟩ := h; exact hx
    | [], h => simp at h
    | _ :: _ :: _, h => simp at h
  · intro h
    exact ⟨[a], n, h, rfl⟩

theorem sameLen_ok (o : List Expr) (x : R (List Expr)) (l : List Expr) (n : Nat) :
    sameLen o x = .ok (l, n) ↔ x = .ok (l, n) ∧ l.length = o.length := by
  unfold sameLen
  rw [R.bind_ok]
  constructor
  · rintro ⟨l', m, hx, h⟩
    by_cases hl : l'.length = o.length
    · simp only [hl, if_true, Except.ok.injEq, Prod.mk.injEq] at h
      obtain ⟨rfl, rfl⟩ := h
      exact ⟨hx, hl⟩
    · simp [hl] at h
  · rintro ⟨hx, hl⟩
    exact ⟨l, n, hx, by simp [hl]⟩

theorem atMost_ok (o : List Expr) (x : R (List Expr)) (l : List Expr) (n : Nat) :
    atMost o x = .ok (l, n) ↔ x = .ok (l, n) ∧ l.length ≤ o.length := by
  unfold atMost
  rw [R.bind_ok]
  constructor
  · rintro ⟨l', m, hx, h⟩
    by_cases hl : l'.length ≤ o.length
    · simp only [hl, if_true, Except.ok.injEq, Prod.mk.injEq] at h
      obtain ⟨rfl, rfl⟩ := h
      exact ⟨hx, hl⟩
    · simp [hl] at h
  · rintro ⟨hx, hl⟩
    exact ⟨l, n, hx, by simp [hl]⟩

/-! ### `ReplaceTransformer`: every node of the result carries a label handed out during this call -/
mutual
theorem instE_fresh (b : Bindings) : ∀ (e : Expr) (n : Nat) (r : List Expr) (n' : Nat),
    argsOkE b e = true → instE b e n = .ok (r, n') → Fresh n (labelsEs r) n'
  | .noneMarker, n, r, n', _, h => by
      simp only [instE, Except.ok.injEq, Prod.mk.injEq] at h
      obtain ⟨rfl, rfl⟩ := h
      simp only [labelsEs, labelsE, List.append_nil]; exact Fresh.nil _
  | .name _ s c, n, r, n', _, h => by
      simp only [instE] at h
      split at h
      · simp only [Except.ok.injEq, Prod.mk.injEq] at h
        obtain ⟨rfl, rfl⟩ := h
        simp only [labelsEs, labelsE, List.append_nil]; exact Fresh.single _
      · simp only [Except.ok.injEq, Prod.mk.injEq] at h
        obtain ⟨rfl, rfl⟩ := h
        simp only [labelsEs, List.append_nil, adjTop_labels]; exact copyE_fresh _ _
      · simp only [Except.ok.injEq, Prod.mk.injEq] at h
        obtain ⟨rfl, rfl⟩ := h
        rw [map_adjTop_labels]; exact copyEs_fresh _ _
      · simp only [Except.ok.injEq, Prod.mk.injEq] at h
        obtain ⟨rfl, rfl⟩ := h
        exact Fresh.nil _
      · simp at h
  | .attr _ f_value f_attr f_ctx, n, r, n', ha, h => by
      simp only [argsOkE] at ha
      simp only [instE, R.bind_ok, single_ok] at h
      obtain ⟨v', n1, h1, h2⟩ := h
      have i1 := instE_fresh b f_value _ _ _ ha h1
      split at h2
      · simp only [Except.ok.injEq, Prod.mk.injEq] at h2
        obtain ⟨rfl, rfl⟩ := h2
        simp only [labelsEs, labelsE, List.append_nil] at i1 ⊢
        exact Fresh.cons i1
      · simp at h2
  | .keyword _ f_arg f_hasArg f_value, n, r, n', ha, h => by
      simp only [argsOkE] at ha
      simp only [instE] at h
      split at h
      · split at h
        · simp only [Except.ok.injEq, Prod.mk.injEq] at h
          obtain ⟨rfl, rfl⟩ := h
          exact copyEs_fresh _ _
        · simp at h
      · rename_i hnone
        rw [hnone] at ha
        simp only [R.bind_ok, single_ok] at h
        obtain ⟨v', n1, h1, h2⟩ := h
        have i1 := instE_fresh b f_value _ _ _ ha h1
        simp only [Except.ok.injEq, Prod.mk.injEq] at h2
        obtain ⟨rfl, rfl⟩ := h2
        simp only [labelsEs, labelsE, List.append_nil] at i1 ⊢
        exact Fresh.cons i1
  | .arg _ f_name f_annotation, n, r, n', ha, h => by
      simp only [argsOkE] at ha
      simp only [instE] at h
      split at h
      · simp only [Except.ok.injEq, Prod.mk.injEq] at h
        obtain ⟨rfl, rfl⟩ := h
        simp only [labelsEs, labelsE, List.append_nil]
        exact Fresh.cons (copyEs_fresh _ _)
      · rename_i e hl
        rw [hl] at ha
        simp only [Except.ok.injEq, Prod.mk.injEq] at h
        obtain ⟨rfl, rfl⟩ := h
        exact argRepl_fresh _ _ (by simpa [Binding.exprs] using ha)
      · rename_i es hl
        rw [hl] at ha
        simp only [Except.ok.injEq, Prod.mk.injEq] at h
        obtain ⟨rfl, rfl⟩ := h
        exact argRepl_fresh _ _ (by simpa [Binding.exprs] using ha)
      · simp only [Except.ok.injEq, Prod.mk.injEq] at h
        obtain ⟨rfl, rfl⟩ := h
        exact Fresh.nil _
      · simp at h
  | .subscript _ f_value f_slice f_ctx, n, r, n', ha, h => by
      simp only [argsOkE, Bool.and_eq_true] at ha
      simp only [instE, R.bind_ok, single_ok, sameLen_ok, atMost_ok] at h
      obtain ⟨x0, m0, h0, x1, m1, h1, hres⟩ := h
      simp only [Except.ok.injEq, Prod.mk.injEq] at hres
      obtain ⟨rfl, rfl⟩ := hres
      have i0 := instE_fresh b f_value _ _ _ ha.1 h0
      have i1 := instE_fresh b f_slice _ _ _ ha.2 h1
      simp only [labelsEs, labelsE, List.append_nil] at i0 i1 ⊢
      exact Fresh.cons (Fresh.append i0 i1)
  | .seq _ f_kind f_elts f_ctx, n, r, n', ha, h => by
      simp only [argsOkE, Bool.and_eq_true] at ha
      simp only [instE, R.bind_ok, single_ok, sameLen_ok, atMost_ok] at h
      obtain ⟨x0, m0, h0, hres⟩ := h
      simp only [Except.ok.injEq, Prod.mk.injEq] at hres
      obtain ⟨rfl, rfl⟩ := hres
      have i0 := instEs_fresh b f_elts _ _ _ ha h0
      simp only [labelsEs, labelsE, List.append_nil] at i0 ⊢
      exact Fresh.cons i0
  | .starred _ f_value f_ctx, n, r, n', ha, h => by
      simp only [argsOkE, Bool.and_eq_true] at ha
      simp only [instE, R.bind_ok, single_ok, sameLen_ok, atMost_ok] at h
      obtain ⟨x0, m0, h0, hres⟩ := h
      simp only [Except.ok.injEq, Prod.mk.injEq] at hres
      obtain ⟨rfl, rfl⟩ := hres
      have i0 := instE_fresh b f_value _ _ _ ha h0
      simp only [labelsEs, labelsE, List.append_nil] at i0 ⊢
      exact Fresh.cons i0
  | .const _ f_kind f_repr, n, r, n', ha, h => by
      simp only [argsOkE, Bool.and_eq_true] at ha
      simp only [instE, R.bind_ok, single_ok, sameLen_ok, atMost_ok] at h
      have hres := h
      simp only [Except.ok.injEq, Prod.mk.injEq] at hres
      obtain ⟨rfl, rfl⟩ := hres
      simp only [labelsEs, labelsE, List.append_nil]
      exact Fresh.cons (Fresh.nil _)
  | .call _ f_func f_args f_keywords, n, r, n', ha, h => by
      simp only [argsOkE, Bool.and_eq_true] at ha
      simp only [instE, R.bind_ok, single_ok, sameLen_ok, atMost_ok] at h
      obtain ⟨x0, m0, h0, x1, m1, h1, x2, m2, h2, hres⟩ := h
      simp only [Except.ok.injEq, Prod.mk.injEq] at hres
      obtain ⟨rfl, rfl⟩ := hres
      have i0 := instE_fresh b f_func _ _ _ ha.1 h0
      have i1 := instEs_fresh b f_args _ _ _ ha.2.1 h1
      have i2 := instEs_fresh b f_keywords _ _ _ ha.2.2 h2
      simp only [labelsEs, labelsE, List.append_nil] at i0 i1 i2 ⊢
      exact Fresh.cons (Fresh.append i0 (Fresh.append i1 i2))
  | .boolop _ f_isAnd f_values, n, r, n', ha, h => by
      simp only [argsOkE, Bool.and_eq_true] at ha
      simp only [instE, R.bind_ok, single_ok, sameLen_ok, atMost_ok] at h
      obtain ⟨x0, m0, h0, hres⟩ := h
      simp only [Except.ok.injEq, Prod.mk.injEq] at hres
      obtain ⟨rfl, rfl⟩ := hres
      have i0 := instEs_fresh b f_values _ _ _ ha h0
      simp only [labelsEs, labelsE, List.append_nil] at i0 ⊢
      exact Fresh.cons i0
  | .unary _ f_op f_operand, n, r, n', ha, h => by
      simp only [argsOkE, Bool.and_eq_true] at ha
      simp only [instE, R.bind_ok, single_ok, sameLen_ok, atMost_ok] at h
      obtain ⟨x0, m0, h0, hres⟩ := h
      simp only [Except.ok.injEq, Prod.mk.injEq] at hres
      obtain ⟨rfl, rfl⟩ := hres
      have i0 := instE_fresh b f_operand _ _ _ ha h0
      simp only [labelsEs, labelsE, List.append_nil] at i0 ⊢
      exact Fresh.cons i0
  | .binop _ f_op f_left f_right, n, r, n', ha, h => by
      simp only [argsOkE, Bool.and_eq_true] at ha
      simp only [instE, R.bind_ok, single_ok, sameLen_ok, atMost_ok] at h
      obtain ⟨x0, m0, h0, x1, m1, h1, hres⟩ := h
      simp only [Except.ok.injEq, Prod.mk.injEq] at hres
      obtain ⟨rfl, rfl⟩ := hres
      have i0 := instE_fresh b f_left _ _ _ ha.1 h0
      have i1 := instE_fresh b f_right _ _ _ ha.2 h1
      simp only [labelsEs, labelsE, List.append_nil] at i0 i1 ⊢
      exact Fresh.cons (Fresh.append i0 i1)
  | .compare _ f_left f_ops f_comparators, n, r, n', ha, h => by
      simp only [argsOkE, Bool.and_eq_true] at ha
      simp only [instE, R.bind_ok, single_ok, sameLen_ok, atMost_ok] at h
      obtain ⟨x0, m0, h0, x1, m1, ⟨h1, _⟩, hres⟩ := h
      simp only [Except.ok.injEq, Prod.mk.injEq] at hres
      obtain ⟨rfl, rfl⟩ := hres
      have i0 := instE_fresh b f_left _ _ _ ha.1 h0
      have i1 := instEs_fresh b f_comparators _ _ _ ha.2 h1
      simp only [labelsEs, labelsE, List.append_nil] at i0 i1 ⊢
      exact Fresh.cons (Fresh.append i0 i1)
  | .ifexp _ f_test f_body f_orelse, n, r, n', ha, h => by
      simp only [argsOkE, Bool.and_eq_true] at ha
      simp only [instE, R.bind_ok, single_ok, sameLen_ok, atMost_ok] at h
      obtain ⟨x0, m0, h0, x1, m1, h1, x2, m2, h2, hres⟩ := h
      simp only [Except.ok.injEq, Prod.mk.injEq] at hres
      obtain ⟨rfl, rfl⟩ := hres
      have i0 := instE_fresh b f_test _ _ _ ha.1 h0
      have i1 := instE_fresh b f_body _ _ _ ha.2.1 h1
      have i2 := instE_fresh b f_orelse _ _ _ ha.2.2 h2
      simp only [labelsEs, labelsE, List.append_nil] at i0 i1 i2 ⊢
      exact Fresh.cons (Fresh.append i0 (Fresh.append i1 i2))
  | .lambda _ f_args f_body, n, r, n', ha, h => by
      simp only [argsOkE, Bool.and_eq_true] at ha
      simp only [instE, R.bind_ok, single_ok, sameLen_ok, atMost_ok] at h
      obtain ⟨x0, m0, h0, x1, m1, h1, hres⟩ := h
      simp only [Except.ok.injEq, Prod.mk.injEq] at hres
      obtain ⟨rfl, rfl⟩ := hres
      have i0 := instE_fresh b f_args _ _ _ ha.1 h0
      have i1 := instE_fresh b f_body _ _ _ ha.2 h1
      simp only [labelsEs, labelsE, List.append_nil] at i0 i1 ⊢
      exact Fresh.cons (Fresh.append i0 i1)
  | .namedexpr _ f_target f_value, n, r, n', ha, h => by
      simp only [argsOkE, Bool.and_eq_true] at ha
      simp only [instE, R.bind_ok, single_ok, sameLen_ok, atMost_ok] at h
      obtain ⟨x0, m0, h0, x1, m1, h1, hres⟩ := h
      simp only [Except.ok.injEq, Prod.mk.injEq] at hres
      obtain ⟨rfl, rfl⟩ := hres
      have i0 := instE_fresh b f_target _ _ _ ha.1 h0
      have i1 := instE_fresh b f_value _ _ _ ha.2 h1
      simp only [labelsEs, labelsE, List.append_nil] at i0 i1 ⊢
      exact Fresh.cons (Fresh.append i0 i1)
  | .comp _ f_kind f_elts f_generators, n, r, n', ha, h => by
      simp only [argsOkE, Bool.and_eq_true] at ha
      simp only [instE, R.bind_ok, single_ok, sameLen_ok, atMost_ok] at h
      obtain ⟨x0, m0, ⟨h0, _⟩, x1, m1, h1, hres⟩ := h
      simp only [Except.ok.injEq, Prod.mk.injEq] at hres
      obtain ⟨rfl, rfl⟩ := hres
      have i0 := instEs_fresh b f_elts _ _ _ ha.1 h0
      have i1 := instEs_fresh b f_generators _ _ _ ha.2 h1
      simp only [labelsEs, labelsE, List.append_nil] at i0 i1 ⊢
      exact Fresh.cons (Fresh.append i0 i1)
  | .comprehension _ f_target f_iter f_ifs f_isAsync, n, r, n', ha, h => by
      simp only [argsOkE, Bool.and_eq_true] at ha
      simp only [instE, R.bind_ok, single_ok, sameLen_ok, atMost_ok] at h
      obtain ⟨x0, m0, h0, x1, m1, h1, x2, m2, h2, hres⟩ := h
      simp only [Except.ok.injEq, Prod.mk.injEq] at hres
      obtain ⟨rfl, rfl⟩ := hres
      have i0 := instE_fresh b f_target _ _ _ ha.1 h0
      have i1 := instE_fresh b f_iter _ _ _ ha.2.1 h1
      have i2 := instEs_fresh b f_ifs _ _ _ ha.2.2 h2
      simp only [labelsEs, labelsE, List.append_nil] at i0 i1 i2 ⊢
      exact Fresh.cons (Fresh.append i0 (Fresh.append i1 i2))
  | .arguments _ f_posonly f_args f_vararg f_kwonly f_kwDefaults f_kwarg f_defaults, n, r, n', ha, h => by
      simp only [argsOkE, Bool.and_eq_true] at ha
      simp only [instE, R.bind_ok, single_ok, sameLen_ok, atMost_ok] at h
      obtain ⟨x0, m0, h0, x1, m1, h1, x2, m2, ⟨h2, _⟩, x3, m3, h3, x4, m4, ⟨h4, _⟩, x5, m5, ⟨h5, _⟩, x6, m6, ⟨h6, _⟩, hres⟩ := h
      simp only [Except.ok.injEq, Prod.mk.injEq] at hres
      obtain ⟨rfl, rfl⟩ := hres
      have i0 := instEs_fresh b f_posonly _ _ _ ha.1 h0
      have i1 := instEs_fresh b f_args _ _ _ ha.2.1 h1
      have i2 := instEs_fresh b f_vararg _ _ _ ha.2.2.1 h2
      have i3 := instEs_fresh b f_kwonly _ _ _ ha.2.2.2.1 h3
      have i4 := instEs_fresh b f_kwDefaults _ _ _ ha.2.2.2.2.1 h4
      have i5 := instEs_fresh b f_kwarg _ _ _ ha.2.2.2.2.2.1 h5
      have i6 := instEs_fresh b f_defaults _ _ _ ha.2.2.2.2.2.2 h6
      simp only [labelsEs, labelsE, List.append_nil] at i0 i1 i2 i3 i4 i5 i6 ⊢
      exact Fresh.cons (Fresh.append i0 (Fresh.append i1 (Fresh.append i2 (Fresh.append i3 (Fresh.append i4 (Fresh.append i5 i6))))))
  | .withitem _ f_contextExpr f_optionalVars, n, r, n', ha, h => by
      simp only [argsOkE, Bool.and_eq_true] at ha
      simp only [instE, R.bind_ok, single_ok, sameLen_ok, atMost_ok] at h
      obtain ⟨x0, m0, h0, x1, m1, ⟨h1, _⟩, hres⟩ := h
      simp only [Except.ok.injEq, Prod.mk.injEq] at hres
      obtain ⟨rfl, rfl⟩ := hres
      have i0 := instE_fresh b f_contextExpr _ _ _ ha.1 h0
      have i1 := instEs_fresh b f_optionalVars _ _ _ ha.2 h1
      simp only [labelsEs, labelsE, List.append_nil] at i0 i1 ⊢
      exact Fresh.cons (Fresh.append i0 i1)
  | .other _ f_kind f_attrs f_kids, n, r, n', ha, h => by
      simp only [argsOkE, Bool.and_eq_true] at ha
      simp only [instE, R.bind_ok, single_ok, sameLen_ok, atMost_ok] at h
      obtain ⟨x0, m0, ⟨h0, _⟩, hres⟩ := h
      simp only [Except.ok.injEq, Prod.mk.injEq] at hres
      obtain ⟨rfl, rfl⟩ := hres
      have i0 := instEs_fresh b f_kids _ _ _ ha h0
      simp only [labelsEs, labelsE, List.append_nil] at i0 ⊢
      exact Fresh.cons i0
theorem instEs_fresh (b : Bindings) : ∀ (es : List Expr) (n : Nat) (r : List Expr) (n' : Nat),
    argsOkEs b es = true → instEs b es n = .ok (r, n') → Fresh n (labelsEs r) n'
  | [], n, r, n', _, h => by
      simp only [instEs, Except.ok.injEq, Prod.mk.injEq] at h
      obtain ⟨rfl, rfl⟩ := h
      exact Fresh.nil _
  | e :: es, n, r, n', ha, h => by
      simp only [argsOkEs, Bool.and_eq_true] at ha
      simp only [instEs, R.bind_ok] at h
      obtain ⟨l, n1, h1, t, n2, h2, hres⟩ := h
      simp only [Except.ok.injEq, Prod.mk.injEq] at hres
      obtain ⟨rfl, rfl⟩ := hres
      have i1 := instE_fresh b e _ _ _ ha.1 h1
      have i2 := instEs_fresh b es _ _ _ ha.2 h2
      rw [labelsEs_append]
      exact Fresh.append i1 i2
end

mutual
theorem instS_fresh (b : Bindings) : ∀ (s : Stmt) (n : Nat) (r : List Stmt) (n' : Nat),
    argsOkS b s = true → instS b s n = .ok (r, n') → Fresh n (labelsSs r) n'
  | .expr _ f_value, n, r, n', ha, h => by
      simp only [instS] at h
      split at h
      · split at h
        · simp only [Except.ok.injEq, Prod.mk.injEq] at h
          obtain ⟨rfl, rfl⟩ := h
          simp only [labelsSs, labelsS, labelsE, List.append_nil]
          exact Fresh.cons (Fresh.single _)
        · simp only [Except.ok.injEq, Prod.mk.injEq] at h
          obtain ⟨rfl, rfl⟩ := h
          simp only [labelsSs, List.append_nil]
          exact copyS_fresh _ _
        · simp only [Except.ok.injEq, Prod.mk.injEq] at h
          obtain ⟨rfl, rfl⟩ := h
          exact copySs_fresh _ _
        · simp only [Except.ok.injEq, Prod.mk.injEq] at h
          obtain ⟨rfl, rfl⟩ := h
          exact Fresh.nil _
        · simp at h
      · rename_i hnn
        simp only [R.bind_ok, single_ok] at h
        obtain ⟨v', n1, h1, h2⟩ := h
        have ha' : argsOkE b f_value = true := by
          cases f_value <;> first | (simp only [argsOkS] at ha; exact ha) | (exact absurd rfl (hnn _ _ _))
        have i1 := instE_fresh b f_value _ _ _ ha' h1
        simp only [Except.ok.injEq, Prod.mk.injEq] at h2
        obtain ⟨rfl, rfl⟩ := h2
        simp only [labelsSs, labelsS, labelsEs, List.append_nil] at i1 ⊢
        exact Fresh.cons i1
  | .functionDef _ f_name f_args f_body f_decorators f_returns f_isAsync, n, r, n', ha, h => by
      simp only [argsOkS, Bool.and_eq_true] at ha
      simp only [instS, R.bind_ok, single_ok, sameLen_ok, atMost_ok] at h
      obtain ⟨x0, m0, h0, x1, m1, h1, x2, m2, h2, x3, m3, ⟨h3, _⟩, hres⟩ := h
      have i0 := instE_fresh b f_args _ _ _ ha.1 h0
      have i1 := instSs_fresh b f_body _ _ _ ha.2.1 h1
      have i2 := instEs_fresh b f_decorators _ _ _ ha.2.2.1 h2
      have i3 := instEs_fresh b f_returns _ _ _ ha.2.2.2 h3
      split at hres
      · simp only [Except.ok.injEq, Prod.mk.injEq] at hres
        obtain ⟨rfl, rfl⟩ := hres
        simp only [labelsSs, labelsS, labelsEs, labelsE, List.append_nil] at i0 i1 i2 i3 ⊢
        exact Fresh.cons (Fresh.append i0 (Fresh.append i1 (Fresh.append i2 i3)))
      · simp at hres
  | .classDef _ f_name f_bases f_keywords f_body f_decorators, n, r, n', ha, h => by
      simp only [argsOkS, Bool.and_eq_true] at ha
      simp only [instS, R.bind_ok, single_ok, sameLen_ok, atMost_ok] at h
      obtain ⟨x0, m0, h0, x1, m1, h1, x2, m2, h2, x3, m3, h3, hres⟩ := h
      simp only [Except.ok.injEq, Prod.mk.injEq] at hres
      obtain ⟨rfl, rfl⟩ := hres
      have i0 := instEs_fresh b f_bases _ _ _ ha.1 h0
      have i1 := instEs_fresh b f_keywords _ _ _ ha.2.1 h1
      have i2 := instSs_fresh b f_body _ _ _ ha.2.2.1 h2
      have i3 := instEs_fresh b f_decorators _ _ _ ha.2.2.2 h3
      simp only [labelsSs, labelsS, labelsEs, labelsE, List.append_nil] at i0 i1 i2 i3 ⊢
      exact Fresh.cons (Fresh.append i0 (Fresh.append i1 (Fresh.append i2 i3)))
  | .ret _ f_value, n, r, n', ha, h => by
      simp only [argsOkS, Bool.and_eq_true] at ha
      simp only [instS, R.bind_ok, single_ok, sameLen_ok, atMost_ok] at h
      obtain ⟨x0, m0, ⟨h0, _⟩, hres⟩ := h
      simp only [Except.ok.injEq, Prod.mk.injEq] at hres
      obtain ⟨rfl, rfl⟩ := hres
      have i0 := instEs_fresh b f_value _ _ _ ha h0
      simp only [labelsSs, labelsS, labelsEs, labelsE, List.append_nil] at i0 ⊢
      exact Fresh.cons i0
  | .delete _ f_targets, n, r, n', ha, h => by
      simp only [argsOkS, Bool.and_eq_true] at ha
      simp only [instS, R.bind_ok, single_ok, sameLen_ok, atMost_ok] at h
      obtain ⟨x0, m0, h0, hres⟩ := h
      simp only [Except.ok.injEq, Prod.mk.injEq] at hres
      obtain ⟨rfl, rfl⟩ := hres
      have i0 := instEs_fresh b f_targets _ _ _ ha h0
      simp only [labelsSs, labelsS, labelsEs, labelsE, List.append_nil] at i0 ⊢
      exact Fresh.cons i0
  | .assign _ f_targets f_value, n, r, n', ha, h => by
      simp only [argsOkS, Bool.and_eq_true] at ha
      simp only [instS, R.bind_ok, single_ok, sameLen_ok, atMost_ok] at h
      obtain ⟨x0, m0, h0, x1, m1, h1, hres⟩ := h
      simp only [Except.ok.injEq, Prod.mk.injEq] at hres
      obtain ⟨rfl, rfl⟩ := hres
      have i0 := instEs_fresh b f_targets _ _ _ ha.1 h0
      have i1 := instE_fresh b f_value _ _ _ ha.2 h1
      simp only [labelsSs, labelsS, labelsEs, labelsE, List.append_nil] at i0 i1 ⊢
      exact Fresh.cons (Fresh.append i0 i1)
  | .augAssign _ f_target f_op f_value, n, r, n', ha, h => by
      simp only [argsOkS, Bool.and_eq_true] at ha
      simp only [instS, R.bind_ok, single_ok, sameLen_ok, atMost_ok] at h
      obtain ⟨x0, m0, h0, x1, m1, h1, hres⟩ := h
      simp only [Except.ok.injEq, Prod.mk.injEq] at hres
      obtain ⟨rfl, rfl⟩ := hres
      have i0 := instE_fresh b f_target _ _ _ ha.1 h0
      have i1 := instE_fresh b f_value _ _ _ ha.2 h1
      simp only [labelsSs, labelsS, labelsEs, labelsE, List.append_nil] at i0 i1 ⊢
      exact Fresh.cons (Fresh.append i0 i1)
  | .annAssign _ f_target f_annotation f_value f_simple, n, r, n', ha, h => by
      simp only [argsOkS, Bool.and_eq_true] at ha
      simp only [instS, R.bind_ok, single_ok, sameLen_ok, atMost_ok] at h
      obtain ⟨x0, m0, h0, x1, m1, h1, x2, m2, ⟨h2, _⟩, hres⟩ := h
      simp only [Except.ok.injEq, Prod.mk.injEq] at hres
      obtain ⟨rfl, rfl⟩ := hres
      have i0 := instE_fresh b f_target _ _ _ ha.1 h0
      have i1 := instE_fresh b f_annotation _ _ _ ha.2.1 h1
      have i2 := instEs_fresh b f_value _ _ _ ha.2.2 h2
      simp only [labelsSs, labelsS, labelsEs, labelsE, List.append_nil] at i0 i1 i2 ⊢
      exact Fresh.cons (Fresh.append i0 (Fresh.append i1 i2))
  | .for_ _ f_target f_iter f_body f_orelse f_extraTest f_isAsync, n, r, n', ha, h => by
      simp only [argsOkS, Bool.and_eq_true] at ha
      simp only [instS, R.bind_ok, single_ok, sameLen_ok, atMost_ok] at h
      obtain ⟨x0, m0, h0, x1, m1, h1, x2, m2, h2, x3, m3, h3, x4, m4, ⟨h4, _⟩, hres⟩ := h
      simp only [Except.ok.injEq, Prod.mk.injEq] at hres
      obtain ⟨rfl, rfl⟩ := hres
      have i0 := instE_fresh b f_target _ _ _ ha.1 h0
      have i1 := instE_fresh b f_iter _ _ _ ha.2.1 h1
      have i2 := instSs_fresh b f_body _ _ _ ha.2.2.1 h2
      have i3 := instSs_fresh b f_orelse _ _ _ ha.2.2.2.1 h3
      have i4 := instEs_fresh b f_extraTest _ _ _ ha.2.2.2.2 h4
      simp only [labelsSs, labelsS, labelsEs, labelsE, List.append_nil] at i0 i1 i2 i3 i4 ⊢
      exact Fresh.cons (Fresh.append i0 (Fresh.append i1 (Fresh.append i2 (Fresh.append i3 i4))))
  | .while_ _ f_test f_body f_orelse, n, r, n', ha, h => by
      simp only [argsOkS, Bool.and_eq_true] at ha
      simp only [instS, R.bind_ok, single_ok, sameLen_ok, atMost_ok] at h
      obtain ⟨x0, m0, h0, x1, m1, h1, x2, m2, h2, hres⟩ := h
      simp only [Except.ok.injEq, Prod.mk.injEq] at hres
      obtain ⟨rfl, rfl⟩ := hres
      have i0 := instE_fresh b f_test _ _ _ ha.1 h0
      have i1 := instSs_fresh b f_body _ _ _ ha.2.1 h1
      have i2 := instSs_fresh b f_orelse _ _ _ ha.2.2 h2
      simp only [labelsSs, labelsS, labelsEs, labelsE, List.append_nil] at i0 i1 i2 ⊢
      exact Fresh.cons (Fresh.append i0 (Fresh.append i1 i2))
  | .if_ _ f_test f_body f_orelse, n, r, n', ha, h => by
      simp only [argsOkS, Bool.and_eq_true] at ha
      simp only [instS, R.bind_ok, single_ok, sameLen_ok, atMost_ok] at h
      obtain ⟨x0, m0, h0, x1, m1, h1, x2, m2, h2, hres⟩ := h
      simp only [Except.ok.injEq, Prod.mk.injEq] at hres
      obtain ⟨rfl, rfl⟩ := hres
      have i0 := instE_fresh b f_test _ _ _ ha.1 h0
      have i1 := instSs_fresh b f_body _ _ _ ha.2.1 h1
      have i2 := instSs_fresh b f_orelse _ _ _ ha.2.2 h2
      simp only [labelsSs, labelsS, labelsEs, labelsE, List.append_nil] at i0 i1 i2 ⊢
      exact Fresh.cons (Fresh.append i0 (Fresh.append i1 i2))
  | .with_ _ f_items f_body f_isAsync, n, r, n', ha, h => by
      simp only [argsOkS, Bool.and_eq_true] at ha
      simp only [instS, R.bind_ok, single_ok, sameLen_ok, atMost_ok] at h
      obtain ⟨x0, m0, h0, x1, m1, h1, hres⟩ := h
      simp only [Except.ok.injEq, Prod.mk.injEq] at hres
      obtain ⟨rfl, rfl⟩ := hres
      have i0 := instEs_fresh b f_items _ _ _ ha.1 h0
      have i1 := instSs_fresh b f_body _ _ _ ha.2 h1
      simp only [labelsSs, labelsS, labelsEs, labelsE, List.append_nil] at i0 i1 ⊢
      exact Fresh.cons (Fresh.append i0 i1)
  | .raise _ f_exc f_cause, n, r, n', ha, h => by
      simp only [argsOkS, Bool.and_eq_true] at ha
      simp only [instS, R.bind_ok, single_ok, sameLen_ok, atMost_ok] at h
      obtain ⟨x0, m0, ⟨h0, _⟩, x1, m1, ⟨h1, _⟩, hres⟩ := h
      simp only [Except.ok.injEq, Prod.mk.injEq] at hres
      obtain ⟨rfl, rfl⟩ := hres
      have i0 := instEs_fresh b f_exc _ _ _ ha.1 h0
      have i1 := instEs_fresh b f_cause _ _ _ ha.2 h1
      simp only [labelsSs, labelsS, labelsEs, labelsE, List.append_nil] at i0 i1 ⊢
      exact Fresh.cons (Fresh.append i0 i1)
  | .try_ _ f_body f_handlers f_orelse f_finalbody, n, r, n', ha, h => by
      simp only [argsOkS, Bool.and_eq_true] at ha
      simp only [instS, R.bind_ok, single_ok, sameLen_ok, atMost_ok] at h
      obtain ⟨x0, m0, h0, x1, m1, h1, x2, m2, h2, x3, m3, h3, hres⟩ := h
      simp only [Except.ok.injEq, Prod.mk.injEq] at hres
      obtain ⟨rfl, rfl⟩ := hres
      have i0 := instSs_fresh b f_body _ _ _ ha.1 h0
      have i1 := instSs_fresh b f_handlers _ _ _ ha.2.1 h1
      have i2 := instSs_fresh b f_orelse _ _ _ ha.2.2.1 h2
      have i3 := instSs_fresh b f_finalbody _ _ _ ha.2.2.2 h3
      simp only [labelsSs, labelsS, labelsEs, labelsE, List.append_nil] at i0 i1 i2 i3 ⊢
      exact Fresh.cons (Fresh.append i0 (Fresh.append i1 (Fresh.append i2 i3)))
  | .handler _ f_type_ f_name f_body, n, r, n', ha, h => by
      simp only [argsOkS, Bool.and_eq_true] at ha
      simp only [instS, R.bind_ok, single_ok, sameLen_ok, atMost_ok] at h
      obtain ⟨x0, m0, ⟨h0, _⟩, x1, m1, h1, hres⟩ := h
      simp only [Except.ok.injEq, Prod.mk.injEq] at hres
      obtain ⟨rfl, rfl⟩ := hres
      have i0 := instEs_fresh b f_type_ _ _ _ ha.1 h0
      have i1 := instSs_fresh b f_body _ _ _ ha.2 h1
      simp only [labelsSs, labelsS, labelsEs, labelsE, List.append_nil] at i0 i1 ⊢
      exact Fresh.cons (Fresh.append i0 i1)
  | .assert_ _ f_test f_msg, n, r, n', ha, h => by
      simp only [argsOkS, Bool.and_eq_true] at ha
      simp only [instS, R.bind_ok, single_ok, sameLen_ok, atMost_ok] at h
      obtain ⟨x0, m0, h0, x1, m1, ⟨h1, _⟩, hres⟩ := h
      simp only [Except.ok.injEq, Prod.mk.injEq] at hres
      obtain ⟨rfl, rfl⟩ := hres
      have i0 := instE_fresh b f_test _ _ _ ha.1 h0
      have i1 := instEs_fresh b f_msg _ _ _ ha.2 h1
      simp only [labelsSs, labelsS, labelsEs, labelsE, List.append_nil] at i0 i1 ⊢
      exact Fresh.cons (Fresh.append i0 i1)
  | .import_ _ f_names, n, r, n', ha, h => by
      simp only [argsOkS, Bool.and_eq_true] at ha
      simp only [instS, R.bind_ok, single_ok, sameLen_ok, atMost_ok] at h
      have hres := h
      simp only [Except.ok.injEq, Prod.mk.injEq] at hres
      obtain ⟨rfl, rfl⟩ := hres
      simp only [labelsSs, labelsS, labelsEs, labelsE, List.append_nil]
      exact Fresh.cons (Fresh.nil _)
  | .importFrom _ f_module f_names f_level, n, r, n', ha, h => by
      simp only [argsOkS, Bool.and_eq_true] at ha
      simp only [instS, R.bind_ok, single_ok, sameLen_ok, atMost_ok] at h
      have hres := h
      simp only [Except.ok.injEq, Prod.mk.injEq] at hres
      obtain ⟨rfl, rfl⟩ := hres
      simp only [labelsSs, labelsS, labelsEs, labelsE, List.append_nil]
      exact Fresh.cons (Fresh.nil _)
  | .global _ f_names, n, r, n', ha, h => by
      simp only [argsOkS, Bool.and_eq_true] at ha
      simp only [instS, R.bind_ok, single_ok, sameLen_ok, atMost_ok] at h
      have hres := h
      simp only [Except.ok.injEq, Prod.mk.injEq] at hres
      obtain ⟨rfl, rfl⟩ := hres
      simp only [labelsSs, labelsS, labelsEs, labelsE, List.append_nil]
      exact Fresh.cons (Fresh.nil _)
  | .nonlocal _ f_names, n, r, n', ha, h => by
      simp only [argsOkS, Bool.and_eq_true] at ha
      simp only [instS, R.bind_ok, single_ok, sameLen_ok, atMost_ok] at h
      have hres := h
      simp only [Except.ok.injEq, Prod.mk.injEq] at hres
      obtain ⟨rfl, rfl⟩ := hres
      simp only [labelsSs, labelsS, labelsEs, labelsE, List.append_nil]
      exact Fresh.cons (Fresh.nil _)
  | .pass _, n, r, n', ha, h => by
      simp only [argsOkS, Bool.and_eq_true] at ha
      simp only [instS, R.bind_ok, single_ok, sameLen_ok, atMost_ok] at h
      have hres := h
      simp only [Except.ok.injEq, Prod.mk.injEq] at hres
      obtain ⟨rfl, rfl⟩ := hres
      simp only [labelsSs, labelsS, labelsEs, labelsE, List.append_nil]
      exact Fresh.cons (Fresh.nil _)
  | .break_ _, n, r, n', ha, h => by
      simp only [argsOkS, Bool.and_eq_true] at ha
      simp only [instS, R.bind_ok, single_ok, sameLen_ok, atMost_ok] at h
      have hres := h
      simp only [Except.ok.injEq, Prod.mk.injEq] at hres
      obtain ⟨rfl, rfl⟩ := hres
      simp only [labelsSs, labelsS, labelsEs, labelsE, List.append_nil]
      exact Fresh.cons (Fresh.nil _)
  | .continue_ _, n, r, n', ha, h => by
      simp only [argsOkS, Bool.and_eq_true] at ha
      simp only [instS, R.bind_ok, single_ok, sameLen_ok, atMost_ok] at h
      have hres := h
      simp only [Except.ok.injEq, Prod.mk.injEq] at hres
      obtain ⟨rfl, rfl⟩ := hres
      simp only [labelsSs, labelsS, labelsEs, labelsE, List.append_nil]
      exact Fresh.cons (Fresh.nil _)
  | .other _ f_kind f_exprs f_blocks, n, r, n', ha, h => by
      simp only [argsOkS, Bool.and_eq_true] at ha
      simp only [instS, R.bind_ok, single_ok, sameLen_ok, atMost_ok] at h
      obtain ⟨x0, m0, h0, x1, m1, h1, hres⟩ := h
      simp only [Except.ok.injEq, Prod.mk.injEq] at hres
      obtain ⟨rfl, rfl⟩ := hres
      have i0 := instEs_fresh b f_exprs _ _ _ ha.1 h0
      have i1 := instSs_fresh b f_blocks _ _ _ ha.2 h1
      simp only [labelsSs, labelsS, labelsEs, labelsE, List.append_nil] at i0 i1 ⊢
      exact Fresh.cons (Fresh.append i0 i1)
theorem instSs_fresh (b : Bindings) : ∀ (ss : List Stmt) (n : Nat) (r : List Stmt) (n' : Nat),
    argsOkSs b ss = true → instSs b ss n = .ok (r, n') → Fresh n (labelsSs r) n'
  | [], n, r, n', _, h => by
      simp only [instSs, Except.ok.injEq, Prod.mk.injEq] at h
      obtain ⟨rfl, rfl⟩ := h
      exact Fresh.nil _
  | s :: ss, n, r, n', ha, h => by
      simp only [argsOkSs, Bool.and_eq_true] at ha
      simp only [instSs, R.bind_ok] at h
      obtain ⟨l, n1, h1, t, n2, h2, hres⟩ := h
      simp only [Except.ok.injEq, Prod.mk.injEq] at hres
      obtain ⟨rfl, rfl⟩ := hres
      have i1 := instS_fresh b s _ _ _ ha.1 h1
      have i2 := instSs_fresh b ss _ _ _ ha.2 h2
      rw [labelsSs_append]
      exact Fresh.append i1 i2
end

end Malt.Conv.Template
