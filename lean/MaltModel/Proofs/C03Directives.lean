import MaltModel.Conv.DirectivesSpec
/-! Invariant of the model of `DirectivesTransformer` (`Conv/Directives.lean`, C04 builder): while visiting, the loop on top
of the `_LoopScope` stack stays the same and every annotation added comes from a `set_loop_options` statement placed in the
innermost enclosing loop.  Mutual induction over the (monadic) visitor. -/
set_option linter.unusedVariables false
namespace Malt.Conv.DirectivesSpec
open Malt.Py Malt.Conv Malt.Conv.Directives

theorem FromSource.mono {p q : List Placed} (h : ∀ x ∈ p, x ∈ q) {a} (ha : FromSource p a) : FromSource q a := by
  obtain ⟨h1, as, ks, hm, he⟩ := ha
  exact ⟨h1, as, ks, h _ hm, he⟩

/-- State after visiting: same loop on top of the stack, every new annotation comes from a placed directive. -/
def Inv (top : Nat) (rest : List (Nat × Nat)) (placed : List Placed) (st st' : St) : Prop :=
  (∃ c', st'.stack = (top, c') :: rest) ∧ ∀ a ∈ st'.annos, a ∈ st.annos ∨ FromSource placed a

theorem Inv.refl {top c rest placed} {st : St} (h : st.stack = (top, c) :: rest) : Inv top rest placed st st :=
  ⟨⟨c, h⟩, fun a ha => .inl ha⟩

theorem Inv.trans {top rest p q} {st st1 st2 : St} (h1 : Inv top rest p st st1) (h2 : Inv top rest q st1 st2) :
    Inv top rest (p ++ q) st st2 := by
  refine ⟨h2.1, fun a ha => ?_⟩
  rcases h2.2 a ha with h | h
  · rcases h1.2 a h with h | h
    · exact .inl h
    · exact .inr (h.mono (fun x hx => List.mem_append_left _ hx))
  · exact .inr (h.mono (fun x hx => List.mem_append_right _ hx))

theorem Inv.weaken {top rest p q} {st st' : St} (h : Inv top rest p st st') (hpq : ∀ x ∈ p, x ∈ q) : Inv top rest q st st' :=
  ⟨h.1, fun a ha => (h.2 a ha).imp id (fun x => x.mono hpq)⟩

theorem bump_stack {st : St} {top c rest} (h : st.stack = (top, c) :: rest) :
    st.bump.stack = (top, c + 1) :: rest ∧ st.bump.annos = st.annos := by
  unfold St.bump; rw [h]; exact ⟨rfl, rfl⟩

theorem directive_inv (env : Env) (i : Nat) (v : Expr) (st st' : St) (top c : Nat) (rest : List (Nat × Nat))
    (hs : st.stack = (top, c) :: rest) (h : directive env st v = some (.ok st')) :
    Inv top rest (placedS env top (.expr i v)) st st' := by
  cases v with
  | call ci f as ks =>
    simp only [directive] at h
    cases hstat : env.staticOf f.id with
    | none => rw [hstat] at h; simp at h
    | some name =>
      rw [hstat] at h
      by_cases h1 : name = "set_element_type"
      · subst h1
        simp only [Option.some.injEq] at h
        cases as with
        | nil => simp at h
        | cons target tl =>
          simp only at h
          cases hd : env.origDefs target.id with
          | none => rw [hd] at h; simp at h
          | some n =>
            rw [hd] at h
            cases n with
            | zero => simp only [Except.ok.injEq] at h; subst h; exact Inv.refl hs
            | succ k =>
              simp only at h
              cases hm : mapArgs elemParams 2 (target :: tl) ks with
              | error e => rw [hm] at h; simp at h
              | ok m => rw [hm] at h; simp only [Except.ok.injEq] at h; subst h; exact Inv.refl hs
      · by_cases h2 : name = "set_loop_options"
        · subst h2
          simp only [Option.some.injEq] at h
          rw [hs] at h
          cases rest with
          | nil => simp at h
          | cons r0 rs =>
            simp only at h
            by_cases hc : c > 1
            · simp [hc] at h
            · simp only [hc, if_false] at h
              cases hm : mapArgs loopParams 0 as ks with
              | error e => rw [hm] at h; simp at h
              | ok m =>
                rw [hm] at h
                simp only [Except.ok.injEq] at h
                subst h
                refine ⟨⟨c, rfl⟩, fun a ha => ?_⟩
                simp only [List.mem_append, List.mem_filter, List.mem_singleton] at ha
                rcases ha with ha | ha
                · exact .inl ha.1
                · subst ha
                  refine .inr ⟨rfl, as, ks, ?_, hm⟩
                  simp [placedS, hstat]
        · exfalso
          revert h
          split <;> simp_all
  | _ => simp [directive] at h


theorem Inv.of_eq {top rest p} {st st' : St} {c} (hs : st.stack = (top, c) :: rest) (h : st' = st) : Inv top rest p st st' := by
  subst h; exact Inv.refl hs

mutual
theorem visitS_inv (env : Env) : ∀ (s : Stmt) (st : St) (r : List Stmt) (st' : St) (top c : Nat) (rest : List (Nat × Nat)),
    st.stack = (top, c) :: rest → visitS env s st = .ok (r, st') → Inv top rest (placedS env top s) st st'
  | .expr i v, st, r, st', top, c, rest, hs, h => by
      simp only [visitS] at h
      have hb := bump_stack hs
      cases hd : directive env st.bump v with
      | none =>
        rw [hd] at h
        simp only [Except.ok.injEq, Prod.mk.injEq] at h
        obtain ⟨_, rfl⟩ := h
        exact ⟨⟨c + 1, hb.1⟩, fun a ha => .inl (hb.2 ▸ ha)⟩
      | some res =>
        rw [hd] at h
        cases res with
        | error e => simp at h
        | ok st2 =>
          simp only [Except.ok.injEq, Prod.mk.injEq] at h
          obtain ⟨_, rfl⟩ := h
          have := directive_inv env i v st.bump st2 top (c + 1) rest hb.1 hd
          exact ⟨this.1, fun a ha => (this.2 a ha).imp (fun x => hb.2 ▸ x) id⟩
  | .assign i ts v, st, r, st', top, c, rest, hs, h => by
      simp only [visitS, Except.ok.injEq, Prod.mk.injEq] at h
      obtain ⟨_, rfl⟩ := h
      have hb := bump_stack hs
      exact ⟨⟨c + 1, hb.1⟩, fun a ha => .inl (hb.2 ▸ ha)⟩
  | .augAssign i t op v, st, r, st', top, c, rest, hs, h => by
      simp only [visitS, Except.ok.injEq, Prod.mk.injEq] at h
      obtain ⟨_, rfl⟩ := h
      have hb := bump_stack hs
      exact ⟨⟨c + 1, hb.1⟩, fun a ha => .inl (hb.2 ▸ ha)⟩
  | .while_ i t b e, st, r, st', top, c, rest, hs, h => by
      simp only [visitS] at h
      cases hb : visitB env b { st with stack := (i, 0) :: st.stack } with
      | error x => rw [hb] at h; simp at h
      | ok p =>
        obtain ⟨b', st1⟩ := p
        rw [hb] at h
        simp only at h
        have i1 := visitB_inv env b _ b' st1 i 0 ((top, c) :: rest) (by simp [hs]) hb
        obtain ⟨⟨c1, hs1⟩, ha1⟩ := i1
        cases he : visitB env e st1 with
        | error x => rw [he] at h; simp at h
        | ok q =>
          obtain ⟨e', st2⟩ := q
          rw [he] at h
          simp only [Except.ok.injEq, Prod.mk.injEq] at h
          obtain ⟨_, rfl⟩ := h
          have i2 := visitB_inv env e st1 e' st2 i c1 ((top, c) :: rest) hs1 he
          obtain ⟨⟨c2, hs2⟩, ha2⟩ := i2
          refine ⟨⟨c, by simp [hs2]⟩, fun a ha => ?_⟩
          simp only [placedS]
          rcases ha2 a ha with h2 | h2
          · rcases ha1 a h2 with h1 | h1
            · exact .inl h1
            · exact .inr (h1.mono (fun x hx => List.mem_append_left _ hx))
          · exact .inr (h2.mono (fun x hx => List.mem_append_right _ hx))
  | .for_ i t it b e x isA, st, r, st', top, c, rest, hs, h => by
      simp only [visitS] at h
      cases isA with
      | true =>
        simp only [if_true] at h
        cases hb : visitB env b st with
        | error x => rw [hb] at h; simp at h
        | ok p =>
          obtain ⟨b', st1⟩ := p
          rw [hb] at h
          simp only at h
          have i1 := visitB_inv env b st b' st1 top c rest hs hb
          obtain ⟨c1, hs1⟩ := i1.1
          cases he : visitB env e st1 with
          | error x => rw [he] at h; simp at h
          | ok q =>
            obtain ⟨e', st2⟩ := q
            rw [he] at h
            simp only [Except.ok.injEq, Prod.mk.injEq] at h
            obtain ⟨_, rfl⟩ := h
            have i2 := visitB_inv env e st1 e' st2 top c1 rest hs1 he
            simpa only [placedS, if_true] using i1.trans i2
      | false =>
        simp only [Bool.false_eq_true, if_false] at h
        cases hb : visitB env b { st with stack := (i, 0) :: st.stack } with
        | error x => rw [hb] at h; simp at h
        | ok p =>
          obtain ⟨b', st1⟩ := p
          rw [hb] at h
          simp only at h
          have i1 := visitB_inv env b _ b' st1 i 0 ((top, c) :: rest) (by simp [hs]) hb
          obtain ⟨⟨c1, hs1⟩, ha1⟩ := i1
          cases he : visitB env e st1 with
          | error x => rw [he] at h; simp at h
          | ok q =>
            obtain ⟨e', st2⟩ := q
            rw [he] at h
            simp only [Except.ok.injEq, Prod.mk.injEq] at h
            obtain ⟨_, rfl⟩ := h
            have i2 := visitB_inv env e st1 e' st2 i c1 ((top, c) :: rest) hs1 he
            obtain ⟨⟨c2, hs2⟩, ha2⟩ := i2
            refine ⟨⟨c, by simp [hs2]⟩, fun a ha => ?_⟩
            simp only [placedS, Bool.false_eq_true, if_false]
            rcases ha2 a ha with h2 | h2
            · rcases ha1 a h2 with h1 | h1
              · exact .inl h1
              · exact .inr (h1.mono (fun x hx => List.mem_append_left _ hx))
            · exact .inr (h2.mono (fun x hx => List.mem_append_right _ hx))
  | .functionDef i n as b ds rs isA, st, r, st', top, c, rest, hs, h => by
      simp only [visitS] at h
      cases hb : visitB env b st with
      | error x => rw [hb] at h; simp at h
      | ok p =>
        obtain ⟨b', st1⟩ := p
        rw [hb] at h
        simp only [Except.ok.injEq, Prod.mk.injEq] at h
        obtain ⟨_, rfl⟩ := h
        simpa only [placedS] using visitB_inv env b st b' st1 top c rest hs hb
  | .classDef i n bs ks b ds, st, r, st', top, c, rest, hs, h => by
      simp only [visitS] at h
      cases hb : visitB env b st with
      | error x => rw [hb] at h; simp at h
      | ok p =>
        obtain ⟨b', st1⟩ := p
        rw [hb] at h
        simp only [Except.ok.injEq, Prod.mk.injEq] at h
        obtain ⟨_, rfl⟩ := h
        simpa only [placedS] using visitB_inv env b st b' st1 top c rest hs hb
  | .if_ i t b e, st, r, st', top, c, rest, hs, h => by
      simp only [visitS] at h
      cases hb : visitB env b st with
      | error x => rw [hb] at h; simp at h
      | ok p =>
        obtain ⟨b', st1⟩ := p
        rw [hb] at h
        simp only at h
        have i1 := visitB_inv env b st b' st1 top c rest hs hb
        obtain ⟨c1, hs1⟩ := i1.1
        cases he : visitB env e st1 with
        | error x => rw [he] at h; simp at h
        | ok q =>
          obtain ⟨e', st2⟩ := q
          rw [he] at h
          simp only [Except.ok.injEq, Prod.mk.injEq] at h
          obtain ⟨_, rfl⟩ := h
          have i2 := visitB_inv env e st1 e' st2 top c1 rest hs1 he
          simpa only [placedS] using i1.trans i2
  | .with_ i its b isA, st, r, st', top, c, rest, hs, h => by
      simp only [visitS] at h
      cases hb : visitB env b st with
      | error x => rw [hb] at h; simp at h
      | ok p =>
        obtain ⟨b', st1⟩ := p
        rw [hb] at h
        simp only [Except.ok.injEq, Prod.mk.injEq] at h
        obtain ⟨_, rfl⟩ := h
        simpa only [placedS] using visitB_inv env b st b' st1 top c rest hs hb
  | .try_ i b hd e f, st, r, st', top, c, rest, hs, h => by
      simp only [visitS] at h
      cases h1 : visitB env b st with
      | error x => rw [h1] at h; simp at h
      | ok p1 =>
        obtain ⟨b', s1⟩ := p1
        rw [h1] at h; simp only at h
        have i1 := visitB_inv env b st b' s1 top c rest hs h1
        obtain ⟨c1, hs1⟩ := i1.1
        cases h2 : visitB env hd s1 with
        | error x => rw [h2] at h; simp at h
        | ok p2 =>
          obtain ⟨hd', s2⟩ := p2
          rw [h2] at h; simp only at h
          have i2 := visitB_inv env hd s1 hd' s2 top c1 rest hs1 h2
          obtain ⟨c2, hs2⟩ := i2.1
          cases h3 : visitB env e s2 with
          | error x => rw [h3] at h; simp at h
          | ok p3 =>
            obtain ⟨e', s3⟩ := p3
            rw [h3] at h; simp only at h
            have i3 := visitB_inv env e s2 e' s3 top c2 rest hs2 h3
            obtain ⟨c3, hs3⟩ := i3.1
            cases h4 : visitB env f s3 with
            | error x => rw [h4] at h; simp at h
            | ok p4 =>
              obtain ⟨f', s4⟩ := p4
              rw [h4] at h
              simp only [Except.ok.injEq, Prod.mk.injEq] at h
              obtain ⟨_, rfl⟩ := h
              have i4 := visitB_inv env f s3 f' s4 top c3 rest hs3 h4
              simpa only [placedS] using ((i1.trans i2).trans i3).trans i4
  | .handler i t n b, st, r, st', top, c, rest, hs, h => by
      simp only [visitS] at h
      cases hb : visitB env b st with
      | error x => rw [hb] at h; simp at h
      | ok p =>
        obtain ⟨b', st1⟩ := p
        rw [hb] at h
        simp only [Except.ok.injEq, Prod.mk.injEq] at h
        obtain ⟨_, rfl⟩ := h
        simpa only [placedS] using visitB_inv env b st b' st1 top c rest hs hb
  | .other i k es bs, st, r, st', top, c, rest, hs, h => by
      simp only [visitS] at h
      cases hb : visitB env bs st with
      | error x => rw [hb] at h; simp at h
      | ok p =>
        obtain ⟨b', st1⟩ := p
        rw [hb] at h
        simp only [Except.ok.injEq, Prod.mk.injEq] at h
        obtain ⟨_, rfl⟩ := h
        simpa only [placedS] using visitB_inv env bs st b' st1 top c rest hs hb
  | .ret .., st, r, st', top, c, rest, hs, h | .delete .., st, r, st', top, c, rest, hs, h
  | .annAssign .., st, r, st', top, c, rest, hs, h | .raise .., st, r, st', top, c, rest, hs, h
  | .assert_ .., st, r, st', top, c, rest, hs, h | .import_ .., st, r, st', top, c, rest, hs, h
  | .importFrom .., st, r, st', top, c, rest, hs, h | .global .., st, r, st', top, c, rest, hs, h
  | .nonlocal .., st, r, st', top, c, rest, hs, h | .pass .., st, r, st', top, c, rest, hs, h
  | .break_ .., st, r, st', top, c, rest, hs, h | .continue_ .., st, r, st', top, c, rest, hs, h => by
      simp only [visitS, Except.ok.injEq, Prod.mk.injEq] at h
      obtain ⟨_, rfl⟩ := h
      exact Inv.refl hs
theorem visitB_inv (env : Env) : ∀ (ss : List Stmt) (st : St) (r : List Stmt) (st' : St) (top c : Nat) (rest : List (Nat × Nat)),
    st.stack = (top, c) :: rest → visitB env ss st = .ok (r, st') → Inv top rest (placedL env top ss) st st'
  | [], st, r, st', top, c, rest, hs, h => by
      simp only [visitB, Except.ok.injEq, Prod.mk.injEq] at h
      obtain ⟨_, rfl⟩ := h
      exact Inv.refl hs
  | s :: ss, st, r, st', top, c, rest, hs, h => by
      simp only [visitB] at h
      cases h1 : visitS env s st with
      | error x => rw [h1] at h; simp at h
      | ok p1 =>
        obtain ⟨r1, s1⟩ := p1
        rw [h1] at h; simp only at h
        have i1 := visitS_inv env s st r1 s1 top c rest hs h1
        obtain ⟨c1, hs1⟩ := i1.1
        cases h2 : visitB env ss s1 with
        | error x => rw [h2] at h; simp at h
        | ok p2 =>
          obtain ⟨r2, s2⟩ := p2
          rw [h2] at h
          simp only [Except.ok.injEq, Prod.mk.injEq] at h
          obtain ⟨_, rfl⟩ := h
          have i2 := visitB_inv env ss s1 r2 s2 top c1 rest hs1 h2
          simpa only [placedL] using i1.trans i2
end

end Malt.Conv.DirectivesSpec
