import MaltModel.Cfg.Builder
/- generated: projections of the primitive builder steps (all by unfolding) -/
namespace Malt.Cfg.B

@[simp] theorem fail_head (b : B) (msg : String) : (b.fail msg).head = b.head := rfl
@[simp] theorem fail_errors (b : B) (msg : String) : (b.fail msg).errors = b.errors := rfl
@[simp] theorem fail_nodes (b : B) (msg : String) : (b.fail msg).nodes = b.nodes := rfl
@[simp] theorem fail_heap (b : B) (msg : String) : (b.fail msg).heap = b.heap := rfl
@[simp] theorem fail_leaves (b : B) (msg : String) : (b.fail msg).leaves = b.leaves := rfl
@[simp] theorem fail_activeStmts (b : B) (msg : String) : (b.fail msg).activeStmts = b.activeStmts := rfl
@[simp] theorem fail_owners (b : B) (msg : String) : (b.fail msg).owners = b.owners := rfl
@[simp] theorem fail_edges (b : B) (msg : String) : (b.fail msg).edges = b.edges := rfl
@[simp] theorem fail_finallySections (b : B) (msg : String) : (b.fail msg).finallySections = b.finallySections := rfl
@[simp] theorem fail_finallySub (b : B) (msg : String) : (b.fail msg).finallySub = b.finallySub := rfl
@[simp] theorem fail_finallyDirect (b : B) (msg : String) : (b.fail msg).finallyDirect = b.finallyDirect := rfl
@[simp] theorem fail_pendingFinally (b : B) (msg : String) : (b.fail msg).pendingFinally = b.pendingFinally := rfl
@[simp] theorem fail_exits (b : B) (msg : String) : (b.fail msg).exits = b.exits := rfl
@[simp] theorem fail_sectionEntry (b : B) (msg : String) : (b.fail msg).sectionEntry = b.sectionEntry := rfl
@[simp] theorem fail_continues (b : B) (msg : String) : (b.fail msg).continues = b.continues := rfl
@[simp] theorem fail_raises (b : B) (msg : String) : (b.fail msg).raises = b.raises := rfl
@[simp] theorem fail_condEntry (b : B) (msg : String) : (b.fail msg).condEntry = b.condEntry := rfl
@[simp] theorem fail_condLeaves (b : B) (msg : String) : (b.fail msg).condLeaves = b.condLeaves := rfl
@[simp] theorem fail_roots (b : B) (msg : String) : (b.fail msg).roots = b.roots := rfl
@[simp] theorem check_head (b : B) (c : Bool) (msg : String) : (b.check c msg).head = b.head := by unfold check; split <;> rfl
@[simp] theorem check_errors (b : B) (c : Bool) (msg : String) : (b.check c msg).errors = b.errors := by unfold check; split <;> rfl
@[simp] theorem check_nodes (b : B) (c : Bool) (msg : String) : (b.check c msg).nodes = b.nodes := by unfold check; split <;> rfl
@[simp] theorem check_heap (b : B) (c : Bool) (msg : String) : (b.check c msg).heap = b.heap := by unfold check; split <;> rfl
@[simp] theorem check_leaves (b : B) (c : Bool) (msg : String) : (b.check c msg).leaves = b.leaves := by unfold check; split <;> rfl
@[simp] theorem check_activeStmts (b : B) (c : Bool) (msg : String) : (b.check c msg).activeStmts = b.activeStmts := by unfold check; split <;> rfl
@[simp] theorem check_owners (b : B) (c : Bool) (msg : String) : (b.check c msg).owners = b.owners := by unfold check; split <;> rfl
@[simp] theorem check_edges (b : B) (c : Bool) (msg : String) : (b.check c msg).edges = b.edges := by unfold check; split <;> rfl
@[simp] theorem check_finallySections (b : B) (c : Bool) (msg : String) : (b.check c msg).finallySections = b.finallySections := by unfold check; split <;> rfl
@[simp] theorem check_finallySub (b : B) (c : Bool) (msg : String) : (b.check c msg).finallySub = b.finallySub := by unfold check; split <;> rfl
@[simp] theorem check_finallyDirect (b : B) (c : Bool) (msg : String) : (b.check c msg).finallyDirect = b.finallyDirect := by unfold check; split <;> rfl
@[simp] theorem check_pendingFinally (b : B) (c : Bool) (msg : String) : (b.check c msg).pendingFinally = b.pendingFinally := by unfold check; split <;> rfl
@[simp] theorem check_exits (b : B) (c : Bool) (msg : String) : (b.check c msg).exits = b.exits := by unfold check; split <;> rfl
@[simp] theorem check_sectionEntry (b : B) (c : Bool) (msg : String) : (b.check c msg).sectionEntry = b.sectionEntry := by unfold check; split <;> rfl
@[simp] theorem check_continues (b : B) (c : Bool) (msg : String) : (b.check c msg).continues = b.continues := by unfold check; split <;> rfl
@[simp] theorem check_raises (b : B) (c : Bool) (msg : String) : (b.check c msg).raises = b.raises := by unfold check; split <;> rfl
@[simp] theorem check_condEntry (b : B) (c : Bool) (msg : String) : (b.check c msg).condEntry = b.condEntry := by unfold check; split <;> rfl
@[simp] theorem check_condLeaves (b : B) (c : Bool) (msg : String) : (b.check c msg).condLeaves = b.condLeaves := by unfold check; split <;> rfl
@[simp] theorem check_roots (b : B) (c : Bool) (msg : String) : (b.check c msg).roots = b.roots := by unfold check; split <;> rfl
@[simp] theorem putExits_head (b : B) (k : Nat) (l : List NodeId) : (b.putExits k l).head = b.head := rfl
@[simp] theorem putExits_errors (b : B) (k : Nat) (l : List NodeId) : (b.putExits k l).errors = b.errors := rfl
@[simp] theorem putExits_nodes (b : B) (k : Nat) (l : List NodeId) : (b.putExits k l).nodes = b.nodes := rfl
@[simp] theorem putExits_heap (b : B) (k : Nat) (l : List NodeId) : (b.putExits k l).heap = b.heap := rfl
@[simp] theorem putExits_leaves (b : B) (k : Nat) (l : List NodeId) : (b.putExits k l).leaves = b.leaves := rfl
@[simp] theorem putExits_activeStmts (b : B) (k : Nat) (l : List NodeId) : (b.putExits k l).activeStmts = b.activeStmts := rfl
@[simp] theorem putExits_owners (b : B) (k : Nat) (l : List NodeId) : (b.putExits k l).owners = b.owners := rfl
@[simp] theorem putExits_edges (b : B) (k : Nat) (l : List NodeId) : (b.putExits k l).edges = b.edges := rfl
@[simp] theorem putExits_finallySections (b : B) (k : Nat) (l : List NodeId) : (b.putExits k l).finallySections = b.finallySections := rfl
@[simp] theorem putExits_finallySub (b : B) (k : Nat) (l : List NodeId) : (b.putExits k l).finallySub = b.finallySub := rfl
@[simp] theorem putExits_finallyDirect (b : B) (k : Nat) (l : List NodeId) : (b.putExits k l).finallyDirect = b.finallyDirect := rfl
@[simp] theorem putExits_pendingFinally (b : B) (k : Nat) (l : List NodeId) : (b.putExits k l).pendingFinally = b.pendingFinally := rfl
@[simp] theorem putExits_sectionEntry (b : B) (k : Nat) (l : List NodeId) : (b.putExits k l).sectionEntry = b.sectionEntry := rfl
@[simp] theorem putExits_continues (b : B) (k : Nat) (l : List NodeId) : (b.putExits k l).continues = b.continues := rfl
@[simp] theorem putExits_raises (b : B) (k : Nat) (l : List NodeId) : (b.putExits k l).raises = b.raises := rfl
@[simp] theorem putExits_condEntry (b : B) (k : Nat) (l : List NodeId) : (b.putExits k l).condEntry = b.condEntry := rfl
@[simp] theorem putExits_condLeaves (b : B) (k : Nat) (l : List NodeId) : (b.putExits k l).condLeaves = b.condLeaves := rfl
@[simp] theorem putExits_roots (b : B) (k : Nat) (l : List NodeId) : (b.putExits k l).roots = b.roots := rfl
@[simp] theorem putExits_err (b : B) (k : Nat) (l : List NodeId) : (b.putExits k l).err = b.err := rfl
@[simp] theorem delExits_head (b : B) (k : Nat) : (b.delExits k).head = b.head := rfl
@[simp] theorem delExits_errors (b : B) (k : Nat) : (b.delExits k).errors = b.errors := rfl
@[simp] theorem delExits_nodes (b : B) (k : Nat) : (b.delExits k).nodes = b.nodes := rfl
@[simp] theorem delExits_heap (b : B) (k : Nat) : (b.delExits k).heap = b.heap := rfl
@[simp] theorem delExits_leaves (b : B) (k : Nat) : (b.delExits k).leaves = b.leaves := rfl
@[simp] theorem delExits_activeStmts (b : B) (k : Nat) : (b.delExits k).activeStmts = b.activeStmts := rfl
@[simp] theorem delExits_owners (b : B) (k : Nat) : (b.delExits k).owners = b.owners := rfl
@[simp] theorem delExits_edges (b : B) (k : Nat) : (b.delExits k).edges = b.edges := rfl
@[simp] theorem delExits_finallySections (b : B) (k : Nat) : (b.delExits k).finallySections = b.finallySections := rfl
@[simp] theorem delExits_finallySub (b : B) (k : Nat) : (b.delExits k).finallySub = b.finallySub := rfl
@[simp] theorem delExits_finallyDirect (b : B) (k : Nat) : (b.delExits k).finallyDirect = b.finallyDirect := rfl
@[simp] theorem delExits_pendingFinally (b : B) (k : Nat) : (b.delExits k).pendingFinally = b.pendingFinally := rfl
@[simp] theorem delExits_sectionEntry (b : B) (k : Nat) : (b.delExits k).sectionEntry = b.sectionEntry := rfl
@[simp] theorem delExits_continues (b : B) (k : Nat) : (b.delExits k).continues = b.continues := rfl
@[simp] theorem delExits_raises (b : B) (k : Nat) : (b.delExits k).raises = b.raises := rfl
@[simp] theorem delExits_condEntry (b : B) (k : Nat) : (b.delExits k).condEntry = b.condEntry := rfl
@[simp] theorem delExits_condLeaves (b : B) (k : Nat) : (b.delExits k).condLeaves = b.condLeaves := rfl
@[simp] theorem delExits_roots (b : B) (k : Nat) : (b.delExits k).roots = b.roots := rfl
@[simp] theorem delExits_err (b : B) (k : Nat) : (b.delExits k).err = b.err := rfl
@[simp] theorem putContinues_head (b : B) (k : Nat) (l : List NodeId) : (b.putContinues k l).head = b.head := rfl
@[simp] theorem putContinues_errors (b : B) (k : Nat) (l : List NodeId) : (b.putContinues k l).errors = b.errors := rfl
@[simp] theorem putContinues_nodes (b : B) (k : Nat) (l : List NodeId) : (b.putContinues k l).nodes = b.nodes := rfl
@[simp] theorem putContinues_heap (b : B) (k : Nat) (l : List NodeId) : (b.putContinues k l).heap = b.heap := rfl
@[simp] theorem putContinues_leaves (b : B) (k : Nat) (l : List NodeId) : (b.putContinues k l).leaves = b.leaves := rfl
@[simp] theorem putContinues_activeStmts (b : B) (k : Nat) (l : List NodeId) : (b.putContinues k l).activeStmts = b.activeStmts := rfl
@[simp] theorem putContinues_owners (b : B) (k : Nat) (l : List NodeId) : (b.putContinues k l).owners = b.owners := rfl
@[simp] theorem putContinues_edges (b : B) (k : Nat) (l : List NodeId) : (b.putContinues k l).edges = b.edges := rfl
@[simp] theorem putContinues_finallySections (b : B) (k : Nat) (l : List NodeId) : (b.putContinues k l).finallySections = b.finallySections := rfl
@[simp] theorem putContinues_finallySub (b : B) (k : Nat) (l : List NodeId) : (b.putContinues k l).finallySub = b.finallySub := rfl
@[simp] theorem putContinues_finallyDirect (b : B) (k : Nat) (l : List NodeId) : (b.putContinues k l).finallyDirect = b.finallyDirect := rfl
@[simp] theorem putContinues_pendingFinally (b : B) (k : Nat) (l : List NodeId) : (b.putContinues k l).pendingFinally = b.pendingFinally := rfl
@[simp] theorem putContinues_exits (b : B) (k : Nat) (l : List NodeId) : (b.putContinues k l).exits = b.exits := rfl
@[simp] theorem putContinues_sectionEntry (b : B) (k : Nat) (l : List NodeId) : (b.putContinues k l).sectionEntry = b.sectionEntry := rfl
@[simp] theorem putContinues_raises (b : B) (k : Nat) (l : List NodeId) : (b.putContinues k l).raises = b.raises := rfl
@[simp] theorem putContinues_condEntry (b : B) (k : Nat) (l : List NodeId) : (b.putContinues k l).condEntry = b.condEntry := rfl
@[simp] theorem putContinues_condLeaves (b : B) (k : Nat) (l : List NodeId) : (b.putContinues k l).condLeaves = b.condLeaves := rfl
@[simp] theorem putContinues_roots (b : B) (k : Nat) (l : List NodeId) : (b.putContinues k l).roots = b.roots := rfl
@[simp] theorem putContinues_err (b : B) (k : Nat) (l : List NodeId) : (b.putContinues k l).err = b.err := rfl
@[simp] theorem putSectionEntry_head (b : B) (k : Nat) (e : NodeId) : (b.putSectionEntry k e).head = b.head := rfl
@[simp] theorem putSectionEntry_errors (b : B) (k : Nat) (e : NodeId) : (b.putSectionEntry k e).errors = b.errors := rfl
@[simp] theorem putSectionEntry_nodes (b : B) (k : Nat) (e : NodeId) : (b.putSectionEntry k e).nodes = b.nodes := rfl
@[simp] theorem putSectionEntry_heap (b : B) (k : Nat) (e : NodeId) : (b.putSectionEntry k e).heap = b.heap := rfl
@[simp] theorem putSectionEntry_leaves (b : B) (k : Nat) (e : NodeId) : (b.putSectionEntry k e).leaves = b.leaves := rfl
@[simp] theorem putSectionEntry_activeStmts (b : B) (k : Nat) (e : NodeId) : (b.putSectionEntry k e).activeStmts = b.activeStmts := rfl
@[simp] theorem putSectionEntry_owners (b : B) (k : Nat) (e : NodeId) : (b.putSectionEntry k e).owners = b.owners := rfl
@[simp] theorem putSectionEntry_edges (b : B) (k : Nat) (e : NodeId) : (b.putSectionEntry k e).edges = b.edges := rfl
@[simp] theorem putSectionEntry_finallySections (b : B) (k : Nat) (e : NodeId) : (b.putSectionEntry k e).finallySections = b.finallySections := rfl
@[simp] theorem putSectionEntry_finallySub (b : B) (k : Nat) (e : NodeId) : (b.putSectionEntry k e).finallySub = b.finallySub := rfl
@[simp] theorem putSectionEntry_finallyDirect (b : B) (k : Nat) (e : NodeId) : (b.putSectionEntry k e).finallyDirect = b.finallyDirect := rfl
@[simp] theorem putSectionEntry_pendingFinally (b : B) (k : Nat) (e : NodeId) : (b.putSectionEntry k e).pendingFinally = b.pendingFinally := rfl
@[simp] theorem putSectionEntry_exits (b : B) (k : Nat) (e : NodeId) : (b.putSectionEntry k e).exits = b.exits := rfl
@[simp] theorem putSectionEntry_continues (b : B) (k : Nat) (e : NodeId) : (b.putSectionEntry k e).continues = b.continues := rfl
@[simp] theorem putSectionEntry_raises (b : B) (k : Nat) (e : NodeId) : (b.putSectionEntry k e).raises = b.raises := rfl
@[simp] theorem putSectionEntry_condEntry (b : B) (k : Nat) (e : NodeId) : (b.putSectionEntry k e).condEntry = b.condEntry := rfl
@[simp] theorem putSectionEntry_condLeaves (b : B) (k : Nat) (e : NodeId) : (b.putSectionEntry k e).condLeaves = b.condLeaves := rfl
@[simp] theorem putSectionEntry_roots (b : B) (k : Nat) (e : NodeId) : (b.putSectionEntry k e).roots = b.roots := rfl
@[simp] theorem putSectionEntry_err (b : B) (k : Nat) (e : NodeId) : (b.putSectionEntry k e).err = b.err := rfl
@[simp] theorem delLoopKeys_head (b : B) (k : Nat) : (b.delLoopKeys k).head = b.head := rfl
@[simp] theorem delLoopKeys_errors (b : B) (k : Nat) : (b.delLoopKeys k).errors = b.errors := rfl
@[simp] theorem delLoopKeys_nodes (b : B) (k : Nat) : (b.delLoopKeys k).nodes = b.nodes := rfl
@[simp] theorem delLoopKeys_heap (b : B) (k : Nat) : (b.delLoopKeys k).heap = b.heap := rfl
@[simp] theorem delLoopKeys_leaves (b : B) (k : Nat) : (b.delLoopKeys k).leaves = b.leaves := rfl
@[simp] theorem delLoopKeys_activeStmts (b : B) (k : Nat) : (b.delLoopKeys k).activeStmts = b.activeStmts := rfl
@[simp] theorem delLoopKeys_owners (b : B) (k : Nat) : (b.delLoopKeys k).owners = b.owners := rfl
@[simp] theorem delLoopKeys_edges (b : B) (k : Nat) : (b.delLoopKeys k).edges = b.edges := rfl
@[simp] theorem delLoopKeys_finallySections (b : B) (k : Nat) : (b.delLoopKeys k).finallySections = b.finallySections := rfl
@[simp] theorem delLoopKeys_finallySub (b : B) (k : Nat) : (b.delLoopKeys k).finallySub = b.finallySub := rfl
@[simp] theorem delLoopKeys_finallyDirect (b : B) (k : Nat) : (b.delLoopKeys k).finallyDirect = b.finallyDirect := rfl
@[simp] theorem delLoopKeys_pendingFinally (b : B) (k : Nat) : (b.delLoopKeys k).pendingFinally = b.pendingFinally := rfl
@[simp] theorem delLoopKeys_exits (b : B) (k : Nat) : (b.delLoopKeys k).exits = b.exits := rfl
@[simp] theorem delLoopKeys_raises (b : B) (k : Nat) : (b.delLoopKeys k).raises = b.raises := rfl
@[simp] theorem delLoopKeys_condEntry (b : B) (k : Nat) : (b.delLoopKeys k).condEntry = b.condEntry := rfl
@[simp] theorem delLoopKeys_condLeaves (b : B) (k : Nat) : (b.delLoopKeys k).condLeaves = b.condLeaves := rfl
@[simp] theorem delLoopKeys_roots (b : B) (k : Nat) : (b.delLoopKeys k).roots = b.roots := rfl
@[simp] theorem delLoopKeys_err (b : B) (k : Nat) : (b.delLoopKeys k).err = b.err := rfl
@[simp] theorem putCondLeaves_head (b : B) (k : Nat) (l : List Ref) : (b.putCondLeaves k l).head = b.head := rfl
@[simp] theorem putCondLeaves_errors (b : B) (k : Nat) (l : List Ref) : (b.putCondLeaves k l).errors = b.errors := rfl
@[simp] theorem putCondLeaves_nodes (b : B) (k : Nat) (l : List Ref) : (b.putCondLeaves k l).nodes = b.nodes := rfl
@[simp] theorem putCondLeaves_heap (b : B) (k : Nat) (l : List Ref) : (b.putCondLeaves k l).heap = b.heap := rfl
@[simp] theorem putCondLeaves_leaves (b : B) (k : Nat) (l : List Ref) : (b.putCondLeaves k l).leaves = b.leaves := rfl
@[simp] theorem putCondLeaves_activeStmts (b : B) (k : Nat) (l : List Ref) : (b.putCondLeaves k l).activeStmts = b.activeStmts := rfl
@[simp] theorem putCondLeaves_owners (b : B) (k : Nat) (l : List Ref) : (b.putCondLeaves k l).owners = b.owners := rfl
@[simp] theorem putCondLeaves_edges (b : B) (k : Nat) (l : List Ref) : (b.putCondLeaves k l).edges = b.edges := rfl
@[simp] theorem putCondLeaves_finallySections (b : B) (k : Nat) (l : List Ref) : (b.putCondLeaves k l).finallySections = b.finallySections := rfl
@[simp] theorem putCondLeaves_finallySub (b : B) (k : Nat) (l : List Ref) : (b.putCondLeaves k l).finallySub = b.finallySub := rfl
@[simp] theorem putCondLeaves_finallyDirect (b : B) (k : Nat) (l : List Ref) : (b.putCondLeaves k l).finallyDirect = b.finallyDirect := rfl
@[simp] theorem putCondLeaves_pendingFinally (b : B) (k : Nat) (l : List Ref) : (b.putCondLeaves k l).pendingFinally = b.pendingFinally := rfl
@[simp] theorem putCondLeaves_exits (b : B) (k : Nat) (l : List Ref) : (b.putCondLeaves k l).exits = b.exits := rfl
@[simp] theorem putCondLeaves_sectionEntry (b : B) (k : Nat) (l : List Ref) : (b.putCondLeaves k l).sectionEntry = b.sectionEntry := rfl
@[simp] theorem putCondLeaves_continues (b : B) (k : Nat) (l : List Ref) : (b.putCondLeaves k l).continues = b.continues := rfl
@[simp] theorem putCondLeaves_raises (b : B) (k : Nat) (l : List Ref) : (b.putCondLeaves k l).raises = b.raises := rfl
@[simp] theorem putCondLeaves_condEntry (b : B) (k : Nat) (l : List Ref) : (b.putCondLeaves k l).condEntry = b.condEntry := rfl
@[simp] theorem putCondLeaves_roots (b : B) (k : Nat) (l : List Ref) : (b.putCondLeaves k l).roots = b.roots := rfl
@[simp] theorem putCondLeaves_err (b : B) (k : Nat) (l : List Ref) : (b.putCondLeaves k l).err = b.err := rfl
@[simp] theorem putCondEntry_head (b : B) (k : Nat) (r : Ref) : (b.putCondEntry k r).head = b.head := rfl
@[simp] theorem putCondEntry_errors (b : B) (k : Nat) (r : Ref) : (b.putCondEntry k r).errors = b.errors := rfl
@[simp] theorem putCondEntry_nodes (b : B) (k : Nat) (r : Ref) : (b.putCondEntry k r).nodes = b.nodes := rfl
@[simp] theorem putCondEntry_heap (b : B) (k : Nat) (r : Ref) : (b.putCondEntry k r).heap = b.heap := rfl
@[simp] theorem putCondEntry_leaves (b : B) (k : Nat) (r : Ref) : (b.putCondEntry k r).leaves = b.leaves := rfl
@[simp] theorem putCondEntry_activeStmts (b : B) (k : Nat) (r : Ref) : (b.putCondEntry k r).activeStmts = b.activeStmts := rfl
@[simp] theorem putCondEntry_owners (b : B) (k : Nat) (r : Ref) : (b.putCondEntry k r).owners = b.owners := rfl
@[simp] theorem putCondEntry_edges (b : B) (k : Nat) (r : Ref) : (b.putCondEntry k r).edges = b.edges := rfl
@[simp] theorem putCondEntry_finallySections (b : B) (k : Nat) (r : Ref) : (b.putCondEntry k r).finallySections = b.finallySections := rfl
@[simp] theorem putCondEntry_finallySub (b : B) (k : Nat) (r : Ref) : (b.putCondEntry k r).finallySub = b.finallySub := rfl
@[simp] theorem putCondEntry_finallyDirect (b : B) (k : Nat) (r : Ref) : (b.putCondEntry k r).finallyDirect = b.finallyDirect := rfl
@[simp] theorem putCondEntry_pendingFinally (b : B) (k : Nat) (r : Ref) : (b.putCondEntry k r).pendingFinally = b.pendingFinally := rfl
@[simp] theorem putCondEntry_exits (b : B) (k : Nat) (r : Ref) : (b.putCondEntry k r).exits = b.exits := rfl
@[simp] theorem putCondEntry_sectionEntry (b : B) (k : Nat) (r : Ref) : (b.putCondEntry k r).sectionEntry = b.sectionEntry := rfl
@[simp] theorem putCondEntry_continues (b : B) (k : Nat) (r : Ref) : (b.putCondEntry k r).continues = b.continues := rfl
@[simp] theorem putCondEntry_raises (b : B) (k : Nat) (r : Ref) : (b.putCondEntry k r).raises = b.raises := rfl
@[simp] theorem putCondEntry_condLeaves (b : B) (k : Nat) (r : Ref) : (b.putCondEntry k r).condLeaves = b.condLeaves := rfl
@[simp] theorem putCondEntry_roots (b : B) (k : Nat) (r : Ref) : (b.putCondEntry k r).roots = b.roots := rfl
@[simp] theorem putCondEntry_err (b : B) (k : Nat) (r : Ref) : (b.putCondEntry k r).err = b.err := rfl
@[simp] theorem delCondKeys_head (b : B) (k : Nat) : (b.delCondKeys k).head = b.head := rfl
@[simp] theorem delCondKeys_errors (b : B) (k : Nat) : (b.delCondKeys k).errors = b.errors := rfl
@[simp] theorem delCondKeys_nodes (b : B) (k : Nat) : (b.delCondKeys k).nodes = b.nodes := rfl
@[simp] theorem delCondKeys_heap (b : B) (k : Nat) : (b.delCondKeys k).heap = b.heap := rfl
@[simp] theorem delCondKeys_leaves (b : B) (k : Nat) : (b.delCondKeys k).leaves = b.leaves := rfl
@[simp] theorem delCondKeys_activeStmts (b : B) (k : Nat) : (b.delCondKeys k).activeStmts = b.activeStmts := rfl
@[simp] theorem delCondKeys_owners (b : B) (k : Nat) : (b.delCondKeys k).owners = b.owners := rfl
@[simp] theorem delCondKeys_edges (b : B) (k : Nat) : (b.delCondKeys k).edges = b.edges := rfl
@[simp] theorem delCondKeys_finallySections (b : B) (k : Nat) : (b.delCondKeys k).finallySections = b.finallySections := rfl
@[simp] theorem delCondKeys_finallySub (b : B) (k : Nat) : (b.delCondKeys k).finallySub = b.finallySub := rfl
@[simp] theorem delCondKeys_finallyDirect (b : B) (k : Nat) : (b.delCondKeys k).finallyDirect = b.finallyDirect := rfl
@[simp] theorem delCondKeys_pendingFinally (b : B) (k : Nat) : (b.delCondKeys k).pendingFinally = b.pendingFinally := rfl
@[simp] theorem delCondKeys_exits (b : B) (k : Nat) : (b.delCondKeys k).exits = b.exits := rfl
@[simp] theorem delCondKeys_sectionEntry (b : B) (k : Nat) : (b.delCondKeys k).sectionEntry = b.sectionEntry := rfl
@[simp] theorem delCondKeys_continues (b : B) (k : Nat) : (b.delCondKeys k).continues = b.continues := rfl
@[simp] theorem delCondKeys_raises (b : B) (k : Nat) : (b.delCondKeys k).raises = b.raises := rfl
@[simp] theorem delCondKeys_roots (b : B) (k : Nat) : (b.delCondKeys k).roots = b.roots := rfl
@[simp] theorem delCondKeys_err (b : B) (k : Nat) : (b.delCondKeys k).err = b.err := rfl
@[simp] theorem putFinallySections_head (b : B) (n : NodeId) (gs : List Nat) : (b.putFinallySections n gs).head = b.head := rfl
@[simp] theorem putFinallySections_errors (b : B) (n : NodeId) (gs : List Nat) : (b.putFinallySections n gs).errors = b.errors := rfl
@[simp] theorem putFinallySections_nodes (b : B) (n : NodeId) (gs : List Nat) : (b.putFinallySections n gs).nodes = b.nodes := rfl
@[simp] theorem putFinallySections_heap (b : B) (n : NodeId) (gs : List Nat) : (b.putFinallySections n gs).heap = b.heap := rfl
@[simp] theorem putFinallySections_leaves (b : B) (n : NodeId) (gs : List Nat) : (b.putFinallySections n gs).leaves = b.leaves := rfl
@[simp] theorem putFinallySections_activeStmts (b : B) (n : NodeId) (gs : List Nat) : (b.putFinallySections n gs).activeStmts = b.activeStmts := rfl
@[simp] theorem putFinallySections_owners (b : B) (n : NodeId) (gs : List Nat) : (b.putFinallySections n gs).owners = b.owners := rfl
@[simp] theorem putFinallySections_edges (b : B) (n : NodeId) (gs : List Nat) : (b.putFinallySections n gs).edges = b.edges := rfl
@[simp] theorem putFinallySections_finallySub (b : B) (n : NodeId) (gs : List Nat) : (b.putFinallySections n gs).finallySub = b.finallySub := rfl
@[simp] theorem putFinallySections_finallyDirect (b : B) (n : NodeId) (gs : List Nat) : (b.putFinallySections n gs).finallyDirect = b.finallyDirect := rfl
@[simp] theorem putFinallySections_pendingFinally (b : B) (n : NodeId) (gs : List Nat) : (b.putFinallySections n gs).pendingFinally = b.pendingFinally := rfl
@[simp] theorem putFinallySections_exits (b : B) (n : NodeId) (gs : List Nat) : (b.putFinallySections n gs).exits = b.exits := rfl
@[simp] theorem putFinallySections_sectionEntry (b : B) (n : NodeId) (gs : List Nat) : (b.putFinallySections n gs).sectionEntry = b.sectionEntry := rfl
@[simp] theorem putFinallySections_continues (b : B) (n : NodeId) (gs : List Nat) : (b.putFinallySections n gs).continues = b.continues := rfl
@[simp] theorem putFinallySections_raises (b : B) (n : NodeId) (gs : List Nat) : (b.putFinallySections n gs).raises = b.raises := rfl
@[simp] theorem putFinallySections_condEntry (b : B) (n : NodeId) (gs : List Nat) : (b.putFinallySections n gs).condEntry = b.condEntry := rfl
@[simp] theorem putFinallySections_condLeaves (b : B) (n : NodeId) (gs : List Nat) : (b.putFinallySections n gs).condLeaves = b.condLeaves := rfl
@[simp] theorem putFinallySections_roots (b : B) (n : NodeId) (gs : List Nat) : (b.putFinallySections n gs).roots = b.roots := rfl
@[simp] theorem putFinallySections_err (b : B) (n : NodeId) (gs : List Nat) : (b.putFinallySections n gs).err = b.err := rfl
@[simp] theorem delFinallySections_head (b : B) (n : NodeId) : (b.delFinallySections n).head = b.head := rfl
@[simp] theorem delFinallySections_errors (b : B) (n : NodeId) : (b.delFinallySections n).errors = b.errors := rfl
@[simp] theorem delFinallySections_nodes (b : B) (n : NodeId) : (b.delFinallySections n).nodes = b.nodes := rfl
@[simp] theorem delFinallySections_heap (b : B) (n : NodeId) : (b.delFinallySections n).heap = b.heap := rfl
@[simp] theorem delFinallySections_leaves (b : B) (n : NodeId) : (b.delFinallySections n).leaves = b.leaves := rfl
@[simp] theorem delFinallySections_activeStmts (b : B) (n : NodeId) : (b.delFinallySections n).activeStmts = b.activeStmts := rfl
@[simp] theorem delFinallySections_owners (b : B) (n : NodeId) : (b.delFinallySections n).owners = b.owners := rfl
@[simp] theorem delFinallySections_edges (b : B) (n : NodeId) : (b.delFinallySections n).edges = b.edges := rfl
@[simp] theorem delFinallySections_finallySub (b : B) (n : NodeId) : (b.delFinallySections n).finallySub = b.finallySub := rfl
@[simp] theorem delFinallySections_finallyDirect (b : B) (n : NodeId) : (b.delFinallySections n).finallyDirect = b.finallyDirect := rfl
@[simp] theorem delFinallySections_pendingFinally (b : B) (n : NodeId) : (b.delFinallySections n).pendingFinally = b.pendingFinally := rfl
@[simp] theorem delFinallySections_exits (b : B) (n : NodeId) : (b.delFinallySections n).exits = b.exits := rfl
@[simp] theorem delFinallySections_sectionEntry (b : B) (n : NodeId) : (b.delFinallySections n).sectionEntry = b.sectionEntry := rfl
@[simp] theorem delFinallySections_continues (b : B) (n : NodeId) : (b.delFinallySections n).continues = b.continues := rfl
@[simp] theorem delFinallySections_raises (b : B) (n : NodeId) : (b.delFinallySections n).raises = b.raises := rfl
@[simp] theorem delFinallySections_condEntry (b : B) (n : NodeId) : (b.delFinallySections n).condEntry = b.condEntry := rfl
@[simp] theorem delFinallySections_condLeaves (b : B) (n : NodeId) : (b.delFinallySections n).condLeaves = b.condLeaves := rfl
@[simp] theorem delFinallySections_roots (b : B) (n : NodeId) : (b.delFinallySections n).roots = b.roots := rfl
@[simp] theorem delFinallySections_err (b : B) (n : NodeId) : (b.delFinallySections n).err = b.err := rfl
@[simp] theorem setRaises_head (b : B) (rs : List (Nat × List NodeId)) : (b.setRaises rs).head = b.head := rfl
@[simp] theorem setRaises_errors (b : B) (rs : List (Nat × List NodeId)) : (b.setRaises rs).errors = b.errors := rfl
@[simp] theorem setRaises_nodes (b : B) (rs : List (Nat × List NodeId)) : (b.setRaises rs).nodes = b.nodes := rfl
@[simp] theorem setRaises_heap (b : B) (rs : List (Nat × List NodeId)) : (b.setRaises rs).heap = b.heap := rfl
@[simp] theorem setRaises_leaves (b : B) (rs : List (Nat × List NodeId)) : (b.setRaises rs).leaves = b.leaves := rfl
@[simp] theorem setRaises_activeStmts (b : B) (rs : List (Nat × List NodeId)) : (b.setRaises rs).activeStmts = b.activeStmts := rfl
@[simp] theorem setRaises_owners (b : B) (rs : List (Nat × List NodeId)) : (b.setRaises rs).owners = b.owners := rfl
@[simp] theorem setRaises_edges (b : B) (rs : List (Nat × List NodeId)) : (b.setRaises rs).edges = b.edges := rfl
@[simp] theorem setRaises_finallySections (b : B) (rs : List (Nat × List NodeId)) : (b.setRaises rs).finallySections = b.finallySections := rfl
@[simp] theorem setRaises_finallySub (b : B) (rs : List (Nat × List NodeId)) : (b.setRaises rs).finallySub = b.finallySub := rfl
@[simp] theorem setRaises_finallyDirect (b : B) (rs : List (Nat × List NodeId)) : (b.setRaises rs).finallyDirect = b.finallyDirect := rfl
@[simp] theorem setRaises_pendingFinally (b : B) (rs : List (Nat × List NodeId)) : (b.setRaises rs).pendingFinally = b.pendingFinally := rfl
@[simp] theorem setRaises_exits (b : B) (rs : List (Nat × List NodeId)) : (b.setRaises rs).exits = b.exits := rfl
@[simp] theorem setRaises_sectionEntry (b : B) (rs : List (Nat × List NodeId)) : (b.setRaises rs).sectionEntry = b.sectionEntry := rfl
@[simp] theorem setRaises_continues (b : B) (rs : List (Nat × List NodeId)) : (b.setRaises rs).continues = b.continues := rfl
@[simp] theorem setRaises_condEntry (b : B) (rs : List (Nat × List NodeId)) : (b.setRaises rs).condEntry = b.condEntry := rfl
@[simp] theorem setRaises_condLeaves (b : B) (rs : List (Nat × List NodeId)) : (b.setRaises rs).condLeaves = b.condLeaves := rfl
@[simp] theorem setRaises_roots (b : B) (rs : List (Nat × List NodeId)) : (b.setRaises rs).roots = b.roots := rfl
@[simp] theorem setRaises_err (b : B) (rs : List (Nat × List NodeId)) : (b.setRaises rs).err = b.err := rfl
@[simp] theorem setActive_head (b : B) (l : List Nat) : (b.setActive l).head = b.head := rfl
@[simp] theorem setActive_errors (b : B) (l : List Nat) : (b.setActive l).errors = b.errors := rfl
@[simp] theorem setActive_nodes (b : B) (l : List Nat) : (b.setActive l).nodes = b.nodes := rfl
@[simp] theorem setActive_heap (b : B) (l : List Nat) : (b.setActive l).heap = b.heap := rfl
@[simp] theorem setActive_leaves (b : B) (l : List Nat) : (b.setActive l).leaves = b.leaves := rfl
@[simp] theorem setActive_owners (b : B) (l : List Nat) : (b.setActive l).owners = b.owners := rfl
@[simp] theorem setActive_edges (b : B) (l : List Nat) : (b.setActive l).edges = b.edges := rfl
@[simp] theorem setActive_finallySections (b : B) (l : List Nat) : (b.setActive l).finallySections = b.finallySections := rfl
@[simp] theorem setActive_finallySub (b : B) (l : List Nat) : (b.setActive l).finallySub = b.finallySub := rfl
@[simp] theorem setActive_finallyDirect (b : B) (l : List Nat) : (b.setActive l).finallyDirect = b.finallyDirect := rfl
@[simp] theorem setActive_pendingFinally (b : B) (l : List Nat) : (b.setActive l).pendingFinally = b.pendingFinally := rfl
@[simp] theorem setActive_exits (b : B) (l : List Nat) : (b.setActive l).exits = b.exits := rfl
@[simp] theorem setActive_sectionEntry (b : B) (l : List Nat) : (b.setActive l).sectionEntry = b.sectionEntry := rfl
@[simp] theorem setActive_continues (b : B) (l : List Nat) : (b.setActive l).continues = b.continues := rfl
@[simp] theorem setActive_raises (b : B) (l : List Nat) : (b.setActive l).raises = b.raises := rfl
@[simp] theorem setActive_condEntry (b : B) (l : List Nat) : (b.setActive l).condEntry = b.condEntry := rfl
@[simp] theorem setActive_condLeaves (b : B) (l : List Nat) : (b.setActive l).condLeaves = b.condLeaves := rfl
@[simp] theorem setActive_roots (b : B) (l : List Nat) : (b.setActive l).roots = b.roots := rfl
@[simp] theorem setActive_err (b : B) (l : List Nat) : (b.setActive l).err = b.err := rfl
@[simp] theorem pushError_head (b : B) (n : NodeId) : (b.pushError n).head = b.head := rfl
@[simp] theorem pushError_nodes (b : B) (n : NodeId) : (b.pushError n).nodes = b.nodes := rfl
@[simp] theorem pushError_heap (b : B) (n : NodeId) : (b.pushError n).heap = b.heap := rfl
@[simp] theorem pushError_leaves (b : B) (n : NodeId) : (b.pushError n).leaves = b.leaves := rfl
@[simp] theorem pushError_activeStmts (b : B) (n : NodeId) : (b.pushError n).activeStmts = b.activeStmts := rfl
@[simp] theorem pushError_owners (b : B) (n : NodeId) : (b.pushError n).owners = b.owners := rfl
@[simp] theorem pushError_edges (b : B) (n : NodeId) : (b.pushError n).edges = b.edges := rfl
@[simp] theorem pushError_finallySections (b : B) (n : NodeId) : (b.pushError n).finallySections = b.finallySections := rfl
@[simp] theorem pushError_finallySub (b : B) (n : NodeId) : (b.pushError n).finallySub = b.finallySub := rfl
@[simp] theorem pushError_finallyDirect (b : B) (n : NodeId) : (b.pushError n).finallyDirect = b.finallyDirect := rfl
@[simp] theorem pushError_pendingFinally (b : B) (n : NodeId) : (b.pushError n).pendingFinally = b.pendingFinally := rfl
@[simp] theorem pushError_exits (b : B) (n : NodeId) : (b.pushError n).exits = b.exits := rfl
@[simp] theorem pushError_sectionEntry (b : B) (n : NodeId) : (b.pushError n).sectionEntry = b.sectionEntry := rfl
@[simp] theorem pushError_continues (b : B) (n : NodeId) : (b.pushError n).continues = b.continues := rfl
@[simp] theorem pushError_raises (b : B) (n : NodeId) : (b.pushError n).raises = b.raises := rfl
@[simp] theorem pushError_condEntry (b : B) (n : NodeId) : (b.pushError n).condEntry = b.condEntry := rfl
@[simp] theorem pushError_condLeaves (b : B) (n : NodeId) : (b.pushError n).condLeaves = b.condLeaves := rfl
@[simp] theorem pushError_roots (b : B) (n : NodeId) : (b.pushError n).roots = b.roots := rfl
@[simp] theorem pushError_err (b : B) (n : NodeId) : (b.pushError n).err = b.err := rfl
@[simp] theorem setLeavesRef_head (b : B) (r : Ref) : (b.setLeavesRef r).head = b.head := rfl
@[simp] theorem setLeavesRef_errors (b : B) (r : Ref) : (b.setLeavesRef r).errors = b.errors := rfl
@[simp] theorem setLeavesRef_nodes (b : B) (r : Ref) : (b.setLeavesRef r).nodes = b.nodes := rfl
@[simp] theorem setLeavesRef_heap (b : B) (r : Ref) : (b.setLeavesRef r).heap = b.heap := rfl
@[simp] theorem setLeavesRef_activeStmts (b : B) (r : Ref) : (b.setLeavesRef r).activeStmts = b.activeStmts := rfl
@[simp] theorem setLeavesRef_owners (b : B) (r : Ref) : (b.setLeavesRef r).owners = b.owners := rfl
@[simp] theorem setLeavesRef_edges (b : B) (r : Ref) : (b.setLeavesRef r).edges = b.edges := rfl
@[simp] theorem setLeavesRef_finallySections (b : B) (r : Ref) : (b.setLeavesRef r).finallySections = b.finallySections := rfl
@[simp] theorem setLeavesRef_finallySub (b : B) (r : Ref) : (b.setLeavesRef r).finallySub = b.finallySub := rfl
@[simp] theorem setLeavesRef_finallyDirect (b : B) (r : Ref) : (b.setLeavesRef r).finallyDirect = b.finallyDirect := rfl
@[simp] theorem setLeavesRef_pendingFinally (b : B) (r : Ref) : (b.setLeavesRef r).pendingFinally = b.pendingFinally := rfl
@[simp] theorem setLeavesRef_exits (b : B) (r : Ref) : (b.setLeavesRef r).exits = b.exits := rfl
@[simp] theorem setLeavesRef_sectionEntry (b : B) (r : Ref) : (b.setLeavesRef r).sectionEntry = b.sectionEntry := rfl
@[simp] theorem setLeavesRef_continues (b : B) (r : Ref) : (b.setLeavesRef r).continues = b.continues := rfl
@[simp] theorem setLeavesRef_raises (b : B) (r : Ref) : (b.setLeavesRef r).raises = b.raises := rfl
@[simp] theorem setLeavesRef_condEntry (b : B) (r : Ref) : (b.setLeavesRef r).condEntry = b.condEntry := rfl
@[simp] theorem setLeavesRef_condLeaves (b : B) (r : Ref) : (b.setLeavesRef r).condLeaves = b.condLeaves := rfl
@[simp] theorem setLeavesRef_roots (b : B) (r : Ref) : (b.setLeavesRef r).roots = b.roots := rfl
@[simp] theorem setLeavesRef_err (b : B) (r : Ref) : (b.setLeavesRef r).err = b.err := rfl
@[simp] theorem setLeavesFresh_head (b : B) (s : List NodeId) : (b.setLeavesFresh s).head = b.head := rfl
@[simp] theorem setLeavesFresh_errors (b : B) (s : List NodeId) : (b.setLeavesFresh s).errors = b.errors := rfl
@[simp] theorem setLeavesFresh_nodes (b : B) (s : List NodeId) : (b.setLeavesFresh s).nodes = b.nodes := rfl
@[simp] theorem setLeavesFresh_activeStmts (b : B) (s : List NodeId) : (b.setLeavesFresh s).activeStmts = b.activeStmts := rfl
@[simp] theorem setLeavesFresh_owners (b : B) (s : List NodeId) : (b.setLeavesFresh s).owners = b.owners := rfl
@[simp] theorem setLeavesFresh_edges (b : B) (s : List NodeId) : (b.setLeavesFresh s).edges = b.edges := rfl
@[simp] theorem setLeavesFresh_finallySections (b : B) (s : List NodeId) : (b.setLeavesFresh s).finallySections = b.finallySections := rfl
@[simp] theorem setLeavesFresh_finallySub (b : B) (s : List NodeId) : (b.setLeavesFresh s).finallySub = b.finallySub := rfl
@[simp] theorem setLeavesFresh_finallyDirect (b : B) (s : List NodeId) : (b.setLeavesFresh s).finallyDirect = b.finallyDirect := rfl
@[simp] theorem setLeavesFresh_pendingFinally (b : B) (s : List NodeId) : (b.setLeavesFresh s).pendingFinally = b.pendingFinally := rfl
@[simp] theorem setLeavesFresh_exits (b : B) (s : List NodeId) : (b.setLeavesFresh s).exits = b.exits := rfl
@[simp] theorem setLeavesFresh_sectionEntry (b : B) (s : List NodeId) : (b.setLeavesFresh s).sectionEntry = b.sectionEntry := rfl
@[simp] theorem setLeavesFresh_continues (b : B) (s : List NodeId) : (b.setLeavesFresh s).continues = b.continues := rfl
@[simp] theorem setLeavesFresh_raises (b : B) (s : List NodeId) : (b.setLeavesFresh s).raises = b.raises := rfl
@[simp] theorem setLeavesFresh_condEntry (b : B) (s : List NodeId) : (b.setLeavesFresh s).condEntry = b.condEntry := rfl
@[simp] theorem setLeavesFresh_condLeaves (b : B) (s : List NodeId) : (b.setLeavesFresh s).condLeaves = b.condLeaves := rfl
@[simp] theorem setLeavesFresh_roots (b : B) (s : List NodeId) : (b.setLeavesFresh s).roots = b.roots := rfl
@[simp] theorem setLeavesFresh_err (b : B) (s : List NodeId) : (b.setLeavesFresh s).err = b.err := rfl
@[simp] theorem leavesUnion_head (b : B) (s : List NodeId) : (b.leavesUnion s).head = b.head := rfl
@[simp] theorem leavesUnion_errors (b : B) (s : List NodeId) : (b.leavesUnion s).errors = b.errors := rfl
@[simp] theorem leavesUnion_nodes (b : B) (s : List NodeId) : (b.leavesUnion s).nodes = b.nodes := rfl
@[simp] theorem leavesUnion_leaves (b : B) (s : List NodeId) : (b.leavesUnion s).leaves = b.leaves := rfl
@[simp] theorem leavesUnion_activeStmts (b : B) (s : List NodeId) : (b.leavesUnion s).activeStmts = b.activeStmts := rfl
@[simp] theorem leavesUnion_owners (b : B) (s : List NodeId) : (b.leavesUnion s).owners = b.owners := rfl
@[simp] theorem leavesUnion_edges (b : B) (s : List NodeId) : (b.leavesUnion s).edges = b.edges := rfl
@[simp] theorem leavesUnion_finallySections (b : B) (s : List NodeId) : (b.leavesUnion s).finallySections = b.finallySections := rfl
@[simp] theorem leavesUnion_finallySub (b : B) (s : List NodeId) : (b.leavesUnion s).finallySub = b.finallySub := rfl
@[simp] theorem leavesUnion_finallyDirect (b : B) (s : List NodeId) : (b.leavesUnion s).finallyDirect = b.finallyDirect := rfl
@[simp] theorem leavesUnion_pendingFinally (b : B) (s : List NodeId) : (b.leavesUnion s).pendingFinally = b.pendingFinally := rfl
@[simp] theorem leavesUnion_exits (b : B) (s : List NodeId) : (b.leavesUnion s).exits = b.exits := rfl
@[simp] theorem leavesUnion_sectionEntry (b : B) (s : List NodeId) : (b.leavesUnion s).sectionEntry = b.sectionEntry := rfl
@[simp] theorem leavesUnion_continues (b : B) (s : List NodeId) : (b.leavesUnion s).continues = b.continues := rfl
@[simp] theorem leavesUnion_raises (b : B) (s : List NodeId) : (b.leavesUnion s).raises = b.raises := rfl
@[simp] theorem leavesUnion_condEntry (b : B) (s : List NodeId) : (b.leavesUnion s).condEntry = b.condEntry := rfl
@[simp] theorem leavesUnion_condLeaves (b : B) (s : List NodeId) : (b.leavesUnion s).condLeaves = b.condLeaves := rfl
@[simp] theorem leavesUnion_roots (b : B) (s : List NodeId) : (b.leavesUnion s).roots = b.roots := rfl
@[simp] theorem leavesUnion_err (b : B) (s : List NodeId) : (b.leavesUnion s).err = b.err := rfl
@[simp] theorem connect_head (b : B) (first : List NodeId) (second : NodeId) : (b.connect first second).head = b.head := rfl
@[simp] theorem connect_errors (b : B) (first : List NodeId) (second : NodeId) : (b.connect first second).errors = b.errors := rfl
@[simp] theorem connect_nodes (b : B) (first : List NodeId) (second : NodeId) : (b.connect first second).nodes = b.nodes := rfl
@[simp] theorem connect_heap (b : B) (first : List NodeId) (second : NodeId) : (b.connect first second).heap = b.heap := rfl
@[simp] theorem connect_leaves (b : B) (first : List NodeId) (second : NodeId) : (b.connect first second).leaves = b.leaves := rfl
@[simp] theorem connect_activeStmts (b : B) (first : List NodeId) (second : NodeId) : (b.connect first second).activeStmts = b.activeStmts := rfl
@[simp] theorem connect_owners (b : B) (first : List NodeId) (second : NodeId) : (b.connect first second).owners = b.owners := rfl
@[simp] theorem connect_finallySections (b : B) (first : List NodeId) (second : NodeId) : (b.connect first second).finallySections = b.finallySections := rfl
@[simp] theorem connect_finallySub (b : B) (first : List NodeId) (second : NodeId) : (b.connect first second).finallySub = b.finallySub := rfl
@[simp] theorem connect_finallyDirect (b : B) (first : List NodeId) (second : NodeId) : (b.connect first second).finallyDirect = b.finallyDirect := rfl
@[simp] theorem connect_pendingFinally (b : B) (first : List NodeId) (second : NodeId) : (b.connect first second).pendingFinally = b.pendingFinally := rfl
@[simp] theorem connect_exits (b : B) (first : List NodeId) (second : NodeId) : (b.connect first second).exits = b.exits := rfl
@[simp] theorem connect_sectionEntry (b : B) (first : List NodeId) (second : NodeId) : (b.connect first second).sectionEntry = b.sectionEntry := rfl
@[simp] theorem connect_continues (b : B) (first : List NodeId) (second : NodeId) : (b.connect first second).continues = b.continues := rfl
@[simp] theorem connect_raises (b : B) (first : List NodeId) (second : NodeId) : (b.connect first second).raises = b.raises := rfl
@[simp] theorem connect_condEntry (b : B) (first : List NodeId) (second : NodeId) : (b.connect first second).condEntry = b.condEntry := rfl
@[simp] theorem connect_condLeaves (b : B) (first : List NodeId) (second : NodeId) : (b.connect first second).condLeaves = b.condLeaves := rfl
@[simp] theorem connect_roots (b : B) (first : List NodeId) (second : NodeId) : (b.connect first second).roots = b.roots := rfl
@[simp] theorem connect_err (b : B) (first : List NodeId) (second : NodeId) : (b.connect first second).err = b.err := rfl
@[simp] theorem pushNode_errors (b : B) (n : NodeId) : (b.pushNode n).errors = b.errors := rfl
@[simp] theorem pushNode_heap (b : B) (n : NodeId) : (b.pushNode n).heap = b.heap := rfl
@[simp] theorem pushNode_leaves (b : B) (n : NodeId) : (b.pushNode n).leaves = b.leaves := rfl
@[simp] theorem pushNode_activeStmts (b : B) (n : NodeId) : (b.pushNode n).activeStmts = b.activeStmts := rfl
@[simp] theorem pushNode_edges (b : B) (n : NodeId) : (b.pushNode n).edges = b.edges := rfl
@[simp] theorem pushNode_finallySections (b : B) (n : NodeId) : (b.pushNode n).finallySections = b.finallySections := rfl
@[simp] theorem pushNode_finallyDirect (b : B) (n : NodeId) : (b.pushNode n).finallyDirect = b.finallyDirect := rfl
@[simp] theorem pushNode_exits (b : B) (n : NodeId) : (b.pushNode n).exits = b.exits := rfl
@[simp] theorem pushNode_sectionEntry (b : B) (n : NodeId) : (b.pushNode n).sectionEntry = b.sectionEntry := rfl
@[simp] theorem pushNode_continues (b : B) (n : NodeId) : (b.pushNode n).continues = b.continues := rfl
@[simp] theorem pushNode_raises (b : B) (n : NodeId) : (b.pushNode n).raises = b.raises := rfl
@[simp] theorem pushNode_condEntry (b : B) (n : NodeId) : (b.pushNode n).condEntry = b.condEntry := rfl
@[simp] theorem pushNode_condLeaves (b : B) (n : NodeId) : (b.pushNode n).condLeaves = b.condLeaves := rfl
@[simp] theorem pushNode_err (b : B) (n : NodeId) : (b.pushNode n).err = b.err := rfl
@[simp] theorem enterFinallySection_head (b : B) (i : Nat) : (b.enterFinallySection i).head = b.head := rfl
@[simp] theorem enterFinallySection_errors (b : B) (i : Nat) : (b.enterFinallySection i).errors = b.errors := rfl
@[simp] theorem enterFinallySection_nodes (b : B) (i : Nat) : (b.enterFinallySection i).nodes = b.nodes := rfl
@[simp] theorem enterFinallySection_heap (b : B) (i : Nat) : (b.enterFinallySection i).heap = b.heap := rfl
@[simp] theorem enterFinallySection_leaves (b : B) (i : Nat) : (b.enterFinallySection i).leaves = b.leaves := rfl
@[simp] theorem enterFinallySection_activeStmts (b : B) (i : Nat) : (b.enterFinallySection i).activeStmts = b.activeStmts := rfl
@[simp] theorem enterFinallySection_owners (b : B) (i : Nat) : (b.enterFinallySection i).owners = b.owners := rfl
@[simp] theorem enterFinallySection_edges (b : B) (i : Nat) : (b.enterFinallySection i).edges = b.edges := rfl
@[simp] theorem enterFinallySection_finallySections (b : B) (i : Nat) : (b.enterFinallySection i).finallySections = b.finallySections := rfl
@[simp] theorem enterFinallySection_exits (b : B) (i : Nat) : (b.enterFinallySection i).exits = b.exits := rfl
@[simp] theorem enterFinallySection_sectionEntry (b : B) (i : Nat) : (b.enterFinallySection i).sectionEntry = b.sectionEntry := rfl
@[simp] theorem enterFinallySection_continues (b : B) (i : Nat) : (b.enterFinallySection i).continues = b.continues := rfl
@[simp] theorem enterFinallySection_raises (b : B) (i : Nat) : (b.enterFinallySection i).raises = b.raises := rfl
@[simp] theorem enterFinallySection_condEntry (b : B) (i : Nat) : (b.enterFinallySection i).condEntry = b.condEntry := rfl
@[simp] theorem enterFinallySection_condLeaves (b : B) (i : Nat) : (b.enterFinallySection i).condLeaves = b.condLeaves := rfl
@[simp] theorem enterFinallySection_roots (b : B) (i : Nat) : (b.enterFinallySection i).roots = b.roots := rfl
@[simp] theorem enterFinallySection_err (b : B) (i : Nat) : (b.enterFinallySection i).err = b.err := rfl
@[simp] theorem closeFinally_head (b : B) (i : Nat) (beg : Option NodeId) : (b.closeFinally i beg).head = b.head := rfl
@[simp] theorem closeFinally_errors (b : B) (i : Nat) (beg : Option NodeId) : (b.closeFinally i beg).errors = b.errors := rfl
@[simp] theorem closeFinally_nodes (b : B) (i : Nat) (beg : Option NodeId) : (b.closeFinally i beg).nodes = b.nodes := rfl
@[simp] theorem closeFinally_heap (b : B) (i : Nat) (beg : Option NodeId) : (b.closeFinally i beg).heap = b.heap := rfl
@[simp] theorem closeFinally_leaves (b : B) (i : Nat) (beg : Option NodeId) : (b.closeFinally i beg).leaves = b.leaves := rfl
@[simp] theorem closeFinally_activeStmts (b : B) (i : Nat) (beg : Option NodeId) : (b.closeFinally i beg).activeStmts = b.activeStmts := rfl
@[simp] theorem closeFinally_owners (b : B) (i : Nat) (beg : Option NodeId) : (b.closeFinally i beg).owners = b.owners := rfl
@[simp] theorem closeFinally_edges (b : B) (i : Nat) (beg : Option NodeId) : (b.closeFinally i beg).edges = b.edges := rfl
@[simp] theorem closeFinally_finallySections (b : B) (i : Nat) (beg : Option NodeId) : (b.closeFinally i beg).finallySections = b.finallySections := rfl
@[simp] theorem closeFinally_pendingFinally (b : B) (i : Nat) (beg : Option NodeId) : (b.closeFinally i beg).pendingFinally = b.pendingFinally := rfl
@[simp] theorem closeFinally_exits (b : B) (i : Nat) (beg : Option NodeId) : (b.closeFinally i beg).exits = b.exits := rfl
@[simp] theorem closeFinally_sectionEntry (b : B) (i : Nat) (beg : Option NodeId) : (b.closeFinally i beg).sectionEntry = b.sectionEntry := rfl
@[simp] theorem closeFinally_continues (b : B) (i : Nat) (beg : Option NodeId) : (b.closeFinally i beg).continues = b.continues := rfl
@[simp] theorem closeFinally_raises (b : B) (i : Nat) (beg : Option NodeId) : (b.closeFinally i beg).raises = b.raises := rfl
@[simp] theorem closeFinally_condEntry (b : B) (i : Nat) (beg : Option NodeId) : (b.closeFinally i beg).condEntry = b.condEntry := rfl
@[simp] theorem closeFinally_condLeaves (b : B) (i : Nat) (beg : Option NodeId) : (b.closeFinally i beg).condLeaves = b.condLeaves := rfl
@[simp] theorem closeFinally_roots (b : B) (i : Nat) (beg : Option NodeId) : (b.closeFinally i beg).roots = b.roots := rfl
@[simp] theorem closeFinally_err (b : B) (i : Nat) (beg : Option NodeId) : (b.closeFinally i beg).err = b.err := rfl
@[simp] theorem addNewNode_errors (b : B) (n : NodeId) : (b.addNewNode n).errors = b.errors := by simp [addNewNode]
@[simp] theorem addNewNode_heap (b : B) (n : NodeId) : (b.addNewNode n).heap = b.heap := by simp [addNewNode]
@[simp] theorem addNewNode_leaves (b : B) (n : NodeId) : (b.addNewNode n).leaves = b.leaves := by simp [addNewNode]
@[simp] theorem addNewNode_activeStmts (b : B) (n : NodeId) : (b.addNewNode n).activeStmts = b.activeStmts := by simp [addNewNode]
@[simp] theorem addNewNode_finallySections (b : B) (n : NodeId) : (b.addNewNode n).finallySections = b.finallySections := by simp [addNewNode]
@[simp] theorem addNewNode_finallyDirect (b : B) (n : NodeId) : (b.addNewNode n).finallyDirect = b.finallyDirect := by simp [addNewNode]
@[simp] theorem addNewNode_exits (b : B) (n : NodeId) : (b.addNewNode n).exits = b.exits := by simp [addNewNode]
@[simp] theorem addNewNode_sectionEntry (b : B) (n : NodeId) : (b.addNewNode n).sectionEntry = b.sectionEntry := by simp [addNewNode]
@[simp] theorem addNewNode_continues (b : B) (n : NodeId) : (b.addNewNode n).continues = b.continues := by simp [addNewNode]
@[simp] theorem addNewNode_raises (b : B) (n : NodeId) : (b.addNewNode n).raises = b.raises := by simp [addNewNode]
@[simp] theorem addNewNode_condEntry (b : B) (n : NodeId) : (b.addNewNode n).condEntry = b.condEntry := by simp [addNewNode]
@[simp] theorem addNewNode_condLeaves (b : B) (n : NodeId) : (b.addNewNode n).condLeaves = b.condLeaves := by simp [addNewNode]
@[simp] theorem addOrdinaryNode_errors (b : B) (n : NodeId) : (b.addOrdinaryNode n).errors = b.errors := by simp [addOrdinaryNode]
@[simp] theorem addOrdinaryNode_activeStmts (b : B) (n : NodeId) : (b.addOrdinaryNode n).activeStmts = b.activeStmts := by simp [addOrdinaryNode]
@[simp] theorem addOrdinaryNode_finallySections (b : B) (n : NodeId) : (b.addOrdinaryNode n).finallySections = b.finallySections := by simp [addOrdinaryNode]
@[simp] theorem addOrdinaryNode_finallyDirect (b : B) (n : NodeId) : (b.addOrdinaryNode n).finallyDirect = b.finallyDirect := by simp [addOrdinaryNode]
@[simp] theorem addOrdinaryNode_exits (b : B) (n : NodeId) : (b.addOrdinaryNode n).exits = b.exits := by simp [addOrdinaryNode]
@[simp] theorem addOrdinaryNode_sectionEntry (b : B) (n : NodeId) : (b.addOrdinaryNode n).sectionEntry = b.sectionEntry := by simp [addOrdinaryNode]
@[simp] theorem addOrdinaryNode_continues (b : B) (n : NodeId) : (b.addOrdinaryNode n).continues = b.continues := by simp [addOrdinaryNode]
@[simp] theorem addOrdinaryNode_raises (b : B) (n : NodeId) : (b.addOrdinaryNode n).raises = b.raises := by simp [addOrdinaryNode]
@[simp] theorem addOrdinaryNode_condEntry (b : B) (n : NodeId) : (b.addOrdinaryNode n).condEntry = b.condEntry := by simp [addOrdinaryNode]
@[simp] theorem addOrdinaryNode_condLeaves (b : B) (n : NodeId) : (b.addOrdinaryNode n).condLeaves = b.condLeaves := by simp [addOrdinaryNode]
@[simp] theorem addJumpNode_errors (b : B) (n : NodeId) (gs : List Nat) : (b.addJumpNode n gs).errors = b.errors := by simp [addJumpNode]
@[simp] theorem addJumpNode_activeStmts (b : B) (n : NodeId) (gs : List Nat) : (b.addJumpNode n gs).activeStmts = b.activeStmts := by simp [addJumpNode]
@[simp] theorem addJumpNode_finallyDirect (b : B) (n : NodeId) (gs : List Nat) : (b.addJumpNode n gs).finallyDirect = b.finallyDirect := by simp [addJumpNode]
@[simp] theorem addJumpNode_exits (b : B) (n : NodeId) (gs : List Nat) : (b.addJumpNode n gs).exits = b.exits := by simp [addJumpNode]
@[simp] theorem addJumpNode_sectionEntry (b : B) (n : NodeId) (gs : List Nat) : (b.addJumpNode n gs).sectionEntry = b.sectionEntry := by simp [addJumpNode]
@[simp] theorem addJumpNode_continues (b : B) (n : NodeId) (gs : List Nat) : (b.addJumpNode n gs).continues = b.continues := by simp [addJumpNode]
@[simp] theorem addJumpNode_raises (b : B) (n : NodeId) (gs : List Nat) : (b.addJumpNode n gs).raises = b.raises := by simp [addJumpNode]
@[simp] theorem addJumpNode_condEntry (b : B) (n : NodeId) (gs : List Nat) : (b.addJumpNode n gs).condEntry = b.condEntry := by simp [addJumpNode]
@[simp] theorem addJumpNode_condLeaves (b : B) (n : NodeId) (gs : List Nat) : (b.addJumpNode n gs).condLeaves = b.condLeaves := by simp [addJumpNode]
@[simp] theorem beginStatement_head (b : B) (i : Nat) : (b.beginStatement i).head = b.head := by simp [beginStatement]
@[simp] theorem beginStatement_errors (b : B) (i : Nat) : (b.beginStatement i).errors = b.errors := by simp [beginStatement]
@[simp] theorem beginStatement_nodes (b : B) (i : Nat) : (b.beginStatement i).nodes = b.nodes := by simp [beginStatement]
@[simp] theorem beginStatement_heap (b : B) (i : Nat) : (b.beginStatement i).heap = b.heap := by simp [beginStatement]
@[simp] theorem beginStatement_leaves (b : B) (i : Nat) : (b.beginStatement i).leaves = b.leaves := by simp [beginStatement]
@[simp] theorem beginStatement_owners (b : B) (i : Nat) : (b.beginStatement i).owners = b.owners := by simp [beginStatement]
@[simp] theorem beginStatement_edges (b : B) (i : Nat) : (b.beginStatement i).edges = b.edges := by simp [beginStatement]
@[simp] theorem beginStatement_finallySections (b : B) (i : Nat) : (b.beginStatement i).finallySections = b.finallySections := by simp [beginStatement]
@[simp] theorem beginStatement_finallySub (b : B) (i : Nat) : (b.beginStatement i).finallySub = b.finallySub := by simp [beginStatement]
@[simp] theorem beginStatement_finallyDirect (b : B) (i : Nat) : (b.beginStatement i).finallyDirect = b.finallyDirect := by simp [beginStatement]
@[simp] theorem beginStatement_pendingFinally (b : B) (i : Nat) : (b.beginStatement i).pendingFinally = b.pendingFinally := by simp [beginStatement]
@[simp] theorem beginStatement_exits (b : B) (i : Nat) : (b.beginStatement i).exits = b.exits := by simp [beginStatement]
@[simp] theorem beginStatement_sectionEntry (b : B) (i : Nat) : (b.beginStatement i).sectionEntry = b.sectionEntry := by simp [beginStatement]
@[simp] theorem beginStatement_continues (b : B) (i : Nat) : (b.beginStatement i).continues = b.continues := by simp [beginStatement]
@[simp] theorem beginStatement_raises (b : B) (i : Nat) : (b.beginStatement i).raises = b.raises := by simp [beginStatement]
@[simp] theorem beginStatement_condEntry (b : B) (i : Nat) : (b.beginStatement i).condEntry = b.condEntry := by simp [beginStatement]
@[simp] theorem beginStatement_condLeaves (b : B) (i : Nat) : (b.beginStatement i).condLeaves = b.condLeaves := by simp [beginStatement]
@[simp] theorem beginStatement_roots (b : B) (i : Nat) : (b.beginStatement i).roots = b.roots := by simp [beginStatement]
@[simp] theorem beginStatement_err (b : B) (i : Nat) : (b.beginStatement i).err = b.err := by simp [beginStatement]
@[simp] theorem endStatement_head (b : B) (i : Nat) : (b.endStatement i).head = b.head := by simp [endStatement]
@[simp] theorem endStatement_errors (b : B) (i : Nat) : (b.endStatement i).errors = b.errors := by simp [endStatement]
@[simp] theorem endStatement_nodes (b : B) (i : Nat) : (b.endStatement i).nodes = b.nodes := by simp [endStatement]
@[simp] theorem endStatement_heap (b : B) (i : Nat) : (b.endStatement i).heap = b.heap := by simp [endStatement]
@[simp] theorem endStatement_leaves (b : B) (i : Nat) : (b.endStatement i).leaves = b.leaves := by simp [endStatement]
@[simp] theorem endStatement_owners (b : B) (i : Nat) : (b.endStatement i).owners = b.owners := by simp [endStatement]
@[simp] theorem endStatement_edges (b : B) (i : Nat) : (b.endStatement i).edges = b.edges := by simp [endStatement]
@[simp] theorem endStatement_finallySections (b : B) (i : Nat) : (b.endStatement i).finallySections = b.finallySections := by simp [endStatement]
@[simp] theorem endStatement_finallySub (b : B) (i : Nat) : (b.endStatement i).finallySub = b.finallySub := by simp [endStatement]
@[simp] theorem endStatement_finallyDirect (b : B) (i : Nat) : (b.endStatement i).finallyDirect = b.finallyDirect := by simp [endStatement]
@[simp] theorem endStatement_pendingFinally (b : B) (i : Nat) : (b.endStatement i).pendingFinally = b.pendingFinally := by simp [endStatement]
@[simp] theorem endStatement_exits (b : B) (i : Nat) : (b.endStatement i).exits = b.exits := by simp [endStatement]
@[simp] theorem endStatement_sectionEntry (b : B) (i : Nat) : (b.endStatement i).sectionEntry = b.sectionEntry := by simp [endStatement]
@[simp] theorem endStatement_continues (b : B) (i : Nat) : (b.endStatement i).continues = b.continues := by simp [endStatement]
@[simp] theorem endStatement_raises (b : B) (i : Nat) : (b.endStatement i).raises = b.raises := by simp [endStatement]
@[simp] theorem endStatement_condEntry (b : B) (i : Nat) : (b.endStatement i).condEntry = b.condEntry := by simp [endStatement]
@[simp] theorem endStatement_condLeaves (b : B) (i : Nat) : (b.endStatement i).condLeaves = b.condLeaves := by simp [endStatement]
@[simp] theorem endStatement_roots (b : B) (i : Nat) : (b.endStatement i).roots = b.roots := by simp [endStatement]

end Malt.Cfg.B
