import MaltModel.Proofs.C05Paths3T
/-!
# C05, Lemma B and C with `finally`: the induction over statements and the whole function
-/
namespace Malt.Cfg
open Malt.Py

/-! ### handlers without escaping jumps have no pending jump outcome -/

/-- no `return`, and (outside a loop of this piece of code) no `break`/`continue` outcome -/
def NoEsc (il : Bool) (R : Flow) : Prop := R.ret = [] ∧ (il = false → R.brk = [] ∧ R.cont = [])

theorem noEsc_empty (il : Bool) (n : List Nat) (r : List (Nat × Nat)) : NoEsc il { req := r, normal := n } :=
  ⟨rfl, fun _ => ⟨rfl, rfl⟩⟩

theorem noEsc_seq {il : Bool} {R1 R2 : Flow} (h1 : NoEsc il R1) (h2 : NoEsc il R2) : NoEsc il (R1.seq R2) :=
  ⟨by simp [Flow.seq, h1.1, h2.1], fun h => by simp [Flow.seq, (h1.2 h).1, (h1.2 h).2, (h2.2 h).1, (h2.2 h).2]⟩

theorem noEsc_alt {il : Bool} {R1 R2 : Flow} (h1 : NoEsc il R1) (h2 : NoEsc il R2) : NoEsc il (R1.alt R2) :=
  ⟨by simp [Flow.alt, h1.1, h2.1], fun h => by simp [Flow.alt, (h1.2 h).1, (h1.2 h).2, (h2.2 h).1, (h2.2 h).2]⟩

theorem flowBlock_nil_normal (ss : List Stmt) : (flowBlock ss []).normal = [] := by
  cases ss <;> simp [flowBlock]

mutual
theorem flowStmt_noesc : ∀ (s : Stmt) (il : Bool) (cur : List Nat), stmtEscapes il s = false → NoEsc il (flowStmt s cur)
  | .ret i v, il, cur, h => by simp [stmtEscapes] at h
  | .break_ i, il, cur, h => by
    simp only [stmtEscapes, Bool.not_eq_false'] at h
    subst h
    exact ⟨by simp [flowStmt], fun h => by cases h⟩
  | .continue_ i, il, cur, h => by
    simp only [stmtEscapes, Bool.not_eq_false'] at h
    subst h
    exact ⟨by simp [flowStmt], fun h => by cases h⟩
  | .if_ i test body orelse, il, cur, h => by
    simp only [stmtEscapes, Bool.or_eq_false_iff] at h
    simp only [flowStmt]
    exact noEsc_seq (noEsc_empty il [] _) (noEsc_alt (flowBlock_noesc body il _ h.1) (flowBlock_noesc orelse il _ h.2))
  | .while_ i test body orelse, il, cur, h => by
    simp only [stmtEscapes, Bool.or_eq_false_iff] at h
    have hb := flowBlock_noesc body true (emit [test.id] []).2 h.1
    have ho := flowBlock_noesc orelse il [test.id] h.2
    simp only [flowStmt]
    refine noEsc_seq (noEsc_empty il [] _) ⟨?_, fun hil => ⟨(ho.2 hil).1, (ho.2 hil).2⟩⟩
    simp [hb.1, ho.1]
  | .for_ i target iter body orelse extra isAsync, il, cur, h => by
    simp only [stmtEscapes, Bool.or_eq_false_iff] at h
    cases isAsync with
    | true => simp only [flowStmt]; exact noEsc_empty il cur []
    | false =>
      have hb := fun c => flowBlock_noesc body true c h.1
      have ho := flowBlock_noesc orelse il [iter.id] h.2
      simp only [flowStmt]
      refine noEsc_seq (noEsc_empty il [] _) ⟨?_, fun hil => ⟨(ho.2 hil).1, (ho.2 hil).2⟩⟩
      simp [(hb _).1, ho.1]
  | .with_ i items body isAsync, il, cur, h => by
    simp only [stmtEscapes] at h
    cases isAsync with
    | true => simp only [flowStmt]; exact noEsc_empty il cur []
    | false =>
      simp only [flowStmt]
      exact noEsc_seq (noEsc_empty il [] _) (flowBlock_noesc body il _ h)
  | .try_ i body handlers orelse final, il, cur, h => by
    simp only [stmtEscapes, Bool.or_eq_false_iff] at h
    obtain ⟨⟨⟨hb, hh⟩, ho⟩, hf⟩ := h
    have h1 := flowBlock_noesc body il cur hb
    have h2 := flowBlock_noesc orelse il (flowBlock body cur).normal ho
    have h3 := flowHandlers_noesc handlers il (flowBlock body cur).raise hh
    have hF := fun c => flowBlock_noesc final il c hf
    simp only [flowStmt]
    split
    · exact ⟨by simp [h1.1, h2.1, h3.1], fun hil => by simp [(h1.2 hil).1, (h1.2 hil).2, (h2.2 hil).1, (h2.2 hil).2, (h3.2 hil).1, (h3.2 hil).2]⟩
    · refine ⟨?_, fun hil => ⟨?_, ?_⟩⟩
      · simp [Flow.alt, Flow.resumeInto, h1.1, h2.1, h3.1, (hF _).1, flowBlock_nil_normal]
      · simp [Flow.alt, Flow.resumeInto, (h1.2 hil).1, (h2.2 hil).1, (h3.2 hil).1, ((hF _).2 hil).1, flowBlock_nil_normal]
      · simp [Flow.alt, Flow.resumeInto, (h1.2 hil).2, (h2.2 hil).2, (h3.2 hil).2, ((hF _).2 hil).2, flowBlock_nil_normal]
  | .functionDef i name args body decs rets isAsync, il, cur, _ => by
    cases isAsync <;> simp only [flowStmt] <;> exact noEsc_empty il _ _
  | .classDef i name bases kws body decs, il, cur, _ => by simp only [flowStmt]; exact noEsc_empty il _ _
  | .handler i ty nm hb, il, cur, _ => by simp only [flowStmt]; exact noEsc_empty il _ _
  | .other i k es bl, il, cur, _ => by simp only [flowStmt]; exact noEsc_empty il _ _
  | .raise i e c, il, cur, _ => by simp only [flowStmt]; exact ⟨rfl, fun _ => ⟨rfl, rfl⟩⟩
  | .delete i ts, il, cur, _ => by simp only [flowStmt]; exact noEsc_empty il _ _
  | .assign i ts v, il, cur, _ => by simp only [flowStmt]; exact noEsc_empty il _ _
  | .augAssign i t op v, il, cur, _ => by simp only [flowStmt]; exact noEsc_empty il _ _
  | .annAssign i t an v sm, il, cur, _ => by simp only [flowStmt]; exact noEsc_empty il _ _
  | .assert_ i t m, il, cur, _ => by simp only [flowStmt]; exact noEsc_empty il _ _
  | .import_ i ns, il, cur, _ => by simp only [flowStmt]; exact noEsc_empty il _ _
  | .importFrom i m ns lv, il, cur, _ => by simp only [flowStmt]; exact noEsc_empty il _ _
  | .global i ns, il, cur, _ => by simp only [flowStmt]; exact noEsc_empty il _ _
  | .nonlocal i ns, il, cur, _ => by simp only [flowStmt]; exact noEsc_empty il _ _
  | .expr i v, il, cur, _ => by simp only [flowStmt]; exact noEsc_empty il _ _
  | .pass i, il, cur, _ => by simp only [flowStmt]; exact noEsc_empty il _ _

theorem flowBlock_noesc : ∀ (ss : List Stmt) (il : Bool) (cur : List Nat), escapesL il ss = false → NoEsc il (flowBlock ss cur)
  | [], il, cur, _ => by simp only [flowBlock]; exact noEsc_empty il _ _
  | s :: ss, il, cur, h => by
    simp only [escapesL, Bool.or_eq_false_iff] at h
    simp only [flowBlock]
    split
    · exact noEsc_empty il [] []
    · exact noEsc_seq (flowStmt_noesc s il cur h.1) (flowBlock_noesc ss il _ h.2)

theorem flowHandlers_noesc : ∀ (hs : List Stmt) (il : Bool) (rs : List Nat), escapesL il hs = false → NoEsc il (flowHandlers hs rs)
  | [], il, rs, _ => by simp only [flowHandlers]; exact noEsc_empty il [] []
  | .handler i ty nm hb :: hs, il, rs, h => by
    simp only [escapesL, stmtEscapes, Bool.or_eq_false_iff] at h
    simp only [flowHandlers]
    refine noEsc_alt ?_ (flowHandlers_noesc hs il rs h.2)
    split
    · exact noEsc_empty il [] []
    · exact noEsc_seq (noEsc_empty il [] _) (flowBlock_noesc hb il _ h.1)
  | .functionDef .. :: hs, il, rs, h => by
    simp only [escapesL, Bool.or_eq_false_iff] at h; simp only [flowHandlers]; exact flowHandlers_noesc hs il rs h.2
  | .classDef .. :: hs, il, rs, h => by
    simp only [escapesL, Bool.or_eq_false_iff] at h; simp only [flowHandlers]; exact flowHandlers_noesc hs il rs h.2
  | .ret .. :: hs, il, rs, h => by
    simp only [escapesL, Bool.or_eq_false_iff] at h; simp only [flowHandlers]; exact flowHandlers_noesc hs il rs h.2
  | .delete .. :: hs, il, rs, h => by
    simp only [escapesL, Bool.or_eq_false_iff] at h; simp only [flowHandlers]; exact flowHandlers_noesc hs il rs h.2
  | .assign .. :: hs, il, rs, h => by
    simp only [escapesL, Bool.or_eq_false_iff] at h; simp only [flowHandlers]; exact flowHandlers_noesc hs il rs h.2
  | .augAssign .. :: hs, il, rs, h => by
    simp only [escapesL, Bool.or_eq_false_iff] at h; simp only [flowHandlers]; exact flowHandlers_noesc hs il rs h.2
  | .annAssign .. :: hs, il, rs, h => by
    simp only [escapesL, Bool.or_eq_false_iff] at h; simp only [flowHandlers]; exact flowHandlers_noesc hs il rs h.2
  | .for_ .. :: hs, il, rs, h => by
    simp only [escapesL, Bool.or_eq_false_iff] at h; simp only [flowHandlers]; exact flowHandlers_noesc hs il rs h.2
  | .while_ .. :: hs, il, rs, h => by
    simp only [escapesL, Bool.or_eq_false_iff] at h; simp only [flowHandlers]; exact flowHandlers_noesc hs il rs h.2
  | .if_ .. :: hs, il, rs, h => by
    simp only [escapesL, Bool.or_eq_false_iff] at h; simp only [flowHandlers]; exact flowHandlers_noesc hs il rs h.2
  | .with_ .. :: hs, il, rs, h => by
    simp only [escapesL, Bool.or_eq_false_iff] at h; simp only [flowHandlers]; exact flowHandlers_noesc hs il rs h.2
  | .raise .. :: hs, il, rs, h => by
    simp only [escapesL, Bool.or_eq_false_iff] at h; simp only [flowHandlers]; exact flowHandlers_noesc hs il rs h.2
  | .try_ .. :: hs, il, rs, h => by
    simp only [escapesL, Bool.or_eq_false_iff] at h; simp only [flowHandlers]; exact flowHandlers_noesc hs il rs h.2
  | .assert_ .. :: hs, il, rs, h => by
    simp only [escapesL, Bool.or_eq_false_iff] at h; simp only [flowHandlers]; exact flowHandlers_noesc hs il rs h.2
  | .import_ .. :: hs, il, rs, h => by
    simp only [escapesL, Bool.or_eq_false_iff] at h; simp only [flowHandlers]; exact flowHandlers_noesc hs il rs h.2
  | .importFrom .. :: hs, il, rs, h => by
    simp only [escapesL, Bool.or_eq_false_iff] at h; simp only [flowHandlers]; exact flowHandlers_noesc hs il rs h.2
  | .global .. :: hs, il, rs, h => by
    simp only [escapesL, Bool.or_eq_false_iff] at h; simp only [flowHandlers]; exact flowHandlers_noesc hs il rs h.2
  | .nonlocal .. :: hs, il, rs, h => by
    simp only [escapesL, Bool.or_eq_false_iff] at h; simp only [flowHandlers]; exact flowHandlers_noesc hs il rs h.2
  | .expr .. :: hs, il, rs, h => by
    simp only [escapesL, Bool.or_eq_false_iff] at h; simp only [flowHandlers]; exact flowHandlers_noesc hs il rs h.2
  | .pass .. :: hs, il, rs, h => by
    simp only [escapesL, Bool.or_eq_false_iff] at h; simp only [flowHandlers]; exact flowHandlers_noesc hs il rs h.2
  | .break_ .. :: hs, il, rs, h => by
    simp only [escapesL, Bool.or_eq_false_iff] at h; simp only [flowHandlers]; exact flowHandlers_noesc hs il rs h.2
  | .continue_ .. :: hs, il, rs, h => by
    simp only [escapesL, Bool.or_eq_false_iff] at h; simp only [flowHandlers]; exact flowHandlers_noesc hs il rs h.2
  | .other .. :: hs, il, rs, h => by
    simp only [escapesL, Bool.or_eq_false_iff] at h; simp only [flowHandlers]; exact flowHandlers_noesc hs il rs h.2
end

/-! ### Lemma B -/

theorem PostL.toPost {σ : List Scope} {T : Nat} {b : B} {R : Flow} {em : Bool} (h : PostL σ T [] b R em) : Post σ T [] b R :=
  ⟨h.pend, h.inLeaves, h.ldj⟩

theorem PostL.toPostE {σ : List Scope} {T : Nat} {curP : List Nat} {b : B} {R : Flow} {em : Bool} (h : PostL σ T curP b R em)
    (he : em = true) : Post σ T curP b R := ⟨h.pend, h.normE he, h.ldj⟩

theorem frag3_emits : ∀ (il : Bool) (s : Stmt), frag3 il s = true → stmtEmits s = true := by
  intro il s h
  cases s <;> simp_all [frag3, stmtEmits]

theorem withItemNodes_ne_nil {items : List Expr} (h : items ≠ []) : withItemNodes items ≠ [] := by
  cases items with
  | nil => exact (h rfl).elim
  | cons e es => simp [withItemNodes]

theorem inLeaves_src {b : B} {T : Nat} {cur : List Nat} (h : InLeaves b cur) : ∀ x, x ∈ cur → Src b T [] x :=
  fun x hx => Or.inl (h x hx)

theorem nomem {α} (x : α) (h : x ∈ ([] : List α)) {P : Prop} : P := (List.not_mem_nil h).elim

/-- a simple statement: its lambdas, then its own node -/
theorem lemB_simple (σ : List Scope) (T : Nat) (curP : List Nat) (b : B) (cur lams : List Nat) (n : Nat)
    (hp : ListsDisjoint b) (hc : ∀ x, x ∈ cur → Src b T curP x) :
    Post σ T curP ((addOrdinaryNodes b lams).addOrdinaryNode n) { req := (emit cur (lams ++ [n])).1, normal := (emit cur (lams ++ [n])).2 } := by
  rw [← addOrdinaryNodes_snoc]
  exact post_emit_normal σ T curP b cur (lams ++ [n]) (by simp) hc hp

mutual
theorem lemB_stmt : ∀ (s : Stmt) (σ : List Scope) (b : B) (a : Acc) (il : Bool) (cur : List Nat) (T : Nat) (curP : List Nat),
    frag3 il s = true → OwnPre σ il → (keys3 s).Nodup → Pre σ (keys3 s) b → TOk curP T (keys3 s) →
    (∀ x, x ∈ cur → Src b T curP x) → Post σ T curP (visitStmt σ s b a).1 (flowStmt s cur)
  | .ret i v, σ, b, a, il, cur, T, curP, _, _, hnd, hp, _, hc => by
    obtain ⟨F, hF, l, hl⟩ := hp.fnOpen
    simp only [visitStmt, flowStmt]
    rw [processExit_eq σ _ i .fn false F hF]
    simp only [Bool.false_eq_true, if_false]
    obtain ⟨e1, _, e3, e4⟩ := reg_exit T curP b cur (lamsL v) i F (guardsOf .fn σ) l hc hl hp.lin hp.ldj (freshNodes_of hnd hp)
    refine ⟨⟨?_, fun x h => nomem x h, fun x h => nomem x h, ?_, fun x h => nomem x h, fun x h => nomem x h⟩, fun x h => nomem x h, e4⟩
    · intro p hp'
      exact (e1 p hp').elim Or.inl (fun h => Or.inr (Or.inr h))
    · intro x hx
      rw [(emit_snoc cur (lamsL v) i).2] at hx
      simp only [List.mem_singleton] at hx
      subst hx
      exact ⟨F, hF, e3⟩
  | .raise i e c, σ, b, a, il, cur, T, curP, _, _, hnd, hp, _, hc => by
    obtain ⟨F, hF, l, hl⟩ := hp.fnOpen
    simp only [visitStmt, flowStmt]
    rw [processExit_eq σ _ i .fn true F hF]
    simp only [if_true]
    have hlam : lamsL e ++ (lamsL c ++ [i]) = (lamsL e ++ lamsL c) ++ [i] := by simp
    rw [hlam]
    obtain ⟨e1, _, _, e4⟩ := reg_exit T curP b cur (lamsL e ++ lamsL c) i F (guardsOf .fn σ) l hc hl hp.lin hp.ldj (freshNodes_of hnd hp)
    refine ⟨⟨?_, fun x h => nomem x h, fun x h => nomem x h, fun x h => nomem x h, ?_, fun x h => nomem x h⟩, fun x h => nomem x h,
      ldj_of_eq rfl rfl e4⟩
    · intro p hp'
      rcases e1 p hp' with h | ⟨h1, h2⟩
      · exact Or.inl h
      · exact Or.inr (Or.inr ⟨h1, startedAt_of_same rfl rfl h2⟩)
    · intro x hx
      rw [(emit_snoc cur (lamsL e ++ lamsL c) i).2] at hx
      simp only [List.mem_singleton] at hx
      subst hx
      refine ⟨by simp [B.pushError], ?_⟩
      intro hd hhd
      obtain ⟨lr, hlr, hxr⟩ := raiseFold_effect x (enclosingExcept .fn σ)
        ((addOrdinaryNodes b (lamsL e ++ lamsL c)).addExitNode x F (guardsOf .fn σ)).raises hd hhd
      exact ⟨lr, hlr, hxr⟩
  | .break_ i, σ, b, a, il, cur, T, curP, hfr, ho, hnd, hp, _, hc => by
    simp only [frag3] at hfr
    obtain ⟨L, hL⟩ := ho.loop hfr
    obtain ⟨⟨l, hl⟩, _⟩ := hp.loopOpen L hL
    simp only [visitStmt, flowStmt]
    rw [processExit_eq σ _ i .loop false L hL]
    simp only [Bool.false_eq_true, if_false]
    obtain ⟨e1, _, e3, e4⟩ := reg_exit T curP b cur [] i L (guardsOf .loop σ) l hc hl hp.lin hp.ldj (freshNodes_of (l := [i]) hnd hp)
    refine ⟨⟨?_, ?_, fun x h => nomem x h, fun x h => nomem x h, fun x h => nomem x h, fun x h => nomem x h⟩, fun x h => nomem x h, e4⟩
    · intro p hp'
      exact (e1 p hp').elim Or.inl (fun h => Or.inr (Or.inr h))
    · intro x hx
      simp only [emit, List.mem_singleton] at hx
      subst hx
      exact ⟨L, hL, e3⟩
  | .continue_ i, σ, b, a, il, cur, T, curP, hfr, ho, hnd, hp, _, hc => by
    simp only [frag3] at hfr
    obtain ⟨L, hL⟩ := ho.loop hfr
    obtain ⟨_, ⟨l, hl⟩⟩ := hp.loopOpen L hL
    simp only [visitStmt, flowStmt]
    rw [processContinue_eq σ _ i L hL]
    obtain ⟨e1, _, e3, e4⟩ := reg_continue T curP b cur i L (guardsOf .loop σ) l hc hl hp.lin hp.ldj (freshNodes_of (l := [i]) hnd hp)
    refine ⟨⟨?_, fun x h => nomem x h, ?_, fun x h => nomem x h, fun x h => nomem x h, fun x h => nomem x h⟩, fun x h => nomem x h, e4⟩
    · intro p hp'
      exact (e1 p hp').elim Or.inl (fun h => Or.inr (Or.inr h))
    · intro x hx
      simp only [emit, List.mem_singleton] at hx
      subst hx
      exact ⟨L, hL, e3⟩
  | .functionDef i name args body decs rets isAsync, σ, b, a, il, cur, T, curP, hfr, _, _, hp, _, hc => by
    simp only [frag3, Bool.not_eq_true'] at hfr
    subst hfr
    simp only [visitStmt, Bool.false_eq_true, if_false, flowStmt]
    exact post_emit_normal σ T curP b cur [i] (by simp) hc hp.ldj
  | .classDef i name bases kws body decs, σ, b, a, il, cur, T, curP, _, _, _, hp, _, hc => by
    simp only [visitStmt, flowStmt]
    exact post_emit_normal σ T curP b cur [i] (by simp) hc hp.ldj
  | .with_ i items body isAsync, σ, b, a, il, cur, T, curP, hfr, ho, hnd, hp, hT, hc => by
    simp only [frag3, Bool.and_eq_true, Bool.not_eq_true', List.isEmpty_eq_false_iff] at hfr
    obtain ⟨⟨has, hfb⟩, hit⟩ := hfr
    subst has
    simp only [keys3] at hnd hp hT
    obtain ⟨_, ndb, dib⟩ := List.nodup_append.mp hnd
    simp only [visitStmt, Bool.false_eq_true, if_false, flowStmt]
    have hbe : (basicExprs σ items b a).1 = addOrdinaryNodes b (withItemNodes items) := basicExprs_eq σ items b a
    have p0 := post_emit_normal σ T curP b cur (withItemNodes items) (withItemNodes_ne_nil hit) hc hp.ldj
    rw [← hbe] at p0
    have f0 : FF (tnodes (withItemNodes items)) b (basicExprs σ items b a).1 := by
      rw [hbe]; exact ff_addOrdinaryNodes _ _ (fun n hn => mem_tnodes hn) b
    have hp1 : Pre σ (keysL3 body) (basicExprs σ items b a).1 :=
      Pre.step hp f0.f f0.x (fun k hk h => dib k h k hk rfl) p0.ldj
    have ih := (lemB_stmts body σ _ (basicExprs σ items b a).2 il _ T [] hfb ho ndb hp1 (TOk.nil _ _) (inLeaves_src p0.norm)).toPost
    have fbd := ff_visitStmts body σ (basicExprs σ items b a).1 (basicExprs σ items b a).2 il hfb ho
    have P0 : Pend σ T curP (basicExprs σ items b a).1 { req := (emit cur (withItemNodes items)).1 } :=
      ⟨p0.pend.req, fun x h => nomem x h, fun x h => nomem x h, fun x h => nomem x h, fun x h => nomem x h, fun x h => nomem x h⟩
    exact ⟨Pend.seq (keeps_tr hp1.tr fbd (hT.sub (fun k hk => List.mem_append.mpr (Or.inr hk))) _ P0) ih.pend.weaken, ih.norm, ih.ldj⟩
  | .if_ i test body orelse, σ, b, a, il, cur, T, curP, hfr, ho, hnd, hp, hT, hc => by
    simp only [frag3, Bool.and_eq_true] at hfr
    simp only [keys3] at hnd hp hT
    obtain ⟨_, hnd2⟩ := List.nodup_cons.mp hnd
    obtain ⟨_, nd3, _⟩ := List.nodup_append.mp hnd2
    obtain ⟨ndb, ndo, _⟩ := List.nodup_append.mp nd3
    simp only [visitStmt]
    exact lemB_if σ i test body orelse b a _ _ cur T curP hnd hp hT hc
      (fun b' a' => ff_visitStmts body σ b' a' il hfr.1 ho)
      (fun b' a' => ff_visitStmts orelse σ b' a' il hfr.2 ho)
      (fun b' a' cur' hp' hc' => (lemB_stmts body σ b' a' il cur' T [] hfr.1 ho ndb hp' (TOk.nil _ _) (inLeaves_src hc')).toPost)
      (fun b' a' cur' hp' hc' => (lemB_stmts orelse σ b' a' il cur' T [] hfr.2 ho ndo hp' (TOk.nil _ _) (inLeaves_src hc')).toPost)
  | .while_ i test body orelse, σ, b, a, il, cur, T, curP, hfr, ho, hnd, hp, hT, hc => by
    simp only [frag3, Bool.and_eq_true] at hfr
    simp only [keys3] at hnd hp hT
    obtain ⟨_, hnd2⟩ := List.nodup_cons.mp hnd
    obtain ⟨_, nd3, _⟩ := List.nodup_append.mp hnd2
    obtain ⟨ndb, ndo, _⟩ := List.nodup_append.mp nd3
    simp only [visitStmt]
    show Post σ T curP _ (Flow.seq { req := (emit cur test.kidLams).1 ++ cross (emit cur test.kidLams).2 test.id } (loopFlow test.id [] body orelse))
    exact lemB_loop σ i test.id test.kidLams body orelse b _ _ cur T curP hnd hp hT hc
      (fun b' a' => ff_visitStmts body _ b' a' true hfr.1 (ho.loop_scope i))
      (fun b' a' => ff_visitStmts orelse σ b' a' il hfr.2 ho)
      (fun b' a' cur' hp' hc' => (lemB_stmts body (Scope.loop i :: σ) b' a' true cur' T [] hfr.1 (ho.loop_scope i) ndb hp' (TOk.nil _ _) (inLeaves_src hc')).toPost)
      (fun b' a' cur' hp' hc' => (lemB_stmts orelse σ b' a' il cur' T [] hfr.2 ho ndo hp' (TOk.nil _ _) (inLeaves_src hc')).toPost)
  | .for_ i target iter body orelse extra isAsync, σ, b, a, il, cur, T, curP, hfr, ho, hnd, hp, hT, hc => by
    simp only [frag3, Bool.and_eq_true, Bool.not_eq_true', List.isEmpty_iff] at hfr
    obtain ⟨⟨⟨has, hex⟩, hfb⟩, hfo⟩ := hfr
    subst has; subst hex
    simp only [keys3] at hnd hp hT
    obtain ⟨_, hnd2⟩ := List.nodup_cons.mp hnd
    obtain ⟨_, nd3, _⟩ := List.nodup_append.mp hnd2
    obtain ⟨ndb, ndo, _⟩ := List.nodup_append.mp nd3
    simp only [visitStmt, Bool.false_eq_true, if_false, List.take, basicExprs]
    show Post σ T curP _ (Flow.seq { req := (emit cur iter.kidLams).1 ++ cross (emit cur iter.kidLams).2 iter.id } (loopFlow iter.id [] body orelse))
    exact lemB_loop σ i iter.id iter.kidLams body orelse b _ _ cur T curP hnd hp hT hc
      (fun b' a' => ff_visitStmts body _ b' a' true hfb (ho.loop_scope i))
      (fun b' a' => ff_visitStmts orelse σ b' a' il hfo ho)
      (fun b' a' cur' hp' hc' => (lemB_stmts body (Scope.loop i :: σ) b' a' true cur' T [] hfb (ho.loop_scope i) ndb hp' (TOk.nil _ _) (inLeaves_src hc')).toPost)
      (fun b' a' cur' hp' hc' => (lemB_stmts orelse σ b' a' il cur' T [] hfo ho ndo hp' (TOk.nil _ _) (inLeaves_src hc')).toPost)
  | .try_ i body handlers orelse final, σ, b, a, il, cur, T, curP, hfr, ho, hnd, hp, hT, hc => by
    simp only [frag3, Bool.and_eq_true] at hfr
    obtain ⟨⟨⟨⟨⟨hfb, hfh⟩, hfo⟩, hff⟩, hfin⟩, hemB⟩ := hfr
    simp only [keys3] at hnd hp hT
    obtain ⟨_, hnd0⟩ := List.nodup_cons.mp hnd
    obtain ⟨⟨_, _, nd_b, nd_h, nd_o, nd_f⟩, _⟩ := nd6 hnd0
    have kb : ∀ k, k ∈ keysL3 body → k ∈ sk i :: (elseKey i orelse ++ (repKey handlers ++ (keysL3 body ++ (keysL3 handlers ++ (keysL3 orelse ++ keysL3 final))))) :=
      fun k hk => List.mem_cons_of_mem _ (by simp [hk])
    cases final with
    | nil =>
      exact lemB_try_nofin σ i body handlers orelse b a cur il T curP hfh hnd hp hT hc
        (fun b' a' => ff_visitStmts body _ b' a' il hfb (ho.try_scope i _ _))
        (fun b' a' => ff_visitStmts orelse _ b' a' il hfo (ho.try_scope i _ _))
        (fun rep K b' a' hrep hk => ff_visitHandlers handlers σ rep K b' a' il hfh ho hrep hk)
        (fun b' a' cur' hp' hc' => (lemB_stmts body _ b' a' il cur' T curP hfb (ho.try_scope i _ _) nd_b hp' (hT.sub kb) hc').toPostE hemB)
        (fun b' a' cur' hp' hc' => (lemB_stmts orelse _ b' a' il cur' T [] hfo (ho.try_scope i _ _) nd_o hp' (TOk.nil _ _) (inLeaves_src hc')).toPost)
        (fun rep L0 rs b' a' splits h1 h3 h4 h5 h6 => lemB_handlers handlers σ rep L0 rs b' a' splits il T hfh ho nd_h h1 h3 h4 h5 h6)
    | cons f0 frest =>
      simp only [List.isEmpty_cons, Bool.false_or, Bool.and_eq_true, Bool.not_eq_true'] at hfin
      obtain ⟨hemF, hesc⟩ := hfin
      have hi_f : sk i ∉ keysL3 (f0 :: frest) := by
        intro h
        exact (List.nodup_cons.mp hnd).1 (by simp [h])
      exact lemB_try_fin σ i body handlers orelse f0 frest b a cur il T curP hfh hnd hp hT hc
        (fun b' a' => ff_visitStmts body _ b' a' il hfb (ho.try_scope i _ _))
        (fun b' a' => ff_visitStmts orelse _ b' a' il hfo (ho.try_scope i _ _))
        (fun rep K b' a' hrep hk => ff_visitHandlers handlers σ rep K b' a' il hfh ho hrep hk)
        (fun b' a' => ff_visitStmts (f0 :: frest) σ b' a' il hff ho)
        (fun b' a' => (fxe_visitStmts (f0 :: frest) σ b' a' il hff ho).2 hemF)
        (fun b' a' cur' hp' hc' => (lemB_stmts body _ b' a' il cur' T curP hfb (ho.try_scope i _ _) nd_b hp' (hT.sub kb) hc').toPostE hemB)
        (fun b' a' cur' hp' hc' => (lemB_stmts orelse _ b' a' il cur' T [] hfo (ho.try_scope i _ _) nd_o hp' (TOk.nil _ _) (inLeaves_src hc')).toPost)
        (fun rep L0 rs b' a' splits h1 h3 h4 h5 h6 => lemB_handlers handlers σ rep L0 rs b' a' splits il T hfh ho nd_h h1 h3 h4 h5 h6)
        (fun b' a' cur' cP hp' hc' => (lemB_stmts (f0 :: frest) σ b' a' il cur' i cP hff ho nd_f hp' (Or.inr hi_f) hc').toPostE hemF)
        (fun rs => by
          have h := flowHandlers_noesc handlers false rs hesc
          exact ⟨(h.2 rfl).1, (h.2 rfl).2, h.1⟩)
  | .handler .., _, _, _, _, _, _, _, hfr, _, _, _, _, _ => by simp [frag3] at hfr
  | .other .., _, _, _, _, _, _, _, hfr, _, _, _, _, _ => by simp [frag3] at hfr
  | .delete i ts, σ, b, a, il, cur, T, curP, _, _, _, hp, _, hc => by
    simp only [visitStmt, flowStmt]; exact lemB_simple σ T curP b cur _ _ hp.ldj hc
  | .assign i ts v, σ, b, a, il, cur, T, curP, _, _, _, hp, _, hc => by
    simp only [visitStmt, flowStmt]; exact lemB_simple σ T curP b cur _ _ hp.ldj hc
  | .augAssign i t op v, σ, b, a, il, cur, T, curP, _, _, _, hp, _, hc => by
    simp only [visitStmt, flowStmt]; exact lemB_simple σ T curP b cur _ _ hp.ldj hc
  | .annAssign i t an v sm, σ, b, a, il, cur, T, curP, _, _, _, hp, _, hc => by
    simp only [visitStmt, flowStmt]; exact lemB_simple σ T curP b cur _ _ hp.ldj hc
  | .assert_ i t m, σ, b, a, il, cur, T, curP, _, _, _, hp, _, hc => by
    simp only [visitStmt, flowStmt]; exact lemB_simple σ T curP b cur _ _ hp.ldj hc
  | .import_ i ns, σ, b, a, il, cur, T, curP, _, _, _, hp, _, hc => by
    simp only [visitStmt, flowStmt]; exact lemB_simple σ T curP b cur _ _ hp.ldj hc
  | .importFrom i m ns lv, σ, b, a, il, cur, T, curP, _, _, _, hp, _, hc => by
    simp only [visitStmt, flowStmt]; exact lemB_simple σ T curP b cur _ _ hp.ldj hc
  | .global i ns, σ, b, a, il, cur, T, curP, _, _, _, hp, _, hc => by
    simp only [visitStmt, flowStmt]; exact lemB_simple σ T curP b cur _ _ hp.ldj hc
  | .nonlocal i ns, σ, b, a, il, cur, T, curP, _, _, _, hp, _, hc => by
    simp only [visitStmt, flowStmt]; exact lemB_simple σ T curP b cur _ _ hp.ldj hc
  | .expr i v, σ, b, a, il, cur, T, curP, _, _, _, hp, _, hc => by
    simp only [visitStmt, flowStmt]; exact lemB_simple σ T curP b cur _ _ hp.ldj hc
  | .pass i, σ, b, a, il, cur, T, curP, _, _, _, hp, _, hc => by
    simp only [visitStmt, flowStmt]; exact lemB_simple σ T curP b cur _ _ hp.ldj hc

theorem lemB_stmts : ∀ (ss : List Stmt) (σ : List Scope) (b : B) (a : Acc) (il : Bool) (cur : List Nat) (T : Nat) (curP : List Nat),
    frag3L il ss = true → OwnPre σ il → (keysL3 ss).Nodup → Pre σ (keysL3 ss) b → TOk curP T (keysL3 ss) →
    (∀ x, x ∈ cur → Src b T curP x) → PostL σ T curP (visitStmts σ ss b a).1 (flowBlock ss cur) (blockEmits ss)
  | [], σ, b, a, il, cur, T, curP, _, _, _, hp, _, hc => by
    simp only [visitStmts, flowBlock]
    exact ⟨Pend.of_req σ T curP b [] cur (fun p h => nomem p h), hc, fun h => by simp [blockEmits] at h, hp.ldj⟩
  | s :: ss, σ, b, a, il, cur, T, curP, hfr, ho, hnd, hp, hT, hc => by
    simp only [frag3L, Bool.and_eq_true] at hfr
    simp only [keysL3] at hnd hp hT
    have hnd' := List.nodup_append.mp hnd
    have ih1 := lemB_stmt s σ b a il cur T curP hfr.1 ho hnd'.1 (hp.sub (fun k hk => List.mem_append.mpr (Or.inl hk)))
      (hT.sub (fun k hk => List.mem_append.mpr (Or.inl hk))) hc
    have f1 : FF (keys3 s) b (visitStmt σ s b a).1 := ⟨frame3_visitStmt s σ b a, (fxe_visitStmt s σ b a il hfr.1 ho).1⟩
    have hp1 : Pre σ (keysL3 ss) (visitStmt σ s b a).1 :=
      Pre.step hp f1.f f1.x (fun k hk h1 => (hnd'.2.2 k h1 k hk) rfl) ih1.ldj
    have ih2 := lemB_stmts ss σ (visitStmt σ s b a).1 (visitStmt σ s b a).2 il (flowStmt s cur).normal T [] hfr.2 ho hnd'.2.1 hp1
      (TOk.nil _ _) (inLeaves_src ih1.norm)
    have f2 := ff_visitStmts ss σ (visitStmt σ s b a).1 (visitStmt σ s b a).2 il hfr.2 ho
    simp only [visitStmts, flowBlock]
    by_cases hce : cur.isEmpty = true
    · simp only [hce, if_true]
      exact ⟨Pend.empty σ T curP _, fun x h => nomem x h, fun _ x h => nomem x h, ih2.ldj⟩
    · simp only [hce, if_false, Bool.false_eq_true]
      exact ⟨Pend.seq (keeps_tr hp1.tr f2 (hT.sub (fun k hk => List.mem_append.mpr (Or.inr hk))) _ ih1.pend) ih2.pend.weaken,
        fun x hx => Or.inl (ih2.inLeaves x hx), fun _ => ih2.inLeaves, ih2.ldj⟩

theorem lemB_handlers : ∀ (hs : List Stmt) (σ : List Scope) (rep L0 : Nat) (rs : List Nat) (b : B) (a : Acc) (splits : List Nat)
    (il : Bool) (T : Nat), frag3H il hs = true → OwnPre σ il → (keysL3 hs).Nodup →
    ck rep ∉ keysL3 hs → Pre σ (keysL3 hs) b →
    aget rep b.condLeaves = some splits →
    (aget rep b.condEntry = some L0 ∨ (aget rep b.condEntry = none ∧ b.leaves = L0 ∧ splits = [])) →
    (∀ hid, hid ∈ handlerIds hs → ∀ x, x ∈ rs → ∃ l, aget hid b.raises = some l ∧ x ∈ l) →
    HandlersOk σ rep L0 rs hs b a splits T
  | [], σ, rep, L0, rs, b, a, splits, il, T, _, _, _, _, hp, hcl, hm, _ =>
    handlers_nil σ rep L0 rs b a splits T hcl hm hp.valid hp.ldj
  | .handler hid ty nm hb :: hs, σ, rep, L0, rs, b, a, splits, il, T, hH, ho, hnd, hrep, hp, hcl, hm, hrs => by
    simp only [frag3H, Bool.and_eq_true, List.isEmpty_iff] at hH
    obtain ⟨⟨hnm, hfb⟩, hHs⟩ := hH
    subst hnm
    have hkeys : keysL3 (Stmt.handler hid ty [] hb :: hs) = (sk hid :: (tnodes (lamsL ty) ++ keysL3 hb)) ++ keysL3 hs := rfl
    rw [hkeys] at hnd hrep hp
    obtain ⟨nd1, nd_hs, d1⟩ := List.nodup_append.mp hnd
    obtain ⟨hhid, nd_in⟩ := List.nodup_cons.mp nd1
    obtain ⟨_, nd_hb, _⟩ := List.nodup_append.mp nd_in
    have hrep_hb : ck rep ∉ keysL3 hb := fun h => hrep (List.mem_append.mpr (Or.inl (List.mem_cons_of_mem _ (List.mem_append.mpr (Or.inr h)))))
    have hrep_hs : ck rep ∉ keysL3 hs := fun h => hrep (List.mem_append.mpr (Or.inr h))
    have step := handler_step σ rep L0 hid ty hb rs b a splits T hcl hm (hrs hid (List.mem_cons_self ..)) nd_in hrep_hb
      (hp.sub (fun k hk => List.mem_append.mpr (Or.inl (List.mem_cons_of_mem _ hk))))
      (fun b' a' => ff_visitStmts hb σ b' a' il hfb ho)
      (fun b' a' cur' hp' hc' => (lemB_stmts hb σ b' a' il cur' T [] hfb ho nd_hb hp' (TOk.nil _ _) (inLeaves_src hc')).toPost)
    obtain ⟨s1, ⟨splits', s2, s3, s4⟩, s5, s6⟩ := step
    -- the state before the next iteration
    have hσK : ∀ k, k ∈ scopeKeys σ → k ∉ ck rep :: sk hid :: (tnodes (lamsL ty) ++ keysL3 hb) := by
      intro k hk h
      rcases List.mem_cons.mp h with h | h
      · exact ck_not_scopeKeys σ rep (h ▸ hk)
      · exact hp.disj k hk (List.mem_append.mpr (Or.inl h))
    have hdis : ∀ k, k ∈ keysL3 hs → k ∉ ck rep :: sk hid :: (tnodes (lamsL ty) ++ keysL3 hb) := by
      intro k hk h
      rcases List.mem_cons.mp h with h | h
      · exact hrep_hs (h ▸ hk)
      · exact d1 _ h _ hk rfl
    have pre2 := (hp.sub (fun k hk => List.mem_append.mpr (Or.inr hk))).move s6.f s6.x hσK hdis s5.ldj
    have hrs2 : ∀ hid', hid' ∈ handlerIds hs → ∀ x, x ∈ rs → ∃ l, aget hid' (visitStmt σ (.handler hid ty [] hb) (b.newCondBranch rep) a).1.raises = some l ∧ x ∈ l := by
      intro hid' hh x hx
      obtain ⟨l, hl, hxl⟩ := hrs hid' (List.mem_cons_of_mem _ hh) x hx
      obtain ⟨l', hl', hsub⟩ := s6.f.raises hid' (hdis _ (sk_handlerIds_mem3 il hs hHs hid' hh)) l hl
      exact ⟨l', hl', hsub x hxl⟩
    have IH := lemB_handlers hs σ rep L0 rs _ (visitStmt σ (.handler hid ty [] hb) (b.newCondBranch rep) a).2 splits' il T
      hHs ho nd_hs hrep_hs pre2 s2 (Or.inl s1) hrs2
    obtain ⟨I1, I2, I3⟩ := IH
    -- frame from the state after this handler to the end
    have f2e : FF (ck rep :: keysL3 hs) (visitStmt σ (.handler hid ty [] hb) (b.newCondBranch rep) a).1
        (((visitHandlers σ rep hs (visitStmt σ (.handler hid ty [] hb) (b.newCondBranch rep) a).1
          (visitStmt σ (.handler hid ty [] hb) (b.newCondBranch rep) a).2).1.newCondBranch rep).exitCondSection rep) :=
      ((ff_visitHandlers hs σ rep _ _ _ il hHs ho (List.mem_cons_self ..) (fun k hk => List.mem_cons_of_mem _ hk)).trans
        (ff_newCondBranch _ _ rep (List.mem_cons_self ..))).trans (ff_exitCondSection _ _ rep (List.mem_cons_self ..))
    refine ⟨?_, I2, ?_⟩
    · show Pend σ T [] _ (flowHandlers (Stmt.handler hid ty [] hb :: hs) rs)
      simp only [flowHandlers, visitHandlers]
      exact Pend.alt (keeps_tr (pre2.tr.cons_ck rep) f2e (TOk.nil _ _) _ s5.pend) I1
    · intro x hx
      simp only [visitHandlers]
      apply I3 x
      rcases hx with hx | ⟨r, hr, hx⟩ | hx | hx
      · exact Or.inl (s6.f.deref L0 x hx)
      · exact Or.inr (Or.inl ⟨r, s3 r hr, s6.f.deref r x hx⟩)
      · rcases s4 with s4 | s4
        · exact Or.inl (s6.f.deref L0 x (by rw [← s4]; exact hx))
        · exact Or.inr (Or.inl ⟨b.leaves, s4, s6.f.deref _ x hx⟩)
      · simp only [flowHandlers, Flow.alt, List.mem_append] at hx
        rcases hx with hx | hx
        · exact Or.inr (Or.inr (Or.inl (s5.norm x hx)))
        · exact Or.inr (Or.inr (Or.inr hx))
  | .functionDef .. :: _, _, _, _, _, _, _, _, _, _, hH, _, _, _, _, _, _, _ => by simp [frag3H] at hH
  | .classDef .. :: _, _, _, _, _, _, _, _, _, _, hH, _, _, _, _, _, _, _ => by simp [frag3H] at hH
  | .ret .. :: _, _, _, _, _, _, _, _, _, _, hH, _, _, _, _, _, _, _ => by simp [frag3H] at hH
  | .delete .. :: _, _, _, _, _, _, _, _, _, _, hH, _, _, _, _, _, _, _ => by simp [frag3H] at hH
  | .assign .. :: _, _, _, _, _, _, _, _, _, _, hH, _, _, _, _, _, _, _ => by simp [frag3H] at hH
  | .augAssign .. :: _, _, _, _, _, _, _, _, _, _, hH, _, _, _, _, _, _, _ => by simp [frag3H] at hH
  | .annAssign .. :: _, _, _, _, _, _, _, _, _, _, hH, _, _, _, _, _, _, _ => by simp [frag3H] at hH
  | .for_ .. :: _, _, _, _, _, _, _, _, _, _, hH, _, _, _, _, _, _, _ => by simp [frag3H] at hH
  | .while_ .. :: _, _, _, _, _, _, _, _, _, _, hH, _, _, _, _, _, _, _ => by simp [frag3H] at hH
  | .if_ .. :: _, _, _, _, _, _, _, _, _, _, hH, _, _, _, _, _, _, _ => by simp [frag3H] at hH
  | .with_ .. :: _, _, _, _, _, _, _, _, _, _, hH, _, _, _, _, _, _, _ => by simp [frag3H] at hH
  | .raise .. :: _, _, _, _, _, _, _, _, _, _, hH, _, _, _, _, _, _, _ => by simp [frag3H] at hH
  | .try_ .. :: _, _, _, _, _, _, _, _, _, _, hH, _, _, _, _, _, _, _ => by simp [frag3H] at hH
  | .assert_ .. :: _, _, _, _, _, _, _, _, _, _, hH, _, _, _, _, _, _, _ => by simp [frag3H] at hH
  | .import_ .. :: _, _, _, _, _, _, _, _, _, _, hH, _, _, _, _, _, _, _ => by simp [frag3H] at hH
  | .importFrom .. :: _, _, _, _, _, _, _, _, _, _, hH, _, _, _, _, _, _, _ => by simp [frag3H] at hH
  | .global .. :: _, _, _, _, _, _, _, _, _, _, hH, _, _, _, _, _, _, _ => by simp [frag3H] at hH
  | .nonlocal .. :: _, _, _, _, _, _, _, _, _, _, hH, _, _, _, _, _, _, _ => by simp [frag3H] at hH
  | .expr .. :: _, _, _, _, _, _, _, _, _, _, hH, _, _, _, _, _, _, _ => by simp [frag3H] at hH
  | .pass .. :: _, _, _, _, _, _, _, _, _, _, hH, _, _, _, _, _, _, _ => by simp [frag3H] at hH
  | .break_ .. :: _, _, _, _, _, _, _, _, _, _, hH, _, _, _, _, _, _, _ => by simp [frag3H] at hH
  | .continue_ .. :: _, _, _, _, _, _, _, _, _, _, hH, _, _, _, _, _, _, _ => by simp [frag3H] at hH
  | .other .. :: _, _, _, _, _, _, _, _, _, _, hH, _, _, _, _, _, _, _ => by simp [frag3H] at hH
end

/-! ### the whole function -/

theorem head_addOrdinaryNodes_cons3 (b : B) (n : Nat) (ns : List Nat) (hb : b.head = none) :
    (addOrdinaryNodes b (n :: ns)).head = some n := by
  have h1 : (b.addOrdinaryNode n).head = some n := by
    simp [B.addOrdinaryNode, B.addNewNode, B.pushNode, hb, Option.or]
  exact (frame_addOrdinaryNodes [] ns (b.addOrdinaryNode n)).head n h1

theorem fresh_valid3 : Valid ({} : B) := ⟨by decide, fun k r h => by simp [aget] at h⟩

/-- **Lemma C**: in the modelled language with `finally` the model's graph of the root function passes `pathCheck`. -/
theorem pathCheck_build3 (i : Nat) (name : String) (args : Expr) (body : List Stmt) (decs rets : List Expr)
    (hfr : fnFrag3 (.functionDef i name args body decs rets false) = true)
    (hdk : fnDistinctKeys3 (.functionDef i name args body decs rets false) = true) :
    pathCheck (.functionDef i name args body decs rets false)
      (rootBuilder (.functionDef i name args body decs rets false)).1.build = true := by
  simp only [fnFrag3, Bool.not_false, Bool.true_and] at hfr
  have hnd : (sk i :: (tnodes (args.kidLams ++ [args.id]) ++ keysL3 body)).Nodup := nodupB_sound _ hdk
  obtain ⟨hi_all, hnd2⟩ := List.nodup_cons.mp hnd
  obtain ⟨_, ndb, dab⟩ := List.nodup_append.mp hnd2
  have hib : sk i ∉ keysL3 body := fun h => hi_all (List.mem_append.mpr (Or.inr h))
  -- the states
  let σ : List Scope := [Scope.fn i]
  let b0 : B := ({} : B).enterSection i
  obtain ⟨s1, s2, s3, s4, s5⟩ := enterSection_effect ({} : B) i
  let b1 := (basicExpr σ args b0 {}).1
  have hb1 : b1 = addOrdinaryNodes b0 (args.kidLams ++ [args.id]) := by
    show (addOrdinaryNodes b0 args.kidLams).addOrdinaryNode args.id = _
    rw [addOrdinaryNodes_snoc]
  have f00 : FF (sk i :: tnodes (args.kidLams ++ [args.id])) ({} : B) b0 := ff_enterSection _ _ i (List.mem_cons_self ..)
  have f0b1 : FF (sk i :: tnodes (args.kidLams ++ [args.id])) b0 b1 := by
    rw [hb1]; exact ff_addOrdinaryNodes _ _ (fun n hn => List.mem_cons_of_mem _ (mem_tnodes hn)) b0
  have f01 := f00.trans f0b1
  have ldj0 : ListsDisjoint ({} : B) := by
    intro c c' t t' l l' j a1
    cases c <;> simp [dictOf, aget] at a1
  have lin0 : ListsInNodes ({} : B) := ⟨fun k l h => by simp [aget] at h, fun k l h => by simp [aget] at h⟩
  have ldj1 : ListsDisjoint b1 := by rw [hb1]; exact neutral_addOrdinaryNodes_ldj _ _ (ldj_enterSection i ldj0)
  obtain ⟨e1, _, e3⟩ := emit_src 0 [] (args.kidLams ++ [args.id]) b0 [] (fun x hx => nomem x hx)
  rw [← hb1] at e1 e3
  have hne : args.kidLams ++ [args.id] ≠ [] := by simp
  obtain ⟨ex1, hex1, _⟩ := (frame_addOrdinaryNodes [] (args.kidLams ++ [args.id]) b0).exits i (by simp) [] s1
  rw [← hb1] at hex1
  have pre1 : Pre σ (keysL3 body) b1 := by
    refine ⟨?_, ?_, ?_, ?_, ⟨i, rfl, ex1, hex1⟩, f01.f.valid fresh_valid3, f01.x.lin lin0, ldj1⟩
    · intro k hk; simp only [σ, scopeKeys, Scope.id, List.mem_singleton] at hk; subst hk; exact hib
    · intro k hk hko
      rcases f01.x.old k hko with h | h
      · exact nomem k h
      · rcases List.mem_cons.mp h with e | h
        · exact hib (e ▸ hk)
        · exact dab k h k hk rfl
    · intro k _
      have hki : ck k ∉ sk i :: tnodes (args.kidLams ++ [args.id]) := by
        intro h'
        rcases List.mem_cons.mp h' with e | h'
        · exact sk_ne_ck i k e.symm
        · exact ck_ne_tnodes h'
      rw [f01.f.condEntry k hki]
      simp [aget]
    · intro L hL; simp [σ, loopOf, enclosingFinally, Scope.isStop] at hL
  have ho : OwnPre σ false := ⟨⟨i, rfl⟩, fun h => by cases h⟩
  have P := lemB_stmts body σ b1 (basicExpr σ args b0 {}).2 false _ 0 [] hfr ho ndb pre1 (TOk.nil _ _) (inLeaves_src (e3 hne))
  let b2 := (visitStmts σ body b1 (basicExpr σ args b0 {}).2).1
  have f12 : FF (keysL3 body) b1 b2 := ff_visitStmts body σ b1 _ false hfr ho
  obtain ⟨ex2, hex2, _⟩ := f12.f.exits i hib ex1 hex1
  have hv2 : Valid b2 := f12.f.valid pre1.valid
  obtain ⟨X, xj, xl⟩ := exitSection_spec b2 i ex2 hex2 hv2.leaves P.ldj
  -- the final builder is `b2.exitSection i`
  have hroot : (rootBuilder (.functionDef i name args body decs rets false)).1 = b2.exitSection i := rfl
  rw [hroot]
  simp only [pathCheck, Bool.and_eq_true, beq_iff_eq, List.all_eq_true, Bool.or_eq_true, List.contains_eq_mem,
    decide_eq_true_eq]
  refine ⟨⟨?_, ?_⟩, ?_⟩
  · -- entry
    show (b2.exitSection i).head = (entryNodes _).head?
    simp only [entryNodes]
    obtain ⟨n0, r0, hns⟩ : ∃ n0 r0, args.kidLams ++ [args.id] = n0 :: r0 := by
      cases args.kidLams with
      | nil => exact ⟨_, _, rfl⟩
      | cons x r => exact ⟨x, r ++ [args.id], rfl⟩
    rw [hns]
    have h1 : b1.head = some n0 := by
      rw [hb1, hns]
      exact head_addOrdinaryNodes_cons3 b0 n0 r0 (by simp [b0, B.enterSection])
    simpa using (B.frame_exitSection [sk i] b2 i (by simp)).head n0 (f12.f.head n0 h1)
  · -- required pairs
    intro p hp
    show p ∈ (b2.exitSection i).edges
    simp only [flowFn, Flow.seq, List.mem_append] at hp
    rcases hp with hp | hp
    · rcases e1 p hp with h | ⟨h, _⟩
      · exact X.edges p (f12.f.edges p h)
      · exact nomem _ h
    · rcases P.pend.req p hp with h | ⟨c, t, htg, hpp⟩ | ⟨h, _⟩
      · exact X.edges p h
      · rcases htg with hL | ⟨hc, hF⟩
        · simp [σ, loopOf, enclosingFinally, Scope.isStop] at hL
        · subst hc
          have : t = i := by simpa [σ, fnOf, enclosingFinally, Scope.isStop, Scope.id] using hF.symm
          subst this
          exact X.ppe p hpp
      · exact nomem _ h
  · -- final nodes
    intro x hx
    simp only [flowFn, Flow.finals, Flow.seq, List.mem_append, List.nil_append] at hx
    rcases hx with hx | hx | hx | hx
    · left
      show x ∈ (b2.exitSection i).leafSet
      exact xl x (P.inLeaves x hx)
    · left
      show x ∈ (b2.exitSection i).leafSet
      obtain ⟨F, hF, hpj⟩ := P.pend.ret x hx
      have : F = i := by simpa [σ, fnOf, enclosingFinally, Scope.isStop, Scope.id] using hF.symm
      subst this
      exact xj x hpj
    · right
      show x ∈ (b2.exitSection i).errors
      rw [X.errors]; exact (P.pend.raise x hx).1
    · right
      show x ∈ (b2.exitSection i).errors
      rw [X.errors]; exact P.pend.exempt x hx

/-! ### the hypothesis, in terms of the walk's language, the shape of parsed programs and the class of the known finding -/

mutual
theorem frag3_of_supported : ∀ (s : Stmt) (il : Bool), s.supported il = true → stmtNoJump s = true → stmtShape s = true →
    frag3 il s = true
  | .functionDef i name args body decs rets isAsync, il, h, _, _ => by simpa [Stmt.supported, frag3] using h
  | .classDef .., il, _, _, _ => by simp [frag3]
  | .ret .., il, _, _, _ => by simp [frag3]
  | .delete .., il, _, _, _ => by simp [frag3]
  | .assign .., il, _, _, _ => by simp [frag3]
  | .augAssign .., il, _, _, _ => by simp [frag3]
  | .annAssign .., il, _, _, _ => by simp [frag3]
  | .raise .., il, _, _, _ => by simp [frag3]
  | .assert_ .., il, _, _, _ => by simp [frag3]
  | .import_ .., il, _, _, _ => by simp [frag3]
  | .importFrom .., il, _, _, _ => by simp [frag3]
  | .global .., il, _, _, _ => by simp [frag3]
  | .nonlocal .., il, _, _, _ => by simp [frag3]
  | .expr .., il, _, _, _ => by simp [frag3]
  | .pass .., il, _, _, _ => by simp [frag3]
  | .break_ _, il, h, _, _ => by simpa [Stmt.supported, frag3] using h
  | .continue_ _, il, h, _, _ => by simpa [Stmt.supported, frag3] using h
  | .handler .., il, h, _, _ => by simp [Stmt.supported] at h
  | .other .., il, h, _, _ => by simp [Stmt.supported] at h
  | .for_ i target iter body orelse extra isAsync, il, h, hj, hs => by
    simp only [Stmt.supported, Bool.and_eq_true, Bool.not_eq_true'] at h
    simp only [stmtNoJump, Bool.and_eq_true] at hj
    simp only [stmtShape, Bool.and_eq_true] at hs
    simp only [frag3, Bool.and_eq_true, Bool.not_eq_true']
    exact ⟨⟨⟨h.1.1, hs.1.1⟩, frag3L_of_supported body true h.1.2 hj.1 hs.1.2⟩, frag3L_of_supported orelse il h.2 hj.2 hs.2⟩
  | .while_ i test body orelse, il, h, hj, hs => by
    simp only [Stmt.supported, Bool.and_eq_true] at h
    simp only [stmtNoJump, Bool.and_eq_true] at hj
    simp only [stmtShape, Bool.and_eq_true] at hs
    simp only [frag3, Bool.and_eq_true]
    exact ⟨frag3L_of_supported body true h.1 hj.1 hs.1, frag3L_of_supported orelse il h.2 hj.2 hs.2⟩
  | .if_ i test body orelse, il, h, hj, hs => by
    simp only [Stmt.supported, Bool.and_eq_true] at h
    simp only [stmtNoJump, Bool.and_eq_true] at hj
    simp only [stmtShape, Bool.and_eq_true] at hs
    simp only [frag3, Bool.and_eq_true]
    exact ⟨frag3L_of_supported body il h.1 hj.1 hs.1, frag3L_of_supported orelse il h.2 hj.2 hs.2⟩
  | .with_ i items body isAsync, il, h, hj, hs => by
    simp only [Stmt.supported, Bool.and_eq_true, Bool.not_eq_true'] at h
    simp only [stmtNoJump] at hj
    simp only [stmtShape, Bool.and_eq_true] at hs
    simp only [frag3, Bool.and_eq_true, Bool.not_eq_true']
    exact ⟨⟨h.1, frag3L_of_supported body il h.2 hj hs.2⟩, by simpa using hs.1⟩
  | .try_ i body handlers orelse final, il, h, hj, hs => by
    simp only [Stmt.supported, Bool.and_eq_true] at h
    simp only [stmtNoJump, Bool.and_eq_true] at hj
    simp only [stmtShape, Bool.and_eq_true] at hs
    obtain ⟨⟨⟨hb, hh⟩, ho⟩, hf⟩ := h
    obtain ⟨⟨⟨⟨jb, jh⟩, jo⟩, jf⟩, jesc⟩ := hj
    obtain ⟨⟨⟨⟨⟨semB, semF⟩, sb⟩, sh⟩, so⟩, sf⟩ := hs
    simp only [frag3, Bool.and_eq_true]
    refine ⟨⟨⟨⟨⟨frag3L_of_supported body il hb jb sb, frag3H_of_supported handlers il hh jh sh⟩,
      frag3L_of_supported orelse il ho jo so⟩, frag3L_of_supported final il hf jf sf⟩, ?_⟩, semB⟩
    cases hfe : final.isEmpty with
    | true => simp
    | false =>
      rw [hfe] at jesc semF
      simp only [Bool.false_or] at jesc semF ⊢
      simp [semF, jesc]

theorem frag3L_of_supported : ∀ (ss : List Stmt) (il : Bool), supportedL il ss = true → noJumpL ss = true → shapeL ss = true →
    frag3L il ss = true
  | [], _, _, _, _ => rfl
  | s :: ss, il, h, hj, hs => by
    simp only [supportedL, Bool.and_eq_true] at h
    simp only [noJumpL, Bool.and_eq_true] at hj
    simp only [shapeL, Bool.and_eq_true] at hs
    simp only [frag3L, Bool.and_eq_true]
    exact ⟨frag3_of_supported s il h.1 hj.1 hs.1, frag3L_of_supported ss il h.2 hj.2 hs.2⟩

theorem frag3H_of_supported : ∀ (hs : List Stmt) (il : Bool), handlersOk il hs = true → noJumpL hs = true → shapeL hs = true →
    frag3H il hs = true
  | [], _, _, _, _ => rfl
  | .handler i ty nm hb :: hs, il, h, hj, hsh => by
    simp only [handlersOk, Bool.and_eq_true] at h
    simp only [noJumpL, stmtNoJump, Bool.and_eq_true] at hj
    simp only [shapeL, stmtShape, Bool.and_eq_true] at hsh
    simp only [frag3H, Bool.and_eq_true]
    exact ⟨⟨h.1.1, frag3L_of_supported hb il h.1.2 hj.1 hsh.1⟩, frag3H_of_supported hs il h.2 hj.2 hsh.2⟩
  | .functionDef .. :: _, _, h, _, _ => by simp [handlersOk] at h
  | .classDef .. :: _, _, h, _, _ => by simp [handlersOk] at h
  | .ret .. :: _, _, h, _, _ => by simp [handlersOk] at h
  | .delete .. :: _, _, h, _, _ => by simp [handlersOk] at h
  | .assign .. :: _, _, h, _, _ => by simp [handlersOk] at h
  | .augAssign .. :: _, _, h, _, _ => by simp [handlersOk] at h
  | .annAssign .. :: _, _, h, _, _ => by simp [handlersOk] at h
  | .for_ .. :: _, _, h, _, _ => by simp [handlersOk] at h
  | .while_ .. :: _, _, h, _, _ => by simp [handlersOk] at h
  | .if_ .. :: _, _, h, _, _ => by simp [handlersOk] at h
  | .with_ .. :: _, _, h, _, _ => by simp [handlersOk] at h
  | .raise .. :: _, _, h, _, _ => by simp [handlersOk] at h
  | .try_ .. :: _, _, h, _, _ => by simp [handlersOk] at h
  | .assert_ .. :: _, _, h, _, _ => by simp [handlersOk] at h
  | .import_ .. :: _, _, h, _, _ => by simp [handlersOk] at h
  | .importFrom .. :: _, _, h, _, _ => by simp [handlersOk] at h
  | .global .. :: _, _, h, _, _ => by simp [handlersOk] at h
  | .nonlocal .. :: _, _, h, _, _ => by simp [handlersOk] at h
  | .expr .. :: _, _, h, _, _ => by simp [handlersOk] at h
  | .pass .. :: _, _, h, _, _ => by simp [handlersOk] at h
  | .break_ .. :: _, _, h, _, _ => by simp [handlersOk] at h
  | .continue_ .. :: _, _, h, _, _ => by simp [handlersOk] at h
  | .other .. :: _, _, h, _, _ => by simp [handlersOk] at h
end

theorem fnFrag3_of (i : Nat) (name : String) (args : Expr) (body : List Stmt) (decs rets : List Expr) (isAsync : Bool)
    (hs : fnSupported (.functionDef i name args body decs rets isAsync) = true)
    (hsh : fnParsedShape (.functionDef i name args body decs rets isAsync) = true)
    (hj : fnNoJumpInHandlerOfTryWithFinally (.functionDef i name args body decs rets isAsync) = true) :
    fnFrag3 (.functionDef i name args body decs rets isAsync) = true := by
  simp only [fnSupported, Bool.and_eq_true] at hs
  simp only [fnFrag3, Bool.and_eq_true]
  exact ⟨hs.1, frag3L_of_supported body false hs.2 hj hsh⟩

end Malt.Cfg
