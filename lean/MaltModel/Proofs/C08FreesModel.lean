import MaltModel.Proofs.C08Frees
/-
Helper development for `C08_frees_nested`, part 2 (model side):
the names the activity model adds to the `read` set of the current scope, and the uses / nested blocks the
specification collects for it, describe the same outward-resolving names — as long as the nested blocks are
free of the known deviation classes (`leaksBs`, `declBelowBs true/false`, `shadowBs` all empty).
-/
namespace Malt.Analysis
open Malt.Py Malt.Spec

@[simp] theorem Eff.exported_false_read' (d : Eff) : (d.exported false).read = d.read := rfl
@[simp] theorem Eff.exported_true_read (d : Eff) :
    (d.exported true).read = d.read.diff ((d.bound.diff d.nonlocals).diff d.globals) := rfl

@[simp] theorem effE_globals (fns : List FnCtx) (aug anno : Bool) (e : Expr) : (effE fns aug anno e).globals = [] :=
  (effE_decls e fns aug anno).1
@[simp] theorem effE_nonlocals (fns : List FnCtx) (aug anno : Bool) (e : Expr) : (effE fns aug anno e).nonlocals = [] :=
  (effE_decls e fns aug anno).2
@[simp] theorem effEs_globals (fns : List FnCtx) (aug anno : Bool) (es : List Expr) : (effEs fns aug anno es).globals = [] :=
  (effEs_decls es fns aug anno).1
@[simp] theorem effEs_nonlocals (fns : List FnCtx) (aug anno : Bool) (es : List Expr) : (effEs fns aug anno es).nonlocals = [] :=
  (effEs_decls es fns aug anno).2

/-- What a block declares `global` / `nonlocal` is also in its `read` set (`visit_Global`, `visit_Nonlocal`). -/
structure DeclRead (d : Eff) : Prop where
  sub : ∀ q, (q ∈ d.nonlocals ∨ q ∈ d.globals) → q ∈ d.read

theorem DeclRead.append {a b : Eff} (ha : DeclRead a) (hb : DeclRead b) : DeclRead (a ++ b) := by
  refine ⟨fun q hq => ?_⟩
  have := ha.sub q; have := hb.sub q
  simp only [Eff.append_nonlocals, Eff.append_globals, Eff.append_read, List.mem_append] at hq ⊢
  grind
theorem DeclRead.exp {a : Eff} (ha : DeclRead a) : DeclRead (a.exported false) := ⟨ha.sub⟩
theorem DeclRead.iso (a : Eff) : DeclRead (a.exported true) := ⟨fun q hq => by simp at hq⟩
theorem DeclRead.ofE (fns : List FnCtx) (aug anno : Bool) (e : Expr) : DeclRead (effE fns aug anno e) :=
  ⟨fun q hq => by simp at hq⟩
theorem DeclRead.ofEs (fns : List FnCtx) (aug anno : Bool) (es : List Expr) : DeclRead (effEs fns aug anno es) :=
  ⟨fun q hq => by simp at hq⟩
theorem DeclRead.empty : DeclRead {} := ⟨fun q hq => by simp at hq⟩

mutual
theorem effS_declRead : (s : Stmt) → (fns : List FnCtx) → DeclRead (effS fns s)
  | .functionDef i name args body decos returns _, fns => by
      cases args <;> simp only [effS] <;> first | exact DeclRead.empty | exact ⟨fun q hq => by simp at hq⟩
  | .classDef i name bases kws body decos, fns => by
      simp only [effS]
      exact ⟨fun q hq => by simp at hq⟩
  | .ret _ v, fns => by simp only [effS]; exact (DeclRead.ofEs ..).exp
  | .delete _ ts, fns => by simp only [effS]; exact (DeclRead.ofEs ..).exp
  | .assign _ ts v, fns => by simp only [effS]; exact ((DeclRead.ofEs ..).append (DeclRead.ofE ..)).exp
  | .augAssign _ t _ v, fns => by simp only [effS]; exact ((DeclRead.ofE ..).append (DeclRead.ofE ..)).exp
  | .annAssign _ t an v _, fns => by simp only [effS]; exact (((DeclRead.ofE ..).append (DeclRead.ofEs ..)).append (DeclRead.ofE ..)).exp
  | .for_ _ t it body orelse _ _, fns => by
      simp only [effS]
      exact ((((DeclRead.ofE ..).append (DeclRead.ofE ..)).exp).append (DeclRead.ofE ..).exp).append
        ((effSs_declRead body fns).exp.append (effSs_declRead orelse fns).exp)
  | .while_ _ t body orelse, fns => by
      simp only [effS]
      exact (DeclRead.ofE ..).exp.append ((effSs_declRead body fns).exp.append (effSs_declRead orelse fns).exp)
  | .if_ _ t body orelse, fns => by
      simp only [effS]
      exact (DeclRead.ofE ..).exp.append ((effSs_declRead body fns).exp.append (effSs_declRead orelse fns).exp)
  | .with_ _ items body _, fns => by simp only [effS]; exact ((DeclRead.ofEs ..).append (effSs_declRead body fns)).exp
  | .raise _ e c, fns => by simp only [effS]; exact ((DeclRead.ofEs ..).append (DeclRead.ofEs ..)).exp
  | .try_ _ b h o f, fns => by
      simp only [effS]
      exact (((effSs_declRead b fns).append (effSs_declRead h fns)).append (effSs_declRead o fns)).append (effSs_declRead f fns)
  | .handler _ ty _ body, fns => by simp only [effS]; exact ((DeclRead.ofEs ..).append (effSs_declRead body fns)).exp
  | .assert_ _ t m, fns => by simp only [effS]; exact ((DeclRead.ofE ..).append (DeclRead.ofEs ..)).exp
  | .import_ _ names, fns => by simp only [effS]; exact ⟨fun q hq => by simp [aliasEff, Eff.exported] at hq⟩
  | .importFrom _ _ names _, fns => by simp only [effS]; exact ⟨fun q hq => by simp [aliasEff, Eff.exported] at hq⟩
  | .global _ names, fns => by simp only [effS]; exact ⟨fun q hq => by simpa [globalEff, Eff.exported] using hq⟩
  | .nonlocal _ names, fns => by simp only [effS]; exact ⟨fun q hq => by simpa [nonlocalEff, Eff.exported] using hq⟩
  | .expr _ v, fns => by simp only [effS]; exact (DeclRead.ofE ..).exp
  | .pass _, _ => by simp only [effS]; exact DeclRead.empty
  | .break_ _, _ => by simp only [effS]; exact DeclRead.empty
  | .continue_ _, _ => by simp only [effS]; exact DeclRead.empty
  | .other _ _ es bs, fns => by simp only [effS]; exact (DeclRead.ofEs ..).append (effSs_declRead bs fns)
theorem effSs_declRead : (ss : List Stmt) → (fns : List FnCtx) → DeclRead (effSs fns ss)
  | [], _ => by simp only [effSs]; exact DeclRead.empty
  | s :: rest, fns => by simp only [effSs]; exact (effS_declRead s fns).append (effSs_declRead rest fns)
end

theorem declBelowBs_append (g : Bool) (enc : List String) (a b : List Block) :
    declBelowBs g enc (a ++ b) = declBelowBs g enc a ++ declBelowBs g enc b := by
  induction a with
  | nil => simp [declBelowBs]
  | cons x r ih => simp [declBelowBs, ih]

theorem shadowBs_append (a b : List Block) : shadowBs (a ++ b) = shadowBs a ++ shadowBs b := by
  induction a with
  | nil => simp [shadowBs]
  | cons x r ih => simp [shadowBs, ih]

mutual
theorem outerB_sub_needsB : (b : Block) → ∀ x, x ∈ outerB b → x ∈ needsB b
  | .mk _ kind _ params binds globals nonlocals uses walrus children => by
      intro x hx
      have ih := outerBs_sub_needsBs children x
      cases hk : kind.functionLike <;>
        simp only [outerB, needsB, hk, Bool.false_eq_true, ↓reduceIte, List.mem_append, List.mem_filter] at hx ⊢ <;>
        simp at hx ⊢ <;> grind
theorem outerBs_sub_needsBs : (bs : List Block) → ∀ x, x ∈ outerBs bs → x ∈ needsBs bs
  | [] => by simp [outerBs]
  | b :: rest => by
      intro x hx
      simp only [outerBs, needsBs, List.mem_append] at hx ⊢
      rcases hx with hx | hx
      · exact Or.inl (outerB_sub_needsB b x hx)
      · exact Or.inr (outerBs_sub_needsBs rest x hx)
end

/-- What the accumulator `a` says about the names the current block resolves further out. -/
def accNeeds (a : Acc) (x : String) : Prop := x ∈ a.uses ∨ x ∈ outerBs a.children

/-- `RR Dom d a a'`: outside `Dom`, reading according to the effect `d` is what the step from `a` to `a'` adds. -/
def RR (Dom : List String) (d : Eff) (a a' : Acc) : Prop :=
  ∀ x, x ∉ Dom → ((QN.sym x ∈ d.read ∨ accNeeds a x) ↔ accNeeds a' x)

theorem RR.refl (Dom : List String) (a : Acc) : RR Dom {} a a := by
  intro x _; simp [accNeeds]

theorem RR.trans {Dom : List String} {d1 d2 : Eff} {a b c : Acc} (h1 : RR Dom d1 a b) (h2 : RR Dom d2 b c) :
    RR Dom (d1 ++ d2) a c := by
  intro x hx
  have := h1 x hx; have := h2 x hx
  simp only [Eff.append_read, List.mem_append]
  grind

theorem RR.congr {Dom : List String} {d d' : Eff} {a b : Acc} (h : RR Dom d a b)
    (hr : ∀ x, QN.sym x ∈ d'.read ↔ QN.sym x ∈ d.read) : RR Dom d' a b := by
  intro x hx
  rw [hr]; exact h x hx

theorem RR.exp {Dom : List String} {d : Eff} {a b : Acc} (h : RR Dom d a b) : RR Dom (d.exported false) a b :=
  h.congr (fun _ => by simp)

/-- The hypotheses on the accumulator reached at the end of a step: what the current block declares lies in
    `Dom`; the blocks collected are free of the deviation classes (`Denc`: names declared by the nearest
    enclosing def/lambda, `Lenc`: names declared by the current block). -/
structure Hyp (Dom Denc Lenc : List String) (a : Acc) : Prop where
  binds : ∀ x ∈ a.binds, x ∈ Dom
  globals : ∀ x ∈ a.globals, x ∈ Dom
  nonlocals : ∀ x ∈ a.nonlocals, x ∈ Dom
  lenc : ∀ x ∈ Lenc, x ∈ Dom
  denc : ∀ x ∈ Denc, x ∈ Dom
  noG : declBelowBs true Denc a.children = []
  noL : leaksBs Lenc a.children = []
  noS : shadowBs a.children = []

theorem Hyp.ofS {Dom Denc Lenc : List String} {a b : Acc} {bs ls gs ns : List String}
    (h : Hyp Dom Denc Lenc b) (hc : CollectsS a b bs ls gs ns) : Hyp Dom Denc Lenc a := by
  obtain ⟨new, hnew, -⟩ := hc.children
  have hG := h.noG; have hL := h.noL; have hS := h.noS
  rw [hnew] at hG hL hS
  rw [declBelowBs_append] at hG
  rw [leaksBs_append] at hL
  rw [shadowBs_append] at hS
  simp only [List.append_eq_nil_iff] at hG hL hS
  exact ⟨fun x hx => h.binds x ((hc.binds x).mpr (Or.inr hx)), fun x hx => h.globals x ((hc.globals x).mpr (Or.inr hx)),
    fun x hx => h.nonlocals x ((hc.nonlocals x).mpr (Or.inr hx)), h.lenc, h.denc, hG.1, hL.1, hS.1⟩

theorem Hyp.ofE {Dom Denc Lenc : List String} {a b : Acc} {bs ls : List String}
    (h : Hyp Dom Denc Lenc b) (hc : CollectsE a b bs ls) : Hyp Dom Denc Lenc a := h.ofS hc.toS

theorem trackEff_read_sym (q? : Option QN) (c : Ctx) (cw aug anno : Bool) (x : String)
    (h : QN.sym x ∈ (trackEff q? c cw aug anno).read) : q? = some (.sym x) := by
  unfold trackEff at h
  cases q? with
  | none => simp at h
  | some q =>
    cases c <;> simp at h
    · rw [h]
    · rw [h.2]
    · rw [h]


theorem Hyp.child {Dom Denc Lenc : List String} {a1 : Acc} {blk : Block} (h : Hyp Dom Denc Lenc (a1.child blk)) :
    Hyp Dom Denc Lenc a1 ∧ declBelowB true Denc blk = [] ∧
      leaksB Lenc blk = [] ∧ shadowB blk = [] := by
  have hG := h.noG; have hL := h.noL; have hS := h.noS
  simp only [Acc.child] at hG hL hS
  rw [declBelowBs_append] at hG
  rw [leaksBs_append] at hL
  rw [shadowBs_append] at hS
  simp only [List.append_eq_nil_iff, declBelowBs, leaksBs, shadowBs, and_true] at hG hL hS
  exact ⟨⟨h.binds, h.globals, h.nonlocals, h.lenc, h.denc, hG.1, hL.1, hS.1⟩, hG.2, hL.2, hS.2⟩

theorem accNeeds_child (a1 : Acc) (blk : Block) (x : String) :
    accNeeds (a1.child blk) x ↔ accNeeds a1 x ∨ x ∈ outerB blk := by
  simp only [accNeeds, Acc.child, outerBs_append, outerBs, List.mem_append, List.append_nil]
  grind

/-- A def/lambda block: what the analysis exports from its scope (`read − (bound − nonlocals − globals)`) against
    `outerB`. -/
theorem fun_block_rel (i : Nat) (kind : BlockKind) (name : String) (hk : kind.functionLike = true)
    (ps L : List String) (inner : Acc) (dI I : Eff)
    (hp : inner.params = ps) (hwal : inner.walrus = [])
    (hread : ∀ x, QN.sym x ∈ I.read ↔ QN.sym x ∈ dI.read)
    (hbound : ∀ x, QN.sym x ∈ I.bound ↔ x ∈ ps ∨ x ∈ inner.binds ∨ x ∈ inner.nonlocals ∨ x ∈ L)
    (hnl : ∀ x, QN.sym x ∈ I.nonlocals ↔ x ∈ inner.nonlocals)
    (hgl : ∀ x, QN.sym x ∈ I.globals ↔ x ∈ inner.globals)
    (hdr : ∀ x, x ∈ inner.nonlocals → QN.sym x ∈ I.read)
    (hL : ∀ x ∈ L, x ∈ ps ++ inner.binds ++ inner.globals ++ inner.nonlocals)
    (hRR : RR (ps ++ inner.binds ++ inner.globals ++ inner.nonlocals) dI { params := ps } inner) :
    ∀ x, x ∉ inner.globals →
      (QN.sym x ∈ I.read.diff ((I.bound.diff I.nonlocals).diff I.globals) ↔ x ∈ outerB (inner.toBlock i kind name)) := by
  intro x hg
  have hLx := hL x
  simp only [List.mem_append] at hLx
  by_cases hn : x ∈ inner.nonlocals
  · have h1 := hdr x hn
    simp only [QSet.mem_diff, hbound, hnl, hgl, Acc.toBlock, outerB, hk, ↓reduceIte, hp, hwal, List.mem_append, List.mem_filter,
      List.append_nil]
    simp [hg, hn, h1]
  · simp only [QSet.mem_diff, hread, hbound, hnl, hgl, Acc.toBlock, outerB, hk, ↓reduceIte, hp, hwal, List.mem_append, List.mem_filter,
      List.append_nil]
    by_cases hl : x ∈ ps ∨ x ∈ inner.binds
    · simp [hg, hn]
      grind
    · have hD : x ∉ ps ++ inner.binds ++ inner.globals ++ inner.nonlocals := by simp only [List.mem_append]; grind
      have h := hRR x hD
      simp only [accNeeds, List.not_mem_nil, outerBs, or_false] at h
      simp [hg, hn]
      grind

theorem trackEff_rr_composite {Dom : List String} (q? : Option QN) (c : Ctx) (cw aug anno : Bool) (a : Acc)
    (hq : ∀ x, q? ≠ some (.sym x)) : RR Dom (trackEff q? c cw aug anno) a a := by
  intro x _
  constructor
  · rintro (h | h)
    · exact absurd (trackEff_read_sym q? c cw aug anno x h) (hq x)
    · exact h
  · exact Or.inr

mutual
theorem readRelE : (e : Expr) → FragE e = true → (fns : List FnCtx) → (aug anno : Bool) →
    (Dom Denc Lenc : List String) → (a : Acc) → Hyp Dom Denc Lenc (collectE false e a) →
    RR Dom (effE fns aug anno e) a (collectE false e a)
  | .name _ s c, _, fns, aug, anno, Dom, Denc, Lenc, a, H => by
      cases c
      · intro x _
        simp [effE, trackEff, collectE, Acc.use, accNeeds]
        grind
      · intro x hx
        have hs : s ∈ Dom := H.binds s (by simp [collectE, Acc.bind])
        have hne : x ≠ s := fun h => hx (h ▸ hs)
        simp [effE, trackEff, collectE, Acc.bind, accNeeds]
        cases aug <;> simp [hne]
      · intro x hx
        have hs : s ∈ Dom := H.binds s (by simp [collectE, Acc.bind])
        have hne : x ≠ s := fun h => hx (h ▸ hs)
        simp [effE, trackEff, collectE, Acc.bind, accNeeds, hne]
  | .const .., _, _, _, _, Dom, _, _, a, _ => by simpa [effE, collectE] using RR.refl Dom a
  | .noneMarker, _, _, _, _, Dom, _, _, a, _ => by simpa [effE, collectE] using RR.refl Dom a
  | .attr i v atn c, hf, fns, aug, anno, Dom, Denc, Lenc, a, H => by
      simp only [FragE] at hf
      simp only [collectE] at H ⊢
      simp only [effE]
      exact (readRelE v hf fns aug anno Dom Denc Lenc a H).trans
        (trackEff_rr_composite _ c _ aug anno _ (fun x => qnOf_attr_ne_sym i v atn c x))
  | .subscript i v sl c, hf, fns, aug, anno, Dom, Denc, Lenc, a, H => by
      simp only [FragE, Bool.and_eq_true] at hf
      simp only [collectE] at H ⊢
      simp only [effE]
      have H1 := H.ofE (collectE_spec sl hf.2 _)
      exact ((readRelE v hf.1 fns aug anno Dom Denc Lenc a H1).trans (readRelE sl hf.2 fns aug anno Dom Denc Lenc _ H)).trans
        (trackEff_rr_composite _ c _ aug anno _ (fun x => qnOf_subscript_ne_sym i v sl c x))
  | .call _ f as ks, hf, fns, aug, anno, Dom, Denc, Lenc, a, H => by
      simp only [FragE, Bool.and_eq_true] at hf
      simp only [collectE] at H ⊢
      simp only [effE]
      have H2 := H.ofE (collectEs_spec ks hf.2 _)
      have H1 := H2.ofE (collectEs_spec as hf.1.2 _)
      exact (((readRelE f hf.1.1 fns aug anno Dom Denc Lenc a H1).trans (readRelEs as hf.1.2 fns aug anno Dom Denc Lenc _ H2)).trans
        (readRelEs ks hf.2 fns aug anno Dom Denc Lenc _ H)).congr (by intro x; simp; grind)
  | .keyword _ _ _ v, hf, fns, aug, anno, Dom, Denc, Lenc, a, H => by
      simp only [FragE] at hf
      simp only [collectE] at H ⊢
      simp only [effE]
      exact readRelE v hf fns aug anno Dom Denc Lenc a H
  | .boolop _ _ vs, hf, fns, aug, anno, Dom, Denc, Lenc, a, H => by
      simp only [FragE] at hf
      simp only [collectE] at H ⊢
      simp only [effE]
      exact readRelEs vs hf fns aug anno Dom Denc Lenc a H
  | .unary _ _ v, hf, fns, aug, anno, Dom, Denc, Lenc, a, H => by
      simp only [FragE] at hf
      simp only [collectE] at H ⊢
      simp only [effE]
      exact readRelE v hf fns aug anno Dom Denc Lenc a H
  | .binop _ _ l r, hf, fns, aug, anno, Dom, Denc, Lenc, a, H => by
      simp only [FragE, Bool.and_eq_true] at hf
      simp only [collectE] at H ⊢
      simp only [effE]
      have H1 := H.ofE (collectE_spec r hf.2 _)
      exact (readRelE l hf.1 fns aug anno Dom Denc Lenc a H1).trans (readRelE r hf.2 fns aug anno Dom Denc Lenc _ H)
  | .compare _ l _ cs, hf, fns, aug, anno, Dom, Denc, Lenc, a, H => by
      simp only [FragE, Bool.and_eq_true] at hf
      simp only [collectE] at H ⊢
      simp only [effE]
      have H1 := H.ofE (collectEs_spec cs hf.2 _)
      exact (readRelE l hf.1 fns aug anno Dom Denc Lenc a H1).trans (readRelEs cs hf.2 fns aug anno Dom Denc Lenc _ H)
  | .ifexp _ t b o, hf, fns, aug, anno, Dom, Denc, Lenc, a, H => by
      simp only [FragE, Bool.and_eq_true] at hf
      simp only [collectE] at H ⊢
      simp only [effE]
      have H2 := H.ofE (collectE_spec o hf.2 _)
      have H1 := H2.ofE (collectE_spec b hf.1.2 _)
      exact ((readRelE t hf.1.1 fns aug anno Dom Denc Lenc a H1).trans (readRelE b hf.1.2 fns aug anno Dom Denc Lenc _ H2)).trans
        (readRelE o hf.2 fns aug anno Dom Denc Lenc _ H)
  | .lambda i args body, hf, fns, aug, anno, Dom, Denc, Lenc, a, H => by
      cases args with
      | arguments ai po ar va ko kd kw df =>
        simp only [FragE, Bool.and_eq_true] at hf
        obtain ⟨⟨⟨⟨⟨⟨⟨hpo, har⟩, hva⟩, hko⟩, hkw⟩, hkd⟩, hdf⟩, hbody⟩ := hf
        simp only [collectE] at H ⊢
        simp only [effE]
        obtain ⟨H1, hG, hL, hS⟩ := H.child
        have Hdf := H1.ofE (collectEs_spec kd hkd _)
        have R1 := (readRelEs df hdf (.lam i :: fns) aug anno Dom Denc Lenc a Hdf).trans
          (readRelEs kd hkd (.lam i :: fns) aug anno Dom Denc Lenc _ H1)
        -- the lambda's own block
        have hC := collectE_spec body hbody { params := (po ++ ar ++ ko ++ va ++ kw).filterMap paramName }
        obtain ⟨new, hnew, hcov⟩ := hC.children
        simp only [List.nil_append] at hnew
        generalize hin : collectE false body { params := (po ++ ar ++ ko ++ va ++ kw).filterMap paramName } = inner at *
        simp only [Acc.toBlock, declBelowB, leaksB, shadowB, List.append_eq_nil_iff, List.filter_eq_nil_iff,
          BlockKind.isComp, beq_self_eq_true, Bool.or_true, ↓reduceIte, Bool.false_eq_true, reduceCtorEq,
          decide_false, List.nil_append] at hG hL hS
        have hg0 : inner.globals = [] := hC.globals
        have hn0 : inner.nonlocals = [] := hC.nonlocals
        have hbI : ∀ x, x ∈ inner.binds ↔ x ∈ ownBindsE body := by intro x; rw [hC.binds]; simp
        have HI : Hyp (inner.params ++ inner.binds ++ inner.globals ++ inner.nonlocals)
            (inner.params ++ inner.binds ++ inner.globals ++ inner.nonlocals)
            (inner.params ++ inner.binds ++ inner.globals ++ inner.nonlocals) inner :=
          ⟨fun x hx => by simp [hx], fun x hx => by simp [hx], fun x hx => by simp [hx], fun x hx => hx, fun x hx => hx,
            hG.2, hL.2, hS.2⟩
        have RI := readRelE body hbody (.lam i :: fns) aug anno _ _ _ { params := (po ++ ar ++ ko ++ va ++ kw).filterMap paramName }
          (by rw [hin]; exact HI)
        rw [hin] at RI
        have hB := effE_bound body hbody (.lam i :: fns) aug anno
        have hrel := fun_block_rel i .lambda "lambda" rfl inner.params (ownLeaksE body) inner
          (effE (.lam i :: fns) aug anno body)
          (({ bound := argNames po ++ argNames ar ++ argNames va ++ argNames ko ++ argNames kw } : Eff).exported false ++
            (effE (.lam i :: fns) aug anno body).exported false)
          rfl hC.walrus (by intro x; simp)
          (by
            intro x
            have := mem_paramNames_iff po ar va ko kw x
            simp only [paramNames] at this
            simp only [Eff.append_bound, Eff.exported_false_bound', List.mem_append, hB, hbI, hn0, List.not_mem_nil, false_or]
            rw [hC.params, mem_specParams_iff]
            simp only [List.mem_append] at this
            grind)
          (by intro x; simp [hn0])
          (by intro x; simp [hg0])
          (by intro x hx; rw [hn0] at hx; simp at hx)
          (by
            intro x hx
            by_cases hd : x ∈ inner.params ++ inner.binds ++ inner.globals ++ inner.nonlocals
            · exact hd
            · exfalso
              have := hcov _ x hx hd
              rw [← hnew, hL.2] at this
              simp at this)
          (by rw [hC.params] at RI ⊢; exact RI)
        have Rc : RR Dom ((({ bound := argNames po ++ argNames ar ++ argNames va ++ argNames ko ++ argNames kw } : Eff).exported false ++
            (effE (.lam i :: fns) aug anno body).exported false).exported true) (collectEs false kd (collectEs false df a))
            ((collectEs false kd (collectEs false df a)).child (inner.toBlock i .lambda "lambda")) := by
          intro x hx
          rw [accNeeds_child]
          have := hrel x (by rw [hg0]; simp)
          simp only [Eff.exported_true_read]
          grind
        exact (R1.trans Rc).congr (by intro x; simp; grind)
      | _ => simp [FragE] at hf
  | .seq _ _ es _, hf, fns, aug, anno, Dom, Denc, Lenc, a, H => by
      simp only [FragE] at hf
      simp only [collectE] at H ⊢
      simp only [effE]
      exact readRelEs es hf fns aug anno Dom Denc Lenc a H
  | .starred _ v _, hf, fns, aug, anno, Dom, Denc, Lenc, a, H => by
      simp only [FragE] at hf
      simp only [collectE] at H ⊢
      simp only [effE]
      exact readRelE v hf fns aug anno Dom Denc Lenc a H
  | .namedexpr _ t v, hf, fns, aug, anno, Dom, Denc, Lenc, a, H => by
      simp only [FragE, Bool.and_eq_true] at hf
      simp only [collectE, Bool.false_eq_true, ↓reduceIte] at H ⊢
      simp only [effE]
      have H1 := H.ofE (collectE_spec v hf.2 _)
      exact (readRelE t hf.1 fns aug anno Dom Denc Lenc a H1).trans (readRelE v hf.2 fns aug anno Dom Denc Lenc _ H)
  | .comp .., hf, _, _, _, _, _, _, _, _ => by simp [FragE] at hf
  | .comprehension .., hf, _, _, _, _, _, _, _, _ => by simp [FragE] at hf
  | .arguments .., hf, _, _, _, _, _, _, _, _ => by simp [FragE] at hf
  | .arg .., hf, _, _, _, _, _, _, _, _ => by simp [FragE] at hf
  | .withitem _ c v, hf, fns, aug, anno, Dom, Denc, Lenc, a, H => by
      simp only [FragE, Bool.and_eq_true] at hf
      simp only [collectE] at H ⊢
      simp only [effE]
      have H1 := H.ofE (collectEs_spec v hf.2 _)
      exact ((readRelE c hf.1 fns aug anno Dom Denc Lenc a H1).trans (readRelEs v hf.2 fns aug anno Dom Denc Lenc _ H)).exp
  | .other _ _ _ kids, hf, fns, aug, anno, Dom, Denc, Lenc, a, H => by
      simp only [FragE] at hf
      simp only [collectE] at H ⊢
      simp only [effE]
      exact readRelEs kids hf fns aug anno Dom Denc Lenc a H
theorem readRelEs : (es : List Expr) → FragEs es = true → (fns : List FnCtx) → (aug anno : Bool) →
    (Dom Denc Lenc : List String) → (a : Acc) → Hyp Dom Denc Lenc (collectEs false es a) →
    RR Dom (effEs fns aug anno es) a (collectEs false es a)
  | [], _, _, _, _, Dom, _, _, a, _ => by simpa [effEs, collectEs] using RR.refl Dom a
  | e :: rest, hf, fns, aug, anno, Dom, Denc, Lenc, a, H => by
      simp only [FragEs, Bool.and_eq_true] at hf
      simp only [collectEs] at H ⊢
      simp only [effEs]
      have H1 := H.ofE (collectEs_spec rest hf.2 _)
      exact (readRelE e hf.1 fns aug anno Dom Denc Lenc a H1).trans (readRelEs rest hf.2 fns aug anno Dom Denc Lenc _ H)
end


theorem foldl_bind_needs (l : List String) (a : Acc) (x : String) : accNeeds (l.foldl Acc.bind a) x ↔ accNeeds a x := by
  induction l generalizing a with
  | nil => simp
  | cons y r ih => simp only [List.foldl_cons]; rw [ih]; simp [accNeeds, Acc.bind]

theorem RR.bind (Dom : List String) (a : Acc) (n : String) : RR Dom {} a (a.bind n) := by
  intro x _; simp [accNeeds, Acc.bind]

/-- A class block: the reads of its body that the class scope passes on, against `outerB`. -/
theorem class_block_rel (i : Nat) (name : String) (inner : Acc) (dB : Eff) (Dom L : List String)
    (hp : inner.params = []) (hwal : inner.walrus = [])
    (hg : ∀ x ∈ inner.globals, x ∈ Dom)
    (hbound : ∀ x, QN.sym x ∈ dB.bound ↔ x ∈ inner.binds ∨ x ∈ inner.nonlocals ∨ x ∈ L)
    (hdr : ∀ x, x ∈ inner.nonlocals → QN.sym x ∈ dB.read)
    (hL : ∀ x ∈ L, x ∈ inner.params ++ inner.binds ++ inner.globals ++ inner.nonlocals)
    (hS : (inner.binds ++ inner.nonlocals).filter (fun n => (needsBs inner.children).contains n) = [])
    (hRR : RR (Dom ++ inner.binds ++ inner.nonlocals) dB {} inner) :
    ∀ x, x ∉ Dom → ((QN.sym x ∈ dB.read ∧ ¬ (QN.sym x ∈ dB.bound ∧ x ∉ inner.nonlocals)) ↔
      x ∈ outerB (inner.toBlock i .class_ name)) := by
  intro x hx
  have hgx : x ∉ inner.globals := fun h => hx (hg x h)
  have hLx := hL x
  simp only [hp, List.nil_append, List.mem_append] at hLx
  simp only [hbound, Acc.toBlock, outerB, BlockKind.functionLike, Bool.false_eq_true, ↓reduceIte, hp, hwal, List.mem_append,
    List.mem_filter, List.append_nil]
  by_cases hn : x ∈ inner.nonlocals
  · have := hdr x hn
    simp [hgx, hn, this]
  · by_cases hb : x ∈ inner.binds
    · have hsh : x ∉ outerBs inner.children := by
        intro h
        have h2 := outerBs_sub_needsBs _ x h
        have : x ∈ (inner.binds ++ inner.nonlocals).filter (fun n => (needsBs inner.children).contains n) := by
          simp [hb, h2]
        rw [hS] at this
        simp at this
      simp [hb, hgx, hn, hsh]
    · have hD : x ∉ Dom ++ inner.binds ++ inner.nonlocals := by simp [hx, hb, hn]
      have h := hRR x hD
      simp only [accNeeds, List.not_mem_nil, outerBs, or_false] at h
      simp [hgx, hn]
      grind

end Malt.Analysis
