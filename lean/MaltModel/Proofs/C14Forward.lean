import MaltModel.Proofs.C14Bind
/-!
Per-builtin case analysis for C14: for each substituted builtin and each documented form of its
signature, *every* call shape the form accepts is enumerated from `accepts` by the general lemmas
of `C14Bind` (which keywords may occur, how many positionals), and for each such shape the
forwarded call is computed from the *generated* overload/helper tables.

`Preserved truthy b form c`: the overload accepts `c`, the call that reaches the builtin is accepted
by `form`, and binds `form`'s parameters to equivalent values.
-/
namespace Malt.Builtins
open Malt.Gen.Builtins

variable {α : Type} [DecidableEq α]

def Preserved (truthy : α → Bool) (b : String) (form : Signature) (c : CallShape α) : Prop :=
  ∃ r, forward truthy b c = .ok r ∧ r.callee = b ∧ accepts form r.call = true ∧
    envEquiv truthy b (envOf form c) (envOf form r.call) = true

def isArg : Val α → Bool
  | .arg _ => true
  | .const _ => false

omit [DecidableEq α] in
theorem isArg_elim {v : Val α} (h : isArg v = true) : ∃ a, v = .arg a := by
  cases v with
  | arg a => exact ⟨a, rfl⟩
  | const c => cases h

omit [DecidableEq α] in
theorem userShape_pos {c : CallShape α} (h : userShape c = true) : ∀ v ∈ c.pos, ∃ a, v = .arg a := by
  intro v hv
  simp only [userShape, Bool.and_eq_true, List.all_eq_true] at h
  have := h.1 v hv
  cases v with
  | arg a => exact ⟨a, rfl⟩
  | const c => simp at this

omit [DecidableEq α] in
theorem userShape_kw {c : CallShape α} (h : userShape c = true) : ∀ kv ∈ c.kw, ∃ a, kv.2 = .arg a := by
  intro kv hkv
  simp only [userShape, Bool.and_eq_true, List.all_eq_true] at h
  have := h.2 kv hkv
  rcases kv with ⟨k, v⟩
  cases v with
  | arg a => exact ⟨a, rfl⟩
  | const c => simp at this

/-- Closes a goal `Preserved …` on a shape concrete enough for every stage to evaluate. -/
macro "preserved_by_eval" : tactic =>
  `(tactic| exact ⟨_, rfl, rfl, rfl, envEquiv_of_eq _ _ rfl⟩)

/-! ### one positional-only parameter, required: abs, all, any, len, range(stop) -/

private theorem one_required (truthy : α → Bool) (b n : String) (c : CallShape α)
    (h : accepts [⟨n, .posOnly, none⟩] c = true)
    (hfw : ∀ a : Val α, Preserved truthy b [⟨n, .posOnly, none⟩] ⟨[a], []⟩) :
    Preserved truthy b [⟨n, .posOnly, none⟩] c := by
  obtain ⟨pos, kw⟩ := c
  have hkw : kw = [] := keys_nil (accepts_keys h rfl)
  subst hkw
  match pos, h with
  | [], h => exact (false_of_eq_true_false h (by simp [accepts, satisfied, filled, isPos, isKw, posFilled, slotOf, posParams, keysNodup])).elim
  | [a], _ => exact hfw a
  | _ :: _ :: r, h =>
    have := accepts_pos_le h rfl
    simp [nPos, posParams, isPos] at this

theorem preserved_abs (truthy : α → Bool) (c : CallShape α) (h : accepts [⟨"x", .posOnly, none⟩] c = true) :
    Preserved truthy "abs" [⟨"x", .posOnly, none⟩] c :=
  one_required truthy "abs" "x" c h (fun _ => by preserved_by_eval)

theorem preserved_all (truthy : α → Bool) (c : CallShape α) (h : accepts [⟨"iterable", .posOnly, none⟩] c = true) :
    Preserved truthy "all" [⟨"iterable", .posOnly, none⟩] c :=
  one_required truthy "all" "iterable" c h (fun _ => by preserved_by_eval)

theorem preserved_any (truthy : α → Bool) (c : CallShape α) (h : accepts [⟨"iterable", .posOnly, none⟩] c = true) :
    Preserved truthy "any" [⟨"iterable", .posOnly, none⟩] c :=
  one_required truthy "any" "iterable" c h (fun _ => by preserved_by_eval)

theorem preserved_len (truthy : α → Bool) (c : CallShape α) (h : accepts [⟨"obj", .posOnly, none⟩] c = true) :
    Preserved truthy "len" [⟨"obj", .posOnly, none⟩] c :=
  one_required truthy "len" "obj" c h (fun _ => by preserved_by_eval)

theorem preserved_range1 (truthy : α → Bool) (c : CallShape α) (h : accepts [⟨"stop", .posOnly, none⟩] c = true) :
    Preserved truthy "range" [⟨"stop", .posOnly, none⟩] c :=
  one_required truthy "range" "stop" c h (fun _ => by preserved_by_eval)

/-! ### one positional-only parameter with a default: float, int() -/

private theorem one_optional (truthy : α → Bool) (b n d : String) (c : CallShape α)
    (h : accepts [⟨n, .posOnly, some d⟩] c = true)
    (h0 : Preserved truthy b [⟨n, .posOnly, some d⟩] ⟨[], []⟩)
    (h1 : ∀ a : Val α, Preserved truthy b [⟨n, .posOnly, some d⟩] ⟨[a], []⟩) :
    Preserved truthy b [⟨n, .posOnly, some d⟩] c := by
  obtain ⟨pos, kw⟩ := c
  have hkw : kw = [] := keys_nil (accepts_keys h rfl)
  subst hkw
  match pos, h with
  | [], _ => exact h0
  | [a], _ => exact h1 a
  | _ :: _ :: r, h =>
    have := accepts_pos_le h rfl
    simp [nPos, posParams, isPos] at this

theorem preserved_float (truthy : α → Bool) (c : CallShape α) (h : accepts [⟨"x", .posOnly, some "0"⟩] c = true) :
    Preserved truthy "float" [⟨"x", .posOnly, some "0"⟩] c :=
  one_optional truthy "float" "x" "0" c h (by preserved_by_eval) (fun _ => by preserved_by_eval)

theorem preserved_int1 (truthy : α → Bool) (c : CallShape α) (h : accepts [⟨"x", .posOnly, some "0"⟩] c = true) :
    Preserved truthy "int" [⟨"x", .posOnly, some "0"⟩] c :=
  one_optional truthy "int" "x" "0" c h (by preserved_by_eval) (fun _ => by preserved_by_eval)

/-! ### filter(function, iterable, /) -/

theorem preserved_filter (truthy : α → Bool) (c : CallShape α)
    (h : accepts [⟨"function", .posOnly, none⟩, ⟨"iterable", .posOnly, none⟩] c = true) :
    Preserved truthy "filter" [⟨"function", .posOnly, none⟩, ⟨"iterable", .posOnly, none⟩] c := by
  obtain ⟨pos, kw⟩ := c
  have hkw : kw = [] := keys_nil (accepts_keys h rfl)
  subst hkw
  match pos, h with
  | [], h => exact (false_of_eq_true_false h rfl).elim
  | [_], h => exact (false_of_eq_true_false h rfl).elim
  | [_, _], _ => preserved_by_eval
  | _ :: _ :: _ :: r, h =>
    have := accepts_pos_le h rfl
    simp [nPos, posParams, isPos] at this

/-! ### map(function, iterable, /, *iterables) -/

theorem preserved_map (truthy : α → Bool) (c : CallShape α)
    (h : accepts [⟨"function", .posOnly, none⟩, ⟨"iterable", .posOnly, none⟩, ⟨"iterables", .varPos, none⟩] c = true) :
    Preserved truthy "map" [⟨"function", .posOnly, none⟩, ⟨"iterable", .posOnly, none⟩, ⟨"iterables", .varPos, none⟩] c := by
  obtain ⟨pos, kw⟩ := c
  have hkw : kw = [] := keys_nil (accepts_keys h rfl)
  subst hkw
  match pos, h with
  | [], h => exact (false_of_eq_true_false h rfl).elim
  | [_], h => exact (false_of_eq_true_false h rfl).elim
  | _ :: _ :: _, _ => preserved_by_eval

/-! ### range(start, stop[, step]) -/

theorem preserved_range2 (truthy : α → Bool) (c : CallShape α) (hu : userShape c = true)
    (h : accepts [⟨"start", .posOnly, none⟩, ⟨"stop", .posOnly, none⟩, ⟨"step", .posOnly, some "1"⟩] c = true) :
    Preserved truthy "range" [⟨"start", .posOnly, none⟩, ⟨"stop", .posOnly, none⟩, ⟨"step", .posOnly, some "1"⟩] c := by
  obtain ⟨pos, kw⟩ := c
  have hkw : kw = [] := keys_nil (accepts_keys h rfl)
  subst hkw
  match pos, h, hu with
  | [], h, _ => exact (false_of_eq_true_false h rfl).elim
  | [_], h, _ => exact (false_of_eq_true_false h rfl).elim
  | [a, b], _, hu =>
    obtain ⟨_, rfl⟩ := userShape_pos hu b (by simp)
    preserved_by_eval
  | [a, b, s], _, hu =>
    obtain ⟨_, rfl⟩ := userShape_pos hu b (by simp)
    obtain ⟨_, rfl⟩ := userShape_pos hu s (by simp)
    preserved_by_eval
  | _ :: _ :: _ :: _ :: r, h, _ =>
    have := accepts_pos_le h rfl
    simp [nPos, posParams, isPos] at this

/-! ### int(x, /, base=10) -/

theorem preserved_int2 (truthy : α → Bool) (c : CallShape α) (hu : userShape c = true)
    (h : accepts [⟨"x", .posOnly, none⟩, ⟨"base", .posOrKw, some "10"⟩] c = true) :
    Preserved truthy "int" [⟨"x", .posOnly, none⟩, ⟨"base", .posOrKw, some "10"⟩] c := by
  obtain ⟨pos, kw⟩ := c
  have hn := (accepts_parts h).2.1
  match pos, h, hu with
  | [], h, _ =>
    have := (accepts_parts h).2.2.2 ⟨"x", .posOnly, none⟩ (List.mem_cons_self ..)
    exact (false_of_eq_true_false this rfl).elim
  | [a], h, hu =>
    have hkeys : ∀ kv ∈ kw, kv.1 ∈ ["base"] := accepts_keys h rfl
    rcases keys_one hn hkeys with rfl | ⟨v, rfl⟩
    · preserved_by_eval
    · obtain ⟨_, hv⟩ := userShape_kw hu ("base", v) (by simp)
      simp only at hv
      subst hv
      preserved_by_eval
  | [a, b], h, hu =>
    have hkw : kw = [] := keys_nil (accepts_keys h rfl)
    subst hkw
    obtain ⟨_, rfl⟩ := userShape_pos hu b (by simp)
    preserved_by_eval
  | _ :: _ :: _ :: r, h, _ =>
    have := accepts_pos_le h rfl
    simp [nPos, posParams, isPos] at this

/-! ### enumerate(iterable, start=0): both parameters positionally or by keyword, in either order -/

theorem preserved_enumerate (truthy : α → Bool) (c : CallShape α)
    (h : accepts [⟨"iterable", .posOrKw, none⟩, ⟨"start", .posOrKw, some "0"⟩] c = true) :
    Preserved truthy "enumerate" [⟨"iterable", .posOrKw, none⟩, ⟨"start", .posOrKw, some "0"⟩] c := by
  obtain ⟨pos, kw⟩ := c
  have hn := (accepts_parts h).2.1
  match pos, h with
  | [], h =>
    have hkeys : ∀ kv ∈ kw, kv.1 ∈ ["iterable", "start"] := accepts_keys h rfl
    rcases keys_two hn hkeys with rfl | ⟨v, rfl⟩ | ⟨v, rfl⟩ | ⟨v, w, rfl⟩ | ⟨v, w, rfl⟩
    · exact (false_of_eq_true_false h rfl).elim
    · preserved_by_eval
    · exact (false_of_eq_true_false h rfl).elim
    · preserved_by_eval
    · preserved_by_eval
  | [a], h =>
    have hkeys : ∀ kv ∈ kw, kv.1 ∈ ["start"] := accepts_keys h rfl
    rcases keys_one hn hkeys with rfl | ⟨v, rfl⟩
    · preserved_by_eval
    · preserved_by_eval
  | [a, b], h =>
    have hkw : kw = [] := keys_nil (accepts_keys h rfl)
    subst hkw
    preserved_by_eval
  | _ :: _ :: _ :: r, h =>
    have := accepts_pos_le h rfl
    simp [nPos, posParams, isPos] at this

/-! ### sorted(iterable, /, *, key=None, reverse=False) -/

theorem preserved_sorted (truthy : α → Bool) (c : CallShape α) (hu : userShape c = true)
    (h : accepts [⟨"iterable", .posOnly, none⟩, ⟨"key", .kwOnly, some "None"⟩, ⟨"reverse", .kwOnly, some "False"⟩] c = true) :
    Preserved truthy "sorted" [⟨"iterable", .posOnly, none⟩, ⟨"key", .kwOnly, some "None"⟩, ⟨"reverse", .kwOnly, some "False"⟩] c := by
  obtain ⟨pos, kw⟩ := c
  have hn := (accepts_parts h).2.1
  match pos, h, hu with
  | [], h, _ =>
    have := (accepts_parts h).2.2.2 ⟨"iterable", .posOnly, none⟩ (List.mem_cons_self ..)
    exact (false_of_eq_true_false this rfl).elim
  | [a], h, hu =>
    have hkeys : ∀ kv ∈ kw, kv.1 ∈ ["key", "reverse"] := accepts_keys h rfl
    rcases keys_two hn hkeys with rfl | ⟨v, rfl⟩ | ⟨v, rfl⟩ | ⟨v, w, rfl⟩ | ⟨v, w, rfl⟩
    · preserved_by_eval
    · obtain ⟨_, hv⟩ := userShape_kw hu ("key", v) (by simp)
      simp only at hv; subst hv
      preserved_by_eval
    · obtain ⟨_, hv⟩ := userShape_kw hu ("reverse", v) (by simp)
      simp only at hv; subst hv
      preserved_by_eval
    · obtain ⟨_, hv⟩ := userShape_kw hu ("key", v) (by simp)
      obtain ⟨_, hw⟩ := userShape_kw hu ("reverse", w) (by simp)
      simp only at hv hw; subst hv hw
      preserved_by_eval
    · obtain ⟨_, hv⟩ := userShape_kw hu ("reverse", v) (by simp)
      obtain ⟨_, hw⟩ := userShape_kw hu ("key", w) (by simp)
      simp only at hv hw; subst hv hw
      preserved_by_eval
  | _ :: _ :: r, h, _ =>
    have := accepts_pos_le h rfl
    simp [nPos, posParams, isPos] at this

/-! ### zip(*iterables, strict=False): `strict` reaches the builtin as `True` or not at all -/

omit [DecidableEq α] in
private theorem pickBranch_truthy (truthy : α → Bool) (env : Env α) (p : String) (v : Val α)
    (b1 b2 : Branch) (hg1 : b1.guards = [.truthy p]) (hg2 : b2.guards = [])
    (hv : lookupVal env p = some v) :
    pickBranch truthy env [b1, b2] = some (if truthyV truthy v then b1 else b2) := by
  cases ht : truthyV truthy v <;> simp [pickBranch, guardsHold, evalGuard, hg1, hg2, hv, ht]

theorem preserved_zip (truthy : α → Bool) (c : CallShape α) (hu : userShape c = true)
    (h : accepts [⟨"iterables", .varPos, none⟩, ⟨"strict", .kwOnly, some "False"⟩] c = true) :
    Preserved truthy "zip" [⟨"iterables", .varPos, none⟩, ⟨"strict", .kwOnly, some "False"⟩] c := by
  obtain ⟨pos, kw⟩ := c
  have hn := (accepts_parts h).2.1
  have hkeys : ∀ kv ∈ kw, kv.1 ∈ ["strict"] := accepts_keys h rfl
  rcases keys_one hn hkeys with rfl | ⟨v, rfl⟩
  · preserved_by_eval
  · obtain ⟨a, hv⟩ := userShape_kw hu ("strict", v) (by simp)
    simp only at hv; subst hv
    cases ht : truthy a
    · refine ⟨⟨"zip", ⟨pos, []⟩, true⟩, ?_, rfl, rfl, ?_⟩
      · rw [forward_unfold truthy "zip" "zip_" _ _ rfl rfl]
        refine callOverload_eq truthy _ _ _ _ _ _ _ ⟨[], ⟨"zip", [], some "iterables", [], none⟩, .value⟩
          rfl rfl rfl rfl rfl ?_ rfl
        rw [pickBranch_truthy truthy _ "strict" (.arg a) _ _ rfl rfl rfl]
        simp [truthyV, ht]
      · simp [envEquiv, envOf, boundOf, boundEquiv, valEquiv, truthParams, truthyV, falsyConsts, ht,
          isPos, isKw, List.lookup]
    · refine ⟨⟨"zip", ⟨pos, [("strict", .const "True")]⟩, true⟩, ?_, rfl, rfl, ?_⟩
      · rw [forward_unfold truthy "zip" "zip_" _ _ rfl rfl]
        refine callOverload_eq truthy _ _ _ _ _ _ _
          ⟨[.truthy "strict"], ⟨"zip", [], some "iterables", [("strict", .lit "True")], none⟩, .value⟩
          rfl rfl rfl rfl rfl ?_ rfl
        rw [pickBranch_truthy truthy _ "strict" (.arg a) _ _ rfl rfl rfl]
        simp [truthyV, ht]
      · simp [envEquiv, envOf, boundOf, boundEquiv, valEquiv, truthParams, truthyV, falsyConsts, ht,
          isPos, isKw, List.lookup]

/-! ### print(*objects, sep=' ', end='\n', file=None, flush=False): forwarded unchanged -/

def printSpec : Signature :=
  [⟨"objects", .varPos, none⟩, ⟨"sep", .kwOnly, some "' '"⟩, ⟨"end", .kwOnly, some "'\\n'"⟩,
   ⟨"file", .kwOnly, some "None"⟩, ⟨"flush", .kwOnly, some "False"⟩]

theorem preserved_print (truthy : α → Bool) (c : CallShape α) (h : accepts printSpec c = true) :
    Preserved truthy "print" printSpec c := by
  obtain ⟨pos, kw⟩ := c
  have hn : keysNodup kw = true := (accepts_parts h).2.1
  have hkeys : ∀ kv ∈ kw, kv.1 ∈ ["sep", "end", "file", "flush"] := accepts_keys h rfl
  have hb : bind [⟨"objects", .varPos, none⟩, ⟨"kwargs", .varKw, none⟩] (⟨pos, kw⟩ : CallShape α)
      = .ok [("objects", .star pos), ("kwargs", .dstar kw)] := by
    rw [bind_of_accepts (by rw [accepts_star_dstar]; exact hn), envOf_star_dstar]
  refine ⟨⟨"print", ⟨pos, kw⟩, false⟩, ?_, rfl, h, envEquiv_refl _ _ _⟩
  rw [forward_unfold truthy "print" "print_" _ _ rfl rfl]
  refine callOverload_eq truthy _ _ ⟨pos, kw⟩ ⟨pos, kw⟩ _ _ _
    ⟨[], ⟨"print", [], some "objects", [], some "kwargs"⟩, .discard⟩ hb ?_ rfl rfl hb rfl rfl
  have : kw.all (fun kv => ["sep", "end", "file", "flush"].contains kv.1) = true := by
    apply List.all_eq_true.mpr
    intro kv hkv
    exact List.contains_iff_mem.mpr (hkeys kv hkv)
  simpa [kwAllowed, List.lookup] using this

end Malt.Builtins
