import MaltModel.Proofs.C08FreesModel
/-
Helper development for `C08_frees_nested`, part 3: the statement level of `readRelE`.
-/
namespace Malt.Analysis
open Malt.Py Malt.Spec

mutual
theorem readRelS : (s : Stmt) → FragS s = true → SpecOkS s = true → (fns : List FnCtx) →
    (Dom Denc Lenc : List String) → (a : Acc) → Hyp Dom Denc Lenc (collectS s a) →
    RR Dom (effS fns s) a (collectS s a)
  | .ret _ v, hf, _, fns, Dom, Denc, Lenc, a, H => by
      simp only [FragS] at hf
      simp only [collectS] at H ⊢
      simp only [effS]
      exact (readRelEs v hf fns false false Dom Denc Lenc a H).exp
  | .delete _ ts, hf, _, fns, Dom, Denc, Lenc, a, H => by
      simp only [FragS] at hf
      simp only [collectS] at H ⊢
      simp only [effS]
      exact (readRelEs ts hf fns false false Dom Denc Lenc a H).exp
  | .expr _ v, hf, _, fns, Dom, Denc, Lenc, a, H => by
      simp only [FragS] at hf
      simp only [collectS] at H ⊢
      simp only [effS]
      exact (readRelE v hf fns false false Dom Denc Lenc a H).exp
  | .assign _ ts v, hf, _, fns, Dom, Denc, Lenc, a, H => by
      simp only [FragS, Bool.and_eq_true] at hf
      simp only [collectS] at H ⊢
      simp only [effS]
      have H1 := H.ofE (collectE_spec v hf.2 _)
      exact ((readRelEs ts hf.1 fns false false Dom Denc Lenc a H1).trans (readRelE v hf.2 fns false false Dom Denc Lenc _ H)).exp
  | .augAssign _ t _ v, hf, _, fns, Dom, Denc, Lenc, a, H => by
      simp only [FragS, Bool.and_eq_true] at hf
      simp only [collectS] at H ⊢
      simp only [effS]
      have H1 := H.ofE (collectE_spec v hf.2 _)
      exact ((readRelE t hf.1 fns true false Dom Denc Lenc a H1).trans (readRelE v hf.2 fns false false Dom Denc Lenc _ H)).exp
  | .raise _ e c, hf, _, fns, Dom, Denc, Lenc, a, H => by
      simp only [FragS, Bool.and_eq_true] at hf
      simp only [collectS] at H ⊢
      simp only [effS]
      have H1 := H.ofE (collectEs_spec c hf.2 _)
      exact ((readRelEs e hf.1 fns false false Dom Denc Lenc a H1).trans (readRelEs c hf.2 fns false false Dom Denc Lenc _ H)).exp
  | .assert_ _ t m, hf, _, fns, Dom, Denc, Lenc, a, H => by
      simp only [FragS, Bool.and_eq_true] at hf
      simp only [collectS] at H ⊢
      simp only [effS]
      have H1 := H.ofE (collectEs_spec m hf.2 _)
      exact ((readRelE t hf.1 fns false false Dom Denc Lenc a H1).trans (readRelEs m hf.2 fns false false Dom Denc Lenc _ H)).exp
  | .annAssign _ t an v simple, hf, hs, fns, Dom, Denc, Lenc, a, H => by
      simp only [FragS, Bool.and_eq_true] at hf
      simp only [effS]
      have hrest : ∀ a0 : Acc, Hyp Dom Denc Lenc (collectEs false v (collectE false an a0)) →
          RR Dom (effE fns false true an ++ effEs fns false false v) a0 (collectEs false v (collectE false an a0)) :=
        fun a0 H0 => (readRelE an hf.1.2 fns false true Dom Denc Lenc a0 (H0.ofE (collectEs_spec v hf.2 _))).trans
          (readRelEs v hf.2 fns false false Dom Denc Lenc _ H0)
      cases t with
      | name i n c =>
        simp only [SpecOkS, Bool.and_eq_true, bne_iff_ne, ne_eq] at hs
        simp only [collectS, hs.2, ↓reduceIte] at H ⊢
        have H1 := (H.ofE (collectEs_spec v hf.2 _)).ofE (collectE_spec an hf.1.2 _)
        have hn : n ∈ Dom := H1.binds n (by simp [Acc.bind])
        have hb : RR Dom (effE fns false false (.name i n c)) a (a.bind n) := by
          intro x hx
          have hne : x ≠ n := fun h => hx (h ▸ hn)
          cases c with
          | load => exact absurd rfl hs.1
          | store => simp [effE, trackEff, accNeeds, Acc.bind]
          | del => simp [effE, trackEff, accNeeds, Acc.bind, hne]
        exact ((hb.trans (hrest _ H)).congr (by intro x; simp; grind)).exp
      | _ =>
        simp only [collectS] at H ⊢
        have H1 := (H.ofE (collectEs_spec v hf.2 _)).ofE (collectE_spec an hf.1.2 _)
        exact (((readRelE _ hf.1.1 fns false false Dom Denc Lenc a H1).trans (hrest _ H)).congr (by intro x; simp; grind)).exp
  | .import_ _ names, _, _, fns, Dom, _, _, a, _ => by
      intro x _
      simp only [effS, collectS, foldl_bind_needs]
      simp [aliasEff]
  | .importFrom _ _ names _, _, _, fns, Dom, _, _, a, _ => by
      intro x _
      simp only [effS, collectS, foldl_bind_needs]
      simp [aliasEff]
  | .global _ names, _, _, fns, Dom, _, _, a, H => by
      intro x hx
      have hn : x ∉ names := fun h => hx (H.globals x (by simp [collectS, h]))
      simp [effS, collectS, globalEff, accNeeds, hn]
  | .nonlocal _ names, _, _, fns, Dom, _, _, a, H => by
      intro x hx
      have hn : x ∉ names := fun h => hx (H.nonlocals x (by simp [collectS, h]))
      simp [effS, collectS, nonlocalEff, accNeeds, hn]
  | .pass _, _, _, _, Dom, _, _, a, _ => by simpa [effS, collectS] using RR.refl Dom a
  | .break_ _, _, _, _, Dom, _, _, a, _ => by simpa [effS, collectS] using RR.refl Dom a
  | .continue_ _, _, _, _, Dom, _, _, a, _ => by simpa [effS, collectS] using RR.refl Dom a
  | .other _ _ es bs, hf, hs, fns, Dom, Denc, Lenc, a, H => by
      simp only [FragS, Bool.and_eq_true] at hf
      simp only [SpecOkS] at hs
      simp only [collectS] at H ⊢
      simp only [effS]
      have H1 := H.ofS (collectSs_spec bs hf.2 hs _)
      exact (readRelEs es hf.1 fns false false Dom Denc Lenc a H1).trans (readRelSs bs hf.2 hs fns Dom Denc Lenc _ H)
  | .try_ _ b h o f, hf, hs, fns, Dom, Denc, Lenc, a, H => by
      simp only [FragS, Bool.and_eq_true] at hf
      simp only [SpecOkS, Bool.and_eq_true] at hs
      simp only [collectS] at H ⊢
      simp only [effS]
      have H3 := H.ofS (collectSs_spec f hf.2 hs.2 _)
      have H2 := H3.ofS (collectSs_spec o hf.1.2 hs.1.2 _)
      have H1 := H2.ofS (collectSs_spec h hf.1.1.2 hs.1.1.2 _)
      exact (((readRelSs b hf.1.1.1 hs.1.1.1 fns Dom Denc Lenc a H1).trans (readRelSs h hf.1.1.2 hs.1.1.2 fns Dom Denc Lenc _ H2)).trans
        (readRelSs o hf.1.2 hs.1.2 fns Dom Denc Lenc _ H3)).trans (readRelSs f hf.2 hs.2 fns Dom Denc Lenc _ H)
  | .handler _ ty name body, hf, hs, fns, Dom, Denc, Lenc, a, H => by
      simp only [FragS, Bool.and_eq_true] at hf
      simp only [SpecOkS, Bool.and_eq_true, List.isEmpty_iff] at hs
      obtain ⟨hn, hb⟩ := hs
      subst hn
      simp only [collectS, List.foldl_nil] at H ⊢
      simp only [effS]
      have H1 := H.ofS (collectSs_spec body hf.2 hb _)
      exact ((readRelEs ty hf.1 fns false false Dom Denc Lenc a H1).trans (readRelSs body hf.2 hb fns Dom Denc Lenc _ H)).exp
  | .with_ _ items body _, hf, hs, fns, Dom, Denc, Lenc, a, H => by
      simp only [FragS, Bool.and_eq_true] at hf
      simp only [SpecOkS] at hs
      simp only [collectS] at H ⊢
      simp only [effS]
      have H1 := H.ofS (collectSs_spec body hf.2 hs _)
      exact ((readRelEs items hf.1.1.2 fns false false Dom Denc Lenc a H1).trans (readRelSs body hf.2 hs fns Dom Denc Lenc _ H)).exp
  | .if_ _ t body orelse, hf, hs, fns, Dom, Denc, Lenc, a, H => by
      simp only [FragS, Bool.and_eq_true] at hf
      simp only [SpecOkS, Bool.and_eq_true] at hs
      simp only [collectS] at H ⊢
      simp only [effS]
      have H2 := H.ofS (collectSs_spec orelse hf.2 hs.2 _)
      have H1 := H2.ofS (collectSs_spec body hf.1.2 hs.1 _)
      exact (((readRelE t hf.1.1 fns false false Dom Denc Lenc a H1).trans (readRelSs body hf.1.2 hs.1 fns Dom Denc Lenc _ H2)).trans
        (readRelSs orelse hf.2 hs.2 fns Dom Denc Lenc _ H)).congr (by intro x; simp)
  | .while_ _ t body orelse, hf, hs, fns, Dom, Denc, Lenc, a, H => by
      simp only [FragS, Bool.and_eq_true] at hf
      simp only [SpecOkS, Bool.and_eq_true] at hs
      simp only [collectS] at H ⊢
      simp only [effS]
      have H2 := H.ofS (collectSs_spec orelse hf.2 hs.2 _)
      have H1 := H2.ofS (collectSs_spec body hf.1.2 hs.1 _)
      exact (((readRelE t hf.1.1 fns false false Dom Denc Lenc a H1).trans (readRelSs body hf.1.2 hs.1 fns Dom Denc Lenc _ H2)).trans
        (readRelSs orelse hf.2 hs.2 fns Dom Denc Lenc _ H)).congr (by intro x; simp)
  | .for_ _ t it body orelse extra _, hf, hs, fns, Dom, Denc, Lenc, a, H => by
      simp only [FragS, Bool.and_eq_true, List.isEmpty_iff] at hf
      obtain ⟨⟨⟨⟨⟨_, hx⟩, ht⟩, hit⟩, hb⟩, ho⟩ := hf
      subst hx
      simp only [SpecOkS, Bool.and_eq_true] at hs
      simp only [collectS, collectEs] at H ⊢
      simp only [effS]
      have H3 := H.ofS (collectSs_spec orelse ho hs.2 _)
      have H2 := H3.ofS (collectSs_spec body hb hs.1 _)
      have H1 := H2.ofE (collectE_spec it hit _)
      exact ((((readRelE t ht fns false false Dom Denc Lenc a H1).trans (readRelE it hit fns false false Dom Denc Lenc _ H2)).trans
        (readRelSs body hb hs.1 fns Dom Denc Lenc _ H3)).trans (readRelSs orelse ho hs.2 fns Dom Denc Lenc _ H)).congr
        (by intro x; simp; grind)
  | .classDef i name bases kws body decos, hf, hs, fns, Dom, Denc, Lenc, a, H => by
      simp only [FragS, Bool.and_eq_true] at hf
      obtain ⟨⟨⟨hb, hk⟩, hd⟩, hbody⟩ := hf
      simp only [SpecOkS] at hs
      simp only [collectS] at H ⊢
      simp only [effS]
      obtain ⟨H3, hG, hL, hS⟩ := H.child
      have H2 := H3.ofE (collectEs_spec decos hd _)
      have H1 := H2.ofE (collectEs_spec kws hk _)
      have R1 := (((RR.bind Dom a name).trans (readRelEs bases hb (.cls i :: fns) false false Dom Denc Lenc _ H1)).trans
        (readRelEs kws hk (.cls i :: fns) false false Dom Denc Lenc _ H2)).trans
        (readRelEs decos hd (.cls i :: fns) false false Dom Denc Lenc _ H3)
      -- the header binds / leaks nothing outside `Dom`
      have hCh := ((collectEs_spec bases hb (a.bind name)).trans (collectEs_spec kws hk _)).trans (collectEs_spec decos hd _)
      obtain ⟨newH, hnewH, hcovH⟩ := hCh.children
      have hLH : leaksBs Lenc newH = [] := by
        have := H3.noL
        rw [hnewH, leaksBs_append] at this
        simp only [List.append_eq_nil_iff] at this
        exact this.2
      have hhdr : ∀ x, x ∉ Dom → QN.sym x ∉ (effEs (.cls i :: fns) false false bases ++ effEs (.cls i :: fns) false false kws ++
          effEs (.cls i :: fns) false false decos).bound := by
        intro x hx
        have hS0 := ((SetsAre.ofEs (fns := .cls i :: fns) (aug := false) (anno := false) bases hb).append
          (SetsAre.ofEs (fns := .cls i :: fns) (aug := false) (anno := false) kws hk)).append
          (SetsAre.ofEs (fns := .cls i :: fns) (aug := false) (anno := false) decos hd)
        rw [hS0.bound]
        simp only [List.append_nil, List.not_mem_nil, false_or]
        rintro (h | h)
        · exact hx (H3.binds x ((hCh.binds x).mpr (Or.inl (by simpa using h))))
        · by_cases hl : x ∈ Lenc
          · exact hx (H3.lenc x hl)
          · have := hcovH Lenc x (by simpa using h) hl
            rw [hLH] at this
            simp at this
      -- the class block
      have hC := collectSs_spec body hbody hs {}
      obtain ⟨new, hnew, hcov⟩ := hC.children
      simp only [List.nil_append] at hnew
      have hM := effSs_sets body hbody (.cls i :: fns)
      generalize hin : collectSs body {} = inner at *
      simp only [Acc.toBlock, declBelowB, leaksB, shadowB, List.append_eq_nil_iff, List.filter_eq_nil_iff,
        BlockKind.isComp, beq_self_eq_true, ↓reduceIte, Bool.false_eq_true, Bool.or_self, true_and,
        (by decide : (BlockKind.class_ == BlockKind.function) = false),
        (by decide : (BlockKind.class_ == BlockKind.lambda) = false)] at hG hL hS
      have hgD : ∀ x ∈ inner.globals, x ∈ Dom := fun x hx => H3.denc x (by simpa using hG.1 x hx)
      have hp0 : inner.params = [] := hC.params
      have HI : Hyp (Dom ++ inner.binds ++ inner.nonlocals) Denc (inner.params ++ inner.binds ++ inner.globals ++ inner.nonlocals) inner :=
        ⟨fun x hx => by simp [hx], fun x hx => by simp [hgD x hx], fun x hx => by simp [hx],
          fun x hx => by
            simp only [List.mem_append] at hx ⊢
            rcases hx with ((hx | hx) | hx) | hx
            · rw [hp0] at hx; simp at hx
            · exact Or.inl (Or.inr hx)
            · exact Or.inl (Or.inl (hgD x hx))
            · exact Or.inr hx,
          fun x hx => by simp [H3.denc x hx], hG.2, hL, hS.2⟩
      have RI := readRelSs body hbody hs (.cls i :: fns) _ _ _ {} (by rw [hin]; exact HI)
      rw [hin] at RI
      have hnlI : ∀ x, QN.sym x ∈ (effSs (.cls i :: fns) body).nonlocals ↔ x ∈ inner.nonlocals := by
        intro x; rw [hM.nonlocals, hC.nonlocals]; simp
      have hglI : ∀ x, QN.sym x ∈ (effSs (.cls i :: fns) body).globals ↔ x ∈ inner.globals := by
        intro x; rw [hM.globals, hC.globals]; simp
      have hrel := class_block_rel i name inner (effSs (.cls i :: fns) body) Dom (ownLeaksSs body) hp0 hC.walrus hgD
        (by
          intro x
          rw [hM.bound, hC.binds, hC.nonlocals]
          simp)
        (fun x hx => (effSs_declRead body (.cls i :: fns)).sub _ (Or.inl ((hnlI x).mpr hx)))
        (by
          intro x hx
          by_cases hdd : x ∈ inner.params ++ inner.binds ++ inner.globals ++ inner.nonlocals
          · exact hdd
          · exfalso
            have := hcov _ x hx hdd
            rw [← hnew, hL] at this
            simp at this)
        (by
          apply List.filter_eq_nil_iff.mpr
          intro x hx
          exact hS.1 x hx)
        RI
      intro x hx
      rw [accNeeds_child]
      have h1 := R1 x hx
      have h2 := hrel x hx
      have h3 := hhdr x hx
      have h4 : QN.sym x ∉ (effSs (.cls i :: fns) body).globals := fun h => hx (hgD x ((hglI x).mp h))
      have h5 := hnlI x
      simp only [Eff.append_read, Eff.append_bound, Eff.append_nonlocals, Eff.append_globals, effEs_nonlocals, effEs_globals,
        Eff.exported_false_read', Eff.exported_true_read, QSet.mem_diff,
        List.mem_append, List.not_mem_nil, false_or, or_false, List.nil_append, List.append_nil] at h1 h2 h3 ⊢
      grind
  | .functionDef i name args body decos returns _, hf, hs, fns, Dom, Denc, Lenc, a, H => by
      cases args with
      | arguments ai po ar va ko kd kw df =>
        simp only [FragS, Bool.and_eq_true, Bool.not_eq_true'] at hf
        obtain ⟨⟨⟨⟨_, ⟨⟨⟨⟨⟨⟨hpo, har⟩, hva⟩, hko⟩, hkw⟩, hkd⟩, hdf⟩⟩, hdec⟩, hret⟩, hbody⟩ := hf
        simp only [SpecOkS] at hs
        have hann : Spec.argAnnotations (po ++ ar ++ va ++ ko ++ kw) = [] :=
          argAnnotations_plain _ (by simp [List.all_append, hpo, har, hva, hko, hkw])
        simp only [collectS, hann, collectEs] at H ⊢
        simp only [effS]
        obtain ⟨H4, hG, hL, hS⟩ := H.child
        have H3 := H4.ofE (collectEs_spec decos hdec _)
        have H2 := H3.ofE (collectEs_spec returns hret _)
        have H1 := H2.ofE (collectEs_spec kd hkd _)
        have R1 := ((((RR.bind Dom a name).trans (readRelEs df hdf (.fn i name :: fns) false false Dom Denc Lenc _ H1)).trans
          (readRelEs kd hkd (.fn i name :: fns) false false Dom Denc Lenc _ H2)).trans
          (readRelEs returns hret (.fn i name :: fns) false true Dom Denc Lenc _ H3)).trans
          (readRelEs decos hdec (.fn i name :: fns) false false Dom Denc Lenc _ H4)
        have hC := collectSs_spec body hbody hs { params := (po ++ ar ++ ko ++ va ++ kw).filterMap paramName }
        obtain ⟨new, hnew, hcov⟩ := hC.children
        simp only [List.nil_append] at hnew
        have hM := effSs_sets body hbody (.fn i name :: fns)
        generalize hin : collectSs body { params := (po ++ ar ++ ko ++ va ++ kw).filterMap paramName } = inner at *
        simp only [Acc.toBlock, declBelowB, leaksB, shadowB, List.append_eq_nil_iff, List.filter_eq_nil_iff,
          BlockKind.isComp, beq_self_eq_true, Bool.true_or, ↓reduceIte, Bool.false_eq_true, reduceCtorEq,
          List.nil_append] at hG hL hS
        have hgD : ∀ x ∈ inner.globals, x ∈ Dom := fun x hx => H4.denc x (by simpa using hG.1 x hx)
        have HI : Hyp (inner.params ++ inner.binds ++ inner.globals ++ inner.nonlocals)
            (inner.params ++ inner.binds ++ inner.globals ++ inner.nonlocals)
            (inner.params ++ inner.binds ++ inner.globals ++ inner.nonlocals) inner :=
          ⟨fun x hx => by simp [hx], fun x hx => by simp [hx], fun x hx => by simp [hx], fun x hx => hx, fun x hx => hx,
            hG.2, hL.2, hS.2⟩
        have RI := readRelSs body hbody hs (.fn i name :: fns) _ _ _ { params := (po ++ ar ++ ko ++ va ++ kw).filterMap paramName }
          (by rw [hin]; exact HI)
        rw [hin] at RI
        have hrel := fun_block_rel i .function name rfl inner.params (ownLeaksSs body) inner
          (effSs (.fn i name :: fns) body)
          (({ bound := paramNames po ar va ko kw } : Eff).exported false ++ (effSs (.fn i name :: fns) body).exported false)
          rfl hC.walrus (by intro x; simp)
          (by
            intro x
            simp only [Eff.append_bound, Eff.exported_false_bound', List.mem_append, hM.bound, mem_paramNames_iff]
            rw [hC.params, mem_specParams_iff, hC.binds, hC.nonlocals]
            simp)
          (by intro x; simp [hM.nonlocals, hC.nonlocals])
          (by intro x; simp [hM.globals, hC.globals])
          (by
            intro x hx
            have hx' : x ∈ ownDeclsSs false body := by
              have := (hC.nonlocals x).mp hx
              simpa using this
            have := (effSs_declRead body (.fn i name :: fns)).sub (.sym x) (Or.inl ((hM.nonlocals x).mpr hx'))
            simpa using this)
          (by
            intro x hx
            by_cases hd : x ∈ inner.params ++ inner.binds ++ inner.globals ++ inner.nonlocals
            · exact hd
            · exfalso
              have := hcov _ x hx hd
              rw [← hnew, hL.2] at this
              simp at this)
          (by rw [hC.params] at RI ⊢; exact RI)
        have Rc : RR Dom ((({ bound := paramNames po ar va ko kw } : Eff).exported false ++
            (effSs (.fn i name :: fns) body).exported false).exported true)
            (collectEs false decos (collectEs false returns (collectEs false kd (collectEs false df (a.bind name)))))
            ((collectEs false decos (collectEs false returns (collectEs false kd (collectEs false df (a.bind name))))).child
              (inner.toBlock i .function name)) := by
          intro x hx
          rw [accNeeds_child]
          have := hrel x (fun h => hx (hgD x h))
          simp only [Eff.exported_true_read]
          grind
        exact (R1.trans Rc).congr (by intro x; simp; grind)
      | _ => simp [FragS] at hf
theorem readRelSs : (ss : List Stmt) → FragSs ss = true → SpecOkSs ss = true → (fns : List FnCtx) →
    (Dom Denc Lenc : List String) → (a : Acc) → Hyp Dom Denc Lenc (collectSs ss a) →
    RR Dom (effSs fns ss) a (collectSs ss a)
  | [], _, _, _, Dom, _, _, a, _ => by simpa [effSs, collectSs] using RR.refl Dom a
  | s :: rest, hf, hs, fns, Dom, Denc, Lenc, a, H => by
      simp only [FragSs, Bool.and_eq_true] at hf
      simp only [SpecOkSs, Bool.and_eq_true] at hs
      simp only [collectSs] at H ⊢
      simp only [effSs]
      have H1 := H.ofS (collectSs_spec rest hf.2 hs.2 _)
      exact (readRelS s hf.1 hs.1 fns Dom Denc Lenc a H1).trans (readRelSs rest hf.2 hs.2 fns Dom Denc Lenc _ H)
end

end Malt.Analysis
