import MaltModel.Rt.Cache
/-!
Helper lemmas for C10: the dictionary operations of the cache model.
-/
namespace Malt.Cache

section keys
variable {Opts Factory : Type} [BEq Opts] [Hashable Opts] [LawfulBEq Opts]

theorem keyMatch_iff (a b : Opts) : keyMatch a b = true ↔ a = b := by
  unfold keyMatch
  constructor
  · intro h
    simp only [Bool.and_eq_true, beq_iff_eq] at h
    exact h.2
  · rintro rfl
    simp

theorem keyMatch_self (a : Opts) : keyMatch a a = true := (keyMatch_iff a a).mpr rfl

theorem keyMatch_ne {a b : Opts} (h : a ≠ b) : keyMatch a b = false := by
  cases hk : keyMatch a b with
  | false => rfl
  | true => exact absurd ((keyMatch_iff a b).mp hk) h

theorem bfind_bset_self (o : Opts) (f : Factory) (bk : List (Opts × Factory)) :
    bfind o (bset o f bk) = some f := by
  induction bk with
  | nil => simp [bset, bfind, keyMatch_self]
  | cons e r ih =>
    obtain ⟨k, v⟩ := e
    by_cases hk : keyMatch k o = true
    · simp [bset, bfind, hk]
    · simp [bset, bfind, hk, ih]

theorem bfind_bset_ne {o o' : Opts} (h : o' ≠ o) (f : Factory) (bk : List (Opts × Factory)) :
    bfind o (bset o' f bk) = bfind o bk := by
  induction bk with
  | nil => simp [bset, bfind, keyMatch_ne h]
  | cons e r ih =>
    obtain ⟨k, v⟩ := e
    by_cases hk : keyMatch k o' = true
    · have : k = o' := (keyMatch_iff _ _).mp hk
      subst this
      simp [bset, bfind, hk, keyMatch_ne h]
    · by_cases hk2 : keyMatch k o = true
      · simp [bset, bfind, hk, hk2]
      · simp [bset, bfind, hk, hk2, ih]

theorem bfind_mem {o : Opts} {f : Factory} {bk : List (Opts × Factory)} (h : bfind o bk = some f) :
    (o, f) ∈ bk := by
  induction bk with
  | nil => simp [bfind] at h
  | cons e r ih =>
    obtain ⟨k, v⟩ := e
    by_cases hk : keyMatch k o = true
    · have : k = o := (keyMatch_iff _ _).mp hk
      subst this
      simp only [bfind, hk, if_true, Option.some.injEq] at h
      subst h
      exact List.mem_cons_self
    · simp only [bfind, hk] at h
      exact List.mem_cons_of_mem _ (ih h)

theorem mem_bset {o k : Opts} {f g : Factory} {bk : List (Opts × Factory)} (h : (k, g) ∈ bset o f bk) :
    (k, g) ∈ bk ∨ (k = o ∧ g = f) := by
  induction bk with
  | nil =>
    simp only [bset, List.mem_singleton, Prod.mk.injEq] at h
    exact Or.inr h
  | cons e r ih =>
    obtain ⟨k', v⟩ := e
    by_cases hk : keyMatch k' o = true
    · have hko : k' = o := (keyMatch_iff _ _).mp hk
      simp only [bset, hk, if_true, List.mem_cons, Prod.mk.injEq] at h
      rcases h with ⟨h1, h2⟩ | h
      · exact Or.inr ⟨h1.trans hko, h2⟩
      · exact Or.inl (List.mem_cons_of_mem _ h)
    · simp only [bset, hk] at h
      rcases List.mem_cons.mp h with heq | h
      · exact Or.inl (heq ▸ List.mem_cons_self)
      · rcases ih h with h | h
        · exact Or.inl (List.mem_cons_of_mem _ h)
        · exact Or.inr h

theorem bfind_bset_isSome {o o' : Opts} (f : Factory) {bk : List (Opts × Factory)}
    (h : (bfind o bk).isSome = true) : (bfind o (bset o' f bk)).isSome = true := by
  by_cases ho : o' = o
  · subst ho; simp [bfind_bset_self]
  · rw [bfind_bset_ne ho]; exact h

end keys

section outer

theorem ofind_oset (c c' : Code) (b : Nat) (m : List (Code × Nat)) :
    ofind c (oset c' b m) = if c'.val = c.val then some b else ofind c m := by
  induction m with
  | nil => simp [oset, ofind]
  | cons e r ih =>
    obtain ⟨k, b'⟩ := e
    by_cases hk : k.val = c'.val
    · by_cases hc : c'.val = c.val
      · simp [oset, ofind, hk, hc]
      · have : ¬ k.val = c.val := fun h => hc (hk ▸ h)
        simp [oset, ofind, hk, hc, this]
    · have e1 : oset c' b ((k, b') :: r) = (k, b') :: oset c' b r := by simp [oset, hk]
      rw [e1]
      by_cases hk2 : k.val = c.val
      · have : ¬ c'.val = c.val := fun h => hk (hk2.trans h.symm)
        simp [ofind, hk2, this]
      · simp [ofind, hk2, ih]

theorem oset_of_ofind_none {c : Code} {m : List (Code × Nat)} (b : Nat) (h : ofind c m = none) :
    oset c b m = m ++ [(c, b)] := by
  induction m with
  | nil => simp [oset]
  | cons e r ih =>
    obtain ⟨k, b'⟩ := e
    by_cases hk : k.val = c.val
    · simp [ofind, hk] at h
    · simp only [ofind, hk] at h
      simp [oset, hk, ih h]

theorem ofind_mem {c : Code} {b : Nat} {m : List (Code × Nat)} (h : ofind c m = some b) :
    ∃ k, (k, b) ∈ m ∧ k.val = c.val := by
  induction m with
  | nil => simp [ofind] at h
  | cons e r ih =>
    obtain ⟨k, b'⟩ := e
    by_cases hk : k.val = c.val
    · simp only [ofind, hk, if_true, Option.some.injEq] at h
      subst h
      exact ⟨k, List.mem_cons_self, hk⟩
    · simp only [ofind, hk] at h
      obtain ⟨k', hm, hv⟩ := ih h
      exact ⟨k', List.mem_cons_of_mem _ hm, hv⟩

theorem ofind_none_of_mem {c : Code} {m : List (Code × Nat)} (h : ofind c m = none) :
    ∀ e ∈ m, e.1.val ≠ c.val := by
  induction m with
  | nil => simp
  | cons e r ih =>
    obtain ⟨k, b'⟩ := e
    by_cases hk : k.val = c.val
    · simp [ofind, hk] at h
    · simp only [ofind, hk] at h
      intro e he
      rcases List.mem_cons.mp he with rfl | he
      · exact hk
      · exact ih h e he

theorem mem_oset {c : Code} {b : Nat} {m : List (Code × Nat)} {e : Code × Nat} (h : e ∈ oset c b m) :
    e ∈ m ∨ (e.2 = b ∧ e.1.val = c.val) := by
  induction m with
  | nil =>
    simp only [oset, List.mem_singleton] at h
    subst h; exact Or.inr ⟨rfl, rfl⟩
  | cons e' r ih =>
    obtain ⟨k, b'⟩ := e'
    by_cases hk : k.val = c.val
    · simp only [oset, hk, if_true, List.mem_cons] at h
      rcases h with rfl | h
      · exact Or.inr ⟨rfl, hk⟩
      · exact Or.inl (List.mem_cons_of_mem _ h)
    · simp only [oset, hk] at h
      rcases List.mem_cons.mp h with rfl | h
      · exact Or.inl List.mem_cons_self
      · rcases ih h with h | h
        · exact Or.inl (List.mem_cons_of_mem _ h)
        · exact Or.inr h

theorem mem_ogc {c : Code} {m : List (Code × Nat)} {e : Code × Nat} :
    e ∈ ogc c m ↔ e ∈ m ∧ e.1 ≠ c := by
  simp [ogc, List.mem_filter]

/-- Removing the entry of key object `c'` does not change what a lookup of `c` finds, as long as
no *other* key object in the dictionary has the value of `c`. -/
theorem ofind_ogc {c c' : Code} {m : List (Code × Nat)}
    (h : ∀ e ∈ m, e.1 = c' → e.1.val ≠ c.val) : ofind c (ogc c' m) = ofind c m := by
  induction m with
  | nil => simp [ogc, ofind]
  | cons e r ih =>
    obtain ⟨k, b'⟩ := e
    have ih' := ih (fun e he => h e (List.mem_cons_of_mem _ he))
    unfold ogc at ih' ⊢
    by_cases hk : k = c'
    · have hv : ¬ k.val = c.val := h (k, b') List.mem_cons_self hk
      rw [List.filter_cons_of_neg (by simp [hk])]
      rw [ih']
      simp [ofind, hv]
    · rw [List.filter_cons_of_pos (by simp [hk])]
      by_cases hv : k.val = c.val
      · simp [ofind, hv]
      · simp only [ofind, hv, if_false]
        exact ih'

end outer

section heap
variable {Opts Factory : Type} [BEq Opts] [Hashable Opts]

theorem hstore_length (b : Nat) (o : Opts) (f : Factory) (h : List (Nat × List (Opts × Factory))) :
    (hstore b o f h).length = h.length := by
  unfold hstore
  split <;> simp

theorem hstore_get (b b' : Nat) (o : Opts) (f : Factory) (h : List (Nat × List (Opts × Factory))) :
    (hstore b o f h)[b']? =
      if b' = b then (h[b]?).map (fun e => (e.1, bset o f e.2)) else h[b']? := by
  unfold hstore
  by_cases hb : b' = b
  · subst hb
    cases hh : h[b']? with
    | none => simp [hh]
    | some e =>
      have hlt : b' < h.length := by
        rcases Nat.lt_or_ge b' h.length with hlt | hge
        · exact hlt
        · rw [List.getElem?_eq_none hge] at hh; cases hh
      simp [hh, List.getElem?_set, hlt]
  · cases hh : h[b]? with
    | none => simp [hb]
    | some e =>
      have : ¬ b = b' := fun h => hb h.symm
      simp [hb, List.getElem?_set, this]

end heap

end Malt.Cache
