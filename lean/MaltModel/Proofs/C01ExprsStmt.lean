import MaltModel.Sem.WrappersStmt
import MaltModel.Proofs.C01Exprs
/-
Helper development for the program-level theorems of Props/C01Exprs.lean:
`gexec_map_congr` (replacing every expression of a program by one that evaluates the same leaves the run
unchanged) and `exec_eq_gexec` (`Malt.Sem.exec` is `gexec (evalE X)`).
-/
namespace Malt.C01Exprs
open Malt.Sem (Name Val BinOp Exc Event St Ext Out truthy iterItems)
open Malt.SemW

section congr
variable {ε ε' : Type} (f : ε → ε') (ev' : ε' → St → Except Exc Val × St) (ev : ε → St → Except Exc Val × St)
  (q : ε → Bool) (hq : ∀ e, q e = true → ∀ σ, ev' (f e) σ = ev e σ)

theorem gfindHandler_map : ∀ (hs : List (Nat × GBlock ε)) (ex : Exc),
    gfindHandler (gmapH f hs) ex = (gfindHandler hs ex).map (gmapB f) := by
  intro hs ex
  cases ex with
  | user t =>
      induction hs with
      | nil => simp [gmapH, gfindHandler]
      | cons h hs ih =>
          obtain ⟨t', b⟩ := h
          simp only [gmapH, gfindHandler, List.find?] at ih ⊢
          by_cases ht : (t' == t) = true
          · simp [ht]
          · simp [ht]; simpa using ih
  | nameError x => simp [gfindHandler]
  | typeError => simp [gfindHandler]

theorem gallH_find : ∀ (hs : List (Nat × GBlock ε)) (ex : Exc) (b : GBlock ε),
    gallH q hs = true → gfindHandler hs ex = some b → gallB q b = true := by
  intro hs ex b hall hf
  cases ex with
  | user t =>
      induction hs with
      | nil => simp [gfindHandler] at hf
      | cons h hs ih =>
          obtain ⟨t', b'⟩ := h
          simp only [gallH, Bool.and_eq_true] at hall
          simp only [gfindHandler, List.find?] at hf ih
          by_cases ht : (t' == t) = true
          · simp [ht] at hf; subst hf; exact hall.1
          · simp [ht] at hf; exact ih hall.2 (by simpa using hf)
  | nameError x => simp [gfindHandler] at hf
  | typeError => simp [gfindHandler] at hf

include hq in
/-- One induction on the fuel for statements, blocks and `for` iterations. -/
theorem gexec_map_congr_all : ∀ (n : Nat),
    (∀ (s : GStmt ε) (σ : St), gallS q s = true → gexec ev' n (gmapS f s) σ = gexec ev n s σ) ∧
    (∀ (b : GBlock ε) (σ : St), gallB q b = true → gexecB ev' n (gmapB f b) σ = gexecB ev n b σ) ∧
    (∀ (x : Name) (extra : Option ε) (b : GBlock ε) (items : List Val) (σ : St),
      (match extra with | none => true | some t => q t) = true → gallB q b = true →
      gexecFor ev' n x (extra.map f) (gmapB f b) items σ = gexecFor ev n x extra b items σ) := by
  intro n
  induction n with
  | zero => exact ⟨by intros; simp [gexec], by intros; simp [gexecB], by intros; simp [gexecFor]⟩
  | succ n ih =>
    obtain ⟨ihS, ihB, ihF⟩ := ih
    refine ⟨?_, ?_, ?_⟩
    · intro s σ hs
      cases s with
      | assign x e =>
          simp only [gallS] at hs
          simp only [gmapS, gexec, hq e hs]
      | expr e =>
          simp only [gallS] at hs
          simp only [gmapS, gexec, hq e hs]
      | ifS c t e =>
          simp only [gallS, Bool.and_eq_true] at hs
          simp only [gmapS, gexec, hq c hs.1.1]
          rcases ev c σ with ⟨ex | v, σ1⟩
          · rfl
          · simp only []
            split
            · exact ihB t σ1 hs.1.2
            · exact ihB e σ1 hs.2
      | whileS c b =>
          have hs' := hs
          simp only [gallS, Bool.and_eq_true] at hs
          have hw : ∀ σ2, gexec ev' n (.whileS (f c) (gmapB f b)) σ2 = gexec ev n (.whileS c b) σ2 := by
            intro σ2; have := ihS (.whileS c b) σ2 hs'; simpa only [gmapS] using this
          simp only [gmapS, gexec, hq c hs.1]
          rcases ev c σ with ⟨ex | v, σ1⟩
          · rfl
          · simp only []
            split
            · rfl
            · rw [ihB b σ1 hs.2]
              rcases gexecB ev n b σ1 with _ | ⟨o, σ2⟩
              · rfl
              · cases o <;> simp only [hw]
      | forS x it extra b =>
          simp only [gallS, Bool.and_eq_true] at hs
          simp only [gmapS, gexec, hq it hs.1.1]
          rcases ev it σ with ⟨ex | v, σ1⟩
          · rfl
          · simp only []
            cases iterItems v with
            | error ex => rfl
            | ok items =>
                simp only []
                cases extra with
                | none =>
                    simp only [Option.map]
                    exact ihF x none b items σ1 rfl hs.2
                | some t =>
                    have ht : q t = true := by simpa using hs.1.2
                    simp only [Option.map, hq t ht]
                    rcases ev t σ1 with ⟨ex | tv, σ2⟩
                    · rfl
                    · simp only []
                      split
                      · have := ihF x (some t) b items σ2 (by simpa using ht) hs.2
                        simpa only [Option.map] using this
                      · rfl
      | brk => simp [gmapS, gexec]
      | cont => simp [gmapS, gexec]
      | ret e =>
          cases e with
          | none => simp [gmapS, gexec]
          | some e =>
              simp only [gallS] at hs
              simp only [gmapS, gexec, Option.map, hq e hs]
      | raise t => simp [gmapS, gexec]
      | pass => simp [gmapS, gexec]
      | tryS body hs' fin =>
          simp only [gallS, Bool.and_eq_true] at hs
          simp only [gmapS, gexec, ihB body σ hs.1.1]
          rcases gexecB ev n body σ with _ | ⟨o, σ1⟩
          · rfl
          · simp only []
            cases o with
            | exc ex =>
                simp only [gfindHandler_map]
                cases hfh : gfindHandler hs' ex with
                | none => simp only [Option.map, ihB fin σ1 hs.2]
                | some hb =>
                    simp only [Option.map, ihB hb σ1 (gallH_find q hs' ex hb hs.1.2 hfh)]
                    rcases gexecB ev n hb σ1 with _ | ⟨o', σ2⟩
                    · rfl
                    · simp only [ihB fin σ2 hs.2]
            | normal => simp only [ihB fin σ1 hs.2]
            | brk => simp only [ihB fin σ1 hs.2]
            | cont => simp only [ihB fin σ1 hs.2]
            | ret v => simp only [ihB fin σ1 hs.2]
      | withS tag body =>
          simp only [gallS] at hs
          simp only [gmapS, gexec, ihB body _ hs]
    · intro b σ hb
      cases b with
      | nil => simp [gmapB, gexecB]
      | cons s rest =>
          simp only [gallB, Bool.and_eq_true] at hb
          simp only [gmapB, gexecB, ihS s σ hb.1]
          rcases gexec ev n s σ with _ | ⟨o, σ1⟩
          · rfl
          · cases o <;> simp only [ihB rest σ1 hb.2]
    · intro x extra b items σ hx hb
      cases items with
      | nil => simp [gexecFor]
      | cons v items =>
          simp only [gexecFor, ihB b _ hb]
          rcases gexecB ev n b (σ.set x v) with _ | ⟨o, σ1⟩
          · rfl
          · cases extra with
            | none =>
                have := ihF x none b items σ1 rfl hb
                simp only [Option.map] at this ⊢
                cases o <;> simp [this]
            | some t =>
                have ht : q t = true := by simpa using hx
                have hF : ∀ σ2, gexecFor ev' n x (some (f t)) (gmapB f b) items σ2 = gexecFor ev n x (some t) b items σ2 := by
                  intro σ2; have := ihF x (some t) b items σ2 hx hb; simpa only [Option.map] using this
                simp only [Option.map, hq t ht, hF]

end congr

/-! ### `Malt.Sem.exec` is `gexec (evalE X)` -/
theorem gfindHandler_toGH : ∀ (hs : List (Nat × Malt.Sem.Block)) (ex : Exc),
    gfindHandler (toGH hs) ex = (Malt.Sem.findHandler hs ex).map toGB := by
  intro hs ex
  cases ex with
  | user t =>
      induction hs with
      | nil => simp [toGH, gfindHandler, Malt.Sem.findHandler]
      | cons h hs ih =>
          obtain ⟨t', b⟩ := h
          simp only [toGH, gfindHandler, Malt.Sem.findHandler, List.find?] at ih ⊢
          by_cases ht : (t' == t) = true
          · simp [ht]
          · simp [ht]; simpa using ih
  | nameError x => simp [gfindHandler, Malt.Sem.findHandler]
  | typeError => simp [gfindHandler, Malt.Sem.findHandler]

theorem exec_eq_gexec_all (X : Ext) : ∀ (n : Nat),
    (∀ (s : Malt.Sem.Stmt) (σ : St), Malt.Sem.exec X n s σ = gexec (Malt.Sem.evalE X) n (toG s) σ) ∧
    (∀ (b : Malt.Sem.Block) (σ : St), Malt.Sem.execB X n b σ = gexecB (Malt.Sem.evalE X) n (toGB b) σ) ∧
    (∀ (x : Name) (extra : Option Malt.Sem.Expr) (b : Malt.Sem.Block) (items : List Val) (σ : St),
      Malt.Sem.execFor X n x extra b items σ = gexecFor (Malt.Sem.evalE X) n x extra (toGB b) items σ) := by
  intro n
  induction n with
  | zero => exact ⟨by intros; simp [Malt.Sem.exec, gexec], by intros; simp [Malt.Sem.execB, gexecB],
      by intros; simp [Malt.Sem.execFor, gexecFor]⟩
  | succ n ih =>
    obtain ⟨ihS, ihB, ihF⟩ := ih
    refine ⟨?_, ?_, ?_⟩
    · intro s σ
      cases s with
      | assign x e =>
          simp only [Malt.Sem.exec, toG, gexec]
          rcases Malt.Sem.evalE X e σ with ⟨ex | v, σ1⟩ <;> rfl
      | expr e =>
          simp only [Malt.Sem.exec, toG, gexec]
          rcases Malt.Sem.evalE X e σ with ⟨ex | v, σ1⟩ <;> rfl
      | ifS c t e =>
          simp only [Malt.Sem.exec, toG, gexec, ihB]
          rcases Malt.Sem.evalE X c σ with ⟨ex | v, σ1⟩ <;> rfl
      | whileS c b =>
          have hw : ∀ σ2, Malt.Sem.exec X n (.whileS c b) σ2 = gexec (Malt.Sem.evalE X) n (.whileS c (toGB b)) σ2 := by
            intro σ2; have := ihS (.whileS c b) σ2; simpa only [toG] using this
          simp only [Malt.Sem.exec, toG, gexec, ihB, hw]
          rcases Malt.Sem.evalE X c σ with ⟨ex | v, σ1⟩
          · rfl
          · simp only []
            split
            · rfl
            · rcases gexecB (Malt.Sem.evalE X) n (toGB b) σ1 with _ | ⟨o, σ2⟩
              · rfl
              · cases o <;> rfl
      | forS x it extra b =>
          simp only [Malt.Sem.exec, toG, gexec, ihF]
          rcases Malt.Sem.evalE X it σ with ⟨ex | v, σ1⟩
          · rfl
          · simp only []
            cases iterItems v with
            | error ex => rfl
            | ok items =>
                simp only []
                cases extra with
                | none => rfl
                | some t =>
                    simp only []
                    rcases Malt.Sem.evalE X t σ1 with ⟨ex | tv, σ2⟩ <;> rfl
      | brk => simp [Malt.Sem.exec, toG, gexec]
      | cont => simp [Malt.Sem.exec, toG, gexec]
      | ret e =>
          cases e with
          | none => simp [Malt.Sem.exec, toG, gexec]
          | some e =>
              simp only [Malt.Sem.exec, toG, gexec]
              rcases Malt.Sem.evalE X e σ with ⟨ex | v, σ1⟩ <;> rfl
      | raise t => simp [Malt.Sem.exec, toG, gexec]
      | pass => simp [Malt.Sem.exec, toG, gexec]
      | tryS body hs fin =>
          simp only [Malt.Sem.exec, toG, gexec, ihB]
          rcases gexecB (Malt.Sem.evalE X) n (toGB body) σ with _ | ⟨o, σ1⟩
          · rfl
          · simp only []
            cases o with
            | exc ex =>
                simp only [gfindHandler_toGH]
                cases Malt.Sem.findHandler hs ex with
                | none =>
                    simp only [Option.map]
                    rcases gexecB (Malt.Sem.evalE X) n (toGB fin) σ1 with _ | ⟨o2, σ3⟩
                    · rfl
                    · cases o2 <;> rfl
                | some hb =>
                    simp only [Option.map]
                    rcases gexecB (Malt.Sem.evalE X) n (toGB hb) σ1 with _ | ⟨o', σ2⟩
                    · rfl
                    · simp only []
                      rcases gexecB (Malt.Sem.evalE X) n (toGB fin) σ2 with _ | ⟨o2, σ3⟩
                      · rfl
                      · cases o2 <;> rfl
            | normal =>
                simp only []
                rcases gexecB (Malt.Sem.evalE X) n (toGB fin) σ1 with _ | ⟨o2, σ3⟩
                · rfl
                · cases o2 <;> rfl
            | brk =>
                simp only []
                rcases gexecB (Malt.Sem.evalE X) n (toGB fin) σ1 with _ | ⟨o2, σ3⟩
                · rfl
                · cases o2 <;> rfl
            | cont =>
                simp only []
                rcases gexecB (Malt.Sem.evalE X) n (toGB fin) σ1 with _ | ⟨o2, σ3⟩
                · rfl
                · cases o2 <;> rfl
            | ret v =>
                simp only []
                rcases gexecB (Malt.Sem.evalE X) n (toGB fin) σ1 with _ | ⟨o2, σ3⟩
                · rfl
                · cases o2 <;> rfl
      | withS tag body =>
          simp only [Malt.Sem.exec, toG, gexec, ihB]
          rcases gexecB (Malt.Sem.evalE X) n (toGB body) (σ.push (.enter tag)) with _ | ⟨o, σ1⟩ <;> rfl
    · intro b σ
      cases b with
      | nil => simp [Malt.Sem.execB, toGB, gexecB]
      | cons s rest =>
          simp only [Malt.Sem.execB, toGB, gexecB, ihS, ihB]
          rcases gexec (Malt.Sem.evalE X) n (toG s) σ with _ | ⟨o, σ1⟩
          · rfl
          · cases o <;> rfl
    · intro x extra b items σ
      cases items with
      | nil => simp [Malt.Sem.execFor, gexecFor]
      | cons v items =>
          simp only [Malt.Sem.execFor, gexecFor, ihB, ihF]
          rcases gexecB (Malt.Sem.evalE X) n (toGB b) (σ.set x v) with _ | ⟨o, σ1⟩
          · rfl
          · cases extra with
            | none => cases o <;> rfl
            | some t =>
                cases o <;> simp only [] <;> (try rfl)
                all_goals (rcases Malt.Sem.evalE X t σ1 with ⟨ex | tv, σ2⟩ <;> rfl)

mutual
theorem gallS_true {ε : Type} : ∀ (s : GStmt ε), gallS (fun _ => true) s = true
  | .assign .. => rfl
  | .expr .. => rfl
  | .ifS _ t e => by simp [gallS, gallB_true t, gallB_true e]
  | .whileS _ b => by simp [gallS, gallB_true b]
  | .forS _ _ extra b => by cases extra <;> simp [gallS, gallB_true b]
  | .brk => rfl
  | .cont => rfl
  | .ret e => by cases e <;> rfl
  | .raise _ => rfl
  | .pass => rfl
  | .tryS b hs f => by simp [gallS, gallB_true b, gallH_true hs, gallB_true f]
  | .withS _ b => by simp [gallS, gallB_true b]
theorem gallB_true {ε : Type} : ∀ (b : List (GStmt ε)), gallB (fun _ => true) b = true
  | [] => rfl
  | s :: ss => by simp [gallB, gallS_true s, gallB_true ss]
theorem gallH_true {ε : Type} : ∀ (hs : List (Nat × List (GStmt ε))), gallH (fun _ => true) hs = true
  | [] => rfl
  | (_, b) :: hs => by simp [gallH, gallB_true b, gallH_true hs]
end

end Malt.C01Exprs
