import MaltModel.Proofs.C04Traverse
import MaltModel.Conv.Logical
import MaltModel.Conv.IfExp
import MaltModel.Conv.Variables
/-
Helper lemmas for Props/C04.lean: what the rewrites of the logical / conditional-expression / variables
models produce is free of native constructs when their inputs are.
-/
namespace Malt.C04
open Malt.Py Malt.Conv Malt.Conv.NoNative

/-- A predicate that recognises node KINDS only: invariant under context adjustment and under replacing
the children, and false on the scaffolding the converters generate (calls, lambdas, names, attributes,
constants, argument lists, tuples). -/
structure KindPred (p : Expr → Bool) : Prop where
  ctx : CtxInvariant p
  kids : ∀ h e, p (kidsE h e) = p e
  call : ∀ i f a k, p (.call i f a k) = false
  lambda : ∀ i a b, p (.lambda i a b) = false
  arguments : ∀ i a b c d e f g, p (.arguments i a b c d e f g) = false
  attr : ∀ i v a c, p (.attr i v a c) = false
  name : ∀ i s c, p (.name i s c) = false
  const : ∀ i k r, p (.const i k r) = false
  none : p .noneMarker = false

theorem kindPred_isBoolOp : KindPred isBoolOp where
  ctx := by intro ov e; cases e <;> simp [adjustCtx, isBoolOp]; rename_i k _ _; cases k <;> simp [adjustCtx]
  kids := by intro h e; cases e <;> simp [kidsE, isBoolOp]
  call := by intros; rfl
  lambda := by intros; rfl
  arguments := by intros; rfl
  attr := by intros; rfl
  name := by intros; rfl
  const := by intros; rfl
  none := rfl

theorem kindPred_isIfExp : KindPred isIfExp where
  ctx := by intro ov e; cases e <;> simp [adjustCtx, isIfExp]; rename_i k _ _; cases k <;> simp [adjustCtx]
  kids := by intro h e; cases e <;> simp [kidsE, isIfExp]
  call := by intros; rfl
  lambda := by intros; rfl
  arguments := by intros; rfl
  attr := by intros; rfl
  name := by intros; rfl
  const := by intros; rfl
  none := rfl

theorem kindPred_nativeLogical (eqOn : Bool) : KindPred (nativeLogical eqOn) where
  ctx := by
    intro ov e
    cases e <;> simp [adjustCtx, nativeLogical, isBoolOp, isNot, isEqCompare]
    rename_i k _ _; cases k <;> simp [adjustCtx]
  kids := by intro h e; cases e <;> simp [kidsE, nativeLogical, isBoolOp, isNot, isEqCompare]
  call := by intros; rfl
  lambda := by intros; rfl
  arguments := by intros; rfl
  attr := by intros; rfl
  name := by intros; rfl
  const := by intros; rfl
  none := rfl

private theorem orf {a b : Bool} : (a || b) = false ↔ a = false ∧ b = false := by
  cases a <;> cases b <;> simp

theorem tmplArg_lambda (i : Nat) (a b : Expr) : tmplArg (.lambda i a b) = .lambda i a b := by
  simp [tmplArg, tmplArgCtx, hasCtx]

theorem tmplArg_call (i : Nat) (f : Expr) (a k : List Expr) : tmplArg (.call i f a k) = .call i f a k := by
  simp [tmplArg, tmplArgCtx, hasCtx]

section scaffold
variable {p : Expr → Bool} (K : KindPred p)
include K

theorem anyE_ag (op : String) : anyE p (ag op) = false := by
  simp [ag, nm, anyE, anyKids, K.attr, K.name]

theorem anyE_thunk (e : Expr) : anyE p (thunk e) = anyE p e := by
  have h1 := anyE_tmplArg p K.ctx e
  simp only [anyE] at h1
  simp [thunk, noArgs, anyE, anyKids, anyKidsL, K.lambda, K.arguments, h1]

theorem anyE_call1 (op : String) (a : Expr) : anyE p (.call 0 (ag op) [tmplArg a] []) = anyE p a := by
  have h0 := anyE_ag K op
  have h1 := anyE_tmplArg p K.ctx a
  simp only [anyE] at h0 h1
  simp [anyE, anyKids, anyKidsL, K.call, h0, h1]

theorem anyE_call2 (op : String) (a b : Expr) :
    anyE p (.call 0 (ag op) [tmplArg a, tmplArg b] []) = (anyE p a || anyE p b) := by
  have h0 := anyE_ag K op
  have h1 := anyE_tmplArg p K.ctx a
  have h2 := anyE_tmplArg p K.ctx b
  simp only [anyE] at h0 h1 h2
  simp [anyE, anyKids, anyKidsL, K.call, h0, h1, h2]

/-! #### logical_expressions -/
theorem foldBool_free (f : String) : ∀ (vs : List Expr), anyKidsL p vs = false → anyE p (Logical.foldBool f vs) = false
  | [], _ => by simp [Logical.foldBool, anyE, anyKids, K.none]
  | [x], h => by
      simp only [anyKidsL, orf] at h
      simp [Logical.foldBool, anyE, h.1.1, h.1.2]
  | x :: y :: rest, h => by
      have h' := h
      simp only [anyKidsL, orf] at h
      have ih := foldBool_free f (y :: rest) (by simp [anyKidsL, h.2.1.1, h.2.1.2, h.2.2])
      have hx : anyE p x = false := by simp [anyE, h.1.1, h.1.2]
      simp only [Logical.foldBool, Logical.fn2]
      rw [anyE_call2 K, anyE_thunk K, anyE_thunk K, hx, ih]; rfl

theorem binCmp_free (eqOn : Bool)
    (hcmp : ∀ op l r, Logical.overloadOf eqOn op = none → p (.compare 0 l [op] [r]) = false)
    (op : String) (l r : Expr) (hl : anyE p l = false) (hr : anyE p r = false) :
    anyE p (Logical.binCmp eqOn op l r) = false := by
  unfold Logical.binCmp
  cases ho : Logical.overloadOf eqOn op with
  | some f => simp only [Logical.fn2]; rw [anyE_call2 K, hl, hr]; rfl
  | none =>
      have h1 := anyE_tmplArg p K.ctx l
      have h2 := anyE_tmplArg p K.ctx r
      rw [hl] at h1; rw [hr] at h2
      simp only [anyE, orf] at h1 h2
      simp [anyE, anyKids, anyKidsL, hcmp op _ _ ho, h1.1, h1.2, h2.1, h2.2]

theorem chain_free (eqOn : Bool)
    (hcmp : ∀ op l r, Logical.overloadOf eqOn op = none → p (.compare 0 l [op] [r]) = false) :
    ∀ (ops : List String) (rs : List Expr) (acc : Option Expr) (left : Expr),
      (∀ t, acc = some t → anyE p t = false) → anyE p left = false → anyKidsL p rs = false →
      ∀ t, Logical.chain eqOn acc left ops rs = some t → anyE p t = false
  | [], _, acc, left, ha, _, _, t, ht => by
      simp [Logical.chain] at ht; exact ha t ht
  | _ :: _, [], acc, left, ha, _, _, t, ht => by
      simp [Logical.chain] at ht; exact ha t ht
  | op :: ops, r :: rs, acc, left, ha, hl, hr, t, ht => by
      simp only [anyKidsL, orf] at hr
      have hr1 : anyE p r = false := by simp [anyE, hr.1.1, hr.1.2]
      have hb := binCmp_free K eqOn hcmp op left r hl hr1
      simp only [Logical.chain] at ht
      refine chain_free eqOn hcmp ops rs _ r ?_ hr1 hr.2 t ht
      intro t' ht'
      cases acc with
      | none => simp at ht'; rw [← ht']; exact hb
      | some a =>
          simp at ht'
          rw [← ht']
          simp only [Logical.fn2]
          rw [anyE_call2 K, anyE_thunk K, anyE_thunk K, ha a rfl, hb]; rfl

end scaffold

/-- the node classes `LogicalExpressionTransformer` has a visitor for -/
def rewrittenByLogical : Expr → Bool
  | .compare .. => true
  | .unary .. => true
  | .boolop .. => true
  | _ => false

section scaffold
variable {p : Expr → Bool} (K : KindPred p)
include K

/-- `visit_X` of the logical converter applied to a node whose (already visited) children are `p`-free,
for the three node classes it rewrites. -/
theorem logical_post_rewrites_free (eqOn : Bool)
    (hcmp : ∀ op l r, Logical.overloadOf eqOn op = none → p (.compare 0 l [op] [r]) = false)
    (hun : ∀ i op e, Logical.overloadOf eqOn op = none → p (.unary i op e) = false) :
    ∀ e', anyKids p e' = false → rewrittenByLogical e' = true → anyE p (Logical.post eqOn e') = false
  | .boolop i isAnd vs, hk, _ => by
      simp only [anyKids] at hk
      simp only [Logical.post]
      exact foldBool_free K _ vs hk
  | .compare i l ops rs, hk, _ => by
      simp only [anyKids, orf] at hk
      have hl : anyE p l = false := by simp [anyE, hk.1.1, hk.1.2]
      simp only [Logical.post]
      cases hc : Logical.chain eqOn none l ops rs with
      | none => simp [anyE, anyKids, K.none]
      | some t =>
          simp only [Option.getD]
          exact chain_free K eqOn hcmp ops rs none l (by intro t h; simp at h) hl hk.2 t hc
  | .unary i op e, hk, _ => by
      simp only [anyKids, orf] at hk
      have he : anyE p e = false := by simp [anyE, hk.1, hk.2]
      simp only [Logical.post]
      cases ho : Logical.overloadOf eqOn op with
      | some f => simp only [Logical.fn1]; rw [anyE_call1 K, he]
      | none => simp [anyE, anyKids, hun i op e ho, hk.1, hk.2]
  | .name .., _, h => by simp [rewrittenByLogical] at h
  | .const .., _, h => by simp [rewrittenByLogical] at h
  | .noneMarker, _, h => by simp [rewrittenByLogical] at h
  | .attr .., _, h => by simp [rewrittenByLogical] at h
  | .subscript .., _, h => by simp [rewrittenByLogical] at h
  | .call .., _, h => by simp [rewrittenByLogical] at h
  | .keyword .., _, h => by simp [rewrittenByLogical] at h
  | .binop .., _, h => by simp [rewrittenByLogical] at h
  | .ifexp .., _, h => by simp [rewrittenByLogical] at h
  | .lambda .., _, h => by simp [rewrittenByLogical] at h
  | .seq .., _, h => by simp [rewrittenByLogical] at h
  | .starred .., _, h => by simp [rewrittenByLogical] at h
  | .namedexpr .., _, h => by simp [rewrittenByLogical] at h
  | .comp .., _, h => by simp [rewrittenByLogical] at h
  | .comprehension .., _, h => by simp [rewrittenByLogical] at h
  | .arguments .., _, h => by simp [rewrittenByLogical] at h
  | .arg .., _, h => by simp [rewrittenByLogical] at h
  | .withitem .., _, h => by simp [rewrittenByLogical] at h
  | .other .., _, h => by simp [rewrittenByLogical] at h

omit K in
/-- the logical converter leaves every other node class alone -/
theorem logical_post_other (eqOn : Bool) :
    ∀ e', rewrittenByLogical e' = false → Logical.post eqOn e' = e' := by
  intro e' h
  cases e' <;> simp [Logical.post, rewrittenByLogical] at *

/-! #### conditional_expressions -/
theorem rewrite_free (r : Nat → String) (i : Nat) (t b e : Expr)
    (ht : anyE p t = false) (hb : anyE p b = false) (he : anyE p e = false) :
    anyE p (IfExp.rewrite r i t b e) = false := by
  have h0 := anyE_ag K "if_exp"
  have h1 := anyE_tmplArg p K.ctx t
  have h2 := anyE_thunk K b
  have h3 := anyE_thunk K e
  rw [ht] at h1; rw [hb] at h2; rw [he] at h3
  simp only [anyE, orf] at h0 h1 h2 h3
  simp [IfExp.rewrite, anyE, anyKids, anyKidsL, K.call, K.const, h0.1, h0.2, h1.1, h1.2, h2.1, h2.2, h3.1, h3.2]

end scaffold

/-! #### nothing satisfies the constantly-false predicate -/
mutual
theorem anyKids_false : ∀ (e : Expr), anyKids (fun _ => false) e = false
  | .name .. => by simp [anyKids]
  | .const .. => by simp [anyKids]
  | .noneMarker => by simp [anyKids]
  | .attr _ v _ _ => by simp [anyKids, anyKids_false v]
  | .subscript _ v s _ => by simp [anyKids, anyKids_false v, anyKids_false s]
  | .call _ f as ks => by simp [anyKids, anyKids_false f, anyKidsL_false as, anyKidsL_false ks]
  | .keyword _ _ _ v => by simp [anyKids, anyKids_false v]
  | .boolop _ _ vs => by simp [anyKids, anyKidsL_false vs]
  | .unary _ _ e => by simp [anyKids, anyKids_false e]
  | .binop _ _ l r => by simp [anyKids, anyKids_false l, anyKids_false r]
  | .compare _ l _ rs => by simp [anyKids, anyKids_false l, anyKidsL_false rs]
  | .ifexp _ t b e => by simp [anyKids, anyKids_false t, anyKids_false b, anyKids_false e]
  | .lambda _ a b => by simp [anyKids, anyKids_false a, anyKids_false b]
  | .seq _ _ es _ => by simp [anyKids, anyKidsL_false es]
  | .starred _ v _ => by simp [anyKids, anyKids_false v]
  | .namedexpr _ t v => by simp [anyKids, anyKids_false t, anyKids_false v]
  | .comp _ _ es gs => by simp [anyKids, anyKidsL_false es, anyKidsL_false gs]
  | .comprehension _ t it ifs _ => by simp [anyKids, anyKids_false t, anyKids_false it, anyKidsL_false ifs]
  | .arguments _ a b c d e f g => by
      simp [anyKids, anyKidsL_false a, anyKidsL_false b, anyKidsL_false c, anyKidsL_false d, anyKidsL_false e,
        anyKidsL_false f, anyKidsL_false g]
  | .arg _ _ an => by simp [anyKids, anyKidsL_false an]
  | .withitem _ c v => by simp [anyKids, anyKids_false c, anyKidsL_false v]
  | .other _ _ _ ks => by simp [anyKids, anyKidsL_false ks]
theorem anyKidsL_false : ∀ (es : List Expr), anyKidsL (fun _ => false) es = false
  | [] => by simp [anyKidsL]
  | e :: es => by simp [anyKidsL, anyKids_false e, anyKidsL_false es]
end

theorem anyE_false (e : Expr) : anyE (fun _ => false) e = false := by simp [anyE, anyKids_false e]

mutual
theorem anyS_false : ∀ (s : Stmt), anyS (fun _ => false) s = false
  | .functionDef _ _ a b d r _ => by simp [anyS, anyE_false, anyEs, anyKidsL_false, anyB_false b]
  | .classDef _ _ bs ks b ds => by simp [anyS, anyEs, anyKidsL_false, anyB_false b]
  | .ret _ v => by simp [anyS, anyEs, anyKidsL_false]
  | .delete _ ts => by simp [anyS, anyEs, anyKidsL_false]
  | .assign _ ts v => by simp [anyS, anyEs, anyKidsL_false, anyE_false]
  | .augAssign _ t _ v => by simp [anyS, anyE_false]
  | .annAssign _ t an v _ => by simp [anyS, anyEs, anyKidsL_false, anyE_false]
  | .for_ _ t it b e _ _ => by simp [anyS, anyE_false, anyB_false b, anyB_false e]
  | .while_ _ t b e => by simp [anyS, anyE_false, anyB_false b, anyB_false e]
  | .if_ _ t b e => by simp [anyS, anyE_false, anyB_false b, anyB_false e]
  | .with_ _ its b _ => by simp [anyS, anyEs, anyKidsL_false, anyB_false b]
  | .raise _ e c => by simp [anyS, anyEs, anyKidsL_false]
  | .try_ _ b hs e f => by simp [anyS, anyB_false b, anyB_false hs, anyB_false e, anyB_false f]
  | .handler _ t _ b => by simp [anyS, anyEs, anyKidsL_false, anyB_false b]
  | .assert_ _ t m => by simp [anyS, anyEs, anyKidsL_false, anyE_false]
  | .import_ .. => by simp [anyS]
  | .importFrom .. => by simp [anyS]
  | .global .. => by simp [anyS]
  | .nonlocal .. => by simp [anyS]
  | .expr _ v => by simp [anyS, anyE_false]
  | .pass .. => by simp [anyS]
  | .break_ .. => by simp [anyS]
  | .continue_ .. => by simp [anyS]
  | .other _ _ es bs => by simp [anyS, anyEs, anyKidsL_false, anyB_false bs]
theorem anyB_false : ∀ (b : List Stmt), anyB (fun _ => false) b = false
  | [] => by simp [anyB]
  | s :: ss => by simp [anyB, anyS_false s, anyB_false ss]
end

theorem anyKidsL_filter (p : Expr → Bool) (q : Expr → Bool) :
    ∀ (es : List Expr), anyKidsL p es = false → anyKidsL p (es.filter q) = false
  | [], _ => by simp [anyKidsL]
  | e :: es, h => by
      simp only [anyKidsL, orf] at h
      by_cases hq : q e = true
      · simp [List.filter, hq, anyKidsL, h.1.1, h.1.2, anyKidsL_filter p q es h.2]
      · simp [List.filter, hq, anyKidsL_filter p q es h.2]

/-! ### bridge: kind-based freeness ⇒ the checker can only complain about calls -/
/-- every offender is a call -/
def OC (l : List Off) : Prop := ∀ o ∈ l, o.kind = "Call"

theorem OC_nil : OC [] := by intro o h; cases h
theorem OC_append {a b : List Off} : OC (a ++ b) ↔ OC a ∧ OC b := by
  constructor
  · intro h; exact ⟨fun o ho => h o (List.mem_append_left _ ho), fun o ho => h o (List.mem_append_right _ ho)⟩
  · intro ⟨ha, hb⟩ o ho
    rcases List.mem_append.mp ho with h | h
    · exact ha o h
    · exact hb o h
theorem OC_callIte (c : Bool) (i : Nat) (d : String) : OC (if c then [] else [⟨"Call", i, d⟩]) := by
  cases c <;> simp [OC]

mutual
theorem off_only_calls (cfg : Cfg) (sc : List String) (w : Bool) :
    ∀ (e : Expr) (pos : Pos), anyE (nativeExprKind cfg.eqOn) e = false → OC (offE cfg sc w pos e)
  | .name .., _, _ => by simp [offE, OC_nil]
  | .const .., _, _ => by simp [offE, OC_nil]
  | .noneMarker, _, _ => by simp [offE, OC_nil]
  | .call i f as ks, pos, h => by
      simp only [anyE, anyKids, orf] at h
      have hf : anyE (nativeExprKind cfg.eqOn) f = false := by simp [anyE, h.2.1.1.1, h.2.1.1.2]
      simp only [offE, OC_append]
      exact ⟨⟨⟨OC_callIte _ _ _, off_only_calls cfg sc w f _ hf⟩, offs_only_calls cfg sc w as _ h.2.1.2⟩,
        offs_only_calls cfg sc w ks _ h.2.2⟩
  | .boolop .., _, h => by simp [anyE, nativeExprKind, nativeLogical, isBoolOp] at h
  | .ifexp .., _, h => by simp [anyE, nativeExprKind, isIfExp] at h
  | .unary i op e, pos, h => by
      simp only [anyE, anyKids, orf] at h
      have hn : (op == "Not") = false := by
        have := h.1; simpa [nativeExprKind, nativeLogical, isBoolOp, isNot, isEqCompare, isIfExp] using this
      have he : anyE (nativeExprKind cfg.eqOn) e = false := by simp [anyE, h.2.1, h.2.2]
      simp only [offE, hn, OC_append]
      exact ⟨by simp [OC_nil], off_only_calls cfg sc w e _ he⟩
  | .compare i l ops rs, pos, h => by
      simp only [anyE, anyKids, orf] at h
      have hc : compareOk cfg ops = true := by
        have := h.1
        simp only [nativeExprKind, nativeLogical, isBoolOp, isNot, isEqCompare, isIfExp, Bool.false_or, Bool.or_false] at this
        simp [compareOk, this]
      have hl : anyE (nativeExprKind cfg.eqOn) l = false := by simp [anyE, h.2.1.1, h.2.1.2]
      simp only [offE, hc, if_true, List.nil_append, OC_append]
      exact ⟨off_only_calls cfg sc w l _ hl, offs_only_calls cfg sc w rs _ h.2.2⟩
  | .binop i op l r, pos, h => by
      simp only [anyE, anyKids, orf] at h
      simp only [offE, OC_append]
      exact ⟨off_only_calls cfg sc w l _ (by simp [anyE, h.2.1.1, h.2.1.2]),
        off_only_calls cfg sc w r _ (by simp [anyE, h.2.2.1, h.2.2.2])⟩
  | .attr i v a c, pos, h => by
      simp only [anyE, anyKids, orf] at h
      simp only [offE]; exact off_only_calls cfg sc w v _ (by simp [anyE, h.2.1, h.2.2])
  | .subscript i v s c, pos, h => by
      simp only [anyE, anyKids, orf] at h
      simp only [offE, OC_append]
      exact ⟨off_only_calls cfg sc w v _ (by simp [anyE, h.2.1.1, h.2.1.2]),
        off_only_calls cfg sc w s _ (by simp [anyE, h.2.2.1, h.2.2.2])⟩
  | .keyword i a hh v, pos, h => by
      simp only [anyE, anyKids, orf] at h
      simp only [offE]; exact off_only_calls cfg sc w v _ (by simp [anyE, h.2.1, h.2.2])
  | .lambda i a b, pos, h => by
      simp only [anyE, anyKids, orf] at h
      simp only [offE, OC_append]
      exact ⟨off_only_calls cfg sc w a _ (by simp [anyE, h.2.1.1, h.2.1.2]),
        off_only_calls cfg sc w b _ (by simp [anyE, h.2.2.1, h.2.2.2])⟩
  | .seq i k es c, pos, h => by
      simp only [anyE, anyKids, orf] at h
      simp only [offE]; exact offs_only_calls cfg sc w es _ h.2
  | .starred i v c, pos, h => by
      simp only [anyE, anyKids, orf] at h
      simp only [offE]; exact off_only_calls cfg sc w v _ (by simp [anyE, h.2.1, h.2.2])
  | .namedexpr i t v, pos, h => by
      simp only [anyE, anyKids, orf] at h
      simp only [offE, OC_append]
      exact ⟨off_only_calls cfg sc w t _ (by simp [anyE, h.2.1.1, h.2.1.2]),
        off_only_calls cfg sc w v _ (by simp [anyE, h.2.2.1, h.2.2.2])⟩
  | .comp i k es gs, pos, h => by
      simp only [anyE, anyKids, orf] at h
      simp only [offE, OC_append]
      exact ⟨offs_only_calls cfg sc w es _ h.2.1, offs_only_calls cfg sc w gs _ h.2.2⟩
  | .comprehension i t it ifs a, pos, h => by
      simp only [anyE, anyKids, orf] at h
      simp only [offE, OC_append]
      exact ⟨⟨off_only_calls cfg sc w t _ (by simp [anyE, h.2.1.1.1, h.2.1.1.2]),
        off_only_calls cfg sc w it _ (by simp [anyE, h.2.1.2.1, h.2.1.2.2])⟩, offs_only_calls cfg sc w ifs _ h.2.2⟩
  | .arguments i a b c d e f g, pos, h => by
      simp only [anyE, anyKids, orf] at h
      obtain ⟨_, ⟨⟨⟨⟨⟨⟨h1, h2⟩, h3⟩, h4⟩, h5⟩, h6⟩, h7⟩⟩ := h
      simp only [offE, OC_append]
      exact ⟨⟨⟨⟨⟨⟨offs_only_calls cfg sc w a _ h1, offs_only_calls cfg sc w b _ h2⟩, offs_only_calls cfg sc w c _ h3⟩,
        offs_only_calls cfg sc w d _ h4⟩, offs_only_calls cfg sc w e _ h5⟩, offs_only_calls cfg sc w f _ h6⟩,
        offs_only_calls cfg sc w g _ h7⟩
  | .arg i n an, pos, h => by
      simp only [anyE, anyKids, orf] at h
      simp only [offE]; exact offs_only_calls cfg sc w an _ h.2
  | .withitem i c v, pos, h => by
      simp only [anyE, anyKids, orf] at h
      simp only [offE, OC_append]
      exact ⟨off_only_calls cfg sc w c _ (by simp [anyE, h.2.1.1, h.2.1.2]), offs_only_calls cfg sc w v _ h.2.2⟩
  | .other i k ats ks, pos, h => by
      simp only [anyE, anyKids, orf] at h
      simp only [offE]; exact offs_only_calls cfg sc w ks _ h.2
theorem offs_only_calls (cfg : Cfg) (sc : List String) (w : Bool) :
    ∀ (es : List Expr) (ps : List Pos), anyKidsL (nativeExprKind cfg.eqOn) es = false → OC (offEs cfg sc w ps es)
  | [], _, _ => by simp [offEs, OC_nil]
  | e :: es, ps, h => by
      simp only [anyKidsL, orf] at h
      simp only [offEs, OC_append]
      exact ⟨off_only_calls cfg sc w e _ (by simp [anyE, h.1.1, h.1.2]), offs_only_calls cfg sc w es _ h.2⟩
end

/-! ### statement-level bridge -/
def stmtOrCallKinds : List String := ["Call", "If", "While", "For", "Break", "Continue", "Return"]

/-- every offender is a call or a statement construct -/
def SC (l : List Off) : Prop := ∀ o ∈ l, o.kind ∈ stmtOrCallKinds

theorem SC_nil : SC [] := by intro o h; cases h
theorem SC_append {a b : List Off} : SC (a ++ b) ↔ SC a ∧ SC b := by
  constructor
  · intro h; exact ⟨fun o ho => h o (List.mem_append_left _ ho), fun o ho => h o (List.mem_append_right _ ho)⟩
  · intro ⟨ha, hb⟩ o ho
    rcases List.mem_append.mp ho with h | h
    · exact ha o h
    · exact hb o h
theorem SC_of_OC {l : List Off} (h : OC l) : SC l := by
  intro o ho; rw [h o ho]; decide
theorem SC_cons {k : String} {i : Nat} {d : String} {l : List Off} (hk : k ∈ stmtOrCallKinds) (h : SC l) : SC (⟨k, i, d⟩ :: l) := by
  intro o ho
  rcases List.mem_cons.mp ho with rfl | h'
  · exact hk
  · exact h o h'

mutual
theorem offS_kinds (cfg : Cfg) : ∀ (s : Stmt) (sc roles : List String) (t : Bool),
    anyS (nativeExprKind cfg.eqOn) s = false → SC (offS cfg sc roles t s)
  | .functionDef i n as b ds rs isA, sc, roles, t, h => by
      simp only [anyS, orf] at h
      simp only [offS, SC_append]
      exact ⟨⟨⟨SC_of_OC (off_only_calls cfg sc false as _ h.1.1.1), SC_of_OC (offs_only_calls cfg sc false ds _ h.1.2)⟩,
        SC_of_OC (offs_only_calls cfg sc false rs _ h.2)⟩, offB_kinds cfg b _ _ _ h.1.1.2⟩
  | .classDef i n bs ks b ds, sc, roles, t, h => by
      simp only [anyS, orf] at h
      simp only [offS, SC_append]
      exact ⟨⟨⟨SC_of_OC (offs_only_calls cfg sc false bs _ h.1.1.1), SC_of_OC (offs_only_calls cfg sc false ks _ h.1.1.2)⟩,
        SC_of_OC (offs_only_calls cfg sc false ds _ h.2)⟩, offB_kinds cfg b _ _ _ h.1.2⟩
  | .ret i v, sc, roles, t, h => by
      simp only [anyS] at h
      simp only [offS, SC_append]
      refine ⟨?_, SC_of_OC (offs_only_calls cfg sc false v _ h)⟩
      split
      · exact SC_nil
      · exact SC_cons (by decide) SC_nil
  | .delete i ts, sc, roles, t, h => by
      simp only [anyS] at h; simp only [offS]; exact SC_of_OC (offs_only_calls cfg sc false ts _ h)
  | .assign i ts v, sc, roles, t, h => by
      simp only [anyS, orf] at h; simp only [offS, SC_append]
      exact ⟨SC_of_OC (offs_only_calls cfg sc false ts _ h.1), SC_of_OC (off_only_calls cfg sc false v _ h.2)⟩
  | .augAssign i tg op v, sc, roles, t, h => by
      simp only [anyS, orf] at h; simp only [offS, SC_append]
      exact ⟨SC_of_OC (off_only_calls cfg sc false tg _ h.1), SC_of_OC (off_only_calls cfg sc false v _ h.2)⟩
  | .annAssign i tg an v s, sc, roles, t, h => by
      simp only [anyS, orf] at h; simp only [offS, SC_append]
      exact ⟨⟨SC_of_OC (off_only_calls cfg sc false tg _ h.1.1), SC_of_OC (off_only_calls cfg sc false an _ h.1.2)⟩,
        SC_of_OC (offs_only_calls cfg sc false v _ h.2)⟩
  | .for_ i tg it b e x isA, sc, roles, t, h => by
      simp only [anyS, orf] at h; simp only [offS]
      refine SC_cons (by decide) ?_
      simp only [SC_append]
      exact ⟨⟨⟨SC_of_OC (off_only_calls cfg sc false tg _ h.1.1.1), SC_of_OC (off_only_calls cfg sc false it _ h.1.1.2)⟩,
        offB_kinds cfg b _ _ _ h.1.2⟩, offB_kinds cfg e _ _ _ h.2⟩
  | .while_ i c b e, sc, roles, t, h => by
      simp only [anyS, orf] at h; simp only [offS]
      refine SC_cons (by decide) ?_
      simp only [SC_append]
      exact ⟨⟨SC_of_OC (off_only_calls cfg sc false c _ h.1.1), offB_kinds cfg b _ _ _ h.1.2⟩, offB_kinds cfg e _ _ _ h.2⟩
  | .if_ i c b e, sc, roles, t, h => by
      simp only [anyS, orf] at h; simp only [offS]
      refine SC_cons (by decide) ?_
      simp only [SC_append]
      exact ⟨⟨SC_of_OC (off_only_calls cfg sc false c _ h.1.1), offB_kinds cfg b _ _ _ h.1.2⟩, offB_kinds cfg e _ _ _ h.2⟩
  | .with_ i its b isA, sc, roles, t, h => by
      simp only [anyS, orf] at h; simp only [offS, SC_append]
      exact ⟨SC_of_OC (offs_only_calls cfg sc true its _ h.1), offB_kinds cfg b _ _ _ h.2⟩
  | .raise i e c, sc, roles, t, h => by
      simp only [anyS, orf] at h; simp only [offS, SC_append]
      exact ⟨SC_of_OC (offs_only_calls cfg sc false e _ h.1), SC_of_OC (offs_only_calls cfg sc false c _ h.2)⟩
  | .try_ i b hs e f, sc, roles, t, h => by
      simp only [anyS, orf] at h; simp only [offS, SC_append]
      exact ⟨⟨⟨offB_kinds cfg b _ _ _ h.1.1.1, offB_kinds cfg hs _ _ _ h.1.1.2⟩, offB_kinds cfg e _ _ _ h.1.2⟩,
        offB_kinds cfg f _ _ _ h.2⟩
  | .handler i ty n b, sc, roles, t, h => by
      simp only [anyS, orf] at h; simp only [offS, SC_append]
      exact ⟨SC_of_OC (offs_only_calls cfg sc false ty _ h.1), offB_kinds cfg b _ _ _ h.2⟩
  | .assert_ i c m, sc, roles, t, h => by
      simp only [anyS, orf] at h; simp only [offS, SC_append]
      exact ⟨SC_of_OC (off_only_calls cfg sc false c _ h.1), SC_of_OC (offs_only_calls cfg sc false m _ h.2)⟩
  | .import_ .., _, _, _, _ => by simp [offS, SC_nil]
  | .importFrom .., _, _, _, _ => by simp [offS, SC_nil]
  | .global .., _, _, _, _ => by simp [offS, SC_nil]
  | .nonlocal .., _, _, _, _ => by simp [offS, SC_nil]
  | .expr i v, sc, roles, t, h => by
      simp only [anyS] at h; simp only [offS]; exact SC_of_OC (off_only_calls cfg sc false v _ h)
  | .pass .., _, _, _, _ => by simp [offS, SC_nil]
  | .break_ .., _, _, _, _ => by simp only [offS]; exact SC_cons (by decide) SC_nil
  | .continue_ .., _, _, _, _ => by simp only [offS]; exact SC_cons (by decide) SC_nil
  | .other i k es bs, sc, roles, t, h => by
      simp only [anyS, orf] at h; simp only [offS, SC_append]
      exact ⟨SC_of_OC (offs_only_calls cfg sc false es _ h.1), offB_kinds cfg bs _ _ _ h.2⟩
theorem offB_kinds (cfg : Cfg) : ∀ (b : List Stmt) (sc roles : List String) (t : Bool),
    anyB (nativeExprKind cfg.eqOn) b = false → SC (offB cfg sc roles t b)
  | [], _, _, _, _ => by simp [offB, SC_nil]
  | s :: ss, sc, roles, t, h => by
      simp only [anyB, orf] at h; simp only [offB, SC_append]
      exact ⟨offS_kinds cfg s _ _ _ h.1, offB_kinds cfg ss _ _ _ h.2⟩
end

end Malt.C04
